// c14collide searches two distinct chain33 transactions whose Hash() agree on the first 8 bytes (the short key
// "STX:"+hash[:8] of the txindex plugin), by a parallel distinguished-point collision search over the 8-byte payload of
// a fixed "none" transaction (about 2^32.5 hash evaluations). Output: two payloads in hex; h_c14 rebuilds and signs the
// transactions from them (corpus/C14/stx_pair.txt).
package main

import (
	"bytes"
	"crypto/sha256"
	"encoding/binary"
	"encoding/hex"
	"fmt"
	"os"
	"runtime"
	"sync"
	"time"

	"github.com/33cn/chain33/common/address"
	"github.com/33cn/chain33/types"
	"github.com/33cn/chain33/util/testnode"
)

// Template is the transaction the pair is built from (shared with h_c14).
func Template(cfg *types.Chain33Config, payload []byte) *types.Transaction {
	return &types.Transaction{Execer: []byte("none"), Payload: payload, To: address.ExecAddress("none"), Fee: 1000000, Nonce: 7, ChainID: cfg.GetChainID()}
}

var (
	tmpl []byte
	off  int
)

func f(x uint64, buf []byte) uint64 {
	binary.BigEndian.PutUint64(buf[off:], x)
	h := sha256.Sum256(buf)
	return binary.BigEndian.Uint64(h[:8])
}

const dpBits = 22

type trail struct {
	start uint64
	n     uint64
}

func main() {
	cfg := testnode.GetDefaultConfig()
	marker := []byte{0xa1, 0xb2, 0xc3, 0xd4, 0xe5, 0xf6, 0x07, 0x18}
	tmpl = types.Encode(Template(cfg, marker))
	off = bytes.Index(tmpl, marker)
	if off < 0 {
		panic("marker")
	}
	// sanity: f reproduces tx.Hash()
	{
		buf := append([]byte{}, tmpl...)
		x := uint64(0x0102030405060708)
		p := make([]byte, 8)
		binary.BigEndian.PutUint64(p, x)
		want := Template(cfg, p).Hash()
		if f(x, buf) != binary.BigEndian.Uint64(want[:8]) {
			panic("template hash mismatch")
		}
	}
	var mu sync.Mutex
	seen := map[uint64]trail{}
	found := make(chan [2]uint64, 1)
	var total uint64
	t0 := time.Now()
	nw := runtime.NumCPU()
	for w := 0; w < nw; w++ {
		go func(w int) {
			buf := append([]byte{}, tmpl...)
			seed := uint64(time.Now().UnixNano()) ^ (uint64(w) * 0x9e3779b97f4a7c15)
			for {
				seed = seed*6364136223846793005 + 1442695040888963407
				start := seed
				x := start
				var n uint64
				for n = 1; n < 40<<dpBits; n++ {
					x = f(x, buf)
					if x>>(64-dpBits) == 0 {
						break
					}
				}
				if x>>(64-dpBits) != 0 {
					continue
				}
				mu.Lock()
				total += n
				prev, ok := seen[x]
				if !ok {
					seen[x] = trail{start, n}
				}
				mu.Unlock()
				if ok && prev.start != start {
					// locate: align the two trails, then walk in lockstep
					a, an, b, bn := prev.start, prev.n, start, n
					for an > bn {
						a = f(a, buf)
						an--
					}
					for bn > an {
						b = f(b, buf)
						bn--
					}
					if a == b {
						continue // one trail is a suffix of the other
					}
					for i := uint64(0); i < an; i++ {
						na, nb := f(a, buf), f(b, buf)
						if na == nb {
							select {
							case found <- [2]uint64{a, b}:
							default:
							}
							return
						}
						a, b = na, nb
					}
				}
			}
		}(w)
	}
	tick := time.NewTicker(30 * time.Second)
	for {
		select {
		case p := <-found:
			pa, pb := make([]byte, 8), make([]byte, 8)
			binary.BigEndian.PutUint64(pa, p[0])
			binary.BigEndian.PutUint64(pb, p[1])
			ha, hb := Template(cfg, pa).Hash(), Template(cfg, pb).Hash()
			if !bytes.Equal(ha[:8], hb[:8]) || bytes.Equal(ha, hb) {
				fmt.Fprintln(os.Stderr, "bogus pair")
				os.Exit(1)
			}
			fmt.Printf("# two none-transactions (Template in harness/cmd/c14collide) whose Hash() share the first 8 bytes\n")
			fmt.Printf("# hashes %x %x\n%s %s\n", ha, hb, hex.EncodeToString(pa), hex.EncodeToString(pb))
			fmt.Fprintf(os.Stderr, "found after %v, ~%d evaluations\n", time.Since(t0), total)
			return
		case <-tick.C:
			mu.Lock()
			fmt.Fprintf(os.Stderr, "%v: %d evaluations, %d distinguished points\n", time.Since(t0).Round(time.Second), total, len(seen))
			mu.Unlock()
		}
	}
}
