// h_c01 — C01 "State tree behaves as a persistent versioned map".
// Drives mavl.Store (Set / Get / IterateRangeByStateHash, close + reopen) and mavl.Tree
// (Load / Get / Has / Size / Height / GetByIndex / IterateRange[Inclusive]) on generated histories of
// write batches with forks, and evaluates the property on the implementation against an abstract map
// kept per committed root.  Every observation is also replayed by the Lean model (drv_c01), including
// the byte-exact root hashes.
package main

import (
	"bytes"
	"fmt"
	"sort"

	"verifharness/internal/gen"
	"verifharness/internal/mavlh"
)

var out = gen.NewOut()

type rootInfo struct {
	hash   []byte
	snap   *mavlh.Snap
	height int64
}

func rank(s *mavlh.Snap, key []byte) int {
	ks := s.Keys()
	return sort.Search(len(ks), func(i int) bool { return ks[i] >= string(key) })
}

// checkRoot evaluates the read half of the property at one committed root.
func checkRoot(e *mavlh.Eng, r *gen.Rand, kg *mavlh.KeyGen, ri *rootInfo, phase string, deep bool) {
	snap := ri.snap
	keys := snap.Keys()
	// size / height
	_, n, st := e.Info(ri.hash)
	if st == "panic" || st == "notfound" {
		if !(st == "notfound" && false) {
			out.Pred("C01|Tree.Load|"+st+"-"+phase, fmt.Sprintf("root=%x", ri.hash))
			return
		}
	}
	if int(n) != len(keys) {
		out.Pred("C01|Tree.Size|wrong-size-"+phase, fmt.Sprintf("root=%x size=%d want=%d", ri.hash, n, len(keys)))
	}
	// point reads: present keys, absent pool keys, random keys
	var probe [][]byte
	np := 12
	if deep {
		np = 60
	}
	for i := 0; i < np && len(keys) > 0; i++ {
		probe = append(probe, []byte(keys[r.Intn(len(keys))]))
	}
	for i := 0; i < np/2; i++ {
		probe = append(probe, kg.Key())
	}
	probe = append(probe, r.Bytes(r.Range(1, 5)))
	if len(keys) > 0 { // neighbours of a present key: one byte appended / last byte dropped
		k := []byte(keys[r.Intn(len(keys))])
		probe = append(probe, append(append([]byte{}, k...), 0))
		if len(k) > 0 {
			probe = append(probe, k[:len(k)-1])
		}
	}
	vals, st := e.Get(ri.hash, probe)
	if st == "panic" {
		out.Pred("C01|Store.Get|panic-"+phase, fmt.Sprintf("root=%x", ri.hash))
	} else {
		for i, k := range probe {
			want, ok := snap.M[string(k)]
			if !ok {
				want = nil
			}
			if !bytes.Equal(vals[i], want) {
				kind := "wrong-value"
				if !ok {
					kind = "value-for-absent-key"
				} else if len(vals[i]) == 0 {
					kind = "missing-value"
				}
				out.Pred("C01|Store.Get|"+kind+"-"+phase, fmt.Sprintf("root=%x key=%x got=%x want=%x", ri.hash, k, vals[i], want))
			}
		}
		out.Stat("point_reads", int64(len(probe)))
	}
	// range iterations
	nr := 2
	if deep {
		nr = 6
	}
	for i := 0; i < nr; i++ {
		var start, end []byte
		pick := func() []byte {
			switch r.Pick(3, 3, 1, 1) {
			case 0:
				return nil
			case 1:
				if len(keys) > 0 {
					return []byte(keys[r.Intn(len(keys))])
				}
				return kg.Key()
			case 2:
				return kg.Key()
			default:
				return r.Bytes(r.Range(0, 3))
			}
		}
		start, end = pick(), pick()
		if i == 0 && deep {
			start, end = nil, nil // whole state
		}
		asc := r.Chance(2, 3)
		lim := -1
		if r.Chance(1, 5) {
			lim = r.Range(0, 5)
		}
		got, st := e.Iter(ri.hash, start, end, asc, lim)
		want := snap.Range(start, end, asc, false, lim)
		if st == "panic" {
			out.Pred("C01|IterateRangeByStateHash|panic-"+phase, fmt.Sprintf("root=%x", ri.hash))
		} else if !mavlh.EqKVs(got, want) {
			out.Pred("C01|IterateRangeByStateHash|wrong-sequence-"+phase,
				fmt.Sprintf("root=%x start=%s end=%s asc=%v lim=%d got=%d pairs want=%d", ri.hash, mavlh.HxOpt(start), mavlh.HxOpt(end), asc, lim, len(got), len(want)))
		}
		out.Stat("range_iterations", 1)
		if len(want) == 0 {
			out.Stat("range_empty", 1)
		}
		if deep || r.Chance(1, 3) { // Tree-level, inclusive variant too
			incl := r.Bool()
			got, stopped, st := e.TIter(ri.hash, start, end, asc, incl, lim)
			want := snap.Range(start, end, asc, incl, lim)
			if st == "panic" || st == "notfound" {
				out.Pred("C01|Tree.IterateRange|"+st+"-"+phase, fmt.Sprintf("root=%x", ri.hash))
			} else {
				if !mavlh.EqKVs(got, want) {
					out.Pred("C01|Tree.IterateRange|wrong-sequence-"+phase,
						fmt.Sprintf("root=%x start=%s end=%s asc=%v incl=%v lim=%d", ri.hash, mavlh.HxOpt(start), mavlh.HxOpt(end), asc, incl, lim))
				}
				if stopped != (lim >= 0 && len(want) > 0 && len(want) >= lim) {
					out.Pred("C01|Tree.IterateRange|wrong-stopped-flag-"+phase, fmt.Sprintf("root=%x lim=%d n=%d stopped=%v", ri.hash, lim, len(want), stopped))
				}
			}
			out.Stat("tree_range_iterations", 1)
		}
	}
	// Tree.Get index / Has / GetByIndex
	if len(keys) > 0 && (deep || r.Chance(1, 2)) {
		k := []byte(keys[r.Intn(len(keys))])
		if r.Chance(1, 3) {
			k = kg.Key()
		}
		idx, val, exists, st := e.TGet(ri.hash, k)
		want, ok := snap.M[string(k)]
		if st == "panic" || st == "notfound" {
			out.Pred("C01|Tree.Get|"+st+"-"+phase, fmt.Sprintf("root=%x", ri.hash))
		} else {
			if exists != ok || (ok && !bytes.Equal(val, want)) {
				out.Pred("C01|Tree.Get|wrong-value-"+phase, fmt.Sprintf("root=%x key=%x", ri.hash, k))
			}
			if int(idx) != rank(snap, k) {
				out.Pred("C01|Tree.Get|wrong-index-"+phase, fmt.Sprintf("root=%x key=%x idx=%d want=%d", ri.hash, k, idx, rank(snap, k)))
			}
		}
		has, st := e.THas(ri.hash, k)
		if st == "panic" || st == "notfound" {
			out.Pred("C01|Tree.Has|"+st+"-"+phase, fmt.Sprintf("root=%x", ri.hash))
		} else if has != ok {
			out.Pred("C01|Tree.Has|wrong-answer-"+phase, fmt.Sprintf("root=%x key=%x has=%v", ri.hash, k, has))
		}
		i := r.Intn(len(keys))
		gk, gv, st := e.TIdx(ri.hash, int32(i))
		if st == "panic" || st == "notfound" {
			out.Pred("C01|Tree.GetByIndex|"+st+"-"+phase, fmt.Sprintf("root=%x i=%d", ri.hash, i))
		} else if string(gk) != keys[i] || !bytes.Equal(gv, snap.M[keys[i]]) {
			out.Pred("C01|Tree.GetByIndex|wrong-leaf-"+phase, fmt.Sprintf("root=%x i=%d", ri.hash, i))
		}
		out.Stat("tree_point_ops", 3)
	}
}

func history(e *mavlh.Eng, r *gen.Rand, hno int) {
	cfg := mavlh.Cfg{}
	switch r.Pick(6, 2, 1) {
	case 1:
		cfg.Prefix = true
	case 2:
		cfg.Prefix, cfg.Prune = true, true
	}
	e.New(cfg)
	out.Stat("histories", 1)
	out.Stat("cfg_"+cfg.Bits(), 1)
	pool := []int{3, 12, 60, 300, 1500}[r.Pick(2, 3, 4, 3, 1)]
	kg := mavlh.NewKeyGen(r, pool)
	roots := []*rootInfo{{hash: nil, snap: mavlh.NewSnap(nil, nil)}}
	nb := r.Range(1, gen.Scale(14, 40))
	big := r.Chance(1, 6)
	for b := 0; b < nb; b++ {
		pi := len(roots) - 1
		if r.Chance(1, 5) {
			pi = r.Intn(len(roots)) // fork from an older root (possibly the empty state)
			out.Stat("forks", 1)
		}
		parent := roots[pi]
		if len(parent.snap.M) > 0 && r.Chance(1, 4) {
			// removal through the tree API (Tree.Remove + Save): several present keys, clustered at one end so that
			// the other (untouched, persisted) side becomes the heavy one, plus an absent key
			keys := parent.snap.Keys()
			nd := r.Range(1, 1+len(keys)/2)
			if nd > 12 {
				nd = r.Range(1, 12)
			}
			var del [][]byte
			start := r.Intn(len(keys))
			if r.Chance(1, 2) {
				start = []int{0, len(keys) - nd}[r.Intn(2)]
				if start < 0 {
					start = 0
				}
			}
			for j := 0; j < nd; j++ {
				del = append(del, []byte(keys[(start+j)%len(keys)]))
			}
			if r.Chance(1, 2) {
				del = append(del, kg.Key())
			}
			root, vals, st := e.Del(parent.hash, del)
			out.Stat("removal_batches", 1)
			out.Stat("removals", int64(len(del)))
			if len(st) < 5 || st[:5] != "root " {
				out.Pred("C01|DelKVPair|"+st, fmt.Sprintf("history=%d batch=%d", hno, b))
				return
			}
			snap := mavlh.NewSnap(parent.snap, nil)
			for j, k := range del {
				want, had := snap.M[string(k)]
				if !had {
					want = nil
				}
				if !bytes.Equal(vals[j], want) {
					out.Pred("C01|Tree.Remove|wrong-removed-value", fmt.Sprintf("history=%d key=%x got=%x want=%x", hno, k, vals[j], want))
				}
				delete(snap.M, string(k))
			}
			ri := &rootInfo{hash: root, snap: snap, height: parent.height}
			roots = append(roots, ri)
			if root != nil {
				checkRoot(e, r, kg, ri, "fresh", true)
			}
			checkRoot(e, r, kg, roots[r.Intn(len(roots))], "later", false)
			continue
		}
		var n int
		switch r.Pick(4, 4, 1) {
		case 0:
			n = r.Range(1, 4)
		case 1:
			n = r.Range(5, 40)
		default:
			n = r.Range(60, 120)
			if big {
				n = r.Range(100, 300)
			}
		}
		kvs := kg.Batch(n)
		height := parent.height + 1
		if r.Chance(1, 10) {
			height = int64(r.Intn(50))
		}
		root, st := e.Set(parent.hash, height, kvs)
		out.Stat("batches", 1)
		out.Stat("writes", int64(n))
		if len(st) < 5 || st[:5] != "root " {
			out.Pred("C01|Store.Set|"+st, fmt.Sprintf("history=%d batch=%d", hno, b))
			return
		}
		ri := &rootInfo{hash: root, snap: mavlh.NewSnap(parent.snap, kvs), height: height}
		roots = append(roots, ri)
		checkRoot(e, r, kg, ri, "fresh", r.Chance(1, 4))
		if r.Chance(1, 4) { // an older root right after a later commit
			checkRoot(e, r, kg, roots[r.Intn(len(roots))], "later", false)
		}
	}
	for _, ri := range roots[1:] {
		checkRoot(e, r, kg, ri, "later", r.Chance(1, 5))
	}
	e.Reopen()
	out.Stat("reopens", 1)
	for _, ri := range roots[1:] {
		checkRoot(e, r, kg, ri, "reopened", r.Chance(1, 5))
	}
	out.Stat(fmt.Sprintf("final_size_le_%d", sizeClass(len(roots[len(roots)-1].snap.M))), 1)
}

func sizeClass(n int) int {
	for _, c := range []int{1, 10, 100, 1000} {
		if n <= c {
			return c
		}
	}
	return 100000
}

func main() {
	defer out.Flush()
	e := mavlh.NewEng(out)
	defer e.Close()
	if lines := gen.ReplayLines(); lines != nil {
		e.Replay(lines)
		return
	}
	r := gen.New(gen.Seed())
	n := gen.Scale(120, 1500)
	for i := 0; i < n; i++ {
		history(e, r, i)
	}
	out.Sample("history = new <cfg>; set <parent> <height> <k=v,...> -> root <sha256>; get/iter/info/tget/thas/tidx/titer at every root, again after later commits and after reopen")
}
