// h_c02 — C02 "State root depends only on prior root and ordered writes".
// One generated main-line script (ordered write batches on symbolic parents) is executed under all 32
// combinations of the store's sub-options x {Store.Set, Store.MemSet -> Store.Commit, mixed}, every variant
// interleaved with its own unrelated pending updates / commits / rollbacks / direct sets, all in one process
// (so the global memTree / tkCloseCache carry the history of every earlier variant and history).
// Predicate on the implementation: every variant yields the reference root sequence (configuration 00000,
// direct Set, no noise); MemSet and Commit return the same root.  Every root is also recomputed byte-exactly by
// the Lean model (drv_c02).
package main

import (
	"bytes"
	"fmt"

	"github.com/33cn/chain33/system/store/mavl/db/ticket"
	"github.com/33cn/chain33/types"

	"verifharness/internal/gen"
	"verifharness/internal/mavlh"
)

var out = gen.NewOut()

type step struct {
	parent int // index of an earlier main-line step, -1 = empty state
	height int64
	kvs    []mavlh.KV
}

func genScript(r *gen.Rand, kg *mavlh.KeyGen) []step {
	n := r.Range(2, gen.Scale(8, 14))
	s := make([]step, n)
	for i := range s {
		p := i - 1
		if r.Chance(1, 5) {
			p = r.Intn(i+1) - 1
		}
		var sz int
		switch r.Pick(4, 4, 1) {
		case 0:
			sz = r.Range(1, 3)
		case 1:
			sz = r.Range(4, 30)
		default:
			sz = r.Range(40, 120)
		}
		kvs := kg.Batch(sz)
		if r.Chance(1, 4) { // closed tickets go to tkCloseCache instead of memTree
			for j := 0; j < r.Range(1, 3); j++ {
				id := fmt.Sprintf("t%d", r.Intn(6))
				st := int32(r.Range(1, 3))
				kvs = append(kvs, mavlh.KV{K: append(append([]byte{}, ticket.TicketPrefix...), id...),
					V: types.Encode(&ticket.Ticket{TicketId: id, Status: st})})
			}
		}
		h := int64(i + 1)
		if r.Chance(1, 8) {
			h = int64(r.Intn(40))
		}
		s[i] = step{parent: p, height: h, kvs: kvs}
	}
	return s
}

// noise performs updates unrelated to the main line on any root known so far.
func noise(e *mavlh.Eng, r *gen.Rand, kg *mavlh.KeyGen, known [][]byte, pending *[][]byte) {
	for i := r.Intn(3); i > 0; i-- {
		var parent []byte
		if len(known) > 0 && r.Chance(4, 5) {
			parent = known[r.Intn(len(known))]
		}
		switch r.Pick(4, 2, 1, 2, 2) {
		case 0: // pending update, later rolled back / committed / left pending
			root, st := e.MemSet(parent, int64(r.Intn(60)), kg.Batch(r.Range(1, 20)))
			if len(st) > 5 && st[:5] == "root " {
				*pending = append(*pending, root)
			}
		case 1: // unrelated direct set (side branch)
			e.Set(parent, int64(r.Intn(60)), kg.Batch(r.Range(1, 20)))
		case 2: // empty pending update
			e.MemSet(parent, int64(r.Intn(60)), nil)
			if r.Bool() {
				e.Commit(parent)
			} else {
				e.Rollback(parent)
			}
		case 3:
			if len(*pending) > 0 {
				j := r.Intn(len(*pending))
				e.Rollback((*pending)[j])
				*pending = append((*pending)[:j], (*pending)[j+1:]...)
			}
		case 4:
			if len(*pending) > 0 {
				j := r.Intn(len(*pending))
				e.Commit((*pending)[j])
				*pending = append((*pending)[:j], (*pending)[j+1:]...)
			}
		}
		out.Stat("noise_ops", 1)
	}
}

// runVariant executes the script; mode 0 = Set, 1 = MemSet->Commit, 2 = mixed. Returns the main-line roots.
func runVariant(e *mavlh.Eng, r *gen.Rand, kg *mavlh.KeyGen, script []step, cfg mavlh.Cfg, mode int, withNoise bool, ref [][]byte) [][]byte {
	e.New(cfg)
	out.Stat("variants", 1)
	roots := make([][]byte, len(script))
	var known, pending [][]byte
	tag := fmt.Sprintf("cfg=%s mode=%d", cfg.Bits(), mode)
	for i, s := range script {
		if withNoise {
			noise(e, r, kg, known, &pending)
		}
		var parent []byte
		if s.parent >= 0 {
			parent = roots[s.parent]
		}
		useMem := mode == 1 || (mode == 2 && r.Bool())
		var root []byte
		var st string
		if !useMem {
			root, st = e.Set(parent, s.height, s.kvs)
			out.Stat("main_set", 1)
		} else {
			root, st = e.MemSet(parent, s.height, s.kvs)
			out.Stat("main_memset_commit", 1)
			if len(st) > 5 && st[:5] == "root " {
				if withNoise && r.Chance(1, 3) {
					noise(e, r, kg, known, &pending)
				}
				cst := e.Commit(root)
				if cst != "ok "+mavlh.Hx(root) {
					out.Pred("C02|Store.Commit|root-differs-from-memset", fmt.Sprintf("%s step=%d memset=%x commit=%s", tag, i, root, cst))
				}
			}
		}
		if len(st) < 5 || st[:5] != "root " {
			out.Pred("C02|Store.Set|"+st, fmt.Sprintf("%s step=%d", tag, i))
			return roots
		}
		roots[i] = root
		known = append(known, root)
		if ref != nil && !bytes.Equal(ref[i], root) {
			kind := "root-depends-on-configuration"
			if cfg == (mavlh.Cfg{}) {
				kind = "root-depends-on-set-vs-memset-or-history"
			}
			out.Pred("C02|Store.Set|"+kind, fmt.Sprintf("%s step=%d root=%x ref=%x", tag, i, root, ref[i]))
		}
	}
	if len(script) > 0 {
		e.Info(roots[len(script)-1])
	}
	return roots
}

func history(e *mavlh.Eng, r *gen.Rand) {
	pool := []int{4, 20, 100, 600}[r.Pick(2, 3, 3, 1)]
	kg := mavlh.NewKeyGen(r, pool)
	script := genScript(r, kg)
	out.Stat("histories", 1)
	out.Stat("main_steps", int64(len(script)))
	ref := runVariant(e, r, kg, script, mavlh.Cfg{}, 0, false, nil)
	for c := 0; c < 32; c++ {
		cfg := mavlh.CfgFromInt(c)
		for mode := 0; mode < 2; mode++ {
			runVariant(e, r, kg, script, cfg, mode, true, ref)
		}
		if r.Chance(1, 4) {
			runVariant(e, r, kg, script, cfg, 2, true, ref)
		}
	}
}

func main() {
	defer out.Flush()
	e := mavlh.NewEng(out)
	defer e.Close()
	if lines := gen.ReplayLines(); lines != nil {
		e.Replay(lines)
		return
	}
	r := gen.New(gen.Seed())
	n := gen.Scale(40, 800)
	for i := 0; i < n; i++ {
		history(e, r)
	}
	out.Sample("per history: reference = cfg 00000 + Set; then 32 cfgs x {Set, MemSet->Commit, mixed} with random unrelated mset/commit/rollback/set in between; all main-line roots must equal the reference")
}
