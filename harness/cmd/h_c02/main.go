// h_c02 — C02 "State root depends only on prior root and ordered writes".
// One generated main-line script (ordered write batches on symbolic parents) is executed under all 32
// combinations of the store's sub-options x {Store.Set, Store.MemSet -> Store.Commit, mixed}, every variant
// interleaved with its own unrelated pending updates / commits / rollbacks / direct sets, all in one process
// (so the global memTree / tkCloseCache carry the history of every earlier variant and history).
// Predicate on the implementation: every variant yields the reference root sequence (configuration 00000,
// direct Set, no noise); MemSet and Commit return the same root.  Every root is also recomputed byte-exactly by
// the Lean model (drv_c02).
package main

import (
	"bytes"
	"fmt"
	"os"

	"github.com/33cn/chain33/system/store/mavl/db/ticket"
	"github.com/33cn/chain33/types"

	"verifharness/internal/gen"
	"verifharness/internal/mavlh"
)

var out = gen.NewOut()

type step struct {
	parent int // index of an earlier main-line step, -1 = empty state
	height int64
	kvs    []mavlh.KV
}

func genScript(r *gen.Rand, kg *mavlh.KeyGen) []step {
	n := r.Range(2, gen.Scale(8, 14))
	s := make([]step, n)
	for i := range s {
		p := i - 1
		if r.Chance(1, 5) {
			p = r.Intn(i+1) - 1
		}
		var sz int
		switch r.Pick(4, 4, 1) {
		case 0:
			sz = r.Range(1, 3)
		case 1:
			sz = r.Range(4, 30)
		default:
			sz = r.Range(40, 120)
		}
		kvs := kg.Batch(sz)
		if r.Chance(1, 4) { // closed tickets go to tkCloseCache instead of memTree
			for j := 0; j < r.Range(1, 3); j++ {
				id := fmt.Sprintf("t%d", r.Intn(6))
				st := int32(r.Range(1, 3))
				kvs = append(kvs, mavlh.KV{K: append(append([]byte{}, ticket.TicketPrefix...), id...),
					V: types.Encode(&ticket.Ticket{TicketId: id, Status: st})})
			}
		}
		h := int64(i + 1)
		if r.Chance(1, 8) {
			h = int64(r.Intn(40))
		}
		s[i] = step{parent: p, height: h, kvs: kvs}
	}
	return s
}

// noise performs updates unrelated to the main line on any root known so far.
func noise(e *mavlh.Eng, r *gen.Rand, kg *mavlh.KeyGen, known [][]byte, pending *[][]byte) {
	for i := r.Intn(3); i > 0; i-- {
		var parent []byte
		if len(known) > 0 && r.Chance(4, 5) {
			parent = known[r.Intn(len(known))]
		}
		switch r.Pick(4, 2, 1, 2, 2) {
		case 0: // pending update, later rolled back / committed / left pending
			root, st := e.MemSet(parent, int64(r.Intn(60)), kg.Batch(r.Range(1, 20)))
			if len(st) > 5 && st[:5] == "root " {
				*pending = append(*pending, root)
			}
		case 1: // unrelated direct set (side branch)
			e.Set(parent, int64(r.Intn(60)), kg.Batch(r.Range(1, 20)))
		case 2: // empty pending update
			e.MemSet(parent, int64(r.Intn(60)), nil)
			if r.Bool() {
				e.Commit(parent)
			} else {
				e.Rollback(parent)
			}
		case 3:
			if len(*pending) > 0 {
				j := r.Intn(len(*pending))
				e.Rollback((*pending)[j])
				*pending = append((*pending)[:j], (*pending)[j+1:]...)
			}
		case 4:
			if len(*pending) > 0 {
				j := r.Intn(len(*pending))
				e.Commit((*pending)[j])
				*pending = append((*pending)[:j], (*pending)[j+1:]...)
			}
		}
		out.Stat("noise_ops", 1)
	}
}

// runVariant executes the script; mode 0 = Set, 1 = MemSet->Commit, 2 = mixed. Returns the main-line roots.
func runVariant(e *mavlh.Eng, r *gen.Rand, kg *mavlh.KeyGen, script []step, cfg mavlh.Cfg, mode int, withNoise bool, ref [][]byte) [][]byte {
	e.New(cfg)
	out.Stat("variants", 1)
	roots := make([][]byte, len(script))
	var known, pending [][]byte
	tag := fmt.Sprintf("cfg=%s mode=%d", cfg.Bits(), mode)
	for i, s := range script {
		if withNoise {
			noise(e, r, kg, known, &pending)
		}
		var parent []byte
		if s.parent >= 0 {
			parent = roots[s.parent]
		}
		useMem := mode == 1 || (mode == 2 && r.Bool())
		var root []byte
		var st string
		if !useMem {
			root, st = e.Set(parent, s.height, s.kvs)
			out.Stat("main_set", 1)
		} else {
			root, st = e.MemSet(parent, s.height, s.kvs)
			out.Stat("main_memset_commit", 1)
			if len(st) > 5 && st[:5] == "root " {
				if withNoise && r.Chance(1, 3) {
					noise(e, r, kg, known, &pending)
				}
				cst := e.Commit(root)
				if cst != "ok "+mavlh.Hx(root) {
					out.Pred("C02|Store.Commit|root-differs-from-memset", fmt.Sprintf("%s step=%d memset=%x commit=%s", tag, i, root, cst))
				}
			}
		}
		if len(st) < 5 || st[:5] != "root " {
			out.Pred("C02|Store.Set|"+st, fmt.Sprintf("%s step=%d", tag, i))
			return roots
		}
		roots[i] = root
		known = append(known, root)
		if ref != nil && !bytes.Equal(ref[i], root) {
			kind := "root-depends-on-configuration"
			if cfg == (mavlh.Cfg{}) {
				kind = "root-depends-on-set-vs-memset-or-history"
			}
			out.Pred("C02|Store.Set|"+kind, fmt.Sprintf("%s step=%d root=%x ref=%x", tag, i, root, ref[i]))
		}
	}
	if len(script) > 0 {
		e.Info(roots[len(script)-1])
	}
	return roots
}

func history(e *mavlh.Eng, r *gen.Rand) {
	pool := []int{4, 20, 100, 600}[r.Pick(2, 3, 3, 1)]
	kg := mavlh.NewKeyGen(r, pool)
	script := genScript(r, kg)
	out.Stat("histories", 1)
	out.Stat("main_steps", int64(len(script)))
	ref := runVariant(e, r, kg, script, mavlh.Cfg{}, 0, false, nil)
	// Re-creating the process-global memTree costs ~70 ms (NewTreeMap allocates a 500k-entry map; 75% of this
	// harness's CPU time), so the quick tier runs a random quarter of the 16 memTree-on configurations per
	// history (each of them several times per run); the 16 memTree-off configurations always run in full.
	for c := 0; c < 32; c++ {
		cfg := mavlh.CfgFromInt(c)
		if cfg.MemTree && !gen.Thorough() && !r.Chance(1, 4) {
			continue
		}
		for mode := 0; mode < 2; mode++ {
			runVariant(e, r, kg, script, cfg, mode, true, ref)
		}
		if r.Chance(1, 4) {
			runVariant(e, r, kg, script, cfg, 2, true, ref)
		}
	}
}

// ---------------------------------------------------------------------------------------------
// hunt: an update that is first *computed* as a pending update (and rolled back, or simply left pending) and
// then applied for real at another block height.  With the height prefix the two trees share the root hash but
// not the child keys; the process-global memTree keeps the node fields of the never-committed tree.
// Each scenario is run twice in fresh stores: control (no earlier pending update) and test; every common
// operation must give the same answer (the property: "... whatever other updates were computed, committed or
// rolled back earlier in the process").  Predicate-only: these lines are not replayed by the Lean driver.

type outcome struct{ op, st string }

func huntScenario(e *mavlh.Eng, r *gen.Rand, cfg mavlh.Cfg, kg *mavlh.KeyGen, base [][]mavlh.KV, kvs, kvs2 []mavlh.KV,
	h1, h2 int64, pendingKind int, test bool) []outcome {
	e.New(cfg)
	var res []outcome
	var parent []byte
	for i, b := range base {
		root, st := e.Set(parent, int64(i+1), b)
		if len(st) < 5 || st[:5] != "root " {
			return nil
		}
		parent = root
	}
	if test {
		switch pendingKind {
		case 0: // computed, then rolled back
			root, _ := e.MemSet(parent, h1, kvs)
			e.Rollback(root)
		case 1: // computed, left pending
			e.MemSet(parent, h1, kvs)
		case 2: // computed and committed (control for the control: must be harmless)
			root, _ := e.MemSet(parent, h1, kvs)
			e.Commit(root)
		}
	}
	root, st := e.Set(parent, h2, kvs)
	res = append(res, outcome{"Store.Set", st})
	if len(st) < 5 || st[:5] != "root " {
		return res
	}
	_, st = e.MemSet(root, h2+1, kvs2)
	res = append(res, outcome{"Store.MemSet", st})
	_, st = e.Set(root, h2+1, kvs2)
	res = append(res, outcome{"Store.Set", st})
	return res
}

func hunt(e *mavlh.Eng, r *gen.Rand) {
	n := gen.Scale(24, 1000)
	for i := 0; i < n; i++ {
		cfg := mavlh.CfgFromInt(r.Intn(32))
		if r.Chance(2, 3) {
			cfg.MemTree = true
		}
		if r.Chance(1, 2) {
			cfg.Prefix = true
		}
		kg := mavlh.NewKeyGen(r, []int{3, 10, 50}[r.Intn(3)])
		var base [][]mavlh.KV
		for j := r.Range(1, 3); j > 0; j-- {
			base = append(base, kg.Batch(r.Range(1, 12)))
		}
		kvs := kg.Batch(r.Range(1, 6))
		kvs2 := kg.Batch(r.Range(1, 6))
		h2 := int64(len(base) + 1 + r.Intn(3))
		h1 := h2 + int64(r.Range(1, 3))
		if r.Chance(1, 6) {
			h1 = h2
		}
		pk := r.Pick(3, 3, 1)
		control := huntScenario(e, r, cfg, kg, base, kvs, kvs2, h1, h2, pk, false)
		test := huntScenario(e, r, cfg, kg, base, kvs, kvs2, h1, h2, pk, true)
		out.Stat("hunt_scenarios", 1)
		out.Stat(fmt.Sprintf("hunt_cfg_memtree_%v_prefix_%v", cfg.MemTree, cfg.Prefix || cfg.Prune), 1)
		kind := []string{"rolled-back", "left-pending", "committed"}[pk]
		for j := range control {
			if j >= len(test) {
				break
			}
			if control[j].st == test[j].st {
				continue
			}
			what := "root-differs"
			if test[j].st == "panic" {
				what = "panic"
			}
			out.Pred(fmt.Sprintf("C02|%s|%s-after-%s-update-of-same-content", test[j].op, what, kind),
				fmt.Sprintf("cfg=%s h1=%d h2=%d base=%d batches control=%s test=%s", cfg.Bits(), h1, h2, len(base), control[j].st, test[j].st))
			out.Stat("hunt_failures", 1)
			break
		}
	}
	out.Sample("hunt: set base; [mset P h1 kvs; rollback|keep|commit]; set P h2 kvs -> R; mset R ..; set R ..  (control vs test, same cfg)")
}

func main() {
	defer out.Flush()
	e := mavlh.NewEng(out)
	defer e.Close()
	if lines := gen.ReplayLines(); lines != nil {
		e.Replay(lines)
		return
	}
	r := gen.New(gen.Seed())
	if os.Getenv("VERIF_C02_MODE") == "hunt" {
		hunt(e, r)
		return
	}
	n := gen.Scale(14, 200)
	for i := 0; i < n; i++ {
		history(e, r)
	}
	out.Sample("per history: reference = cfg 00000 + Set; then 32 cfgs x {Set, MemSet->Commit, mixed} with random unrelated mset/commit/rollback/set in between; all main-line roots must equal the reference")
}
