// h_c02 — C02 "State root depends only on prior root and ordered writes".
// One generated main-line script (ordered write batches on symbolic parents) is executed under all 32
// combinations of the store's sub-options x {Store.Set, Store.MemSet -> Store.Commit, mixed}, every variant
// interleaved with its own unrelated pending updates / commits / rollbacks / direct sets, all in one process
// (so the global memTree / tkCloseCache carry the history of every earlier variant and history).
// Predicate on the implementation: every variant yields the reference root sequence (configuration 00000,
// direct Set, no noise); MemSet and Commit return the same root.  Every root is also recomputed byte-exactly by
// the Lean model (drv_c02).
package main

import (
	"bytes"
	"fmt"
	"os"
	"sort"

	"github.com/33cn/chain33/system/store/mavl/db/ticket"
	"github.com/33cn/chain33/types"

	"verifharness/internal/gen"
	"verifharness/internal/mavlh"
)

var out = gen.NewOut()

type step struct {
	parent int // index of an earlier main-line step, -1 = empty state
	height int64
	kvs    []mavlh.KV
}

func genScript(r *gen.Rand, kg *mavlh.KeyGen) []step {
	n := r.Range(2, gen.Scale(8, 14))
	s := make([]step, n)
	one := make([][]byte, n) // the key of a one-key state
	empty := make([]bool, n) // the state after the step is empty
	for i := range s {
		p := i - 1
		if r.Chance(1, 5) {
			p = r.Intn(i+1) - 1
		}
		var sz int
		switch r.Pick(4, 4, 1) {
		case 0:
			sz = r.Range(1, 3)
		case 1:
			sz = r.Range(4, 30)
		default:
			sz = r.Range(40, 120)
		}
		kvs := kg.Batch(sz)
		if r.Chance(1, 4) { // closed tickets go to tkCloseCache instead of memTree
			for j := 0; j < r.Range(1, 3); j++ {
				id := fmt.Sprintf("t%d", r.Intn(6))
				st := int32(r.Range(1, 3))
				kvs = append(kvs, mavlh.KV{K: append(append([]byte{}, ticket.TicketPrefix...), id...),
					V: types.Encode(&ticket.Ticket{TicketId: id, Status: st})})
			}
		}
		// every main-line block changes the state (a block that only re-writes existing values is the trigger shape
		// of the known memTree defect; that shape is exercised by hunt(), not by the differential stream)
		fresh := mavlh.KV{K: []byte(fmt.Sprintf("~m%03d", i)), V: r.Bytes(r.Range(1, 8))}
		kvs = append(kvs, fresh)
		// small states: the root of a state with exactly ONE key is a leaf (hashed by the leaf branch of Node.Hash, which
		// has its own prefix rule), the empty state has the empty root.  On the empty state (and on a one-key state) the
		// block sometimes writes one key only (once or several times), or nothing at all.
		one[i] = nil
		switch {
		case p == -1 || empty[p]:
			switch r.Pick(5, 3, 1, 1) {
			case 1:
				kvs, one[i] = []mavlh.KV{fresh}, fresh.K
			case 2:
				kvs, one[i] = []mavlh.KV{{K: fresh.K, V: r.Bytes(r.Range(0, 4))}, {K: fresh.K, V: r.Bytes(r.Range(0, 4))}, fresh}, fresh.K
			case 3:
				kvs, empty[i] = nil, true
			}
		case one[p] != nil && r.Chance(1, 2): // the one key again, with a value it did not have (8 bytes + counter)
			kvs, one[i] = []mavlh.KV{{K: one[p], V: append(r.Bytes(9), byte(i))}}, one[p]
		}
		if one[i] != nil {
			out.Stat("script_one_key_states", 1)
		}
		if empty[i] {
			out.Stat("script_empty_states", 1)
		}
		h := int64(i + 1)
		if r.Chance(1, 8) {
			h = int64(r.Intn(40))
		}
		s[i] = step{parent: p, height: h, kvs: kvs}
	}
	return s
}

var noiseCounter int

// noiseBatch: random writes plus one key never used before, so that an unrelated update always yields a root that
// no committed tree has (an uncommitted update whose root is already committed is the trigger shape of the known
// memTree defect: exercised by hunt(), kept out of the differential stream).
func noiseBatch(r *gen.Rand, kg *mavlh.KeyGen, n int) []mavlh.KV {
	noiseCounter++
	return append(kg.Batch(n), mavlh.KV{K: []byte(fmt.Sprintf("~n%06d", noiseCounter)), V: r.Bytes(r.Range(1, 6))})
}

// noise performs updates unrelated to the main line on any root known so far.
func noise(e *mavlh.Eng, r *gen.Rand, kg *mavlh.KeyGen, known [][]byte, pending *[][]byte) {
	for i := r.Intn(3); i > 0; i-- {
		var parent []byte
		if len(known) > 0 && r.Chance(4, 5) {
			parent = known[r.Intn(len(known))]
		}
		switch r.Pick(4, 2, 1, 2, 2) {
		case 0: // pending update, later rolled back / committed / left pending
			root, st := e.MemSet(parent, int64(r.Intn(60)), noiseBatch(r, kg, r.Range(1, 20)))
			if len(st) > 5 && st[:5] == "root " {
				*pending = append(*pending, root)
			}
		case 1: // unrelated direct set (side branch)
			e.Set(parent, int64(r.Intn(60)), noiseBatch(r, kg, r.Range(1, 20)))
		case 2: // empty pending update
			e.MemSet(parent, int64(r.Intn(60)), nil)
			if r.Bool() {
				e.Commit(parent)
			} else {
				e.Rollback(parent)
			}
		case 3:
			if len(*pending) > 0 {
				j := r.Intn(len(*pending))
				e.Rollback((*pending)[j])
				*pending = append((*pending)[:j], (*pending)[j+1:]...)
			}
		case 4:
			if len(*pending) > 0 {
				j := r.Intn(len(*pending))
				e.Commit((*pending)[j])
				*pending = append((*pending)[:j], (*pending)[j+1:]...)
			}
		}
		out.Stat("noise_ops", 1)
	}
}

// runVariant executes the script; mode 0 = Set, 1 = MemSet->Commit, 2 = mixed. Returns the main-line roots.
func runVariant(e *mavlh.Eng, r *gen.Rand, kg *mavlh.KeyGen, script []step, cfg mavlh.Cfg, mode int, withNoise bool, ref [][]byte) [][]byte {
	// memTree configurations are replayed by the driver's literal lazy model (which has the memTree and the node
	// cache), the others by the eager model the theorems are about
	if cfg.MemTree {
		out.Op("lazy", "ok")
	} else {
		out.Op("eager", "ok")
	}
	e.New(cfg)
	out.Stat("variants", 1)
	roots := make([][]byte, len(script))
	var known, pending [][]byte
	tag := fmt.Sprintf("cfg=%s mode=%d", cfg.Bits(), mode)
	for i, s := range script {
		if withNoise {
			noise(e, r, kg, known, &pending)
		}
		var parent []byte
		if s.parent >= 0 {
			parent = roots[s.parent]
		}
		useMem := mode == 1 || (mode == 2 && r.Bool())
		var root []byte
		var st string
		if !useMem {
			root, st = e.Set(parent, s.height, s.kvs)
			out.Stat("main_set", 1)
		} else {
			root, st = e.MemSet(parent, s.height, s.kvs)
			out.Stat("main_memset_commit", 1)
			if len(st) > 5 && st[:5] == "root " {
				// (not around the empty root: the noise commits / rolls back empty pending updates of its own, which are the
				// same pending entry)
				if withNoise && len(root) > 0 && r.Chance(1, 3) {
					noise(e, r, kg, known, &pending)
				}
				cst := e.Commit(root)
				if cst != "ok "+mavlh.Hx(root) {
					out.Pred("C02|Store.Commit|root-differs-from-memset", fmt.Sprintf("%s step=%d memset=%x commit=%s", tag, i, root, cst))
				}
			}
		}
		if len(st) < 5 || st[:5] != "root " {
			out.Pred("C02|Store.Set|"+st, fmt.Sprintf("%s step=%d", tag, i))
			return roots
		}
		roots[i] = root
		known = append(known, root)
		if ref != nil && !bytes.Equal(ref[i], root) {
			kind := "root-depends-on-configuration"
			if cfg == (mavlh.Cfg{}) {
				kind = "root-depends-on-set-vs-memset-or-history"
			}
			out.Pred("C02|Store.Set|"+kind, fmt.Sprintf("%s step=%d root=%x ref=%x", tag, i, root, ref[i]))
		}
	}
	if len(script) > 0 {
		last := roots[len(script)-1]
		e.Info(last)
		// values at the final main-line root equal the last writes. Not read under MVCC: the records carry no
		// values there and what Get returns depends on what memTree happens to hold (values live in the MVCC store).
		if cfg.MVCC {
			return roots
		}
		want := map[string][]byte{}
		for i := len(script) - 1; i >= 0; i = script[i].parent {
			for j := len(script[i].kvs) - 1; j >= 0; j-- {
				kv := script[i].kvs[j]
				if _, seen := want[string(kv.K)]; !seen {
					want[string(kv.K)] = kv.V
				}
			}
		}
		var keys [][]byte
		for k := range want {
			keys = append(keys, []byte(k))
			if len(keys) >= 6 {
				break
			}
		}
		sort.Slice(keys, func(a, b int) bool { return bytes.Compare(keys[a], keys[b]) < 0 })
		vals, st := e.Get(last, keys)
		if st == "panic" {
			out.Pred("C02|Store.Get|panic", tag)
		} else {
			for i, k := range keys {
				w := want[string(k)]
				if !bytes.Equal(vals[i], w) {
					out.Pred("C02|Store.Get|wrong-value-at-final-root", fmt.Sprintf("%s key=%x got=%x want=%x", tag, k, vals[i], w))
				}
			}
			out.Stat("final_value_reads", int64(len(keys)))
		}
	}
	return roots
}

func history(e *mavlh.Eng, r *gen.Rand) {
	pool := []int{4, 20, 100, 600}[r.Pick(2, 3, 3, 1)]
	kg := mavlh.NewKeyGen(r, pool)
	script := genScript(r, kg)
	out.Stat("histories", 1)
	out.Stat("main_steps", int64(len(script)))
	ref := runVariant(e, r, kg, script, mavlh.Cfg{}, 0, false, nil)
	// Re-creating the process-global memTree costs ~70 ms (NewTreeMap allocates a 500k-entry map; 75% of this
	// harness's CPU time), so the quick tier runs a random quarter of the 16 memTree-on configurations per
	// history (each of them several times per run); the 16 memTree-off configurations always run in full.
	for c := 0; c < 32; c++ {
		cfg := mavlh.CfgFromInt(c)
		if cfg.MemTree && !gen.Thorough() && !r.Chance(1, 4) {
			continue
		}
		for mode := 0; mode < 2; mode++ {
			runVariant(e, r, kg, script, cfg, mode, true, ref)
		}
		if r.Chance(1, 4) {
			runVariant(e, r, kg, script, cfg, 2, true, ref)
		}
	}
}

// ---------------------------------------------------------------------------------------------
// hunt: an update that is first *computed* as a pending update (and rolled back, or simply left pending) and
// then applied for real at another block height.  With the height prefix the two trees share the root hash but
// not the child keys; the process-global memTree keeps the node fields of the never-committed tree.
// Each scenario is run twice in fresh stores: control (no earlier pending update) and test; every common
// operation must give the same answer (the property: "... whatever other updates were computed, committed or
// rolled back earlier in the process").  Predicate-only: these lines are not replayed by the Lean driver.

type outcome struct{ op, st string }

// huntScenario: shape 0 = "same content at another height", shape 1 = "no-op update (re-writes existing values)".
func huntScenario(e *mavlh.Eng, r *gen.Rand, cfg mavlh.Cfg, base [][]mavlh.KV, kvs, kvs2 []mavlh.KV,
	h1, h2 int64, pendingKind, shape int, test bool) []outcome {
	e.New(cfg)
	var res []outcome
	var parent []byte
	for i, b := range base {
		root, st := e.Set(parent, int64(i+1), b)
		if len(st) < 5 || st[:5] != "root " {
			return nil
		}
		parent = root
	}
	if test {
		root, st := e.MemSet(parent, h1, kvs)
		if len(st) > 5 && st[:5] == "root " {
			switch pendingKind {
			case 0:
				e.Rollback(root)
			case 2:
				if cst := e.Commit(root); cst == "panic" {
					out.Pred(fmt.Sprintf("C02|Store.Commit|panic-committing-pending-%s", []string{"update-of-same-content", "no-op-update"}[shape]),
						fmt.Sprintf("cfg=%s h1=%d h2=%d", cfg.Bits(), h1, h2))
					out.Stat("hunt_failures", 1)
				}
			}
		}
	}
	rootOf := func(st string) bool { return len(st) > 5 && st[:5] == "root " }
	cur := parent
	if shape == 0 { // the same writes for real, at another height
		root, st := e.Set(parent, h2, kvs)
		res = append(res, outcome{"Store.Set", st})
		if !rootOf(st) {
			return res
		}
		cur = root
	}
	root, st := e.MemSet(cur, h2+1, kvs2)
	res = append(res, outcome{"Store.MemSet", st})
	if !rootOf(st) {
		return res
	}
	res = append(res, outcome{"Store.Commit", e.Commit(root)})
	root2, st := e.Set(root, h2+2, kvs)
	res = append(res, outcome{"Store.Set", st})
	if !rootOf(st) {
		return res
	}
	// a fresh process (empty memTree) must be able to read everything that was committed
	e.ColdReopen()
	for _, rt := range [][]byte{root, root2} {
		got, st := e.Iter(rt, nil, nil, true, -1)
		if st != "panic" {
			st = fmt.Sprintf("%d pairs %s", len(got), mavlh.ShowKVs(got))
		}
		res = append(res, outcome{"read-after-restart", st})
	}
	return res
}

// hunt: mode "hunt" = configurations without pruning, replayed by the literal lazy model of the driver (line "lazy");
// mode "hunt-prune" = the same scenarios with EnableMavlPrune, predicate only (pruning bookkeeping is not in that model).
func hunt(e *mavlh.Eng, r *gen.Rand, prune bool) {
	if !prune {
		out.Op("lazy", "ok")
	}
	n := gen.Scale(40, 1000)
	if prune {
		n = gen.Scale(15, 400)
	}
	type scen struct {
		cfg        mavlh.Cfg
		base       [][]mavlh.KV
		kvs, kvs2  []mavlh.KV
		h1, h2     int64
		kind, shape int
	}
	kv := func(k string, v byte) mavlh.KV { return mavlh.KV{K: []byte(k), V: []byte{v}} }
	// the documented witnesses first (deterministic replay of the known finding), then generated scenarios
	fixed := []scen{
		{mavlh.Cfg{Prefix: true, MemTree: true}, [][]mavlh.KV{{kv("a", 1), kv("b", 2)}}, []mavlh.KV{kv("c", 3)}, []mavlh.KV{kv("e", 5)}, 5, 6, 0, 0},
		{mavlh.Cfg{Prefix: true, MemTree: true}, [][]mavlh.KV{{kv("a", 1), kv("b", 2)}}, []mavlh.KV{kv("c", 3)}, []mavlh.KV{kv("e", 5)}, 5, 6, 1, 0},
		{mavlh.Cfg{Prefix: true, MemTree: true}, [][]mavlh.KV{{kv("a", 1), kv("b", 2), kv("c", 3), kv("d", 4)}}, []mavlh.KV{kv("d", 4)}, []mavlh.KV{kv("a", 9)}, 13, 2, 0, 1},
	}
	for i := 0; i < n+len(fixed); i++ {
		var sc scen
		if i < len(fixed) {
			sc = fixed[i]
			sc.cfg.Prune = prune
		} else {
			sc.cfg = mavlh.CfgFromInt(r.Intn(32))
			if r.Chance(2, 3) {
				sc.cfg.MemTree = true
			}
			if r.Chance(1, 2) {
				sc.cfg.Prefix = true
			}
			sc.cfg.Prune = prune
			if prune {
				sc.cfg.Prefix = true
			}
			kg := mavlh.NewKeyGen(r, []int{3, 10, 50}[r.Intn(3)])
			for j := r.Range(1, 3); j > 0; j-- {
				sc.base = append(sc.base, kg.Batch(r.Range(1, 12)))
			}
			sc.shape = r.Intn(2)
			sc.kvs = kg.Batch(r.Range(1, 6))
			if sc.shape == 1 { // re-write values that are already there
				last := sc.base[len(sc.base)-1]
				final := map[string][]byte{}
				for _, b := range sc.base {
					for _, x := range b {
						final[string(x.K)] = x.V
					}
				}
				sc.kvs = nil
				for j := r.Range(1, 3); j > 0; j-- {
					k := last[r.Intn(len(last))].K
					sc.kvs = append(sc.kvs, mavlh.KV{K: k, V: final[string(k)]})
				}
			}
			sc.kvs2 = kg.Batch(r.Range(1, 6))
			sc.h2 = int64(len(sc.base) + 1 + r.Intn(3))
			sc.h1 = sc.h2 + int64(r.Range(1, 9))
			if r.Chance(1, 6) {
				sc.h1 = sc.h2
			}
			sc.kind = r.Pick(3, 3, 1)
		}
		control := huntScenario(e, r, sc.cfg, sc.base, sc.kvs, sc.kvs2, sc.h1, sc.h2, sc.kind, sc.shape, false)
		test := huntScenario(e, r, sc.cfg, sc.base, sc.kvs, sc.kvs2, sc.h1, sc.h2, sc.kind, sc.shape, true)
		out.Stat("hunt_scenarios", 1)
		out.Stat(fmt.Sprintf("hunt_shape_%d_memtree_%v_prefix_%v", sc.shape, sc.cfg.MemTree, sc.cfg.Prefix || sc.cfg.Prune), 1)
		kind := []string{"rolled-back", "left-pending", "committed"}[sc.kind]
		shape := []string{"update-of-same-content", "no-op-update"}[sc.shape]
		for j := range control {
			if j >= len(test) {
				break
			}
			if control[j].st == test[j].st {
				continue
			}
			what := "result-differs"
			if test[j].st == "panic" {
				what = "panic"
			}
			out.Pred(fmt.Sprintf("C02|%s|%s-after-%s-%s", test[j].op, what, kind, shape),
				fmt.Sprintf("cfg=%s h1=%d h2=%d base=%d batches control=%.80s test=%.80s", sc.cfg.Bits(), sc.h1, sc.h2, len(sc.base), control[j].st, test[j].st))
			out.Stat("hunt_failures", 1)
			break
		}
	}
	out.Sample("hunt: set base -> P; [mset P h1 kvs; rollback|keep|commit]; (set P h2 kvs)?; mset/commit/set on top; cold restart; read all  (control vs test, same cfg)")
}

func main() {
	defer out.Flush()
	e := mavlh.NewEng(out)
	defer e.Close()
	if lines := gen.ReplayLines(); lines != nil {
		e.Replay(lines)
		return
	}
	r := gen.New(gen.Seed())
	if m := os.Getenv("VERIF_C02_MODE"); m == "hunt" || m == "hunt-prune" {
		hunt(e, r, m == "hunt-prune")
		return
	}
	n := gen.Scale(24, 200)
	for i := 0; i < n; i++ {
		history(e, r)
	}
	out.Sample("per history: reference = cfg 00000 + Set; then 32 cfgs x {Set, MemSet->Commit, mixed} with random unrelated mset/commit/rollback/set in between; all main-line roots must equal the reference")
}
