// h_c03 — C03 "State proofs are complete, sound and crash-free".
// For generated trees under every prefix/pruning configuration: GetKVPairProof for every key (bytes compared
// with the Lean model), VerifyKVPairProof on the honest proof (must accept), on every single-field change of
// (key, value, root) (must reject), on structural / byte mutations of the proof and on arbitrary byte strings
// (must not panic; accept/reject compared with the model).
package main

import (
	"bytes"
	"fmt"

	"github.com/33cn/chain33/types"

	"verifharness/internal/gen"
	"verifharness/internal/mavlh"
)

var out = gen.NewOut()

func verify(e *mavlh.Eng, root, k, v, proof []byte, what string) bool {
	ok, st := e.Verify(root, k, v, proof)
	out.Stat("verify_"+what, 1)
	if st == "panic" {
		out.Pred("C03|VerifyKVPairProof|panic", fmt.Sprintf("%s root=%x key=%x value=%x proof=%x", what, root, k, v, proof))
		return false
	}
	return ok
}

func mustReject(e *mavlh.Eng, root, k, v, proof []byte, kind string) {
	if verify(e, root, k, v, proof, kind) {
		out.Pred("C03|VerifyKVPairProof|accepts-"+kind, fmt.Sprintf("root=%x key=%x value=%x proof=%x", root, k, v, proof))
	}
}

func flip(r *gen.Rand, b []byte) []byte {
	c := append([]byte{}, b...)
	if len(c) == 0 {
		return []byte{byte(r.Range(1, 255))}
	}
	c[r.Intn(len(c))] ^= byte(1 << uint(r.Intn(8)))
	return c
}

func mutBytes(r *gen.Rand, b []byte) []byte {
	switch r.Pick(4, 2, 2, 1, 1) {
	case 0:
		return flip(r, b)
	case 1:
		return append(append([]byte{}, b...), byte(r.Intn(256)))
	case 2:
		if len(b) > 0 {
			return append([]byte{}, b[:len(b)-1]...)
		}
		return []byte{0}
	case 3:
		if len(b) > 0 {
			return append([]byte{}, b[1:]...)
		}
		return []byte{1}
	default:
		return append([]byte{byte(r.Intn(256))}, b...)
	}
}

// structural mutations of a decoded honest proof (differential with the model + no panic).
func mutProof(r *gen.Rand, proof []byte) []byte {
	var p types.MAVLProof
	if err := types.Decode(proof, &p); err != nil || len(p.InnerNodes) == 0 {
		return mutBytes(r, proof)
	}
	i := r.Intn(len(p.InnerNodes))
	n := p.InnerNodes[i]
	switch r.Intn(12) {
	case 0:
		n.Height++
	case 1:
		n.Size += int32(r.Range(1, 3))
	case 2:
		n.LeftHash, n.RightHash = n.RightHash, n.LeftHash
	case 3: // junk in front of the sibling hash: InnerNode.Hash keeps the last 32 bytes only
		if len(n.LeftHash) > 0 {
			n.LeftHash = append(r.Bytes(r.Range(1, 20)), n.LeftHash...)
		} else {
			n.RightHash = append(r.Bytes(r.Range(1, 20)), n.RightHash...)
		}
	case 4:
		p.InnerNodes = append(p.InnerNodes[:i], p.InnerNodes[i+1:]...)
	case 5:
		p.InnerNodes = append(p.InnerNodes, n)
	case 6:
		p.LeafHash = r.Bytes(r.Range(1, 40))
	case 7:
		p.RootHash = r.Bytes(32)
	case 8:
		if len(n.LeftHash) > 0 {
			n.LeftHash = flip(r, n.LeftHash)
		} else {
			n.RightHash = flip(r, n.RightHash)
		}
	case 9:
		n.Height = -n.Height
	case 10: // both hashes set / both empty
		if r.Bool() {
			n.LeftHash, n.RightHash = nil, nil
		} else {
			n.LeftHash, n.RightHash = r.Bytes(32), r.Bytes(32)
		}
	default:
		j := r.Intn(len(p.InnerNodes))
		p.InnerNodes[i], p.InnerNodes[j] = p.InnerNodes[j], p.InnerNodes[i]
	}
	return types.Encode(&p)
}

func varint(x uint64) []byte {
	var b []byte
	for x >= 0x80 {
		b = append(b, byte(x)|0x80)
		x >>= 7
	}
	return append(b, byte(x))
}

// arbitrary bytes: raw noise, and wire-shaped noise (tags of every wire type, groups, bad lengths, long varints).
func junk(r *gen.Rand, depth int) []byte {
	if r.Chance(1, 4) {
		return r.Bytes(r.Range(0, 60))
	}
	var b []byte
	for i := r.Intn(6); i >= 0; i-- {
		num := uint64(r.Pick(6, 3, 1))
		switch num {
		case 0:
			num = uint64(r.Range(1, 4))
		case 1:
			num = uint64(r.Range(0, 20))
		default:
			num = r.U64() >> uint(r.Intn(40))
		}
		wt := uint64(r.Pick(4, 1, 6, 2, 2, 1, 1, 1))
		b = append(b, varint(num<<3|wt)...)
		switch wt {
		case 0:
			switch r.Intn(4) {
			case 0:
				b = append(b, varint(r.U64())...)
			case 1: // over-long varint
				for j := r.Range(1, 11); j > 0; j-- {
					b = append(b, 0x80|byte(r.Intn(128)))
				}
				b = append(b, byte(r.Intn(4)))
			default:
				b = append(b, varint(uint64(r.Intn(300)))...)
			}
		case 1:
			b = append(b, r.Bytes(r.Range(6, 8))...)
		case 5:
			b = append(b, r.Bytes(r.Range(2, 4))...)
		case 2:
			var body []byte
			if depth < 3 && r.Chance(2, 3) {
				body = junk(r, depth+1)
			} else {
				body = r.Bytes(r.Range(0, 34))
			}
			l := uint64(len(body))
			if r.Chance(1, 8) {
				l += uint64(r.Range(1, 5))
			}
			if r.Chance(1, 30) {
				l = r.U64()
			}
			b = append(b, varint(l)...)
			b = append(b, body...)
		case 3:
			if depth < 3 {
				b = append(b, junk(r, depth+1)...)
			}
			if r.Chance(3, 4) {
				en := num
				if r.Chance(1, 5) {
					en++
				}
				b = append(b, varint(en<<3|4)...)
			}
		}
	}
	return b
}

func last32(b []byte) []byte {
	if len(b) > 32 {
		return b[len(b)-32:]
	}
	return b
}

func cloneInner(n *types.InnerNode) *types.InnerNode {
	return &types.InnerNode{Height: n.Height, Size: n.Size,
		LeftHash: append([]byte(nil), n.LeftHash...), RightHash: append([]byte(nil), n.RightHash...)}
}

// Forged proofs whose branch records carry BOTH child hashes (or none).  The store never emits such a record, but
// a verifier gets the proof from the network.  From the honest proof of (k, v) the harness folds the hashes level by
// level itself (types.InnerNode.Hash, not proof.go) and fills the empty side of the record at level j with the hash
// that belongs there: that is the node's own database record (for the last level: the root's record).  Forms:
//   suffix : [full_j] ++ honest[j+1:]           (j = last: the root record alone)
//   inplace: honest[:j] ++ [full_j] ++ honest[j+1:]
//   none   : the record at level j with both sides empty (in place / as a suffix)
//   wrong  : the empty side filled with something else (the sibling, another level's hash, random bytes), sides swapped
// Each is offered for the honest pair and for pairs present in the state (outcome compared with the model only: a
// record with a filled right side is a perfectly good proof for the leaf on the right), and for pairs that are NOT
// in the state (absent key, present key with another value, another key with this value): must be rejected.
func fullBranchForgeries(e *mavlh.Eng, r *gen.Rand, cfg mavlh.Cfg, ver version, kg *mavlh.KeyGen) {
	keys := ver.snap.Keys()
	if len(keys) < 2 {
		return
	}
	for n := 0; n < 2; n++ {
		ks := keys[r.Intn(len(keys))]
		k, v := []byte(ks), ver.snap.M[ks]
		proof, exists, _ := e.Proof(ver.root, k)
		var p types.MAVLProof
		if !exists || types.Decode(proof, &p) != nil || len(p.InnerNodes) == 0 {
			continue
		}
		nodes := p.InnerNodes
		hs := [][]byte{(&types.LeafNode{Key: k, Value: v, Height: 0, Size: 1}).Hash()}
		full := make([]*types.InnerNode, len(nodes))
		for j, b := range nodes {
			f := cloneInner(b)
			if len(b.LeftHash) == 0 {
				f.LeftHash = hs[j]
			} else {
				f.RightHash = hs[j]
			}
			full[j] = f
			hs = append(hs, f.Hash())
		}
		if !bytes.Equal(hs[len(nodes)], last32(ver.root)) {
			out.Pred("C03|harness|own-fold-of-honest-proof-misses-root", fmt.Sprintf("root=%x key=%x proof=%x", ver.root, k, proof))
			continue
		}
		build := func(j int, rec *types.InnerNode, inplace bool) []byte {
			var ins []*types.InnerNode
			if inplace {
				for _, b := range nodes[:j] {
					ins = append(ins, cloneInner(b))
				}
			}
			ins = append(ins, rec)
			for _, b := range nodes[j+1:] {
				ins = append(ins, cloneInner(b))
			}
			return types.Encode(&types.MAVLProof{InnerNodes: ins})
		}
		offer := func(forged []byte, kind string) {
			out.Stat("forged_"+kind, 1)
			verify(e, ver.root, k, v, forged, kind+"-honest-pair")
			switch r.Intn(5) {
			case 0: // a key that is not in the state
				ak := append([]byte("absent-"), r.Bytes(r.Range(1, 20))...)
				if _, present := ver.snap.M[string(ak)]; !present {
					mustReject(e, ver.root, ak, r.Bytes(r.Range(0, 20)), forged, kind)
				}
			case 1: // the key with another value
				if ov := mutBytes(r, v); !bytes.Equal(ov, v) {
					mustReject(e, ver.root, k, ov, forged, kind)
				}
			case 2: // another present key with this value
				o := keys[r.Intn(len(keys))]
				if !bytes.Equal(ver.snap.M[o], v) {
					mustReject(e, ver.root, []byte(o), v, forged, kind)
				}
			case 3: // another present pair: may be accepted legitimately, compared with the model
				o := keys[r.Intn(len(keys))]
				verify(e, ver.root, []byte(o), ver.snap.M[o], forged, kind+"-present-pair")
			default: // a generated key (present or not)
				gk := kg.Key()
				gv := r.Bytes(r.Range(0, 8))
				if cur, present := ver.snap.M[string(gk)]; !present || !bytes.Equal(cur, gv) {
					mustReject(e, ver.root, gk, gv, forged, kind)
				}
			}
		}
		const both = "forged-proof-branch-with-both-child-hashes"
		const none = "forged-proof-branch-with-no-child-hash"
		for j := range nodes {
			offer(build(j, cloneInner(full[j]), false), both)
			offer(build(j, cloneInner(full[j]), true), both)
			if r.Chance(1, 2) {
				e0 := cloneInner(nodes[j])
				e0.LeftHash, e0.RightHash = nil, nil
				offer(build(j, e0, r.Bool()), none)
			}
			if r.Chance(1, 2) {
				w := cloneInner(full[j])
				side := &w.LeftHash
				if len(nodes[j].LeftHash) != 0 {
					side = &w.RightHash
				}
				switch r.Intn(5) {
				case 0: // the sibling on both sides
					if len(nodes[j].LeftHash) != 0 {
						*side = append([]byte(nil), w.LeftHash...)
					} else {
						*side = append([]byte(nil), w.RightHash...)
					}
				case 1:
					*side = append([]byte(nil), hs[r.Intn(len(hs))]...)
				case 2:
					*side = r.Bytes(32)
				case 3:
					w.LeftHash, w.RightHash = w.RightHash, w.LeftHash
				default: // the right hash behind a key prefix (InnerNode.Hash keeps the last 32 bytes)
					*side = append([]byte(fmt.Sprintf("_mb_-%010d-", r.Intn(100))), hs[j]...)
				}
				offer(build(j, w, r.Bool()), both)
			}
		}
	}
}

type version struct {
	root []byte
	snap *mavlh.Snap
}

func oneTree(e *mavlh.Eng, r *gen.Rand, cfg mavlh.Cfg) {
	e.New(cfg)
	out.Stat("trees", 1)
	out.Stat("cfg_"+cfg.Bits(), 1)
	pool := []int{2, 8, 40, 200}[r.Pick(1, 3, 3, 1)]
	kg := mavlh.NewKeyGen(r, pool)
	var vs []version
	var parent []byte
	var psnap *mavlh.Snap
	// forgery set-up: a pair (fk, fv) that is NOT written, and a crafted leaf that is
	fk, fv := append([]byte("victim-"), r.Bytes(r.Range(1, 30))...), r.Bytes(r.Range(0, 40))
	fhash := (&types.LeafNode{Key: fk, Value: fv, Height: 0, Size: 1}).Hash()
	forgeVariant := r.Intn(3) // 0: none, 1: crafted key, 2: crafted value
	var crafted mavlh.KV
	switch forgeVariant {
	case 1:
		crafted = mavlh.KV{K: fhash, V: r.Bytes(r.Range(1, 32))}
	case 2:
		crafted = mavlh.KV{K: append([]byte("fk"), r.Bytes(r.Range(1, 30))...), V: fhash}
	}
	for b, nb := 0, r.Range(1, 4); b < nb; b++ {
		kvs := kg.Batch([]int{1, 2, r.Range(3, 12), r.Range(13, 80)}[r.Pick(1, 1, 4, 2)])
		if b == 0 && forgeVariant != 0 {
			kvs = append(kvs, crafted)
		}
		if cfg.MemTree {
			// with enableMemTree a batch that re-creates an existing root at another height leaves a stale root record
			// in the process-global memTree (KNOWN-FINDING C02|...: the root is the one key without height prefix);
			// reads then go through child keys of the other height — proofs differ in a key prefix, and worse.  That
			// shape is hunted and replayed by C02 (lazy model); here every batch of a memTree store writes one key
			// no earlier state has, so that no root repeats.  Stores without memTree keep the no-op batches.
			kvs = append(kvs, mavlh.KV{K: []byte(fmt.Sprintf("~b%02d", b)), V: r.Bytes(r.Range(1, 6))})
		}
		root, st := e.Set(parent, int64(b+1), kvs)
		if len(st) < 5 || st[:5] != "root " {
			out.Pred("C03|Store.Set|"+st, "")
			return
		}
		psnap = mavlh.NewSnap(psnap, kvs)
		parent = root
		vs = append(vs, version{root, psnap})
	}
	if r.Chance(1, 3) {
		e.Reopen()
	}
	for vi, ver := range vs {
		keys := ver.snap.Keys()
		limit := gen.Scale(12, 60)
		for ki, ks := range keys {
			if len(keys) > limit && r.Intn(len(keys)) >= limit {
				continue
			}
			k := []byte(ks)
			v := ver.snap.M[ks]
			proof, exists, st := e.Proof(ver.root, k)
			out.Stat("proofs", 1)
			if st == "panic" || st == "notfound" || !exists {
				out.Pred("C03|GetKVPairProof|no-proof-for-present-key", fmt.Sprintf("root=%x key=%x st=%s", ver.root, k, st))
				continue
			}
			// completeness
			if !verify(e, ver.root, k, v, proof, "honest") {
				out.Pred("C03|VerifyKVPairProof|rejects-honest-proof", fmt.Sprintf("cfg=%s root=%x key=%x value=%x proof=%x", cfg.Bits(), ver.root, k, v, proof))
			}
			// soundness: other value
			mustReject(e, ver.root, k, mutBytes(r, v), proof, "other-value")
			if len(v) > 0 && r.Chance(1, 3) {
				mustReject(e, ver.root, k, nil, proof, "other-value")
			}
			// other key (with the same value, and with that key's own value)
			ok2 := keys[(ki+1+r.Intn(len(keys)))%len(keys)]
			if ok2 != ks {
				mustReject(e, ver.root, []byte(ok2), v, proof, "other-key")
				mustReject(e, ver.root, []byte(ok2), ver.snap.M[ok2], proof, "other-key")
			}
			mustReject(e, ver.root, mutBytes(r, k), v, proof, "other-key")
			// other root: another version, a flipped bit, wrong length, nil
			if len(vs) > 1 {
				o := vs[(vi+1)%len(vs)]
				if !bytes.Equal(o.root, ver.root) {
					mustReject(e, o.root, k, v, proof, "other-root")
				}
			}
			mustReject(e, flip(r, ver.root), k, v, proof, "other-root")
			if r.Chance(1, 3) {
				mustReject(e, append(r.Bytes(r.Range(1, 16)), ver.root...), k, v, proof, "other-root")
				mustReject(e, nil, k, v, proof, "other-root")
			}
			// proof mutations: no panic; outcome compared with the model
			for i := 0; i < 3; i++ {
				verify(e, ver.root, k, v, mutProof(r, proof), "mutated-proof")
			}
			verify(e, ver.root, k, v, mutBytes(r, proof), "mutated-proof-bytes")
		}
		// absent keys have no proof
		for i := 0; i < 3; i++ {
			k := kg.Key()
			if r.Bool() {
				k = mutBytes(r, k)
			}
			if _, present := ver.snap.M[string(k)]; present {
				continue
			}
			_, exists, st := e.Proof(ver.root, k)
			if st == "panic" {
				out.Pred("C03|GetKVPairProof|panic", fmt.Sprintf("root=%x key=%x", ver.root, k))
			} else if exists {
				out.Pred("C03|GetKVPairProof|proof-for-absent-key", fmt.Sprintf("root=%x key=%x", ver.root, k))
			}
			out.Stat("absent_key_proofs", 1)
		}
	}
	// forged membership: the crafted leaf re-read as an inner node in front of its honest proof
	if forgeVariant != 0 && len(vs) > 0 {
		ver := vs[len(vs)-1]
		if cur, ok := ver.snap.M[string(crafted.K)]; ok && bytes.Equal(cur, crafted.V) {
			if _, present := ver.snap.M[string(fk)]; !present {
				honest, exists, _ := e.Proof(ver.root, crafted.K)
				var p types.MAVLProof
				if exists && types.Decode(honest, &p) == nil {
					node := &types.InnerNode{Height: 0, Size: 1}
					if forgeVariant == 1 {
						node.RightHash = crafted.V
					} else {
						node.LeftHash = crafted.K
					}
					forged := types.Encode(&types.MAVLProof{InnerNodes: append([]*types.InnerNode{node}, p.InnerNodes...)})
					out.Stat("forgery_attempts", 1)
					if verify(e, ver.root, fk, fv, forged, "forged-membership") {
						out.Pred("C03|VerifyKVPairProof|accepts-forged-proof-leaf-reread-as-inner-node",
							fmt.Sprintf("variant=%d cfg=%s root=%x absent-key=%x value=%x crafted-leaf=%x:%x proof=%x", forgeVariant, cfg.Bits(), ver.root, fk, fv, crafted.K, crafted.V, forged))
					}
				}
			}
		}
	}
	if len(vs) > 0 {
		fullBranchForgeries(e, r, cfg, vs[r.Intn(len(vs))], kg)
	}
	// Proof.Verify directly on the structure returned by Tree.ConstructProof
	for _, ver := range vs {
		keys := ver.snap.Keys()
		for i := 0; i < 4 && len(keys) > 0; i++ {
			pk := []byte(keys[r.Intn(len(keys))])
			v := ver.snap.M[string(pk)]
			chk := func(k, v, vroot []byte, want bool, kind string) {
				ok, st := e.PVerify(ver.root, pk, k, v, vroot)
				out.Stat("proof_verify_direct", 1)
				if st == "panic" || st == "notfound" || st == "noproof" {
					out.Pred("C03|Proof.Verify|"+st, fmt.Sprintf("root=%x key=%x", ver.root, pk))
				} else if ok != want {
					out.Pred("C03|Proof.Verify|"+kind, fmt.Sprintf("root=%x proofkey=%x key=%x value=%x vroot=%x", ver.root, pk, k, v, vroot))
				}
			}
			chk(pk, v, ver.root, true, "rejects-honest-proof")
			chk(mutBytes(r, pk), v, ver.root, false, "accepts-other-key")
			if o := keys[r.Intn(len(keys))]; o != string(pk) {
				chk([]byte(o), v, ver.root, false, "accepts-other-key")
			}
			chk(pk, mutBytes(r, v), ver.root, false, "accepts-other-value")
			chk(pk, v, flip(r, ver.root), false, "accepts-other-root")
		}
	}
	// arbitrary bytes as proofs
	if len(vs) > 0 {
		ver := vs[len(vs)-1]
		keys := ver.snap.Keys()
		for i := 0; i < gen.Scale(60, 400); i++ {
			ks := keys[r.Intn(len(keys))]
			j := junk(r, 0)
			var mp types.MAVLProof
			if types.Decode(j, &mp) == nil {
				out.Stat("arbitrary_bytes_decodable", 1)
			} else {
				out.Stat("arbitrary_bytes_undecodable", 1)
			}
			verify(e, ver.root, []byte(ks), ver.snap.M[ks], j, "arbitrary-bytes")
		}
	}
}

func main() {
	defer out.Flush()
	e := mavlh.NewEng(out)
	defer e.Close()
	if lines := gen.ReplayLines(); lines != nil {
		e.Replay(lines)
		return
	}
	r := gen.New(gen.Seed())
	cfgs := []mavlh.Cfg{{}, {Prefix: true}, {Prune: true}, {Prefix: true, Prune: true}}
	n := gen.Scale(36, 1000)
	for i := 0; i < n; i++ {
		for _, c := range cfgs {
			if r.Chance(1, 6) { // the other sub-options do not reach proof.go; sampled now and then
				c.MVCC = r.Bool()
				c.MemTree = r.Bool()
				c.MemVal = r.Bool()
			}
			oneTree(e, r, c)
		}
	}
	out.Sample("per key: proof <root> <key>; verify honest (1), other value/key/root (0), mutated proof, arbitrary bytes (no panic)")
}
