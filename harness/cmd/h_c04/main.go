// h_c04 — C04 "Pending state updates never leak into committed state".
// Generated interleavings of Store.MemSet / Commit / Rollback / Set / Get on several parents and heights (forks at
// the same height, empty updates, updates on pending parents, double commits, unknown roots), with restarts.
// Predicate on the implementation: after every step, and after a restart, every COMMITTED root returns exactly
// the content it was committed with (abstract map per root); Commit of a pending update makes exactly its content
// readable at its root.  A second part sends bursts of concurrent requests through the real store module
// (queue + BaseStore.processMessage, one goroutine per request) and then checks the same predicate.
// Every sequential observation is also replayed by the Lean model (drv_c04 = the store LTS of C02/C04).
package main

import (
	"bytes"
	"fmt"
	"os"
	"sort"
	"sync"

	"github.com/33cn/chain33/queue"
	"github.com/33cn/chain33/types"

	"verifharness/internal/gen"
	"verifharness/internal/mavlh"
)

var out = gen.NewOut()

type pend struct {
	root []byte
	snap *mavlh.Snap
	// an empty MemSet was issued with this root as parent while it was pending (S-C04 shape)
	emptyOnTop bool
}

type world struct {
	e         *mavlh.Eng
	r         *gen.Rand
	kg        *mavlh.KeyGen
	committed map[string]*mavlh.Snap // root -> content
	order     [][]byte
	parents   [][]byte // committed roots usable as parents (all of them except the ones hit by a known defect shape)
	tainted   map[string]string // committed root -> shape that explains a failure
	pending   []*pend
	uniq      int
}

func isRoot(st string) bool { return len(st) > 5 && st[:5] == "root " }

func (w *world) addCommitted(root []byte, s *mavlh.Snap) {
	if _, ok := w.committed[string(root)]; !ok {
		w.order = append(w.order, root)
		if w.tainted[string(root)] == "" {
			w.parents = append(w.parents, root)
		}
	}
	w.committed[string(root)] = s
}

func (w *world) batch(n int) []mavlh.KV {
	w.uniq++
	return append(w.kg.Batch(n), mavlh.KV{K: []byte(fmt.Sprintf("~u%05d", w.uniq)), V: w.r.Bytes(w.r.Range(1, 4))})
}

// checkRoot: the read half of the property at one committed root.
func (w *world) checkRoot(root []byte, phase string) {
	snap := w.committed[string(root)]
	keys := snap.Keys()
	var probe [][]byte
	for i := 0; i < 6 && len(keys) > 0; i++ {
		probe = append(probe, []byte(keys[w.r.Intn(len(keys))]))
	}
	probe = append(probe, w.kg.Key(), []byte(fmt.Sprintf("~u%05d", w.r.Intn(w.uniq+2))))
	vals, st := w.e.Get(root, probe)
	shape := w.tainted[string(root)]
	if shape == "reported" {
		return
	}
	sig := func(kind string) string {
		if shape != "" {
			return "C04|Store.Commit|" + kind + "-" + shape
		}
		return "C04|Store.Get|" + kind + "-at-committed-root-" + phase
	}
	if st == "panic" {
		out.Pred(sig("panic"), fmt.Sprintf("root=%x", root))
		return
	}
	for i, k := range probe {
		want := snap.M[string(k)]
		if !bytes.Equal(vals[i], want) {
			kind := "wrong-value"
			if len(vals[i]) == 0 {
				kind = "committed-value-unreadable"
			} else if len(want) == 0 {
				kind = "uncommitted-value-readable"
			}
			out.Pred(sig(kind), fmt.Sprintf("root=%x key=%x got=%x want=%x phase=%s", root, k, vals[i], want, phase))
			if shape != "" {
				w.tainted[string(root)] = "reported"
			}
			return
		}
	}
	out.Stat("committed_root_reads", int64(len(probe)))
	if shape == "" && w.r.Chance(1, 4) {
		got, st := w.e.Iter(root, nil, nil, true, -1)
		if st == "panic" || !mavlh.EqKVs(got, snap.Range(nil, nil, true, false, -1)) {
			out.Pred(sig("wrong-iteration"), fmt.Sprintf("root=%x phase=%s", root, phase))
		}
	}
}

func (w *world) checkSome(phase string) {
	if len(w.order) == 0 {
		return
	}
	for i := 0; i < 2; i++ {
		w.checkRoot(w.order[w.r.Intn(len(w.order))], phase)
	}
}

func (w *world) checkAll(phase string) {
	for _, r := range w.order {
		w.checkRoot(r, phase)
	}
}

func (w *world) pickCommitted() ([]byte, *mavlh.Snap) {
	if len(w.parents) == 0 || w.r.Chance(1, 8) {
		return nil, mavlh.NewSnap(nil, nil)
	}
	r := w.parents[w.r.Intn(len(w.parents))]
	return r, w.committed[string(r)]
}

func (w *world) step() {
	r, e := w.r, w.e
	height := int64(r.Range(1, 6)) // few heights: forks at the same height are the rule
	switch r.Pick(3, 6, 2, 4, 3, 1, 1, 1) {
	case 0: // direct commit
		p, ps := w.pickCommitted()
		kvs := w.batch(r.Range(1, 12))
		root, st := e.Set(p, height, kvs)
		out.Stat("op_set", 1)
		if !isRoot(st) {
			out.Pred("C04|Store.Set|"+st, "")
			return
		}
		w.addCommitted(root, mavlh.NewSnap(ps, kvs))
	case 1: // pending update on a committed parent
		p, ps := w.pickCommitted()
		kvs := w.batch(r.Range(1, 12))
		if r.Chance(1, 6) && len(w.pending) > 0 { // the same update again (same parent content -> same root)
			_ = kvs
		}
		root, st := e.MemSet(p, height, kvs)
		out.Stat("op_memset", 1)
		if !isRoot(st) {
			out.Pred("C04|Store.MemSet|"+st, "")
			return
		}
		w.pending = append(w.pending, &pend{root: root, snap: mavlh.NewSnap(ps, kvs)})
	case 2: // empty pending update on a committed parent: root = parent
		p, _ := w.pickCommitted()
		root, st := e.MemSet(p, height, nil)
		out.Stat("op_memset_empty", 1)
		if !isRoot(st) || !bytes.Equal(root, p) {
			out.Pred("C04|Store.MemSet|empty-update-changes-root", st)
		}
		if r.Bool() {
			e.Commit(p)
		} else if r.Bool() {
			e.Rollback(p)
		}
	case 3: // commit a pending update
		if len(w.pending) == 0 {
			return
		}
		i := r.Intn(len(w.pending))
		p := w.pending[i]
		st := e.Commit(p.root)
		out.Stat("op_commit", 1)
		w.pending = append(w.pending[:i], w.pending[i+1:]...)
		// the same root may be pending twice (same content): both entries are one tree for the store
		for j := 0; j < len(w.pending); {
			if bytes.Equal(w.pending[j].root, p.root) {
				w.pending = append(w.pending[:j], w.pending[j+1:]...)
			} else {
				j++
			}
		}
		if st == "ok "+mavlh.Hx(p.root) {
			if _, already := w.committed[string(p.root)]; p.emptyOnTop && !already {
				w.tainted[string(p.root)] = "after-empty-MemSet-on-pending-parent"
				out.Stat("shape_empty_memset_on_pending_parent_then_commit", 1)
			}
			w.addCommitted(p.root, p.snap)
			w.checkRoot(p.root, "just-committed")
			if p.emptyOnTop && r.Chance(2, 3) {
				// the node commits once per block: the empty block on top has the same state hash, so Commit(root) comes a
				// second time; the entry is gone, the reply is ErrHashNotFound (compared with the model, no predicate: the
				// property constrains what is readable, not this reply) and the content must stay readable
				e.Commit(p.root)
				out.Stat("second_commit_of_same_root", 1)
				w.checkRoot(p.root, "after-second-commit")
			}
		} else {
			out.Pred("C04|Store.Commit|"+st+"-for-pending-root", fmt.Sprintf("root=%x", p.root))
		}
	case 4: // roll a pending update back
		if len(w.pending) == 0 {
			return
		}
		i := r.Intn(len(w.pending))
		p := w.pending[i]
		e.Rollback(p.root)
		out.Stat("op_rollback", 1)
		for j := 0; j < len(w.pending); {
			if bytes.Equal(w.pending[j].root, p.root) {
				w.pending = append(w.pending[:j], w.pending[j+1:]...)
			} else {
				j++
			}
		}
	case 5: // an update on top of a *pending* parent: the next block computed before its parent is committed
		if len(w.pending) == 0 {
			return
		}
		p := w.pending[r.Intn(len(w.pending))]
		if r.Chance(2, 3) {
			e.MemSet(p.root, height+1, nil) // empty block on a pending parent
			p.emptyOnTop = true
			for _, q := range w.pending {
				if bytes.Equal(q.root, p.root) {
					q.emptyOnTop = true
				}
			}
			out.Stat("op_memset_empty_on_pending", 1)
		} else {
			e.MemSet(p.root, height+1, w.batch(r.Range(1, 4))) // not loadable: ErrNodeNotExist
			out.Stat("op_memset_on_pending", 1)
		}
	case 6: // unknown / stale roots
		x := r.Bytes(32)
		if r.Bool() {
			e.Commit(x)
		} else {
			e.Rollback(x)
		}
		if len(w.order) > 0 { // commit / rollback of an already committed root that is not pending
			c := w.order[r.Intn(len(w.order))]
			if r.Bool() {
				e.Commit(c)
			} else {
				e.Rollback(c)
			}
		}
	case 7: // restart: pending updates are gone
		e.Reopen()
		w.pending = nil
		out.Stat("restarts", 1)
		w.checkSome("restarted")
	}
	w.checkSome("later")
}

func history(e *mavlh.Eng, r *gen.Rand) *world {
	cfg := mavlh.Cfg{}
	switch r.Pick(5, 2, 1) {
	case 1:
		cfg.Prefix = true
	case 2:
		cfg.Prefix, cfg.Prune = true, true
	}
	e.New(cfg)
	out.Stat("histories", 1)
	w := &world{e: e, r: r, kg: mavlh.NewKeyGen(r, []int{3, 10, 40}[r.Intn(3)]),
		committed: map[string]*mavlh.Snap{}, tainted: map[string]string{}}
	for i, n := 0, r.Range(5, gen.Scale(40, 80)); i < n; i++ {
		w.step()
	}
	w.checkAll("final")
	e.Reopen()
	w.pending = nil
	w.checkAll("restarted")
	if !cfg.Prune {
		e.Dump() // digest of every record: nothing but the committed trees' node records may be there (model diff)
	}
	return w
}

// ---- concurrent requests through the real store module -------------------------------------------------------

type req struct {
	ty   int64
	data interface{}
	line string // op line replayed by the model, emitted in canonical order after the burst
	res  string
	root []byte
	np   *pend // MemSet: the pending update it creates
	dp   *pend // Commit/Rollback: the pending update it decides
}

func send(cli queue.Client, ty int64, data interface{}) (*queue.Message, error) {
	msg := cli.NewMessage("store", ty, data)
	if err := cli.Send(msg, true); err != nil {
		return nil, err
	}
	return cli.Wait(msg)
}

// burst: requests that act on distinct roots (so every linearisation gives the same replies: C04.ops_commute) are
// issued at once; the replies are then printed in a canonical order and the sequential model must give them too.
func burst(w *world, cli queue.Client) {
	r := w.r
	var reqs []*req
	used := map[string]bool{}
	for i, n := 0, r.Range(2, 6); i < n; i++ {
		if r.Chance(1, 2) || len(w.pending) == 0 {
			p, psn := w.pickCommitted()
			kvs := w.batch(r.Range(1, 8))
			h := int64(r.Range(1, 6))
			s := &types.StoreSet{StateHash: p, Height: h}
			for _, kv := range kvs {
				s.KV = append(s.KV, &types.KeyValue{Key: kv.K, Value: kv.V})
			}
			reqs = append(reqs, &req{ty: types.EventStoreMemSet, data: &types.StoreSetWithSync{Storeset: s, Sync: false},
				line: fmt.Sprintf("mset %s %d %s", mavlh.Hx(p), h, mavlh.ShowKVs(kvs)), np: &pend{snap: mavlh.NewSnap(psn, kvs)}})
			continue
		}
		p := w.pending[r.Intn(len(w.pending))]
		if used[string(p.root)] {
			continue
		}
		used[string(p.root)] = true
		if r.Bool() {
			reqs = append(reqs, &req{ty: types.EventStoreCommit, data: &types.ReqHash{Hash: p.root}, line: "commit " + mavlh.Hx(p.root), dp: p})
		} else {
			reqs = append(reqs, &req{ty: types.EventStoreRollback, data: &types.ReqHash{Hash: p.root}, line: "rollback " + mavlh.Hx(p.root), dp: p})
		}
	}
	var wg sync.WaitGroup
	for _, rq := range reqs {
		wg.Add(1)
		go func(rq *req) {
			defer wg.Done()
			m, err := send(cli, rq.ty, rq.data)
			if err != nil {
				rq.res = "err:" + err.Error()
				return
			}
			switch d := m.GetData().(type) {
			case *types.ReplyHash:
				rq.root = d.Hash
				if rq.ty == types.EventStoreMemSet {
					rq.res = "root " + mavlh.Hx(d.Hash)
				} else {
					rq.res = "ok " + mavlh.Hx(d.Hash)
				}
			case error:
				if d == types.ErrHashNotFound {
					rq.res = "notfound"
				} else {
					rq.res = "err:" + d.Error()
				}
			default:
				rq.res = fmt.Sprintf("err:%T", d)
			}
		}(rq)
	}
	wg.Wait()
	out.Stat("concurrent_bursts", 1)
	out.Stat("concurrent_requests", int64(len(reqs)))
	sort.SliceStable(reqs, func(a, b int) bool { return reqs[a].line < reqs[b].line })
	for _, rq := range reqs {
		out.Op(rq.line, rq.res)
		switch {
		case rq.np != nil:
			if isRoot(rq.res) {
				rq.np.root = rq.root
				w.pending = append(w.pending, rq.np)
			} else {
				out.Pred("C04|processMessage.MemSet|reply-"+rq.res, rq.line)
			}
		default:
			for j := 0; j < len(w.pending); {
				if bytes.Equal(w.pending[j].root, rq.dp.root) {
					w.pending = append(w.pending[:j], w.pending[j+1:]...)
				} else {
					j++
				}
			}
			if rq.res != "ok "+mavlh.Hx(rq.dp.root) {
				out.Pred("C04|processMessage|concurrent-decision-reply-"+rq.res, rq.line)
			} else if rq.ty == types.EventStoreCommit {
				if _, already := w.committed[string(rq.dp.root)]; rq.dp.emptyOnTop && !already {
					w.tainted[string(rq.dp.root)] = "after-empty-MemSet-on-pending-parent"
				}
				w.addCommitted(rq.dp.root, rq.dp.snap)
			}
		}
	}
	w.checkSome("after-concurrent-burst")
}

func concurrentHistory(e *mavlh.Eng, r *gen.Rand) {
	cfg := mavlh.Cfg{Prefix: r.Bool()}
	e.New(cfg)
	cli := e.AttachQueue()
	out.Stat("concurrent_histories", 1)
	w := &world{e: e, r: r, kg: mavlh.NewKeyGen(r, []int{3, 10, 40}[r.Intn(3)]),
		committed: map[string]*mavlh.Snap{}, tainted: map[string]string{}}
	for i := 0; i < 3; i++ { // a few committed parents first
		p, ps := w.pickCommitted()
		kvs := w.batch(r.Range(1, 10))
		if root, st := e.Set(p, int64(i+1), kvs); isRoot(st) {
			w.addCommitted(root, mavlh.NewSnap(ps, kvs))
		}
	}
	for i, n := 0, r.Range(3, 10); i < n; i++ {
		burst(w, cli)
	}
	w.checkAll("final")
	e.Reopen()
	w.pending = nil
	w.checkAll("restarted")
}

func main() {
	defer out.Flush()
	e := mavlh.NewEng(out)
	defer e.Close()
	if lines := gen.ReplayLines(); lines != nil {
		e.Replay(lines)
		return
	}
	r := gen.New(gen.Seed())
	n := gen.Scale(250, 1200)
	for i := 0; i < n; i++ {
		history(e, r)
	}
	if os.Getenv("VERIF_C04_NOCONC") == "" {
		for i, m := 0, gen.Scale(50, 250); i < m; i++ {
			concurrentHistory(e, r)
		}
	}
	out.Sample("interleavings of set/mset/commit/rollback (forks at the same height, empty updates, updates on pending parents, unknown roots, restarts); get at committed roots after every step and after restart")
}
