// h_c05 — C05 "State pruning never deletes live state".
// mavl.Store with EnableMavlPrune and a small prune interval (2..5): per-height commits through Set or
// MemSet->Commit, heights without state change (empty MemSet->Commit, which never reaches Tree.Save, or skipped
// altogether), reorganisations within the prune interval (fork from a retained root, re-commit at used heights),
// pruning by the store's own trigger (joined through the verif hook) and by PruningTree at arbitrary heights up to
// the tip, sparse heights beyond the second/third level thresholds.  After every pruning run (and a process
// restart, so that no cache hides a deleted record): every key of the tip state and of every current-chain state
// within the prune interval must be readable with its value (predicate, abstract map per root).  All operations,
// every read and a digest of the whole database after each pruning run are replayed by the Lean model (drv_c05).
package main

import (
	"bytes"
	"fmt"
	"os"

	"verifharness/internal/gen"
	"verifharness/internal/mavlh"
)

var out = gen.NewOut()

// session mode: no process restart between blocks (VERIF_C05_MODE=session; predicate only, not replayed by the model)
var session = os.Getenv("VERIF_C05_MODE") == "session"

type block struct {
	height   int64
	root     []byte
	snap     *mavlh.Snap
	viaSave  bool // this height went through Tree.Save on this branch (DelLeafCountKV ran / index written)
	nonEmpty bool
}

type world struct {
	e     *mavlh.Eng
	r     *gen.Rand
	kg    *mavlh.KeyGen
	ph    int64
	chain []*block // current chain, ascending heights; chain[0] = genesis state (height 0, nil root)
	// heights at which an abandoned branch wrote index entries that the current chain has not re-committed through Save
	stale   map[int64]bool
	// highest (pruning height - prune interval) of any pruning run so far: states at or below it may have been
	// pruned for good (a reorganisation cannot un-prune), so "retained" = above max(tip - interval, floor)
	floor   int64
	// heights at which some branch (possibly abandoned) recorded a root through Save
	recorded map[int64]bool
	tainted bool // a pruning run happened while stale heights existed (shape of the known finding S-C05)
	damaged bool
	uniq    int
}

func isRoot(st string) bool { return len(st) > 5 && st[:5] == "root " }

func (w *world) tip() *block { return w.chain[len(w.chain)-1] }

func (w *world) retained() []*block {
	var rs []*block
	t := w.tip().height
	for _, b := range w.chain[1:] {
		if (b.height > t-w.ph && b.height > w.floor) || b == w.tip() {
			rs = append(rs, b)
		}
	}
	return rs
}

// verify reads every key of every retained state.
func (w *world) verify(phase string) {
	for _, b := range w.retained() {
		if b.root == nil {
			continue
		}
		keys := b.snap.Keys()
		var ks [][]byte
		for _, k := range keys {
			ks = append(ks, []byte(k))
		}
		ks = append(ks, []byte("~absent"))
		where := "retained-root"
		if b == w.tip() {
			where = "tip"
		}
		for i := 0; i < len(ks); i += 25 {
			j := i + 25
			if j > len(ks) {
				j = len(ks)
			}
			vals, st := w.e.Get(b.root, ks[i:j])
			bad := ""
			if st == "panic" {
				bad = "live-key-unreadable-panic"
			} else {
				for x, k := range ks[i:j] {
					if !bytes.Equal(vals[x], b.snap.M[string(k)]) {
						bad = "live-key-wrong-value"
						if len(vals[x]) == 0 {
							bad = "live-key-unreadable"
						}
						break
					}
				}
			}
			if bad != "" {
				sig := "C05|Store.Get|" + bad + "-at-" + where + "-" + phase
				if w.tainted {
					sig = "C05|PruningTree|live-key-unreadable-after-reorg-with-height-not-recommitted-through-Save"
				}
				out.Pred(sig, fmt.Sprintf("ph=%d tip=%d root-height=%d root=%x %s", w.ph, w.tip().height, b.height, b.root, bad))
				w.damaged = true
				return
			}
			out.Stat("live_key_reads", int64(j-i))
		}
	}
}

func (w *world) afterPrune(cur int64, phase string) {
	if cur-w.ph > w.floor {
		w.floor = cur - w.ph
	}
	if len(w.stale) > 0 {
		w.tainted = true
		out.Stat("pruning_runs_with_stale_index_heights", 1)
	}
	out.Stat("pruning_runs", 1)
	w.e.Restart()
	w.e.Dump()
	w.verify(phase)
}

func (w *world) triggers(h int64) bool { return h%w.ph == 0 && h/w.ph > 1 }

// addBlock applies one block on top of parent at the given height.
func (w *world) addBlock(parent *block, height int64) {
	r, e := w.r, w.e
	if !session {
		// differential mode: one process per block.  Within a longer session nodeDB.cache hands out Node objects that
		// still carry the parentNode pointer of the tree they were saved in, `_copy` copies it, and the new root keeps
		// it: the PruneData of new leaves then lists additional stale ancestors (older roots).  That object-identity
		// effect is not modelled; the session mode (predicate only) runs without these restarts.
		e.Restart()
	}
	kind := r.Pick(6, 3, 2, 1) // set, memset+commit, empty memset+commit (no Save), no-op set (Save without change)
	var kvs []mavlh.KV
	if kind <= 1 {
		w.uniq++
		kvs = w.kg.Batch(r.Range(1, 8))
		if r.Chance(1, 2) {
			kvs = append(kvs, mavlh.KV{K: []byte(fmt.Sprintf("~u%04d", w.uniq)), V: r.Bytes(2)})
		}
	}
	b := &block{height: height, snap: mavlh.NewSnap(parent.snap, kvs), nonEmpty: len(kvs) > 0}
	// a Save at a height where an abandoned branch recorded a root, after some pruning run: DelLeafCountKV walks that
	// (possibly partially pruned) abandoned tree — shape of the known finding "panic re-committing a height"
	saveSig := func(op, st string) string {
		if st == "panic" && w.recorded[height] && w.floor > 0 {
			return "C05|Tree.Save|panic-in-DelLeafCountKV-walking-abandoned-partially-pruned-root-recorded-at-that-height"
		}
		return "C05|" + op + "|" + st
	}
	switch kind {
	case 0, 3:
		if kind == 3 && parent.root == nil {
			return
		}
		root, st := e.Set(parent.root, height, kvs)
		out.Stat("blocks_set", 1)
		if !isRoot(st) {
			out.Pred(saveSig("Store.Set", st), fmt.Sprintf("height=%d", height))
			w.damaged = true
			return
		}
		b.root, b.viaSave = root, true
	case 1:
		root, st := e.MemSet(parent.root, height, kvs)
		if !isRoot(st) {
			out.Pred("C05|Store.MemSet|"+st, fmt.Sprintf("height=%d", height))
			w.damaged = true
			return
		}
		if cst := e.Commit(root); cst != "ok "+mavlh.Hx(root) {
			out.Pred(saveSig("Store.Commit", cst), fmt.Sprintf("height=%d", height))
			w.damaged = true
			return
		}
		out.Stat("blocks_memset_commit", 1)
		b.root, b.viaSave = root, true
	case 2:
		root, _ := e.MemSet(parent.root, height, nil)
		e.Commit(root)
		out.Stat("blocks_empty_no_save", 1)
		b.root = parent.root
	}
	w.chain = append(w.chain, b)
	if b.viaSave {
		w.recorded[height] = true
		delete(w.stale, height)
		if w.triggers(height) {
			w.afterPrune(height, "store-trigger")
		}
	}
}

func history(e *mavlh.Eng, r *gen.Rand) {
	ph := int64(r.Range(2, 5))
	e.NewPrune(int32(ph))
	out.Stat("histories", 1)
	out.Stat(fmt.Sprintf("prune_height_%d", ph), 1)
	w := &world{e: e, r: r, kg: mavlh.NewKeyGen(r, []int{3, 8, 25}[r.Intn(3)]), ph: ph, stale: map[int64]bool{}, recorded: map[int64]bool{}}
	w.chain = []*block{{height: 0, snap: mavlh.NewSnap(nil, nil)}}
	sparse := r.Chance(1, 8)
	for step, n := 0, r.Range(6, gen.Scale(40, 90)); step < n && !w.damaged; step++ {
		switch r.Pick(10, 2, 2, 1) {
		case 0: // next block
			h := w.tip().height + 1
			if r.Chance(1, 10) {
				h++ // a height the chain skips altogether
			}
			if sparse && r.Chance(1, 12) {
				h += int64(r.Range(200000, 900000))
				out.Stat("sparse_height_jumps", 1)
			}
			w.addBlock(w.tip(), h)
		case 1: // reorganisation: back to a retained ancestor, the abandoned heights become stale until re-committed
			if len(w.chain) < 3 {
				continue
			}
			depth := r.Range(1, int(w.ph)-1)
			if depth >= len(w.chain)-1 {
				depth = len(w.chain) - 2
			}
			if depth < 1 {
				continue
			}
			fp := len(w.chain) - 1 - depth
			if w.chain[fp].height <= w.tip().height-w.ph || w.chain[fp].height <= w.floor || w.chain[fp].root == nil {
				continue // the fork point must still be a retained state
			}
			for _, b := range w.chain[fp+1:] {
				if b.viaSave && b.nonEmpty {
					w.stale[b.height] = true
				}
			}
			w.chain = w.chain[:fp+1]
			out.Stat("reorgs", 1)
			out.Stat(fmt.Sprintf("reorg_depth_%d", depth), 1)
		case 2: // pruning at an arbitrary height up to the tip
			h := w.tip().height
			if r.Chance(1, 3) && h > 1 {
				h = int64(r.Range(1, int(h)))
			}
			if st := e.Prune(h); st != "ok" {
				out.Pred("C05|PruningTree|"+st, fmt.Sprintf("height=%d", h))
				w.damaged = true
				break
			}
			w.afterPrune(h, "manual")
		case 3:
			e.Restart()
		}
	}
	if !w.damaged {
		if st := e.Prune(w.tip().height); st == "ok" {
			w.afterPrune(w.tip().height, "final")
		}
	}
	out.Stat(fmt.Sprintf("chain_len_le_%d", lenClass(len(w.chain))), 1)
}

func lenClass(n int) int {
	for _, c := range []int{5, 10, 20, 40} {
		if n <= c {
			return c
		}
	}
	return 100
}

func main() {
	defer out.Flush()
	e := mavlh.NewEng(out)
	e.PruneMode = true
	defer e.Close()
	if lines := gen.ReplayLines(); lines != nil {
		e.Replay(lines)
		return
	}
	r := gen.New(gen.Seed())
	for i, n := 0, gen.Scale(80, 2000); i < n; i++ {
		history(e, r)
	}
	out.Sample("new <ph>; per height: set | mset+commit | empty mset+commit | skipped; reorg within the interval; prune <h> / store trigger; restart; dump; get of every key at the tip and every retained root")
}
