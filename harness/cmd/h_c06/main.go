// h_c06 drives the key-value backends of common/db (GoMemDB, GoLevelDB, GoBadgerDB) with
// generated sequences of point writes, deletes, batches and iterator sessions.
//
// Op lines (hex, "-" = nil/empty), one implementation answer each (see lean/Driver/C06.lean):
//
//	open mem|level|badger ; reopen ; put k v ; del k ; get k ; batch S:k:v,N:k,D:k,R,… ;
//	it start end rev ; rewind ; next ; seek k
//
// The property predicate (C06) is evaluated on the implementation against a plain in-harness
// reference (Go map + sorted key slice + the textbook range iterator), independent of the Lean model.
package main

import (
	"bytes"
	"encoding/hex"
	"fmt"
	"os"
	"path/filepath"
	"sort"
	"strings"

	dbm "github.com/33cn/chain33/common/db"
	"github.com/33cn/chain33/common/log/log15"
	"github.com/33cn/chain33/types"

	"verifharness/internal/gen"
)

var out = gen.NewOut()

func hx(b []byte) string {
	if len(b) == 0 {
		return "-"
	}
	return hex.EncodeToString(b)
}

func unhx(s string) ([]byte, bool) {
	if s == "-" {
		return nil, true
	}
	b, err := hex.DecodeString(s)
	return b, err == nil
}

// ---------------------------------------------------------------- reference sorted map

type refMap map[string][]byte

func (m refMap) sortedKeys() []string {
	ks := make([]string, 0, len(m))
	for k := range m {
		ks = append(ks, k)
	}
	sort.Strings(ks) // byte-wise, = bytes.Compare
	return ks
}

// refPrefixUpper: least string greater than every string with the prefix (nil if none).
func refPrefixUpper(p []byte) []byte {
	q := append([]byte{}, p...)
	for len(q) > 0 && q[len(q)-1] == 0xff {
		q = q[:len(q)-1]
	}
	if len(q) == 0 {
		return nil
	}
	q[len(q)-1]++
	return q
}

// refIt is the textbook iterator over the keys k with start <= k < limit.
type refIt struct {
	keys  []string
	vals  [][]byte
	pos   int // -1 = before first, len = after last
	rev   bool
	start []byte
	limit []byte // nil = unbounded
}

func newRefIt(m refMap, start, end []byte, rev bool) *refIt {
	limit := end
	if limit == nil {
		limit = refPrefixUpper(start)
	}
	if bytes.Equal(limit, types.EmptyValue) {
		limit = nil
	}
	it := &refIt{pos: -1, rev: rev, start: start, limit: limit}
	for _, k := range m.sortedKeys() {
		if bytes.Compare([]byte(k), start) >= 0 && (limit == nil || bytes.Compare([]byte(k), limit) < 0) {
			it.keys = append(it.keys, k)
			it.vals = append(it.vals, m[k])
		}
	}
	return it
}

func (it *refIt) valid() bool { return it.pos >= 0 && it.pos < len(it.keys) }

func (it *refIt) rewind() {
	if it.rev {
		it.pos = len(it.keys) - 1
	} else {
		it.pos = 0
	}
}

func (it *refIt) next() {
	n := len(it.keys)
	if it.rev {
		switch {
		case it.pos == n:
			it.pos = n - 1
		case it.pos >= 0:
			it.pos--
		}
	} else {
		switch {
		case it.pos == -1:
			it.pos = 0
		case it.pos < n:
			it.pos++
		}
	}
}

func (it *refIt) seek(k []byte) {
	n := len(it.keys)
	if it.rev {
		// greatest in-range key <= k
		i := sort.Search(n, func(i int) bool { return bytes.Compare([]byte(it.keys[i]), k) > 0 })
		it.pos = i - 1
	} else {
		it.pos = sort.Search(n, func(i int) bool { return bytes.Compare([]byte(it.keys[i]), k) >= 0 })
	}
}

func (it *refIt) show() string {
	if !it.valid() {
		return "0 0 - -"
	}
	return fmt.Sprintf("1 1 %s %s", hx([]byte(it.keys[it.pos])), hx(it.vals[it.pos]))
}

// ---------------------------------------------------------------- system under test

type sut struct {
	backend      string
	dir          string
	db           dbm.DB
	ref          refMap
	it           dbm.Iterator
	rit          *refIt
	tainted      bool // the open iterator already diverged from the reference (reported once)
	moves        int  // calls made on the open iterator
	emptyRevSeek bool // a reverse Seek with an empty target was made on the open badger iterator
	nOpen        int
}

var tmpRoot string

func (s *sut) closeIt() {
	if s.it != nil {
		s.it.Close()
		s.it = nil
		s.rit = nil
	}
}

func (s *sut) closeDB() {
	s.closeIt()
	if s.db != nil {
		s.db.Close()
		s.db = nil
	}
	if s.dir != "" {
		os.RemoveAll(s.dir)
		s.dir = ""
	}
}

func (s *sut) open(backend string) {
	s.closeDB()
	s.backend = backend
	s.ref = refMap{}
	s.nOpen++
	switch backend {
	case "mem":
		d, err := dbm.NewGoMemDB("m", "", 0)
		must(err)
		s.db = d
	case "level":
		s.dir = filepath.Join(tmpRoot, fmt.Sprintf("level%d", s.nOpen))
		d, err := dbm.NewGoLevelDB("l", s.dir, 16)
		must(err)
		s.db = d
	case "badger":
		s.dir = filepath.Join(tmpRoot, fmt.Sprintf("badger%d", s.nOpen))
		must(os.MkdirAll(s.dir, 0o755))
		d, err := dbm.NewGoBadgerDB("b", s.dir, 128)
		must(err)
		s.db = d
	default:
		panic("backend " + backend)
	}
	out.Op("open "+backend, "ok")
	out.Stat("open_"+backend, 1)
}

func (s *sut) reopen() {
	s.closeIt()
	if s.backend == "level" {
		s.db.Close()
		d, err := dbm.NewGoLevelDB("l", s.dir, 16)
		must(err)
		s.db = d
	}
	out.Op("reopen", "ok")
	out.Stat("reopen", 1)
}

func must(err error) {
	if err != nil {
		out.Flush()
		fmt.Fprintln(os.Stderr, "harness:", err)
		os.Exit(4)
	}
}

func errName(err error) string {
	switch err {
	case nil:
		return "ok"
	case types.ErrNotFound:
		return "notfound"
	}
	if strings.Contains(err.Error(), "not found") {
		return "notfound"
	}
	return "err:" + err.Error()
}

func (s *sut) pred(site, kind, detail string) {
	out.Pred(fmt.Sprintf("C06|%s|%s", site, kind), fmt.Sprintf("backend=%s %s", s.backend, detail))
}

func (s *sut) put(k, v []byte) {
	s.closeIt()
	err := s.db.Set(k, v)
	out.Op(fmt.Sprintf("put %s %s", hx(k), hx(v)), errName(err))
	if err == nil {
		s.ref[string(k)] = append([]byte{}, v...)
	} else {
		s.pred(s.site()+".Set", "error", fmt.Sprintf("k=%s err=%v", hx(k), err))
	}
	out.Stat("put", 1)
	if len(v) == 0 {
		out.Stat("put_empty_value", 1)
	}
}

func (s *sut) del(k []byte) {
	s.closeIt()
	err := s.db.Delete(k)
	out.Op("del "+hx(k), errName(err))
	// GoMemDB.Delete reports an absent key as an error; the state is what the property is about.
	delete(s.ref, string(k))
	out.Stat("del", 1)
}

func (s *sut) get(k []byte) {
	v, err := s.db.Get(k)
	res := errName(err)
	if err == nil {
		res = "= " + hx(v)
	}
	out.Op("get "+hx(k), res)
	want, ok := s.ref[string(k)]
	switch {
	case ok && err != nil:
		s.pred(s.site()+".Get", "present-key-not-returned", fmt.Sprintf("k=%s got=%s", hx(k), res))
	case !ok && err == nil:
		s.pred(s.site()+".Get", "absent-key-returned", fmt.Sprintf("k=%s got=%s", hx(k), res))
	case ok && !bytes.Equal(v, want):
		s.pred(s.site()+".Get", "wrong-value", fmt.Sprintf("k=%s got=%s want=%s", hx(k), hx(v), hx(want)))
	case ok && v == nil:
		s.pred(s.site()+".Get", "nil-for-present-key", "k="+hx(k))
	}
	out.Stat("get", 1)
	if ok {
		out.Stat("get_hit", 1)
	}
}

type bop struct {
	del   bool
	reset bool
	k, v  []byte // v == nil: Set(k, nil); v non-nil (possibly empty): Set(k, v)
}

// batch builds a batch through the Batch interface (Set / Delete / Reset), reads ValueSize and
// ValueLen, then writes it.  Output: "<ok|notfound> <ValueSize> <ValueLen>".
func (s *sut) batch(ops []bop) {
	s.closeIt()
	b := s.db.NewBatch(false)
	var parts []string
	eff := ops[:0:0]
	for _, o := range ops {
		switch {
		case o.reset:
			b.Reset()
			parts = append(parts, "R")
			eff = eff[:0]
			out.Stat("batch_reset", 1)
			continue
		case o.del:
			b.Delete(o.k)
			parts = append(parts, "D:"+hx(o.k))
		case o.v == nil:
			b.Set(o.k, nil)
			parts = append(parts, "N:"+hx(o.k))
			out.Stat("batch_set_nil", 1)
		default:
			b.Set(o.k, o.v)
			parts = append(parts, "S:"+hx(o.k)+":"+hx(o.v))
			if len(o.v) == 0 {
				out.Stat("batch_set_empty_nonnil", 1)
			}
		}
		eff = append(eff, o)
	}
	size, ln := b.ValueSize(), b.ValueLen()
	err := b.Write()
	line := "-"
	if len(parts) > 0 {
		line = strings.Join(parts, ",")
	}
	out.Op("batch "+line, fmt.Sprintf("%s %d %d", errName(err), size, ln))
	// reference: the calls after the last Reset, in order; Set(k, nil/empty) stores an empty value
	for _, o := range eff {
		if o.del {
			delete(s.ref, string(o.k))
		} else {
			s.ref[string(o.k)] = append([]byte{}, o.v...)
		}
	}
	out.Stat("batch", 1)
	out.Stat("batch_ops", int64(len(ops)))
}

func (s *sut) site() string {
	switch s.backend {
	case "mem":
		return "GoMemDB"
	case "level":
		return "GoLevelDB"
	}
	return "GoBadgerDB"
}

func (s *sut) itSite() string {
	if s.backend == "badger" {
		return "goBadgerDBIt"
	}
	return "goLevelDBIt(" + s.backend + ")"
}

func (s *sut) openIt(start, end []byte, rev bool) {
	s.closeIt()
	s.it = s.db.Iterator(start, end, rev)
	s.rit = newRefIt(s.ref, start, end, rev)
	s.tainted = false
	s.moves = 0
	s.emptyRevSeek = false
	r := "0"
	if rev {
		r = "1"
	}
	out.Op(fmt.Sprintf("it %s %s %s", hx(start), hx(end), r), "ok")
	out.Stat("it_open", 1)
	if rev {
		out.Stat("it_reverse", 1)
	}
	if end == nil {
		out.Stat("it_prefix_mode", 1)
		if refPrefixUpper(start) == nil {
			out.Stat("it_prefix_unbounded(empty/0xff)", 1)
		}
	}
}

func (s *sut) showImpl(ret bool) string {
	if !s.it.Valid() {
		if ret {
			return "1 0 - -"
		}
		return "0 0 - -"
	}
	r := "0"
	if ret {
		r = "1"
	}
	return fmt.Sprintf("%s 1 %s %s", r, hx(s.it.Key()), hx(s.it.Value()))
}

// move performs one iterator call on the implementation and on the reference and compares.
func (s *sut) move(op string, key []byte) string {
	if s.it == nil {
		return ""
	}
	line := op
	if op == "seek" {
		line = "seek " + hx(key)
	}
	impl := gen.Guard(func() string {
		var ret bool
		switch op {
		case "rewind":
			ret = s.it.Rewind()
		case "next":
			ret = s.it.Next()
		case "seek":
			ret = s.it.Seek(key)
		}
		return s.showImpl(ret)
	})
	out.Op(line, impl)
	out.Stat("it_"+op, 1)
	switch op {
	case "rewind":
		s.rit.rewind()
	case "next":
		s.rit.next()
	case "seek":
		s.rit.seek(key)
	}
	want := s.rit.show()
	s.moves++
	if s.backend == "badger" && op == "seek" && len(key) == 0 && s.rit.rev {
		s.emptyRevSeek = true
	}
	if impl != want && !s.tainted {
		s.tainted = true
		s.pred(s.classify(op, key, impl))
	}
	if isValid(impl) {
		out.Stat("it_valid_obs", 1)
	}
	return impl
}

// isValid: the observation line says Valid() == true.
func isValid(r string) bool {
	f := strings.Fields(r)
	return len(f) == 4 && f[1] == "1"
}

var opName = map[string]string{"rewind": "Rewind", "next": "Next", "seek": "Seek"}

func (s *sut) keysDump() string {
	var ks []string
	for _, k := range s.ref.sortedKeys() {
		ks = append(ks, hx([]byte(k)))
	}
	if len(ks) > 40 {
		ks = append(ks[:40], "…")
	}
	return strings.Join(ks, ",")
}

// classify names the kind of wrong observation (stable signature, no input data).
func (s *sut) classify(op string, key []byte, impl string) (site, kind, detail string) {
	detail = fmt.Sprintf("start=%s limit=%s rev=%v op=%s %s got=%q want=%q keys=%s", hx(s.rit.start), hx(s.rit.limit),
		s.rit.rev, op, hx(key), impl, s.rit.show(), s.keysDump())
	site = s.itSite()
	f := strings.Fields(impl)
	switch {
	case impl == "panic":
		return site + "." + opName[op], "panic", detail
	case s.backend == "badger" && op == "next" && s.moves == 1 && s.rit.rev:
		return site + ".Next", "first-Next-of-fresh-reverse-iterator-rewinds", detail
	case s.backend == "badger" && op == "next" && s.moves == 1:
		return site + ".Next", "fresh-iterator-already-positioned", detail
	case s.emptyRevSeek:
		return site + ".Seek", "empty-target-in-reverse-lands-on-last-key", detail
	case len(f) == 4 && f[1] == "1" && s.rit.limit != nil && f[2] == hx(s.rit.limit):
		return site, "exclusive-end-bound-returned", detail
	case op == "seek" && (bytes.Compare(key, s.rit.start) < 0 || (s.rit.limit != nil && bytes.Compare(key, s.rit.limit) >= 0)):
		return site + ".Seek", "target-outside-range-not-clamped", detail
	}
	return site + "." + opName[op], "wrong-position", detail
}

// fullScan: Rewind, then Next while valid: must visit exactly the in-range keys in order, once each.
func (s *sut) fullScan(start, end []byte, rev bool, extraNext int) {
	s.openIt(start, end, rev)
	n := 0
	r := s.move("rewind", nil)
	for isValid(r) {
		n++
		if n > len(s.ref)+2 {
			s.pred(s.itSite(), "scan-does-not-terminate", "")
			break
		}
		r = s.move("next", nil)
	}
	for i := 0; i < extraNext && r != "panic"; i++ {
		r = s.move("next", nil)
	}
	out.Stat("full_scans", 1)
	out.Stat("full_scan_keys", int64(n))
}

// ---------------------------------------------------------------- generators

type keygen struct {
	r        *gen.Rand
	alphabet []byte
	maxLen   int
	minLen   int
	pool     [][]byte
}

func (g *keygen) fresh() []byte {
	n := g.r.Range(g.minLen, g.maxLen)
	return g.r.BytesFrom(g.alphabet, n)
}

func (g *keygen) key() []byte {
	if len(g.pool) > 0 && g.r.Chance(3, 4) {
		return g.pool[g.r.Intn(len(g.pool))]
	}
	return g.fresh()
}

// near returns a key close to an existing one: the key itself, a prefix, an extension, +-1 on the last byte.
func (g *keygen) near(noFF bool) []byte {
	k := append([]byte{}, g.key()...)
	switch g.r.Intn(6) {
	case 0:
		if len(k) > g.minLen {
			k = k[:len(k)-1]
		}
	case 1:
		k = append(k, g.alphabet[g.r.Intn(len(g.alphabet))])
	case 2:
		if len(k) > 0 && k[len(k)-1] < 0xff && !(noFF && k[len(k)-1] == 0xfe) {
			k[len(k)-1]++
		}
	case 3:
		if len(k) > 0 && k[len(k)-1] > 0 {
			k[len(k)-1]--
		}
	case 4:
		if up := refPrefixUpper(k); up != nil && !(noFF && bytes.IndexByte(up, 0xff) >= 0) {
			k = up
		}
	}
	if len(k) < g.minLen {
		k = g.fresh()
	}
	return k
}

func (g *keygen) value() []byte {
	switch g.r.Intn(5) {
	case 0:
		return nil // empty value (tombstone for the list helpers)
	case 1:
		return []byte{0}
	}
	return g.r.Bytes(g.r.Range(1, 3))
}

func runSequence(s *sut, r *gen.Rand, backend string, nops int, variant int) {
	noFF := backend == "badger"
	g := &keygen{r: r, maxLen: 4}
	switch {
	case noFF:
		// no 0xff in keys, bounds or derived prefix bounds (so no 0xfe either)
		g.alphabet = []byte{0x00, 0x01, 'a', 'b', 0x7f}
		g.minLen = 1
		if variant%3 == 2 {
			g.alphabet = []byte{'a', 'b'}
		}
	case variant%4 == 0:
		g.alphabet = []byte{0x00, 0x01, 'a', 'b', 0xfe, 0xff}
	case variant%4 == 1:
		g.alphabet = []byte{0xfe, 0xff}
		g.maxLen = 5
	case variant%4 == 2:
		g.alphabet = []byte{'a', 'b'}
		g.maxLen = 6
	default:
		g.alphabet = nil
		for i := 0; i < 256; i++ {
			g.alphabet = append(g.alphabet, byte(i))
		}
		g.maxLen = 3
	}
	for i := 0; i < 12; i++ {
		g.pool = append(g.pool, g.fresh())
	}
	s.open(backend)
	for i := 0; i < nops; {
		switch r.Pick(24, 8, 8, 12, 30, 14, 2) {
		case 0:
			s.put(g.key(), g.value())
			i++
		case 1:
			s.del(g.key())
			i++
		case 2:
			n := r.Intn(6)
			var ops []bop
			for j := 0; j < n; j++ {
				switch {
				case r.Chance(1, 12):
					ops = append(ops, bop{reset: true})
				case r.Chance(1, 3):
					ops = append(ops, bop{del: true, k: g.key()})
				default:
					v := g.value()
					if v == nil && r.Bool() {
						v = []byte{} // non-nil empty slice
					}
					ops = append(ops, bop{k: g.key(), v: v})
				}
			}
			s.batch(ops)
			i++
		case 3:
			s.get(g.near(noFF))
			i++
		case 4:
			// free-form iterator session
			start, end := bounds(g, r, noFF)
			rev := r.Bool()
			s.openIt(start, end, rev)
			i++
			steps := r.Range(1, 8)
		session:
			for j := 0; j < steps; j++ {
				var res string
				c := r.Pick(2, 5, 3)
				if j == 0 && backend == "badger" && c == 1 && !r.Chance(1, 8) {
					c = 0 // mostly start badger sessions with rewind/seek (a fresh badger iterator is already positioned)
				}
				switch c {
				case 0:
					res = s.move("rewind", nil)
				case 1:
					res = s.move("next", nil)
				default:
					k := g.near(noFF)
					if r.Chance(1, 25) {
						k = nil // empty seek target
					}
					res = s.move("seek", k)
				}
				i++
				if res == "panic" {
					break session
				}
			}
		case 5:
			start, end := bounds(g, r, noFF)
			before := len(s.ref)
			s.fullScan(start, end, r.Bool(), r.Intn(3))
			i += 2 + before/4
		case 6:
			s.reopen()
			i++
		}
	}
	// closing observation: whole database, both directions, and every key read back
	s.fullScan(nil, nil, false, 1)
	s.fullScan(nil, types.EmptyValue, true, 1)
	for _, k := range s.ref.sortedKeys() {
		s.get([]byte(k))
	}
	out.Stat("final_keys", int64(len(s.ref)))
}

// bounds draws (start, end): prefix mode (end nil), explicit range, EmptyValue sentinel.
func bounds(g *keygen, r *gen.Rand, noFF bool) (start, end []byte) {
	switch r.Pick(5, 5, 1, 1) {
	case 0: // prefix scan
		start = g.near(noFF)
		if r.Chance(1, 2) && len(start) > 1 {
			start = start[:r.Range(1, len(start))]
		}
		if !noFF && r.Chance(1, 10) {
			start = nil
		}
		return append([]byte{}, start...), nil
	case 1: // explicit range, bounds near existing keys
		a, b := g.near(noFF), g.near(noFF)
		if bytes.Compare(a, b) > 0 && r.Chance(9, 10) {
			a, b = b, a
		}
		if len(b) == 0 {
			b = []byte{g.alphabet[0]}
		}
		return a, b
	case 2:
		return g.near(noFF), types.EmptyValue
	default:
		if noFF {
			return g.near(noFF), nil
		}
		return nil, nil
	}
}

// ---------------------------------------------------------------- replay

func replay(s *sut, lines []string) {
	for _, l := range lines {
		f := strings.Fields(l)
		bad := func() { out.Op(l, "bad-op") }
		if len(f) == 0 {
			bad()
			continue
		}
		if f[0] != "open" && s.db == nil {
			bad()
			continue
		}
		switch {
		case f[0] == "open" && len(f) == 2 && (f[1] == "mem" || f[1] == "level" || f[1] == "badger"):
			s.open(f[1])
		case f[0] == "reopen" && len(f) == 1:
			s.reopen()
		case f[0] == "put" && len(f) == 3:
			k, ok1 := unhx(f[1])
			v, ok2 := unhx(f[2])
			if !ok1 || !ok2 {
				bad()
				continue
			}
			s.put(k, v)
		case f[0] == "del" && len(f) == 2:
			k, ok := unhx(f[1])
			if !ok {
				bad()
				continue
			}
			s.del(k)
		case f[0] == "get" && len(f) == 2:
			k, ok := unhx(f[1])
			if !ok {
				bad()
				continue
			}
			s.get(k)
		case f[0] == "batch" && len(f) == 2:
			var ops []bop
			okAll := true
			if f[1] != "-" {
				for _, p := range strings.Split(f[1], ",") {
					q := strings.Split(p, ":")
					switch {
					case len(q) == 3 && q[0] == "S":
						k, ok1 := unhx(q[1])
						v, ok2 := unhx(q[2])
						okAll = okAll && ok1 && ok2
						if v == nil {
							v = []byte{}
						}
						ops = append(ops, bop{k: k, v: v})
					case len(q) == 2 && q[0] == "N":
						k, ok1 := unhx(q[1])
						okAll = okAll && ok1
						ops = append(ops, bop{k: k})
					case len(q) == 1 && q[0] == "R":
						ops = append(ops, bop{reset: true})
					case len(q) == 2 && q[0] == "D":
						k, ok1 := unhx(q[1])
						okAll = okAll && ok1
						ops = append(ops, bop{del: true, k: k})
					default:
						okAll = false
					}
				}
			}
			if !okAll {
				bad()
				continue
			}
			s.batch(ops)
		case f[0] == "it" && len(f) == 4 && (f[3] == "0" || f[3] == "1"):
			st, ok1 := unhx(f[1])
			en, ok2 := unhx(f[2])
			if !ok1 || !ok2 {
				bad()
				continue
			}
			s.openIt(st, en, f[3] == "1")
		case (f[0] == "rewind" || f[0] == "next") && len(f) == 1:
			if s.move(f[0], nil) == "" && s.it == nil {
				bad()
			}
		case f[0] == "seek" && len(f) == 2:
			k, ok := unhx(f[1])
			if !ok || s.it == nil {
				bad()
				continue
			}
			s.move("seek", k)
		default:
			bad()
		}
	}
}

func main() {
	log15.Root().SetHandler(log15.DiscardHandler())
	defer out.Flush()
	tmpRoot = os.Getenv("VERIF_TMP")
	if tmpRoot == "" {
		tmpRoot = "/dev/shm"
	}
	var err error
	tmpRoot, err = os.MkdirTemp(tmpRoot, "h_c06.")
	must(err)
	defer os.RemoveAll(tmpRoot)
	s := &sut{}
	defer s.closeDB()

	if lines := gen.ReplayLines(); lines != nil {
		replay(s, lines)
		return
	}
	r := gen.New(gen.Seed())
	nseq := gen.Scale(100, 1500)
	nops := gen.Scale(150, 250)
	for i := 0; i < nseq; i++ {
		runSequence(s, r, "mem", nops, i)
		runSequence(s, r, "level", nops, i)
	}
	nb := gen.Scale(20, 200)
	for i := 0; i < nb; i++ {
		runSequence(s, r, "badger", nops, i)
	}
	out.Sample(fmt.Sprintf("sequences: mem=%d level=%d badger=%d, ~%d ops each", nseq, nseq, nb, nops))
}
