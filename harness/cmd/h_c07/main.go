// h_c07 drives common/db ListHelper (List / PrefixCount) on a single database and on the
// merged view NewMergedIteratorDB(layers), plus the merged iterator itself.
//
// Op lines (hex, "-" = nil/empty), see lean/Driver/C07.lean:
//
//	layers n ; lput i k v ; ldel i k ; list plain|merged prefix key count dir ; count plain|merged prefix ;
//	mit start end rev ; mrewind ; mnext ; mseek k
//
// The property predicate (C07) is evaluated on the implementation: paging through a prefix with
// every page size, both directions, all encodings must return exactly the live entries of the
// (left-biased union of the) layers under the prefix, in order, each once.
package main

import (
	"bytes"
	"encoding/hex"
	"fmt"
	"os"
	"path/filepath"
	"sort"
	"strconv"
	"strings"

	dbm "github.com/33cn/chain33/common/db"
	"github.com/33cn/chain33/common/log/log15"
	"github.com/33cn/chain33/types"

	"verifharness/internal/gen"
)

var out = gen.NewOut()

func hx(b []byte) string {
	if len(b) == 0 {
		return "-"
	}
	return hex.EncodeToString(b)
}

func unhx(s string) ([]byte, bool) {
	if s == "-" {
		return nil, true
	}
	b, err := hex.DecodeString(s)
	return b, err == nil
}

func must(err error) {
	if err != nil {
		out.Flush()
		fmt.Fprintln(os.Stderr, "harness:", err)
		os.Exit(4)
	}
}

var tmpRoot string

// ---------------------------------------------------------------- world

type world struct {
	dbs   []dbm.DB
	dirs  []string
	ref   []map[string][]byte // per layer
	nOpen int
	mit   dbm.Iterator
}

func (w *world) closeAll() {
	if w.mit != nil {
		w.mit.Close()
		w.mit = nil
	}
	for _, d := range w.dbs {
		d.Close()
	}
	for _, d := range w.dirs {
		os.RemoveAll(d)
	}
	w.dbs, w.dirs, w.ref = nil, nil, nil
}

// layers opens n empty layers; kinds[i] "mem" or "level".
func (w *world) layers(n int, levelMask int) {
	w.closeAll()
	for i := 0; i < n; i++ {
		w.nOpen++
		if levelMask&(1<<uint(i)) != 0 {
			dir := filepath.Join(tmpRoot, fmt.Sprintf("l%d", w.nOpen))
			d, err := dbm.NewGoLevelDB("l", dir, 16)
			must(err)
			w.dbs = append(w.dbs, d)
			w.dirs = append(w.dirs, dir)
			out.Stat("layer_level", 1)
		} else {
			d, err := dbm.NewGoMemDB("m", "", 0)
			must(err)
			w.dbs = append(w.dbs, d)
			out.Stat("layer_mem", 1)
		}
		w.ref = append(w.ref, map[string][]byte{})
	}
	out.Op(fmt.Sprintf("layers %d", n), "ok")
	out.Stat(fmt.Sprintf("worlds_%d_layers", n), 1)
}

func (w *world) closeIt() {
	if w.mit != nil {
		w.mit.Close()
		w.mit = nil
	}
}

func (w *world) lput(i int, k, v []byte) {
	w.closeIt()
	must(w.dbs[i].Set(k, v))
	w.ref[i][string(k)] = append([]byte{}, v...)
	out.Op(fmt.Sprintf("lput %d %s %s", i, hx(k), hx(v)), "ok")
	if len(v) == 0 {
		out.Stat("tombstones_written", 1)
	}
}

func (w *world) ldel(i int, k []byte) {
	w.closeIt()
	_ = w.dbs[i].Delete(k) // memdb reports absent keys as an error; irrelevant here
	delete(w.ref[i], string(k))
	out.Op(fmt.Sprintf("ldel %d %s", i, hx(k)), "ok")
}

func (w *world) lister(mode string) *dbm.ListHelper {
	if mode == "plain" {
		return dbm.NewListHelper(w.dbs[0])
	}
	its := make([]dbm.IteratorDB, len(w.dbs))
	for i, d := range w.dbs {
		its[i] = d
	}
	return dbm.NewListHelper(dbm.NewMergedIteratorDB(its))
}

func showItems(items [][]byte) string {
	if len(items) == 0 {
		return "nil"
	}
	p := make([]string, len(items))
	for i, it := range items {
		p[i] = hx(it)
	}
	return strings.Join(p, ",")
}

func (w *world) list(mode string, prefix, key []byte, count, dir int32) [][]byte {
	var items [][]byte
	res := gen.Guard(func() string {
		items = w.lister(mode).List(prefix, key, count, dir)
		return showItems(items)
	})
	out.Op(fmt.Sprintf("list %s %s %s %d %d", mode, hx(prefix), hx(key), count, dir), res)
	out.Stat("list_"+mode, 1)
	if res == "panic" {
		out.Pred("C07|ListHelper.List("+mode+")|panic", fmt.Sprintf("prefix=%s key=%s count=%d dir=%d", hx(prefix), hx(key), count, dir))
		return nil
	}
	return items
}

func (w *world) count(mode string, prefix []byte) int64 {
	var n int64
	res := gen.Guard(func() string {
		n = w.lister(mode).PrefixCount(prefix)
		return strconv.FormatInt(n, 10)
	})
	out.Op(fmt.Sprintf("count %s %s", mode, hx(prefix)), res)
	out.Stat("count_"+mode, 1)
	if res == "panic" {
		out.Pred("C07|ListHelper.PrefixCount("+mode+")|panic", "prefix="+hx(prefix))
		return -1
	}
	return n
}

// view is the reference: plain = layer 0, merged = left-biased union (tombstones are entries).
func (w *world) view(mode string) map[string][]byte {
	if mode == "plain" {
		return w.ref[0]
	}
	u := map[string][]byte{}
	for i := len(w.ref) - 1; i >= 0; i-- {
		for k, v := range w.ref[i] {
			u[k] = v
		}
	}
	return u
}

type kv struct{ k, v []byte }

// live returns the non-tombstoned entries under prefix, ascending.
func live(view map[string][]byte, prefix []byte) []kv {
	var ks []string
	for k, v := range view {
		if bytes.HasPrefix([]byte(k), prefix) && len(v) > 0 {
			ks = append(ks, k)
		}
	}
	sort.Strings(ks)
	r := make([]kv, len(ks))
	for i, k := range ks {
		r[i] = kv{[]byte(k), view[k]}
	}
	return r
}

// decode recovers (key, value) from a returned item; values written by the generator are
// tag byte + key, so the key can be recovered from a value-only listing.
func decode(item []byte, enc int32) (k, v []byte, ok bool) {
	switch {
	case enc&dbm.ListKeyOnly != 0:
		return item, nil, true
	case enc&dbm.ListWithKey != 0:
		var e types.KeyValue
		if err := types.Decode(item, &e); err != nil {
			return nil, nil, false
		}
		return e.Key, e.Value, true
	}
	if len(item) < 1 {
		return nil, nil, false
	}
	return item[1:], item, true
}

// pageThrough lists prefix page by page and checks the concatenation (the C07 predicate).
func (w *world) pageThrough(mode string, prefix []byte, count int32, asc bool, enc int32) {
	want := live(w.view(mode), prefix)
	if !asc {
		for i, j := 0, len(want)-1; i < j; i, j = i+1, j-1 {
			want[i], want[j] = want[j], want[i]
		}
	}
	dir := enc
	if asc {
		dir |= dbm.ListASC
	}
	site := "ListHelper.List(" + mode + ")"
	ctx := func() string {
		return fmt.Sprintf("prefix=%s count=%d dir=%d layers=%s", hx(prefix), count, dir, w.dump())
	}
	var got []kv
	var key []byte
	pages := 0
	for {
		items := w.list(mode, prefix, key, count, dir)
		if items == nil {
			break
		}
		pages++
		if int32(len(items)) > count {
			out.Pred("C07|"+site+"|page-longer-than-count", ctx())
		}
		var last []byte
		for _, it := range items {
			k, v, ok := decode(it, enc)
			if !ok {
				out.Pred("C07|"+site+"|undecodable-item", ctx())
				return
			}
			got = append(got, kv{k, v})
			last = k
		}
		if bytes.Equal(last, key) || pages > len(want)+3 {
			out.Pred("C07|"+site+"|paging-does-not-advance", ctx())
			return
		}
		key = last
		if len(key) == 0 {
			// an empty last key cannot be continued from (List treats it as "from the start")
			break
		}
	}
	out.Stat("paged_listings", 1)
	out.Stat("pages", int64(pages))
	out.Stat("live_entries_listed", int64(len(want)))
	// compare
	view := w.view(mode)
	seen := map[string]bool{}
	for _, e := range got {
		v, present := view[string(e.k)]
		switch {
		case !bytes.HasPrefix(e.k, prefix):
			out.Pred("C07|"+site+"|entry-outside-prefix", ctx()+" key="+hx(e.k))
			return
		case !present:
			out.Pred("C07|"+site+"|unknown-entry", ctx()+" key="+hx(e.k))
			return
		case len(v) == 0:
			out.Pred("C07|"+site+"|deleted-entry-returned", ctx()+" key="+hx(e.k))
			return
		case seen[string(e.k)]:
			out.Pred("C07|"+site+"|entry-returned-twice", ctx()+" key="+hx(e.k))
			return
		case e.v != nil && !bytes.Equal(e.v, v):
			out.Pred("C07|"+site+"|wrong-value", ctx()+" key="+hx(e.k))
			return
		}
		seen[string(e.k)] = true
	}
	if len(got) < len(want) {
		for _, e := range want {
			if !seen[string(e.k)] {
				out.Pred("C07|"+site+"|live-entry-missing", ctx()+" key="+hx(e.k))
				return
			}
		}
	}
	for i := range got {
		if i >= len(want) || !bytes.Equal(got[i].k, want[i].k) {
			out.Pred("C07|"+site+"|wrong-order", ctx())
			return
		}
	}
}

func (w *world) checkCount(mode string, prefix []byte) {
	n := w.count(mode, prefix)
	want := len(live(w.view(mode), prefix))
	if n >= 0 && int(n) != want {
		out.Pred("C07|ListHelper.PrefixCount("+mode+")|count-differs-from-live-entries",
			fmt.Sprintf("prefix=%s got=%d want=%d layers=%s", hx(prefix), n, want, w.dump()))
	}
}

func (w *world) dump() string {
	var ls []string
	for _, m := range w.ref {
		var ks []string
		for k := range m {
			ks = append(ks, k)
		}
		sort.Strings(ks)
		var p []string
		for _, k := range ks {
			p = append(p, hx([]byte(k))+"="+hx(m[k]))
		}
		ls = append(ls, "["+strings.Join(p, " ")+"]")
	}
	s := strings.Join(ls, "")
	if len(s) > 1500 {
		s = s[:1500] + "…"
	}
	return s
}

// ---------------------------------------------------------------- merged iterator sessions

func (w *world) mitOpen(start, end []byte, rev bool) {
	w.closeIt()
	its := make([]dbm.IteratorDB, len(w.dbs))
	for i, d := range w.dbs {
		its[i] = d
	}
	w.mit = dbm.NewMergedIteratorDB(its).Iterator(start, end, rev)
	r := "0"
	if rev {
		r = "1"
	}
	out.Op(fmt.Sprintf("mit %s %s %s", hx(start), hx(end), r), "ok")
	out.Stat("mit_open", 1)
}

func (w *world) mmove(op string, key []byte) string {
	line := op
	if op == "mseek" {
		line += " " + hx(key)
	}
	res := gen.Guard(func() string {
		var ret bool
		switch op {
		case "mrewind":
			ret = w.mit.Rewind()
		case "mnext":
			ret = w.mit.Next()
		case "mseek":
			ret = w.mit.Seek(key)
		}
		r := "0"
		if ret {
			r = "1"
		}
		if !w.mit.Valid() {
			return r + " 0 - -"
		}
		return fmt.Sprintf("%s 1 %s %s", r, hx(w.mit.Key()), hx(w.mit.Value()))
	})
	out.Op(line, res)
	out.Stat("mit_"+op, 1)
	if res == "panic" {
		out.Pred("C07|mergedIterator."+op+"|panic", "layers="+w.dump())
	}
	return res
}

// mergedScan: the merged iterator must visit the left-biased union of the layers' in-range
// entries (tombstones included), in order, each key once, with the top layer's value.
func (w *world) mergedScan(prefix []byte, rev bool) {
	w.mitOpen(prefix, nil, rev)
	view := w.view("merged")
	var ks []string
	for k := range view {
		if bytes.HasPrefix([]byte(k), prefix) {
			ks = append(ks, k)
		}
	}
	sort.Strings(ks)
	if rev {
		for i, j := 0, len(ks)-1; i < j; i, j = i+1, j-1 {
			ks[i], ks[j] = ks[j], ks[i]
		}
	}
	r := w.mmove("mrewind", nil)
	i := 0
	for ; ; i++ {
		f := strings.Fields(r)
		if len(f) != 4 || f[1] != "1" {
			break
		}
		if i >= len(ks) || f[2] != hx([]byte(ks[i])) || f[3] != hx(view[ks[i]]) {
			out.Pred("C07|mergedIterator|not-the-left-biased-union", fmt.Sprintf("prefix=%s rev=%v step=%d got=%q layers=%s", hx(prefix), rev, i, r, w.dump()))
			return
		}
		r = w.mmove("mnext", nil)
	}
	if i != len(ks) {
		out.Pred("C07|mergedIterator|not-the-left-biased-union", fmt.Sprintf("prefix=%s rev=%v visited=%d want=%d layers=%s", hx(prefix), rev, i, len(ks), w.dump()))
	}
	out.Stat("merged_scans", 1)
}

// ---------------------------------------------------------------- generator

func scenario(w *world, r *gen.Rand, variant int) {
	nl := 1 + variant%3
	w.layers(nl, r.Intn(1<<uint(nl)))
	var alphabet []byte
	maxLen := 4
	switch (variant / 3) % 4 {
	case 0:
		alphabet = []byte{'a', 'b'}
		maxLen = 5
	case 1:
		alphabet = []byte{0x00, 'a', 0xfe, 0xff}
	case 2:
		alphabet = []byte{0xff, 0xfe}
		maxLen = 5
	default:
		alphabet = []byte{0x00, 0x01, 'a', 'b', 0xfe, 0xff}
	}
	// key universe with shared prefixes: a few stems, then extensions
	nkeys := r.Range(1, gen.Scale(14, 24))
	var keys [][]byte
	stems := [][]byte{r.BytesFrom(alphabet, r.Range(1, 2)), r.BytesFrom(alphabet, r.Range(1, 3))}
	for len(keys) < nkeys {
		var k []byte
		switch r.Intn(4) {
		case 0:
			k = r.BytesFrom(alphabet, r.Range(1, maxLen))
		case 1:
			k = append(append([]byte{}, stems[r.Intn(2)]...), r.BytesFrom(alphabet, r.Range(0, 3))...)
		case 2:
			if len(keys) > 0 {
				k = append(append([]byte{}, keys[r.Intn(len(keys))]...), r.BytesFrom(alphabet, r.Range(1, 2))...)
			} else {
				k = r.BytesFrom(alphabet, 1)
			}
		default:
			if len(keys) > 0 {
				k = append([]byte{}, keys[r.Intn(len(keys))]...)
				k = k[:r.Range(1, len(k))]
			} else {
				k = r.BytesFrom(alphabet, 2)
			}
		}
		keys = append(keys, k)
	}
	val := func(layer int, k []byte) []byte {
		if r.Chance(1, 4) {
			return nil // tombstone
		}
		return append([]byte{byte(1 + layer + 16*r.Intn(4))}, k...)
	}
	for _, k := range keys {
		placed := false
		for l := 0; l < nl; l++ {
			if r.Chance(1, 2) || (!placed && l == nl-1) {
				w.lput(l, k, val(l, k))
				placed = true
			}
		}
	}
	// a few overwrites and physical deletes
	for i := 0; i < r.Intn(4); i++ {
		k := keys[r.Intn(len(keys))]
		l := r.Intn(nl)
		if r.Chance(1, 3) {
			w.ldel(l, k)
		} else {
			w.lput(l, k, val(l, k))
		}
	}
	// prefixes: empty, stems, prefixes of keys, a foreign one, 0xff runs
	prefixes := [][]byte{nil, stems[0], stems[1]}
	for i := 0; i < 3; i++ {
		k := keys[r.Intn(len(keys))]
		prefixes = append(prefixes, k[:r.Range(1, len(k))])
	}
	prefixes = append(prefixes, r.BytesFrom(alphabet, 2))
	if r.Chance(1, 2) {
		prefixes = append(prefixes, []byte{0xff})
	}
	modes := []string{"merged"}
	if nl == 1 || r.Chance(1, 3) {
		modes = append(modes, "plain")
	}
	encs := []int32{0, dbm.ListWithKey, dbm.ListKeyOnly, dbm.ListWithKey | dbm.ListKeyOnly}
	for _, mode := range modes {
		for _, p := range prefixes {
			n := len(live(w.view(mode), p))
			w.checkCount(mode, p)
			for _, asc := range []bool{true, false} {
				full := encs[r.Intn(3)]
				for c := 1; c <= n+1; c++ {
					w.pageThrough(mode, p, int32(c), asc, full)
				}
				for _, e := range encs {
					if e != full {
						w.pageThrough(mode, p, int32(r.Range(1, n+1)), asc, e)
					}
				}
			}
			// differential-only shapes: unlimited count, ListSeek, odd direction bits, foreign start keys
			w.list(mode, p, nil, 0, int32(r.Intn(2)))
			k := keys[r.Intn(len(keys))]
			w.list(mode, p, k, 1, dbm.ListSeek)
			w.list(mode, p, nil, 1, dbm.ListSeek)
			w.list(mode, p, append(append([]byte{}, k...), alphabet[r.Intn(len(alphabet))]), int32(r.Range(0, 3)), int32(r.Intn(16)))
			w.list(mode, p, r.BytesFrom(alphabet, r.Range(1, 3)), int32(r.Range(1, 3)), int32(r.Intn(2)))
		}
	}
	// the merged iterator itself
	for _, p := range prefixes[:4] {
		w.mergedScan(p, false)
		w.mergedScan(p, true)
	}
	for i := 0; i < 3; i++ {
		var start, end []byte
		if r.Chance(1, 2) {
			start = prefixes[r.Intn(len(prefixes))]
		} else {
			a, b := keys[r.Intn(len(keys))], keys[r.Intn(len(keys))]
			if bytes.Compare(a, b) > 0 {
				a, b = b, a
			}
			start, end = a, b
		}
		w.mitOpen(start, end, r.Bool())
		for j := 0; j < r.Range(2, 8); j++ {
			switch r.Pick(2, 5, 3) {
			case 0:
				w.mmove("mrewind", nil)
			case 1:
				w.mmove("mnext", nil)
			default:
				k := append([]byte{}, keys[r.Intn(len(keys))]...)
				if r.Chance(1, 3) {
					k = append(k, alphabet[r.Intn(len(alphabet))])
				}
				w.mmove("mseek", k)
			}
		}
	}
	out.Stat("scenarios", 1)
}

// ---------------------------------------------------------------- replay

func replay(w *world, lines []string) {
	for _, l := range lines {
		f := strings.Fields(l)
		bad := func() { out.Op(l, "bad-op") }
		atoi := func(s string) (int, bool) {
			n, err := strconv.Atoi(s)
			return n, err == nil && n >= 0
		}
		switch {
		case len(f) == 2 && f[0] == "layers":
			n, ok := atoi(f[1])
			if !ok || n < 1 || n > 4 {
				bad()
				continue
			}
			w.layers(n, 1<<uint(n-1))
		case len(f) == 4 && f[0] == "lput":
			i, ok := atoi(f[1])
			k, ok1 := unhx(f[2])
			v, ok2 := unhx(f[3])
			if !ok || !ok1 || !ok2 || i >= len(w.dbs) {
				bad()
				continue
			}
			w.lput(i, k, v)
		case len(f) == 3 && f[0] == "ldel":
			i, ok := atoi(f[1])
			k, ok1 := unhx(f[2])
			if !ok || !ok1 || i >= len(w.dbs) {
				bad()
				continue
			}
			w.ldel(i, k)
		case len(f) == 6 && f[0] == "list" && (f[1] == "plain" || f[1] == "merged") && len(w.dbs) > 0:
			p, ok1 := unhx(f[2])
			k, ok2 := unhx(f[3])
			c, ok3 := atoi(f[4])
			d, ok4 := atoi(f[5])
			if !ok1 || !ok2 || !ok3 || !ok4 {
				bad()
				continue
			}
			if len(k) == 0 && c >= 1 && d&^int(dbm.ListASC|dbm.ListWithKey|dbm.ListKeyOnly) == 0 {
				// a first page: replay the whole paging so that the predicate is evaluated
				w.pageThrough(f[1], p, int32(c), d&1 == 1, int32(d)&^dbm.ListASC)
			} else {
				w.list(f[1], p, k, int32(c), int32(d))
			}
		case len(f) == 3 && f[0] == "count" && (f[1] == "plain" || f[1] == "merged") && len(w.dbs) > 0:
			p, ok := unhx(f[2])
			if !ok {
				bad()
				continue
			}
			w.checkCount(f[1], p)
		case len(f) == 4 && f[0] == "mit" && (f[3] == "0" || f[3] == "1") && len(w.dbs) > 0:
			st, ok1 := unhx(f[1])
			en, ok2 := unhx(f[2])
			if !ok1 || !ok2 {
				bad()
				continue
			}
			w.mitOpen(st, en, f[3] == "1")
		case len(f) == 1 && (f[0] == "mrewind" || f[0] == "mnext") && w.mit != nil:
			w.mmove(f[0], nil)
		case len(f) == 2 && f[0] == "mseek" && w.mit != nil:
			k, ok := unhx(f[1])
			if !ok {
				bad()
				continue
			}
			w.mmove("mseek", k)
		default:
			bad()
		}
	}
}

func main() {
	log15.Root().SetHandler(log15.DiscardHandler())
	defer out.Flush()
	tmpRoot = os.Getenv("VERIF_TMP")
	if tmpRoot == "" {
		tmpRoot = "/dev/shm"
	}
	var err error
	tmpRoot, err = os.MkdirTemp(tmpRoot, "h_c07.")
	must(err)
	defer os.RemoveAll(tmpRoot)
	w := &world{}
	defer w.closeAll()
	if lines := gen.ReplayLines(); lines != nil {
		replay(w, lines)
		return
	}
	r := gen.New(gen.Seed())
	n := gen.Scale(54, 1200)
	for i := 0; i < n; i++ {
		scenario(w, r, i)
	}
	out.Sample(fmt.Sprintf("%d scenarios: 1..3 layers (mem/level), every page size 1..n+1, both directions, encodings value/withKey/keyOnly", n))
}
