// h_c08 drives common/db.LocalDB (the layered local database used during block execution)
// over a pre-populated GoLevelDB base with generated histories of
// Begin/Set/Get/List/PrefixCount/Commit/Rollback.
//
// Op lines (hex, "-" = nil/empty), see lean/Driver/C08.lean:
//
//	newbase ; base k v ; new ; begin ; commit ; rollback ; set k v ; get k ;
//	list prefix key count dir ; count prefix
//
// The property predicate (C08) is evaluated on the implementation against the three-level
// specification (base, committed overlay, optional open transaction) kept in plain Go maps.
package main

import (
	"bytes"
	"encoding/hex"
	"fmt"
	"os"
	"path/filepath"
	"sort"
	"strconv"
	"strings"

	dbm "github.com/33cn/chain33/common/db"
	"github.com/33cn/chain33/common/log/log15"
	"github.com/33cn/chain33/types"

	"verifharness/internal/gen"
)

var out = gen.NewOut()

func hx(b []byte) string {
	if len(b) == 0 {
		return "-"
	}
	return hex.EncodeToString(b)
}

func unhx(s string) ([]byte, bool) {
	if s == "-" {
		return nil, true
	}
	b, err := hex.DecodeString(s)
	return b, err == nil
}

func must(err error) {
	if err != nil {
		out.Flush()
		fmt.Fprintln(os.Stderr, "harness:", err)
		os.Exit(4)
	}
}

var tmpRoot string

type world struct {
	base    dbm.DB
	baseDir string
	l       dbm.KVDB
	nOpen   int
	// specification state
	sBase     map[string][]byte
	sOverlay  map[string][]byte
	sTx       map[string][]byte // nil: no open transaction
	discarded map[string][]byte // writes of the most recently discarded transaction
	universe  map[string]bool
}

func (w *world) close() {
	if w.base != nil {
		w.base.Close()
		w.base = nil
	}
	if w.baseDir != "" {
		os.RemoveAll(w.baseDir)
		w.baseDir = ""
	}
	w.l = nil
}

func (w *world) newbase() {
	w.close()
	w.nOpen++
	w.baseDir = filepath.Join(tmpRoot, fmt.Sprintf("base%d", w.nOpen))
	d, err := dbm.NewGoLevelDB("b", w.baseDir, 16)
	must(err)
	w.base = d
	w.sBase = map[string][]byte{}
	w.sOverlay = map[string][]byte{}
	w.sTx = nil
	w.discarded = nil
	w.universe = map[string]bool{}
	out.Op("newbase", "ok")
	out.Stat("bases", 1)
}

func (w *world) baseSet(k, v []byte) {
	must(w.base.Set(k, v))
	w.sBase[string(k)] = append([]byte{}, v...)
	w.universe[string(k)] = true
	out.Op(fmt.Sprintf("base %s %s", hx(k), hx(v)), "ok")
	out.Stat("base_entries", 1)
}

func (w *world) newLocal() {
	w.l = dbm.NewLocalDB(w.base, false)
	w.sOverlay = map[string][]byte{}
	w.sTx = nil
	w.discarded = nil
	out.Op("new", "ok")
	out.Stat("localdbs", 1)
}

// newLocalRO opens the read-only mode (no memdb layers; Set panics).
func (w *world) newLocalRO() {
	w.l = dbm.NewLocalDB(w.base, true)
	w.sOverlay = map[string][]byte{}
	w.sTx = nil
	w.discarded = nil
	out.Op("newro", "ok")
	out.Stat("localdbs_readonly", 1)
}

// setRO: Set on a read-only LocalDB panics (documented mode); nothing may change.
func (w *world) setRO(k, v []byte) {
	res := gen.Guard(func() string {
		if err := w.l.Set(k, v); err != nil {
			return "err:" + err.Error()
		}
		return "ok"
	})
	out.Op(fmt.Sprintf("set %s %s", hx(k), hx(v)), res)
	out.Stat("set_on_readonly", 1)
	if res != "panic" {
		out.Pred("C08|LocalDB.Set(readOnly)|write-accepted-in-read-only-mode", fmt.Sprintf("k=%s res=%s", hx(k), res))
	}
}

func (w *world) begin() {
	if w.sTx != nil {
		out.Stat("begin_inside_open_tx", 1)
		w.discarded = w.sTx
	}
	w.l.Begin()
	w.sTx = map[string][]byte{}
	out.Op("begin", "ok")
	out.Stat("begin", 1)
}

func (w *world) commit() {
	err := w.l.Commit()
	res := "ok"
	if err != nil {
		res = "err:" + err.Error()
	}
	if w.sTx != nil {
		for k, v := range w.sTx {
			w.sOverlay[k] = v
		}
		out.Stat("commit_with_tx", 1)
	}
	w.sTx = nil
	out.Op("commit", res)
	out.Stat("commit", 1)
}

func (w *world) rollback() {
	w.l.Rollback()
	if w.sTx != nil {
		w.discarded = w.sTx
		out.Stat("rollback_with_tx", 1)
		if len(w.sTx) > 0 {
			out.Stat("rollback_nonempty_tx", 1)
		}
	}
	w.sTx = nil
	out.Op("rollback", "ok")
	out.Stat("rollback", 1)
}

func (w *world) set(k, v []byte) {
	err := w.l.Set(k, v)
	res := "ok"
	if err != nil {
		res = "err:" + err.Error()
	}
	if w.sTx != nil {
		w.sTx[string(k)] = append([]byte{}, v...)
		out.Stat("set_in_tx", 1)
	} else {
		w.sOverlay[string(k)] = append([]byte{}, v...)
		out.Stat("set_outside_tx", 1)
	}
	w.universe[string(k)] = true
	if len(v) == 0 {
		out.Stat("set_empty(delete)", 1)
		if _, ok := w.sBase[string(k)]; ok {
			out.Stat("delete_of_base_entry", 1)
		}
	}
	out.Op(fmt.Sprintf("set %s %s", hx(k), hx(v)), res)
}

// specGet: newest write visible from the open transaction, then overlay, then base; empty hides.
func (w *world) specGet(k []byte) ([]byte, bool) {
	var v []byte
	var ok bool
	if w.sTx != nil {
		v, ok = w.sTx[string(k)]
	}
	if !ok {
		v, ok = w.sOverlay[string(k)]
	}
	if !ok {
		v, ok = w.sBase[string(k)]
	}
	if !ok || len(v) == 0 {
		return nil, false
	}
	return v, true
}

func (w *world) ctx() string {
	d := func(m map[string][]byte) string {
		if m == nil {
			return "none"
		}
		var ks []string
		for k := range m {
			ks = append(ks, k)
		}
		sort.Strings(ks)
		var p []string
		for _, k := range ks {
			p = append(p, hx([]byte(k))+"="+hx(m[k]))
		}
		return "[" + strings.Join(p, " ") + "]"
	}
	s := fmt.Sprintf("base=%s overlay=%s tx=%s", d(w.sBase), d(w.sOverlay), d(w.sTx))
	if len(s) > 1500 {
		s = s[:1500] + "…"
	}
	return s
}

func (w *world) get(k []byte) {
	v, err := w.l.Get(k)
	res := "notfound"
	if err == nil {
		res = "= " + hx(v)
	} else if err != types.ErrNotFound {
		res = "err:" + err.Error()
	}
	out.Op("get "+hx(k), res)
	out.Stat("get", 1)
	want, ok := w.specGet(k)
	wantS := "notfound"
	if ok {
		wantS = "= " + hx(want)
	}
	if res != wantS {
		kind := "wrong-value"
		if dv, was := w.discarded[string(k)]; was && err == nil && bytes.Equal(dv, v) {
			kind = "discarded-transaction-write-visible"
		} else if !ok {
			kind = "hidden-or-absent-key-returned"
		} else if err != nil {
			kind = "visible-key-not-found"
		}
		out.Pred("C08|LocalDB.Get|"+kind, fmt.Sprintf("k=%s got=%q want=%q %s", hx(k), res, wantS, w.ctx()))
	}
	if _, inBase := w.sBase[string(k)]; inBase {
		out.Stat("get_of_base_key", 1)
	}
}

type kv struct{ k, v []byte }

func (w *world) liveView(prefix []byte) []kv {
	var ks []string
	for k := range w.universe {
		if bytes.HasPrefix([]byte(k), prefix) {
			if _, ok := w.specGet([]byte(k)); ok {
				ks = append(ks, k)
			}
		}
	}
	sort.Strings(ks)
	r := make([]kv, len(ks))
	for i, k := range ks {
		v, _ := w.specGet([]byte(k))
		r[i] = kv{[]byte(k), v}
	}
	return r
}

func showItems(items [][]byte) string {
	if len(items) == 0 {
		return "nil"
	}
	p := make([]string, len(items))
	for i, it := range items {
		p[i] = hx(it)
	}
	return strings.Join(p, ",")
}

func encode(e kv, dir int32) []byte {
	switch {
	case dir&dbm.ListKeyOnly != 0:
		return e.k
	case dir&dbm.ListWithKey != 0:
		return types.Encode(&types.KeyValue{Key: e.k, Value: e.v})
	}
	return e.v
}

// list performs one List call; when `check` the page is compared with the specification:
// the live entries under the prefix strictly after `key` in the direction, at most `count`.
func (w *world) list(prefix, key []byte, count, dir int32, check bool) {
	var items [][]byte
	res := gen.Guard(func() string {
		var err error
		items, err = w.l.List(prefix, key, count, dir)
		if err != nil {
			return "err:" + err.Error()
		}
		return showItems(items)
	})
	out.Op(fmt.Sprintf("list %s %s %d %d", hx(prefix), hx(key), count, dir), res)
	out.Stat("list", 1)
	if res == "panic" {
		out.Pred("C08|LocalDB.List|panic", w.ctx())
		return
	}
	if !check {
		return
	}
	view := w.liveView(prefix)
	asc := dir&dbm.ListASC != 0
	var want []kv
	if asc {
		for _, e := range view {
			if len(key) == 0 || bytes.Compare(e.k, key) > 0 {
				want = append(want, e)
			}
		}
	} else {
		for i := len(view) - 1; i >= 0; i-- {
			if len(key) == 0 || bytes.Compare(view[i].k, key) < 0 {
				want = append(want, view[i])
			}
		}
	}
	if count > 0 && int32(len(want)) > count {
		want = want[:count]
	}
	var ws [][]byte
	for _, e := range want {
		ws = append(ws, encode(e, dir))
	}
	if wantS := showItems(ws); wantS != res {
		kind := "page-differs-from-point-reads"
		for _, it := range items {
			if dir&dbm.ListWithKey != 0 && dir&dbm.ListKeyOnly == 0 {
				var e types.KeyValue
				if types.Decode(it, &e) == nil {
					if dv, was := w.discarded[string(e.Key)]; was && bytes.Equal(dv, e.Value) {
						if sv, ok := w.specGet(e.Key); !ok || !bytes.Equal(sv, e.Value) {
							kind = "discarded-transaction-write-listed"
						}
					}
				}
			}
		}
		out.Pred("C08|LocalDB.List|"+kind, fmt.Sprintf("prefix=%s key=%s count=%d dir=%d got=%s want=%s %s",
			hx(prefix), hx(key), count, dir, res, wantS, w.ctx()))
	}
	out.Stat("list_checked", 1)
	out.Stat("list_items", int64(len(items)))
}

func (w *world) count(prefix []byte) {
	var n int64
	res := gen.Guard(func() string {
		n = w.l.PrefixCount(prefix)
		return strconv.FormatInt(n, 10)
	})
	out.Op("count "+hx(prefix), res)
	out.Stat("count", 1)
	if res == "panic" {
		out.Pred("C08|LocalDB.PrefixCount|panic", w.ctx())
		return
	}
	if want := len(w.liveView(prefix)); int(n) != want {
		out.Pred("C08|LocalDB.PrefixCount|count-differs-from-point-reads", fmt.Sprintf("prefix=%s got=%d want=%d %s", hx(prefix), n, want, w.ctx()))
	}
}

// sweep: point-read every key ever used and list everything: both must show the same map.
func (w *world) sweep() {
	var ks []string
	for k := range w.universe {
		ks = append(ks, k)
	}
	sort.Strings(ks)
	for _, k := range ks {
		w.get([]byte(k))
	}
	w.list(nil, nil, 0, dbm.ListASC|dbm.ListWithKey, true)
	w.count(nil)
	out.Stat("sweeps", 1)
}

// ---------------------------------------------------------------- generator

func history(w *world, r *gen.Rand, variant int) {
	var alphabet []byte
	switch variant % 3 {
	case 0:
		alphabet = []byte{'a', 'b'}
	case 1:
		alphabet = []byte{0x00, 'a', 0xff}
	default:
		alphabet = []byte{'a', 'b', 'c', 0xfe, 0xff}
	}
	var pool [][]byte
	for i := 0; i < r.Range(3, 10); i++ {
		var k []byte
		if len(pool) > 0 && r.Chance(1, 2) {
			k = append(append([]byte{}, pool[r.Intn(len(pool))]...), r.BytesFrom(alphabet, r.Range(1, 2))...)
		} else {
			k = r.BytesFrom(alphabet, r.Range(1, 3))
		}
		pool = append(pool, k)
	}
	key := func() []byte {
		if r.Chance(9, 10) {
			return pool[r.Intn(len(pool))]
		}
		return r.BytesFrom(alphabet, r.Range(1, 3))
	}
	val := func() []byte {
		if r.Chance(1, 4) {
			return nil
		}
		return r.Bytes(r.Range(1, 2))
	}
	prefix := func() []byte {
		switch r.Intn(4) {
		case 0:
			return nil
		case 1:
			return r.BytesFrom(alphabet, 1)
		}
		k := pool[r.Intn(len(pool))]
		return k[:r.Range(1, len(k))]
	}
	w.newbase()
	for _, k := range pool {
		if r.Chance(2, 3) {
			v := r.Bytes(r.Range(1, 2))
			if r.Chance(1, 12) {
				v = nil // an empty value stored in the base database
			}
			w.baseSet(k, v)
		}
	}
	w.newLocal()
	nops := gen.Scale(120, 200)
	for i := 0; i < nops; i++ {
		switch r.Pick(10, 28, 22, 14, 5, 4, 4, 3, 2) {
		case 0:
			w.begin()
		case 1:
			w.set(key(), val())
		case 2:
			w.get(key())
		case 3:
			enc := []int32{0, dbm.ListWithKey, dbm.ListKeyOnly}[r.Intn(3)]
			var k []byte
			if r.Chance(2, 3) {
				k = key()
			}
			w.list(prefix(), k, int32(r.Range(0, 4)), int32(r.Intn(2))|enc, true)
		case 4:
			w.count(prefix())
		case 5:
			w.commit()
		case 6:
			w.rollback()
			if r.Chance(1, 2) {
				w.sweep()
			}
		case 7:
			// read then write then read the same key
			k := key()
			w.get(k)
			w.set(k, val())
			w.get(k)
		case 8:
			// differential-only shapes (ListSeek, odd direction bits)
			w.list(prefix(), key(), 1, dbm.ListSeek, false)
			w.list(prefix(), key(), int32(r.Range(0, 3)), int32(r.Intn(16)), false)
		}
	}
	w.sweep()
	out.Stat("histories", 1)
}

// roHistory: a read-only LocalDB answers from the base database only, whatever is called.
func roHistory(w *world, r *gen.Rand, variant int) {
	alphabet := [][]byte{{'a', 'b'}, {0x00, 'a', 0xff}}[variant%2]
	var pool [][]byte
	for i := 0; i < r.Range(3, 8); i++ {
		pool = append(pool, r.BytesFrom(alphabet, r.Range(1, 3)))
	}
	w.newbase()
	for _, k := range pool {
		if r.Chance(3, 4) {
			v := r.Bytes(r.Range(1, 2))
			if r.Chance(1, 8) {
				v = nil
			}
			w.baseSet(k, v)
		}
	}
	w.newLocalRO()
	key := func() []byte { return pool[r.Intn(len(pool))] }
	for i := 0; i < 40; i++ {
		switch r.Pick(3, 6, 6, 2, 2, 2, 3) {
		case 0:
			w.l.Begin()
			out.Op("begin", "ok")
		case 1:
			w.get(key())
		case 2:
			var p, k []byte
			if r.Bool() {
				p = key()[:1]
			}
			if r.Bool() {
				k = key()
			}
			w.list(p, k, int32(r.Range(0, 3)), int32(r.Intn(2))|[]int32{0, dbm.ListWithKey, dbm.ListKeyOnly}[r.Intn(3)], true)
		case 3:
			w.count(key()[:1])
		case 4:
			must(w.l.Commit())
			out.Op("commit", "ok")
		case 5:
			w.l.Rollback()
			out.Op("rollback", "ok")
		case 6:
			w.setRO(key(), r.Bytes(1))
		}
	}
	out.Stat("histories_readonly", 1)
}

func replay(w *world, lines []string) {
	ro := false
	for _, l := range lines {
		f := strings.Fields(l)
		bad := func() { out.Op(l, "bad-op") }
		needL := func() bool { return w.l != nil }
		switch {
		case len(f) == 1 && f[0] == "newbase":
			w.newbase()
		case len(f) == 3 && f[0] == "base" && w.base != nil && w.l == nil:
			k, ok1 := unhx(f[1])
			v, ok2 := unhx(f[2])
			if !ok1 || !ok2 {
				bad()
				continue
			}
			w.baseSet(k, v)
		case len(f) == 1 && f[0] == "new" && w.base != nil:
			w.newLocal()
			ro = false
		case len(f) == 1 && f[0] == "newro" && w.base != nil:
			w.newLocalRO()
			ro = true
		case len(f) == 3 && f[0] == "set" && needL() && ro:
			k, ok1 := unhx(f[1])
			v, ok2 := unhx(f[2])
			if !ok1 || !ok2 {
				bad()
				continue
			}
			w.setRO(k, v)
		case len(f) == 1 && f[0] == "begin" && needL():
			w.begin()
		case len(f) == 1 && f[0] == "commit" && needL():
			w.commit()
		case len(f) == 1 && f[0] == "rollback" && needL():
			w.rollback()
		case len(f) == 3 && f[0] == "set" && needL():
			k, ok1 := unhx(f[1])
			v, ok2 := unhx(f[2])
			if !ok1 || !ok2 {
				bad()
				continue
			}
			w.set(k, v)
		case len(f) == 2 && f[0] == "get" && needL():
			k, ok := unhx(f[1])
			if !ok {
				bad()
				continue
			}
			w.get(k)
		case len(f) == 5 && f[0] == "list" && needL():
			p, ok1 := unhx(f[1])
			k, ok2 := unhx(f[2])
			c, err1 := strconv.Atoi(f[3])
			d, err2 := strconv.Atoi(f[4])
			if !ok1 || !ok2 || err1 != nil || err2 != nil || c < 0 || d < 0 {
				bad()
				continue
			}
			check := d&^int(dbm.ListASC|dbm.ListWithKey|dbm.ListKeyOnly) == 0
			w.list(p, k, int32(c), int32(d), check)
		case len(f) == 2 && f[0] == "count" && needL():
			p, ok := unhx(f[1])
			if !ok {
				bad()
				continue
			}
			w.count(p)
		default:
			bad()
		}
	}
}

func main() {
	log15.Root().SetHandler(log15.DiscardHandler())
	defer out.Flush()
	tmpRoot = os.Getenv("VERIF_TMP")
	if tmpRoot == "" {
		tmpRoot = "/dev/shm"
	}
	var err error
	tmpRoot, err = os.MkdirTemp(tmpRoot, "h_c08.")
	must(err)
	defer os.RemoveAll(tmpRoot)
	w := &world{}
	defer w.close()
	if lines := gen.ReplayLines(); lines != nil {
		replay(w, lines)
		return
	}
	r := gen.New(gen.Seed())
	n := gen.Scale(300, 5000)
	for i := 0; i < n; i++ {
		history(w, r, i)
		if i%10 == 0 {
			roHistory(w, r, i/10)
		}
	}
	out.Sample(fmt.Sprintf("%d histories over a pre-populated GoLevelDB base", n))
}
