// h_c08q drives the layered local database through the blockchain module's queue handlers
// (blockchain/localdb.go: EventLocalNew/Begin/Set/Get/List/Commit/Rollback/Close) on a real,
// non-mining testnode.  Same op lines and the same model driver as h_c08 (lean/Driver/C08.lean).
//
// The node's database is shared by all histories (and holds the chain's own keys), so every
// history works under its own 3-byte key prefix and never lists an empty prefix.
package main

import (
	"bytes"
	"encoding/hex"
	"fmt"
	"os"
	"sort"
	"strings"

	"github.com/33cn/chain33/client"
	"github.com/33cn/chain33/queue"
	dbm "github.com/33cn/chain33/common/db"
	"github.com/33cn/chain33/common/log/log15"
	_ "github.com/33cn/chain33/system"
	"github.com/33cn/chain33/types"
	"github.com/33cn/chain33/util/testnode"

	"verifharness/internal/gen"
)

var out = gen.NewOut()

func hx(b []byte) string {
	if len(b) == 0 {
		return "-"
	}
	return hex.EncodeToString(b)
}

func must(err error) {
	if err != nil {
		out.Flush()
		fmt.Fprintln(os.Stderr, "harness:", err)
		os.Exit(4)
	}
}

type world struct {
	api  client.QueueProtocolAPI
	qc   queue.Client
	base dbm.DB
	id   *types.Int64
	// specification state
	sBase, sOverlay, sTx map[string][]byte
	universe             map[string]bool
}

func (w *world) newbase() {
	if w.id != nil {
		must(w.api.LocalClose(w.id))
		w.id = nil
	}
	w.sBase, w.sOverlay, w.sTx = map[string][]byte{}, map[string][]byte{}, nil
	w.universe = map[string]bool{}
	out.Op("newbase", "ok")
}

func (w *world) baseSet(k, v []byte) {
	must(w.base.Set(k, v))
	w.sBase[string(k)] = append([]byte{}, v...)
	w.universe[string(k)] = true
	out.Op(fmt.Sprintf("base %s %s", hx(k), hx(v)), "ok")
}

func (w *world) newLocal() {
	id, err := w.api.LocalNew(false)
	must(err)
	w.id = id
	out.Op("new", "ok")
	out.Stat("localdbs_via_queue", 1)
}

func errS(err error) string {
	if err == nil {
		return "ok"
	}
	return "err:" + err.Error()
}

func (w *world) begin() {
	err := w.api.LocalBegin(w.id)
	w.sTx = map[string][]byte{}
	out.Op("begin", errS(err))
	out.Stat("begin", 1)
}

func (w *world) commit() {
	err := w.api.LocalCommit(w.id)
	for k, v := range w.sTx {
		w.sOverlay[k] = v
	}
	w.sTx = nil
	out.Op("commit", errS(err))
	out.Stat("commit", 1)
}

func (w *world) rollback() {
	err := w.api.LocalRollback(w.id)
	w.sTx = nil
	out.Op("rollback", errS(err))
	out.Stat("rollback", 1)
}

func (w *world) set(k, v []byte) {
	err := w.api.LocalSet(&types.LocalDBSet{Txid: w.id.Data, KV: []*types.KeyValue{{Key: k, Value: v}}})
	if w.sTx != nil {
		w.sTx[string(k)] = append([]byte{}, v...)
	} else {
		w.sOverlay[string(k)] = append([]byte{}, v...)
	}
	w.universe[string(k)] = true
	out.Op(fmt.Sprintf("set %s %s", hx(k), hx(v)), errS(err))
	out.Stat("set", 1)
}

func (w *world) specGet(k []byte) ([]byte, bool) {
	var v []byte
	var ok bool
	if w.sTx != nil {
		v, ok = w.sTx[string(k)]
	}
	if !ok {
		v, ok = w.sOverlay[string(k)]
	}
	if !ok {
		v, ok = w.sBase[string(k)]
	}
	if !ok || len(v) == 0 {
		return nil, false
	}
	return v, true
}

func (w *world) get(k []byte) {
	r, err := w.api.LocalGet(&types.LocalDBGet{Txid: w.id.Data, Keys: [][]byte{k}})
	res := "notfound"
	switch {
	case err != nil:
		res = "err:" + err.Error()
	case len(r.Values) != 1:
		res = fmt.Sprintf("err:%d values", len(r.Values))
	case len(r.Values[0]) > 0:
		res = "= " + hx(r.Values[0])
	}
	out.Op("get "+hx(k), res)
	out.Stat("get", 1)
	want := "notfound"
	if v, ok := w.specGet(k); ok {
		want = "= " + hx(v)
	}
	if res != want {
		out.Pred("C08|blockchain.localGet|wrong-value", fmt.Sprintf("k=%s got=%q want=%q", hx(k), res, want))
	}
}

func showItems(items [][]byte) string {
	if len(items) == 0 {
		return "nil"
	}
	p := make([]string, len(items))
	for i, it := range items {
		p[i] = hx(it)
	}
	return strings.Join(p, ",")
}

func (w *world) list(prefix, key []byte, count, dir int32, check bool) {
	r, err := w.api.LocalList(&types.LocalDBList{Txid: w.id.Data, Prefix: prefix, Key: key, Count: count, Direction: dir})
	res := ""
	if err != nil {
		res = "err:" + err.Error()
	} else {
		res = showItems(r.Values)
	}
	out.Op(fmt.Sprintf("list %s %s %d %d", hx(prefix), hx(key), count, dir), res)
	out.Stat("list", 1)
	if !check {
		return
	}
	var ks []string
	for k := range w.universe {
		if bytes.HasPrefix([]byte(k), prefix) {
			if _, ok := w.specGet([]byte(k)); ok {
				ks = append(ks, k)
			}
		}
	}
	sort.Strings(ks)
	asc := dir&dbm.ListASC != 0
	var want [][]byte
	emit := func(k string) {
		if int32(len(want)) == count && count > 0 {
			return
		}
		v, _ := w.specGet([]byte(k))
		switch {
		case dir&dbm.ListKeyOnly != 0:
			want = append(want, []byte(k))
		case dir&dbm.ListWithKey != 0:
			want = append(want, types.Encode(&types.KeyValue{Key: []byte(k), Value: v}))
		default:
			want = append(want, v)
		}
	}
	if asc {
		for _, k := range ks {
			if len(key) == 0 || bytes.Compare([]byte(k), key) > 0 {
				emit(k)
			}
		}
	} else {
		for i := len(ks) - 1; i >= 0; i-- {
			if len(key) == 0 || bytes.Compare([]byte(ks[i]), key) < 0 {
				emit(ks[i])
			}
		}
	}
	if ws := showItems(want); ws != res {
		out.Pred("C08|blockchain.localList|page-differs-from-point-reads",
			fmt.Sprintf("prefix=%s key=%s count=%d dir=%d got=%s want=%s", hx(prefix), hx(key), count, dir, res, ws))
	}
	out.Stat("list_checked", 1)
}

// ---- requests without a transaction handle: the committed database of the node --------------
//
// blockchain/localdb.go answers EventLocalGet / EventLocalList with Txid == 0 and
// EventLocalPrefixCount (whose request, types.ReqKey, carries no Txid at all) from the block
// store's database.  They must agree with each other on the committed (base) entries at every
// step, whatever a LocalDB handle has buffered or has open.

func (w *world) baseLive(prefix []byte) []string {
	var ks []string
	for k, v := range w.sBase {
		if bytes.HasPrefix([]byte(k), prefix) && len(v) > 0 {
			ks = append(ks, k)
		}
	}
	sort.Strings(ks)
	return ks
}

func (w *world) bcount(prefix []byte) {
	msg := w.qc.NewMessage("blockchain", types.EventLocalPrefixCount, &types.ReqKey{Key: prefix})
	res := ""
	var n int64 = -1
	if err := w.qc.Send(msg, true); err != nil {
		res = "err:" + err.Error()
	} else if reply, err := w.qc.Wait(msg); err != nil {
		res = "err:" + err.Error()
	} else if v, ok := reply.GetData().(*types.Int64); ok {
		n = v.Data
		res = fmt.Sprint(n)
	} else {
		res = fmt.Sprintf("err:%T", reply.GetData())
	}
	out.Op("bcount "+hx(prefix), res)
	out.Stat("bcount", 1)
	if w.sTx != nil && len(w.sTx) > 0 {
		out.Stat("bcount_inside_open_tx_with_writes", 1)
	}
	if want := len(w.baseLive(prefix)); n != int64(want) {
		out.Pred("C08|blockchain.localPrefixCount|count-differs-from-committed-entries",
			fmt.Sprintf("prefix=%s got=%s want=%d", hx(prefix), res, want))
	}
}

func (w *world) bget(k []byte) {
	r, err := w.api.LocalGet(&types.LocalDBGet{Txid: 0, Keys: [][]byte{k}})
	res := "notfound"
	switch {
	case err != nil:
		res = "err:" + err.Error()
	case len(r.Values) != 1:
		res = fmt.Sprintf("err:%d values", len(r.Values))
	case len(r.Values[0]) > 0:
		res = "= " + hx(r.Values[0])
	}
	out.Op("bget "+hx(k), res)
	out.Stat("bget", 1)
	want := "notfound"
	if v, ok := w.sBase[string(k)]; ok && len(v) > 0 {
		want = "= " + hx(v)
	}
	if res != want {
		out.Pred("C08|blockchain.localGet(txid=0)|wrong-value", fmt.Sprintf("k=%s got=%q want=%q", hx(k), res, want))
	}
}

func (w *world) blist(prefix []byte, dir int32) {
	r, err := w.api.LocalList(&types.LocalDBList{Txid: 0, Prefix: prefix, Count: 0, Direction: dir | dbm.ListKeyOnly})
	res := ""
	if err != nil {
		res = "err:" + err.Error()
	} else {
		res = showItems(r.Values)
	}
	out.Op(fmt.Sprintf("blist %s - 0 %d", hx(prefix), dir|dbm.ListKeyOnly), res)
	out.Stat("blist", 1)
	ks := w.baseLive(prefix)
	var want [][]byte
	if dir&dbm.ListASC != 0 {
		for _, k := range ks {
			want = append(want, []byte(k))
		}
	} else {
		for i := len(ks) - 1; i >= 0; i-- {
			want = append(want, []byte(ks[i]))
		}
	}
	if ws := showItems(want); ws != res {
		out.Pred("C08|blockchain.localList(txid=0)|differs-from-committed-entries", fmt.Sprintf("prefix=%s got=%s want=%s", hx(prefix), res, ws))
	}
}

func history(w *world, r *gen.Rand, n int) {
	pfx := []byte{0xee, byte(n >> 8), byte(n)}
	alphabet := [][]byte{{'a', 'b'}, {0x00, 'a', 0xff}, {'a', 'b', 'c', 0xfe, 0xff}}[n%3]
	var pool [][]byte
	for i := 0; i < r.Range(3, 9); i++ {
		k := append([]byte{}, pfx...)
		if len(pool) > 0 && r.Chance(1, 2) {
			k = append(append([]byte{}, pool[r.Intn(len(pool))]...), r.BytesFrom(alphabet, r.Range(1, 2))...)
		} else {
			k = append(k, r.BytesFrom(alphabet, r.Range(1, 3))...)
		}
		pool = append(pool, k)
	}
	key := func() []byte { return pool[r.Intn(len(pool))] }
	val := func() []byte {
		if r.Chance(1, 4) {
			return nil
		}
		return r.Bytes(r.Range(1, 2))
	}
	prefix := func() []byte {
		if r.Chance(1, 3) {
			return pfx
		}
		k := key()
		return k[:r.Range(len(pfx), len(k))]
	}
	w.newbase()
	for _, k := range pool {
		if r.Chance(2, 3) {
			v := r.Bytes(r.Range(1, 2))
			if r.Chance(1, 10) {
				v = nil // an empty value stored in the committed database
			}
			w.baseSet(k, v)
		}
	}
	w.newLocal()
	for i := 0; i < gen.Scale(60, 150); i++ {
		switch r.Pick(10, 28, 22, 16, 4, 4, 2, 8) {
		case 0:
			w.begin()
		case 1:
			w.set(key(), val())
		case 2:
			w.get(key())
		case 3:
			enc := []int32{0, dbm.ListWithKey, dbm.ListKeyOnly}[r.Intn(3)]
			var k []byte
			if r.Chance(2, 3) {
				k = key()
			}
			w.list(prefix(), k, int32(r.Range(0, 4)), int32(r.Intn(2))|enc, true)
		case 4:
			w.commit()
		case 5:
			w.rollback()
		case 6:
			w.list(prefix(), key(), 1, dbm.ListSeek, false)
		case 7:
			// the handle-less requests, at any point of the history (also inside an open transaction)
			p := prefix()
			w.bcount(p)
			w.blist(p, int32(r.Intn(2)))
			w.bget(key())
		}
	}
	for _, k := range pool {
		w.get(k)
	}
	w.list(pfx, nil, 0, dbm.ListASC|dbm.ListWithKey, true)
	out.Stat("histories_via_queue", 1)
}

func main() {
	log15.Root().SetHandler(log15.DiscardHandler())
	defer out.Flush()
	if gen.ReplayLines() != nil {
		return // replays are handled by h_c08 (same op language)
	}
	cfg := testnode.GetDefaultConfig()
	cfg.GetModuleConfig().Consensus.Minerstart = false
	if tmp := os.Getenv("VERIF_TMP"); tmp != "" {
		must(os.Chdir(tmp)) // the node creates its data directories relative to the cwd
	}
	mock := testnode.NewWithConfig(cfg, nil)
	defer mock.Close()
	log15.Root().SetHandler(log15.DiscardHandler())
	w := &world{api: mock.GetAPI(), qc: mock.GetClient(), base: mock.GetBlockChain().GetDB()}
	r := gen.New(gen.Seed() + 77)
	n := gen.Scale(30, 1500)
	for i := 0; i < n; i++ {
		history(w, r, i)
	}
	if w.id != nil {
		must(w.api.LocalClose(w.id))
	}
	out.Sample(fmt.Sprintf("%d histories through blockchain local* queue handlers on a testnode", n))
}
