// h_c09 drives common/db MVCC (MVCCHelper / SimpleMVCC over goleveldb and memdb) on generated
// version chains whose key sets have the adversarial shapes C09 names (keys that are prefixes of
// other keys followed by '.', '!', digits, 20-digit strings ...).
//
// The harness is an interpreter of op lines (so corpus / replay files get the same predicates)
// plus a generator that produces such lines.  Lines (bytes are lower-case hex, "-" = empty):
//
//	reset <level|mem>                         -> ok
//	add <ver> <hash> <prev|-> <k>=<v>,...|-   -> ok|prevversion|notfound|version|err:...
//	del <ver> <hash>                          -> ok|notfound|onlytop|version|err:...
//	getv <k> <ver>                            -> <v>|notfound|version|err:...
//	trash <ver>                               -> ok
//	setver <ver> <hash>                       -> ok   (MVCCHelper.SetVersion: lets a chain start above 0)
//	maxv                                      -> <n>|notfound|err:...
//	dump                                      -> <datakey>=<v>,... (whole ".-mvcc-.d." region, ascending)
//	sget <hash|-> <k>                         -> StateDB.Get with MVCC enabled at the version of <hash>
//
// Reference (in-harness, independent of the model): per key the map version -> value of the live
// writes.  Property predicates (C09) evaluated on the implementation:
//
//	GetV(k,v)  = value of the most recent live write to k at a version <= v, else notfound
//	DelMVCC    : after removing the top version every read equals its result before that version was added
//	Trash(c)   : never removes a key's newest version nor a version > c
package main

import (
	"bytes"
	"encoding/hex"
	"fmt"
	"os"
	"path/filepath"
	"sort"
	"strconv"
	"strings"

	dbm "github.com/33cn/chain33/common/db"
	"github.com/33cn/chain33/common/log/log15"
	"github.com/33cn/chain33/types"

	"verifharness/internal/gen"
)

var out = gen.NewOut()

// ---------------------------------------------------------------------------------- state

type snapshot struct {
	ver   int64
	reads map[string]string // "khex ver" -> output, observed right before the add
}

type env struct {
	backend string
	dir     string
	ldb     dbm.DB
	m       *dbm.MVCCHelper
	mi      *dbm.MVCCIter
	del0    bool // an idel of version 0 succeeded in this episode
	itaint  bool // an MVCCIter predicate failed in this episode: its reference no longer follows
	// reference
	ref     map[string]map[int64][]byte // key -> version -> value (live writes)
	wrote   map[int64][]string          // version -> keys written by the add of that version
	reads   map[string]string           // reads observed since the last mutation
	snaps   []snapshot
	restore map[string]string // reads that must be reproduced (set by a successful del of the top)
	hashVer map[string]int64  // state hash -> version (live)
	ndb     int
}

var e = &env{}

// result of the last add / del style operation (the generator stops a chain whose removal failed)
var lastRes string

func tmpBase() string {
	if d := os.Getenv("VERIF_TMP"); d != "" {
		return d
	}
	return os.TempDir()
}

func (e *env) close() {
	if e.ldb != nil {
		e.ldb.Close()
		e.ldb = nil
	}
	if e.dir != "" {
		os.RemoveAll(e.dir)
		e.dir = ""
	}
}

func (e *env) reset(backend string) string {
	e.close()
	e.backend = backend
	e.ndb++
	switch backend {
	case "level":
		e.dir = filepath.Join(tmpBase(), fmt.Sprintf("c09db%d", e.ndb))
		os.RemoveAll(e.dir)
		ldb, err := dbm.NewGoLevelDB("c09", e.dir, 4)
		if err != nil {
			return "err:" + err.Error()
		}
		e.ldb = ldb
	case "mem":
		ldb, err := dbm.NewGoMemDB("c09", "", 0)
		if err != nil {
			return "err:" + err.Error()
		}
		e.ldb = ldb
	default:
		return "bad-op"
	}
	e.m = dbm.NewMVCC(e.ldb)
	e.mi = dbm.NewMVCCIter(e.ldb)
	e.del0 = false
	e.itaint = false
	e.ref = map[string]map[int64][]byte{}
	e.wrote = map[int64][]string{}
	e.reads = map[string]string{}
	e.snaps = nil
	e.restore = nil
	e.hashVer = map[string]int64{}
	return "ok"
}

func errName(err error) string {
	switch err {
	case nil:
		return "ok"
	case types.ErrNotFound:
		return "notfound"
	case types.ErrVersion:
		return "version"
	case types.ErrPrevVersion:
		return "prevversion"
	case types.ErrCanOnlyDelTopVersion:
		return "onlytop"
	}
	return "err:" + strings.ReplaceAll(err.Error(), "\t", " ")
}

func hx(b []byte) string {
	if len(b) == 0 {
		return "-"
	}
	return hex.EncodeToString(b)
}

func unhx(s string) ([]byte, bool) {
	if s == "-" {
		return []byte{}, true
	}
	b, err := hex.DecodeString(s)
	if err != nil || strings.ToLower(s) != s {
		return nil, false
	}
	return b, true
}

// ---------------------------------------------------------------------------------- ops

func (e *env) mutate() {
	e.reads = map[string]string{}
	e.restore = nil
}

// apply writes a kv list the way mvcc_test.go / the blockchain module do: nil value = delete.
// goleveldb gets one atomic batch; memdb gets single writes (its batch reports "not found" for a
// delete of an absent key, which is backend behaviour outside this property).
func (e *env) apply(list []*types.KeyValue, allDelete bool) error {
	if e.backend == "mem" {
		for _, kv := range list {
			if allDelete || kv.Value == nil {
				e.ldb.Delete(kv.Key)
			} else if err := e.ldb.Set(kv.Key, kv.Value); err != nil {
				return err
			}
		}
		return nil
	}
	batch := e.ldb.NewBatch(true)
	for _, kv := range list {
		if allDelete || kv.Value == nil {
			batch.Delete(kv.Key)
		} else {
			batch.Set(kv.Key, kv.Value)
		}
	}
	return batch.Write()
}

func (e *env) opAdd(line string, ver int64, hash, prev []byte, kvs []*types.KeyValue, iter bool) {
	var list []*types.KeyValue
	res := gen.Guard(func() string {
		var err error
		if iter {
			list, err = e.mi.AddMVCC(kvs, hash, prev, ver)
		} else {
			list, err = e.m.AddMVCC(kvs, hash, prev, ver)
		}
		return errName(err)
	})
	if res == "ok" {
		// written the way mvcc_test.go / the blockchain module write such a list
		if err := e.apply(list, false); err != nil {
			res = "err:" + err.Error()
		}
	}
	out.Op(line, res)
	out.Stat("add_"+statName(res), 1)
	if res != "ok" {
		return
	}
	before := e.reads
	e.mutate()
	e.snaps = append(e.snaps, snapshot{ver: ver, reads: before})
	var keys []string
	for _, kv := range kvs {
		k := string(kv.Key)
		if e.ref[k] == nil {
			e.ref[k] = map[int64][]byte{}
		}
		e.ref[k][ver] = kv.Value
		keys = append(keys, k)
	}
	e.wrote[ver] = keys
	e.hashVer[string(hash)] = ver
}

func (e *env) opDel(line string, ver int64, hash []byte, iter bool) {
	var list []*types.KeyValue
	res := gen.Guard(func() string {
		var err error
		if iter {
			list, err = e.mi.DelMVCC(hash, ver, true)
		} else {
			list, err = e.m.DelMVCC(hash, ver, true)
		}
		return errName(err)
	})
	if res == "ok" {
		if err := e.apply(list, false); err != nil {
			res = "err:" + err.Error()
		}
	}
	out.Op(line, res)
	lastRes = res
	out.Stat("del_"+statName(res), 1)
	if iter && res == "version" && !e.itaint {
		e.itaint = true
		// MVCCIter.DelMVCC restores the "last" records with GetV(key, version-1)
		shape := "no-key-extends-k-dot"
		for _, k := range e.wrote[ver] {
			for k2 := range e.ref {
				if len(e.ref[k2]) > 0 && strings.HasPrefix(k2, k+".") {
					shape = "another-key-extends-k-dot"
				}
			}
		}
		out.Pred("C09|MVCCIter.DelMVCC|version-error-while-restoring-last|"+shape, line+" keys="+e.keyList())
	}
	if res != "ok" {
		return
	}
	if iter && ver == 0 {
		e.del0 = true
	}
	e.mutate()
	for _, k := range e.wrote[ver] {
		delete(e.ref[k], ver)
	}
	delete(e.wrote, ver)
	delete(e.hashVer, string(hash))
	if n := len(e.snaps); n > 0 && e.snaps[n-1].ver == ver {
		e.restore = e.snaps[n-1].reads
		e.snaps = e.snaps[:n-1]
	} else {
		e.snaps = nil
	}
}

// expected value of a read in the reference: (value, found)
func (e *env) refRead(k string, ver int64) ([]byte, int64, bool) {
	best := int64(-1)
	for v := range e.ref[k] {
		if v <= ver && v > best {
			best = v
		}
	}
	if best < 0 {
		return nil, 0, false
	}
	return e.ref[k][best], best, true
}

// owner of a stored value (values are unique per write in generated runs)
func (e *env) owner(val []byte) (string, int64, bool) {
	for k, m := range e.ref {
		for v, x := range m {
			if len(x) > 0 && bytes.Equal(x, val) {
				return k, v, true
			}
		}
	}
	return "", 0, false
}

func (e *env) opGetV(line string, key []byte, ver int64) {
	var val []byte
	res := gen.Guard(func() string {
		v, err := e.m.GetV(key, ver)
		if err != nil {
			return errName(err)
		}
		val = v
		return hx(v)
	})
	out.Op(line, res)
	out.Stat("getv", 1)
	rk := hx(key) + " " + strconv.FormatInt(ver, 10)
	// predicate 2 (restore)
	if want, ok := e.restore[rk]; ok && want != res {
		out.Pred("C09|DelMVCC|read-not-restored", fmt.Sprintf("%s before-add=%s after-del=%s", line, want, res))
	}
	e.reads[rk] = res
	e.checkRead("GetV", line, key, ver, res, val)
}

// predicate 1 (right key, right version) for a read of key at version ver that answered res/val.
func (e *env) checkRead(site, line string, key []byte, ver int64, res string, val []byte) {
	exp, ev, found := e.refRead(string(key), ver)
	detail := func() string {
		return fmt.Sprintf("%s got=%s want=%s keys=%s", line, res, expStr(exp, ev, found), e.keyList())
	}
	// the signature names whether another written key extends key+"." (the only shape under which
	// the unchanged code is known to misread); anything else is a different failure
	shape := "no-key-extends-k-dot"
	for k := range e.ref {
		if len(e.ref[k]) > 0 && strings.HasPrefix(k, string(key)+".") {
			shape = "another-key-extends-k-dot"
		}
	}
	pred := func(kind string) {
		if kind == "older-value-after-empty-write" || kind == "panic" {
			out.Pred("C09|"+site+"|"+kind, detail())
			return
		}
		out.Pred("C09|"+site+"|"+kind+"|"+shape, detail())
	}
	switch {
	case res == "panic":
		pred("panic")
	case !found:
		out.Stat("read_expect_notfound", 1)
		if res == "notfound" {
			return
		}
		if res == "version" {
			pred("version-error-instead-of-notfound")
		} else if e.foreign(string(key), val) {
			pred("value-of-a-different-key")
		} else {
			pred("value-for-unwritten-key")
		}
	case len(exp) == 0:
		// most recent write is the empty value (deletion marker)
		out.Stat("read_expect_emptyvalue", 1)
		if res == "notfound" || res == "-" {
			return
		}
		if res == "version" {
			pred("version-error-instead-of-value")
		} else if e.foreign(string(key), val) {
			pred("value-of-a-different-key")
		} else {
			pred("older-value-after-empty-write")
		}
	default:
		out.Stat("read_expect_value", 1)
		if res == hx(exp) {
			return
		}
		if res == "version" {
			pred("version-error-instead-of-value")
		} else if res == "notfound" {
			pred("notfound-instead-of-value")
		} else if e.foreign(string(key), val) {
			pred("value-of-a-different-key")
		} else {
			pred("value-of-wrong-version")
		}
	}
}

func (e *env) foreign(k string, val []byte) bool {
	ok, _, found := e.owner(val)
	return found && ok != k
}

func expStr(exp []byte, ev int64, found bool) string {
	if !found {
		return "notfound"
	}
	return fmt.Sprintf("%s@%d", hx(exp), ev)
}

func (e *env) keyList() string {
	var ks []string
	for k, m := range e.ref {
		var vs []int
		for v := range m {
			vs = append(vs, int(v))
		}
		sort.Ints(vs)
		ks = append(ks, fmt.Sprintf("%q%v", k, vs))
	}
	sort.Strings(ks)
	return strings.Join(ks, " ")
}

func (e *env) opTrash(line string, cut int64) {
	res := gen.Guard(func() string { return errName(e.m.Trash(cut)) })
	out.Op(line, res)
	out.Stat("trash", 1)
	// Go deletes while the reverse iterator is open: goleveldb iterates a snapshot, GoMemDB the live
	// skiplist.  The model deletes after the scan; both backends are compared with it (dump + reads).
	out.Stat("trash_on_"+e.backend+"db", 1)
	if res != "ok" {
		out.Pred("C09|Trash|error-or-panic", line+" -> "+res)
		return
	}
	e.mutate()
	e.snaps = nil
	// predicate 3: newest version of every key and every version > cut survive
	for k, m := range e.ref {
		newest := int64(-1)
		for v := range m {
			if v > newest {
				newest = v
			}
		}
		for v := range m {
			dk, _ := dbm.GetKey([]byte(k), v)
			_, err := e.ldb.Get(dk)
			if err == nil {
				continue
			}
			// shape: is k a proper prefix of another written key or the other way round (the only
			// shape under which the unchanged code is known to collect too much)?
			shape := "key-set-prefix-free-around-k"
			for k2 := range e.ref {
				if k2 != k && len(e.ref[k2]) > 0 && (strings.HasPrefix(k, k2) || strings.HasPrefix(k2, k)) {
					shape = "k-and-another-key-are-prefix-related"
				}
			}
			if v == newest {
				out.Pred("C09|Trash|newest-version-of-a-key-removed|"+shape,
					fmt.Sprintf("%s removed %q@%d keys=%s", line, k, v, e.keyList()))
			} else if v > cut {
				out.Pred("C09|Trash|version-newer-than-cut-removed|"+shape,
					fmt.Sprintf("%s removed %q@%d keys=%s", line, k, v, e.keyList()))
			} else {
				out.Stat("trash_collected", 1)
			}
			// the reference follows what the collection removed
			delete(m, v)
		}
	}
}

// ilist: the "last" records through MVCCIter.Iterator; predicate: one record per key that has a
// live version, holding the value of its newest version.
func (e *env) opIList(line string) {
	got := map[string][]byte{}
	res := gen.Guard(func() string {
		var sb strings.Builder
		it := e.mi.Iterator(nil, nil, false)
		defer it.Close()
		n := 0
		for it.Rewind(); it.Valid(); it.Next() {
			if n > 0 {
				sb.WriteByte(',')
			}
			sb.WriteString(hx(it.Key()))
			sb.WriteByte('=')
			sb.WriteString(hx(it.Value()))
			got[string(it.Key())] = append([]byte{}, it.Value()...)
			n++
		}
		if n == 0 {
			return "-"
		}
		return sb.String()
	})
	out.Op(line, res)
	out.Stat("ilist", 1)
	if e.itaint {
		return
	}
	keys := map[string]bool{}
	for k := range got {
		keys[k] = true
	}
	for k, m := range e.ref {
		if len(m) > 0 {
			keys[k] = true
		}
	}
	var order []string
	for k := range keys {
		order = append(order, k)
	}
	sort.Strings(order)
	for _, k := range order {
		newest := int64(-1)
		for v := range e.ref[k] {
			if v > newest {
				newest = v
			}
		}
		g, present := got[k]
		shape := "no-key-extends-k-dot"
		for k2 := range e.ref {
			if len(e.ref[k2]) > 0 && strings.HasPrefix(k2, k+".") {
				shape = "another-key-extends-k-dot"
			}
		}
		detail := fmt.Sprintf("%s key=%q got=%s present=%v newest=%d keys=%s", line, k, hx(g), present, newest, e.keyList())
		kind := ""
		switch {
		case newest < 0 && present:
			kind = "last-record-of-a-key-without-versions"
		case newest >= 0 && !present:
			kind = "last-record-missing"
		case newest >= 0 && !bytes.Equal(g, e.ref[k][newest]):
			kind = "last-record-not-newest"
			if e.foreign(k, g) {
				kind = "last-record-holds-value-of-a-different-key"
			}
		}
		if kind == "" {
			continue
		}
		e.itaint = true
		switch {
		case shape == "another-key-extends-k-dot":
			// DelMVCC restored the record from GetV(key, version-1), which misreads under this shape
			out.Pred("C09|MVCCIter.Iterator|last-record-wrong|another-key-extends-k-dot", kind+" "+detail)
		case e.del0:
			out.Pred("C09|MVCCIter.Iterator|"+kind+"|after-removing-version-0", detail)
		default:
			out.Pred("C09|MVCCIter.Iterator|"+kind+"|plain-history", detail)
		}
		return
	}
	out.Stat("ilist_checked", 1)
}

// setver: MVCCHelper.SetVersion(hash, ver) — only the hash<->version records, no data.
func (e *env) opSetVer(line string, ver int64, hash []byte) {
	res := gen.Guard(func() string { return errName(e.m.SetVersion(hash, ver)) })
	out.Op(line, res)
	out.Stat("setver", 1)
	if res == "ok" {
		e.mutate()
		e.snaps = nil
		e.hashVer[string(hash)] = ver
	}
}

func (e *env) opMaxV(line string) {
	res := gen.Guard(func() string {
		v, err := e.m.GetMaxVersion()
		if err != nil {
			return errName(err)
		}
		return strconv.FormatInt(v, 10)
	})
	out.Op(line, res)
}

func (e *env) opDump(line string) {
	res := gen.Guard(func() string {
		var sb strings.Builder
		it := e.ldb.Iterator([]byte(".-mvcc-.d."), nil, false)
		defer it.Close()
		n := 0
		for it.Rewind(); it.Valid(); it.Next() {
			if n > 0 {
				sb.WriteByte(',')
			}
			sb.WriteString(hx(it.Key()))
			sb.WriteByte('=')
			sb.WriteString(hx(it.Value()))
			n++
		}
		if n == 0 {
			return "-"
		}
		return sb.String()
	})
	out.Op(line, res)
	out.Stat("dump", 1)
}

func statName(res string) string {
	if strings.HasPrefix(res, "err:") {
		return "err"
	}
	return res
}

// ---------------------------------------------------------------------------------- interpreter

func parseKVs(s string) ([]*types.KeyValue, bool) {
	if s == "-" {
		return nil, true
	}
	var kvs []*types.KeyValue
	for _, p := range strings.Split(s, ",") {
		kv := strings.SplitN(p, "=", 2)
		if len(kv) != 2 {
			return nil, false
		}
		k, ok1 := unhx(kv[0])
		v, ok2 := unhx(kv[1])
		if !ok1 || !ok2 {
			return nil, false
		}
		kvs = append(kvs, &types.KeyValue{Key: k, Value: v})
	}
	return kvs, true
}

func parseVer(s string) (int64, bool) {
	// versions are non-negative decimals below 2^63 on the wire
	if s == "" || len(s) > 19 {
		return 0, false
	}
	for _, c := range s {
		if c < '0' || c > '9' {
			return 0, false
		}
	}
	n, err := strconv.ParseInt(s, 10, 64)
	return n, err == nil
}

func exec(line string) {
	f := strings.Fields(line)
	bad := func() { out.Op(line, "bad-op") }
	if len(f) == 0 {
		bad()
		return
	}
	if f[0] != "reset" && e.ldb == nil {
		bad()
		return
	}
	switch f[0] {
	case "reset":
		if len(f) != 2 {
			bad()
			return
		}
		out.Op(line, e.reset(f[1]))
	case "add", "iadd":
		if len(f) != 5 {
			bad()
			return
		}
		ver, ok := parseVer(f[1])
		hash, ok2 := unhx(f[2])
		prev, ok3 := unhx(f[3])
		kvs, ok4 := parseKVs(f[4])
		if !ok || !ok2 || !ok3 || !ok4 || len(hash) < 16 {
			bad()
			return
		}
		if f[3] == "-" {
			prev = nil
		}
		e.opAdd(line, ver, hash, prev, kvs, f[0] == "iadd")
	case "ilist":
		if len(f) != 1 {
			bad()
			return
		}
		e.opIList(line)
	case "del", "idel":
		if len(f) != 3 {
			bad()
			return
		}
		ver, ok := parseVer(f[1])
		hash, ok2 := unhx(f[2])
		if !ok || !ok2 || len(hash) < 16 {
			bad()
			return
		}
		e.opDel(line, ver, hash, f[0] == "idel")
	case "getv":
		if len(f) != 3 {
			bad()
			return
		}
		k, ok := unhx(f[1])
		ver, ok2 := parseVer(f[2])
		if !ok || !ok2 {
			bad()
			return
		}
		e.opGetV(line, k, ver)
	case "trash":
		if len(f) != 2 {
			bad()
			return
		}
		ver, ok := parseVer(f[1])
		if !ok {
			bad()
			return
		}
		e.opTrash(line, ver)
	case "setver":
		if len(f) != 3 {
			bad()
			return
		}
		ver, ok := parseVer(f[1])
		hash, ok2 := unhx(f[2])
		if !ok || !ok2 || len(hash) < 16 {
			bad()
			return
		}
		e.opSetVer(line, ver, hash)
	case "maxv":
		if len(f) != 1 {
			bad()
			return
		}
		e.opMaxV(line)
	case "dump":
		if len(f) != 1 {
			bad()
			return
		}
		e.opDump(line)
	case "sget":
		if len(f) != 3 {
			bad()
			return
		}
		h, ok := unhx(f[1])
		k, ok2 := unhx(f[2])
		if !ok || !ok2 {
			bad()
			return
		}
		e.opStateGet(line, h, k)
	default:
		bad()
	}
}

// ---------------------------------------------------------------------------------- generator

type chain struct {
	base   int64 // first version of the chain (reads start one below it)
	always []byte // a key every version writes (nil: none)
	iter   bool // drive MVCCIter (iadd / idel / ilist) instead of the plain helper
	r      *gen.Rand
	keys   [][]byte
	hashes map[int64][]byte
	top    int64 // highest live version, -1 if none
	nval   int
	nhash  int
}

func hashN(r *gen.Rand, n int) []byte {
	h := r.Bytes(32)
	h[0] = byte(n)
	h[1] = byte(n >> 8)
	return h
}

// key shapes: a base key and keys that extend it by separator / punctuation / digit strings.
func genKeys(r *gen.Rand) [][]byte {
	bases := []string{"a", "b", "ab", "k1", "acc", "a.b", "", "mavl-coins-x"}
	base := bases[r.Pick(6, 3, 3, 3, 2, 2, 1, 1)]
	exts := []string{
		".!", "!", ".", "..", ".0", ".1", ".9", ".00000000000000000001", ".00000000000000000005",
		".99999999999999999999", ".0000000000000000000", ".000000000000000000001", "0", "1", "00000000000000000003",
		"-", "/", ".a", ".z", "a", "\x00", "\xff", ".\x00", ".\xff", ". ", ".-", "./", ".:", ".0.", ".!.!", "!.",
		".00000000000000000002.", ".00000000000000000002.00000000000000000001",
	}
	seen := map[string]bool{}
	var keys [][]byte
	add := func(k string) {
		if !seen[k] {
			seen[k] = true
			keys = append(keys, []byte(k))
		}
	}
	add(base)
	n := r.Range(1, 5)
	for i := 0; i < n; i++ {
		switch r.Pick(8, 2, 2) {
		case 0:
			add(base + exts[r.Intn(len(exts))])
		case 1:
			// extension of an extension
			k := string(keys[r.Intn(len(keys))])
			add(k + exts[r.Intn(len(exts))])
		default:
			add(bases[r.Intn(len(bases))])
		}
	}
	return keys
}

// separator-free key sets (no key followed by '.' is a prefix of another): the shape under which
// getV_correct_partial is proved; no GetV finding may appear here.
func genKeysSepFree(r *gen.Rand) [][]byte {
	pool := []string{"a", "b", "ab", "a!", "a-", "a0", "a1", "b/", "abc", "k\x00", "k\xff", "z", "a00000000000000000001"}
	p := r.Perm(len(pool))
	n := r.Range(2, 6)
	var keys [][]byte
	for i := 0; i < n; i++ {
		keys = append(keys, []byte(pool[p[i]]))
	}
	return keys
}

func (c *chain) value(k []byte, ver int64, tomb bool) []byte {
	if tomb {
		return []byte{}
	}
	c.nval++
	return []byte(fmt.Sprintf("%x@%d#%d", k, ver, c.nval))
}

func (c *chain) emitAdd(ver int64, tombs bool) {
	r := c.r
	n := r.Pick(1, 5, 5, 3, 1) // 0..4 kvs
	var parts []string
	for i := 0; i < n; i++ {
		k := c.keys[r.Intn(len(c.keys))]
		tomb := tombs && r.Chance(1, 6)
		parts = append(parts, hx(k)+"="+hx(c.value(k, ver, tomb)))
	}
	kvs := "-"
	if len(parts) > 0 {
		kvs = strings.Join(parts, ",")
	}
	c.nhash++
	h := hashN(r, c.nhash)
	prev := "-"
	if ver > 0 {
		prev = hx(c.hashes[ver-1])
	}
	if c.always != nil {
		// the ordinary key is written by every version (both sides of a decimal boundary and on it)
		parts = append(parts, hx(c.always)+"="+hx(c.value(c.always, ver, false)))
		kvs = strings.Join(parts, ",")
	}
	if c.iter {
		exec(fmt.Sprintf("iadd %d %s %s %s", ver, hx(h), prev, kvs))
		exec("ilist")
	} else {
		exec(fmt.Sprintf("add %d %s %s %s", ver, hx(h), prev, kvs))
	}
	c.hashes[ver] = h
	c.top = ver
}

func (c *chain) emitDelTop() {
	if c.iter {
		exec(fmt.Sprintf("idel %d %s", c.top, hx(c.hashes[c.top])))
		exec("ilist")
	} else {
		exec(fmt.Sprintf("del %d %s", c.top, hx(c.hashes[c.top])))
	}
	delete(c.hashes, c.top)
	c.top--
}

func (c *chain) readAll(maxv int64) {
	for _, k := range c.keys {
		from := c.base - 1
		if from < 0 {
			from = 0
		}
		for v := from; v <= maxv; v++ {
			exec(fmt.Sprintf("getv %s %d", hx(k), v))
		}
	}
}

// one episode: a version chain with reads at every version, removals from the top (each checked
// for restoration) and a garbage collection at a cut point followed by reads.
func episode(r *gen.Rand, backend string, sepFree, tombs bool, cutAt int64) {
	c := &chain{r: r, hashes: map[int64][]byte{}, top: -1}
	if sepFree {
		c.keys = genKeysSepFree(r)
	} else {
		c.keys = genKeys(r)
	}
	exec("reset " + backend)
	nver := int64(r.Range(2, 7))
	for c.top+1 < nver {
		c.emitAdd(c.top+1, tombs)
		if r.Chance(1, 3) && c.top >= 0 {
			// reads, add one more, remove it, same reads (restore predicate)
			c.readAll(c.top + 2)
			c.emitAdd(c.top+1, tombs)
			if r.Chance(1, 2) {
				c.readAll(c.top + 1)
			}
			c.emitDelTop()
			c.readAll(c.top + 2)
		}
	}
	c.readAll(c.top + 1)
	exec("maxv")
	exec("dump")
	if r.Chance(1, 8) {
		// error paths: wrong prev hash, gap, delete below the top, unknown hash
		exec(fmt.Sprintf("add %d %s %s -", c.top+1, hx(hashN(r, 9999)), hx(hashN(r, 9998))))
		exec(fmt.Sprintf("add %d %s %s -", c.top+3, hx(hashN(r, 9999)), hx(c.hashes[c.top])))
		exec(fmt.Sprintf("add %d %s - -", c.top+1, hx(hashN(r, 9999))))
		if c.top > 0 {
			exec(fmt.Sprintf("del %d %s", c.top-1, hx(c.hashes[c.top-1])))
		}
		exec(fmt.Sprintf("del %d %s", c.top, hx(hashN(r, 9997))))
		exec(fmt.Sprintf("del %d %s", c.top+1, hx(c.hashes[c.top])))
	}
	cut := cutAt
	if cut < 0 {
		cut = int64(r.Range(0, int(c.top)+1))
	}
	exec(fmt.Sprintf("trash %d", cut))
	exec("dump")
	c.readAll(c.top + 1)
	if r.Chance(1, 2) {
		// the chain keeps working after a collection: remove the top, add again, collect again
		c.emitDelTop()
		c.emitAdd(c.top+1, tombs)
		c.emitAdd(c.top+1, tombs)
		exec(fmt.Sprintf("trash %d", r.Range(int(cut), int(c.top)+1)))
		exec("dump")
		c.readAll(c.top + 1)
	}
	out.Stat("episodes", 1)
	if sepFree {
		out.Stat("episodes_sepfree_keys", 1)
	}
	out.Stat(fmt.Sprintf("episode_keys_%d", len(c.keys)), 1)
}

// the same history collected at every cut point (fresh database per cut).
// MVCCIter episodes: versions added and removed from the top, the "last" records checked after
// every step; sometimes everything down to version 0 is removed.
func iterEpisode(r *gen.Rand, backend string, sepFree bool) {
	c := &chain{r: r, hashes: map[int64][]byte{}, top: -1, iter: true}
	if sepFree {
		c.keys = genKeysSepFree(r)
	} else {
		c.keys = genKeys(r)
	}
	exec("reset " + backend)
	nver := int64(r.Range(2, 6))
	for c.top+1 < nver {
		c.emitAdd(c.top+1, false)
		if r.Chance(1, 3) {
			c.emitAdd(c.top+1, false)
			c.emitDelTop()
			if lastRes != "ok" {
				out.Stat("iter_episodes_stopped_by_failed_removal", 1)
				return
			}
		}
	}
	downTo := int64(r.Range(0, int(c.top)))
	if r.Chance(1, 6) {
		downTo = -1
	}
	for c.top > downTo {
		if _, ok := c.hashes[c.top]; !ok {
			break
		}
		c.emitDelTop()
		if lastRes != "ok" {
			break // the removal failed (known: ErrVersion while restoring "last"): the chain stops here
		}
	}
	c.readAll(c.top + 1)
	exec("dump")
	out.Stat("iter_episodes", 1)
}

// decimal boundaries of the version suffix: chains that start at a base version just below a power
// of ten (MVCCHelper.SetVersion provides the predecessor record) or simply run long, an ordinary
// key written by every version, reads at every version around the boundary, removals back across
// it (each checked for restoration), re-adding, and collections at the cuts around it.
var boundaryBases = []int64{0, 7, 95, 98, 995, 9997, 99998, 999999997, 99999999999999997, 999999999999999998}

func boundaryEpisode(r *gen.Rand, backend string, idx int) {
	base := boundaryBases[idx%len(boundaryBases)]
	n := int64(r.Range(6, 14)) // versions base .. base+n-1 cross the next power of ten
	if base == 0 {
		n = int64(r.Range(12, 24))
		if idx%3 == 0 {
			n = int64(r.Range(101, 130))
		}
	}
	ordinary := [][]byte{[]byte("k"), []byte("acc"), []byte("mavl-coins-bty-exec-1x")}[r.Intn(3)]
	c := &chain{r: r, hashes: map[int64][]byte{}, top: base - 1, base: base, always: ordinary}
	c.keys = [][]byte{ordinary, []byte("z" + string(ordinary)), []byte("b")}
	exec("reset " + backend)
	if base > 0 {
		c.nhash++
		h := hashN(r, c.nhash)
		exec(fmt.Sprintf("setver %d %s", base-1, hx(h)))
		c.hashes[base-1] = h
	}
	for c.top+1 < base+n {
		c.emitAdd(c.top+1, false)
	}
	top := c.top
	if n <= 30 {
		c.readAll(top + 1)
	} else {
		// long chain: every version for the ordinary key only
		for v := int64(0); v <= top+1; v++ {
			exec(fmt.Sprintf("getv %s %d", hx(ordinary), v))
		}
	}
	exec("maxv")
	// back across the boundary, reads after every removal (restore predicate), and forward again
	back := int64(r.Range(3, int(n)-1))
	if back > 25 {
		back = 25
	}
	for i := int64(0); i < back; i++ {
		c.emitDelTop()
		if lastRes != "ok" {
			break
		}
		for v := c.top - 3; v <= c.top+2; v++ {
			if v >= 0 {
				exec(fmt.Sprintf("getv %s %d", hx(ordinary), v))
			}
		}
	}
	for c.top < top {
		c.emitAdd(c.top+1, false)
	}
	for v := top - back - 2; v <= top+1; v++ {
		if v >= 0 {
			exec(fmt.Sprintf("getv %s %d", hx(ordinary), v))
		}
	}
	exec("dump")
	// collections at increasing cuts around the boundary
	cut := base + int64(r.Range(0, 3))
	for i := 0; i < 4 && cut <= top; i++ {
		exec(fmt.Sprintf("trash %d", cut))
		for v := cut - 1; v <= top+1; v++ {
			if v >= 0 {
				exec(fmt.Sprintf("getv %s %d", hx(ordinary), v))
			}
		}
		cut += int64(r.Range(1, 4))
	}
	exec("dump")
	out.Stat("boundary_episodes", 1)
	out.Stat(fmt.Sprintf("boundary_base_%d", base), 1)
}

func everyCut(r *gen.Rand, seed uint64, backend string) {
	probe := gen.New(seed)
	c0 := &chain{r: probe, hashes: map[int64][]byte{}, top: -1}
	c0.keys = genKeys(probe)
	nver := int64(probe.Range(2, 6))
	for cut := int64(0); cut <= nver; cut++ {
		rr := gen.New(seed)
		c := &chain{r: rr, hashes: map[int64][]byte{}, top: -1}
		c.keys = genKeys(rr)
		_ = rr.Range(2, 6)
		exec("reset " + backend)
		for c.top+1 < nver {
			c.emitAdd(c.top+1, false)
		}
		exec(fmt.Sprintf("trash %d", cut))
		exec("dump")
		c.readAll(c.top + 1)
		out.Stat("everycut_runs", 1)
	}
}

func main() {
	log15.Root().SetHandler(log15.DiscardHandler()) // chain33 logs go to stdout by default
	defer func() {
		e.close()
		out.Flush()
	}()
	if lines := gen.ReplayLines(); lines != nil {
		for _, l := range lines {
			exec(l)
		}
		return
	}
	r := gen.New(gen.Seed())
	n := gen.Scale(220, 6000)
	for i := 0; i < n; i++ {
		backend := "level"
		if i%3 == 2 {
			backend = "mem"
		}
		switch {
		case i%5 == 4:
			episode(r, backend, true, false, -1)
		case i%7 == 6:
			episode(r, backend, false, true, -1)
		default:
			episode(r, backend, false, false, -1)
		}
	}
	for i := 0; i < gen.Scale(25, 600); i++ {
		everyCut(r, r.U64(), "mem")
	}
	for i := 0; i < gen.Scale(40, 1500); i++ {
		backend := "mem"
		if i%5 == 0 {
			backend = "level"
		}
		boundaryEpisode(r, backend, i)
	}
	stateDBRuns(r, gen.Scale(20, 400))
	for i := 0; i < gen.Scale(80, 2000); i++ {
		backend := "mem"
		if i%4 == 0 {
			backend = "level"
		}
		iterEpisode(r, backend, i%3 == 0)
	}
	out.Sample("keys of one episode: " + fmt.Sprintf("%q", genKeys(gen.New(gen.Seed()))))
}
