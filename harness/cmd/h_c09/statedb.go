package main

// StateDB.Get with MVCC enabled (executor/statedb.go).  enableMVCC is unexported and only called
// from the block-execution path; it is reached here by a pull-only linkname (no file is added to
// /repo).  The read then goes StateDB.get -> SimpleMVCC.GetV(key, version-of-hash).

import (
	"fmt"
	_ "unsafe"

	dbm "github.com/33cn/chain33/common/db"
	"github.com/33cn/chain33/executor"

	"verifharness/internal/gen"
)

//go:linkname stateDBEnableMVCC github.com/33cn/chain33/executor.(*StateDB).enableMVCC
func stateDBEnableMVCC(s *executor.StateDB, hash []byte)

func (e *env) opStateGet(line string, hash, key []byte) {
	var val []byte
	res := gen.Guard(func() string {
		kv := executor.NewStateDB(nil, hash, dbm.NewKVDB(e.ldb), &executor.StateDBOption{EnableMVCC: true, Height: 0})
		stateDBEnableMVCC(kv.(*executor.StateDB), nil)
		v, err := kv.Get(key)
		if err != nil {
			return errName(err)
		}
		val = v
		return hx(v)
	})
	out.Op(line, res)
	out.Stat("sget", 1)
	ver, ok := e.hashVer[string(hash)]
	if !ok {
		// unknown state hash: the version stays unset and the read falls through to the (absent) store
		if res != "notfound" {
			out.Pred("C09|StateDB.Get|value-for-unknown-state-hash", line+" -> "+res)
		}
		return
	}
	e.checkRead("StateDB.Get", line, key, ver, res, val)
}

// version chains read through StateDB at every state hash.
func stateDBRuns(r *gen.Rand, n int) {
	for i := 0; i < n; i++ {
		c := &chain{r: r, hashes: map[int64][]byte{}, top: -1}
		if i%3 == 0 {
			c.keys = genKeysSepFree(r)
		} else {
			c.keys = genKeys(r)
		}
		exec("reset mem")
		nver := int64(r.Range(2, 6))
		for c.top+1 < nver {
			c.emitAdd(c.top+1, false)
		}
		for v := int64(0); v <= c.top; v++ {
			for _, k := range c.keys {
				exec(fmt.Sprintf("sget %s %s", hx(c.hashes[v]), hx(k)))
			}
		}
		exec(fmt.Sprintf("sget %s %s", hx(hashN(r, 7777)), hx(c.keys[0])))
		c.emitDelTop()
		for _, k := range c.keys {
			exec(fmt.Sprintf("sget %s %s", hx(c.hashes[c.top]), hx(k)))
		}
		out.Stat("statedb_runs", 1)
	}
}
