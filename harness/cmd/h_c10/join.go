package main

// Join tables (common/db/table/join.go): predicate-only runs (no Lean model; the lines of these
// runs are not compared with a driver).  Left table gameaddr(txhash | gameID, addr), right table
// game(gameID | status), join indexes "addr#status" and "#status" as in join_test.go.
//
// Reference: two maps; a joined row exists for every left row whose gameID names a present right
// row.  Between two saves every primary key of either table is touched at most once (so that the
// known row-cache findings of the single tables stay out of the way) and referential integrity is
// kept by the generator (a left row always names an existing game; a referenced game is not
// deleted) — join.Save returns an error otherwise, by design.
//
// Lines: jreset | jr <replace|add|update|del> <gid> <status> | jl <replace|add|update|del> <tx> <gid> <addr>
//        | jsave | jlist <index> <left|-> <right> | jget <tx>

import (
	"fmt"
	"sort"
	"strconv"
	"strings"

	dbm "github.com/33cn/chain33/common/db"
	"github.com/33cn/chain33/common/db/table"
	protodata "github.com/33cn/chain33/common/db/table/proto"
	"github.com/33cn/chain33/types"

	"verifharness/internal/gen"
)

type gameRow struct{ *protodata.Game }

func (tx *gameRow) CreateRow() *table.Row { return &table.Row{Data: &protodata.Game{}} }
func (tx *gameRow) SetPayload(data types.Message) error {
	if d, ok := data.(*protodata.Game); ok {
		tx.Game = d
		return nil
	}
	return types.ErrTypeAsset
}
func (tx *gameRow) Get(key string) ([]byte, error) {
	switch key {
	case "gameID":
		return []byte(tx.GameID), nil
	case "status":
		return []byte(fmt.Sprint(tx.Status)), nil
	}
	return nil, types.ErrNotFound
}

type gameAddrRow struct{ *protodata.GameAddr }

func (tx *gameAddrRow) CreateRow() *table.Row { return &table.Row{Data: &protodata.GameAddr{}} }
func (tx *gameAddrRow) SetPayload(data types.Message) error {
	if d, ok := data.(*protodata.GameAddr); ok {
		tx.GameAddr = d
		return nil
	}
	return types.ErrTypeAsset
}
func (tx *gameAddrRow) Get(key string) ([]byte, error) {
	switch key {
	case "gameID":
		return []byte(tx.GameID), nil
	case "addr":
		return []byte(tx.Addr), nil
	case "txhash":
		return []byte(tx.Txhash), nil
	}
	return nil, types.ErrNotFound
}

type leftRef struct{ gid, addr string }

type jenv struct {
	ldb     dbm.DB
	left    *table.Table
	right   *table.Table
	join    *table.JoinTable
	rref    map[string]int64
	lref    map[string]leftRef
	tainted bool
	fkMoved bool // since the reset: a left row was rewritten with another gameID (foreign key change)
	// since the reset: one save carried both a status change of a game and the deletion of a left
	// row naming that game
	delUnderUpdate bool
	roundUpd       map[string]bool // games whose status changed since the last save
	roundDel       map[string]bool // games that lost a left row since the last save
}

var je = &jenv{}

func (j *jenv) pred(sig, detail string) {
	if j.tainted {
		return
	}
	j.tainted = true
	out.Pred(sig, detail)
}

func (j *jenv) reset() string {
	if j.ldb != nil {
		j.ldb.Close()
	}
	ldb, err := dbm.NewGoMemDB("c10j", "", 0)
	if err != nil {
		return "err:" + err.Error()
	}
	j.ldb = ldb
	kvdb := dbm.NewKVDB(ldb)
	j.right, err = table.NewTable(&gameRow{Game: &protodata.Game{}}, kvdb,
		&table.Option{Prefix: "LODB", Name: "game", Primary: "gameID", Index: []string{"status"}})
	if err != nil {
		return "err:" + err.Error()
	}
	j.left, err = table.NewTable(&gameAddrRow{GameAddr: &protodata.GameAddr{}}, kvdb,
		&table.Option{Prefix: "LODB", Name: "gameaddr", Primary: "txhash", Index: []string{"gameID", "addr"}})
	if err != nil {
		return "err:" + err.Error()
	}
	j.join, err = table.NewJoinTable(j.left, j.right, []string{"addr#status", "#status"})
	if err != nil {
		return "err:" + err.Error()
	}
	j.rref = map[string]int64{}
	j.lref = map[string]leftRef{}
	j.tainted = false
	j.fkMoved = false
	j.delUnderUpdate = false
	j.roundUpd = map[string]bool{}
	j.roundDel = map[string]bool{}
	return "ok"
}

func (j *jenv) write(t *table.Table, kind string, pk []byte, msg types.Message) string {
	return gen.Guard(func() string {
		switch kind {
		case "add":
			return errName(t.Add(msg))
		case "replace":
			return errName(t.Replace(msg))
		case "update":
			return errName(t.Update(pk, msg))
		default:
			return errName(t.Del(pk))
		}
	})
}

func (j *jenv) opRight(line, kind, gid string, status int64) {
	res := j.write(j.right, kind, []byte(gid), &protodata.Game{GameID: gid, Status: status})
	out.Op(line, res)
	out.Stat("join_right_"+kind+"_"+statName(res), 1)
	_, present := j.rref[gid]
	want := "ok"
	switch kind {
	case "add":
		if present {
			want = "dup"
		}
	case "update", "del":
		if !present {
			want = "notfound"
		}
	}
	if res != want {
		j.pred("C10|JoinTable.right."+kind+"|"+statName(res)+"-instead-of-"+want, line)
		return
	}
	if res == "ok" {
		if kind == "del" {
			delete(j.rref, gid)
		} else {
			if old, ok := j.rref[gid]; ok && old != status {
				j.roundUpd[gid] = true
			}
			j.rref[gid] = status
		}
	}
}

func (j *jenv) opLeft(line, kind, tx, gid, addr string) {
	res := j.write(j.left, kind, []byte(tx), &protodata.GameAddr{Txhash: tx, GameID: gid, Addr: addr})
	out.Op(line, res)
	out.Stat("join_left_"+kind+"_"+statName(res), 1)
	_, present := j.lref[tx]
	want := "ok"
	switch kind {
	case "add":
		if present {
			want = "dup"
		}
	case "update", "del":
		if !present {
			want = "notfound"
		}
	}
	if res != want {
		j.pred("C10|JoinTable.left."+kind+"|"+statName(res)+"-instead-of-"+want, line)
		return
	}
	if res == "ok" {
		if kind == "del" {
			j.roundDel[j.lref[tx].gid] = true
			delete(j.lref, tx)
		} else {
			if old, ok := j.lref[tx]; ok && old.gid != gid {
				j.fkMoved = true
			}
			j.lref[tx] = leftRef{gid, addr}
		}
	}
}

func (j *jenv) opSave(line string) {
	res := gen.Guard(func() string {
		kvs, err := j.join.Save()
		if err != nil {
			return errName(err)
		}
		var parts []string
		for _, kv := range kvs {
			if kv.Value == nil {
				j.ldb.Delete(kv.Key)
				parts = append(parts, hx(kv.Key)+":D")
			} else {
				j.ldb.Set(kv.Key, kv.Value)
				parts = append(parts, hx(kv.Key)+":S")
			}
		}
		// sorted by key: the order of the list depends on Go map iteration (mergeCache)
		sort.Strings(parts)
		for i, p := range parts {
			k := strings.Split(p, ":")
			parts[i] = k[1] + ":" + k[0]
		}
		if len(parts) == 0 {
			return "ok -"
		}
		return "ok " + strings.Join(parts, ",")
	})
	out.Op(line, res)
	out.Stat("join_save", 1)
	for g := range j.roundUpd {
		if j.roundDel[g] {
			j.delUnderUpdate = true
		}
	}
	j.roundUpd = map[string]bool{}
	j.roundDel = map[string]bool{}
	if !strings.HasPrefix(res, "ok") {
		j.pred("C10|JoinTable.Save|"+statName(res), line+" -> "+res)
	}
}

func joinRowString(r *table.Row) string {
	jd := r.Data.(*table.JoinData)
	l := jd.Left.(*protodata.GameAddr)
	g := jd.Right.(*protodata.Game)
	return fmt.Sprintf("%s/%s/%s/%s=%d", l.Txhash, l.GameID, l.Addr, g.GameID, g.Status)
}

// jlist: every joined row with (addr, status) resp. status, as a sorted set.
func (j *jenv) opList(line, index, addr string, status int64) {
	var got []string
	res := gen.Guard(func() string {
		var lk []byte
		if index == "addr#status" {
			lk = []byte(addr)
		}
		rows, err := j.join.ListIndex(index, table.JoinKey(lk, []byte(fmt.Sprint(status))), nil, 0, 1)
		if err != nil {
			return errName(err)
		}
		for _, r := range rows {
			got = append(got, joinRowString(r))
		}
		listed := strings.Join(got, ",") // listing order (key order) is what the model is compared on
		sort.Strings(got)
		return listed
	})
	sortedRes := res
	if len(got) > 0 {
		sortedRes = strings.Join(got, ",")
	}
	out.Op(line, res)
	out.Stat("join_list", 1)
	if j.tainted {
		return
	}
	var exp []string
	for tx, l := range j.lref {
		st, ok := j.rref[l.gid]
		if !ok || st != status {
			continue
		}
		if index == "addr#status" && l.addr != addr {
			continue
		}
		exp = append(exp, fmt.Sprintf("%s/%s/%s/%s=%d", tx, l.gid, l.addr, l.gid, st))
	}
	sort.Strings(exp)
	want := strings.Join(exp, ",")
	if len(exp) == 0 {
		want = "notfound"
	}
	if sortedRes != want {
		kind := "wrong-rows"
		if res == "notfound" || strings.HasPrefix(res, "err") || res == "decode" {
			kind = "error-instead-of-rows"
		} else if want == "notfound" {
			kind = "stale-rows"
		}
		cause := "plain-history"
		if j.fkMoved {
			cause = "after-left-row-foreign-key-change"
		} else if j.delUnderUpdate {
			cause = "after-right-update-and-left-del-in-one-save"
		}
		j.pred("C10|JoinTable.ListIndex|rows-not-exact|"+cause, fmt.Sprintf("%s (%s) -> %s want %s", line, kind, res, want))
		return
	}
	out.Stat("join_list_checked", 1)
	if len(exp) > 0 {
		out.Stat("join_list_checked_nonempty", 1)
	}
}

func jexec(line string) bool {
	f := strings.Fields(line)
	if len(f) == 0 || !strings.HasPrefix(f[0], "j") {
		return false
	}
	bad := func() bool { out.Op(line, "bad-op"); return true }
	if f[0] != "jreset" && je.ldb == nil {
		return bad()
	}
	switch f[0] {
	case "jreset":
		out.Op(line, je.reset())
	case "jr":
		if len(f) != 4 {
			return bad()
		}
		st, err := strconv.ParseInt(f[3], 10, 64)
		if err != nil {
			return bad()
		}
		je.opRight(line, f[1], f[2], st)
	case "jl":
		if len(f) != 5 {
			return bad()
		}
		je.opLeft(line, f[1], f[2], f[3], f[4])
	case "jsave":
		je.opSave(line)
	case "jlist":
		if len(f) != 4 {
			return bad()
		}
		st, err := strconv.ParseInt(f[3], 10, 64)
		if err != nil {
			return bad()
		}
		je.opList(line, f[1], f[2], st)
	default:
		return bad()
	}
	return true
}

var gids = []string{"g0", "g1", "g2"}
var txs = []string{"t0", "t1", "t2", "t3"}
var addrs = []string{"a0", "a1"}

func joinEpisode(r *gen.Rand, allowFkChange bool) {
	jexec("jreset")
	kinds := []string{"replace", "add", "update", "del"}
	for round := 0; round < r.Range(2, 6); round++ {
		// at most one operation per primary key and table between saves
		usedG := map[string]bool{}
		delG := map[string]bool{}
		for i := 0; i < r.Range(0, 2); i++ {
			g := gids[r.Intn(len(gids))]
			if usedG[g] {
				continue
			}
			usedG[g] = true
			kind := kinds[r.Pick(4, 2, 2, 1)]
			if kind == "del" {
				referenced := false
				for _, l := range je.lref {
					if l.gid == g {
						referenced = true
					}
				}
				if referenced {
					kind = "replace"
				} else {
					delG[g] = true
				}
			}
			jexec(fmt.Sprintf("jr %s %s %d", kind, g, r.Range(1, 3)))
		}
		usedT := map[string]bool{}
		for i := 0; i < r.Range(0, 3); i++ {
			tx := txs[r.Intn(len(txs))]
			if usedT[tx] {
				continue
			}
			usedT[tx] = true
			// a game that exists after the right operations of this round
			var live []string
			for g := range je.rref {
				if !delG[g] {
					live = append(live, g)
				}
			}
			sort.Strings(live)
			kind := kinds[r.Pick(4, 2, 2, 2)]
			if len(live) == 0 {
				kind = "del"
			}
			g := "g0"
			if len(live) > 0 {
				g = live[r.Intn(len(live))]
			}
			if old, ok := je.lref[tx]; ok && !allowFkChange {
				g = old.gid // keep the foreign key of an existing left row
			}
			jexec(fmt.Sprintf("jl %s %s %s %s", kind, tx, g, addrs[r.Intn(len(addrs))]))
		}
		jexec("jsave")
		for st := int64(1); st <= 3; st++ {
			jexec(fmt.Sprintf("jlist #status - %d", st))
			for _, a := range addrs {
				jexec(fmt.Sprintf("jlist addr#status %s %d", a, st))
			}
		}
	}
	out.Stat("join_episodes", 1)
}
