// h_c10 drives common/db/table (Table.Add/Replace/Update/Del/Save/GetData/ListIndex) with a
// small row type (primary key + two indexed fields + payload, carried by a types.Transaction)
// over goleveldb / memdb behind db.NewKVDB, on generated operation sequences with several
// operations per primary key between saves.
//
// The harness is an interpreter of op lines (corpus / replay files get the same predicates) plus
// a generator.  Lines (bytes are lower-case hex, "-" = empty/nil):
//
//	reset <level|mem>                          -> ok
//	add|replace|update <pk> <f1> <f2> <pay>    -> ok|dup|notfound|invalid|err:...
//	del <pk>                                   -> ok|notfound|err:...
//	save                                       -> S:<key>|D:<key>,...   (kv list returned by Save, in order; then written)
//	get <pk>                                   -> <pk>:<f1>:<f2>:<pay>|notfound|decode|err:...
//	listidx <f1|f2|primary> <prefix|-> <pk|-> <count> <0|1>  -> row,row,...|notfound|err:...
//	scan                                       -> every key of the table in the db: d:<pk> / i:<indexkey>=<pk>
//
// Reference: map pk -> row.  Predicates (C10) on the implementation:
//
//	Add fails exactly when the key is present; Update/Del fail exactly when it is absent;
//	after a save: GetData(pk) = reference row for every pk of the key space; the index region
//	holds exactly one entry per (index, present row) (none stale, none missing);
//	ListIndex(index, value) = present rows with that value in key order (also paged / reversed).
//
// After the first predicate failure of an episode the reference can no longer follow the
// implementation, so predicates are switched off until the next reset (the differential
// comparison with the model continues).
package main

import (
	"bytes"
	"encoding/hex"
	"fmt"
	"os"
	"path/filepath"
	"sort"
	"strconv"
	"strings"

	dbm "github.com/33cn/chain33/common/db"
	"github.com/33cn/chain33/common/db/table"
	"github.com/33cn/chain33/common/log/log15"
	"github.com/33cn/chain33/types"

	"verifharness/internal/gen"
)

var out = gen.NewOut()

// ---------------------------------------------------------------------------------- row type

type rowMeta struct{ tx *types.Transaction }

func (m *rowMeta) CreateRow() *table.Row { return &table.Row{Data: &types.Transaction{}} }

func (m *rowMeta) SetPayload(d types.Message) error {
	if tx, ok := d.(*types.Transaction); ok && tx != nil {
		m.tx = tx
		return nil
	}
	return types.ErrTypeAsset
}

func (m *rowMeta) Get(key string) ([]byte, error) {
	switch key {
	case "pk":
		return m.tx.Execer, nil
	case "f1":
		return m.tx.Header, nil
	case "f2":
		return m.tx.Next, nil
	}
	return nil, types.ErrNotFound
}

type row struct{ pk, f1, f2, pay []byte }

func nz(b []byte) []byte {
	if len(b) == 0 {
		return nil
	}
	return b
}

func (r row) msg() *types.Transaction {
	return &types.Transaction{Execer: nz(r.pk), Header: nz(r.f1), Next: nz(r.f2), Payload: nz(r.pay)}
}

func fromMsg(m types.Message) row {
	tx := m.(*types.Transaction)
	return row{tx.Execer, tx.Header, tx.Next, tx.Payload}
}

func (r row) String() string { return hx(r.pk) + ":" + hx(r.f1) + ":" + hx(r.f2) + ":" + hx(r.pay) }

func (r row) eq(o row) bool {
	return bytes.Equal(r.pk, o.pk) && bytes.Equal(r.f1, o.f1) && bytes.Equal(r.f2, o.f2) && bytes.Equal(r.pay, o.pay)
}

func (r row) field(name string) []byte {
	if name == "f1" {
		return r.f1
	}
	return r.f2
}

// ---------------------------------------------------------------------------------- state

const tablePrefix = "LODB"
const tableName = "t"

var dataPrefix = []byte(tablePrefix + "-" + tableName + "-d-")
var metaPrefix = []byte(tablePrefix + "-" + tableName + "-m-")
var allPrefix = []byte(tablePrefix + "-" + tableName + "-")

type pkHist struct {
	presentAtSave bool
	ops           []string // impl-successful op kinds since the last save
}

type env struct {
	backend string
	dir     string
	ldb     dbm.DB
	kvdb    dbm.KVDB
	tab     *table.Table
	ndb     int
	// reference
	ref     map[string]row
	hist    map[string]*pkHist
	tainted bool // a predicate failed in this episode
	loose   bool // a key/value outside the fixed-width, separator-free shape was used
}

var e = &env{}

func tmpBase() string {
	if d := os.Getenv("VERIF_TMP"); d != "" {
		return d
	}
	return os.TempDir()
}

func (e *env) close() {
	if e.ldb != nil {
		e.ldb.Close()
		e.ldb = nil
	}
	if e.dir != "" {
		os.RemoveAll(e.dir)
		e.dir = ""
	}
}

func (e *env) reset(backend string) string {
	e.close()
	e.backend = backend
	e.ndb++
	switch backend {
	case "level":
		e.dir = filepath.Join(tmpBase(), fmt.Sprintf("c10db%d", e.ndb))
		os.RemoveAll(e.dir)
		ldb, err := dbm.NewGoLevelDB("c10", e.dir, 4)
		if err != nil {
			return "err:" + err.Error()
		}
		e.ldb = ldb
	case "mem":
		ldb, err := dbm.NewGoMemDB("c10", "", 0)
		if err != nil {
			return "err:" + err.Error()
		}
		e.ldb = ldb
	default:
		return "bad-op"
	}
	e.kvdb = dbm.NewKVDB(e.ldb)
	t, err := table.NewTable(&rowMeta{tx: &types.Transaction{}}, e.kvdb, &table.Option{
		Prefix: tablePrefix, Name: tableName, Primary: "pk", Index: []string{"f1", "f2"}})
	if err != nil {
		return "err:" + err.Error()
	}
	e.tab = t
	e.ref = map[string]row{}
	e.hist = map[string]*pkHist{}
	e.tainted = false
	e.loose = false
	return "ok"
}

func errName(err error) string {
	switch err {
	case nil:
		return "ok"
	case types.ErrNotFound:
		return "notfound"
	case table.ErrDupPrimaryKey:
		return "dup"
	case types.ErrInvalidParam:
		return "invalid"
	case types.ErrDecode:
		return "decode"
	}
	return "err:" + strings.ReplaceAll(err.Error(), "\t", " ")
}

func hx(b []byte) string {
	if len(b) == 0 {
		return "-"
	}
	return hex.EncodeToString(b)
}

func unhx(s string) ([]byte, bool) {
	if s == "-" {
		return nil, true
	}
	b, err := hex.DecodeString(s)
	if err != nil || strings.ToLower(s) != s {
		return nil, false
	}
	return b, true
}

func (e *env) pred(sig, detail string) {
	if e.tainted {
		return
	}
	e.tainted = true
	out.Pred(sig, detail)
}

func (e *env) h(pk string) *pkHist {
	if e.hist[pk] == nil {
		e.hist[pk] = &pkHist{}
	}
	return e.hist[pk]
}

// cause: what the buffered operations on pk since the last save look like.
func (e *env) cause(pk string) string { return e.causeFor(pk, "") }

// causeFor: prefer names the pattern that explains the observation kind when both are present
// (a stale entry comes from a del after a buffered update, a missing one from a write after a
// buffered del).
func (e *env) causeFor(pk, prefer string) string {
	h := e.h(pk)
	if !h.presentAtSave {
		return "row-absent-at-last-save:" + strings.Join(compress(h.ops), ",")
	}
	seenDel, seenWrite := false, false
	writeAfterDel, delAfterWrite := false, false
	for _, op := range h.ops {
		if op == "del" {
			if seenWrite {
				delAfterWrite = true
			}
			seenDel = true
		} else {
			if seenDel {
				writeAfterDel = true
			}
			seenWrite = true
		}
	}
	switch {
	case prefer == "stale" && delAfterWrite:
		return "del-after-buffered-update"
	case writeAfterDel:
		return "write-after-buffered-del"
	case delAfterWrite:
		return "del-after-buffered-update"
	case seenDel:
		return "after-buffered-del"
	}
	return "row-present-at-last-save:" + strings.Join(compress(h.ops), ",")
}

func compress(ops []string) []string {
	var o []string
	for _, x := range ops {
		if len(o) == 0 || o[len(o)-1] != x {
			o = append(o, x)
		}
	}
	return o
}

// the cause as seen by an operation that is about to run (history before it)
func (e *env) causeBefore(pk string) string {
	h := e.h(pk)
	if h.presentAtSave {
		for _, op := range h.ops {
			if op == "del" {
				return "after-buffered-del"
			}
		}
	}
	return e.cause(pk)
}

func (e *env) histLine(pk string) string {
	h := e.h(pk)
	return fmt.Sprintf("pk=%s present-at-last-save=%v ops-since=%v", hx([]byte(pk)), h.presentAtSave, h.ops)
}

// ---------------------------------------------------------------------------------- ops

func (e *env) shape(r row) {
	if len(r.pk) != 2 || len(r.f1) != 2 || len(r.f2) != 2 ||
		bytes.ContainsAny(r.pk, "-") || bytes.ContainsAny(r.f1, "-") || bytes.ContainsAny(r.f2, "-") {
		e.loose = true
	}
}

func (e *env) opWrite(line, kind string, r row) {
	e.shape(r)
	res := gen.Guard(func() string {
		switch kind {
		case "add":
			return errName(e.tab.Add(r.msg()))
		case "replace":
			return errName(e.tab.Replace(r.msg()))
		default:
			return errName(e.tab.Update(r.pk, r.msg()))
		}
	})
	out.Op(line, res)
	out.Stat(kind+"_"+statName(res), 1)
	pk := string(r.pk)
	_, present := e.ref[pk]
	detail := line + " -> " + res + " ; " + e.histLine(pk)
	switch kind {
	case "add":
		if present && res != "dup" {
			e.pred("C10|Table.Add|"+res+"-on-present-key|"+e.causeBefore(pk), detail)
		} else if !present && res != "ok" {
			e.pred("C10|Table.Add|"+statName(res)+"-error-on-absent-key|"+e.causeBefore(pk), detail)
		}
		if !present {
			e.ref[pk] = r
		}
	case "replace":
		if res != "ok" {
			e.pred("C10|Table.Replace|"+statName(res)+"-error|"+e.causeBefore(pk), detail)
		}
		e.ref[pk] = r
	case "update":
		if present && res != "ok" {
			e.pred("C10|Table.Update|"+statName(res)+"-error-on-present-key|"+e.causeBefore(pk), detail)
		} else if !present && res != "notfound" {
			e.pred("C10|Table.Update|"+statName(res)+"-on-absent-key|"+e.causeBefore(pk), detail)
		}
		if present {
			e.ref[pk] = r
		}
	}
	if res == "ok" {
		e.h(pk).ops = append(e.h(pk).ops, kind)
	}
}

func (e *env) opDel(line string, pkb []byte) {
	res := gen.Guard(func() string { return errName(e.tab.Del(pkb)) })
	out.Op(line, res)
	out.Stat("del_"+statName(res), 1)
	pk := string(pkb)
	_, present := e.ref[pk]
	detail := line + " -> " + res + " ; " + e.histLine(pk)
	if present && res != "ok" {
		e.pred("C10|Table.Del|"+statName(res)+"-error-on-present-key|"+e.causeBefore(pk), detail)
	} else if !present && res != "notfound" {
		e.pred("C10|Table.Del|"+statName(res)+"-on-absent-key|"+e.causeBefore(pk), detail)
	}
	delete(e.ref, pk)
	if res == "ok" {
		e.h(pk).ops = append(e.h(pk).ops, "del")
	}
}

func (e *env) opSave(line string) {
	var kvs []*types.KeyValue
	res := gen.Guard(func() string {
		var err error
		kvs, err = e.tab.Save()
		if err != nil {
			return errName(err)
		}
		var parts []string
		for _, kv := range kvs {
			if kv.Value == nil {
				parts = append(parts, "D:"+hx(kv.Key))
			} else {
				parts = append(parts, "S:"+hx(kv.Key))
			}
		}
		if len(parts) == 0 {
			return "-"
		}
		return strings.Join(parts, ",")
	})
	out.Op(line, res)
	out.Stat("save", 1)
	if res == "panic" || strings.HasPrefix(res, "err:") {
		e.pred("C10|Table.Save|error-or-panic", line+" -> "+res)
		return
	}
	// util.SaveKVList semantics: nil value = delete
	for _, kv := range kvs {
		if kv.Value == nil {
			e.ldb.Delete(kv.Key)
		} else {
			e.ldb.Set(kv.Key, kv.Value)
		}
	}
	out.Stat("save_kvs", int64(len(kvs)))
	e.checkState(line)
	for pk := range e.hist {
		delete(e.hist, pk)
	}
	for pk := range e.ref {
		e.h(pk).presentAtSave = true
	}
}

// after a save: rows and the raw index region against the reference.
func (e *env) checkState(line string) {
	if e.tainted {
		return
	}
	// every pk the episode touched or holds
	pks := map[string]bool{}
	for pk := range e.ref {
		pks[pk] = true
	}
	for pk := range e.hist {
		pks[pk] = true
	}
	var order []string
	for pk := range pks {
		order = append(order, pk)
	}
	sort.Strings(order)
	for _, pk := range order {
		want, present := e.ref[pk]
		r, err := e.tab.GetData([]byte(pk))
		switch {
		case present && err != nil:
			e.pred("C10|Save|row-missing|"+e.cause(pk), fmt.Sprintf("%s GetData -> %s want %s ; %s", line, errName(err), want, e.histLine(pk)))
		case present && !fromMsg(r.Data).eq(want):
			e.pred("C10|Save|row-not-latest|"+e.cause(pk), fmt.Sprintf("%s GetData -> %s want %s ; %s", line, fromMsg(r.Data), want, e.histLine(pk)))
		case !present && err == nil:
			e.pred("C10|Save|deleted-row-still-readable|"+e.cause(pk), fmt.Sprintf("%s GetData -> %s ; %s", line, fromMsg(r.Data), e.histLine(pk)))
		case !present && err != types.ErrNotFound:
			e.pred("C10|Save|read-error|"+e.cause(pk), fmt.Sprintf("%s GetData -> %s ; %s", line, errName(err), e.histLine(pk)))
		}
		if e.tainted {
			return
		}
	}
	if e.loose {
		out.Stat("index_checks_skipped_loose_shape", 1)
		return
	}
	// raw index region: exactly one entry per (index, present row)
	want := map[string]string{} // index key -> pk
	for pk, r := range e.ref {
		for _, name := range []string{"f1", "f2"} {
			want[string(indexKey(name, r.field(name), r.pk))] = pk
		}
	}
	got := map[string]string{}
	it := e.ldb.Iterator(metaPrefix, nil, false)
	for it.Rewind(); it.Valid(); it.Next() {
		got[string(it.Key())] = string(it.Value())
	}
	it.Close()
	var gk []string
	for k := range got {
		gk = append(gk, k)
	}
	sort.Strings(gk)
	for _, k := range gk {
		if _, ok := want[k]; !ok {
			pk := got[k]
			e.pred("C10|Save|index-entry-stale|"+e.causeFor(pk, "stale"), fmt.Sprintf("%s stale index entry %q -> %q ; %s", line, k, pk, e.histLine(pk)))
			return
		}
	}
	var wk []string
	for k := range want {
		wk = append(wk, k)
	}
	sort.Strings(wk)
	for _, k := range wk {
		if v, ok := got[k]; !ok || v != want[k] {
			pk := want[k]
			e.pred("C10|Save|index-entry-missing|"+e.cause(pk), fmt.Sprintf("%s missing index entry %q ; %s", line, k, e.histLine(pk)))
			return
		}
	}
	out.Stat("state_checks_passed", 1)
}

func indexKey(name string, val, pk []byte) []byte {
	k := append([]byte{}, metaPrefix...)
	k = append(k, []byte(name+"-")...)
	k = append(k, val...)
	k = append(k, '-')
	k = append(k, pk...)
	return k
}

func (e *env) opGet(line string, pk []byte) {
	res := gen.Guard(func() string {
		r, err := e.tab.GetData(pk)
		if err != nil {
			return errName(err)
		}
		return fromMsg(r.Data).String()
	})
	out.Op(line, res)
	out.Stat("get", 1)
}

func (e *env) opList(line, name string, prefix, pk []byte, count, dir int32) {
	var rows []row
	res := gen.Guard(func() string {
		rs, err := e.tab.ListIndex(name, prefix, pk, count, dir)
		if err != nil {
			return errName(err)
		}
		var parts []string
		for _, r := range rs {
			rows = append(rows, fromMsg(r.Data))
			parts = append(parts, fromMsg(r.Data).String())
		}
		return strings.Join(parts, ",")
	})
	out.Op(line, res)
	out.Stat("listidx", 1)
	if e.tainted || e.loose || e.dirty() {
		return
	}
	if name != "primary" && len(prefix) != 0 && (len(prefix) != 2 || bytes.ContainsAny(prefix, "-")) {
		// a query value of another width is a prefix scan by design; only fixed-width lookups are
		// required to be equality lookups
		out.Stat("listidx_prefix_queries_not_judged", 1)
		return
	}
	// predicate: exactly the present rows whose indexed field matches, in key order
	var exp []row
	for _, r := range e.ref {
		if name == "primary" {
			if bytes.HasPrefix(r.pk, prefix) {
				exp = append(exp, r)
			}
		} else if len(prefix) == 0 || bytes.Equal(r.field(name), prefix) {
			exp = append(exp, r)
		}
	}
	keyOf := func(r row) string {
		if name == "primary" {
			return string(r.pk)
		}
		return string(r.field(name)) + "-" + string(r.pk)
	}
	sort.Slice(exp, func(i, j int) bool { return keyOf(exp[i]) < keyOf(exp[j]) })
	if dir == 0 {
		for i, j := 0, len(exp)-1; i < j; i, j = i+1, j-1 {
			exp[i], exp[j] = exp[j], exp[i]
		}
	}
	if len(pk) > 0 {
		start, ok := e.ref[string(pk)]
		if !ok {
			if name != "primary" {
				if res != "notfound" {
					e.pred("C10|ListIndex|start-row-absent-but-no-notfound", line+" -> "+res)
				}
				return
			}
			start = row{pk: pk}
		}
		if name != "primary" && len(prefix) > 0 && !bytes.Equal(start.field(name), prefix) {
			if res != "notfound" {
				e.pred("C10|ListIndex|start-row-outside-prefix-but-no-notfound", line+" -> "+res)
			}
			return
		}
		sk := keyOf(start)
		var rest []row
		for _, r := range exp {
			if (dir == 1 && keyOf(r) > sk) || (dir == 0 && keyOf(r) < sk) {
				rest = append(rest, r)
			}
		}
		exp = rest
	}
	if count > 0 && int(count) < len(exp) {
		exp = exp[:count]
	}
	var parts []string
	for _, r := range exp {
		parts = append(parts, r.String())
	}
	want := strings.Join(parts, ",")
	if len(exp) == 0 {
		want = "notfound"
	}
	if res != want {
		kind := "wrong-rows"
		if res == "notfound" || strings.HasPrefix(res, "err") || res == "decode" {
			kind = "error-instead-of-rows"
		}
		e.pred("C10|ListIndex|"+kind, fmt.Sprintf("%s -> %s want %s", line, res, want))
		return
	}
	out.Stat("listidx_checked", 1)
	if len(exp) == 0 {
		out.Stat("listidx_checked_empty", 1)
	}
}

// dirty: operations are buffered (listing reads the db only; the property speaks about saved state)
func (e *env) dirty() bool {
	for _, h := range e.hist {
		if len(h.ops) > 0 {
			return true
		}
	}
	return false
}

func (e *env) opScan(line string) {
	res := gen.Guard(func() string {
		var parts []string
		it := e.ldb.Iterator(allPrefix, nil, false)
		defer it.Close()
		for it.Rewind(); it.Valid(); it.Next() {
			k := it.Key()
			switch {
			case bytes.HasPrefix(k, dataPrefix):
				parts = append(parts, "d:"+hx(k[len(dataPrefix):]))
			case bytes.HasPrefix(k, metaPrefix):
				parts = append(parts, "i:"+hx(k[len(metaPrefix):])+"="+hx(it.Value()))
			default:
				parts = append(parts, "o:"+hx(k))
			}
		}
		if len(parts) == 0 {
			return "-"
		}
		return strings.Join(parts, ",")
	})
	out.Op(line, res)
	out.Stat("scan", 1)
}

func statName(res string) string {
	if strings.HasPrefix(res, "err:") {
		return "err"
	}
	return res
}

// ---------------------------------------------------------------------------------- interpreter

func exec(line string) {
	if jexec(line) {
		return
	}
	f := strings.Fields(line)
	bad := func() { out.Op(line, "bad-op") }
	if len(f) == 0 {
		bad()
		return
	}
	if f[0] != "reset" && e.ldb == nil {
		bad()
		return
	}
	switch f[0] {
	case "reset":
		if len(f) != 2 {
			bad()
			return
		}
		out.Op(line, e.reset(f[1]))
	case "add", "replace", "update":
		if len(f) != 5 {
			bad()
			return
		}
		pk, ok1 := unhx(f[1])
		f1, ok2 := unhx(f[2])
		f2, ok3 := unhx(f[3])
		pay, ok4 := unhx(f[4])
		if !ok1 || !ok2 || !ok3 || !ok4 || len(pk) == 0 {
			bad()
			return
		}
		e.opWrite(line, f[0], row{pk, f1, f2, pay})
	case "del":
		if len(f) != 2 {
			bad()
			return
		}
		pk, ok := unhx(f[1])
		if !ok || len(pk) == 0 {
			bad()
			return
		}
		e.opDel(line, pk)
	case "save":
		if len(f) != 1 {
			bad()
			return
		}
		e.opSave(line)
	case "get":
		if len(f) != 2 {
			bad()
			return
		}
		pk, ok := unhx(f[1])
		if !ok || len(pk) == 0 {
			bad()
			return
		}
		e.opGet(line, pk)
	case "listidx":
		if len(f) != 6 || (f[1] != "f1" && f[1] != "f2" && f[1] != "primary") {
			bad()
			return
		}
		prefix, ok1 := unhx(f[2])
		pk, ok2 := unhx(f[3])
		count, err1 := strconv.ParseUint(f[4], 10, 16)
		if !ok1 || !ok2 || err1 != nil || (f[5] != "0" && f[5] != "1") || strconv.FormatUint(count, 10) != f[4] {
			bad()
			return
		}
		dir := int32(0)
		if f[5] == "1" {
			dir = 1
		}
		e.opList(line, f[1], prefix, pk, int32(count), dir)
	case "scan":
		if len(f) != 1 {
			bad()
			return
		}
		e.opScan(line)
	default:
		bad()
	}
}

// ---------------------------------------------------------------------------------- generator

var pkPool = []string{"p0", "p1", "p2", "p3"}
var valPool = []string{"v0", "v1", "v2"}

// shapes outside the fixed-width separator-free hypothesis (differential only for the indexes)
var loosePk = []string{"p0", "p-", "p0-x", "p", "q-1"}
var looseVal = []string{"v0", "v", "v0-p", "-", "", "v-0"}

type genr struct {
	r     *gen.Rand
	loose bool
	n     int
	prev  map[string]string // last written fields per pk (to rewrite identical data)
}

func (g *genr) pk() string {
	if g.loose {
		return loosePk[g.r.Intn(len(loosePk))]
	}
	return pkPool[g.r.Intn(len(pkPool))]
}

func (g *genr) val() string {
	if g.loose {
		return looseVal[g.r.Intn(len(looseVal))]
	}
	return valPool[g.r.Intn(len(valPool))]
}

func (g *genr) write(kind, pk string) {
	g.n++
	fields := fmt.Sprintf("%s %s %s", hx([]byte(g.val())), hx([]byte(g.val())), hx([]byte(fmt.Sprintf("d%d", g.n%7))))
	if p, ok := g.prev[pk]; ok && g.r.Chance(1, 4) {
		fields = p // identical data: updateRow emits nothing
	}
	g.prev[pk] = fields
	exec(fmt.Sprintf("%s %s %s", kind, hx([]byte(pk)), fields))
}

func (g *genr) observe() {
	pool := pkPool
	vals := valPool
	if g.loose {
		pool, vals = loosePk, looseVal
	}
	for _, pk := range pool {
		exec("get " + hx([]byte(pk)))
	}
	for _, name := range []string{"f1", "f2"} {
		for _, v := range vals {
			exec(fmt.Sprintf("listidx %s %s - 0 1", name, hx([]byte(v))))
		}
		exec(fmt.Sprintf("listidx %s - - 0 %d", name, g.r.Intn(2)))
		// paged / reversed
		exec(fmt.Sprintf("listidx %s %s %s %d %d", name, hx([]byte(vals[g.r.Intn(len(vals))])), hx([]byte(pool[g.r.Intn(len(pool))])), g.r.Intn(3), g.r.Intn(2)))
		exec(fmt.Sprintf("listidx %s - %s %d %d", name, hx([]byte(pool[g.r.Intn(len(pool))])), g.r.Intn(3), g.r.Intn(2)))
	}
	exec(fmt.Sprintf("listidx primary - - 0 %d", g.r.Intn(2)))
	exec(fmt.Sprintf("listidx primary %s %s %d %d", hx([]byte("p")), hx([]byte(pool[g.r.Intn(len(pool))])), g.r.Intn(3), g.r.Intn(2)))
	exec("scan")
}

// mode 0: at most one operation per key between saves; 1: several per key; 2: focused on one key
func episode(r *gen.Rand, backend string, mode int, loose bool) {
	g := &genr{r: r, loose: loose, prev: map[string]string{}}
	exec("reset " + backend)
	rounds := r.Range(2, 5)
	for round := 0; round < rounds; round++ {
		touched := map[string]bool{}
		nops := r.Range(1, 6)
		focus := g.pk()
		for i := 0; i < nops; i++ {
			pk := g.pk()
			if mode == 2 && r.Chance(3, 4) {
				pk = focus
			}
			if mode == 0 {
				if touched[pk] {
					continue
				}
				touched[pk] = true
			}
			switch r.Pick(3, 3, 3, 3) {
			case 0:
				g.write("add", pk)
			case 1:
				g.write("replace", pk)
			case 2:
				g.write("update", pk)
			default:
				exec("del " + hx([]byte(pk)))
			}
			if r.Chance(1, 10) {
				exec("get " + hx([]byte(pk)))
			}
		}
		exec("save")
		g.observe()
	}
	out.Stat("episodes", 1)
	out.Stat(fmt.Sprintf("episodes_mode%d", mode), 1)
	if loose {
		out.Stat("episodes_loose_shapes", 1)
	}
}

func main() {
	log15.Root().SetHandler(log15.DiscardHandler()) // chain33 logs go to stdout by default
	defer func() {
		e.close()
		out.Flush()
	}()
	if lines := gen.ReplayLines(); lines != nil {
		for _, l := range lines {
			exec(l)
		}
		return
	}
	r := gen.New(gen.Seed())
	if os.Getenv("VERIF_C10_MODE") == "join" {
		for i := 0; i < gen.Scale(600, 12000); i++ {
			joinEpisode(r, i%4 == 3)
		}
		out.Sample(fmt.Sprintf("join tables: left gameaddr(txhash|gameID,addr) %v, right game(gameID|status) %v, indexes addr#status, #status", txs, gids))
		return
	}
	n := gen.Scale(900, 12000)
	for i := 0; i < n; i++ {
		backend := "mem"
		if i%10 == 0 {
			backend = "level"
		}
		episode(r, backend, i%3, i%10 == 9)
	}
	out.Sample(fmt.Sprintf("key space %v, index values %v, 2 indexes f1/f2", pkPool, valPool))
}
