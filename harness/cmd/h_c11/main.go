// h_c11 executes generated blocks of synthetic-contract transactions through the real executor
// module (EventExecTxList on a non-mining testnode: real StateDB over the mavl store, real
// executor.LocalDB over the blockchain module's layered local store) and prints, per block,
//
//	blk <flags5> b<base> <addrs> <store> <main> <unit>…   ->   receipts | per-tx observations
//
// which the Lean driver drv_c11 must reproduce from the model.  Property predicate (C11), evaluated
// on the implementation only: for every failed unit u of a block A, the block A[u := fee-only] is
// executed as well and every later transaction must produce the same receipt and observe the same
// state/local reads; the failed unit's own receipt KVs must be the fee KV only.
package main

import (
	"fmt"
	"os"
	"strings"

	"github.com/33cn/chain33/common/crypto"
	drivers "github.com/33cn/chain33/system/dapp"
	"github.com/33cn/chain33/types"
	"github.com/33cn/chain33/util"

	"verifharness/internal/gen"
	"verifharness/internal/vfexec"
)

var out = gen.NewOut()

const fee = 1000000

type sender struct {
	priv crypto.PrivKey
	addr string
	key  []byte
}

type base struct {
	block    *types.Block
	storeTok string
}

type world struct {
	n        *vfexec.Node
	senders  []sender
	bases    []base
	addrsTok string
	stateKs  [][]byte
	nonce    int64
}

// executors a generated transaction may name
var execers = []string{"vfa", "vfb", "vfc", "vfd", "user.vfa.x1", "user.vfb.y", "user.zzz", "vfz", "user.p.x.vfa"}
var execW = []int{22, 34, 8, 12, 6, 8, 4, 3, 3}

func realOf(e string) string { return string(types.GetRealExecName([]byte(e))) }

func sameTime(e string) bool { r := realOf(e); return (r == "vfb" || r == "vfd") && !strings.HasPrefix(e, "user.p.") }

func (w *world) ownKeys(e string) [][]byte {
	var ks [][]byte
	for i := 0; i < 3; i++ {
		ks = append(ks, []byte(fmt.Sprintf("mavl-%s-k%d", e, i)))
	}
	return ks
}

func (w *world) depositKey(owner string, e string) []byte {
	return []byte("mavl-" + owner + "-exec-" + drivers.ExecAddress(e) + ":" + w.senders[0].addr)
}

func (w *world) buildUniverse() {
	seen := map[string]bool{}
	add := func(k []byte) {
		if !seen[string(k)] {
			seen[string(k)] = true
			w.stateKs = append(w.stateKs, k)
		}
	}
	for _, e := range execers[:6] {
		for _, k := range w.ownKeys(e) {
			add(k)
		}
		add(w.depositKey("coins-bty", e))
		add(w.depositKey("vfc-tok", e))
	}
	add([]byte("mavl-vfc-fr-k0"))
	add([]byte("mavl-vfd-fr-k0"))
	add([]byte("mavl-vfc-fr-k1"))
	add([]byte("nodash"))
	add([]byte("mavl-nodash"))
	add([]byte("mavlx-vfa-k0"))
	for _, s := range w.senders {
		add(s.key)
	}
}

func (w *world) storeToken(stateHash []byte) string {
	vals, err := w.n.Mock.GetAPI().StoreGet(&types.StoreGet{StateHash: stateHash, Keys: w.stateKs})
	if err != nil {
		panic(err)
	}
	var parts []string
	for i, v := range vals.Values {
		if len(v) == 0 {
			continue
		}
		parts = append(parts, vfexec.Hx(w.stateKs[i])+"="+vfexec.AcctRender(w.stateKs[i], v))
	}
	if len(parts) == 0 {
		return "-"
	}
	return strings.Join(parts, ",")
}

func op(kind, k, v string) vfexec.Op { return vfexec.Op{Kind: kind, K: []byte(k), V: []byte(v)} }

func (w *world) setup() {
	n := w.n
	w.senders = []sender{{priv: n.GenKey, addr: n.GenAddr, key: vfexec.AcctKey(n.GenAddr)}}
	for i := 1; i <= 2; i++ {
		p, a := vfexec.DetKey(i)
		w.senders = append(w.senders, sender{priv: p, addr: a, key: vfexec.AcctKey(a)})
	}
	w.buildUniverse()
	var ad []string
	names := append([]string{}, execers...)
	names = append(names, "coins", "none")
	for _, e := range names {
		ad = append(ad, vfexec.Hx([]byte(e))+"="+vfexec.Hx([]byte(drivers.ExecAddress(e))))
	}
	w.addrsTok = strings.Join(ad, ",")
	writes := [][][3]string{
		{},
		{{"vfa", "mavl-vfa-k0", "b0"}, {"vfa", "mavl-vfa-k1", "b1"}, {"vfb", "mavl-vfb-k0", "b2"}, {"vfc", "mavl-vfc-fr-k0", "b3"}},
		{{"vfa", "mavl-vfa-k2", "c0"}, {"vfb", "mavl-vfb-k1", "c1"}, {"vfb", "mavl-vfb-k2", "c2"}, {"vfd", "mavl-vfd-k0", "c3"},
			{"user.vfa.x1", "mavl-user.vfa.x1-k0", "c4"}, {"vfd", "mavl-vfd-fr-k0", "c5"}},
	}
	for _, ws := range writes {
		txs := []*types.Transaction{
			util.CreateCoinsTx(n.Cfg, n.GenKey, w.senders[1].addr, 2*fee+fee/2),
			util.CreateCoinsTx(n.Cfg, n.GenKey, w.senders[2].addr, fee/2),
		}
		for _, x := range ws {
			w.nonce++
			txs = append(txs, n.MakeTx(vfexec.TxSpec{Priv: n.GenKey, Execer: x[0], Fee: fee, Nonce: w.nonce,
				ExecOps: []vfexec.Op{op("S", x[1], x[2])}}))
		}
		b, det, err := n.CommitBlock(n.Genesis, txs)
		if err != nil {
			panic(err)
		}
		if len(det.Receipts) != len(txs) {
			panic("setup tx dropped")
		}
		for _, r := range det.Receipts {
			if r.Ty != types.ExecOk {
				panic("setup tx failed")
			}
		}
		w.bases = append(w.bases, base{block: b, storeTok: w.storeToken(b.StateHash)})
	}
}

// ---------------------------------------------------------------------------- running a block

type result struct {
	panicked bool
	receipts []*types.Receipt
	obs      [][]string
	line     string
}

func (w *world) senderOf(acctKey []byte) *sender {
	for i := range w.senders {
		if string(w.senders[i].key) == string(acctKey) {
			return &w.senders[i]
		}
	}
	return nil
}

// run executes units on base bi through the real executor and emits the op line.
func (w *world) run(bi int, units []vfexec.Unit) *result {
	var txs []*types.Transaction
	var toks []string
	for ui := range units {
		u := &units[ui]
		var specs []vfexec.TxSpec
		for _, t := range u.Txs {
			s := w.senderOf(t.AcctKey)
			if s == nil {
				return nil
			}
			w.nonce++
			specs = append(specs, vfexec.TxSpec{Priv: s.priv, Execer: string(t.Execer), Fee: fee, Nonce: w.nonce,
				ExecOps: t.ExecOps, LocOps: t.LocOps})
		}
		if u.Group {
			g, err := w.n.MakeGroup(specs)
			if err != nil {
				panic(err)
			}
			for i, tx := range g {
				u.Txs[i].Fee = tx.Fee
			}
			txs = append(txs, g...)
		} else {
			tx := w.n.MakeTx(specs[0])
			u.Txs[0].Fee = tx.Fee
			txs = append(txs, tx)
		}
		toks = append(toks, u.Token())
	}
	b := w.bases[bi]
	vfexec.ResetRecorder()
	rs, e := w.n.ExecTxList(b.block.StateHash, b.block.Height+1, b.block.BlockTime+1, txs)
	opline := fmt.Sprintf("blk 11111 b%d %s %s - %s", bi, w.addrsTok, b.storeTok, strings.Join(toks, " "))
	res := &result{}
	switch {
	case e == "blockpanic":
		res.panicked = true
		res.line = "blockpanic"
	case e != "":
		res.panicked = true
		res.line = e
	default:
		var rr, oo []string
		for i, r := range rs.Receipts {
			rr = append(rr, vfexec.RenderReceipt(r))
			o := vfexec.Observations(txs[i])
			res.obs = append(res.obs, o)
			oo = append(oo, "["+strings.Join(o, ",")+"]")
		}
		res.receipts = rs.Receipts
		res.line = strings.Join(rr, " ") + " | " + strings.Join(oo, " ")
	}
	out.Op(opline, res.line)
	return res
}

func feeOnlyUnit(u vfexec.Unit) vfexec.Unit {
	v := vfexec.Unit{Group: u.Group}
	for _, t := range u.Txs {
		t.ExecOps = []vfexec.Op{{Kind: "F"}}
		t.LocOps = nil
		v.Txs = append(v.Txs, t)
	}
	return v
}

func cloneUnits(us []vfexec.Unit) []vfexec.Unit {
	c := make([]vfexec.Unit, len(us))
	for i, u := range us {
		c[i] = vfexec.Unit{Group: u.Group, Txs: append([]vfexec.TxDesc(nil), u.Txs...)}
	}
	return c
}

func kvString(r *types.Receipt) string {
	var s []string
	for _, kv := range r.KV {
		s = append(s, vfexec.Hx(kv.Key)+"="+vfexec.AcctRender(kv.Key, kv.Value))
	}
	return strings.Join(s, ",")
}

func isLocalObsOp(o vfexec.Op) bool { return o.Kind == "LG" || o.Kind == "LL" || o.Kind == "LS" || o.Kind == "LH" }

// readKinds lists, for one transaction, whether its i-th observation is a local ("L") or state ("S") read.
func readKinds(t vfexec.TxDesc) []string {
	var ks []string
	for _, o := range t.ExecOps {
		if o.Kind == "F" || o.Kind == "P" {
			return ks
		}
		if isLocalObsOp(o) {
			ks = append(ks, "L")
		} else if o.Kind == "G" {
			ks = append(ks, "S")
		}
	}
	for _, o := range t.LocOps {
		if o.Kind == "F" || o.Kind == "P" {
			return ks
		}
		if isLocalObsOp(o) {
			ks = append(ks, "L")
		} else if o.Kind == "G" {
			ks = append(ks, "S")
		}
	}
	return ks
}

// check evaluates the C11 predicate for block `units` on base bi.
func (w *world) check(bi int, units []vfexec.Unit) {
	a := w.run(bi, cloneUnits(units))
	out.Stat("blocks", 1)
	if a == nil {
		out.Stat("bad_replay_line", 1)
		return
	}
	if a.panicked {
		out.Stat("block_"+a.line, 1)
		return
	}
	// flatten
	var flat []vfexec.TxDesc
	var unitOf []int
	for ui, u := range units {
		for range u.Txs {
			unitOf = append(unitOf, ui)
		}
		flat = append(flat, u.Txs...)
	}
	out.Stat("txs", int64(len(flat)))
	failedUnit := map[int]bool{}
	for i, r := range a.receipts {
		switch {
		case vfexec.Failed(r):
			failedUnit[unitOf[i]] = true
			for _, l := range r.Logs {
				if l.Ty == types.TyLogErr {
					out.Stat("fail_"+vfexec.ErrEnum(string(l.Log)), 1)
				}
			}
		case r.Ty == types.ExecOk:
			out.Stat("tx_ok", 1)
		default:
			out.Stat("tx_pack_none_driver", 1)
		}
	}
	for ui := range units {
		if !failedUnit[ui] {
			continue
		}
		site := "execTx"
		if units[ui].Group {
			site = "execTxGroup"
			out.Stat("failed_groups", 1)
		} else {
			out.Stat("failed_singles", 1)
		}
		bu := cloneUnits(units)
		bu[ui] = feeOnlyUnit(units[ui])
		b := w.run(bi, bu)
		out.Stat("fee_only_runs", 1)
		detail := fmt.Sprintf("base=%d unit=%d block=%s", bi, ui, tokens(units))
		if b.panicked {
			// the block without the failed unit's program panics although the original did not
			out.Pred("C11|"+site+"|fee-only-run-panics", detail)
			continue
		}
		for i := range flat {
			switch {
			case unitOf[i] < ui:
				continue
			case unitOf[i] == ui:
				// only the fee may remain of the failed unit
				if kvString(a.receipts[i]) != kvString(b.receipts[i]) || a.receipts[i].Ty != b.receipts[i].Ty {
					out.Pred("C11|"+site+"|failed-receipt-keeps-writes", detail+fmt.Sprintf(" tx=%d", i))
				}
			default:
				ra, rb := vfexec.RenderReceipt(a.receipts[i]), vfexec.RenderReceipt(b.receipts[i])
				if ra != rb {
					out.Pred("C11|"+site+"|later-receipt-differs", detail+fmt.Sprintf(" tx=%d a=%s b=%s", i, ra, rb))
					continue
				}
				oa, ob := a.obs[i], b.obs[i]
				kinds := readKinds(flat[i])
				if len(oa) != len(ob) {
					out.Pred("C11|"+site+"|later-read-count-differs", detail+fmt.Sprintf(" tx=%d", i))
					continue
				}
				for j := range oa {
					if oa[j] != ob[j] {
						kind := "local"
						if j < len(kinds) && kinds[j] == "S" {
							kind = "state"
						}
						out.Pred("C11|"+site+"|later-"+kind+"-read-differs",
							detail+fmt.Sprintf(" tx=%d read=%d with=%s feeonly=%s", i, j, oa[j], ob[j]))
						out.Stat("later_"+kind+"_read_differs", 1)
						break
					}
				}
			}
		}
	}
}

func tokens(us []vfexec.Unit) string {
	var s []string
	for _, u := range us {
		s = append(s, u.Token())
	}
	return strings.Join(s, " ")
}

// ---------------------------------------------------------------------------- generation

type genr struct {
	w   *world
	r   *gen.Rand
	val int
}

func (g *genr) value() []byte {
	if g.r.Chance(1, 25) {
		return nil // delete
	}
	g.val++
	return []byte(fmt.Sprintf("v%d", g.val))
}

func (g *genr) writeKey(e string) []byte {
	w := g.w
	switch g.r.Pick(70, 8, 6, 6, 4, 6) {
	case 0:
		ks := w.ownKeys(e)
		return ks[g.r.Intn(len(ks))]
	case 1:
		return [][]byte{[]byte("mavl-vfc-fr-k0"), []byte("mavl-vfd-fr-k0"), []byte("mavl-vfc-fr-k1")}[g.r.Intn(3)]
	case 2:
		return w.depositKey([]string{"coins-bty", "vfc-tok"}[g.r.Intn(2)], e)
	case 3:
		o := execers[g.r.Intn(6)]
		ks := w.ownKeys(o)
		return ks[g.r.Intn(len(ks))]
	case 4:
		return w.depositKey("coins-bty", execers[g.r.Intn(6)])
	default:
		return [][]byte{[]byte("nodash"), []byte("mavl-nodash"), []byte("mavlx-vfa-k0"), nil}[g.r.Intn(4)]
	}
}

func (g *genr) readKey(e string) []byte {
	if g.r.Chance(3, 5) {
		ks := g.w.ownKeys(e)
		return ks[g.r.Intn(len(ks))]
	}
	return g.w.stateKs[g.r.Intn(len(g.w.stateKs))]
}

func (g *genr) localKey(e string) []byte {
	names := []string{realOf(e), e, "vfb", "vfd"}
	nm := names[g.r.Pick(60, 10, 20, 10)]
	return []byte(fmt.Sprintf("LODB-%s-k%d", nm, g.r.Intn(3)))
}

func (g *genr) localWriteKey(e string) []byte {
	if g.r.Chance(1, 150) {
		return [][]byte{[]byte("LODB-vfa-k0"), []byte("LODX-vfb-k0"), []byte("LODB-" + realOf(e) + "-"), []byte("LODB")}[g.r.Intn(4)]
	}
	nm := realOf(e)
	if g.r.Chance(1, 5) {
		nm = e
	}
	return []byte(fmt.Sprintf("LODB-%s-k%d", nm, g.r.Intn(3)))
}

func (g *genr) localPrefix(e string) []byte {
	switch g.r.Intn(4) {
	case 0:
		return []byte("LODB-vf") // every synthetic executor's local area (the node's own LODB-coins-… data stays out)
	case 1:
		return []byte("LODB-" + realOf(e) + "-k1")
	default:
		return []byte("LODB-" + realOf(e) + "-")
	}
}

func (g *genr) execOps(e string) []vfexec.Op {
	var ops []vfexec.Op
	n := g.r.Intn(7)
	for i := 0; i < n; i++ {
		switch g.r.Pick(34, 10, 26, 3, 8, 5, 3, 6, 2) {
		case 0:
			ops = append(ops, vfexec.Op{Kind: "S", K: g.writeKey(e), V: g.value()})
		case 1:
			ops = append(ops, vfexec.Op{Kind: "D", K: g.writeKey(e), V: g.value()})
		case 2:
			ops = append(ops, vfexec.Op{Kind: "G", K: g.readKey(e)})
		case 3:
			ops = append(ops, vfexec.Op{Kind: "H", K: g.writeKey(e), V: g.value()})
		case 4:
			ops = append(ops, vfexec.Op{Kind: "LG", K: g.localKey(e)})
		case 5:
			ops = append(ops, vfexec.Op{Kind: "LL", K: g.localPrefix(e)})
		case 6:
			ops = append(ops, vfexec.Op{Kind: "LS", K: g.localKey(e), V: g.value()})
		case 7:
			ops = append(ops, vfexec.Op{Kind: "F"})
		case 8:
			ops = append(ops, vfexec.Op{Kind: "P"})
		}
	}
	if g.r.Chance(1, 6) {
		ops = append(ops, vfexec.Op{Kind: "F"}) // write, then fail
	}
	return ops
}

func (g *genr) localOps(e string) []vfexec.Op {
	if !sameTime(e) && g.r.Chance(2, 3) {
		return nil
	}
	var ops []vfexec.Op
	n := g.r.Intn(6)
	for i := 0; i < n; i++ {
		switch g.r.Pick(36, 20, 4, 16, 10, 6, 6, 1) {
		case 0:
			ops = append(ops, vfexec.Op{Kind: "LD", K: g.localWriteKey(e), V: g.value()})
		case 1:
			ops = append(ops, vfexec.Op{Kind: "LS", K: g.localWriteKey(e), V: g.value()})
		case 2:
			ops = append(ops, vfexec.Op{Kind: "LH", K: g.localWriteKey(e), V: g.value()})
		case 3:
			ops = append(ops, vfexec.Op{Kind: "LG", K: g.localKey(e)})
		case 4:
			ops = append(ops, vfexec.Op{Kind: "LL", K: g.localPrefix(e)})
		case 5:
			ops = append(ops, vfexec.Op{Kind: "G", K: g.readKey(e)})
		case 6:
			ops = append(ops, vfexec.Op{Kind: "F"})
		case 7:
			ops = append(ops, vfexec.Op{Kind: "P"})
		}
	}
	if g.r.Chance(1, 6) {
		ops = append(ops, vfexec.Op{Kind: "F"}) // local write, then fail
	}
	return ops
}

func (g *genr) tx(inGroup bool) vfexec.TxDesc {
	e := execers[g.r.Pick(execW...)]
	for inGroup && strings.HasPrefix(e, "user.p.") {
		// a group mixing para and main-chain executors is rejected as a whole (ErrTxGroupParaMainMixed, C17's domain)
		e = execers[g.r.Pick(execW...)]
	}
	s := g.w.senders[g.r.Pick(84, 11, 5)]
	return vfexec.TxDesc{AcctKey: s.key, Fee: fee, Execer: []byte(e), ExecOps: g.execOps(e), LocOps: g.localOps(e)}
}

func (g *genr) block() []vfexec.Unit {
	var us []vfexec.Unit
	n := g.r.Range(1, 12)
	for cnt := 0; cnt < n; {
		if g.r.Chance(1, 4) && n-cnt >= 2 {
			m := g.r.Range(2, 4)
			if m > n-cnt {
				m = n - cnt
			}
			u := vfexec.Unit{Group: true}
			for i := 0; i < m; i++ {
				u.Txs = append(u.Txs, g.tx(true))
			}
			us = append(us, u)
			cnt += m
		} else {
			us = append(us, vfexec.Unit{Txs: []vfexec.TxDesc{g.tx(false)}})
			cnt++
		}
	}
	return us
}

// ---------------------------------------------------------------------------- replay

func (w *world) replay(lines []string) {
	for _, l := range lines {
		f := strings.Fields(l)
		if len(f) < 7 || f[0] != "blk" || !strings.HasPrefix(f[2], "b") {
			out.Op(l, "bad-op")
			continue
		}
		var bi int
		if _, err := fmt.Sscanf(f[2], "b%d", &bi); err != nil || bi < 0 || bi >= len(w.bases) {
			out.Op(l, "bad-op")
			continue
		}
		var us []vfexec.Unit
		ok := true
		for _, t := range f[6:] {
			u, err := vfexec.ParseUnitToken(t)
			if err != nil {
				ok = false
				break
			}
			us = append(us, u)
		}
		if !ok {
			out.Op(l, "bad-op")
			continue
		}
		w.check(bi, us)
	}
}

func main() {
	defer out.Flush()
	vfexec.Quiet()
	w := &world{n: vfexec.NewNode(), nonce: 1000}
	defer w.n.Close()
	w.setup()
	if lines := gen.ReplayLines(); lines != nil {
		w.replay(lines)
		return
	}
	g := &genr{w: w, r: gen.New(gen.Seed())}
	nblocks := gen.Scale(1500, 40000)
	for i := 0; i < nblocks; i++ {
		w.check(g.r.Intn(len(w.bases)), g.block())
	}
	fmt.Fprintln(os.Stderr, "done")
}
