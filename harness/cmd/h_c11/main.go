// h_c11 executes generated blocks of synthetic-contract transactions through the real executor
// module (EventExecTxList on a non-mining testnode: real StateDB over the mavl store, real
// executor.LocalDB over the blockchain module's layered local store) and prints, per block,
//
//	blk <flags5> b<base> <addrs> <store> <main> <unit>…   ->   receipts | per-tx observations
//
// which the Lean driver drv_c11 must reproduce from the model.  Property predicate (C11), evaluated
// on the implementation only: for every failed unit u of a block A, the block A[u := fee-only] is
// executed as well and every later transaction must produce the same receipt and observe the same
// state/local reads; the failed unit's own receipt KVs must be the fee KV only.
package main

import (
	"fmt"
	"os"
	"strings"

	"github.com/33cn/chain33/types"

	"verifharness/internal/gen"
	"verifharness/internal/vfexec"
)

var out = gen.NewOut()

func feeOnlyUnit(u vfexec.Unit) vfexec.Unit {
	v := vfexec.Unit{Group: u.Group}
	for _, t := range u.Txs {
		t.ExecOps = []vfexec.Op{{Kind: "F"}}
		t.LocOps = nil
		v.Txs = append(v.Txs, t)
	}
	return v
}

// okOnlyUnit: the same unit with empty programs -- transactions that succeed and do nothing but pay
// their fee (the commit path; feeOnlyUnit takes the rollback path).
func okOnlyUnit(u vfexec.Unit) vfexec.Unit {
	v := vfexec.Unit{Group: u.Group}
	for _, t := range u.Txs {
		t.ExecOps = nil
		t.LocOps = nil
		v.Txs = append(v.Txs, t)
	}
	return v
}

// finalKV is the block's resulting state KV set: last value per key over all receipts, canonical text.
func finalKV(rs []*types.Receipt) string {
	m := map[string]string{}
	for _, r := range rs {
		for _, kv := range r.KV {
			m[vfexec.Hx(kv.Key)] = vfexec.AcctRender(kv.Key, kv.Value)
		}
	}
	var parts []string
	for _, k := range vfexec.SortedKeys(m) {
		parts = append(parts, k+"="+m[k])
	}
	return strings.Join(parts, ",")
}

var balCache = map[string]int64{}

// feeChain checks, independently of any re-execution, that every charged fee stays charged: the fee log
// of each transaction must start at its sender's base balance minus all fees charged to that sender
// earlier in the block (synthetic transactions never move coins), and end exactly one fee lower.
func feeChain(w *vfexec.World, bi int, flat []vfexec.TxDesc, fees []int64, rs []*types.Receipt, detail string) {
	running := map[string]int64{}
	for i, r := range rs {
		k := string(flat[i].AcctKey)
		if _, ok := running[k]; !ok {
			ck := fmt.Sprintf("%d/%s", bi, k)
			if _, ok := balCache[ck]; !ok {
				balCache[ck] = w.Balance(bi, flat[i].AcctKey)
			}
			running[k] = balCache[ck]
		}
		for _, l := range r.Logs {
			if l.Ty != types.TyLogFee {
				continue
			}
			var t types.ReceiptAccountTransfer
			if err := types.Decode(l.Log, &t); err != nil {
				out.Pred("C11|execFee|fee-log-undecodable", detail)
				continue
			}
			if t.GetPrev().GetBalance() != running[k] || t.GetCurrent().GetBalance() != running[k]-fees[i] {
				out.Pred("C11|execFee|earlier-fee-not-left-behind", detail+fmt.Sprintf(" tx=%d expected=%d:%d log=%d:%d",
					i, running[k], running[k]-fees[i], t.GetPrev().GetBalance(), t.GetCurrent().GetBalance()))
			}
			running[k] = t.GetCurrent().GetBalance()
			out.Stat("fee_logs_checked", 1)
		}
	}
}

func cloneUnits(us []vfexec.Unit) []vfexec.Unit {
	c := make([]vfexec.Unit, len(us))
	for i, u := range us {
		c[i] = vfexec.Unit{Group: u.Group, Txs: append([]vfexec.TxDesc(nil), u.Txs...)}
	}
	return c
}

func kvString(r *types.Receipt) string {
	var s []string
	for _, kv := range r.KV {
		s = append(s, vfexec.Hx(kv.Key)+"="+vfexec.AcctRender(kv.Key, kv.Value))
	}
	return strings.Join(s, ",")
}

func isLocalObsOp(o vfexec.Op) bool {
	return o.Kind == "LG" || o.Kind == "LL" || o.Kind == "LS" || o.Kind == "LH"
}

// readKinds lists, for one transaction, whether its i-th observation is a local ("L") or state ("S") read.
func readKinds(t vfexec.TxDesc) []string {
	var ks []string
	for _, o := range t.ExecOps {
		if o.Kind == "F" || o.Kind == "P" {
			return ks
		}
		if isLocalObsOp(o) {
			ks = append(ks, "L")
		} else if o.Kind == "G" {
			ks = append(ks, "S")
		}
	}
	for _, o := range t.LocOps {
		if o.Kind == "F" || o.Kind == "P" {
			return ks
		}
		if isLocalObsOp(o) {
			ks = append(ks, "L")
		} else if o.Kind == "G" {
			ks = append(ks, "S")
		}
	}
	return ks
}

// pendingAfter walks the instructions one executed transaction really performed (its observations tell
// how far it got) and returns how many successful LocalDB.Set calls are still buffered, i.e. not yet
// sent to the block's local store by a List, when it stops.  `declared` adds the local KVs the
// framework itself sets after a successful ExecLocal.
func pendingAfter(t vfexec.TxDesc, obs []string, succeeded bool, pending int) int {
	j := 0
	walk := func(ops []vfexec.Op) bool { // false: stopped
		for _, o := range ops {
			switch o.Kind {
			case "F", "P":
				return false
			case "G", "LG":
				if j >= len(obs) {
					return false
				}
				j++
			case "LS", "LH":
				if j >= len(obs) {
					return false
				}
				if obs[j] == "ok" {
					pending++
				}
				j++
			case "LL":
				if j >= len(obs) {
					return false
				}
				if obs[j] != "dr" {
					pending = 0 // List saves the buffered writes first
				}
				j++
			}
		}
		return true
	}
	if walk(t.ExecOps) && vfexec.SameTime(string(t.Execer)) {
		walk(t.LocOps)
		if succeeded {
			for _, o := range t.LocOps {
				if o.Kind == "LD" || o.Kind == "LS" {
					pending++
				}
			}
		}
	}
	return pending
}

// unflushed: did the failed unit leave buffered local writes behind when it was rolled back?
func unflushed(u vfexec.Unit, receipts []*types.Receipt, obs [][]string) bool {
	// the member carrying the error log failed; the members before it had succeeded (their receipts were
	// reset to ExecPack afterwards), the members after it never ran
	pending := 0
	for i, t := range u.Txs {
		failed := vfexec.Failed(receipts[i])
		pending = pendingAfter(t, obs[i], !failed, pending)
		if failed {
			break
		}
	}
	return pending > 0
}

// check evaluates the C11 predicate for block `units` on base bi.
func check(w *vfexec.World, bi int, units []vfexec.Unit) {
	a := w.Run(bi, cloneUnits(units))
	out.Stat("blocks", 1)
	if a == nil {
		out.Stat("bad_replay_line", 1)
		return
	}
	if a.Panicked {
		out.Stat("block_"+a.Line, 1)
		return
	}
	// flatten
	var flat []vfexec.TxDesc
	var unitOf []int
	for ui, u := range units {
		for range u.Txs {
			unitOf = append(unitOf, ui)
		}
		flat = append(flat, u.Txs...)
	}
	out.Stat("txs", int64(len(flat)))
	failedUnit := map[int]bool{}
	for i, r := range a.Receipts {
		switch {
		case vfexec.Failed(r):
			failedUnit[unitOf[i]] = true
			for _, l := range r.Logs {
				if l.Ty == types.TyLogErr {
					out.Stat("fail_"+vfexec.ErrEnum(string(l.Log)), 1)
				}
			}
		case r.Ty == types.ExecOk:
			out.Stat("tx_ok", 1)
		default:
			out.Stat("tx_pack_none_driver", 1)
		}
	}
	var fees []int64 // what each transaction offers: the head of a group pays for all members
	for _, u := range units {
		for i := range u.Txs {
			switch {
			case !u.Group:
				fees = append(fees, vfexec.Fee)
			case i == 0:
				fees = append(fees, int64(len(u.Txs))*vfexec.Fee)
			default:
				fees = append(fees, 0)
			}
		}
	}
	feeChain(w, bi, flat, fees, a.Receipts, fmt.Sprintf("base=%d block=%s", bi, tokens(units)))
	firstTx := make([]int, len(units))
	for i := len(unitOf) - 1; i >= 0; i-- {
		firstTx[unitOf[i]] = i
	}
	leaky := map[int]bool{} // failed units rolled back with buffered local writes (precondition of S-C11)
	for ui := range units {
		if failedUnit[ui] {
			n := len(units[ui].Txs)
			leaky[ui] = unflushed(units[ui], a.Receipts[firstTx[ui]:firstTx[ui]+n], a.Obs[firstTx[ui]:firstTx[ui]+n])
			if leaky[ui] {
				out.Stat("failed_units_with_buffered_local_writes", 1)
			}
		}
	}
	for ui := range units {
		if !failedUnit[ui] {
			continue
		}
		site := "execTx"
		if units[ui].Group {
			site = "execTxGroup"
			out.Stat("failed_groups", 1)
		} else {
			out.Stat("failed_singles", 1)
		}
		for variant := 0; variant < 2; variant++ {
			bu := cloneUnits(units)
			if variant == 0 {
				bu[ui] = feeOnlyUnit(units[ui])
			} else {
				bu[ui] = okOnlyUnit(units[ui])
			}
			b := w.Run(bi, bu)
			out.Stat([]string{"fee_only_runs_failing", "fee_only_runs_succeeding"}[variant], 1)
			detail := fmt.Sprintf("base=%d unit=%d block=%s", bi, ui, tokens(units))
			if b.Panicked {
				// the block without the failed unit's program panics although the original did not
				out.Pred("C11|"+site+"|fee-only-run-panics", detail)
				continue
			}
			if fa, fb := finalKV(a.Receipts), finalKV(b.Receipts); fa != fb {
				out.Pred("C11|"+site+"|final-kv-set-differs", detail+" with="+fa+" feeonly="+fb)
			}
			for i := range flat {
				switch {
				case unitOf[i] < ui:
					continue
				case unitOf[i] == ui:
					// only the fee may remain of the failed unit
					if kvString(a.Receipts[i]) != kvString(b.Receipts[i]) || (variant == 0 && a.Receipts[i].Ty != b.Receipts[i].Ty) {
						out.Pred("C11|"+site+"|failed-receipt-keeps-writes", detail+fmt.Sprintf(" tx=%d", i))
					}
				default:
					ra, rb := vfexec.RenderReceipt(a.Receipts[i]), vfexec.RenderReceipt(b.Receipts[i])
					if ra != rb {
						out.Pred("C11|"+site+"|later-receipt-differs", detail+fmt.Sprintf(" tx=%d a=%s b=%s", i, ra, rb))
						continue
					}
					oa, ob := a.Obs[i], b.Obs[i]
					kinds := readKinds(flat[i])
					if len(oa) != len(ob) {
						out.Pred("C11|"+site+"|later-read-count-differs", detail+fmt.Sprintf(" tx=%d", i))
						continue
					}
					for j := range oa {
						if oa[j] != ob[j] {
							kind := "local"
							if j < len(kinds) && kinds[j] == "S" {
								kind = "state"
							}
							sig := "C11|" + site + "|later-" + kind + "-read-differs"
							if kind == "local" {
								// S-C11 needs a failed unit, at or before the differing transaction's position, that was
								// rolled back while local writes were still buffered; anything else is a different defect
								for uj := 0; uj < unitOf[i]; uj++ {
									if leaky[uj] {
										sig += "-after-rollback-with-buffered-local-writes"
										break
									}
								}
							}
							out.Pred(sig, detail+fmt.Sprintf(" tx=%d read=%d with=%s feeonly=%s", i, j, oa[j], ob[j]))
							out.Stat("later_"+kind+"_read_differs", 1)
							break
						}
					}
				}
			}
		}
	}
}

func tokens(us []vfexec.Unit) string {
	var s []string
	for _, u := range us {
		s = append(s, u.Token())
	}
	return strings.Join(s, " ")
}

// ---------------------------------------------------------------------------- generation

type genr struct {
	w   *vfexec.World
	r   *gen.Rand
	val int
}

func (g *genr) value() []byte {
	if g.r.Chance(1, 25) {
		return nil // delete
	}
	g.val++
	return []byte(fmt.Sprintf("v%d", g.val))
}

func (g *genr) writeKey(e string) []byte {
	w := g.w
	switch g.r.Pick(82, 6, 5, 3, 2, 2) {
	case 0:
		ks := w.OwnKeys(e)
		return ks[g.r.Intn(len(ks))]
	case 1:
		return [][]byte{[]byte("mavl-vfc-fr-k0"), []byte("mavl-vfd-fr-k0"), []byte("mavl-vfc-fr-k1")}[g.r.Intn(3)]
	case 2:
		return w.DepositKey([]string{"coins-bty", "vfc-tok"}[g.r.Intn(2)], e)
	case 3:
		o := vfexec.Execers[g.r.Intn(6)]
		ks := w.OwnKeys(o)
		return ks[g.r.Intn(len(ks))]
	case 4:
		return w.DepositKey("coins-bty", vfexec.Execers[g.r.Intn(6)])
	default:
		return [][]byte{[]byte("nodash"), []byte("mavl-nodash"), []byte("mavlx-vfa-k0"), nil}[g.r.Intn(4)]
	}
}

func (g *genr) readKey(e string) []byte {
	if g.r.Chance(3, 5) {
		ks := g.w.OwnKeys(e)
		return ks[g.r.Intn(len(ks))]
	}
	return g.w.StateKs[g.r.Intn(len(g.w.StateKs))]
}

func (g *genr) localKey(e string) []byte {
	names := []string{vfexec.RealOf(e), e, "vfb", "vfd"}
	nm := names[g.r.Pick(60, 10, 20, 10)]
	return []byte(fmt.Sprintf("LODB-%s-k%d", nm, g.r.Intn(3)))
}

func (g *genr) localWriteKey(e string) []byte {
	if g.r.Chance(1, 150) {
		return [][]byte{[]byte("LODB-vfa-k0"), []byte("LODX-vfb-k0"), []byte("LODB-" + vfexec.RealOf(e) + "-"), []byte("LODB")}[g.r.Intn(4)]
	}
	nm := vfexec.RealOf(e)
	if g.r.Chance(1, 5) {
		nm = e
	}
	return []byte(fmt.Sprintf("LODB-%s-k%d", nm, g.r.Intn(3)))
}

func (g *genr) localPrefix(e string) []byte {
	switch g.r.Intn(4) {
	case 0:
		return []byte("LODB-vf") // every synthetic executor's local area (the node's own LODB-coins-… data stays out)
	case 1:
		return []byte("LODB-" + vfexec.RealOf(e) + "-k1")
	default:
		return []byte("LODB-" + vfexec.RealOf(e) + "-")
	}
}

func (g *genr) execOps(e string) []vfexec.Op {
	var ops []vfexec.Op
	n := g.r.Intn(7)
	for i := 0; i < n; i++ {
		switch g.r.Pick(34, 10, 26, 3, 8, 5, 3, 6, 2) {
		case 0:
			ops = append(ops, vfexec.Op{Kind: "S", K: g.writeKey(e), V: g.value()})
		case 1:
			ops = append(ops, vfexec.Op{Kind: "D", K: g.writeKey(e), V: g.value()})
		case 2:
			ops = append(ops, vfexec.Op{Kind: "G", K: g.readKey(e)})
		case 3:
			ops = append(ops, vfexec.Op{Kind: "H", K: g.writeKey(e), V: g.value()})
		case 4:
			ops = append(ops, vfexec.Op{Kind: "LG", K: g.localKey(e)})
		case 5:
			ops = append(ops, vfexec.Op{Kind: "LL", K: g.localPrefix(e)})
		case 6:
			ops = append(ops, vfexec.Op{Kind: "LS", K: g.localKey(e), V: g.value()})
		case 7:
			ops = append(ops, vfexec.Op{Kind: "F"})
		case 8:
			ops = append(ops, vfexec.Op{Kind: "P"})
		}
	}
	if g.r.Chance(1, 6) {
		ops = append(ops, vfexec.Op{Kind: "F"}) // write, then fail
	}
	return ops
}

func (g *genr) localOps(e string) []vfexec.Op {
	if !vfexec.SameTime(e) && g.r.Chance(2, 3) {
		return nil
	}
	var ops []vfexec.Op
	n := g.r.Intn(6)
	for i := 0; i < n; i++ {
		switch g.r.Pick(36, 20, 4, 16, 10, 6, 6, 1) {
		case 0:
			ops = append(ops, vfexec.Op{Kind: "LD", K: g.localWriteKey(e), V: g.value()})
		case 1:
			ops = append(ops, vfexec.Op{Kind: "LS", K: g.localWriteKey(e), V: g.value()})
		case 2:
			ops = append(ops, vfexec.Op{Kind: "LH", K: g.localWriteKey(e), V: g.value()})
		case 3:
			ops = append(ops, vfexec.Op{Kind: "LG", K: g.localKey(e)})
		case 4:
			ops = append(ops, vfexec.Op{Kind: "LL", K: g.localPrefix(e)})
		case 5:
			ops = append(ops, vfexec.Op{Kind: "G", K: g.readKey(e)})
		case 6:
			ops = append(ops, vfexec.Op{Kind: "F"})
		case 7:
			ops = append(ops, vfexec.Op{Kind: "P"})
		}
	}
	if g.r.Chance(1, 6) {
		ops = append(ops, vfexec.Op{Kind: "F"}) // local write, then fail
	}
	return ops
}

func (g *genr) tx(inGroup bool) vfexec.TxDesc {
	e := vfexec.Execers[g.r.Pick(vfexec.ExecW...)]
	for inGroup && strings.HasPrefix(e, "user.p.") {
		// a group mixing para and main-chain executors is rejected as a whole (ErrTxGroupParaMainMixed, C17's domain)
		e = vfexec.Execers[g.r.Pick(vfexec.ExecW...)]
	}
	s := g.w.Senders[g.r.Pick(84, 11, 5)]
	return vfexec.TxDesc{AcctKey: s.Key, Fee: vfexec.Fee, Execer: []byte(e), ExecOps: g.execOps(e), LocOps: g.localOps(e)}
}

func (g *genr) block() []vfexec.Unit {
	var us []vfexec.Unit
	n := g.r.Range(1, 12)
	for cnt := 0; cnt < n; {
		if g.r.Chance(1, 4) && n-cnt >= 2 {
			m := g.r.Range(2, 4)
			if m > n-cnt {
				m = n - cnt
			}
			u := vfexec.Unit{Group: true}
			for i := 0; i < m; i++ {
				u.Txs = append(u.Txs, g.tx(true))
			}
			if g.r.Chance(1, 3) {
				// a later member touches a key an earlier member wrote and reported (begin() is per group,
				// the written-key list is reset per member)
				j := g.r.Range(1, m-1)
				i := g.r.Intn(j)
				synth := false
				for _, e := range vfexec.Execers[:6] {
					if e == string(u.Txs[i].Execer) {
						synth = true
					}
				}
				if synth {
					shape := []string{"hidden", "differ", "reported"}[g.r.Intn(3)]
					vfexec.OverlapGroup(u.Txs, i, j, shape, g.r.Chance(3, 5), nil, g.value())
					out.Stat("group_overlap_"+shape, 1)
				}
			}
			us = append(us, u)
			cnt += m
		} else {
			us = append(us, vfexec.Unit{Txs: []vfexec.TxDesc{g.tx(false)}})
			cnt++
		}
	}
	return us
}

// ---------------------------------------------------------------------------- replay

func replay(w *vfexec.World, lines []string) {
	for _, l := range lines {
		f := strings.Fields(l)
		if len(f) < 7 || f[0] != "blk" || !strings.HasPrefix(f[2], "b") {
			out.Op(l, "bad-op")
			continue
		}
		var bi int
		if _, err := fmt.Sscanf(f[2], "b%d", &bi); err != nil || bi < 0 || bi >= len(w.Bases) {
			out.Op(l, "bad-op")
			continue
		}
		var us []vfexec.Unit
		ok := true
		for _, t := range f[6:] {
			u, err := vfexec.ParseUnitToken(t)
			if err != nil {
				ok = false
				break
			}
			us = append(us, u)
		}
		if !ok {
			out.Op(l, "bad-op")
			continue
		}
		check(w, bi, us)
	}
}

func main() {
	defer out.Flush()
	vfexec.Quiet()
	w := &vfexec.World{N: vfexec.NewNode(), Nonce: 1000, Emit: out.Op}
	defer w.N.Close()
	w.Setup()
	if lines := gen.ReplayLines(); lines != nil {
		replay(w, lines)
		return
	}
	g := &genr{w: w, r: gen.New(gen.Seed())}
	nblocks := gen.Scale(900, 20000)
	for i := 0; i < nblocks; i++ {
		check(w, g.r.Intn(len(w.Bases)), g.block())
	}
	fmt.Fprintln(os.Stderr, "done")
}
