// h_c12 checks who may write which key.
//
// Mode "pure" (C12_MODE=pure): the real predicates isAllowKeyWrite / isAllowLocalKey(2) /
// FindExecer / GetExecKey / GetRealExecName / GetParaExecName / GetParaExec / IsAllowExecName /
// checkKV are called in-process on generated (key, execer) pairs under a main-chain config (before
// and after ForkExecKey) and a `user.p.x.` para-chain config; the answers are printed for the Lean
// model (drv_c12) and compared, on the spot, with an independent declarative grammar of allowed
// keys written with string splitting (the property predicate).
//
// Mode "blocks" (C12_MODE=blocks): synthetic executors write such keys in real blocks
// (EventExecTxList on a testnode); receipts go to the block model (drv_c11) and the predicate
// "ExecOk only if every written key is reported and every reported key is allowed; a failed
// transaction keeps only its fee; local KVs carry the executor's prefix" is evaluated on them.
package main

import (
	"fmt"
	"os"
	"strings"

	"github.com/33cn/chain33/executor"
	"github.com/33cn/chain33/queue"
	drivers "github.com/33cn/chain33/system/dapp"
	"github.com/33cn/chain33/types"

	"verifharness/internal/gen"
	"verifharness/internal/vfexec"
)

var out = gen.NewOut()

var hx = vfexec.Hx

// ---------------------------------------------------------------------------- declarative spec

type chain struct {
	para  bool
	title string
}

func (c chain) paraExec(execer string) string {
	if c.para && strings.HasPrefix(execer, c.title) {
		return execer[len(c.title):]
	}
	return execer
}

// specRealName: the executor code name behind an executor name, as documented:
// user.p.<title>.<rest> -> <rest> (if non-empty); a remaining user.p. name stays; user.<x>[.<y>] -> <x>.
func specRealName(execer string) string {
	e := execer
	if strings.HasPrefix(e, "user.p.") {
		parts := strings.SplitN(e, ".", 4)
		if len(parts) == 4 && parts[3] != "" {
			e = parts[3]
		}
	}
	if strings.HasPrefix(e, "user.p.") {
		return e
	}
	if strings.HasPrefix(e, "user.") {
		x := strings.SplitN(e[len("user."):], ".", 2)[0]
		if x != "" {
			return x
		}
	}
	return e
}

// friendDriver: does `name` resolve (on chain c) to a synthetic driver that has the friend rule?
func specFriendDriver(c chain, name string) bool {
	real := specRealName(name)
	if real != "vfc" && real != "vfd" {
		return false
	}
	e := c.paraExec(name)
	if e == real {
		return true
	}
	if strings.HasPrefix(e, "user.") {
		p := strings.Split(e[len("user."):], ".")
		return len(p) == 2 && c.paraExec(p[0]) == real
	}
	return false
}

// depositAddr: key = mavl-<x>-<y>-exec-<addr>:<tail>  (x, y without '-', addr without ':').
func depositAddr(key string) (string, bool) {
	if len(key) < 5 {
		return "", false
	}
	segs := strings.SplitN(key[5:], "-", 4)
	if len(segs) < 4 || segs[2] != "exec" {
		return "", false
	}
	i := strings.IndexByte(segs[3], ':')
	if i < 0 {
		return "", false
	}
	return segs[3][:i], true
}

// specAllowed is the grammar of keys a transaction with executor txExecer (code name realExecer)
// may write: own namespace | own deposit area inside any executor | an area the owning executor opens.
func specAllowed(c chain, preFork bool, key, realExecer, txExecer string) bool {
	if !strings.HasPrefix(key, "mavl-") {
		return false
	}
	i := strings.IndexByte(key[5:], '-')
	if i < 0 {
		return false
	}
	owner := key[5 : 5+i]
	exec := c.paraExec(txExecer)
	if owner == exec {
		return true
	}
	if preFork {
		if exec == "manage" && owner == "config" {
			return true
		}
		if exec == "token" && strings.HasPrefix(key, "mavl-create-token-") {
			return true
		}
	}
	addr, dep := depositAddr(key)
	if dep && addr == drivers.ExecAddress(txExecer) {
		return true
	}
	if dep && addr == drivers.ExecAddress(realExecer) {
		owner = realExecer
	}
	return specFriendDriver(c, owner) && strings.HasPrefix(key, "mavl-"+owner+"-fr-") && specRealName(txExecer) == "vfa"
}

func specLocal2(execer, key string) bool {
	p := "LODB-" + execer + "-"
	return execer != "" && strings.HasPrefix(key, p) && len(key) > len(p)
}

func specLocal(execer, key string) bool {
	return specLocal2(execer, key) || specLocal2(specRealName(execer), key)
}

// ---------------------------------------------------------------------------- pure mode

type penv struct {
	c    chain
	cfg  *types.Chain33Config
	pre  *executor.VerifEnv // height below ForkExecKey
	post *executor.VerifEnv
}

func newPenv(title string, para bool) *penv {
	s := types.GetDefaultCfgstring()
	if para {
		s = strings.Replace(s, "Title=\"local\"", "Title=\""+title+"\"", 1)
	}
	cfg := types.NewChain33Config(s)
	cfg.SetFork("ForkExecKey", 100)
	vfexec.Register(cfg)
	q := queue.New("channel")
	q.SetConfig(cfg)
	ex := executor.VerifNewExecutor(cfg, q)
	return &penv{c: chain{para: para, title: title}, cfg: cfg,
		pre: executor.VerifNewEnv(ex, 50), post: executor.VerifNewEnv(ex, 150)}
}

var execerPool = []string{
	"vfa", "vfb", "vfc", "vfd", "coins", "none", "manage", "token", "config",
	"user.vfa.x1", "user.vfc.q", "user.vfc", "user.vfc.a.b", "user.evm.abc", "user.zzz", "user.", "user..x", "user",
	"user.p.x.vfa", "user.p.x.vfc", "user.p.x.user.vfa.z", "user.p.x.user.vfc.q", "user.p.y.vfc", "user.p.x.", "user.p.x", "user.p..vfa",
	"user.p.x.coins", "user.p.x.token", "user.p.x.manage", "a-b", "", "vf", "vfaa", "x",
}

type pgen struct {
	r *gen.Rand
}

func (g *pgen) execer() string {
	if g.r.Chance(1, 40) {
		return string(g.r.BytesFrom([]byte("vfauser.p-x#:"), g.r.Intn(12)))
	}
	return execerPool[g.r.Intn(len(execerPool))]
}

func (g *pgen) mutate(s string) string {
	b := []byte(s)
	switch g.r.Intn(4) {
	case 0:
		if len(b) > 0 {
			i := g.r.Intn(len(b))
			b = append(b[:i], b[i+1:]...)
		}
	case 1:
		i := g.r.Intn(len(b) + 1)
		c := []byte("-:.a#x")[g.r.Intn(6)]
		b = append(b[:i], append([]byte{c}, b[i:]...)...)
	case 2:
		if len(b) > 0 {
			b[g.r.Intn(len(b))] = []byte("-:.ae")[g.r.Intn(5)]
		}
	default:
		if len(b) > 0 {
			b = b[:g.r.Intn(len(b))]
		}
	}
	return string(b)
}

// key builds a state key aimed at (txExecer, real) on chain c.
func (g *pgen) key(c chain, txExecer, real string) string {
	names := []string{txExecer, c.paraExec(txExecer), real, g.execer(), "coins", "vfc", "vfd", "config", ""}
	x := names[g.r.Pick(25, 25, 10, 15, 8, 6, 4, 3, 4)]
	var k string
	switch g.r.Pick(30, 30, 14, 8, 4, 6, 8) {
	case 0: // plain
		k = "mavl-" + x + "-" + []string{"k0", "", "a-b", "bty-1Addr", "exec-", "x:y"}[g.r.Intn(6)]
	case 1: // deposit area
		addrOf := []string{txExecer, real, g.execer(), c.paraExec(txExecer)}[g.r.Pick(45, 25, 20, 10)]
		addr := drivers.ExecAddress(addrOf)
		if g.r.Chance(1, 12) {
			addr = []string{"", "junk", addr[:len(addr)-1], addr + "x"}[g.r.Intn(4)]
		}
		seg := []string{"exec", "exec", "exec", "exec", "Exec", "exe", "execs", ""}[g.r.Intn(8)]
		y := []string{"bty", "tok", "", "a.b"}[g.r.Intn(4)]
		tail := []string{":u", ":", "", "u", ":a:b", "-x:u"}[g.r.Pick(50, 10, 15, 10, 8, 7)]
		k = "mavl-" + x + "-" + y + "-" + seg + "-" + addr + tail
	case 2: // friend area
		o := []string{"vfc", "vfd", "user.vfc.q", "user.p.x.vfc", "user.p.x.user.vfc.q", "vfa", x, real}[g.r.Intn(8)]
		k = "mavl-" + o + "-" + []string{"fr-k0", "fr-", "fr", "frx-k", "k0"}[g.r.Pick(60, 10, 10, 10, 10)]
	case 3: // friend area via deposit: owner decided by the deposit address
		o := []string{"vfc", "coins", x}[g.r.Intn(3)]
		k = "mavl-" + o + "-fr-exec-" + drivers.ExecAddress([]string{real, txExecer, "vfc"}[g.r.Intn(3)]) + ":u"
	case 4:
		k = []string{"mavl-create-token-abc", "mavl-create-token-", "mavl-config-x", "mavl-create-tokenx"}[g.r.Intn(4)]
	case 5:
		k = []string{"", "mavl", "mavl-", "mavl--", "mavl-" + x, "nodash", "mavlx-" + x + "-k", "MAVL-" + x + "-k", "-mavl-" + x + "-k", "LODB-" + x + "-k"}[g.r.Intn(10)]
	default:
		k = g.mutate("mavl-" + x + "-bty-exec-" + drivers.ExecAddress(txExecer) + ":u")
	}
	if g.r.Chance(1, 10) {
		k = g.mutate(k)
	}
	return k
}

func b01(b bool) string {
	if b {
		return "1"
	}
	return "0"
}

func runPure() {
	envs := []*penv{newPenv("local", false), newPenv("user.p.x.", true)}
	vfexec.EnsureAllowUser()
	{
		set := map[string]string{}
		for _, a := range types.AllowUserExec {
			set[string(a)] = ""
		}
		var l []string
		for _, a := range vfexec.SortedKeys(set) {
			l = append(l, hx([]byte(a)))
		}
		out.Op("allowuser", strings.Join(l, ","))
	}
	g := &pgen{r: gen.New(gen.Seed())}
	n := gen.Scale(104000, 300000)
	for i := 0; i < n; i++ {
		pe := envs[g.r.Pick(55, 45)]
		pre := g.r.Chance(1, 5)
		txe := g.execer()
		tx := &types.Transaction{Execer: []byte(txe)}
		ve := pe.post
		if pre {
			ve = pe.pre
		}
		var real string
		rres := gen.Guard(func() string { real = string(ve.RealExecName(tx, 0)); return hx([]byte(real)) })
		if i%8 == 0 || rres == "panic" {
			out.Op(fmt.Sprintf("realexec %s %s %s", b01(pe.c.para), hx([]byte(pe.c.title)), hx([]byte(txe))), rres)
		}
		if g.r.Chance(1, 10) {
			real = g.execer()
		}
		key := g.key(pe.c, txe, real)
		var got bool
		res := gen.Guard(func() string { got = ve.IsAllowKeyWrite([]byte(key), []byte(real), tx, 0); return b01(got) })
		out.Op(fmt.Sprintf("allow %s%s %s %s %s %s %s %s", b01(pe.c.para), b01(!pre), hx([]byte(pe.c.title)), hx([]byte(key)),
			hx([]byte(real)), hx([]byte(txe)), hx([]byte(drivers.ExecAddress(txe))), hx([]byte(drivers.ExecAddress(real)))), res)
		want := specAllowed(pe.c, pre, key, real, txe)
		out.Stat("allow_pairs", 1)
		cls := "main"
		if pe.c.para {
			cls = "para"
		}
		if res == "panic" {
			out.Pred("C12|isAllowKeyWrite|panic", fmt.Sprintf("chain=%s key=%q real=%q exec=%q", cls, key, real, txe))
		} else if got && !want {
			out.Pred("C12|isAllowKeyWrite|allows-outside-grammar", fmt.Sprintf("chain=%s pre=%v key=%q real=%q exec=%q", cls, pre, key, real, txe))
		} else if !got && want {
			out.Pred("C12|isAllowKeyWrite|denies-inside-grammar", fmt.Sprintf("chain=%s pre=%v key=%q real=%q exec=%q", cls, pre, key, real, txe))
		}
		out.Stat(fmt.Sprintf("allow_%s_%v", cls, got), 1)
		if got {
			own := strings.HasPrefix(key, "mavl-"+pe.c.paraExec(txe)+"-")
			_, dep := depositAddr(key)
			switch {
			case own:
				out.Stat("allowed_own_namespace", 1)
			case dep && !strings.Contains(key, "-fr-"):
				out.Stat("allowed_deposit", 1)
			default:
				out.Stat("allowed_friend_or_prefork", 1)
			}
		}
		if i%8 == 0 {
			out.Op("findexecer "+hx([]byte(key)), gen.Guard(func() string {
				x, err := types.FindExecer([]byte(key))
				switch err {
				case nil:
					return hx(x)
				case types.ErrMavlKeyNotStartWithMavl:
					return "notmavl"
				case types.ErrNoExecerInMavlKey:
					return "noexecer"
				}
				return "err:" + err.Error()
			}))
			out.Op("execkey "+hx([]byte(key)), gen.Guard(func() string {
				a, ok := types.GetExecKey([]byte(key))
				if !ok {
					return "none"
				}
				return hx([]byte(a))
			}))
			e := txe
			if g.r.Chance(1, 3) {
				e = g.mutate(e)
			}
			var rn string
			out.Op("realname "+hx([]byte(e)), gen.Guard(func() string { rn = string(types.GetRealExecName([]byte(e))); return hx([]byte(rn)) }))
			if rn != specRealName(e) {
				out.Pred("C12|GetRealExecName|differs-from-documented-rule", fmt.Sprintf("execer=%q got=%q", e, rn))
			}
			out.Op("paraname "+hx([]byte(e)), gen.Guard(func() string { return hx(types.GetParaExecName([]byte(e))) }))
			out.Op(fmt.Sprintf("paraexec %s %s %s", b01(pe.c.para), hx([]byte(pe.c.title)), hx([]byte(e))),
				gen.Guard(func() string { return hx(pe.cfg.GetParaExec([]byte(e))) }))
			nm := []string{e, rn, real, g.execer()}[g.r.Intn(4)]
			out.Op("allowname "+hx([]byte(nm))+" "+hx([]byte(e)), gen.Guard(func() string { return b01(types.IsAllowExecName([]byte(nm), []byte(e))) }))
			out.Stat("name_ops", 5)
		}
	}
	// local keys
	m := gen.Scale(20000, 60000)
	for i := 0; i < m; i++ {
		e := g.execer()
		names := []string{e, specRealName(e), g.execer(), "vfb"}
		nm := names[g.r.Pick(40, 35, 15, 10)]
		pre := []string{"LODB", "LODB", "LODB", "LODB", "LODX", "lodb", "LOD", ""}[g.r.Intn(8)]
		s1 := []string{"-", "-", "-", "-", "_", ""}[g.r.Intn(6)]
		s2 := []string{"-", "-", "-", "-", "_", ""}[g.r.Intn(6)]
		rest := []string{"k0", "x", "", "-", "a-b-c"}[g.r.Pick(50, 15, 20, 5, 10)]
		key := pre + s1 + nm + s2 + rest
		if g.r.Chance(1, 10) {
			key = g.mutate(key)
		}
		pe := envs[g.r.Intn(2)]
		for _, two := range []bool{false, true} {
			name, want := "local", specLocal(e, key)
			f := executor.VerifIsAllowLocalKey
			if two {
				name, want, f = "local2", specLocal2(e, key), executor.VerifIsAllowLocalKey2
			}
			var err error
			res := gen.Guard(func() string {
				err = f(pe.cfg, []byte(e), []byte(key))
				switch err {
				case nil:
					return "ok"
				case types.ErrLocalPrefix:
					return "prefix"
				case types.ErrLocalKeyLen:
					return "keylen"
				}
				// isAllowLocalKey2 wraps its errors; isAllowLocalKey returns the cause
				switch {
				case strings.HasSuffix(err.Error(), types.ErrLocalPrefix.Error()):
					return "prefix"
				case strings.HasSuffix(err.Error(), types.ErrLocalKeyLen.Error()):
					return "keylen"
				}
				return "err:" + err.Error()
			})
			out.Op(name+" "+hx([]byte(e))+" "+hx([]byte(key)), res)
			out.Stat("local_pairs", 1)
			out.Stat("local_"+res, 1)
			if res == "panic" {
				out.Pred("C12|"+name+"|panic", fmt.Sprintf("execer=%q key=%q", e, key))
			} else if (res == "ok") != want {
				out.Pred("C12|isAllowLocalKey|differs-from-prefix-rule", fmt.Sprintf("fn=%s execer=%q key=%q got=%s", name, e, key, res))
			}
		}
	}
	// checkKV
	ve := envs[0].post
	for i := 0; i < gen.Scale(5000, 50000); i++ {
		var mem []string
		var kvs []*types.KeyValue
		var ms, ks []string
		for j := g.r.Intn(4); j > 0; j-- {
			k := fmt.Sprintf("k%d", g.r.Intn(5))
			mem = append(mem, k)
			ms = append(ms, hx([]byte(k)))
		}
		for j := g.r.Intn(5); j > 0; j-- {
			k := fmt.Sprintf("k%d", g.r.Intn(5))
			kvs = append(kvs, &types.KeyValue{Key: []byte(k)})
			ks = append(ks, hx([]byte(k)))
		}
		mt, kt := "-", "-"
		if len(ms) > 0 {
			mt = strings.Join(ms, ",")
		}
		if len(ks) > 0 {
			kt = strings.Join(ks, ",")
		}
		out.Op("checkkv "+mt+" "+kt, gen.Guard(func() string {
			if err := ve.CheckKV(mem, kvs); err != nil {
				if err == types.ErrNotAllowMemSetKey {
					return "memset"
				}
				return "err:" + err.Error()
			}
			return "ok"
		}))
		out.Stat("checkkv_ops", 1)
	}
	out.Sample(fmt.Sprintf("allow main key=mavl-coins-bty-exec-%s:u exec=vfa -> %v", drivers.ExecAddress("vfa"),
		envs[0].post.IsAllowKeyWrite([]byte("mavl-coins-bty-exec-"+drivers.ExecAddress("vfa")+":u"), []byte("vfa"), &types.Transaction{Execer: []byte("vfa")}, 0)))
}

// ---------------------------------------------------------------------------- blocks mode

type bgen struct {
	w   *vfexec.World
	r   *gen.Rand
	pg  *pgen
	val int
}

func (g *bgen) value() []byte {
	g.val++
	return []byte(fmt.Sprintf("w%d", g.val))
}

func (g *bgen) tx() vfexec.TxDesc {
	e := vfexec.Execers[g.r.Pick(24, 20, 10, 10, 18, 10, 3, 2, 3)]
	real := vfexec.RealOf(e)
	c := chain{}
	var ops []vfexec.Op
	for i := g.r.Range(1, 4); i > 0; i-- {
		var k []byte
		if g.r.Chance(1, 2) {
			ks := g.w.OwnKeys(e)
			k = ks[g.r.Intn(len(ks))]
		} else {
			k = []byte(g.pg.key(c, e, real))
		}
		kind := []string{"S", "D", "H", "G"}[g.r.Pick(50, 25, 5, 20)]
		ops = append(ops, vfexec.Op{Kind: kind, K: k, V: g.value()})
		if kind == "G" {
			ops[len(ops)-1].V = nil
		}
	}
	var lops []vfexec.Op
	if vfexec.SameTime(e) {
		for i := g.r.Intn(3); i > 0; i-- {
			nm := []string{real, e, "vfa", "vfb"}[g.r.Pick(60, 25, 10, 5)]
			key := "LODB-" + nm + "-k" + fmt.Sprint(g.r.Intn(3))
			if g.r.Chance(1, 12) {
				key = g.pg.mutate(key)
			}
			kind := []string{"LD", "LS", "LH"}[g.r.Pick(60, 30, 10)]
			lops = append(lops, vfexec.Op{Kind: kind, K: []byte(key), V: g.value()})
		}
	}
	return vfexec.TxDesc{AcctKey: g.w.Senders[0].Key, Fee: vfexec.Fee, Execer: []byte(e), ExecOps: ops, LocOps: lops}
}

// group builds a group of 2..4 members on synthetic executors; usually a later member touches a key an
// earlier member wrote and reported (hidden / reported with another value / reported; own or foreign
// namespace; or the head sender's coins account key, only in the last unit of a block).
func (g *bgen) group(last bool) vfexec.Unit {
	u := vfexec.Unit{Group: true}
	n := g.r.Range(2, 4)
	for len(u.Txs) < n {
		t := g.tx()
		if isVf(string(t.Execer)) {
			u.Txs = append(u.Txs, t)
		}
	}
	if g.r.Chance(4, 5) {
		j := g.r.Range(1, n-1)
		i := g.r.Intn(j)
		shape := []string{"hidden", "differ", "reported"}[g.r.Pick(45, 20, 35)]
		var acct []byte
		if last && g.r.Chance(1, 6) {
			acct = u.Txs[0].AcctKey
			shape = "hidden"
		}
		vfexec.OverlapGroup(u.Txs, i, j, shape, g.r.Chance(3, 5), acct, g.value())
		out.Stat("group_overlap_"+shape, 1)
	}
	out.Stat("groups", 1)
	return u
}

func checkBlock(w *vfexec.World, bi int, units []vfexec.Unit) {
	res := w.Run(bi, units)
	out.Stat("blocks", 1)
	if res == nil {
		return
	}
	var flat []vfexec.TxDesc
	for _, u := range units {
		flat = append(flat, u.Txs...)
	}
	c := chain{}
	if res.Panicked {
		out.Stat("block_"+res.Line, 1)
		// a block-level panic must be explained by a local key with a foreign prefix
		expl := false
		for _, t := range flat {
			for _, o := range t.LocOps {
				if (o.Kind == "LD" || o.Kind == "LS") && !specLocal(string(t.Execer), string(o.K)) {
					expl = true
				}
			}
		}
		if !expl {
			out.Pred("C12|execLocalTx|block-panic-without-foreign-local-key", "block="+tokens(units))
		}
		return
	}
	for i, r := range res.Receipts {
		t := flat[i]
		txe := string(t.Execer)
		real := vfexec.RealOf(txe)
		if !isVf(txe) {
			real = txe
		}
		out.Stat("txs", 1)
		detail := fmt.Sprintf("tx=%d block=%s", i, tokens(units))
		if r.Ty == types.ExecOk {
			out.Stat("tx_ok", 1)
			reported := map[string]bool{}
			for _, kv := range r.KV {
				reported[string(kv.Key)] = true
				if string(kv.Key) == string(t.AcctKey) {
					continue // the fee KV written by the framework itself
				}
				if !specAllowed(c, false, string(kv.Key), real, txe) {
					out.Pred("C12|execTxOne|ok-receipt-with-key-outside-grammar", detail+fmt.Sprintf(" key=%q", kv.Key))
				}
			}
			// the driver's own record of what this member passed to StateDB.Set (not StateDB's key list)
			for _, k := range res.Writes[i] {
				if !reported[k] {
					out.Pred("C12|execTxOne|ok-receipt-misses-written-key", detail+fmt.Sprintf(" key=%q", k))
				}
			}
			out.Stat("driver_recorded_writes", int64(len(res.Writes[i])))
			for _, o := range t.LocOps {
				// ExecLocal runs during block execution only for ExecLocalSameTime drivers
				if vfexec.SameTime(txe) && (o.Kind == "LD" || o.Kind == "LS") && !specLocal(txe, string(o.K)) {
					out.Pred("C12|execLocalTx|local-key-with-foreign-prefix-accepted", detail+fmt.Sprintf(" key=%q", o.K))
				}
			}
		} else {
			out.Stat(fmt.Sprintf("tx_ty%d", r.Ty), 1)
			for _, kv := range r.KV {
				if string(kv.Key) != string(t.AcctKey) {
					out.Pred("C12|execTx|failed-receipt-keeps-writes", detail+fmt.Sprintf(" key=%q", kv.Key))
				}
			}
			for _, l := range r.Logs {
				if l.Ty == types.TyLogErr {
					out.Stat("fail_"+vfexec.ErrEnum(string(l.Log)), 1)
				}
			}
		}
	}
}

func isVf(e string) bool {
	for _, x := range vfexec.Execers[:6] {
		if x == e {
			return true
		}
	}
	return false
}

func tokens(us []vfexec.Unit) string {
	var s []string
	for _, u := range us {
		s = append(s, u.Token())
	}
	return strings.Join(s, " ")
}

func runBlocks() {
	vfexec.Quiet()
	w := &vfexec.World{N: vfexec.NewNode(), Nonce: 5000, Emit: out.Op}
	defer w.N.Close()
	w.Setup()
	if lines := gen.ReplayLines(); lines != nil {
		for _, l := range lines {
			f := strings.Fields(l)
			if len(f) < 7 || f[0] != "blk" {
				continue // pure-mode lines are replayed by the pure run
			}
			var bi int
			if _, err := fmt.Sscanf(f[2], "b%d", &bi); err != nil || bi < 0 || bi >= len(w.Bases) {
				out.Op(l, "bad-op")
				continue
			}
			var us []vfexec.Unit
			ok := true
			for _, t := range f[6:] {
				u, err := vfexec.ParseUnitToken(t)
				if err != nil {
					ok = false
					break
				}
				us = append(us, u)
			}
			if !ok {
				out.Op(l, "bad-op")
				continue
			}
			checkBlock(w, bi, us)
		}
		return
	}
	r := gen.New(gen.Seed() + 77)
	g := &bgen{w: w, r: r, pg: &pgen{r: r}}
	for i := 0; i < gen.Scale(1200, 20000); i++ {
		var us []vfexec.Unit
		for j := g.r.Range(1, 4); j > 0; j-- {
			if g.r.Chance(1, 3) {
				us = append(us, g.group(j == 1))
			} else {
				us = append(us, vfexec.Unit{Txs: []vfexec.TxDesc{g.tx()}})
			}
		}
		checkBlock(w, g.r.Intn(len(w.Bases)), us)
	}
}

func main() {
	defer out.Flush()
	mode := os.Getenv("C12_MODE")
	if gen.ReplayLines() != nil {
		mode = "blocks" // corpus / replay files hold block scenarios only
	}
	switch mode {
	case "blocks":
		runBlocks()
	default:
		vfexec.Quiet()
		runPure()
	}
}
