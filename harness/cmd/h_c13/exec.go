package main

// Repeated execution: the same generated chain is executed in several processes (fresh, or after unrelated prior
// activity in the same process; GOMAXPROCS 1/2/16; CPU affinity 1/4/16) and inside each process every block is
// executed twice on the same prior state. Receipts, state KV set, state root and the local KV sets of
// EventAddBlock / EventDelBlock are digested in order, byte for byte.

import (
	"bufio"
	"bytes"
	"crypto/sha256"
	"encoding/hex"
	"fmt"
	"os"
	"os/exec"
	"runtime"
	"strings"

	"github.com/33cn/chain33/common/address"
	"github.com/33cn/chain33/common/crypto"
	"github.com/33cn/chain33/common/merkle"
	cty "github.com/33cn/chain33/system/dapp/coins/types"
	"github.com/33cn/chain33/types"
	"github.com/33cn/chain33/util"
	"github.com/33cn/chain33/util/testnode"

	"verifharness/internal/gen"
)

type acct struct {
	priv crypto.PrivKey
	addr string
}

func coinsPayload(ty int32, amount int64, to, execName string) []byte {
	a := &cty.CoinsAction{Ty: ty}
	switch ty {
	case cty.CoinsActionTransfer:
		a.Value = &cty.CoinsAction_Transfer{Transfer: &types.AssetsTransfer{Amount: amount, To: to}}
	case cty.CoinsActionTransferToExec:
		a.Value = &cty.CoinsAction_TransferToExec{TransferToExec: &types.AssetsTransferToExec{Amount: amount, ExecName: execName, To: to}}
	case cty.CoinsActionWithdraw:
		a.Value = &cty.CoinsAction_Withdraw{Withdraw: &types.AssetsWithdraw{Amount: amount, ExecName: execName, To: to}}
	}
	return types.Encode(a)
}

// genChain generates the transactions of every block (deterministic in the seed); written to a file by the
// parent so that every child executes literally the same bytes.
func genChain(r *gen.Rand, cfg *types.Chain33Config, nBlocks int) [][]*types.Transaction {
	var accts []*acct
	for _, p := range util.TestPrivkeyList {
		accts = append(accts, &acct{priv: p, addr: address.PubKeyToAddr(address.DefaultID, p.PubKey().Bytes())})
	}
	var fresh []string
	for i := 0; i < 5; i++ {
		fresh = append(fresh, address.PubKeyToAddr(address.DefaultID, r.Bytes(33)))
	}
	fee := int64(1000000)
	mk := func(execer string, payload []byte, to string, from *acct) *types.Transaction {
		tx := &types.Transaction{Execer: []byte(execer), Payload: payload, To: to, Fee: fee, Nonce: int64(r.U64() >> 1), ChainID: cfg.GetChainID()}
		tx.Sign(types.SECP256K1, from.priv)
		return tx
	}
	anyAddr := func() string {
		if r.Chance(1, 3) {
			return fresh[r.Intn(len(fresh))]
		}
		return accts[r.Intn(len(accts))].addr
	}
	var chain [][]*types.Transaction
	for h := 1; h <= nBlocks; h++ {
		var txs []*types.Transaction
		if h == 1 {
			for _, a := range accts {
				if a != accts[1] {
					txs = append(txs, mk("coins", coinsPayload(cty.CoinsActionTransfer, 1000000000000, a.addr, ""), a.addr, accts[1]))
				}
			}
			chain = append(chain, txs)
			continue
		}
		n := 1 + r.Intn(8)
		if h%5 == 0 {
			n = 90 + r.Intn(60) // more than 80 leaves: the parallel path of GetMerkleRoot
		}
		for len(txs) < n {
			from := accts[r.Intn(len(accts))]
			switch r.Pick(5, 2, 2, 2, 2, 3, 2, 2) {
			case 0:
				to := anyAddr()
				txs = append(txs, mk("coins", coinsPayload(cty.CoinsActionTransfer, int64(1+r.Intn(1000))*100000, to, ""), to, from))
				out.Stat("tx_transfer", 1)
			case 1:
				to := anyAddr()
				txs = append(txs, mk("coins", coinsPayload(cty.CoinsActionTransfer, 900000000000000000, to, ""), to, from))
				out.Stat("tx_transfer_failing", 1)
			case 2:
				ex := []string{"none", "manage"}[r.Intn(2)]
				to := address.ExecAddress(ex)
				txs = append(txs, mk("coins", coinsPayload(cty.CoinsActionTransferToExec, int64(1+r.Intn(100))*100000, to, ex), to, from))
				out.Stat("tx_to_exec", 1)
			case 3:
				ex := []string{"none", "manage"}[r.Intn(2)]
				to := address.ExecAddress(ex)
				txs = append(txs, mk("coins", coinsPayload(cty.CoinsActionWithdraw, int64(1+r.Intn(100))*100000, to, ex), to, from))
				out.Stat("tx_withdraw", 1)
			case 4:
				v := &types.ModifyConfig{Key: "k" + fmt.Sprint(r.Intn(3)), Op: []string{"add", "delete"}[r.Intn(2)], Value: "v" + fmt.Sprint(r.Intn(4))}
				t0, err := types.LoadExecutorType("manage").Create("Modify", v)
				if err != nil {
					continue
				}
				txs = append(txs, mk("manage", t0.Payload, address.ExecAddress("manage"), accts[0]))
				out.Stat("tx_manage", 1)
			case 5:
				txs = append(txs, mk("none", r.Bytes(1+r.Intn(20)), address.ExecAddress("none"), from))
				out.Stat("tx_none", 1)
			case 6: // para-chain titled transactions: several child chains in the multi-layer merkle tree
				ex := []string{"user.p.aaa.none", "user.p.bbb.none", "user.p.ccc.coins"}[r.Intn(3)]
				txs = append(txs, mk(ex, r.Bytes(8), address.ExecAddress(ex), from))
				out.Stat("tx_para_title", 1)
			case 7:
				k := 2 + r.Intn(2)
				var g []*types.Transaction
				for j := 0; j < k; j++ {
					to := anyAddr()
					amt := int64(1+r.Intn(1000)) * 100000
					if r.Chance(1, 4) {
						amt = 900000000000000000
					}
					g = append(g, &types.Transaction{Execer: []byte("coins"), Payload: coinsPayload(cty.CoinsActionTransfer, amt, to, ""), To: to, Fee: fee, Nonce: int64(r.U64() >> 1), ChainID: cfg.GetChainID()})
				}
				grp, err := types.CreateTxGroup(g, cfg.GetMinTxFeeRate())
				if err != nil {
					continue
				}
				for j := range grp.Txs {
					_ = grp.SignN(j, types.SECP256K1, accts[r.Intn(len(accts))].priv)
				}
				txs = append(txs, grp.Txs...)
				out.Stat("tx_group", 1)
			}
		}
		chain = append(chain, txs)
	}
	return chain
}

// genBadBlocks: blocks that every node must REJECT as a peer block: one transaction carries a flipped signature byte,
// no signature at all, or somebody else's public key - at the first / middle / last position, as a single transaction
// or as a group member.
func genBadBlocks(r *gen.Rand, cfg *types.Chain33Config) ([][]*types.Transaction, []string) {
	var accts []*acct
	for _, p := range util.TestPrivkeyList {
		accts = append(accts, &acct{priv: p, addr: address.PubKeyToAddr(address.DefaultID, p.PubKey().Bytes())})
	}
	mk := func() *types.Transaction {
		from := accts[r.Intn(len(accts))]
		tx := &types.Transaction{Execer: []byte("none"), Payload: r.Bytes(6), To: address.ExecAddress("none"), Fee: 1000000, Nonce: int64(r.U64() >> 1), ChainID: cfg.GetChainID()}
		tx.Sign(types.SECP256K1, from.priv)
		return tx
	}
	corrupt := func(tx *types.Transaction, kind int) {
		switch kind {
		case 0:
			tx.Signature.Signature[7] ^= 0x20
		case 1:
			tx.Signature = nil
		case 2:
			tx.Signature.Pubkey = accts[5].priv.PubKey().Bytes()
			if string(tx.Signature.Pubkey) == string(accts[0].priv.PubKey().Bytes()) {
				tx.Signature.Pubkey = accts[4].priv.PubKey().Bytes()
			}
		}
	}
	var blocks [][]*types.Transaction
	var names []string
	for kind := 0; kind < 3; kind++ {
		for _, pos := range []string{"first", "middle", "last"} {
			for _, grp := range []bool{false, true} {
				n := 3 + r.Intn(6)
				var txs []*types.Transaction
				for i := 0; i < n; i++ {
					txs = append(txs, mk())
				}
				at := map[string]int{"first": 0, "middle": n / 2, "last": n - 1}[pos]
				if grp {
					var g []*types.Transaction
					for j := 0; j < 3; j++ {
						g = append(g, &types.Transaction{Execer: []byte("none"), Payload: r.Bytes(5), To: address.ExecAddress("none"), Fee: 1000000, Nonce: int64(r.U64() >> 1), ChainID: cfg.GetChainID()})
					}
					gg, err := types.CreateTxGroup(g, cfg.GetMinTxFeeRate())
					if err != nil {
						continue
					}
					for j := range gg.Txs {
						_ = gg.SignN(j, types.SECP256K1, accts[0].priv)
					}
					corrupt(gg.Txs[1+r.Intn(2)], kind)
					var nt []*types.Transaction
					nt = append(nt, txs[:at]...)
					nt = append(nt, gg.Txs...)
					nt = append(nt, txs[at:]...)
					if pos == "last" {
						nt = append(append([]*types.Transaction{}, txs...), gg.Txs...)
					}
					txs = nt
				} else {
					if kind == 2 {
						txs[at].Sign(types.SECP256K1, accts[0].priv)
					}
					corrupt(txs[at], kind)
				}
				blocks = append(blocks, txs)
				names = append(names, fmt.Sprintf("%s-%s-%s", []string{"flipped", "nosig", "wrongpub"}[kind], pos, map[bool]string{true: "group", false: "single"}[grp]))
			}
		}
	}
	return blocks, names
}

func writeChain(path string, chain [][]*types.Transaction) error {
	var sb strings.Builder
	for _, txs := range chain {
		var l []string
		for _, tx := range txs {
			l = append(l, hex.EncodeToString(types.Encode(tx)))
		}
		sb.WriteString(strings.Join(l, " "))
		sb.WriteString("\n")
	}
	return os.WriteFile(path, []byte(sb.String()), 0o600)
}

func readChain(path string) ([][]*types.Transaction, error) {
	f, err := os.Open(path)
	if err != nil {
		return nil, err
	}
	defer f.Close()
	var chain [][]*types.Transaction
	sc := bufio.NewScanner(f)
	sc.Buffer(make([]byte, 1<<20), 1<<28)
	for sc.Scan() {
		var txs []*types.Transaction
		for _, w := range strings.Fields(sc.Text()) {
			b, err := hex.DecodeString(w)
			if err != nil {
				return nil, err
			}
			tx := &types.Transaction{}
			if err := types.Decode(b, tx); err != nil {
				return nil, err
			}
			txs = append(txs, tx)
		}
		chain = append(chain, txs)
	}
	return chain, sc.Err()
}

// pluginMode: "" (default plugins + addrfeeindex), "stat" (enableStat: a flag-based plugin), "mvcc" (enableMVCC: a
// flag-based plugin; a node cannot execute height 1 with it, so only the genesis block is observed)
func pluginMode() string { return os.Getenv("VERIF_C13_PLUGINS") }

func newNode() (*testnode.Chain33Mock, *types.Chain33Config) {
	cfg := testnode.GetDefaultConfig()
	m := cfg.GetModuleConfig()
	m.Consensus.Minerstart = false
	m.Exec.EnableAddrFeeIndex = true
	switch pluginMode() {
	case "stat":
		m.Exec.EnableStat = true
	case "mvcc":
		m.Exec.EnableMVCC = true
	}
	if d := os.Getenv("VERIF_TMP"); d != "" {
		os.Setenv("TMPDIR", d)
	}
	return testnode.NewWithConfig(cfg, nil), cfg
}

func digest(parts ...[]byte) string {
	h := sha256.New()
	for _, p := range parts {
		h.Write([]byte(fmt.Sprintf("%d:", len(p))))
		h.Write(p)
	}
	return hex.EncodeToString(h.Sum(nil)[:10])
}

func digestKVs(kvs []*types.KeyValue) string {
	var parts [][]byte
	for _, kv := range kvs {
		parts = append(parts, kv.Key, kv.Value)
		if kv.Value == nil {
			parts = append(parts, []byte("nil"))
		}
	}
	return digest(parts...)
}

func execLocal(mock *testnode.Chain33Mock, detail *types.BlockDetail, del bool) string {
	ev := int64(types.EventAddBlock)
	if del {
		ev = types.EventDelBlock
	}
	cli := mock.GetClient()
	msg := cli.NewMessage("execs", ev, detail)
	if err := cli.Send(msg, true); err != nil {
		return "senderr"
	}
	resp, err := cli.Wait(msg)
	if err != nil {
		return "waiterr"
	}
	if set, ok := resp.GetData().(*types.LocalDBSet); ok {
		return digestKVs(set.KV)
	}
	return fmt.Sprintf("reply:%v", resp.GetData())
}

var storePrefixes = []string{"CHAIN-", "Hash:", "Body:", "Header:", "HH:", "TD:", "Height:", "Seq:", "HashToSeq:", "LastSequence",
	"blockLastHeight", "BlockChainVerKey", "push2subscribe:", "lastSeqNumPrefix:", "ParaSeq:", "HashToParaSeq:", "LastParaSequence",
	"BodyHashToChunk:", "ChunkNumToHash:", "ChunkHashToNum:", "RecvChunkNumToHash:", "MaxSilChunkNum:", "MaxDeletedChunkNum:", "snowman"}

// localDBDigest: every key/value of the chain database outside the block store proper (the persisted local write
// sets of all heights so far, flag keys of the plugins included).
func localDBDigest(mock *testnode.Chain33Mock) string {
	it := mock.GetBlockChain().GetDB().Iterator(nil, types.EmptyValue, false)
	defer it.Close()
	var parts [][]byte
outer:
	for it.Rewind(); it.Valid(); it.Next() {
		for _, p := range storePrefixes {
			if bytes.HasPrefix(it.Key(), []byte(p)) {
				continue outer
			}
		}
		parts = append(parts, append([]byte{}, it.Key()...), append([]byte{}, it.Value()...))
	}
	return digest(parts...)
}

// genesisLine: what executing height 0 left in the database (the write set as it was really emitted when this
// process created the chain) and what EventAddBlock / EventDelBlock return for it now.
func genesisLine(mock *testnode.Chain33Mock) string {
	g, err := mock.GetBlockChain().GetBlock(0)
	if err != nil {
		return "0 nogenesis"
	}
	return fmt.Sprintf("0 db:%s;l:%s;d:%s", localDBDigest(mock), execLocal(mock, g, false), execLocal(mock, g, true))
}

// priorActivity exercises everything process-global the execution path touches, with unrelated data.
func priorActivity(r *gen.Rand) {
	mock, cfg := newNode()
	// ANOTHER chain: its own genesis and blocks, executed by the process-global plugin instances and drivers
	chain := genChain(gen.New(r.U64()), cfg, 4)
	if pluginMode() == "mvcc" {
		chain = nil
	}
	_ = genesisLine(mock)
	runChain(mock, cfg, chain, func(string) {})
	mock.Close()
	for i := 0; i < 2000; i++ {
		a := address.PubKeyToAddr(int32(r.Intn(3)), r.Bytes(33))
		_ = address.CheckAddress(a, int64(r.Intn(100)))
		_ = address.ExecAddress("user.p." + a[:6] + ".none")
	}
	var hashes [][]byte
	for i := 0; i < 300; i++ {
		hashes = append(hashes, r.Bytes(32))
	}
	_ = merkle.GetMerkleRoot(hashes)
	for i := 0; i < 200; i++ {
		t := types.NewTx()
		t.Payload = r.Bytes(50)
		_ = t.Hash()
		types.FreeTx(t)
	}
	runtime.GC()
}

// runChain executes and connects the chain; emit gets one line per block.
func runChain(mock *testnode.Chain33Mock, cfg *types.Chain33Config, chain [][]*types.Transaction, emit func(string)) {
	for _, txs := range chain {
		parent := mock.GetLastBlock()
		mkBlock := func() *types.Block {
			b := &types.Block{Height: parent.Height + 1, BlockTime: parent.BlockTime + 1, ParentHash: parent.Hash(cfg), Difficulty: parent.Difficulty}
			for _, tx := range txs {
				b.Txs = append(b.Txs, tx.Clone())
			}
			if cfg.IsFork(b.Height, "ForkRootHash") {
				b.Txs = types.TransactionSort(b.Txs)
			}
			b.TxHash = merkle.CalcMerkleRoot(cfg, b.Height, b.Txs)
			return b
		}
		var lines []string
		var detail *types.BlockDetail
		for rep := 0; rep < 2; rep++ {
			d, _, err := util.PreExecBlock(mock.GetClient(), parent.StateHash, mkBlock(), false, true, false)
			if err != nil {
				lines = append(lines, "error:"+err.Error())
				continue
			}
			_ = util.ExecKVSetRollback(mock.GetClient(), d.Block.StateHash)
			var rparts [][]byte
			for _, rc := range d.Receipts {
				rparts = append(rparts, types.Encode(rc))
			}
			root, _ := merkle.CalcMultiLayerMerkleInfo(cfg, d.Block.Height, d.Block.Txs)
			lines = append(lines, fmt.Sprintf("r:%s;k:%s;s:%s;t:%s;m:%s;l:%s", digest(rparts...), digestKVs(d.KV),
				hex.EncodeToString(d.Block.StateHash[:10]), hex.EncodeToString(d.Block.TxHash[:10]), hex.EncodeToString(root[:min(10, len(root))]),
				execLocal(mock, d, false)))
			detail = d
		}
		if len(lines) == 2 && lines[0] != lines[1] {
			emit(fmt.Sprintf("%d INPROCESS-MISMATCH %s %s", parent.Height+1, lines[0], lines[1]))
		}
		if detail == nil {
			emit(fmt.Sprintf("%d %s", parent.Height+1, lines[0]))
			return
		}
		if _, _, _, err := mock.GetBlockChain().ProcessBlock(false, &types.BlockDetail{Block: types.Clone(detail.Block).(*types.Block)}, "peer1", true, 0); err != nil {
			emit(fmt.Sprintf("%d connect-error:%v", parent.Height+1, err))
			return
		}
		stored, err := mock.GetBlockChain().GetBlock(parent.Height + 1)
		dl := "nostored"
		if err == nil {
			dl = execLocal(mock, stored, true)
		}
		emit(fmt.Sprintf("%d %s;d:%s", parent.Height+1, lines[0], dl))
	}
}

func childMain() {
	chain, err := readChain(os.Getenv("VERIF_C13_CHAIN"))
	if err != nil {
		fmt.Println("child-error", err)
		os.Exit(3)
	}
	if os.Getenv("VERIF_C13_WARM") == "1" {
		priorActivity(gen.New(gen.Seed() + 99))
	}
	mock, cfg := newNode()
	defer mock.Close()
	w := bufio.NewWriter(os.Stdout)
	defer w.Flush()
	fmt.Fprintf(w, "env gomaxprocs=%d numcpu=%d plugins=%q\n", runtime.GOMAXPROCS(0), runtime.NumCPU(), pluginMode())
	fmt.Fprintln(w, "blk", genesisLine(mock))
	if pluginMode() == "mvcc" {
		chain = nil
	}
	runChain(mock, cfg, chain, func(s string) { fmt.Fprintln(w, "blk", s) })
	fmt.Fprintln(w, "blk", fmt.Sprintf("%d db:%s", len(chain)+1, localDBDigest(mock)))
	if bad, err := readChain(os.Getenv("VERIF_C13_BAD")); err == nil && pluginMode() != "mvcc" {
		runBad(mock, cfg, bad, w)
	}
}

// runBad: blocks with an invalid signature on top of the tip; verdicts of Block.CheckSign and of PreExecBlock as a peer
// block (errReturn=true) and as the node's own block (errReturn=false, signatures are not looked at).
func runBad(mock *testnode.Chain33Mock, cfg *types.Chain33Config, bad [][]*types.Transaction, w *bufio.Writer) {
	parent := mock.GetLastBlock()
	for i, txs := range bad {
		mk := func() *types.Block {
			b := &types.Block{Height: parent.Height + 1, BlockTime: parent.BlockTime + 1, ParentHash: parent.Hash(cfg), Difficulty: parent.Difficulty}
			for _, tx := range txs {
				b.Txs = append(b.Txs, tx.Clone())
			}
			if cfg.IsFork(b.Height, "ForkRootHash") {
				b.Txs = types.TransactionSort(b.Txs)
			}
			b.TxHash = merkle.CalcMerkleRoot(cfg, b.Height, b.Txs)
			return b
		}
		cs := gen.Guard(func() string { return fmt.Sprint(mk().CheckSign(cfg)) })
		verdict := func(errReturn bool) string {
			return gen.Guard(func() string {
				d, _, err := util.PreExecBlock(mock.GetClient(), parent.StateHash, mk(), errReturn, true, false)
				if err != nil {
					return err.Error()
				}
				_ = util.ExecKVSetRollback(mock.GetClient(), d.Block.StateHash)
				var rparts [][]byte
				for _, rc := range d.Receipts {
					rparts = append(rparts, types.Encode(rc))
				}
				return "accepted/" + digest(rparts...) + "/" + hex.EncodeToString(d.Block.StateHash[:8])
			})
		}
		peer, own := verdict(true), verdict(false)
		fmt.Fprintf(w, "blk bad%02d cs:%s;peer:%s;own:%s\n", i, cs, strings.ReplaceAll(peer, " ", "_"), strings.ReplaceAll(own, " ", "_"))
		if cs != "false" || peer != types.ErrSign.Error() {
			fmt.Fprintf(w, "pred C13|verifyTxsSignature|invalid-signature-accepted | bad block %d: CheckSign=%s peer-block verdict=%s GOMAXPROCS=%d NumCPU=%d\n",
				i, cs, peer, runtime.GOMAXPROCS(0), runtime.NumCPU())
		}
	}
}

type childCfg struct {
	name     string
	maxprocs int
	cpus     int
	warm     bool
	plugins  string
}

func runChild(c childCfg, chainFile string) ([]string, string, error) {
	childPreds = nil
	self, err := os.Executable()
	if err != nil {
		return nil, "", err
	}
	var cmd *exec.Cmd
	ncpu := runtime.NumCPU()
	if c.cpus > 0 && c.cpus < ncpu {
		if ts, err := exec.LookPath("taskset"); err == nil {
			cmd = exec.Command(ts, "-c", fmt.Sprintf("0-%d", c.cpus-1), self)
		}
	}
	if cmd == nil {
		cmd = exec.Command(self)
	}
	cmd.Env = append(os.Environ(), "VERIF_C13_MODE=child", "VERIF_C13_CHAIN="+chainFile, "VERIF_C13_BAD="+chainFile+".bad", fmt.Sprintf("GOMAXPROCS=%d", c.maxprocs))
	if c.warm {
		cmd.Env = append(cmd.Env, "VERIF_C13_WARM=1")
	}
	cmd.Env = append(cmd.Env, "VERIF_C13_PLUGINS="+c.plugins)
	var stdout, stderr bytes.Buffer
	cmd.Stdout, cmd.Stderr = &stdout, &stderr
	err = cmd.Run()
	var lines []string
	env := ""
	for _, l := range strings.Split(stdout.String(), "\n") {
		if strings.HasPrefix(l, "blk ") {
			lines = append(lines, l[4:])
		} else if strings.HasPrefix(l, "env ") {
			env = l[4:]
		} else if strings.HasPrefix(l, "pred ") {
			childPreds = append(childPreds, l[5:])
		}
	}
	if err != nil {
		return lines, env, fmt.Errorf("%v: %s", err, tail(stderr.String(), 400))
	}
	return lines, env, nil
}

var childPreds []string

func tail(s string, n int) string {
	if len(s) > n {
		return s[len(s)-n:]
	}
	return s
}

func repeatedExecution() {
	r := gen.New(gen.Seed()*31 + 5)
	cfg := testnode.GetDefaultConfig()
	chain := genChain(r, cfg, gen.Scale(10, 60))
	dir := os.Getenv("VERIF_TMP")
	if dir == "" {
		dir = os.TempDir()
	}
	chainFile := dir + "/c13chain.txt"
	if err := writeChain(chainFile, chain); err != nil {
		panic(err)
	}
	badBlocks, badNames := genBadBlocks(r, cfg)
	if err := writeChain(chainFile+".bad", badBlocks); err != nil {
		panic(err)
	}
	defer os.Remove(chainFile + ".bad")
	out.Stat("bad_blocks", int64(len(badBlocks)))
	out.Sample("blocks that must be rejected: " + strings.Join(badNames, " "))
	ntx := 0
	for _, b := range chain {
		ntx += len(b)
	}
	out.Stat("chain_blocks", int64(len(chain)))
	out.Stat("chain_txs", int64(ntx))
	var cfgs []childCfg
	if gen.Thorough() {
		for _, mp := range []int{1, 2, 4, 16} {
			for _, cp := range []int{1, 2, 0} {
				for _, w := range []bool{false, true} {
					cfgs = append(cfgs, childCfg{fmt.Sprintf("gomaxprocs%d-cpus%d-warm%v", mp, cp, w), mp, cp, w, ""})
				}
			}
		}
		for _, pl := range []string{"stat", "mvcc"} {
			for _, mp := range []int{1, 16} {
				for _, w := range []bool{false, true} {
					cfgs = append(cfgs, childCfg{fmt.Sprintf("%s-gomaxprocs%d-warm%v", pl, mp, w), mp, 0, w, pl})
				}
			}
		}
	} else {
		cfgs = []childCfg{{"gomaxprocs1-cpus1-fresh", 1, 1, false, ""}, {"gomaxprocs16-cpusall-fresh", 16, 0, false, ""},
			{"gomaxprocs2-cpus2-warm", 2, 2, true, ""}, {"gomaxprocs4-cpus1-warm", 4, 1, true, ""}, {"gomaxprocs1-cpusall-fresh", 1, 0, false, ""},
			{"stat-fresh", 2, 0, false, "stat"}, {"stat-warm", 2, 0, true, "stat"},
			{"mvcc-fresh", 2, 0, false, "mvcc"}, {"mvcc-warm", 2, 0, true, "mvcc"}}
	}
	refs := map[string][]string{}
	refNames := map[string]string{}
	for _, c := range cfgs {
		ref, refName := refs[c.plugins], refNames[c.plugins]
		lines, env, err := runChild(c, chainFile)
		out.Stat("child_runs", 1)
		if err != nil {
			out.Pred("C13|harness|child-failed", fmt.Sprintf("%s: %v", c.name, err))
			continue
		}
		out.Sample(fmt.Sprintf("child %s: %s, %d blocks", c.name, env, len(lines)))
		for _, p := range childPreds {
			f := strings.SplitN(p, " | ", 2)
			if len(f) == 2 {
				out.Pred(f[0], c.name+": "+f[1])
			}
		}
		for _, l := range lines {
			f := strings.SplitN(l, " ", 2)
			if len(f) != 2 {
				continue
			}
			if strings.HasPrefix(f[1], "INPROCESS-MISMATCH") {
				out.Pred("C13|PreExecBlock|differs-between-executions-in-one-process", fmt.Sprintf("%s block %s: %s", c.name, f[0], f[1]))
				continue
			}
			out.Op(fmt.Sprintf("blk plugins-%s %s %s", c.plugins, f[0], f[1]), f[1])
			out.Stat("block_executions_compared", 1)
		}
		if ref == nil {
			refs[c.plugins], refNames[c.plugins] = lines, c.name
			continue
		}
		for i := 0; i < len(ref) || i < len(lines); i++ {
			a, b := "<missing>", "<missing>"
			if i < len(ref) {
				a = ref[i]
			}
			if i < len(lines) {
				b = lines[i]
			}
			if a != b {
				out.Pred("C13|"+component(a, b)+"|differs-between-runs", fmt.Sprintf("%s vs %s: %q != %q", refName, c.name, a, b))
				break
			}
		}
	}
	os.Remove(chainFile)
}

// component names the first digest field in which two block lines differ.
func component(a, b string) string {
	names := map[string]string{"db": "local-database", "r": "receipts", "k": "state-kv-set", "s": "state-root", "t": "tx-root", "m": "multi-layer-root", "l": "local-kv-add", "d": "local-kv-del"}
	fa := strings.Split(strings.SplitN(a+" ", " ", 2)[1], ";")
	fb := strings.Split(strings.SplitN(b+" ", " ", 2)[1], ";")
	for i := 0; i < len(fa) && i < len(fb); i++ {
		if fa[i] != fb[i] {
			if n, ok := names[strings.SplitN(fa[i], ":", 2)[0]]; ok {
				return n
			}
		}
	}
	return "block-line"
}
