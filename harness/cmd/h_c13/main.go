// h_c13 — block execution is deterministic.
//   1. site list: every range-over-map, go statement, multi-way select, clock / rand use and package-level cache
//      reachable from procExecTxList / procExecAddBlock / procExecDelBlock / PreExecBlock / ExecBlock is extracted
//      from /repo's current source (sites.go) and must be exactly the list committed in the Lean model
//      (C13.expectedSites, each entry naming the theorem that models it or why it is benign);
//   2. the modelled functions are compared with the real ones (sort.Strings order, util.DelDupKey, executor.checkKV,
//      types.VerifySignature);
//   3. repeated execution (exec.go): the property predicate itself.
package main

import (
	"crypto/sha256"
	"encoding/hex"
	"fmt"
	"os"
	"path/filepath"
	"sort"
	"strings"

	"github.com/33cn/chain33/executor"
	"github.com/33cn/chain33/queue"
	_ "github.com/33cn/chain33/system"
	"github.com/33cn/chain33/types"
	"github.com/33cn/chain33/util"
	"github.com/33cn/chain33/util/testnode"

	"verifharness/internal/gen"
	_ "verifharness/internal/quiet"
)

var out = gen.NewOut()

func repoDir() string {
	if d := os.Getenv("VERIF_REPO"); d != "" {
		return d
	}
	return "/repo"
}

func hxb(b []byte) string {
	if len(b) == 0 {
		return "-"
	}
	return hex.EncodeToString(b)
}

// cachedSites: the extraction (go list -export + type checking, tens of seconds on a loaded machine) is keyed by the
// content of every non-test Go file of the analysed packages plus go.mod; a changed file always re-extracts.
// extractorVersion is part of the cache key: bump it whenever sites.go changes what it lists.
const extractorVersion = "5-actionmaps"

func cachedSites(repo string) ([]string, error) {
	h := sha256.New()
	fmt.Fprintf(h, "extractor %s %v\n", extractorVersion, sitePkgs)
	files := []string{filepath.Join(repo, "go.mod")}
	for _, p := range sitePkgs {
		m, _ := filepath.Glob(filepath.Join(repo, p, "*.go"))
		sort.Strings(m)
		for _, f := range m {
			if !strings.HasSuffix(f, "_test.go") {
				files = append(files, f)
			}
		}
	}
	for _, f := range files {
		b, err := os.ReadFile(f)
		if err != nil {
			return nil, err
		}
		fmt.Fprintf(h, "%s %d\n", f, len(b))
		h.Write(b)
	}
	self, _ := os.Executable()
	cache := filepath.Join(filepath.Dir(filepath.Dir(self)), "c13sites."+hex.EncodeToString(h.Sum(nil)[:12])+".txt")
	if os.Getenv("VERIF_C13_NOCACHE") == "" {
		if b, err := os.ReadFile(cache); err == nil && len(b) > 0 {
			out.Stat("sites_from_cache", 1)
			return strings.Split(strings.TrimRight(string(b), "\n"), "\n"), nil
		}
	}
	sites, err := extractSites(repo)
	if err == nil {
		_ = os.WriteFile(cache, []byte(strings.Join(sites, "\n")+"\n"), 0o644)
	}
	return sites, err
}

func siteTie() {
	sites, err := cachedSites(repoDir())
	if err != nil {
		out.Op("sitecount -1", "extractor-failed")
		out.Note("extractor: " + err.Error())
		return
	}
	var real []string
	for _, s := range sites {
		if strings.HasPrefix(s, "actionmap ") {
			f := strings.Fields(s)
			vals := "-"
			if len(f) > 3 {
				vals = f[3]
			}
			out.Op("actionmap "+f[1]+" "+f[2]+" "+vals, "injective")
			out.Stat("action_maps", 1)
			continue
		}
		real = append(real, s)
		out.Op("site "+s, "listed")
	}
	sites = real
	out.Op(fmt.Sprintf("sitecount %d", len(sites)), "ok")
	for _, s := range sites {
		out.Stat("sites_"+strings.SplitN(s, " ", 2)[0], 1)
	}
}

func functionTie(r *gen.Rand) {
	n := gen.Scale(300, 20000)
	alphabet := []byte("abAB.-0")
	name := func() []byte { return r.BytesFrom(alphabet, r.Intn(5)) }
	for i := 0; i < n; i++ {
		// sort.Strings
		var names []string
		for j := r.Intn(7); j > 0; j-- {
			names = append(names, string(name()))
		}
		var hs []string
		for _, s := range names {
			hs = append(hs, hxb([]byte(s)))
		}
		sorted := append([]string{}, names...)
		sort.Strings(sorted)
		var ss []string
		for _, s := range sorted {
			ss = append(ss, hxb([]byte(s)))
		}
		j := func(l []string) string {
			if len(l) == 0 {
				return "-"
			}
			return strings.Join(l, ",")
		}
		out.Op("sort "+j(hs), j(ss))
		// DelDupKey
		var kvs []*types.KeyValue
		var ins []string
		for k := r.Intn(9); k > 0; k-- {
			kv := &types.KeyValue{Key: append([]byte("k"), name()...), Value: r.Bytes(1 + r.Intn(2))}
			kvs = append(kvs, kv)
			ins = append(ins, hxb(kv.Key)+":"+hxb(kv.Value))
		}
		res := util.DelDupKey(kvs)
		var outs []string
		for _, kv := range res {
			outs = append(outs, hxb(kv.Key)+":"+hxb(kv.Value))
		}
		out.Op("deldup "+j(ins), j(outs))
	}
	// checkKV on the real executor environment
	cfg := testnode.GetDefaultConfig()
	q := queue.New("channel")
	q.SetConfig(cfg)
	env := executor.VerifNewEnv(executor.VerifNewExecutor(cfg, q), 5)
	for i := 0; i < n; i++ {
		var mem []string
		var mh []string
		for k := r.Intn(5); k > 0; k-- {
			s := "k" + string(name())
			mem = append(mem, s)
			mh = append(mh, hxb([]byte(s)))
		}
		var kvs []*types.KeyValue
		var ks []string
		for k := r.Intn(6); k > 0; k-- {
			kv := &types.KeyValue{Key: append([]byte("k"), name()...), Value: []byte{1}}
			kvs = append(kvs, kv)
			ks = append(ks, hxb(kv.Key)+":01")
		}
		res := "ok"
		if err := env.CheckKV(mem, kvs); err != nil {
			res = err.Error()
		}
		j := func(l []string) string {
			if len(l) == 0 {
				return "-"
			}
			return strings.Join(l, ",")
		}
		out.Op("checkkv "+j(mh)+" "+j(ks), res)
	}
	q.Close()
	// VerifySignature: some signatures corrupted, every list verified several times
	priv := util.TestPrivkeyList[0]
	for i := 0; i < gen.Scale(25, 400); i++ {
		k := 1 + r.Intn(40)
		var txs []*types.Transaction
		var bits []string
		for j := 0; j < k; j++ {
			tx := &types.Transaction{Execer: []byte("none"), Payload: r.Bytes(6), Fee: 1, Nonce: int64(r.U64() >> 1)}
			tx.Sign(types.SECP256K1, priv)
			good := !r.Chance(1, 12)
			if !good {
				tx.Signature.Signature[5] ^= 0x40
			}
			txs = append(txs, tx)
			bits = append(bits, map[bool]string{true: "1", false: "0"}[good])
		}
		for rep := 0; rep < 3; rep++ {
			res := types.VerifySignature(cfg, &types.Block{Height: 3}, txs)
			out.Op("verify "+strings.Join(bits, " "), fmt.Sprint(res))
		}
	}
}

func main() {
	defer out.Flush()
	switch os.Getenv("VERIF_C13_MODE") {
	case "child":
		childMain()
	case "sites-print":
		sites, err := extractSites(repoDir())
		if err != nil {
			fmt.Fprintln(os.Stderr, "extract:", err)
			os.Exit(2)
		}
		for _, s := range sites {
			fmt.Println(s)
		}
	case "sites":
		siteTie()
	case "functions":
		functionTie(gen.New(gen.Seed()*17 + 3))
	default:
		repeatedExecution()
	}
}
