package main

// Site extractor (go/packages + go/types, static call graph with class-hierarchy resolution of interface calls
// inside the loaded packages): from /repo's CURRENT source, every source of run-to-run variation reachable from
// the block-execution entry points:
//   range-map   `range` over a map
//   go          `go` statement
//   select      `select` with more than one communication case (pseudo-random choice)
//   clock       time.Now / types.Now / time.Since ...
//   rand        math/rand, crypto/rand
//   global      use of a package-level map / sync.Pool / sync.Once / lru cache variable
//   global-write  assignment to / increment of any package-level variable
//   ncpu          use of runtime.NumCPU / runtime.GOMAXPROCS, with the text of the statement that uses it (the
//                 worker-count expression of a parallel helper)
//   field-write   assignment to a field of a value whose type may be reachable from a package-level variable
//                 (e.g. the plugin instances registered in executor.globalPlugins)
// A site is named by package-relative file, enclosing function and an ordinal inside the function (no line
// numbers, so unrelated edits do not move it).

import (
	"fmt"
	"go/ast"
	"go/printer"
	"go/token"
	"go/types"
	"os"
	"path/filepath"
	"sort"
	"strings"

	"golang.org/x/tools/go/packages"
)

var sitePkgs = []string{
	"./executor", "./util", "./types", "./common/merkle", "./common/db", "./account", "./system/dapp",
	"./system/dapp/coins/executor", "./system/dapp/coins/types", "./system/dapp/none/executor", "./system/dapp/none/types",
	"./system/dapp/manage/executor", "./system/dapp/manage/types", "./common/address", "./system/address/btc",
	"./system/address/eth", "./common/crypto", "./common", "./pluginmgr", "./client/api",
}

// entry points (package path suffix, receiver, name)
var siteRoots = []string{
	"executor.Executor.procExecTxList", "executor.Executor.procExecAddBlock", "executor.Executor.procExecDelBlock",
	"util.PreExecBlock", "util.ExecBlock",
}

type fnNode struct {
	key   string // pkg.Recv.Name
	decl  *ast.FuncDecl
	pkg   *packages.Package
	obj   *types.Func
	calls map[string]bool
}

func fnKey(f *types.Func) string {
	sig := f.Type().(*types.Signature)
	pkg := ""
	if f.Pkg() != nil {
		pkg = f.Pkg().Name()
	}
	if r := sig.Recv(); r != nil {
		t := r.Type()
		if p, ok := t.(*types.Pointer); ok {
			t = p.Elem()
		}
		if n, ok := t.(*types.Named); ok {
			return pkg + "." + n.Obj().Name() + "." + f.Name()
		}
		return pkg + ".?." + f.Name()
	}
	return pkg + "." + f.Name()
}

// enclosingStmt prints the innermost simple statement (assignment, declaration, expression, if/for header) around pos.
func enclosingStmt(fset *token.FileSet, body *ast.BlockStmt, pos token.Pos) string {
	var best ast.Node
	ast.Inspect(body, func(x ast.Node) bool {
		if x == nil || pos < x.Pos() || pos >= x.End() {
			return x == nil || (pos >= x.Pos() && pos < x.End())
		}
		switch s := x.(type) {
		case *ast.AssignStmt, *ast.ExprStmt, *ast.DeclStmt, *ast.ReturnStmt, *ast.IncDecStmt:
			best = s
		case *ast.IfStmt:
			if s.Cond != nil && pos >= s.Cond.Pos() && pos < s.Cond.End() {
				best = s.Cond
			}
		case *ast.ForStmt:
			if s.Cond != nil && pos >= s.Cond.Pos() && pos < s.Cond.End() {
				best = s.Cond
			}
		}
		return true
	})
	if best == nil {
		return "?"
	}
	var sb strings.Builder
	_ = printer.Fprint(&sb, fset, best)
	return strings.Join(strings.Fields(sb.String()), " ")
}

// rootIdent strips index, field, dereference and parentheses from an assignment target.
func rootIdent(info *types.Info, e ast.Expr) *ast.Ident {
	for {
		switch x := e.(type) {
		case *ast.Ident:
			return x
		case *ast.IndexExpr:
			e = x.X
		case *ast.SelectorExpr:
			if id, ok := x.X.(*ast.Ident); ok {
				if _, isPkg := info.Uses[id].(*types.PkgName); isPkg {
					return x.Sel // otherpkg.Var
				}
			}
			e = x.X
		case *ast.StarExpr:
			e = x.X
		case *ast.ParenExpr:
			e = x.X
		default:
			return nil
		}
	}
}

func extractSites(repo string) ([]string, error) {
	cfg := &packages.Config{
		Mode: packages.NeedName | packages.NeedFiles | packages.NeedSyntax | packages.NeedTypes | packages.NeedTypesInfo | packages.NeedImports,
		Dir:  repo,
		Env:  append(os.Environ(), "GOFLAGS=-mod=mod"),
	}
	pkgs, err := packages.Load(cfg, sitePkgs...)
	if err != nil {
		return nil, err
	}
	for _, p := range pkgs {
		if len(p.Errors) > 0 {
			return nil, fmt.Errorf("load %s: %v", p.PkgPath, p.Errors[0])
		}
	}
	nodes := map[string]*fnNode{}
	byObj := map[*types.Func]*fnNode{}
	var named []*types.Named
	for _, p := range pkgs {
		for _, f := range p.Syntax {
			fname := p.Fset.Position(f.Pos()).Filename
			if strings.HasSuffix(fname, "_test.go") || strings.HasSuffix(fname, "_verif.go") || strings.HasSuffix(fname, ".pb.go") {
				continue
			}
			for _, d := range f.Decls {
				fd, ok := d.(*ast.FuncDecl)
				if !ok || fd.Body == nil {
					continue
				}
				obj, _ := p.TypesInfo.Defs[fd.Name].(*types.Func)
				if obj == nil {
					continue
				}
				n := &fnNode{key: fnKey(obj), decl: fd, pkg: p, obj: obj, calls: map[string]bool{}}
				nodes[n.key] = n
				byObj[obj] = n
			}
		}
		sc := p.Types.Scope()
		for _, name := range sc.Names() {
			if tn, ok := sc.Lookup(name).(*types.TypeName); ok {
				if nt, ok := tn.Type().(*types.Named); ok {
					named = append(named, nt)
				}
			}
		}
	}
	// G: named types whose instances may be reachable from a package-level variable (closure over the variable
	// types: pointers, containers, struct fields; a non-empty interface stands for every loaded type implementing it)
	loadedPkg := map[*types.Package]bool{}
	for _, p := range pkgs {
		loadedPkg[p.Types] = true
	}
	inG := map[*types.Named]bool{}
	seenT := map[types.Type]bool{}
	var visit func(t types.Type)
	visit = func(t types.Type) {
		if t == nil || seenT[t] {
			return
		}
		seenT[t] = true
		switch x := t.(type) {
		case *types.Named:
			if x.Obj().Pkg() != nil && loadedPkg[x.Obj().Pkg()] {
				inG[x] = true
				visit(x.Underlying())
			}
		case *types.Pointer:
			visit(x.Elem())
		case *types.Slice:
			visit(x.Elem())
		case *types.Array:
			visit(x.Elem())
		case *types.Map:
			visit(x.Key())
			visit(x.Elem())
		case *types.Chan:
			visit(x.Elem())
		case *types.Struct:
			for i := 0; i < x.NumFields(); i++ {
				visit(x.Field(i).Type())
			}
		case *types.Interface:
			if x.NumMethods() == 0 {
				return
			}
			for _, nt := range named {
				if _, isIface := nt.Underlying().(*types.Interface); isIface {
					continue
				}
				if types.Implements(nt, x) || types.Implements(types.NewPointer(nt), x) {
					visit(nt)
				}
			}
		}
	}
	for _, p := range pkgs {
		sc := p.Types.Scope()
		for _, name := range sc.Names() {
			if v, ok := sc.Lookup(name).(*types.Var); ok {
				visit(v.Type())
			}
		}
	}
	// fieldOfG: the assignment target is a field (possibly nested / indexed) of a value whose named type is in G
	fieldOfG := func(info *types.Info, e ast.Expr) string {
		for {
			switch x := e.(type) {
			case *ast.SelectorExpr:
				if sel, ok := info.Selections[x]; ok && sel.Kind() == types.FieldVal {
					t := sel.Recv()
					if p, ok := t.(*types.Pointer); ok {
						t = p.Elem()
					}
					if nt, ok := t.(*types.Named); ok && inG[nt] {
						return nt.Obj().Name() + "." + x.Sel.Name
					}
				}
				e = x.X
			case *ast.IndexExpr:
				e = x.X
			case *ast.StarExpr:
				e = x.X
			case *ast.ParenExpr:
				e = x.X
			default:
				return ""
			}
		}
	}
	// implementers of an interface method among the loaded packages
	implCache := map[string][]string{}
	impls := func(iface *types.Interface, method string) []string {
		ck := iface.String() + "#" + method
		if v, ok := implCache[ck]; ok {
			return v
		}
		var out []string
		for _, nt := range named {
			if _, isIface := nt.Underlying().(*types.Interface); isIface {
				continue
			}
			for _, t := range []types.Type{nt, types.NewPointer(nt)} {
				if types.Implements(t, iface) {
					ms := types.NewMethodSet(t)
					if sel := ms.Lookup(nt.Obj().Pkg(), method); sel != nil {
						if f, ok := sel.Obj().(*types.Func); ok {
							out = append(out, fnKey(f))
						}
					}
					break
				}
			}
		}
		implCache[ck] = out
		return out
	}
	// edges
	for _, n := range nodes {
		info := n.pkg.TypesInfo
		ast.Inspect(n.decl.Body, func(x ast.Node) bool {
			switch e := x.(type) {
			case *ast.SelectorExpr:
				if sel, ok := info.Selections[e]; ok && (sel.Kind() == types.MethodVal || sel.Kind() == types.MethodExpr) {
					f := sel.Obj().(*types.Func)
					if iface, ok := sel.Recv().Underlying().(*types.Interface); ok {
						for _, k := range impls(iface, f.Name()) {
							n.calls[k] = true
						}
					} else {
						n.calls[fnKey(f)] = true
					}
				} else if f, ok := info.Uses[e.Sel].(*types.Func); ok {
					n.calls[fnKey(f)] = true
				}
			case *ast.Ident:
				if f, ok := info.Uses[e].(*types.Func); ok {
					n.calls[fnKey(f)] = true
				}
			}
			return true
		})
	}
	// reachability; the dapp drivers are called through reflection (funcmap): every Exec_/ExecLocal_/ExecDelLocal_/
	// CheckTx method of the loaded executors is an entry point as well
	reach := map[string]bool{}
	var stack []string
	push := func(k string) {
		if _, ok := nodes[k]; ok && !reach[k] {
			reach[k] = true
			stack = append(stack, k)
		}
	}
	for _, r := range siteRoots {
		if _, ok := nodes[r]; !ok {
			return nil, fmt.Errorf("entry point %s not found", r)
		}
		push(r)
	}
	for k, n := range nodes {
		if strings.HasSuffix(n.pkg.PkgPath, "/executor") && n.pkg.Name == "executor" && n.obj.Type().(*types.Signature).Recv() != nil {
			nm := n.obj.Name()
			if strings.HasPrefix(nm, "Exec_") || strings.HasPrefix(nm, "ExecLocal_") || strings.HasPrefix(nm, "ExecDelLocal_") {
				push(k)
			}
		}
	}
	for len(stack) > 0 {
		k := stack[len(stack)-1]
		stack = stack[:len(stack)-1]
		for c := range nodes[k].calls {
			push(c)
		}
	}
	// sites
	var sites []string
	for k := range reach {
		n := nodes[k]
		info := n.pkg.TypesInfo
		rel, _ := filepath.Rel(repo, n.pkg.Fset.Position(n.decl.Pos()).Filename)
		ord := map[string]int{}
		add := func(kind, detail string) {
			ord[kind+detail]++
			s := fmt.Sprintf("%s %s %s %s", kind, rel, strings.SplitN(k, ".", 2)[1], detail)
			if ord[kind+detail] > 1 {
				s += fmt.Sprintf("#%d", ord[kind+detail])
			}
			sites = append(sites, s)
		}
		exprStr := func(e ast.Expr) string { return types.ExprString(e) }
		ast.Inspect(n.decl.Body, func(x ast.Node) bool {
			switch e := x.(type) {
			case *ast.RangeStmt:
				if t := info.TypeOf(e.X); t != nil {
					if _, ok := t.Underlying().(*types.Map); ok {
						add("range-map", exprStr(e.X))
					}
				}
			case *ast.AssignStmt:
				for _, l := range e.Lhs {
					if f := fieldOfG(info, l); f != "" {
						add("field-write", f)
					}
					if id := rootIdent(info, l); id != nil {
						if v, ok := info.Uses[id].(*types.Var); ok && v.Pkg() != nil && v.Parent() == v.Pkg().Scope() {
							add("global-write", v.Pkg().Name()+"."+v.Name())
						}
					}
				}
			case *ast.IncDecStmt:
				if f := fieldOfG(info, e.X); f != "" {
					add("field-write", f)
				}
				if id := rootIdent(info, e.X); id != nil {
					if v, ok := info.Uses[id].(*types.Var); ok && v.Pkg() != nil && v.Parent() == v.Pkg().Scope() {
						add("global-write", v.Pkg().Name()+"."+v.Name())
					}
				}
			case *ast.GoStmt:
				add("go", "")
			case *ast.SelectStmt:
				nc := 0
				for _, c := range e.Body.List {
					if cc, ok := c.(*ast.CommClause); ok && cc.Comm != nil {
						nc++
					}
				}
				if nc > 1 {
					add("select", fmt.Sprint(nc, "-way"))
				}
			case *ast.SelectorExpr:
				if f, ok := info.Uses[e.Sel].(*types.Func); ok && f.Pkg() != nil {
					p := f.Pkg().Path()
					switch {
					case p == "time" && (f.Name() == "Now" || f.Name() == "Since" || f.Name() == "Until"):
						add("clock", "time."+f.Name())
					case strings.HasSuffix(p, "chain33/types") && (f.Name() == "Now" || f.Name() == "Since"):
						add("clock", "types."+f.Name())
					case p == "math/rand" || p == "crypto/rand":
						add("rand", p+"."+f.Name())
					case p == "runtime" && (f.Name() == "NumCPU" || f.Name() == "GOMAXPROCS"):
						// the worker-count expression itself is part of the site: changing it changes the list
						add("ncpu", "runtime."+f.Name()+" in `"+enclosingStmt(n.pkg.Fset, n.decl.Body, e.Pos())+"`")
					}
				}
			case *ast.Ident:
				if f, ok := info.Uses[e].(*types.Func); ok && f.Pkg() != nil && strings.HasSuffix(f.Pkg().Path(), "chain33/types") &&
					(f.Name() == "Now" || f.Name() == "Since") && f.Type().(*types.Signature).Recv() == nil {
					add("clock", "types."+f.Name())
				}
				if v, ok := info.Uses[e].(*types.Var); ok && v.Pkg() != nil && v.Parent() == v.Pkg().Scope() {
					ts := v.Type().String()
					_, isMap := v.Type().Underlying().(*types.Map)
					if isMap || strings.Contains(ts, "sync.Pool") || strings.Contains(ts, "sync.Once") || strings.Contains(ts, "lru.") ||
						strings.Contains(ts, "sync.Map") {
						ord["global"+v.Name()]++
						if ord["global"+v.Name()] == 1 {
							sites = append(sites, fmt.Sprintf("global %s %s %s.%s", rel, strings.SplitN(k, ".", 2)[1], v.Pkg().Name(), v.Name()))
						}
					}
				}
			}
			return true
		})
	}
	sort.Strings(sites)
	_ = token.NoPos
	// regenerated fact: the values of every package-level `actionName` / type map literal (map[string]int32) of the loaded
	// packages - ExecTypeBase.ActionName scans such a map for a value, which is order-independent iff the values are distinct
	var maps []string
	for _, p := range pkgs {
		for _, f := range p.Syntax {
			for _, d := range f.Decls {
				gd, ok := d.(*ast.GenDecl)
				if !ok || gd.Tok != token.VAR {
					continue
				}
				for _, sp := range gd.Specs {
					vs, ok := sp.(*ast.ValueSpec)
					if !ok {
						continue
					}
					for i, name := range vs.Names {
						if i >= len(vs.Values) {
							continue
						}
						cl, ok := vs.Values[i].(*ast.CompositeLit)
						if !ok {
							continue
						}
						mt, ok := p.TypesInfo.TypeOf(cl).Underlying().(*types.Map)
						if !ok || mt.Key().String() != "string" || mt.Elem().String() != "int32" {
							continue
						}
						var vals []string
						for _, el := range cl.Elts {
							if kv, ok := el.(*ast.KeyValueExpr); ok {
								if tv, ok := p.TypesInfo.Types[kv.Value]; ok && tv.Value != nil {
									vals = append(vals, tv.Value.ExactString())
								} else {
									vals = append(vals, "?")
								}
							}
						}
						rel, _ := filepath.Rel(repo, p.Fset.Position(name.Pos()).Filename)
						maps = append(maps, fmt.Sprintf("actionmap %s %s %s", rel, name.Name, strings.Join(vals, ",")))
					}
				}
			}
		}
	}
	sort.Strings(maps)
	return append(sites, maps...), nil
}
