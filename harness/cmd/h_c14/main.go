// h_c14 — local indexes are exactly undone when a block is removed.
//
// Two real non-mining testnodes A and B (all index plugins that can run on a node enabled; quick index on or
// off by VERIF_C14_MODE) follow the same chain of generated blocks. On node A every height first receives a
// generated "junk" block (sometimes two), which is then removed again by delivering the heavier real block
// (blockchain reorganisation: disconnectBlock -> DelTxs, connectBlock -> AddTxs). Compared:
//   - the KV sets the real executor returns for EventAddBlock / EventDelBlock of the junk block, byte for byte
//     with the Lean model (ops blk/tx/pre/add/del/chk);
//   - predicate 1: applying the real add list and then the real del list restores every touched key
//     (absent ≡ empty value);
//   - predicate 2: after the removal, every local-index key of A's database and every local query answer
//     equals node B's, which never saw the junk block.
// Section mvcc drives executor.AddMVCC / DelMVCC on a real goleveldb KVDB (the plugin cannot run on a node).
package main

import (
	"bytes"
	"crypto/sha256"
	"encoding/hex"
	"fmt"
	"os"
	"path/filepath"
	"sort"
	"strings"

	"github.com/33cn/chain33/common"
	"github.com/33cn/chain33/common/address"
	"github.com/33cn/chain33/common/crypto"
	dbm "github.com/33cn/chain33/common/db"
	"github.com/33cn/chain33/executor"
	_ "github.com/33cn/chain33/system"
	cty "github.com/33cn/chain33/system/dapp/coins/types"
	"github.com/33cn/chain33/types"
	"github.com/33cn/chain33/util"

	"verifharness/internal/gen"
	_ "verifharness/internal/quiet"
)

var out = gen.NewOut()

const (
	dLo = uint32(0x1f2fffff) // work 1365: junk blocks
	dHi = uint32(0x1f0fffff) // work 4096: real blocks (one real block outweighs two junk blocks)
)

type acct struct {
	priv crypto.PrivKey
	addr string
}

type harness struct {
	r     *gen.Rand
	quick bool
	a, b  *node
	accts []*acct
	fresh []string // recipient-only addresses
	// expected residue of the known defect: coins "received" totals counted for failed transactions of removed blocks
	drift map[string]int64
	// hashes to query
	hashes [][]byte
	nJunk  int
	// residue already reported (the known defect is reported once per key and amount, not at every later height)
	reported  map[string]int64
	reportedQ map[string]int64
}

func hx(b []byte) string {
	if len(b) == 0 {
		return "-"
	}
	return hex.EncodeToString(b)
}

func tok(b []byte) []byte { s := sha256.Sum256(b); return s[:8] }

func (h *harness) cfg() *types.Chain33Config { return h.a.cfg }

func (h *harness) mkTx(execer string, payload []byte, to string, from *acct, fee int64) *types.Transaction {
	tx := &types.Transaction{Execer: []byte(execer), Payload: payload, To: to, Fee: fee,
		Nonce: int64(h.r.U64() >> 1), ChainID: h.cfg().GetChainID()}
	tx.Sign(types.SECP256K1, from.priv)
	return tx
}

func coinsPayload(ty int32, amount int64, to, execName string) []byte {
	a := &cty.CoinsAction{Ty: ty}
	switch ty {
	case cty.CoinsActionTransfer:
		a.Value = &cty.CoinsAction_Transfer{Transfer: &types.AssetsTransfer{Amount: amount, To: to}}
	case cty.CoinsActionTransferToExec:
		a.Value = &cty.CoinsAction_TransferToExec{TransferToExec: &types.AssetsTransferToExec{Amount: amount, ExecName: execName, To: to}}
	case cty.CoinsActionWithdraw:
		a.Value = &cty.CoinsAction_Withdraw{Withdraw: &types.AssetsWithdraw{Amount: amount, ExecName: execName, To: to}}
	case cty.CoinsActionGenesis:
		a.Value = &cty.CoinsAction_Genesis{Genesis: &types.AssetsGenesis{Amount: amount}}
	}
	return types.Encode(a)
}

func (h *harness) anyAddr() string {
	if h.r.Chance(1, 3) {
		return h.fresh[h.r.Intn(len(h.fresh))]
	}
	return h.accts[h.r.Intn(len(h.accts))].addr
}

// genTxs returns n generated transactions (kinds recorded in #STAT).
func (h *harness) genTxs(n int, force int) []*types.Transaction {
	var txs []*types.Transaction
	fee := int64(1000000)
	for len(txs) < n {
		from := h.accts[h.r.Intn(len(h.accts))]
		kind := h.r.Pick(6, 2, 3, 1, 2, 2, 1, 2, 2, 1, 1, 1, 3)
		if force >= 0 && len(txs) == 0 {
			kind = force
		}
		switch kind {
		case 0:
			to := h.anyAddr()
			txs = append(txs, h.mkTx("coins", coinsPayload(cty.CoinsActionTransfer, int64(1+h.r.Intn(1000))*100000, to, ""), to, from, fee))
			out.Stat("tx_transfer", 1)
		case 1:
			txs = append(txs, h.mkTx("coins", coinsPayload(cty.CoinsActionTransfer, int64(1+h.r.Intn(1000))*100000, from.addr, ""), from.addr, from, fee))
			out.Stat("tx_self_transfer", 1)
		case 2:
			to := h.anyAddr()
			txs = append(txs, h.mkTx("coins", coinsPayload(cty.CoinsActionTransfer, 900000000000000000+int64(h.r.Intn(1000)), to, ""), to, from, fee))
			out.Stat("tx_transfer_no_balance", 1)
		case 3:
			to := h.anyAddr()
			txs = append(txs, h.mkTx("coins", coinsPayload(cty.CoinsActionTransfer, -int64(1+h.r.Intn(1000)), to, ""), to, from, fee))
			out.Stat("tx_transfer_negative", 1)
		case 4:
			ex := []string{"none", "manage"}[h.r.Intn(2)]
			to := address.ExecAddress(ex)
			amt := int64(1+h.r.Intn(100)) * 100000
			if h.r.Chance(1, 4) {
				amt = 900000000000000000
			}
			txs = append(txs, h.mkTx("coins", coinsPayload(cty.CoinsActionTransferToExec, amt, to, ex), to, from, fee))
			out.Stat("tx_to_exec", 1)
		case 5:
			ex := []string{"none", "manage"}[h.r.Intn(2)]
			to := address.ExecAddress(ex)
			txs = append(txs, h.mkTx("coins", coinsPayload(cty.CoinsActionWithdraw, int64(1+h.r.Intn(100))*100000, to, ex), to, from, fee))
			out.Stat("tx_withdraw", 1)
		case 6:
			to := h.anyAddr()
			txs = append(txs, h.mkTx("coins", coinsPayload(cty.CoinsActionGenesis, int64(1+h.r.Intn(1000)), to, ""), to, from, fee))
			out.Stat("tx_genesis_action", 1)
		case 7:
			txs = append(txs, h.mkTx("none", h.r.Bytes(1+h.r.Intn(20)), address.ExecAddress("none"), from, fee))
			out.Stat("tx_none", 1)
		case 8:
			signer := from
			if h.r.Chance(2, 3) {
				signer = h.accts[0] // super manager
			}
			v := &types.ModifyConfig{Key: "k" + fmt.Sprint(h.r.Intn(3)), Op: []string{"add", "delete"}[h.r.Intn(2)], Value: "v" + fmt.Sprint(h.r.Intn(4))}
			ety := types.LoadExecutorType("manage")
			t0, err := ety.Create("Modify", v)
			if err != nil {
				continue
			}
			txs = append(txs, h.mkTx("manage", t0.Payload, address.ExecAddress("manage"), signer, fee))
			out.Stat("tx_manage", 1)
		case 9:
			txs = append(txs, h.mkTx("user.write", h.r.Bytes(8), address.ExecAddress("user.write"), from, fee))
			out.Stat("tx_user_exec", 1)
		case 10:
			to := []string{"", "notanaddress", "1111111111111111111114oLvT2"}[h.r.Intn(3)]
			txs = append(txs, h.mkTx("none", h.r.Bytes(4), to, from, fee))
			out.Stat("tx_bad_to", 1)
		case 11:
			to := h.anyAddr()
			txs = append(txs, h.mkTx("coins", h.r.Bytes(1+h.r.Intn(12)), to, from, fee))
			out.Stat("tx_coins_garbage", 1)
		case 12:
			k := 2 + h.r.Intn(2)
			var g []*types.Transaction
			for j := 0; j < k; j++ {
				to := h.anyAddr()
				amt := int64(1+h.r.Intn(1000)) * 100000
				if h.r.Chance(1, 4) {
					amt = 900000000000000000 // this member fails => the whole group is rolled back
				}
				if h.r.Chance(1, 4) {
					g = append(g, &types.Transaction{Execer: []byte("none"), Payload: h.r.Bytes(6), To: address.ExecAddress("none"), Fee: fee, Nonce: int64(h.r.U64() >> 1)})
				} else {
					g = append(g, &types.Transaction{Execer: []byte("coins"), Payload: coinsPayload(cty.CoinsActionTransfer, amt, to, ""), To: to, Fee: fee, Nonce: int64(h.r.U64() >> 1)})
				}
			}
			grp, err := types.CreateTxGroup(g, h.cfg().GetMinTxFeeRate())
			if err != nil {
				continue
			}
			for j := range grp.Txs {
				signer := from
				if h.r.Chance(1, 3) {
					signer = h.accts[h.r.Intn(len(h.accts))]
				}
				_ = grp.SignN(j, types.SECP256K1, signer.priv)
			}
			txs = append(txs, grp.Txs...)
			out.Stat("tx_group", 1)
		}
	}
	return txs
}

// ---------------------------------------------------------------- model tie for one block

func coinsSpec(tx *types.Transaction) (string, byte, int64) {
	if string(tx.Execer) != "coins" {
		return "n", 'n', 0
	}
	var a cty.CoinsAction
	if err := types.Decode(tx.Payload, &a); err != nil {
		return "n", 'n', 0
	}
	switch a.Ty {
	case cty.CoinsActionTransfer:
		if a.GetTransfer() != nil {
			return fmt.Sprintf("t:%d", a.GetTransfer().Amount), 't', a.GetTransfer().Amount
		}
	case cty.CoinsActionTransferToExec:
		if a.GetTransferToExec() != nil {
			return fmt.Sprintf("e:%d", a.GetTransferToExec().Amount), 'e', a.GetTransferToExec().Amount
		}
	case cty.CoinsActionWithdraw:
		if a.GetWithdraw() != nil {
			return fmt.Sprintf("w:%d", a.GetWithdraw().Amount), 'w', a.GetWithdraw().Amount
		}
	case cty.CoinsActionGenesis:
		if a.GetGenesis() != nil {
			return fmt.Sprintf("g:%d", a.GetGenesis().Amount), 'g', a.GetGenesis().Amount
		}
	default:
		return "n", 'n', 0
	}
	return "x", 'x', 0 // declared type without the matching value: not generated
}

var blobPrefixes = []string{"TX:", "TxAddrHash:", "TxAddrDirHash:", "TxFeeAddrDirHash:"}

func isBlobKey(k []byte, quick bool) bool {
	for _, p := range blobPrefixes {
		if bytes.HasPrefix(k, []byte(p)) {
			return true
		}
	}
	return !quick && len(k) == 32
}

func modelled(k []byte) bool {
	return !bytes.HasPrefix(k, []byte("LODB-")) || bytes.HasPrefix(k, []byte("LODB-coins-"))
}

func (h *harness) canon(kvs []*types.KeyValue) string {
	var parts []string
	for _, kv := range kvs {
		if !modelled(kv.Key) {
			continue
		}
		v := "nil"
		if kv.Value != nil {
			if isBlobKey(kv.Key, h.quick) {
				v = hex.EncodeToString(tok(kv.Value))
			} else {
				v = hex.EncodeToString(kv.Value)
			}
		}
		parts = append(parts, hex.EncodeToString(kv.Key)+"="+v)
	}
	if len(parts) == 0 {
		return "-"
	}
	return strings.Join(parts, ",")
}

type blockTie struct {
	pre     map[string][]byte
	order   []string
	add     []*types.KeyValue
	failed  map[string]int64 // coins recv key -> amount counted for transactions whose receipt is not ExecOk
	nFailed int
}

func (t *blockTie) touch(n *node, k []byte, cur map[string][]byte) {
	if _, ok := t.pre[string(k)]; ok {
		return
	}
	if v, ok := cur[string(k)]; ok {
		t.pre[string(k)] = v
	} else {
		t.pre[string(k)] = n.rawGet(k)
	}
	t.order = append(t.order, string(k))
}

// tieAdd emits the block description and the `add` observation; must run before the block is delivered.
func (h *harness) tieAdd(n *node, d *types.BlockDetail) *blockTie {
	cfg := h.cfg()
	b := d.Block
	q := 0
	if h.quick {
		q = 1
	}
	out.Op(fmt.Sprintf("blk %d %s %s %d", b.Height, hx(b.Hash(cfg)), hx(b.ParentHash), q), "ok")
	t := &blockTie{pre: map[string][]byte{}, failed: map[string]int64{}}
	var addrs []string
	seen := map[string]bool{}
	note := func(a string) {
		if a != "" && !seen[a] {
			seen[a] = true
			addrs = append(addrs, a)
		}
	}
	for i, tx := range b.Txs {
		rc := d.Receipts[i]
		hash := tx.Hash()
		from := string(address.FormatAddrKey(tx.From()))
		to := string(address.FormatAddrKey(tx.GetRealToAddr()))
		note(from)
		note(to)
		txr := &types.TxResult{Height: b.Height, Index: int32(i), Tx: tx, Receiptdate: rc, Blocktime: b.BlockTime, ActionName: tx.ActionName()}
		info := &types.ReplyTxInfo{Hash: hash, Height: b.Height, Index: int64(i)}
		if ety := types.LoadExecutorType(string(tx.Execer)); ety != nil {
			info.Assets, _ = ety.GetAssets(tx)
		}
		fi := &types.AddrTxFeeInfo{TxHash: common.ToHex(hash), Height: b.Height, Index: int64(i), Fee: tx.Fee, Exec: string(tx.Execer),
			TxStatus: rc.Ty, FromAddr: tx.From(), ToAddr: tx.GetRealToAddr()}
		cs, kind, amt := coinsSpec(tx)
		if rc.Ty != types.ExecOk && kind != 'n' && kind != 'x' {
			who := to
			if kind == 'w' {
				who = from
			}
			t.failed["LODB-coins-Addr:"+who] += amt
			t.nFailed++
		}
		out.Op(fmt.Sprintf("tx %s %s %s %s %d %d %s %s %s %s", hx(hash), hx(tx.GetEthTxHash()), hx([]byte(from)), hx([]byte(to)),
			tx.Fee, rc.Ty, hx(tok(cfg.CalcTxKeyValue(txr))), hx(tok(types.Encode(info))), hx(tok(types.Encode(fi))), cs), "ok")
		out.Stat(fmt.Sprintf("junk_receipt_ty_%d", rc.Ty), 1)
	}
	for _, a := range addrs {
		for _, kk := range []struct {
			name string
			key  []byte
		}{{"cnt", types.CalcAddrTxsCountKey(a)}, {"recv", []byte("LODB-coins-Addr:" + a)}} {
			v := n.rawGet(kk.key)
			if v == nil {
				continue
			}
			var x types.Int64
			if len(v) > 0 && types.Decode(v, &x) == nil {
				out.Op(fmt.Sprintf("pre %s %s %d", kk.name, hx([]byte(a)), x.Data), "ok")
			} else {
				out.Op(fmt.Sprintf("pre raw %s %s %s", kk.name, hx([]byte(a)), hx(v)), "ok")
			}
		}
	}
	if h.quick { // a short-hash key that already exists (another transaction with the same first 8 hash bytes)
		for _, tx := range b.Txs {
			if v := n.rawGet(types.CalcTxShortKey(tx.Hash())); len(v) > 0 {
				out.Op(fmt.Sprintf("pre stx %s %s", hx(tx.Hash()[:8]), hx(v)), "ok")
			}
		}
	}
	if v := n.rawGet(types.TotalFeeKey(b.ParentHash)); v != nil {
		var f types.TotalFee
		if types.Decode(v, &f) == nil {
			out.Op(fmt.Sprintf("pre fee %s %d %d", hx(b.ParentHash), f.Fee, f.TxCount), "ok")
		}
	}
	set, err := n.execLocal(d, false)
	if err != nil {
		out.Op("add", "error")
		return nil
	}
	t.add = set.KV
	for _, kv := range set.KV {
		t.touch(n, kv.Key, nil)
	}
	out.Op("add", h.canon(set.KV))
	out.Stat("add_kvs", int64(len(set.KV)))
	return t
}

func apply(m map[string][]byte, kvs []*types.KeyValue) {
	for _, kv := range kvs {
		if kv.Value == nil {
			delete(m, string(kv.Key))
		} else {
			m[string(kv.Key)] = kv.Value
		}
	}
}

// tieDel runs while the block is the tip: the `del` observation and predicate 1.
func (h *harness) tieDel(n *node, t *blockTie, height int64) {
	if t == nil {
		return
	}
	d, err := n.mock.GetBlockChain().GetBlock(height)
	if err != nil {
		out.Op("del", "error:"+err.Error())
		return
	}
	set, err := n.execLocal(d, true)
	if err != nil {
		out.Op("del", "error")
		out.Pred("C14|procExecDelBlock|error", fmt.Sprintf("height=%d err=%v", height, err))
		return
	}
	out.Op("del", h.canon(set.KV))
	out.Stat("del_kvs", int64(len(set.KV)))
	cur := map[string][]byte{}
	for k, v := range t.pre {
		if v != nil {
			cur[k] = v
		}
	}
	apply(cur, t.add)
	for _, kv := range set.KV {
		t.touch(n, kv.Key, cur)
	}
	apply(cur, set.KV)
	var badModel []string
	for _, k := range t.order {
		a, b := cur[k], t.pre[k]
		if (len(a) == 0 && len(b) == 0) || bytes.Equal(a, b) {
			continue
		}
		if modelled([]byte(k)) {
			badModel = append(badModel, hex.EncodeToString([]byte(k)))
		}
		sig := "C14|" + plugOf(k) + "|not-restored-by-add-then-del"
		if strings.HasPrefix(k, "STX:") {
			sig = stxSig
		}
		if amt, ok := t.failed[k]; ok && decodeInt(a)-decodeInt(b) == amt {
			sig = "C14|coins.ExecLocal|failed-tx-counted-but-not-undone"
		}
		out.Pred(sig, fmt.Sprintf("height=%d key=%q before=%x after=%x", height, k, b, a))
	}
	if len(badModel) == 0 {
		out.Op("chk", "same")
	} else {
		out.Op("chk", strings.Join(badModel, ","))
	}
}

const stxSig = "C14|txindex.ExecDelLocal|short-hash-key-shared-with-another-tx-deleted"

// stxCollision replays the corpus pair (two transactions whose Hash() share the first 8 bytes, found by
// harness/cmd/c14collide): A is put on the chain of both nodes, B only into a junk block of node A, which is removed again.
func (h *harness) stxCollision() {
	self, _ := os.Executable()
	b, err := os.ReadFile(filepath.Join(filepath.Dir(filepath.Dir(filepath.Dir(self))), "corpus", "C14", "stx_pair.txt"))
	if err != nil {
		out.Stat("stx_pair_missing", 1)
		return
	}
	var pa, pb []byte
	for _, l := range strings.Split(string(b), "\n") {
		f := strings.Fields(l)
		if len(f) == 2 && !strings.HasPrefix(l, "#") {
			pa, _ = hex.DecodeString(f[0])
			pb, _ = hex.DecodeString(f[1])
		}
	}
	mk := func(p []byte) *types.Transaction {
		tx := &types.Transaction{Execer: []byte("none"), Payload: p, To: address.ExecAddress("none"), Fee: 1000000, Nonce: 7, ChainID: h.cfg().GetChainID()}
		tx.Sign(types.SECP256K1, h.accts[1].priv)
		return tx
	}
	txA, txB := mk(pa), mk(pb)
	ha, hb := txA.Hash(), txB.Hash()
	if len(pa) != 8 || !bytes.Equal(ha[:8], hb[:8]) || bytes.Equal(ha, hb) {
		out.Stat("stx_pair_not_a_collision_on_this_tree", 1)
		return
	}
	filler := func() *types.Transaction {
		return h.mkTx("none", h.r.Bytes(6), address.ExecAddress("none"), h.accts[1], 1000000)
	}
	// A on the chain of both nodes
	parent := h.a.tip()
	d1, err := h.b.mint(parent, []*types.Transaction{txA, filler()}, dHi)
	if err != nil {
		out.Stat("stx_setup_failed", 1)
		return
	}
	for _, n := range []*node{h.a, h.b} {
		if _, err := n.deliver(d1.Block); err != nil {
			out.Stat("stx_setup_failed", 1)
			return
		}
	}
	// B in a junk block of node A, removed by the heavier real block
	dj, err := h.a.mint(d1.Block, []*types.Transaction{txB, filler()}, dLo)
	if err != nil {
		out.Stat("stx_setup_failed", 1)
		return
	}
	dr, err := h.b.mint(d1.Block, []*types.Transaction{filler()}, dHi)
	if err != nil {
		out.Stat("stx_setup_failed", 1)
		return
	}
	t := h.tieAdd(h.a, dj)
	if _, err := h.a.deliver(dj.Block); err != nil {
		out.Stat("stx_setup_failed", 1)
		return
	}
	h.tieDel(h.a, t, dj.Block.Height)
	if _, err := h.a.deliver(dr.Block); err != nil {
		out.Stat("stx_setup_failed", 1)
		return
	}
	_, _ = h.b.deliver(dr.Block)
	obs := func(n *node) string {
		has, err := n.mock.GetBlockChain().GetStore().HasTx(ha)
		newTxs, derr := util.CheckDupTx(n.mock.GetClient(), []*types.Transaction{txA}, n.tip().Height)
		_, qerr := n.mock.GetAPI().QueryTx(&types.ReqHash{Hash: ha})
		return fmt.Sprintf("HasTx(A)=%v/%v duplicate-check-lets-A-through=%v/%v QueryTx(A)err=%v shortkey-present=%v", has, err, len(newTxs) == 1, derr, qerr, n.rawGet(types.CalcTxShortKey(ha)) != nil)
	}
	oa, ob := obs(h.a), obs(h.b)
	out.Sample("stx collision: A=" + hex.EncodeToString(ha) + " B=" + hex.EncodeToString(hb) + " node-with-removed-block: " + oa + " | other node: " + ob)
	out.Stat("stx_collision_replayed", 1)
	if oa != ob {
		out.Pred(stxSig, fmt.Sprintf("A=%x (on chain) B=%x (in the removed block): after removal %s; node that never saw B: %s", ha, hb, oa, ob))
	}
}

func decodeInt(v []byte) int64 {
	var x types.Int64
	if len(v) == 0 || types.Decode(v, &x) != nil {
		return 0
	}
	return x.Data
}

func plugOf(k string) string {
	for _, p := range []struct{ pre, name string }{{"TX:", "txindex"}, {"STX:", "txindex"}, {"ETX:", "txindex"}, {"TxAddrHash:", "addrindex"},
		{"TxAddrDirHash:", "addrindex"}, {"AddrTxsCount:", "addrindex"}, {"TxFeeAddrDirHash:", "addrfeeindex"}, {"TotalFeeKey:", "fee"},
		{"LODB-coins-", "coins"}, {"LODB-manage-", "manage"}, {".-mvcc-.", "mvcc"}} {
		if strings.HasPrefix(k, p.pre) {
			return p.name
		}
	}
	if len(k) == 32 {
		return "txindex"
	}
	return "other"
}

// ---------------------------------------------------------------- node A vs node B

func (h *harness) queries(n *node) map[string]string {
	api := n.mock.GetAPI()
	res := map[string]string{}
	dig := func(m types.Message, err error) string {
		if err != nil {
			return "err:" + err.Error()
		}
		return hex.EncodeToString(tok(types.Encode(m)))
	}
	var addrs []string
	for _, a := range h.accts {
		addrs = append(addrs, a.addr)
	}
	addrs = append(addrs, h.fresh...)
	addrs = append(addrs, address.ExecAddress("none"), address.ExecAddress("manage"), address.ExecAddress("user.write"))
	for _, a := range addrs {
		for flag := int32(0); flag <= 2; flag++ {
			r, err := api.GetTransactionByAddr(&types.ReqAddr{Addr: a, Flag: flag, Count: 100000, Direction: 0, Height: -1})
			res[fmt.Sprintf("txlist:%s:%d", a, flag)] = dig(r, err)
		}
		r1, err := api.Query("coins", "GetAddrReciver", &types.ReqAddr{Addr: a})
		if err == nil {
			res["recv:"+a] = fmt.Sprint(r1.(*types.Int64).Data)
		} else {
			res["recv:"+a] = "err:" + err.Error()
		}
		r2, err := api.Query("coins", "GetAddrTxsCount", &types.ReqKey{Key: types.CalcAddrTxsCountKey(a)})
		res["count:"+a] = dig(r2, err)
		r3, err := api.Query("coins", "GetTxsFeeByAddr", &types.ReqAddr{Addr: a, Flag: 1, Count: 100000, Direction: 0, Height: -1})
		res["feelist:"+a] = dig(r3, err)
		r4, err := api.GetAddrOverview(&types.ReqAddr{Addr: a})
		if err == nil {
			res["overview:"+a] = fmt.Sprintf("%d/%d", r4.Reciver, r4.TxCount)
		} else {
			res["overview:"+a] = "err:" + err.Error()
		}
	}
	for _, hh := range h.hashes {
		r, err := api.QueryTx(&types.ReqHash{Hash: hh})
		res["tx:"+hex.EncodeToString(hh)] = dig(r, err)
	}
	tip := n.tip()
	r, err := api.LocalGet(&types.LocalDBGet{Keys: [][]byte{types.TotalFeeKey(tip.Hash(n.cfg))}})
	res["totalfee:tip"] = dig(r, err)
	return res
}

func (h *harness) compare(height int64) {
	da, db := h.a.indexDump(), h.b.indexDump()
	out.Stat("index_keys_compared", int64(len(db)))
	i, j := 0, 0
	ndiff := 0
	report := func(k, va, vb []byte) {
		ndiff++
		ks := string(k)
		sig := "C14|" + plugOf(ks) + "|index-differs-after-removal"
		if amt, ok := h.drift[ks]; ok && amt != 0 && decodeInt(va)-decodeInt(vb) == amt {
			sig = "C14|coins.ExecLocal|failed-tx-counted-but-not-undone"
			if h.reported[ks] == amt {
				out.Stat("known_residue_keys_still_present", 1)
				return
			}
			h.reported[ks] = amt
		}
		if ndiff <= 20 {
			out.Pred(sig, fmt.Sprintf("height=%d key=%q removed-then-readded=%x never-added=%x", height, ks, va, vb))
		}
	}
	for i < len(da) || j < len(db) {
		switch {
		case j >= len(db) || (i < len(da) && bytes.Compare(da[i].k, db[j].k) < 0):
			report(da[i].k, da[i].v, nil)
			i++
		case i >= len(da) || bytes.Compare(da[i].k, db[j].k) > 0:
			report(db[j].k, nil, db[j].v)
			j++
		default:
			if !bytes.Equal(da[i].v, db[j].v) {
				report(da[i].k, da[i].v, db[j].v)
			}
			i++
			j++
		}
	}
	qa, qb := h.queries(h.a), h.queries(h.b)
	keys := make([]string, 0, len(qb))
	for k := range qb {
		keys = append(keys, k)
	}
	sort.Strings(keys)
	out.Stat("queries_compared", int64(len(keys)))
	nq := 0
	for _, k := range keys {
		if qa[k] == qb[k] {
			continue
		}
		sig := "C14|query " + strings.SplitN(k, ":", 2)[0] + "|answer-differs-after-removal"
		if strings.HasPrefix(k, "recv:") || strings.HasPrefix(k, "overview:") {
			a := strings.SplitN(k, ":", 2)[1]
			if amt := h.drift["LODB-coins-Addr:"+string(address.FormatAddrKey(a))]; amt != 0 {
				sig = "C14|coins.ExecLocal|failed-tx-counted-but-not-undone"
				if h.reportedQ[k] == amt {
					continue
				}
				h.reportedQ[k] = amt
			}
		}
		nq++
		if nq <= 20 {
			out.Pred(sig, fmt.Sprintf("height=%d query=%s removed-then-readded=%s never-added=%s", height, k, qa[k], qb[k]))
		}
	}
}

func (h *harness) run(nHeights int) {
	// warm-up: fund the accounts; reorganisation below height 12 is refused by the finaliser margin
	for ht := int64(1); ht <= 12; ht++ {
		parent := h.a.tip()
		var txs []*types.Transaction
		if ht == 1 {
			for _, a := range h.accts {
				if a.addr == h.accts[1].addr {
					continue
				}
				txs = append(txs, h.mkTx("coins", coinsPayload(cty.CoinsActionTransfer, 1000000000000, a.addr, ""), a.addr, h.accts[1], 1000000))
			}
		} else {
			txs = h.genTxs(1+h.r.Intn(4), -1)
		}
		d, err := h.b.mint(parent, txs, dHi)
		if err != nil {
			d, err = h.b.mint(parent, []*types.Transaction{h.mkTx("none", []byte("x"), address.ExecAddress("none"), h.accts[1], 1000000)}, dHi)
			if err != nil {
				panic(err)
			}
		}
		for _, n := range []*node{h.a, h.b} {
			if _, err := n.deliver(d.Block); err != nil {
				panic(fmt.Sprint("warm-up deliver: ", err))
			}
		}
	}
	for step := 0; step < nHeights; step++ {
		parent := h.a.tip()
		if !bytes.Equal(parent.Hash(h.cfg()), h.b.tip().Hash(h.cfg())) {
			out.Pred("C14|harness|nodes-out-of-sync", fmt.Sprintf("height=%d", parent.Height))
			return
		}
		force := -1
		if step == 0 {
			force = 2 // the witness of the known defect is part of every run
		}
		jtxs := h.genTxs(1+h.r.Intn(6), force)
		rtxs := h.genTxs(1+h.r.Intn(5), -1)
		if h.r.Chance(1, 3) { // a transaction that moves from the removed block into the real one
			rtxs = append(rtxs, jtxs[h.r.Intn(len(jtxs))])
			for _, tx := range rtxs {
				if tx.GroupCount > 0 { // keep groups intact: drop the shared transaction when it belongs to one
					rtxs = rtxs[:len(rtxs)-1]
					break
				}
			}
		}
		dj, err := h.a.mint(parent, jtxs, dLo)
		if err != nil {
			out.Stat("junk_mint_failed", 1)
			continue
		}
		dr, err := h.b.mint(parent, rtxs, dHi)
		if err != nil {
			out.Stat("real_mint_failed", 1)
			continue
		}
		for _, tx := range dj.Block.Txs {
			h.hashes = append(h.hashes, tx.Hash())
		}
		for _, tx := range dr.Block.Txs {
			h.hashes = append(h.hashes, tx.Hash())
		}
		if len(h.hashes) > 60 {
			h.hashes = h.hashes[len(h.hashes)-60:]
		}
		t := h.tieAdd(h.a, dj)
		if _, err := h.a.deliver(dj.Block); err != nil {
			out.Pred("C14|harness|junk-block-rejected", err.Error())
			return
		}
		h.tieDel(h.a, t, dj.Block.Height)
		h.nJunk++
		out.Stat("junk_blocks", 1)
		out.Stat("junk_txs", int64(len(dj.Block.Txs)))
		if t != nil {
			for k, v := range t.failed {
				h.drift[k] += v
			}
			out.Stat("junk_failed_coins_txs", int64(t.nFailed))
		}
		if h.r.Chance(1, 4) { // a second junk block on top of the first: two blocks are removed by one reorganisation
			d2, err := h.a.mint(dj.Block, h.genTxs(1+h.r.Intn(3), -1), dLo)
			if err == nil {
				t2 := h.tieAdd(h.a, d2)
				if _, err := h.a.deliver(d2.Block); err == nil {
					h.tieDel(h.a, t2, d2.Block.Height)
					out.Stat("junk_blocks_second", 1)
					if t2 != nil {
						for k, v := range t2.failed {
							h.drift[k] += v
						}
					}
				}
			}
		}
		if _, err := h.a.deliver(dr.Block); err != nil {
			out.Pred("C14|reorganize|real-block-rejected-after-junk", err.Error())
			return
		}
		if !bytes.Equal(h.a.tip().Hash(h.cfg()), dr.Block.Hash(h.cfg())) {
			out.Pred("C14|harness|no-reorganisation", fmt.Sprintf("height=%d", dr.Block.Height))
			return
		}
		if _, err := h.b.deliver(dr.Block); err != nil {
			panic(err)
		}
		out.Stat("reorganisations", 1)
		h.compare(dr.Block.Height)
	}
}

// ---------------------------------------------------------------- MVCC plugin on a real KVDB

func (h *harness) mvcc(rounds int) {
	dir, ldb, _ := util.CreateTestDB()
	defer util.CloseTestDB(dir, ldb)
	// a node hands the plugin a fresh common/db.LocalDB over the chain database for every event
	// (blockchain.localNew): an empty value reads as not found there
	newKVDB := func() dbm.KVDB { return dbm.NewLocalDB(ldb, false) }
	out.Op("mvreset", "ok")
	dump := func() string {
		it := ldb.Iterator(nil, types.EmptyValue, false)
		defer it.Close()
		hs := sha256.New()
		for it.Rewind(); it.Valid(); it.Next() {
			if len(it.Value()) == 0 {
				continue
			}
			// DelMVCC leaves the key list of the removed version behind (".-mvcc-.m.versionkl.<v>"); no MVCC
			// read returns it and the next AddMVCC of that version overwrites it, so it is not part of the
			// observable state
			if bytes.HasPrefix(it.Key(), []byte(".-mvcc-.m.versionkl.")) {
				continue
			}
			hs.Write(it.Key())
			hs.Write([]byte{0})
			hs.Write(it.Value())
			hs.Write([]byte{1})
		}
		return hex.EncodeToString(hs.Sum(nil)[:8])
	}
	canon := func(kvs []*types.KeyValue) string {
		var parts []string
		for _, kv := range kvs {
			v := "nil"
			if kv.Value != nil {
				v = hex.EncodeToString(kv.Value)
			}
			parts = append(parts, hex.EncodeToString(kv.Key)+"="+v)
		}
		if len(parts) == 0 {
			return "-"
		}
		return strings.Join(parts, ",")
	}
	keys := []string{"mavl-coins-bty-a", "mavl-coins-bty-b", "mavl-coins-bty-a.", "mavl-x", "k"}
	genKVs := func(allowEmpty bool) []*types.KeyValue {
		n := h.r.Intn(4)
		if !allowEmpty {
			n++
		}
		var kvs []*types.KeyValue
		for i := 0; i < n; i++ {
			kvs = append(kvs, &types.KeyValue{Key: []byte(keys[h.r.Intn(len(keys))]), Value: h.r.Bytes(1 + h.r.Intn(6))})
		}
		return kvs
	}
	add := func(v int64, hash, prev []byte, kvs []*types.KeyValue) bool {
		d := &types.BlockDetail{Block: &types.Block{Height: v, StateHash: hash}, PrevStatusHash: prev, KV: kvs}
		var pairs []string
		for _, kv := range kvs {
			pairs = append(pairs, hex.EncodeToString(kv.Key)+":"+hex.EncodeToString(kv.Value))
		}
		ps := "-"
		if len(pairs) > 0 {
			ps = strings.Join(pairs, ",")
		}
		pv := "nil"
		if prev != nil {
			pv = hx(prev)
		}
		var res []*types.KeyValue
		r := gen.Guard(func() string { res = executor.AddMVCC(newKVDB(), d); return canon(res) })
		out.Op(fmt.Sprintf("mvadd %d %s %s %s", v, hx(hash), pv, ps), r)
		if r == "panic" {
			return false
		}
		util.SaveKVList(ldb, res)
		return true
	}
	del := func(v int64, hash []byte) bool {
		d := &types.BlockDetail{Block: &types.Block{Height: v, StateHash: hash}}
		var res []*types.KeyValue
		r := gen.Guard(func() string { res = executor.DelMVCC(newKVDB(), d); return canon(res) })
		out.Op(fmt.Sprintf("mvdel %d %s", v, hx(hash)), r)
		if r == "panic" {
			return false
		}
		util.SaveKVList(ldb, res)
		return true
	}
	var hashes [][]byte
	hashes = append(hashes, h.r.Bytes(32))
	add(0, hashes[0], nil, genKVs(false))
	for v := int64(1); v <= int64(rounds); v++ {
		prev := hashes[v-1]
		// a version that is added and removed again
		before := dump()
		jh := h.r.Bytes(32)
		if add(v, jh, prev, genKVs(h.r.Chance(1, 8))) {
			// wrong removals first: other hash, other version
			if h.r.Chance(1, 3) {
				del(v, h.r.Bytes(32))
			}
			if h.r.Chance(1, 3) && v > 1 {
				del(v-1, hashes[v-1])
			}
			if del(v, jh) {
				if after := dump(); after != before {
					out.Pred("C14|mvcc|not-restored-by-add-then-del", fmt.Sprintf("version=%d before=%s after=%s", v, before, after))
				}
				out.Stat("mvcc_add_del_roundtrips", 1)
			} else {
				out.Stat("mvcc_del_refused", 1)
				// the store keeps version v (e.g. an empty KV set cannot be removed): continue from it
				hashes = append(hashes, jh)
				continue
			}
		}
		if h.r.Chance(1, 6) {
			add(v, h.r.Bytes(32), h.r.Bytes(32), genKVs(false)) // wrong previous hash
		}
		nh := h.r.Bytes(32)
		if !add(v, nh, prev, genKVs(false)) {
			return
		}
		hashes = append(hashes, nh)
	}
}

func main() {
	defer out.Flush()
	mode := os.Getenv("VERIF_C14_MODE")
	r := gen.New(gen.Seed()*1000003 + uint64(len(mode)))
	h := &harness{r: r, quick: mode != "noquick", drift: map[string]int64{}, reported: map[string]int64{}, reportedQ: map[string]int64{}}
	if mode == "mvcc" {
		h.mvcc(gen.Scale(80, 2000))
		return
	}
	for _, p := range util.TestPrivkeyList {
		h.accts = append(h.accts, &acct{priv: p, addr: address.PubKeyToAddr(address.DefaultID, p.PubKey().Bytes())})
	}
	cr, _ := crypto.Load(types.GetSignName("", types.SECP256K1), -1)
	for i := 0; i < 3; i++ {
		p, err := cr.PrivKeyFromBytes(r.Bytes(32))
		if err != nil {
			continue
		}
		h.accts = append(h.accts, &acct{priv: p, addr: address.PubKeyToAddr(address.DefaultID, p.PubKey().Bytes())})
	}
	for i := 0; i < 4; i++ {
		p, err := cr.PrivKeyFromBytes(r.Bytes(32))
		if err != nil {
			continue
		}
		h.fresh = append(h.fresh, address.PubKeyToAddr(address.DefaultID, p.PubKey().Bytes()))
	}
	h.a = newNode(h.quick)
	defer h.a.close()
	h.b = newNode(h.quick)
	defer h.b.close()
	h.run(gen.Scale(18, 400))
	if h.quick {
		h.stxCollision()
	}
	out.Sample(fmt.Sprintf("mode=%s junk blocks added and removed on node A: %d; expected residue keys of the known defect: %d", mode, h.nJunk, len(h.drift)))
}

