package main

import (
	"bytes"
	"errors"
	"os"
	"sort"

	"github.com/33cn/chain33/common/merkle"
	"github.com/33cn/chain33/types"
	"github.com/33cn/chain33/util"
	"github.com/33cn/chain33/util/testnode"
)

// node wraps a non-mining testnode with every index plugin that can run on a node enabled.
type node struct {
	mock *testnode.Chain33Mock
	cfg  *types.Chain33Config
}

func newNode(quick bool) *node {
	cfg := testnode.GetDefaultConfig()
	m := cfg.GetModuleConfig()
	m.Consensus.Minerstart = false
	// exec-level MVCC cannot pass height 1 on a node: version 0 is stored as types.Int64{Data:0}, i.e. an empty
	// value, which the local database reports as not found ("mvcc get version error"). The MVCC plugin is
	// therefore tied at plugin level (section mvcc of this harness).
	m.Exec.EnableMVCC = false
	m.Exec.EnableAddrFeeIndex = true
	m.Exec.EnableStat = true
	m.BlockChain.EnableTxQuickIndex = quick
	m.BlockChain.IsRecordBlockSequence = true
	if d := os.Getenv("VERIF_TMP"); d != "" {
		os.Setenv("TMPDIR", d)
	}
	mock := testnode.NewWithConfig(cfg, nil)
	if mock == nil {
		panic("testnode")
	}
	return &node{mock: mock, cfg: cfg}
}

func (n *node) close() { n.mock.Close() }

func (n *node) tip() *types.Block { return n.mock.GetLastBlock() }

// mint builds a block with txs on top of parent and executes it without committing anything, so that
// TxHash/StateHash/receipts are those a peer would see. Transactions whose receipt is ExecErr are dropped
// (as a block producer does).
func (n *node) mint(parent *types.Block, txs []*types.Transaction, difficulty uint32) (*types.BlockDetail, error) {
	b := &types.Block{}
	b.Height = parent.Height + 1
	b.BlockTime = parent.BlockTime + 1
	b.ParentHash = parent.Hash(n.cfg)
	b.Difficulty = difficulty
	for _, tx := range txs {
		b.Txs = append(b.Txs, tx.Clone())
	}
	if n.cfg.IsFork(b.Height, "ForkRootHash") {
		b.Txs = types.TransactionSort(b.Txs)
	}
	b.TxHash = merkle.CalcMerkleRoot(n.cfg, b.Height, b.Txs)
	detail, _, err := util.PreExecBlock(n.mock.GetClient(), parent.StateHash, b, false, true, false)
	if err != nil {
		return nil, err
	}
	_ = util.ExecKVSetRollback(n.mock.GetClient(), detail.Block.StateHash)
	if len(detail.Block.Txs) == 0 {
		return nil, errors.New("empty")
	}
	return detail, nil
}

// deliver hands a finished block to the chain as a peer would (executed again, state hash checked).
func (n *node) deliver(b *types.Block) (bool, error) {
	_, main, _, err := n.mock.GetBlockChain().ProcessBlock(false, &types.BlockDetail{Block: types.Clone(b).(*types.Block)}, "peer1", true, 0)
	return main, err
}

// execLocal asks the node's real executor for the local KV set of adding (del=false) or removing the block.
func (n *node) execLocal(detail *types.BlockDetail, del bool) (*types.LocalDBSet, error) {
	ev := int64(types.EventAddBlock)
	if del {
		ev = types.EventDelBlock
	}
	cli := n.mock.GetClient()
	msg := cli.NewMessage("execs", ev, detail)
	if err := cli.Send(msg, true); err != nil {
		return nil, err
	}
	resp, err := cli.Wait(msg)
	if err != nil {
		return nil, err
	}
	switch v := resp.GetData().(type) {
	case *types.LocalDBSet:
		return v, nil
	case error:
		return nil, v
	}
	return nil, errors.New("unexpected reply")
}

type kvpair struct{ k, v []byte }

// prefixes of the block store proper (blocks, headers, sequences, difficulty ...): not local indexes.
var storePrefixes = []string{"CHAIN-", "Hash:", "Body:", "Header:", "HH:", "TD:", "Height:", "Seq:", "HashToSeq:",
	"LastSequence", "blockLastHeight", "BlockChainVerKey", "push2subscribe:", "lastSeqNumPrefix:", "ParaSeq:",
	"HashToParaSeq:", "LastParaSequence", "BodyHashToChunk:", "ChunkNumToHash:", "ChunkHashToNum:",
	"RecvChunkNumToHash:", "MaxSilChunkNum:", "MaxDeletedChunkNum:", "FLAG:", "Statistics:Flag", "snowman"}

func isStoreKey(k []byte) bool {
	for _, p := range storePrefixes {
		if bytes.HasPrefix(k, []byte(p)) {
			return true
		}
	}
	return false
}

// indexDump returns every key/value of the chain database outside the block store proper, in key order;
// keys with an empty value are dropped (absent ≡ empty value).
func (n *node) indexDump() []kvpair {
	db := n.mock.GetBlockChain().GetDB()
	it := db.Iterator(nil, types.EmptyValue, false)
	defer it.Close()
	var out []kvpair
	for it.Rewind(); it.Valid(); it.Next() {
		k := it.Key()
		if isStoreKey(k) || len(it.Value()) == 0 {
			continue
		}
		out = append(out, kvpair{append([]byte{}, k...), append([]byte{}, it.Value()...)})
	}
	sort.Slice(out, func(i, j int) bool { return bytes.Compare(out[i].k, out[j].k) < 0 })
	return out
}

func (n *node) rawGet(k []byte) []byte {
	v, err := n.mock.GetBlockChain().GetDB().Get(k)
	if err != nil {
		return nil
	}
	return v
}
