// h_c15 drives account.DB (account/account.go, execaccount.go, genesis.go) in-process on an
// in-memory KV with generated operation sequences over base58 / hex addresses in several
// spellings, exec addresses and edge amounts.
//
// Every op line is answered with "<result> <storedAddr>:<balance>:<frozen> ..." for the accounts
// the op involves (compared with the Lean model, lean/Driver/C15.lean).
//
// Independently of the model the property predicates of C15 are evaluated on the implementation
// from a full dump of the store before/after each op against an abstract ledger over unbounded
// integers:  no negative balance/frozen; an error changes nothing; an accepted op has exactly
// its intended effect (=> supply changes only by mint/burn/issue/genesis amounts, the exec
// equation  balance(exec) - sum(sub-accounts)  moves only as intended); all case spellings of
// a hex address read one record and records live only under canonical keys; all case spellings
// of a hex exec address name one sub-ledger.
package main

import (
	"fmt"
	"math"
	"math/big"
	"sort"
	"strconv"
	"strings"

	"github.com/33cn/chain33/account"
	"github.com/33cn/chain33/common/address"
	dbm "github.com/33cn/chain33/common/db"
	"github.com/33cn/chain33/common/log/log15"
	_ "github.com/33cn/chain33/system/address"
	"github.com/33cn/chain33/types"

	"verifharness/internal/gen"
)

var out = gen.NewOut()

// ---------------------------------------------------------------- store wrapper

// trackKV is the dbm.KV handed to account.DB: the repo's GoMemDB plus the set of written keys.
type trackKV struct {
	inner *dbm.GoMemDB
	keys  map[string]struct{}
}

func newKV() *trackKV {
	d, err := dbm.NewGoMemDB("gomemdb", "c15", 16)
	if err != nil {
		panic(err)
	}
	return &trackKV{inner: d, keys: map[string]struct{}{}}
}
func (t *trackKV) Get(k []byte) ([]byte, error) { return t.inner.Get(k) }
func (t *trackKV) Set(k, v []byte) error {
	t.keys[string(k)] = struct{}{}
	return t.inner.Set(k, v)
}
func (t *trackKV) Begin()        {}
func (t *trackKV) Commit() error { return nil }
func (t *trackKV) Rollback()     {}

type rec struct {
	raw      string
	addr     string
	bal, frz int64
}

// dump returns every record of the store by raw key.
func (t *trackKV) dump() map[string]rec {
	m := make(map[string]rec, len(t.keys))
	for k := range t.keys {
		v, err := t.inner.Get([]byte(k))
		if err != nil {
			continue
		}
		var a types.Account
		if err := types.Decode(v, &a); err != nil {
			m[k] = rec{raw: string(v), addr: "<undecodable>"}
			continue
		}
		m[k] = rec{raw: string(v), addr: a.Addr, bal: a.Balance, frz: a.Frozen}
	}
	return m
}

// ---------------------------------------------------------------- world

type world struct {
	cfg        *types.Chain33Config
	acc        *account.DB
	kv         *trackKV
	mainPrefix string
	execPrefix string
	tainted    bool // a predicate already failed in this sequence: state is off the abstract ledger
	nops       int
}

var theCfg *types.Chain33Config

func newWorld(token bool) *world {
	w := &world{cfg: theCfg, kv: newKV()}
	if token {
		a, err := account.NewAccountDB(theCfg, "token", "VT", w.kv)
		if err != nil {
			panic(err)
		}
		w.acc = a
	} else {
		w.acc = account.NewCoinsAccount(theCfg)
		w.acc.SetDB(w.kv)
	}
	w.mainPrefix = string(w.acc.AccountKey(""))
	w.execPrefix = w.mainPrefix + "exec-"
	return w
}

// hexShape: an optional 0x/0X prefix followed by exactly 40 hex digits.
func hexShape(s string) bool {
	b := s
	if len(b) >= 2 && b[0] == '0' && (b[1] == 'x' || b[1] == 'X') {
		b = b[2:]
	}
	if len(b) != 40 {
		return false
	}
	for i := 0; i < len(b); i++ {
		c := b[i]
		if !(c >= '0' && c <= '9' || c >= 'a' && c <= 'f' || c >= 'A' && c <= 'F') {
			return false
		}
	}
	return true
}

// canon is the harness' own statement of which spellings denote one account: hex-shaped
// spellings are case-insensitive; anything else is literal.
func canon(s string) string {
	if hexShape(s) {
		return strings.ToLower(s)
	}
	return s
}

func errName(err error) string {
	switch err {
	case nil:
		return "ok"
	case types.ErrAmount:
		return "ErrAmount"
	case types.ErrNoBalance:
		return "ErrNoBalance"
	case types.ErrSendSameToRecv:
		return "ErrSendSameToRecv"
	case types.ErrNotAllowDeposit:
		return "ErrNotAllowDeposit"
	}
	return "err:" + strings.ReplaceAll(err.Error(), " ", "_")
}

func showAcct(a *types.Account) string {
	return fmt.Sprintf("%s:%d:%d", a.Addr, a.Balance, a.Frozen)
}

// ---------------------------------------------------------------- ops

type op struct {
	name string
	a    []string // address arguments in wire order
	amt  int64
}

func (o op) line() string {
	switch o.name {
	case "genesisexec":
		return fmt.Sprintf("genesisexec %s %d %s", o.a[0], o.amt, o.a[1])
	case "load", "loadexec":
		return o.name + " " + strings.Join(o.a, " ")
	}
	return fmt.Sprintf("%s %s %d", o.name, strings.Join(o.a, " "), o.amt)
}

var arity = map[string]int{
	"transfer": 2, "checktransfer": 2, "mint": 1, "burn": 1, "genesis": 1, "genesisexec": 2,
	"toexec": 2, "withdraw": 2, "frozen": 2, "active": 2, "exectransfer": 3, "exectransferfrozen": 3,
	"depositfrozen": 2, "issue": 1, "execdeposit": 2, "execwithdraw": 2, "load": 1, "loadexec": 2,
}

// Go function names used as the call site in finding signatures.
var site = map[string]string{
	"transfer": "Transfer", "checktransfer": "CheckTransfer", "mint": "Mint", "burn": "Burn",
	"genesis": "GenesisInit", "genesisexec": "GenesisInitExec", "toexec": "TransferToExec",
	"withdraw": "TransferWithdraw", "frozen": "ExecFrozen", "active": "ExecActive",
	"exectransfer": "ExecTransfer", "exectransferfrozen": "ExecTransferFrozen",
	"depositfrozen": "ExecDepositFrozen", "issue": "ExecIssueCoins", "execdeposit": "ExecDeposit",
	"execwithdraw": "ExecWithdraw", "load": "LoadAccount", "loadexec": "LoadExecAccount",
}

func parseOp(l string) (op, bool) {
	f := strings.Fields(l)
	if len(f) == 0 {
		return op{}, false
	}
	n, ok := arity[f[0]]
	if !ok {
		return op{}, false
	}
	o := op{name: f[0]}
	if f[0] == "load" || f[0] == "loadexec" {
		if len(f) != 1+n {
			return op{}, false
		}
		o.a = f[1:]
		return o, true
	}
	if len(f) != 2+n {
		return op{}, false
	}
	var amtS string
	if f[0] == "genesisexec" {
		o.a = []string{f[1], f[3]}
		amtS = f[2]
	} else {
		o.a = f[1 : 1+n]
		amtS = f[1+n]
	}
	v, err := strconv.ParseInt(amtS, 10, 64)
	if err != nil {
		return op{}, false
	}
	o.amt = v
	return o, true
}

// call runs the operation on the real code. mains/subs name the accounts printed afterwards.
func (w *world) call(o op) (res string, mains []string, subs [][2]string) {
	acc := w.acc
	var err error
	a := o.a
	res = gen.Guard(func() string {
		switch o.name {
		case "transfer":
			_, err = acc.Transfer(a[0], a[1], o.amt)
		case "checktransfer":
			err = acc.CheckTransfer(a[0], a[1], o.amt)
		case "mint":
			_, err = acc.Mint(a[0], o.amt)
		case "burn":
			_, err = acc.Burn(a[0], o.amt)
		case "genesis":
			_, err = acc.GenesisInit(a[0], o.amt)
		case "genesisexec":
			_, err = acc.GenesisInitExec(a[0], o.amt, a[1])
		case "toexec":
			_, err = acc.TransferToExec(a[0], a[1], o.amt)
		case "withdraw":
			_, err = acc.TransferWithdraw(a[0], a[1], o.amt)
		case "frozen":
			_, err = acc.ExecFrozen(a[0], a[1], o.amt)
		case "active":
			_, err = acc.ExecActive(a[0], a[1], o.amt)
		case "exectransfer":
			_, err = acc.ExecTransfer(a[0], a[1], a[2], o.amt)
		case "exectransferfrozen":
			_, err = acc.ExecTransferFrozen(a[0], a[1], a[2], o.amt)
		case "depositfrozen":
			_, err = acc.ExecDepositFrozen(a[0], a[1], o.amt)
		case "issue":
			_, err = acc.ExecIssueCoins(a[0], o.amt)
		case "execdeposit":
			_, err = acc.ExecDeposit(a[0], a[1], o.amt)
		case "execwithdraw":
			_, err = acc.ExecWithdraw(a[0], a[1], o.amt)
		case "load", "loadexec":
		}
		return errName(err)
	})
	switch o.name {
	case "transfer":
		mains = []string{a[0], a[1]}
	case "checktransfer", "mint", "burn", "genesis", "issue", "load":
		mains = []string{a[0]}
	case "toexec", "withdraw":
		mains = []string{a[0], a[1]}
		subs = [][2]string{{a[0], a[1]}}
	case "frozen", "active", "execdeposit", "loadexec":
		subs = [][2]string{{a[0], a[1]}}
	case "execwithdraw":
		subs = [][2]string{{a[1], a[0]}}
	case "depositfrozen", "genesisexec":
		mains = []string{a[1]}
		subs = [][2]string{{a[0], a[1]}}
	case "exectransfer", "exectransferfrozen":
		subs = [][2]string{{a[0], a[2]}, {a[1], a[2]}}
	}
	return
}

// ---------------------------------------------------------------- abstract ledger (predicate)

type delta struct {
	key string // "m|<canon addr>" or "s|<exec as spelled>|<canon addr>"
	frz bool
	d   int64 // multiplied by amount
}

func mk(addr string) string       { return "m|" + canon(addr) }
func sk(exec, addr string) string { return "s|" + exec + "|" + canon(addr) }

// intended effect of an accepted operation on the abstract ledger.
func intended(o op) []delta {
	a := o.a
	switch o.name {
	case "transfer":
		return []delta{{mk(a[0]), false, -1}, {mk(a[1]), false, 1}}
	case "mint", "genesis", "issue":
		return []delta{{mk(a[0]), false, 1}}
	case "burn":
		return []delta{{mk(a[0]), false, -1}}
	case "genesisexec":
		return []delta{{mk(a[1]), false, 1}, {sk(a[1], a[0]), false, 1}}
	case "toexec":
		return []delta{{mk(a[0]), false, -1}, {mk(a[1]), false, 1}, {sk(a[1], a[0]), false, 1}}
	case "withdraw":
		return []delta{{mk(a[1]), false, -1}, {mk(a[0]), false, 1}, {sk(a[1], a[0]), false, -1}}
	case "frozen":
		return []delta{{sk(a[1], a[0]), false, -1}, {sk(a[1], a[0]), true, 1}}
	case "active":
		return []delta{{sk(a[1], a[0]), false, 1}, {sk(a[1], a[0]), true, -1}}
	case "exectransfer":
		return []delta{{sk(a[2], a[0]), false, -1}, {sk(a[2], a[1]), false, 1}}
	case "exectransferfrozen":
		return []delta{{sk(a[2], a[0]), true, -1}, {sk(a[2], a[1]), false, 1}}
	case "depositfrozen":
		return []delta{{mk(a[1]), false, 1}, {sk(a[1], a[0]), true, 1}}
	case "execdeposit":
		return []delta{{sk(a[1], a[0]), false, 1}}
	case "execwithdraw":
		return []delta{{sk(a[0], a[1]), false, -1}}
	}
	return nil
}

type bf struct{ bal, frz *big.Int }

// ledger converts a dump to abstract records; reports raw keys that are not canonical.
func (w *world) ledger(d map[string]rec) (map[string]bf, []string) {
	l := make(map[string]bf, len(d))
	var bad []string
	for k, r := range d {
		var key string
		switch {
		case strings.HasPrefix(k, w.execPrefix):
			rest := k[len(w.execPrefix):]
			i := strings.IndexByte(rest, ':')
			if i < 0 {
				bad = append(bad, k)
				continue
			}
			e, x := rest[:i], rest[i+1:]
			if canon(x) != x || canon(r.addr) != x {
				bad = append(bad, k)
			}
			key = "s|" + e + "|" + x
		case strings.HasPrefix(k, w.mainPrefix):
			x := k[len(w.mainPrefix):]
			if canon(x) != x || canon(r.addr) != x {
				bad = append(bad, k)
			}
			key = "m|" + x
		default:
			bad = append(bad, k)
			continue
		}
		l[key] = bf{big.NewInt(r.bal), big.NewInt(r.frz)}
	}
	sort.Strings(bad)
	return l, bad
}

func get(l map[string]bf, k string) bf {
	if v, ok := l[k]; ok {
		return v
	}
	return bf{new(big.Int), new(big.Int)}
}

// supply = sum of balance+frozen over the main ledger.
func supply(l map[string]bf) *big.Int {
	s := new(big.Int)
	for k, v := range l {
		if k[0] == 'm' {
			s.Add(s, v.bal)
			s.Add(s, v.frz)
		}
	}
	return s
}

// deficit(e) = balance of the exec address itself - sum(balance+frozen) of the accounts under it.
func deficit(l map[string]bf, e string) *big.Int {
	s := new(big.Int).Set(get(l, mk(e)).bal)
	p := "s|" + e + "|"
	for k, v := range l {
		if strings.HasPrefix(k, p) {
			s.Sub(s, v.bal)
			s.Sub(s, v.frz)
		}
	}
	return s
}

func execsOf(ls ...map[string]bf) []string {
	set := map[string]struct{}{}
	for _, l := range ls {
		for k := range l {
			if k[0] == 's' {
				rest := k[2:]
				set[rest[:strings.IndexByte(rest, '|')]] = struct{}{}
			}
		}
	}
	var r []string
	for e := range set {
		r = append(r, e)
	}
	sort.Strings(r)
	return r
}

var (
	maxI64 = big.NewInt(math.MaxInt64)
	minI64 = big.NewInt(math.MinInt64)
)

// aliased reports whether two address arguments are different spellings of one account.
func aliased(o op) bool {
	for i := 0; i < len(o.a); i++ {
		for j := i + 1; j < len(o.a); j++ {
			if o.a[i] != o.a[j] && canon(o.a[i]) == canon(o.a[j]) {
				return true
			}
		}
	}
	return false
}

func (w *world) pred(o op, kind, detail string) {
	if aliased(o) {
		kind += "+aliased-spellings"
	}
	out.Pred("C15|"+site[o.name]+"|"+kind, fmt.Sprintf("op#%d %s ; %s", w.nops, o.line(), detail))
	w.tainted = true
}

// check evaluates the property on the implementation for one executed op.
func (w *world) check(o op, res string, before, after map[string]rec) {
	if w.tainted {
		out.Stat("ops_after_first_predicate_failure_in_sequence", 1)
		return
	}
	if res == "panic" {
		// a Go panic aborts the caller's transaction (the executor rolls the state back); the
		// store is compared with the model but no ledger equation is asserted across it.
		out.Stat("panic_"+o.name, 1)
		w.tainted = true
		return
	}
	changed := len(before) != len(after)
	if !changed {
		for k, v := range after {
			if b, ok := before[k]; !ok || b.raw != v.raw {
				changed = true
				break
			}
		}
	}
	if res != "ok" {
		if changed {
			w.pred(o, "error-but-state-changed", res+" "+diffText(before, after))
		}
		return
	}
	if o.name == "load" || o.name == "loadexec" || o.name == "checktransfer" {
		if changed {
			w.pred(o, "read-only-op-changed-state", diffText(before, after))
		}
		return
	}
	if o.amt <= 0 && o.name != "genesis" && o.name != "genesisexec" {
		w.pred(o, "nonpositive-amount-accepted", fmt.Sprint(o.amt))
		return
	}
	lb, _ := w.ledger(before)
	la, bad := w.ledger(after)
	if len(bad) > 0 {
		w.pred(o, "record-under-non-canonical-key", strings.Join(bad, ","))
		return
	}
	// expected abstract state
	exp := map[string]bf{}
	for k, v := range lb {
		exp[k] = bf{new(big.Int).Set(v.bal), new(big.Int).Set(v.frz)}
	}
	amt := big.NewInt(o.amt)
	for _, d := range intended(o) {
		v, ok := exp[d.key]
		if !ok {
			v = bf{new(big.Int), new(big.Int)}
			exp[d.key] = v
		}
		x := new(big.Int).Mul(amt, big.NewInt(d.d))
		if d.frz {
			v.frz.Add(v.frz, x)
		} else {
			v.bal.Add(v.bal, x)
		}
	}
	overflow := false
	for _, v := range exp {
		for _, x := range []*big.Int{v.bal, v.frz} {
			if x.Cmp(maxI64) > 0 || x.Cmp(minI64) < 0 {
				overflow = true
			}
		}
	}
	// 1. no negative balance / frozen
	var negs []string
	for k, v := range la {
		if v.bal.Sign() < 0 || v.frz.Sign() < 0 {
			negs = append(negs, fmt.Sprintf("%s=%s/%s", k, v.bal, v.frz))
		}
	}
	sort.Strings(negs)
	if overflow {
		w.pred(o, "int64-overflow", "intended value leaves int64; "+diffText(before, after))
		return
	}
	if len(negs) > 0 {
		w.pred(o, "negative-balance", strings.Join(negs, ","))
		return
	}
	// 1b. the main ledger never exceeds the balance limit (types.MaxTokenBalance)
	for k, v := range la {
		if k[0] == 'm' && v.bal.Cmp(big.NewInt(maxBal)) > 0 {
			w.pred(o, "exceeds-balance-limit", fmt.Sprintf("%s=%s", k, v.bal))
			return
		}
	}
	// 2. exact intended effect
	mism := []string{}
	keys := map[string]struct{}{}
	for k := range exp {
		keys[k] = struct{}{}
	}
	for k := range la {
		keys[k] = struct{}{}
	}
	for k := range keys {
		e, a := get(exp, k), get(la, k)
		if e.bal.Cmp(a.bal) != 0 || e.frz.Cmp(a.frz) != 0 {
			mism = append(mism, fmt.Sprintf("%s want %s/%s got %s/%s", k, e.bal, e.frz, a.bal, a.frz))
		}
	}
	if len(mism) == 0 {
		return
	}
	sort.Strings(mism)
	detail := strings.Join(mism, "; ")
	if supply(exp).Cmp(supply(la)) != 0 {
		w.pred(o, "supply-changed", fmt.Sprintf("supply want %s got %s; %s", supply(exp), supply(la), detail))
		return
	}
	for _, e := range execsOf(exp, la) {
		if deficit(exp, e).Cmp(deficit(la, e)) != 0 {
			w.pred(o, "exec-equation-broken", fmt.Sprintf("exec %s: balance-sum(sub) want %s got %s; %s", e, deficit(exp, e), deficit(la, e), detail))
			return
		}
	}
	w.pred(o, "account-effect-wrong", detail)
}

func diffText(b, a map[string]rec) string {
	var s []string
	for k, v := range a {
		if o, ok := b[k]; !ok {
			s = append(s, fmt.Sprintf("%s: absent -> %d/%d", k, v.bal, v.frz))
		} else if o.raw != v.raw {
			s = append(s, fmt.Sprintf("%s: %d/%d -> %d/%d", k, o.bal, o.frz, v.bal, v.frz))
		}
	}
	sort.Strings(s)
	return strings.Join(s, "; ")
}

// variants returns case spellings of s that denote the same account (lower-case first).
func variants(s string) []string {
	if !hexShape(s) {
		return []string{s}
	}
	lo := strings.ToLower(s)
	pre := 0
	if strings.HasPrefix(lo, "0x") {
		pre = 2
	}
	up := lo[:pre] + strings.ToUpper(lo[pre:])
	mixed := []byte(lo)
	for i := pre; i < len(mixed); i += 2 {
		if mixed[i] >= 'a' && mixed[i] <= 'f' {
			mixed[i] -= 32
		}
	}
	v := []string{lo, up, string(mixed)}
	if pre == 2 {
		v = append(v, "0X"+string(mixed[2:]), "0X"+lo[2:])
	}
	return v
}

// checkSpellings: every case spelling of every address the op names reads the same record.
func (w *world) checkSpellings(o op, subs [][2]string, mains []string) {
	if w.tainted {
		return
	}
	for _, m := range mains {
		vs := variants(m)
		if len(vs) < 2 {
			continue
		}
		ref := w.acc.LoadAccount(vs[0])
		for _, v := range vs[1:] {
			x := w.acc.LoadAccount(v)
			if x.Balance != ref.Balance || x.Frozen != ref.Frozen {
				out.Pred("C15|LoadAccount|case-spellings-read-different-records",
					fmt.Sprintf("after %s: %s -> %s but %s -> %s", o.line(), vs[0], showAcct(ref), v, showAcct(x)))
				w.tainted = true
				return
			}
		}
		out.Stat("spelling_groups_compared", 1)
	}
	for _, p := range subs {
		vs := variants(p[0])
		if len(vs) < 2 {
			continue
		}
		ref := w.acc.LoadExecAccount(vs[0], p[1])
		for _, v := range vs[1:] {
			x := w.acc.LoadExecAccount(v, p[1])
			if x.Balance != ref.Balance || x.Frozen != ref.Frozen {
				out.Pred("C15|LoadExecAccount|case-spellings-read-different-records",
					fmt.Sprintf("after %s: %s -> %s but %s -> %s (exec %s)", o.line(), vs[0], showAcct(ref), v, showAcct(x), p[1]))
				w.tainted = true
				return
			}
		}
		out.Stat("spelling_groups_compared", 1)
	}
	// the exec-address argument: every letter-case spelling of a hex exec address must name the
	// same sub-ledger (the main record of the exec address is shared by all of them)
	for _, p := range subs {
		vs := variants(p[1])
		if len(vs) < 2 {
			continue
		}
		ref := w.acc.LoadExecAccount(p[0], p[1])
		out.Stat("exec_spelling_groups_compared", 1)
		for _, v := range vs {
			x := w.acc.LoadExecAccount(p[0], v)
			if x.Balance != ref.Balance || x.Frozen != ref.Frozen {
				// not tainting: the abstract ledger of this harness keys sub-ledgers by the spelling
				// as well, so the other predicates stay meaningful
				out.Pred("C15|execAccountKey|exec-address-spelling-names-different-sub-ledger",
					fmt.Sprintf("after %s: account %s under exec %s -> %d/%d but under exec %s -> %d/%d (main record of both exec spellings: %d)",
						o.line(), p[0], p[1], ref.Balance, ref.Frozen, v, x.Balance, x.Frozen, w.acc.LoadAccount(v).Balance))
				break
			}
		}
	}
}

// exec runs one op: emits the observation line and evaluates the predicates.
func (w *world) exec(o op) string {
	w.nops++
	before := w.kv.dump()
	res, mains, subs := w.call(o)
	var sb strings.Builder
	sb.WriteString(res)
	obs := gen.Guard(func() string {
		var t strings.Builder
		for _, m := range mains {
			t.WriteString(" " + showAcct(w.acc.LoadAccount(m)))
		}
		for _, p := range subs {
			t.WriteString(" " + showAcct(w.acc.LoadExecAccount(p[0], p[1])))
		}
		return t.String()
	})
	sb.WriteString(obs)
	out.Op(o.line(), sb.String())
	after := w.kv.dump()
	out.Stat("op_"+o.name, 1)
	out.Stat("res_"+o.name+"_"+res, 1)
	if aliased(o) {
		out.Stat("ops_with_aliased_spellings", 1)
	}
	w.check(o, res, before, after)
	if res != "panic" {
		w.checkSpellings(o, subs, mains)
	}
	return res
}

// ---------------------------------------------------------------- generation

type pool struct {
	users []string // spellings usable in an address position
	execs []string // exec addresses (canonical spelling each)
	hexLo []string // lower-case 0x spellings of the hex accounts
	allow []string
}

func hexAddr(r *gen.Rand) string {
	const digits = "0123456789abcdef"
	for {
		b := r.BytesFrom([]byte(digits), 40)
		letters := 0
		for _, c := range b {
			if c >= 'a' {
				letters++
			}
		}
		if letters >= 8 {
			return string(b)
		}
	}
}

func newPool(r *gen.Rand) *pool {
	p := &pool{}
	for _, n := range theCfg.GetMinerExecs() {
		p.allow = append(p.allow, address.ExecAddress(theCfg.ExecName(n)))
	}
	b58 := []string{"14KEKbYtKKQm4wMthSK9J4La4nAiidGozt", "1EbDHAXpoiewjPLX9uqoz38HsKqMXayZrF"}
	p.users = append(p.users, b58...)
	h0, h1, h2 := hexAddr(r), hexAddr(r), hexAddr(r)
	for _, h := range []string{"0x" + h0, "0x" + h1, h0} { // bare h0 is a different account than 0x+h0
		p.users = append(p.users, variants(h)...)
	}
	p.hexLo = []string{"0x" + h0, "0x" + h1, "0x" + h2}
	e0 := p.allow[0]
	e1 := address.ExecAddress("coins")
	e2 := "0x" + h2 // an exec address in eth format, also reachable as a plain account in other spellings
	p.execs = []string{e0, e1, e2, "0x" + h0}
	p.users = append(p.users, e0, e1)
	p.users = append(p.users, variants(e2)...)
	return p
}

var (
	limit  int64 // types.MaxCoin * cfg.GetCoinPrecision(): CheckAmount accepts 0 < amount < limit
	maxBal = types.MaxTokenBalance
)

func (p *pool) user(r *gen.Rand) string { return p.users[r.Intn(len(p.users))] }
func (p *pool) exec(r *gen.Rand) string {
	e := p.execs[r.Pick(4, 3, 3, 1)]
	if hexShape(e) && r.Chance(1, 5) {
		return respell(r, e) // the exec-address argument in another letter case
	}
	return e
}

// other spelling of the same account, when there is one.
func respell(r *gen.Rand, s string) string {
	v := variants(s)
	return v[r.Intn(len(v))]
}

func (w *world) amount(r *gen.Rand, payer int64, payee int64) int64 {
	switch r.Pick(50, 25, 25) {
	case 0:
		switch r.Intn(6) {
		case 0:
			return payer
		case 1:
			return payer + 1
		case 2:
			return payer - 1
		case 3:
			return payer / 2
		default:
			if payer > 0 {
				return 1 + int64(r.U64()%uint64(payer))
			}
			return 1
		}
	case 1:
		return int64(r.Range(1, 1000))
	}
	edges := []int64{0, -1, 1, 2, limit - 1, limit, limit + 1, limit - 2, maxBal, maxBal - 1, maxBal + 1,
		math.MaxInt64, math.MinInt64, math.MinInt64 + 1, math.MaxInt64 - 1, -limit, -(limit - 1),
		maxBal - payee, maxBal - payee + 1, maxBal - payee - 1, limit / 2}
	if r.Chance(1, 3) {
		return int64(r.U64()%uint64(limit-1)) + 1
	}
	return edges[r.Intn(len(edges))]
}

// funded picks an (account spelling, exec) pair that has a sub-ledger record, or a main
// account with a record, so that debiting operations are accepted often enough.
func (w *world) funded(r *gen.Rand, sub bool) (string, string, bool) {
	var ks []string
	want := w.mainPrefix
	if sub {
		want = w.execPrefix
	}
	for k := range w.kv.keys {
		if strings.HasPrefix(k, want) && (sub || !strings.HasPrefix(k, w.execPrefix)) {
			ks = append(ks, k)
		}
	}
	if len(ks) == 0 {
		return "", "", false
	}
	sort.Strings(ks)
	k := ks[r.Intn(len(ks))][len(want):]
	if !sub {
		return respell(r, k), "", true
	}
	i := strings.IndexByte(k, ':')
	e := k[:i]
	if hexShape(e) && r.Chance(1, 8) {
		e = respell(r, e)
	}
	return respell(r, k[i+1:]), e, true
}

func (w *world) genOp(r *gen.Rand, p *pool, rich bool) op {
	acc := w.acc
	mb := func(a string) int64 { return acc.LoadAccount(a).Balance }
	sb := func(a, e string) *types.Account { return acc.LoadExecAccount(a, e) }
	u, v, e := p.user(r), p.user(r), p.exec(r)
	kind := r.Pick(10, 2, 5, 4, 6, 4, 10, 8, 8, 6, 10, 8, 5, 4, 5, 5)
	subOp := kind >= 7 && kind <= 11 || kind == 15
	if r.Chance(2, 3) {
		if a, x, ok := w.funded(r, subOp); ok {
			u = a
			if subOp {
				e = x
			}
		}
	}
	if r.Chance(1, 6) {
		v = respell(r, u) // deliberately two spellings of one account
	}
	switch kind {
	case 0:
		return op{"transfer", []string{u, v}, w.amount(r, mb(u), mb(v))}
	case 1:
		return op{"checktransfer", []string{u, v}, w.amount(r, mb(u), 0)}
	case 2:
		return op{"mint", []string{u}, w.amount(r, limit/2, mb(u))}
	case 3:
		return op{"burn", []string{u}, w.amount(r, mb(u), 0)}
	case 4:
		a := w.amount(r, limit*3, mb(u))
		if rich && r.Chance(1, 2) {
			a = maxBal - int64(r.Intn(3))*limit/2 - int64(r.Intn(5))
		}
		if a < 0 && !r.Chance(1, 8) {
			a = -(a + 1)
		}
		return op{"genesis", []string{u}, a}
	case 5:
		a := w.amount(r, limit/3, mb(e))
		if (a <= 0 || a >= limit) && !r.Chance(1, 6) {
			a = int64(r.U64()%uint64(limit-1)) + 1
		}
		return op{"genesisexec", []string{u, e}, a}
	case 6:
		return op{"toexec", []string{u, e}, w.amount(r, mb(u), mb(e))}
	case 7:
		return op{"withdraw", []string{u, e}, w.amount(r, sb(u, e).Balance, mb(u))}
	case 8:
		return op{"frozen", []string{u, e}, w.amount(r, sb(u, e).Balance, 0)}
	case 9:
		return op{"active", []string{u, e}, w.amount(r, sb(u, e).Frozen, 0)}
	case 10:
		return op{"exectransfer", []string{u, v, e}, w.amount(r, sb(u, e).Balance, sb(v, e).Balance)}
	case 11:
		return op{"exectransferfrozen", []string{u, v, e}, w.amount(r, sb(u, e).Frozen, sb(v, e).Balance)}
	case 12:
		return op{"depositfrozen", []string{u, e}, w.amount(r, limit/4, mb(e))}
	case 13:
		return op{"issue", []string{e}, w.amount(r, limit/4, mb(e))}
	case 14:
		return op{"execdeposit", []string{u, e}, w.amount(r, limit/2, 0)}
	default:
		return op{"execwithdraw", []string{e, u}, w.amount(r, sb(u, e).Balance, 0)}
	}
}

func amtClass(a int64) string {
	switch {
	case a == math.MinInt64 || a == math.MaxInt64:
		return "int64-extreme"
	case a < 0:
		return "negative"
	case a == 0:
		return "zero"
	case a < 1000:
		return "small"
	case a < limit-2:
		return "mid"
	case a <= limit+1:
		return "at-amount-limit"
	case a >= maxBal-limit && a <= maxBal+1:
		return "near-balance-limit"
	}
	return "huge"
}

func sequence(r *gen.Rand, p *pool, n int) {
	token := r.Chance(1, 4)
	rich := r.Chance(1, 4)
	w := newWorld(token)
	out.Op("reset", "ok")
	out.Stat("sequences", 1)
	if token {
		out.Stat("sequences_token_ledger", 1)
	}
	// funding prologue so that later operations are mostly accepted
	for i := 0; i < 4; i++ {
		u, e := p.user(r), p.exec(r)
		amt := int64(r.Range(1, 1000000)) * 1000
		if rich && i < 2 {
			amt = maxBal - int64(r.Intn(4))*(limit-1)
		}
		var o op
		switch r.Intn(4) {
		case 0, 1:
			o = op{"genesis", []string{u}, amt}
		case 2:
			o = op{"genesisexec", []string{u, e}, amt % limit}
		default:
			o = op{"depositfrozen", []string{u, p.allow[0]}, amt % limit}
		}
		if w.exec(o) == "panic" {
			return
		}
	}
	for i := 4; i < n; i++ {
		o := w.genOp(r, p, rich)
		out.Stat("amount_"+amtClass(o.amt), 1)
		if w.exec(o) == "panic" {
			return // the caller's transaction is aborted; the store would be rolled back
		}
		if r.Chance(1, 3) {
			// read some involved account through another spelling
			x := respell(r, o.a[0])
			if r.Bool() {
				w.exec(op{name: "load", a: []string{x}})
			} else {
				w.exec(op{name: "loadexec", a: []string{x, p.exec(r)}})
			}
		}
	}
}

func replay(lines []string) {
	w := newWorld(false)
	var allow []string
	for _, n := range theCfg.GetMinerExecs() {
		allow = append(allow, address.ExecAddress(theCfg.ExecName(n)))
	}
	out.Op("cfg allow "+strings.Join(allow, " "), "ok")
	for _, l := range lines {
		f := strings.Fields(l)
		switch {
		case len(f) >= 1 && f[0] == "cfg":
			// the implementation has its own configuration; the line above tells the model
		case len(f) == 1 && f[0] == "reset":
			w = newWorld(false)
			out.Op(l, "ok")
		case len(f) == 1 && f[0] == "limits":
			out.Op(l, fmt.Sprintf("%d %d", limit, maxBal))
		default:
			o, ok := parseOp(l)
			if !ok {
				out.Op(l, "bad-op")
				continue
			}
			w.exec(o)
		}
	}
}

func main() {
	defer out.Flush()
	log15.Root().SetHandler(log15.DiscardHandler())
	theCfg = types.NewChain33Config(types.GetDefaultCfgstring())
	limit = types.MaxCoin * theCfg.GetCoinPrecision()
	if lines := gen.ReplayLines(); lines != nil {
		replay(lines)
		return
	}
	r := gen.New(gen.Seed())
	p := newPool(r)
	out.Op("cfg allow "+strings.Join(p.allow, " "), "ok")
	out.Op("limits", fmt.Sprintf("%d %d", limit, maxBal))
	nseq := gen.Scale(3000, 60000)
	for i := 0; i < nseq; i++ {
		if i%200 == 199 {
			p = newPool(r) // fresh hex addresses
			out.Op("cfg allow "+strings.Join(p.allow, " "), "ok")
		}
		sequence(r, p, r.Range(8, 40))
	}
	out.Sample("sequence of <= 40 ops over " + fmt.Sprint(len(p.users)) + " spellings of 6 accounts + 4 exec addresses, e.g. " + strings.Join(p.users[2:7], " "))
}
