// h_c16 — C16 "transaction hash and signature bind every signed field".
//
// Drives types.Transaction Hash/FullHash/Clone/CloneTx/Sign/CheckSign and common/crypto Load/Init
// in-process.  Every op line is answered by the implementation here and by the Lean model in drv_c16:
//
//	sha256 <hex>                        executable SHA-256 of the model vs crypto/sha256
//	fields / sigfields / cloneassign / clonesigassign
//	                                    regenerated facts: proto field lists (reflection on the
//	                                    generated structs) and the fields assigned in CloneTx /
//	                                    Signature.Clone (go/ast over /repo's current source)
//	tx <tx>                             Encode, Hash, FullHash, bytes handed to the crypto driver, Size
//	clone <tx> / clonetx <tx>           tx.Clone() / CloneTx(tx)
//	reg / init / load                   crypto driver registry, crypto.Init configurations, crypto.Load
//	checksign <h> <oracle> <tx> <label> tx.CheckSign(h)   (oracle = driver.Validate(...) == nil)
//	sigsame <parser> <honest> <variant> parse layer of the drivers: variant reaches the verifier as
//	                                    the same bytes as the honest signature / is rejected
//
// The property predicates are evaluated on the implementation's answers (#PRED lines).
package main

import (
	"bytes"
	"crypto/elliptic"
	"crypto/sha256"
	"encoding/hex"
	"fmt"
	"go/ast"
	"go/parser"
	"go/token"
	"math/big"
	"os"
	"path/filepath"
	"reflect"
	"sort"
	"strconv"
	"strings"

	"github.com/33cn/chain33/common/crypto"
	_ "github.com/33cn/chain33/system"
	btcecdsa "github.com/btcsuite/btcd/btcec/v2/ecdsa"
	"github.com/33cn/chain33/types"
	"github.com/golang/protobuf/proto"

	"verifharness/cmd/h_c16/txw"
	"verifharness/internal/gen"
)

var out *gen.Out

func hx(b []byte) string { return hex.EncodeToString(b) }

// ---------------------------------------------------------------------------------------------
// ops

func opSha(b []byte) {
	s := sha256.Sum256(b)
	out.Op("sha256 "+txw.Hex(b), hx(s[:]))
}

type txObs struct {
	enc, hash, full, sb []byte
	ok                  bool
}

// opTx prints the byte-exact observation of a transaction.
func opTx(tx *types.Transaction) txObs {
	var o txObs
	res := gen.Guard(func() string {
		o.enc = types.Encode(tx)
		o.hash = tx.Hash()
		o.full = tx.FullHash()
		o.sb = txw.SignBytesObserved(tx)
		o.ok = true
		return fmt.Sprintf("%s %s %s %s %d", txw.Hex(o.enc), hx(o.hash), hx(o.full), txw.Hex(o.sb), tx.Size())
	})
	out.Op("tx "+txw.Tok(tx), res)
	out.Stat("tx_ops", 1)
	return o
}

func opClone(tx *types.Transaction) {
	orig := txw.Copy(tx)
	h0, f0 := tx.Hash(), tx.FullHash()
	var c *types.Transaction
	res := gen.Guard(func() string {
		c = tx.Clone()
		return fmt.Sprintf("%s %s %s", txw.Tok(c), hx(c.Hash()), hx(c.FullHash()))
	})
	out.Op("clone "+txw.Tok(orig), res)
	if c == nil {
		out.Pred("C16|Clone|panic", txw.Tok(orig))
		return
	}
	if !bytes.Equal(c.Hash(), h0) {
		out.Pred("C16|Clone|hash-changed", txw.Tok(orig))
	}
	if !bytes.Equal(c.FullHash(), f0) {
		out.Pred("C16|Clone|fullhash-changed", txw.Tok(orig))
	}
	if !proto.Equal(c, orig) {
		out.Pred("C16|Clone|not-equal-to-original", txw.Tok(orig))
	}
	if tx.Signature != nil && c.Signature == tx.Signature {
		out.Pred("C16|Clone|signature-pointer-shared", txw.Tok(orig))
	}
	c2 := types.CloneTx(tx)
	out.Op("clonetx "+txw.Tok(orig), txw.Tok(c2))
	if !proto.Equal(c2, orig) {
		out.Pred("C16|CloneTx|not-equal-to-original", txw.Tok(orig))
	}
	out.Stat("clone_ops", 1)
}

// ---------------------------------------------------------------------------------------------
// regenerated facts

func repoDir() string {
	if d := os.Getenv("VERIF_REPO"); d != "" {
		return d
	}
	return "/repo"
}

// assignedFields lists X in statements `<lhs>.X = …` / composite literal keys of function fn in file.
func assignedFields(file, fn string) string {
	fset := token.NewFileSet()
	f, err := parser.ParseFile(fset, filepath.Join(repoDir(), file), nil, 0)
	if err != nil {
		return "parse-error"
	}
	set := map[string]bool{}
	found := false
	for _, d := range f.Decls {
		fd, ok := d.(*ast.FuncDecl)
		if !ok || fd.Name.Name != fn || fd.Body == nil {
			continue
		}
		if fn == "Clone" {
			// only the method on *Signature (types.go) / *Transaction (tx.go): both files have one each
			if fd.Recv == nil {
				continue
			}
			star, ok := fd.Recv.List[0].Type.(*ast.StarExpr)
			if !ok {
				continue
			}
			id, ok := star.X.(*ast.Ident)
			if !ok || (id.Name != "Signature" && id.Name != "Transaction") {
				continue
			}
		}
		found = true
		ast.Inspect(fd.Body, func(n ast.Node) bool {
			switch x := n.(type) {
			case *ast.AssignStmt:
				for _, l := range x.Lhs {
					if se, ok := l.(*ast.SelectorExpr); ok {
						set[se.Sel.Name] = true
					}
				}
			case *ast.KeyValueExpr:
				if id, ok := x.Key.(*ast.Ident); ok {
					set[id.Name] = true
				}
			}
			return true
		})
	}
	if !found {
		return "function-not-found"
	}
	var l []string
	for k := range set {
		l = append(l, k)
	}
	sort.Strings(l)
	return strings.Join(l, ",")
}

// setNonDefault sets every protobuf field of msg (recursively for message pointers) to a
// non-default value derived from salt, through reflection: also reaches fields this harness
// does not know about.
func setNonDefault(v reflect.Value, salt int) {
	t := v.Type()
	for i := 0; i < t.NumField(); i++ {
		f := t.Field(i)
		if f.Tag.Get("protobuf") == "" {
			continue
		}
		fv := v.Field(i)
		switch fv.Kind() {
		case reflect.Slice:
			if fv.Type().Elem().Kind() == reflect.Uint8 {
				fv.SetBytes([]byte{byte(salt + i + 1), 0xee})
			}
		case reflect.String:
			fv.SetString(fmt.Sprintf("s%d-%d", salt, i))
		case reflect.Int32, reflect.Int64:
			fv.SetInt(int64(salt*100 + i + 2)) // groupCount stays small
		case reflect.Uint32, reflect.Uint64:
			fv.SetUint(uint64(salt*100 + i + 2))
		case reflect.Bool:
			fv.SetBool(true)
		case reflect.Ptr:
			if fv.Type().Elem().Kind() == reflect.Struct {
				n := reflect.New(fv.Type().Elem())
				setNonDefault(n.Elem(), salt+50)
				fv.Set(n)
			}
		}
	}
}

func phaseFacts() {
	out.Op("fields", txw.FieldsString(txw.ProtoFields(&types.Transaction{})))
	out.Op("sigfields", txw.FieldsString(txw.ProtoFields(&types.Signature{})))
	out.Op("cloneassign", assignedFields("types/tx.go", "CloneTx"))
	out.Op("clonesigassign", assignedFields("types/types.go", "Clone"))

	// reflection clone test: independent of the field list known to this harness
	for salt := 1; salt <= 3; salt++ {
		tx := &types.Transaction{}
		setNonDefault(reflect.ValueOf(tx).Elem(), salt)
		ref := proto.Clone(tx).(*types.Transaction) // generic deep copy (protobuf runtime, not the code under test)
		wantFull := sha256.Sum256(types.Encode(ref))
		c1 := types.CloneTx(tx)
		c2 := tx.Clone()
		if !proto.Equal(c1, ref) {
			out.Pred("C16|CloneTx|field-not-copied", diffFields(c1, ref))
		}
		if !proto.Equal(c2, ref) {
			out.Pred("C16|Clone|field-not-copied", diffFields(c2, ref))
		}
		if !bytes.Equal(tx.FullHash(), wantFull[:]) {
			out.Pred("C16|FullHash|not-hash-of-full-encoding", txw.Tok(tx))
		}
		if !bytes.Equal(c2.FullHash(), tx.FullHash()) || !bytes.Equal(c2.Hash(), tx.Hash()) {
			out.Pred("C16|Clone|hash-changed", txw.Tok(tx))
		}
		// Hash must be the hash of the full encoding without signature and header (all other fields kept)
		ref.Signature = nil
		ref.Header = nil
		wantHash := sha256.Sum256(types.Encode(ref))
		if !bytes.Equal(tx.Hash(), wantHash[:]) {
			out.Pred("C16|Hash|not-hash-of-encoding-without-sig-header", txw.Tok(tx))
		}
		out.Stat("reflect_clone_checks", 1)
	}
}

func diffFields(a, b *types.Transaction) string {
	va, vb := reflect.ValueOf(a).Elem(), reflect.ValueOf(b).Elem()
	var d []string
	for i := 0; i < va.NumField(); i++ {
		f := va.Type().Field(i)
		if f.Tag.Get("protobuf") == "" {
			continue
		}
		if !reflect.DeepEqual(va.Field(i).Interface(), vb.Field(i).Interface()) {
			if f.Type.Kind() == reflect.Ptr {
				if pa, ok := va.Field(i).Interface().(proto.Message); ok {
					if proto.Equal(pa, vb.Field(i).Interface().(proto.Message)) {
						continue
					}
				}
			}
			d = append(d, f.Name)
		}
	}
	return "fields differ: " + strings.Join(d, ",")
}

// ---------------------------------------------------------------------------------------------
// per-field mutation

type fieldMut struct {
	name   string
	signed bool // part of the signed message
	hashed bool // part of Hash()
	apply  func(r *gen.Rand, tx *types.Transaction) bool
}

func mutBytes(r *gen.Rand, b []byte) []byte {
	n := append([]byte(nil), b...)
	switch {
	case len(n) == 0:
		return []byte{byte(r.Intn(256))}
	default:
		switch r.Intn(5) {
		case 0:
			return append(n, byte(r.Intn(256)))
		case 1:
			if len(n) > 1 {
				return n[:len(n)-1]
			}
			return nil
		case 2:
			if len(n) > 1 {
				return n[1:]
			}
			return nil
		default:
			i := r.Intn(len(n))
			n[i] ^= 1 << uint(r.Intn(8))
			return n
		}
	}
}

func mutInt64(r *gen.Rand, v int64) int64 {
	for {
		var n int64
		switch r.Intn(5) {
		case 0:
			n = v + 1
		case 1:
			n = v - 1
		case 2:
			n = v ^ (1 << uint(r.Intn(64)))
		case 3:
			n = 0
		default:
			n = txw.EdgeInt64(r)
		}
		if n != v {
			return n
		}
	}
}

func mutInt32(r *gen.Rand, v int32) int32 {
	for {
		var n int32
		switch r.Intn(4) {
		case 0:
			n = v + 1
		case 1:
			n = v ^ (1 << uint(r.Intn(32)))
		case 2:
			n = 0
		default:
			n = txw.EdgeInt32(r)
		}
		if n != v {
			return n
		}
	}
}

// fieldMuts is keyed by the Go field names of the generated structs; phaseMutate fails if the
// reflection field list contains a field without an entry here.
var fieldMuts = []fieldMut{
	{"Execer", true, true, func(r *gen.Rand, t *types.Transaction) bool { t.Execer = mutBytes(r, t.Execer); return true }},
	{"Payload", true, true, func(r *gen.Rand, t *types.Transaction) bool { t.Payload = mutBytes(r, t.Payload); return true }},
	{"Fee", true, true, func(r *gen.Rand, t *types.Transaction) bool { t.Fee = mutInt64(r, t.Fee); return true }},
	{"Expire", true, true, func(r *gen.Rand, t *types.Transaction) bool { t.Expire = mutInt64(r, t.Expire); return true }},
	{"Nonce", true, true, func(r *gen.Rand, t *types.Transaction) bool { t.Nonce = mutInt64(r, t.Nonce); return true }},
	{"To", true, true, func(r *gen.Rand, t *types.Transaction) bool {
		switch r.Intn(3) {
		case 0:
			t.To += "x"
		case 1:
			if len(t.To) > 0 && t.To[len(t.To)-1] < 0x80 {
				t.To = t.To[:len(t.To)-1]
			} else {
				t.To += "1"
			}
		default:
			if len(t.To) > 0 && t.To[0] < 0x7f {
				t.To = string(t.To[0]^1) + t.To[1:]
			} else {
				t.To = "y" + t.To
			}
		}
		return true
	}},
	{"GroupCount", true, true, func(r *gen.Rand, t *types.Transaction) bool { t.GroupCount = mutInt32(r, t.GroupCount); return true }},
	{"Header", true, false, func(r *gen.Rand, t *types.Transaction) bool { t.Header = mutBytes(r, t.Header); return true }},
	{"Next", true, true, func(r *gen.Rand, t *types.Transaction) bool { t.Next = mutBytes(r, t.Next); return true }},
	{"ChainID", true, true, func(r *gen.Rand, t *types.Transaction) bool { t.ChainID = mutInt32(r, t.ChainID); return true }},
	{"Signature", false, false, func(r *gen.Rand, t *types.Transaction) bool { // nil <-> present
		if t.Signature == nil {
			t.Signature = &types.Signature{Ty: 1, Pubkey: []byte{2}, Signature: []byte{3}}
		} else {
			t.Signature = nil
		}
		return true
	}},
	{"Signature.Ty", false, false, func(r *gen.Rand, t *types.Transaction) bool {
		if t.Signature == nil {
			return false
		}
		t.Signature.Ty = mutInt32(r, t.Signature.Ty)
		return true
	}},
	{"Signature.Pubkey", false, false, func(r *gen.Rand, t *types.Transaction) bool {
		if t.Signature == nil {
			return false
		}
		t.Signature.Pubkey = mutBytes(r, t.Signature.Pubkey)
		return true
	}},
	{"Signature.Signature", false, false, func(r *gen.Rand, t *types.Transaction) bool {
		if t.Signature == nil {
			return false
		}
		t.Signature.Signature = mutBytes(r, t.Signature.Signature)
		return true
	}},
}

func mutFor(name string) *fieldMut {
	for i := range fieldMuts {
		if fieldMuts[i].name == name {
			return &fieldMuts[i]
		}
	}
	return nil
}

// allFieldNames: reflection-derived list "Execer", …, "Signature", "Signature.Ty", …
func allFieldNames() []string {
	var names []string
	for _, f := range txw.ProtoFields(&types.Transaction{}) {
		names = append(names, f.GoName)
		if f.GoName == "Signature" {
			for _, g := range txw.ProtoFields(&types.Signature{}) {
				names = append(names, "Signature."+g.GoName)
			}
		}
	}
	return names
}

func phaseMutate(r *gen.Rand, n int) {
	names := allFieldNames()
	for _, nm := range names {
		if mutFor(nm) == nil {
			// a proto field this harness has no mutator for: the tie is incomplete -> make it visible
			out.Op("fieldmut "+nm, "unknown-field")
		}
	}
	for i := 0; i < n; i++ {
		var tx *types.Transaction
		if i%3 == 0 {
			tx = txw.PlainTx(r, txw.Execers[r.Intn(len(txw.Execers))], int32(r.Intn(3)))
			if r.Bool() {
				tx.Signature = &types.Signature{Ty: 1, Pubkey: r.Bytes(33), Signature: r.Bytes(70)}
			}
		} else {
			tx = txw.RandTx(r)
		}
		base := opTx(tx)
		if !base.ok {
			out.Pred("C16|Hash|panic", txw.Tok(tx))
			continue
		}
		for _, nm := range names {
			m := mutFor(nm)
			if m == nil {
				continue
			}
			t2 := txw.Copy(tx)
			if !m.apply(r, t2) {
				continue
			}
			if bytes.Equal(types.Encode(t2), base.enc) {
				// e.g. Signature{} -> nil is a real change, nil <-> empty bytes is not: skip non-changes
				if !(nm == "Signature") {
					continue
				}
			}
			o := opTx(t2)
			if !o.ok {
				out.Pred("C16|Hash|panic", txw.Tok(t2))
				continue
			}
			out.Stat("mut_"+nm, 1)
			same := bytes.Equal(o.hash, base.hash)
			if m.hashed && same {
				out.Pred("C16|Hash|unchanged-after-mutating-"+nm, txw.Tok(tx)+" => "+txw.Tok(t2))
			}
			if !m.hashed && !same {
				out.Pred("C16|Hash|changed-by-"+nm, txw.Tok(tx)+" => "+txw.Tok(t2))
			}
			if m.signed && bytes.Equal(o.sb, base.sb) {
				out.Pred("C16|checkSign|signed-bytes-unchanged-after-mutating-"+nm, txw.Tok(tx)+" => "+txw.Tok(t2))
			}
			if !m.signed && !bytes.Equal(o.sb, base.sb) {
				out.Pred("C16|checkSign|signed-bytes-depend-on-"+nm, txw.Tok(tx)+" => "+txw.Tok(t2))
			}
			if bytes.Equal(o.full, base.full) && !bytes.Equal(types.Encode(t2), base.enc) {
				out.Pred("C16|FullHash|unchanged-after-mutating-"+nm, txw.Tok(tx)+" => "+txw.Tok(t2))
			}
		}
		if i%4 == 0 {
			opClone(tx)
		}
	}
}

// ---------------------------------------------------------------------------------------------
// registry / configurations

func opLoad(name string, h int64) string {
	res := txw.LoadRes(name, h)
	out.Op(fmt.Sprintf("load %s %d", name, h), res)
	out.Stat("load_"+res, 1)
	return res
}

// opInit applies a crypto configuration to the real registry and tells the model.
func opInit(enableTypes []string, heights map[string]int64) {
	cfg := &crypto.Config{EnableTypes: enableTypes, EnableHeight: heights}
	sub := map[string][]byte{"secp256k1eth": []byte("{}")}
	res := gen.Guard(func() string { crypto.Init(cfg, sub); return "ok" })
	txw.ApplyInit(enableTypes, heights)
	ts := "-"
	if len(enableTypes) > 0 {
		ts = strings.Join(enableTypes, ",")
	}
	hs := "-"
	if len(heights) > 0 {
		var l []string
		for k, v := range heights {
			l = append(l, fmt.Sprintf("%s=%d", k, v))
		}
		sort.Strings(l)
		hs = strings.Join(l, ",")
	}
	out.Op(fmt.Sprintf("init %s %s", ts, hs), res)
	out.Stat("crypto_init", 1)
}

// ---------------------------------------------------------------------------------------------
// sign / verify

// opCheckSign observes tx.CheckSign(h).  label: "honest" (signed by the key, untouched: must verify
// iff the type is enabled at h), "unsigned", or "mut:<kind>" (altered after signing: must fail).
func opCheckSign(h int64, tx *types.Transaction, label string) bool {
	or := txw.Oracle(tx)
	var ok bool
	res := gen.Guard(func() string { ok = tx.CheckSign(h); return txw.B01(ok) })
	out.Op(fmt.Sprintf("checksign %d %s %s %s", h, or, txw.Tok(tx), label), res)
	out.Stat("checksign_"+strings.SplitN(label, ":", 2)[0]+"_"+res, 1)
	name := "none"
	if tx.Signature != nil {
		name = txw.DriverNameOf(tx)
	}
	if res == "panic" {
		kind := "panic-" + label
		switch label {
		case "mut:pubkey-altered", "mut:pubkey-prefix-byte-altered", "mut:type-switched", "mut:pubkey-of-other-key", "mut:pubkey-recovered-alternative":
			kind = "panic-on-invalid-pubkey"
		}
		out.Pred("C16|"+name+".CheckSign|"+kind, fmt.Sprintf("h=%d %s %s", h, label, txw.Tok(tx)))
		return false
	}
	switch {
	case label == "honest":
		en := h >= 0 && txw.ExpectEnabled(name, h)
		if h >= 0 && en && !ok {
			out.Pred("C16|"+name+".CheckSign|honest-signature-rejected-while-enabled", fmt.Sprintf("h=%d %s", h, txw.Tok(tx)))
		}
		if h >= 0 && !en && ok {
			out.Pred("C16|"+name+".CheckSign|accepted-while-type-disabled", fmt.Sprintf("h=%d %s", h, txw.Tok(tx)))
		}
	case label == "unsigned":
		if ok {
			out.Pred("C16|CheckSign|unsigned-accepted", fmt.Sprintf("h=%d %s", h, txw.Tok(tx)))
		}
	case strings.HasPrefix(label, "mut:"):
		if ok {
			out.Pred("C16|"+name+".Validate|"+label[4:]+"-accepted", fmt.Sprintf("h=%d %s", h, txw.Tok(tx)))
		}
	}
	return ok
}

// curve orders for the high-S variant
var orders = map[string]*big.Int{
	"secp256k1":    mustBig("fffffffffffffffffffffffffffffffebaaedce6af48a03bbfd25e8cd0364141"),
	"secp256k1eth": mustBig("fffffffffffffffffffffffffffffffebaaedce6af48a03bbfd25e8cd0364141"),
	"secp256r1":    mustBig("ffffffff00000000ffffffffffffffffbce6faada7179e84f3b9cac2fc632551"),
	"sm2":          mustBig("fffffffeffffffffffffffffffffffff7203df6b21c6052b53bbf40939d54123"),
}

func mustBig(s string) *big.Int { n, _ := new(big.Int).SetString(s, 16); return n }

func derInt(n *big.Int) []byte {
	b := n.Bytes()
	if len(b) == 0 {
		b = []byte{0}
	}
	if b[0]&0x80 != 0 {
		b = append([]byte{0}, b...)
	}
	return append([]byte{0x02, byte(len(b))}, b...)
}

// parseDER: strict minimal parse of 30 L 02 lr r 02 ls s (no trailing bytes); ok=false otherwise.
func parseDER(sig []byte) (r, s *big.Int, ok bool) {
	if len(sig) < 8 || sig[0] != 0x30 || int(sig[1]) != len(sig)-2 || sig[2] != 0x02 {
		return
	}
	lr := int(sig[3])
	if 4+lr+2 > len(sig) || sig[4+lr] != 0x02 {
		return
	}
	ls := int(sig[5+lr])
	if 6+lr+ls != len(sig) {
		return
	}
	return new(big.Int).SetBytes(sig[4 : 4+lr]), new(big.Int).SetBytes(sig[6+lr:]), true
}

// highS returns the signature with s replaced by n-s (nil if the format is not understood).
func highS(name string, sig []byte) []byte {
	n := orders[name]
	if n == nil {
		return nil
	}
	if name == "secp256k1eth" {
		if len(sig) != 65 {
			return nil
		}
		s := new(big.Int).SetBytes(sig[32:64])
		s.Sub(n, s)
		o := append([]byte(nil), sig...)
		sb := s.Bytes()
		for i := 32; i < 64; i++ {
			o[i] = 0
		}
		copy(o[64-len(sb):64], sb)
		o[64] ^= 1
		return o
	}
	r, s, ok := parseDER(sig)
	if !ok {
		return nil
	}
	s.Sub(n, s)
	body := append(derInt(r), derInt(s)...)
	return append([]byte{0x30, byte(len(body))}, body...)
}

// parser of the model for each driver (Model/C16.lean parseSig)
var parserOf = map[string]string{"secp256k1": "der72", "secp256r1": "der", "sm2": "der", "ed25519": "first64", "secp256k1eth": "exact65"}

// mirror of the model's parseSig (its agreement with the model is checked by the sigsame diff)
func parseMirror(p string, b []byte) ([]byte, bool) {
	switch p {
	case "der72":
		if len(b) < 8 || len(b) > 72 || b[0] != 0x30 || int(b[1]) > len(b)-2 || int(b[1]) < 6 {
			return nil, false
		}
		return b[:2+int(b[1])], true
	case "der":
		if len(b) < 2 || b[0] != 0x30 || int(b[1]) > len(b)-2 {
			return nil, false
		}
		return b[:2+int(b[1])], true
	case "first64":
		o := make([]byte, 64)
		copy(o, b)
		return o, true
	case "exact65":
		if len(b) != 65 {
			return nil, false
		}
		return b, true
	}
	return nil, false
}

// opSigSame: emitted only where the model predicts the verdict from the parse layer alone.
func opSigSame(s txw.Signer, msg, pub, honest, variant []byte) {
	p := parserOf[s.Name]
	if p == "" {
		return
	}
	hp, hok := parseMirror(p, honest)
	vp, vok := parseMirror(p, variant)
	if !hok {
		return
	}
	if vok && !bytes.Equal(hp, vp) {
		return // different bytes reach the verifier: no prediction (the verifier is abstract)
	}
	acc := false
	res := gen.Guard(func() string {
		acc = s.C.Validate(msg, pub, variant) == nil
		if acc {
			return "accepted"
		}
		return "rejected"
	})
	out.Op(fmt.Sprintf("sigsame %s %s %s", p, txw.Hex(honest), txw.Hex(variant)), res)
	out.Stat("sigsame_"+res, 1)
}

type sigVariant struct {
	kind string
	sig  []byte
}

func sigVariants(r *gen.Rand, name string, sig []byte) []sigVariant {
	cp := func() []byte { return append([]byte(nil), sig...) }
	var vs []sigVariant
	vs = append(vs, sigVariant{"sig-with-appended-byte", append(cp(), 0x00)})
	vs = append(vs, sigVariant{"sig-with-appended-byte", append(cp(), byte(1+r.Intn(255)))})
	vs = append(vs, sigVariant{"sig-with-appended-bytes", append(cp(), r.Bytes(1+r.Intn(40))...)})
	if len(sig) > 1 {
		vs = append(vs, sigVariant{"sig-truncated", sig[:len(sig)-1]})
		vs = append(vs, sigVariant{"sig-truncated", sig[:r.Intn(len(sig))]})
		vs = append(vs, sigVariant{"sig-without-first-byte", sig[1:]})
	}
	vs = append(vs, sigVariant{"sig-empty", nil})
	vs = append(vs, sigVariant{"sig-with-prepended-byte", append([]byte{byte(r.Intn(256))}, sig...)})
	for k := 0; k < 6 && len(sig) > 0; k++ {
		f := cp()
		i, b := r.Intn(len(f)), uint(r.Intn(8))
		if name == "secp256k1eth" && i == 64 && b == 2 {
			b = 0 // bit 2 of the recovery id is the dedicated variant below
		}
		f[i] ^= 1 << b
		vs = append(vs, sigVariant{"sig-bit-flipped", f})
	}
	if name == "secp256k1eth" && len(sig) == 65 {
		f := cp()
		f[64] ^= 4 // recovery id + 4: the "compressed key" flag of btcec's compact signatures
		vs = append(vs, sigVariant{"sig-eth-recid-plus-4", f})
	}
	if len(sig) > 0 {
		f := cp()
		f[len(f)-1] ^= 0x80
		vs = append(vs, sigVariant{"sig-bit-flipped", f})
		g := cp()
		g[0] ^= 1
		vs = append(vs, sigVariant{"sig-bit-flipped", g})
	}
	if hs := highS(name, sig); hs != nil && !bytes.Equal(hs, sig) {
		vs = append(vs, sigVariant{"sig-high-s", hs})
	}
	vs = append(vs, sigVariant{"sig-random", r.Bytes(len(sig))})
	return vs
}

func pubVariants(r *gen.Rand, pub []byte) []sigVariant {
	var vs []sigVariant
	for k := 0; k < 4 && len(pub) > 1; k++ {
		f := append([]byte(nil), pub...)
		f[1+r.Intn(len(f)-1)] ^= 1 << uint(r.Intn(8))
		vs = append(vs, sigVariant{"pubkey-altered", f})
	}
	if len(pub) > 0 {
		vs = append(vs, sigVariant{"pubkey-altered", pub[:len(pub)-1]},
			sigVariant{"pubkey-altered", append(append([]byte(nil), pub...), 0)}, sigVariant{"pubkey-altered", nil})
		f := append([]byte(nil), pub...)
		f[0] ^= 1 // compressed-point parity
		vs = append(vs, sigVariant{"pubkey-altered", f})
		// first byte: the encoding prefix for the compressed-point formats (02/03), key material for ed25519
		kind := "pubkey-prefix-byte-altered"
		if len(pub) == 32 {
			kind = "pubkey-altered"
		}
		for _, m := range []byte{0x04, 0x08, 0x10, 0x80, byte(2 + r.Intn(254))} {
			g := append([]byte(nil), pub...)
			g[0] ^= m
			vs = append(vs, sigVariant{kind, g})
		}
	}
	return vs
}

// recoveredKeys: ECDSA public-key recovery.  For an honest (r, s) over msg there are up to four
// public keys under which the SAME signature verifies the SAME message; every one different from
// the signer's key is an "altered public key" the property says must be rejected.
func recoveredKeys(name string, msg, pub, sig []byte) [][]byte {
	r, sv, ok := parseDER(sig)
	if !ok {
		return nil
	}
	h := sha256.Sum256(msg)
	var out [][]byte
	add := func(k []byte) {
		if k == nil || bytes.Equal(k, pub) {
			return
		}
		for _, o := range out {
			if bytes.Equal(o, k) {
				return
			}
		}
		out = append(out, k)
	}
	switch name {
	case "secp256k1":
		for rec := 0; rec < 4; rec++ {
			c := make([]byte, 65)
			c[0] = byte(27 + 4 + rec)
			rb, sb := r.Bytes(), sv.Bytes()
			if len(rb) > 32 || len(sb) > 32 {
				return nil
			}
			copy(c[33-len(rb):33], rb)
			copy(c[65-len(sb):65], sb)
			gen.Guard(func() string {
				if k, _, err := btcecdsa.RecoverCompact(c, h[:]); err == nil && k != nil {
					add(k.SerializeCompressed())
				}
				return ""
			})
		}
	case "secp256r1":
		cv := elliptic.P256()
		P, N, B := cv.Params().P, cv.Params().N, cv.Params().B
		if r.Sign() <= 0 || r.Cmp(P) >= 0 {
			return nil
		}
		// y^2 = x^3 - 3x + b
		y2 := new(big.Int).Exp(r, big.NewInt(3), P)
		y2.Sub(y2, new(big.Int).Mul(big.NewInt(3), r))
		y2.Add(y2, B).Mod(y2, P)
		y := new(big.Int).ModSqrt(y2, P)
		if y == nil {
			return nil
		}
		e := new(big.Int).SetBytes(h[:])
		rinv := new(big.Int).ModInverse(r, N)
		for _, ry := range []*big.Int{y, new(big.Int).Sub(P, y)} {
			sx, sy := cv.ScalarMult(r, ry, sv.Bytes())
			ex, ey := cv.ScalarBaseMult(e.Bytes())
			ey = new(big.Int).Sub(P, ey)
			ax, ay := cv.Add(sx, sy, ex, ey)
			qx, qy := cv.ScalarMult(ax, ay, rinv.Bytes())
			k := make([]byte, 33)
			k[0] = byte(2 + qy.Bit(0))
			xb := qx.Bytes()
			copy(k[33-len(xb):], xb)
			add(k)
		}
	}
	return out
}

// heightsAround: interesting heights for a driver enabled from eh (or disabled).
func heightsAround(eh int64, enabled bool) []int64 {
	if !enabled || eh < 0 {
		return []int64{0, 1, 1000000}
	}
	hs := []int64{eh, eh + 1, eh + 1000000}
	if eh > 0 {
		hs = append(hs, eh-1, 0)
	}
	return hs
}

func signWith(s txw.Signer, key crypto.PrivKey, tx *types.Transaction, addrID int32) {
	tx.Sign(types.EncodeSignID(s.TypeID, addrID), key)
}

func phaseSign(r *gen.Rand, signers []txw.Signer, reg map[string]txw.DrvInfo, perSigner int, deep bool) {
	for _, s := range signers {
		d := reg[s.Name]
		for i := 0; i < perSigner; i++ {
			key := s.Key(r)
			var tx *types.Transaction
			if r.Chance(1, 3) {
				tx = txw.RandTx(r) // arbitrary fields incl. group header/next
			} else {
				tx = txw.PlainTx(r, txw.Execers[r.Intn(len(txw.Execers))], int32(r.Intn(3)))
				if r.Chance(1, 3) {
					tx.GroupCount = int32(r.Range(2, 20))
					tx.Header = r.Bytes(32)
					tx.Next = r.Bytes(32)
				}
			}
			tx.Signature = nil
			opCheckSign(int64(r.Intn(100)), tx, "unsigned")
			addrID := int32(r.Intn(8))
			if r.Chance(1, 3) {
				// re-signing: Sign must not sign over a stale signature field
				tx.Signature = &types.Signature{Ty: txw.EdgeInt32(r), Pubkey: txw.RandBytes(r, 40), Signature: txw.RandBytes(r, 80)}
				out.Stat("signed_over_stale_signature", 1)
			}
			signWith(s, key, tx, addrID)
			out.Stat(fmt.Sprintf("signed_%s_addrid%d", s.Name, addrID), 1)
			opTx(tx)
			hs := heightsAround(d.Height, d.Enable)
			for _, h := range hs {
				opCheckSign(h, tx, "honest")
			}
			if r.Chance(1, 4) {
				opCheckSign(-1, tx, "honest")
			}
			// a height at which the type is enabled (mutants are only meaningful there)
			hOK := int64(-2)
			if d.Enable && d.Height >= 0 {
				hOK = d.Height + int64(r.Intn(3))
			}
			if hOK < 0 {
				continue
			}
			// the same key under every address id / the crypto id bits only
			if deep || i == 0 {
				for a := int32(0); a < 8; a++ {
					t2 := txw.Copy(tx)
					t2.Signature.Ty = types.EncodeSignID(s.TypeID, a)
					opCheckSign(hOK, t2, "honest")
				}
			}
			// signed-field mutations
			for _, m := range fieldMuts {
				if !m.signed {
					continue
				}
				t2 := txw.Copy(tx)
				if !m.apply(r, t2) {
					continue
				}
				if bytes.Equal(types.Encode(t2), types.Encode(tx)) {
					continue
				}
				opCheckSign(hOK, t2, "mut:field-"+m.name)
			}
			// public key alterations
			for _, pv := range pubVariants(r, tx.Signature.Pubkey) {
				t2 := txw.Copy(tx)
				t2.Signature.Pubkey = pv.sig
				opCheckSign(hOK, t2, "mut:"+pv.kind)
			}
			// the other public keys ECDSA recovery yields for this very signature and message
			for _, k := range recoveredKeys(s.Name, txw.SignBytesObserved(tx), tx.Signature.Pubkey, tx.Signature.Signature) {
				t2 := txw.Copy(tx)
				t2.Signature.Pubkey = k
				opCheckSign(hOK, t2, "mut:pubkey-recovered-alternative")
			}
			// another key's public key
			{
				t2 := txw.Copy(tx)
				t2.Signature.Pubkey = s.Key(r).PubKey().Bytes()
				opCheckSign(hOK, t2, "mut:pubkey-of-other-key")
			}
			// signature byte alterations
			msg := txw.SignBytesObserved(tx)
			for _, v := range sigVariants(r, s.Name, tx.Signature.Signature) {
				if bytes.Equal(v.sig, tx.Signature.Signature) {
					continue
				}
				t2 := txw.Copy(tx)
				t2.Signature.Signature = v.sig
				opCheckSign(hOK, t2, "mut:"+v.kind)
				opSigSame(s, msg, tx.Signature.Pubkey, tx.Signature.Signature, v.sig)
			}
			// signature type switched to another registered driver
			for _, o := range signers {
				if o.Name == s.Name {
					continue
				}
				t2 := txw.Copy(tx)
				t2.Signature.Ty = types.EncodeSignID(o.TypeID, addrID)
				od := reg[o.Name]
				if od.Enable && od.Height >= 0 && od.Height <= hOK {
					opCheckSign(hOK, t2, "mut:type-switched")
				}
			}
			// signature of another transaction
			{
				t3 := txw.PlainTx(r, "coins", 0)
				signWith(s, key, t3, addrID)
				t2 := txw.Copy(tx)
				t2.Signature.Signature = t3.Signature.Signature
				opCheckSign(hOK, t2, "mut:sig-of-other-tx")
			}
		}
	}
}

// configurations: crypto.Init settings applied one after the other (the registry is global state;
// the model follows the same sequence).
func phaseConfigs(r *gen.Rand, signers []txw.Signer, ds []txw.DrvInfo, perSigner int) {
	names := []string{}
	for _, d := range ds {
		if d.Name != txw.SpyName {
			names = append(names, d.Name)
		}
	}
	type conf struct {
		types   []string
		heights map[string]int64
	}
	var confs []conf
	// 1: staggered enable heights for everything enabled by default
	h1 := map[string]int64{}
	for i, n := range names {
		h1[n] = int64(100 * (i + 1))
	}
	confs = append(confs, conf{nil, h1})
	// 2: only two types enabled, one of them from a height, one negative height (never)
	if len(signers) >= 3 {
		confs = append(confs, conf{[]string{signers[0].Name, signers[1].Name, signers[2].Name, txw.SpyName},
			map[string]int64{signers[0].Name: 0, signers[1].Name: 5000, signers[2].Name: -1, "none": 7}})
	}
	// 3: random
	for k := 0; k < gen.Scale(2, 8); k++ {
		var ts []string
		if r.Bool() {
			for _, n := range names {
				if r.Chance(2, 3) {
					ts = append(ts, n)
				}
			}
			ts = append(ts, txw.SpyName)
			if r.Chance(1, 4) {
				ts = append(ts, "nosuchdriver")
			}
		}
		hm := map[string]int64{}
		for _, n := range names {
			if r.Chance(1, 2) {
				switch r.Intn(5) {
				case 0:
					hm[n] = 0
				case 1:
					hm[n] = -1
				case 2:
					hm[n] = 1
				default:
					hm[n] = int64(r.Intn(2000000))
				}
			}
		}
		if r.Chance(1, 4) {
			hm["nosuchdriver"] = 5
		}
		confs = append(confs, conf{ts, hm})
	}
	// last: everything (except none) back on at 0 so that later phases see the default
	all := append([]string{}, names...)
	h0 := map[string]int64{}
	var allOn []string
	for _, n := range all {
		if n != "none" {
			allOn = append(allOn, n)
			h0[n] = 0
		}
	}
	allOn = append(allOn, txw.SpyName)
	confs = append(confs, conf{allOn, h0})

	for _, c := range confs {
		opInit(c.types, c.heights)
		now := txw.ObserveRegistry()
		rm := txw.RegMap(now)
		for _, d := range now {
			for _, h := range append(heightsAround(d.Height, d.Enable), -1, -5) {
				opLoad(d.Name, h)
			}
		}
		opLoad("nosuchdriver", 0)
		opLoad("unknown", 10)
		if sp := rm[txw.SpyName]; !sp.Enable || sp.Height != 0 {
			out.Note("spy driver disabled by configuration; skipped sign phase")
			continue
		}
		phaseSign(r, signers, rm, perSigner, false)
		// "none": accepts anything when enabled, nothing when disabled — gate only
		{
			tx := txw.PlainTx(r, "none", 0)
			tx.Signature = &types.Signature{Ty: 10, Pubkey: r.Bytes(33), Signature: r.Bytes(64)}
			for _, h := range heightsAround(rm["none"].Height, rm["none"].Enable) {
				opCheckSign(h, tx, "gate")
			}
		}
		// unknown type ids
		for k := 0; k < 3; k++ {
			tx := txw.PlainTx(r, "coins", 0)
			tx.Signature = &types.Signature{Ty: int32(r.U64()), Pubkey: r.Bytes(33), Signature: r.Bytes(64)}
			opCheckSign(int64(r.Intn(1000)), tx, "gate")
		}
	}
}

// ---------------------------------------------------------------------------------------------

func replay(lines []string) {
	for _, l := range lines {
		w := strings.Fields(l)
		if len(w) == 0 {
			continue
		}
		switch {
		case w[0] == "sha256" && len(w) == 2:
			b, _ := txw.UnHex(w[1])
			opSha(b)
		case w[0] == "tx" && len(w) == 2:
			if tx, err := txw.FromTok(w[1]); err == nil {
				opTx(tx)
				continue
			}
			out.Op(l, "bad-op")
		case w[0] == "clone" && len(w) == 2:
			if tx, err := txw.FromTok(w[1]); err == nil {
				opClone(tx)
				continue
			}
			out.Op(l, "bad-op")
		case w[0] == "reg" && len(w) == 5:
			// the registry of this process must be what the file says
			res := "mismatch"
			for _, d := range txw.ObserveRegistry() {
				if d.Name == w[1] && fmt.Sprint(d.ID) == w[2] && txw.B01(d.Enable) == w[3] && fmt.Sprint(d.Height) == w[4] {
					res = "ok"
				}
			}
			out.Op(l, res)
		case w[0] == "init" && len(w) == 3:
			var ts []string
			if w[1] != "-" {
				ts = strings.Split(w[1], ",")
			}
			hm := map[string]int64{}
			if w[2] != "-" {
				for _, kv := range strings.Split(w[2], ",") {
					p := strings.SplitN(kv, "=", 2)
					if len(p) == 2 {
						v, _ := strconv.ParseInt(p[1], 10, 64)
						hm[p[0]] = v
					}
				}
			}
			opInit(ts, hm)
		case w[0] == "load" && len(w) == 3:
			h, _ := strconv.ParseInt(w[2], 10, 64)
			opLoad(w[1], h)
		case w[0] == "checksign" && len(w) == 5:
			h, _ := strconv.ParseInt(w[1], 10, 64)
			if tx, err := txw.FromTok(w[3]); err == nil {
				opCheckSign(h, tx, w[4])
				continue
			}
			out.Op(l, "bad-op")
		default:
			out.Op(l, "bad-op")
		}
	}
}

func main() {
	out = txw.NewIsolatedOut()
	defer out.Flush()
	txw.RegisterSpy()
	if lines := gen.ReplayLines(); lines != nil {
		replay(lines)
		return
	}
	r := gen.New(gen.Seed())

	// executable SHA-256 of the model vs Go
	opSha(nil)
	opSha([]byte("abc"))
	opSha([]byte("abcdbcdecdefdefgefghfghighijhijkijkljklmklmnlmnomnopnopq"))
	for _, n := range []int{55, 56, 57, 63, 64, 65, 119, 120, 128} {
		opSha(r.Bytes(n))
	}
	for i := 0; i < gen.Scale(200, 1000); i++ {
		opSha(r.Bytes(r.Intn(300)))
	}

	phaseFacts()
	phaseMutate(r, gen.Scale(250, 4000))

	ds := txw.EmitRegistry(out)
	// expected state = the documented registration defaults: every driver enabled from height 0,
	// except those registered with WithRegOptionDefaultDisable ("none")
	txw.Expected = map[string]txw.DrvInfo{}
	for _, d := range ds {
		txw.Expected[d.Name] = txw.DrvInfo{Name: d.Name, ID: d.ID, Enable: d.Name != "none", Height: 0}
	}
	signers := txw.Signers()
	var sn []string
	for _, s := range signers {
		sn = append(sn, fmt.Sprintf("%s(%d)", s.Name, s.TypeID))
	}
	out.Sample("registered crypto drivers: " + fmt.Sprint(ds) + "; signers with key API: " + strings.Join(sn, " "))
	for _, d := range ds {
		for _, h := range []int64{-1, 0, 1} {
			opLoad(d.Name, h)
		}
	}
	phaseSign(r, signers, txw.RegMap(ds), gen.Scale(5, 60), true)
	phaseConfigs(r, signers, ds, gen.Scale(2, 10))
	phaseSign(r, signers, txw.RegMap(txw.ObserveRegistry()), gen.Scale(2, 20), false)
}
