package txw

import (
	"fmt"
	"os"
	"sort"
	"syscall"

	"github.com/33cn/chain33/common/crypto"
	"github.com/33cn/chain33/types"

	"verifharness/internal/gen"
)

// NewIsolatedOut returns the protocol writer bound to the process's original stdout and points
// fd 1 at stderr for everybody else (chain33's logger and a few fmt.Printf calls in the crypto
// drivers write to stdout): the protocol stream must not be interleaved with log lines.
func NewIsolatedOut() *gen.Out {
	fd, err := syscall.Dup(1)
	if err != nil {
		return gen.NewOut()
	}
	if err := syscall.Dup2(2, 1); err != nil {
		return gen.NewOut()
	}
	// gen.NewOut binds to os.Stdout at construction; everybody else keeps the original *os.File,
	// whose fd 1 now is stderr.
	orig := os.Stdout
	os.Stdout = os.NewFile(uintptr(fd), "protocol")
	o := gen.NewOut()
	os.Stdout = orig
	return o
}

// ---------------------------------------------------------------------------------------------
// spy driver: observes the exact message bytes checkSign hands to the crypto driver.

type spyDriver struct{}

var spyMsg []byte
var spyCalls int

// SpyName / SpyID identify the harness's observing crypto driver.
const (
	SpyName = "verifspy"
	SpyID   = 3999
)

func (spyDriver) GenKey() (crypto.PrivKey, error)                     { return nil, nil }
func (spyDriver) SignatureFromBytes([]byte) (crypto.Signature, error) { return nil, nil }
func (spyDriver) PrivKeyFromBytes([]byte) (crypto.PrivKey, error)     { return nil, nil }
func (spyDriver) PubKeyFromBytes([]byte) (crypto.PubKey, error)       { return nil, nil }
func (spyDriver) Validate(msg, pub, sig []byte) error {
	spyMsg = append([]byte(nil), msg...)
	spyCalls++
	return nil
}

// RegisterSpy registers the observing driver (once per process).
func RegisterSpy() { crypto.Register(SpyName, spyDriver{}, crypto.WithRegOptionTypeID(SpyID)) }

// SignBytesObserved returns the message the implementation hands to the driver for tx (via the spy).
func SignBytesObserved(tx *types.Transaction) []byte {
	c := Copy(tx)
	c.Signature = &types.Signature{Ty: SpyID, Pubkey: []byte{1}, Signature: []byte{2}}
	spyCalls = 0
	spyMsg = nil
	if !c.CheckSign(-1) || spyCalls != 1 {
		return []byte("spy-not-called")
	}
	return spyMsg
}

// ModelCryptoIDMask is the crypto-id mask of the specification/model (Model/C16.lean
// extractCryptoID), deliberately NOT read from the code under test.
const ModelCryptoIDMask = 0x3fff8fff

// DriverNameOf is the crypto driver the specification resolves for tx (signature must be non-nil):
// type id = ty & mask, looked up in the registry.  Independent of types.GetSignName /
// types.ExtractCryptoID (the code under test); executors of the system set do not override it.
func DriverNameOf(tx *types.Transaction) string {
	return crypto.GetName(int(tx.Signature.Ty & ModelCryptoIDMask))
}

// Expected is the harness's own record of what each driver's enable state should be, derived from
// the configurations it applied (documented crypto.Init semantics), not from crypto.Load.
var Expected map[string]DrvInfo

// ApplyInit updates Expected the way crypto.Init is documented to behave.
func ApplyInit(enableTypes []string, heights map[string]int64) {
	if Expected == nil {
		return
	}
	if len(enableTypes) > 0 {
		on := map[string]bool{}
		for _, n := range enableTypes {
			on[n] = true
		}
		for n, d := range Expected {
			d.Enable = on[n]
			Expected[n] = d
		}
	}
	for n, h := range heights {
		if d, ok := Expected[n]; ok && d.Enable {
			d.Height = h
			Expected[n] = d
		}
	}
}

// ExpectEnabled: should driver name be usable at height h (h >= 0)?
func ExpectEnabled(name string, h int64) bool {
	if Expected != nil {
		d, ok := Expected[name]
		return ok && d.Enable && d.Height >= 0 && h >= d.Height
	}
	return LoadRes(name, h) == "ok"
}

// Oracle is the driver's own verdict on (message as observed through the spy, pub, sig): 1 | 0 | p(anic).
func Oracle(tx *types.Transaction) string {
	if tx.Signature == nil {
		return "0"
	}
	// memoised on the full encoding (drivers are loaded with height -1: the verdict does not
	// depend on the registry configuration)
	key := string(types.Encode(tx))
	if v, ok := oracleMemo[key]; ok {
		return v
	}
	v := oracleUncached(tx)
	if len(oracleMemo) > 200000 {
		oracleMemo = map[string]string{}
	}
	oracleMemo[key] = v
	return v
}

var oracleMemo = map[string]string{}

func oracleUncached(tx *types.Transaction) string {
	c, err := crypto.Load(DriverNameOf(tx), -1)
	if err != nil || c == nil {
		return "0"
	}
	msg := SignBytesObserved(tx)
	res := gen.Guard(func() string { return B01(c.Validate(msg, tx.Signature.Pubkey, tx.Signature.Signature) == nil) })
	if res == "panic" {
		return "p"
	}
	return res
}

// B01 renders a bool.
func B01(b bool) string {
	if b {
		return "1"
	}
	return "0"
}

// DrvInfo is the observable state of one registered crypto driver.
type DrvInfo struct {
	Name   string
	ID     int32
	Enable bool
	Height int64
}

// ObserveRegistry reads the registry through exported API only: names and type ids from
// GetCryptoList, enabled/enableHeight from the verdicts of crypto.Load (binary search).
func ObserveRegistry() []DrvInfo {
	names, ids := crypto.GetCryptoList()
	var ds []DrvInfo
	for i, n := range names {
		d := DrvInfo{Name: n, ID: ids[i]}
		const top = int64(1) << 62
		if _, err := crypto.Load(n, top); err == nil {
			d.Enable = true
			lo, hi := int64(0), top // smallest h with Load ok
			for lo < hi {
				mid := lo + (hi-lo)/2
				if _, err := crypto.Load(n, mid); err == nil {
					hi = mid
				} else {
					lo = mid + 1
				}
			}
			d.Height = lo
		}
		ds = append(ds, d)
	}
	sort.Slice(ds, func(i, j int) bool { return ds[i].ID < ds[j].ID })
	return ds
}

// EmitRegistry tells the model the registry of this process.
func EmitRegistry(out *gen.Out) []DrvInfo {
	ds := ObserveRegistry()
	for _, d := range ds {
		out.Op(fmt.Sprintf("reg %s %d %s %d", d.Name, d.ID, B01(d.Enable), d.Height), "ok")
	}
	return ds
}

// RegMap indexes by name.
func RegMap(ds []DrvInfo) map[string]DrvInfo {
	m := map[string]DrvInfo{}
	for _, d := range ds {
		m[d.Name] = d
	}
	return m
}

// LoadRes is crypto.Load's verdict as the model's enum.
func LoadRes(name string, h int64) string {
	_, err := crypto.Load(name, h)
	switch err {
	case nil:
		return "ok"
	case crypto.ErrUnknownDriver:
		// ErrDriverNotEnable carries the same text; they are distinct error values
		return "unknown"
	case crypto.ErrDriverNotEnable:
		return "notenable"
	}
	return "err:" + err.Error()
}
