// Package txw: transaction wire tokens and generators shared by the transaction harnesses
// (h_c16, h_c17; reusable by C18/C22/C28).  Token format (one token, no spaces):
//
//	execer,payload,sig,fee,expire,nonce,to,groupCount,header,next,chainID
//
// bytes are lower-case hex ("-" = empty/nil), `to` is the hex of the string, sig is "-" (nil) or
// ty:pubkey:signature.  The Lean side parses the same token (Model/C16.lean, Codec.parseTx).
package txw

import (
	"encoding/hex"
	"fmt"
	"reflect"
	"sort"
	"strconv"
	"strings"

	"github.com/33cn/chain33/common/crypto"
	"github.com/33cn/chain33/types"

	"verifharness/internal/gen"
)

// Hex is hex or "-".
func Hex(b []byte) string {
	if len(b) == 0 {
		return "-"
	}
	return hex.EncodeToString(b)
}

// UnHex parses Hex.
func UnHex(s string) ([]byte, error) {
	if s == "-" {
		return nil, nil
	}
	return hex.DecodeString(s)
}

// SigTok renders a *Signature.
func SigTok(s *types.Signature) string {
	if s == nil {
		return "-"
	}
	return fmt.Sprintf("%d:%s:%s", s.Ty, Hex(s.Pubkey), Hex(s.Signature))
}

// Tok renders a transaction.
func Tok(tx *types.Transaction) string {
	return strings.Join([]string{
		Hex(tx.Execer), Hex(tx.Payload), SigTok(tx.Signature),
		strconv.FormatInt(tx.Fee, 10), strconv.FormatInt(tx.Expire, 10), strconv.FormatInt(tx.Nonce, 10),
		Hex([]byte(tx.To)), strconv.FormatInt(int64(tx.GroupCount), 10),
		Hex(tx.Header), Hex(tx.Next), strconv.FormatInt(int64(tx.ChainID), 10)}, ",")
}

// Toks renders several transactions separated by spaces.
func Toks(txs []*types.Transaction) string {
	s := make([]string, len(txs))
	for i, t := range txs {
		s[i] = Tok(t)
	}
	return strings.Join(s, " ")
}

// FromTok parses a token (nil byte slices for "-").
func FromTok(s string) (*types.Transaction, error) {
	f := strings.Split(s, ",")
	if len(f) != 11 {
		return nil, fmt.Errorf("tx token: %d fields", len(f))
	}
	tx := &types.Transaction{}
	var err error
	bs := func(x string) []byte {
		b, e := UnHex(x)
		if e != nil {
			err = e
		}
		return b
	}
	in := func(x string) int64 {
		v, e := strconv.ParseInt(x, 10, 64)
		if e != nil {
			err = e
		}
		return v
	}
	tx.Execer, tx.Payload = bs(f[0]), bs(f[1])
	if f[2] != "-" {
		p := strings.Split(f[2], ":")
		if len(p) != 3 {
			return nil, fmt.Errorf("sig token")
		}
		tx.Signature = &types.Signature{Ty: int32(in(p[0])), Pubkey: bs(p[1]), Signature: bs(p[2])}
	}
	tx.Fee, tx.Expire, tx.Nonce = in(f[3]), in(f[4]), in(f[5])
	tx.To = string(bs(f[6]))
	tx.GroupCount = int32(in(f[7]))
	tx.Header, tx.Next = bs(f[8]), bs(f[9])
	tx.ChainID = int32(in(f[10]))
	return tx, err
}

// Copy is an independent deep copy made WITHOUT the code under test (no Clone/CloneTx).
func Copy(tx *types.Transaction) *types.Transaction {
	c := &types.Transaction{
		Execer: cp(tx.Execer), Payload: cp(tx.Payload), Fee: tx.Fee, Expire: tx.Expire, Nonce: tx.Nonce,
		To: tx.To, GroupCount: tx.GroupCount, Header: cp(tx.Header), Next: cp(tx.Next), ChainID: tx.ChainID}
	if tx.Signature != nil {
		c.Signature = &types.Signature{Ty: tx.Signature.Ty, Pubkey: cp(tx.Signature.Pubkey), Signature: cp(tx.Signature.Signature)}
	}
	return c
}

// CopyAll copies a slice of transactions.
func CopyAll(txs []*types.Transaction) []*types.Transaction {
	o := make([]*types.Transaction, len(txs))
	for i, t := range txs {
		o[i] = Copy(t)
	}
	return o
}

func cp(b []byte) []byte {
	if len(b) == 0 {
		return nil
	}
	return append([]byte(nil), b...)
}

// ProtoField describes one protobuf field of a generated struct.
type ProtoField struct {
	GoName string
	Num    int
	Wire   string // bytes | varint | ...
	Kind   string // Go kind: slice, int64, int32, string, ptr
}

// ProtoFields lists the protobuf fields of a generated message struct by reflection on the
// `protobuf:"…"` struct tags, in field-number order.
func ProtoFields(msg interface{}) []ProtoField {
	t := reflect.TypeOf(msg)
	for t.Kind() == reflect.Ptr {
		t = t.Elem()
	}
	var out []ProtoField
	for i := 0; i < t.NumField(); i++ {
		f := t.Field(i)
		tag := f.Tag.Get("protobuf")
		if tag == "" {
			continue
		}
		p := strings.Split(tag, ",")
		n, _ := strconv.Atoi(p[1])
		out = append(out, ProtoField{GoName: f.Name, Num: n, Wire: p[0], Kind: f.Type.Kind().String()})
	}
	sort.Slice(out, func(i, j int) bool { return out[i].Num < out[j].Num })
	return out
}

// FieldsString is the canonical rendering compared with the Lean model's field list.
func FieldsString(fs []ProtoField) string {
	s := make([]string, len(fs))
	for i, f := range fs {
		s[i] = fmt.Sprintf("%s:%d:%s:%s", f.GoName, f.Num, f.Wire, f.Kind)
	}
	return strings.Join(s, ",")
}

// Execers used by the generators (main chain, para chains of two titles, user.*, odd ones).
var Execers = []string{"coins", "none", "manage", "token", "user.write", "user.p.para.coins", "user.p.para.token",
	"user.p.guodun.coins", "user.p.x.", "user.p.", "user.p.noend", "", "ticket", "user.p.para.user.write"}

// RandBytes returns 0..max random bytes, nil when empty.
func RandBytes(r *gen.Rand, max int) []byte {
	n := r.Intn(max + 1)
	if n == 0 {
		return nil
	}
	return r.Bytes(n)
}

// EdgeInt64 draws an int64 with weight on protobuf varint edges.
func EdgeInt64(r *gen.Rand) int64 {
	switch r.Intn(12) {
	case 0:
		return 0
	case 1:
		return 1
	case 2:
		return -1
	case 3:
		return 127
	case 4:
		return 128
	case 5:
		return 1<<63 - 1
	case 6:
		return -1 << 63
	case 7:
		return int64(r.U64())
	case 8:
		return 1 << uint(r.Intn(63))
	case 9:
		return (1 << uint(r.Intn(63))) - 1
	default:
		return int64(r.U64() >> uint(r.Intn(64)))
	}
}

// EdgeInt32 draws an int32 with weight on edges.
func EdgeInt32(r *gen.Rand) int32 {
	switch r.Intn(8) {
	case 0:
		return 0
	case 1:
		return -1
	case 2:
		return 1<<31 - 1
	case 3:
		return -1 << 31
	case 4:
		return int32(r.U64())
	default:
		return int32(r.Intn(300))
	}
}

var toAlphabet = []byte("123456789ABCDEFGHJKLMNPQRSTUVWXYZabcdefghijkmnopqrstuvwxyz")

// RandTo returns a valid-UTF-8 `to` string (protobuf refuses invalid UTF-8 in string fields).
func RandTo(r *gen.Rand) string {
	switch r.Intn(6) {
	case 0:
		return ""
	case 1:
		return "0x" + hex.EncodeToString(r.Bytes(20))
	case 2:
		return "地址" + string(r.BytesFrom(toAlphabet, r.Intn(5)))
	default:
		return "1" + string(r.BytesFrom(toAlphabet, 33))
	}
}

// RandTx draws an arbitrary (not necessarily valid) transaction: every field random, edges weighted.
func RandTx(r *gen.Rand) *types.Transaction {
	tx := &types.Transaction{}
	if r.Chance(4, 5) {
		tx.Execer = []byte(Execers[r.Intn(len(Execers))])
		if len(tx.Execer) == 0 {
			tx.Execer = nil
		}
	} else {
		tx.Execer = RandBytes(r, 40)
	}
	switch k := r.Intn(40); {
	case k < 4:
		tx.Payload = nil
	case k < 8:
		tx.Payload = r.Bytes(r.Range(120, 300)) // 2-byte length varint
	case k == 8:
		tx.Payload = r.Bytes(r.Range(16380, 16390)) // 3-byte length varint edge
	default:
		tx.Payload = RandBytes(r, 64)
	}
	switch r.Intn(8) {
	case 0:
		tx.Signature = nil
	case 1:
		tx.Signature = &types.Signature{}
	default:
		tx.Signature = &types.Signature{Ty: EdgeInt32(r), Pubkey: RandBytes(r, 70), Signature: RandBytes(r, 140)}
	}
	tx.Fee, tx.Expire, tx.Nonce = EdgeInt64(r), EdgeInt64(r), EdgeInt64(r)
	tx.To = RandTo(r)
	if r.Chance(1, 2) {
		tx.GroupCount = EdgeInt32(r)
	}
	if r.Chance(1, 2) {
		tx.Header = RandBytes(r, 40)
	}
	if r.Chance(1, 2) {
		tx.Next = RandBytes(r, 40)
	}
	if r.Chance(1, 2) {
		tx.ChainID = EdgeInt32(r)
	}
	return tx
}

// PlainTx draws a realistic unsigned single transaction (no group fields).
func PlainTx(r *gen.Rand, execer string, chainID int32) *types.Transaction {
	tx := &types.Transaction{Execer: []byte(execer), Payload: RandBytes(r, 80), Nonce: int64(r.U64() >> 1),
		To: "1" + string(r.BytesFrom(toAlphabet, 33)), ChainID: chainID}
	if len(tx.Execer) == 0 {
		tx.Execer = nil
	}
	switch r.Intn(4) {
	case 0:
		tx.Fee = 0
	case 1:
		tx.Fee = 100000
	default:
		tx.Fee = int64(r.Intn(3000000))
	}
	switch r.Intn(4) {
	case 0:
		tx.Expire = 0
	case 1:
		tx.Expire = int64(r.Intn(1000000)) // height
	case 2:
		tx.Expire = 1600000000 + int64(r.Intn(100000000)) // time
	default:
		tx.Expire = types.TxHeightFlag + int64(r.Intn(100000))
	}
	return tx
}

// Signer is a crypto driver with a plain key API.
type Signer struct {
	Name   string
	TypeID int32
	C      crypto.Crypto
}

// Signers returns the registered drivers that can generate keys and sign (sorted by type id),
// loaded without the enable check.
func Signers() []Signer {
	names, ids := crypto.GetCryptoList()
	var out []Signer
	for i, n := range names {
		c, err := crypto.Load(n, -1)
		if err != nil || c == nil {
			continue
		}
		ok := func() (ok bool) {
			defer func() {
				if recover() != nil {
					ok = false
				}
			}()
			k, err := c.GenKey()
			if err != nil || k == nil {
				return false
			}
			sig := k.Sign([]byte("probe"))
			return sig != nil && c.Validate([]byte("probe"), k.PubKey().Bytes(), sig.Bytes()) == nil
		}()
		if ok {
			out = append(out, Signer{Name: n, TypeID: ids[i], C: c})
		}
	}
	sort.Slice(out, func(i, j int) bool { return out[i].TypeID < out[j].TypeID })
	return out
}

// Key derives a deterministic private key for signer s from the PRNG (no crypto/rand: replayable).
func (s Signer) Key(r *gen.Rand) crypto.PrivKey {
	for {
		b := r.Bytes(32)
		b[0] &= 0x7f // below every curve order
		if b[0] == 0 && b[1] == 0 {
			continue
		}
		k, err := s.C.PrivKeyFromBytes(b)
		if err == nil && k != nil {
			return k
		}
	}
}
