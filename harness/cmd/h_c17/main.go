// h_c17 — C17 "transaction groups are tamper-evident".
//
// Drives types.CreateTxGroup / Transactions.Check / CheckWithFork / CheckSign / RebuiltGroup / Tx() /
// Transaction.GetTxGroup / Transaction.Check in-process; every op line is answered by the
// implementation here and by the Lean model (Model/C16.lean group section) in drv_c17:
//
//	create <feeRate> <tx>…                         CreateTxGroup
//	gcheck <strict> <chainID> <checkFork> <paraFork> <minfee> <maxfee> <label> <tx>…
//	                                               Transactions.CheckWithFork / Check
//	gchecksign <h> <oracles> <label> <tx>…         Transactions.CheckSign(h)
//	rebuilt <tx>…                                  RebuiltGroup
//	grouptx <tx>…                                  Transactions.Tx()
//	gettxgroup <tx>                                Transaction.GetTxGroup (gate before decoding)
//	check1 <strict> <chainID> <checkFork> <minfee> <maxfee> <tx>   Transaction.Check of a single tx
//
// Property predicate (#PRED): a created+signed group passes Check and CheckSign; every structural
// or field mutation fails one of them; fee rules.
package main

import (
	"bytes"
	"fmt"
	"strings"

	"github.com/33cn/chain33/common/crypto"
	_ "github.com/33cn/chain33/system"
	"github.com/33cn/chain33/types"
	"github.com/golang/protobuf/proto"

	"verifharness/cmd/h_c16/txw"
	"verifharness/internal/gen"
)

var out *gen.Out
var cfg *types.Chain33Config

const big = int64(1) << 50 // a height at which every fork of the local config is active

func errName(err error) string {
	switch err {
	case nil:
		return "ok"
	case types.ErrTxGroupCountLessThanTwo:
		return "ErrTxGroupCountLessThanTwo"
	case types.ErrTxMsgSizeTooBig:
		return "ErrTxMsgSizeTooBig"
	case types.ErrTxChainID:
		return "ErrTxChainID"
	case types.ErrTxFeeTooLow:
		return "ErrTxFeeTooLow"
	case types.ErrTxFeeTooHigh:
		return "ErrTxFeeTooHigh"
	case types.ErrTxGroupParaCount:
		return "ErrTxGroupParaCount"
	case types.ErrTxGroupParaMainMixed:
		return "ErrTxGroupParaMainMixed"
	case types.ErrTxGroupFeeNotZero:
		return "ErrTxGroupFeeNotZero"
	case types.ErrTxGroupHeader:
		return "ErrTxGroupHeader"
	case types.ErrTxGroupCountBigThanMaxSize:
		return "ErrTxGroupCountBigThanMaxSize"
	case types.ErrTxGroupCount:
		return "ErrTxGroupCount"
	case types.ErrTxGroupNext:
		return "ErrTxGroupNext"
	case types.ErrNomalTx:
		return "ErrNomalTx"
	case types.ErrTxGroupEmpty:
		return "ErrTxGroupEmpty"
	}
	return "err:" + err.Error()
}

// env is the configuration one check runs under.
type env struct {
	strict    bool // ForkTxChainIDStrict active at the height
	checkFork bool
	paraFork  bool
	minfee    int64
	maxFee    int64
	height    int64
}

// apply programs the real config so that cfg.IsFork(height, …) yields the env's booleans.
func (e env) apply() {
	set := func(name string, on bool) {
		if on {
			cfg.SetFork(name, 0)
		} else {
			cfg.SetFork(name, types.MaxHeight)
		}
	}
	set(types.ForkTxChainIDStrict, e.strict)
	set("ForkBlockCheck", e.checkFork)
	set("ForkTxGroupPara", e.paraFork)
}

func (e env) String() string {
	return fmt.Sprintf("%s %d %s %s %d %d", txw.B01(e.strict), cfg.GetChainID(), txw.B01(e.checkFork), txw.B01(e.paraFork), e.minfee, e.maxFee)
}

// opCheck observes Transactions.Check under e (fork booleans come from the real config).
func opCheck(e env, txs []*types.Transaction, label string) string {
	e.apply()
	g := &types.Transactions{Txs: txw.CopyAll(txs)}
	res := gen.Guard(func() string { return errName(g.Check(cfg, e.height, e.minfee, e.maxFee)) })
	// CheckWithFork with explicit booleans must agree with Check
	g2 := &types.Transactions{Txs: txw.CopyAll(txs)}
	res2 := gen.Guard(func() string {
		return errName(g2.CheckWithFork(cfg, e.checkFork, e.paraFork, e.height, e.minfee, e.maxFee))
	})
	if res2 != res {
		res = res + "/withfork:" + res2
	}
	out.Op(fmt.Sprintf("gcheck %s %s %s", e, label, txw.Toks(txs)), res)
	out.Stat("gcheck_"+res, 1)
	if res == "panic" {
		out.Pred("C17|Transactions.Check|panic", label+" "+txw.Toks(txs))
	}
	return res
}

// opCheckSign observes Transactions.CheckSign(h).
func opCheckSign(h int64, txs []*types.Transaction, label string) string {
	var or strings.Builder
	for _, t := range txs {
		or.WriteString(txw.Oracle(t))
	}
	g := &types.Transactions{Txs: txw.CopyAll(txs)}
	res := gen.Guard(func() string { return txw.B01(g.CheckSign(h)) })
	out.Op(fmt.Sprintf("gchecksign %d %s %s %s", h, or.String(), label, txw.Toks(txs)), res)
	out.Stat("gchecksign_"+res, 1)
	return res
}

func opCreate(txs []*types.Transaction, feeRate int64) ([]*types.Transaction, string) {
	in := txw.CopyAll(txs)
	var g *types.Transactions
	res := gen.Guard(func() string {
		var err error
		g, err = types.CreateTxGroup(in, feeRate)
		if err != nil {
			return errName(err)
		}
		return "ok " + txw.Toks(g.Txs)
	})
	out.Op(fmt.Sprintf("create %d %s", feeRate, txw.Toks(txs)), res)
	out.Stat("create_"+strings.SplitN(res, " ", 2)[0], 1)
	if g == nil {
		return nil, res
	}
	return g.Txs, "ok"
}

func opRebuilt(txs []*types.Transaction) []*types.Transaction {
	g := &types.Transactions{Txs: txw.CopyAll(txs)}
	res := gen.Guard(func() string { g.RebuiltGroup(); return txw.Toks(g.Txs) })
	out.Op("rebuilt "+txw.Toks(txs), res)
	out.Stat("rebuilt", 1)
	if res == "panic" {
		return nil
	}
	return g.Txs
}

func opGroupTx(txs []*types.Transaction) *types.Transaction {
	g := &types.Transactions{Txs: txw.CopyAll(txs)}
	var t *types.Transaction
	res := gen.Guard(func() string {
		t = g.Tx()
		if t == nil {
			return "nil"
		}
		return txw.Tok(t)
	})
	out.Op("grouptx "+txw.Toks(txs), res)
	return t
}

func opGetTxGroup(tx *types.Transaction) {
	if tx.GroupCount >= 2 && tx.GroupCount <= 20 {
		return // decoding of the header is not modelled
	}
	res := gen.Guard(func() string {
		g, err := tx.GetTxGroup()
		if err != nil {
			return errName(err)
		}
		if g == nil {
			return "single"
		}
		return "decode"
	})
	out.Op("gettxgroup "+txw.Tok(tx), res)
	out.Stat("gettxgroup_"+res, 1)
}

func opCheck1(e env, tx *types.Transaction) string {
	e.apply()
	if tx.GroupCount != 0 || tx.Header != nil || tx.Next != nil {
		return ""
	}
	c := txw.Copy(tx)
	res := gen.Guard(func() string { return errName(c.Check(cfg, e.height, e.minfee, e.maxFee)) })
	out.Op(fmt.Sprintf("check1 %s %d %s %d %d %s", txw.B01(e.strict), cfg.GetChainID(), txw.B01(e.checkFork), e.minfee, e.maxFee, txw.Tok(tx)), res)
	out.Stat("check1_"+res, 1)
	return res
}

// ---------------------------------------------------------------------------------------------
// generation

type member struct {
	signer txw.Signer
	key    crypto.PrivKey
	addrID int32
}

func randEnv(r *gen.Rand) env {
	e := env{strict: r.Chance(2, 3), checkFork: r.Chance(2, 3), paraFork: r.Chance(2, 3), height: int64(r.Intn(1000000))}
	switch r.Intn(5) {
	case 0:
		e.minfee = 0
	case 1:
		e.minfee = 1
	case 2:
		e.minfee = 100000
	default:
		e.minfee = int64(r.Intn(2000000))
	}
	switch r.Intn(4) {
	case 0:
		e.maxFee = 0
	case 1:
		e.maxFee = 1e9
	case 2:
		e.maxFee = -1
	default:
		e.maxFee = int64(r.Intn(1000000000))
	}
	return e
}

// execers for a group: main-chain only, one para title only, or mixed
func groupExecers(r *gen.Rand, n int) []string {
	mainX := []string{"coins", "none", "manage", "token", "user.write", "ticket"}
	paraA := []string{"user.p.para.coins", "user.p.para.token", "user.p.para.user.write", "user.p.para.none"}
	paraB := []string{"user.p.guodun.coins", "user.p.guodun.token"}
	odd := []string{"user.p.", "user.p.noend", "user.p.x.", ""}
	ex := make([]string, n)
	mode := r.Pick(5, 3, 2, 1, 1)
	for i := range ex {
		switch mode {
		case 0:
			ex[i] = mainX[r.Intn(len(mainX))]
		case 1:
			ex[i] = paraA[r.Intn(len(paraA))]
		case 2: // para + main
			if r.Bool() {
				ex[i] = paraA[r.Intn(len(paraA))]
			} else {
				ex[i] = mainX[r.Intn(len(mainX))]
			}
		case 3: // two titles
			if r.Bool() {
				ex[i] = paraA[r.Intn(len(paraA))]
			} else {
				ex[i] = paraB[r.Intn(len(paraB))]
			}
		default:
			ex[i] = odd[r.Intn(len(odd))]
		}
	}
	return ex
}

func groupSize(r *gen.Rand) int {
	switch r.Pick(6, 3, 2, 1) {
	case 0:
		return r.Range(2, 4)
	case 1:
		return r.Range(5, 10)
	case 2:
		return r.Range(11, 20)
	default:
		return 20
	}
}

func paraOK(txs []*types.Transaction) bool {
	titles := map[string]bool{}
	allPara := true
	for _, t := range txs {
		if title, ok := types.GetParaExecTitleName(string(t.Execer)); ok {
			titles[title] = true
		}
		if !types.IsParaExecName(string(t.Execer)) {
			allPara = false
		}
	}
	return len(titles) == 0 || (len(titles) == 1 && allPara)
}

func signAll(r *gen.Rand, signers []txw.Signer, txs []*types.Transaction) []member {
	ms := make([]member, len(txs))
	same := r.Chance(1, 3)
	for i, t := range txs {
		if i == 0 || !same {
			s := signers[r.Intn(len(signers))]
			ms[i] = member{s, s.Key(r), int32(r.Intn(8))}
		} else {
			ms[i] = ms[0]
		}
		t.Sign(types.EncodeSignID(ms[i].signer.TypeID, ms[i].addrID), ms[i].key)
	}
	return ms
}

func sameGroup(a, b []*types.Transaction) bool {
	if len(a) != len(b) {
		return false
	}
	for i := range a {
		if !proto.Equal(a[i], b[i]) {
			return false
		}
	}
	return true
}

type mutant struct {
	kind string
	txs  []*types.Transaction
}

// structural and field mutants of a signed group g (deep copies).
func mutants(r *gen.Rand, g []*types.Transaction, signers []txw.Signer) []mutant {
	n := len(g)
	var ms []mutant
	add := func(kind string, txs []*types.Transaction) { ms = append(ms, mutant{kind, txs}) }
	cp := func() []*types.Transaction { return txw.CopyAll(g) }

	// reorder
	{
		c := cp()
		i, j := r.Intn(n), r.Intn(n)
		if i == j {
			j = (i + 1) % n
		}
		c[i], c[j] = c[j], c[i]
		add("reorder-swap", c)
		c = cp()
		c = append(c[1:], c[0])
		add("reorder-rotate", c)
		if n > 2 {
			c = cp()
			for a, b := 0, n-1; a < b; a, b = a+1, b-1 {
				c[a], c[b] = c[b], c[a]
			}
			add("reorder-reverse", c)
			c = cp()
			c[n-1], c[n-2] = c[n-2], c[n-1]
			add("reorder-swap-last-two", c)
		}
	}
	// drop
	{
		c := cp()
		add("drop-first", c[1:])
		c = cp()
		add("drop-last", c[:n-1])
		if n > 2 {
			c = cp()
			k := 1 + r.Intn(n-2)
			add("drop-middle", append(c[:k:k], c[k+1:]...))
		}
	}
	// add
	{
		extra := txw.PlainTx(r, string(g[r.Intn(n)].Execer), g[0].ChainID)
		extra.Fee = 0
		extra.GroupCount = g[0].GroupCount
		extra.Header = g[0].Header
		s := signers[r.Intn(len(signers))]
		extra.Sign(types.EncodeSignID(s.TypeID, 0), s.Key(r))
		c := cp()
		add("add-append", append(c, txw.Copy(extra)))
		c = cp()
		k := r.Intn(n)
		add("add-insert", append(c[:k:k], append([]*types.Transaction{txw.Copy(extra)}, c[k:]...)...))
		c = cp()
		add("add-duplicate-member", append(c, txw.Copy(g[r.Intn(n)])))
		// appended member that is chained correctly from the old last member's point of view
		c = cp()
		e2 := txw.Copy(extra)
		e2.GroupCount = int32(n + 1)
		add("add-append-count-adjusted", append(c, e2))
	}
	// substitute: another payload carrying the group fields of the member it replaces
	{
		k := r.Intn(n)
		c := cp()
		sub := txw.PlainTx(r, string(g[k].Execer), g[k].ChainID)
		sub.Fee, sub.GroupCount, sub.Header, sub.Next = g[k].Fee, g[k].GroupCount, g[k].Header, g[k].Next
		s := signers[r.Intn(len(signers))]
		sub.Sign(types.EncodeSignID(s.TypeID, 0), s.Key(r))
		c[k] = sub
		add("substitute-member", c)
		// substitute keeping the original signature
		c = cp()
		sub2 := txw.Copy(sub)
		sub2.Signature = txw.Copy(g[k]).Signature
		c[k] = sub2
		add("substitute-member-keep-signature", c)
	}
	// field mutations of every member (a sample of members for big groups)
	idx := []int{0, n - 1}
	if n > 2 {
		idx = append(idx, 1+r.Intn(n-2))
	}
	for _, k := range idx {
		fm := func(kind string, f func(t *types.Transaction)) {
			c := cp()
			f(c[k])
			add(fmt.Sprintf("field-%s@%s", kind, pos(k, n)), c)
		}
		fm("Execer", func(t *types.Transaction) { t.Execer = flip(r, t.Execer) })
		fm("Payload", func(t *types.Transaction) { t.Payload = flip(r, t.Payload) })
		fm("Fee+1", func(t *types.Transaction) { t.Fee++ })
		fm("Fee-1", func(t *types.Transaction) { t.Fee-- })
		fm("Fee", func(t *types.Transaction) { t.Fee = int64(r.Intn(1 << 30)) })
		fm("Expire", func(t *types.Transaction) { t.Expire += int64(1 + r.Intn(1000)) })
		fm("Nonce", func(t *types.Transaction) { t.Nonce ^= 1 << uint(r.Intn(62)) })
		fm("To", func(t *types.Transaction) { t.To += "z" })
		fm("GroupCount", func(t *types.Transaction) { t.GroupCount += int32(1 + r.Intn(3)) })
		fm("GroupCount0", func(t *types.Transaction) { t.GroupCount = 0 })
		fm("Header", func(t *types.Transaction) { t.Header = flip(r, t.Header) })
		fm("HeaderNil", func(t *types.Transaction) { t.Header = nil })
		fm("Next", func(t *types.Transaction) { t.Next = flip(r, t.Next) })
		fm("NextNil", func(t *types.Transaction) { t.Next = nil })
		fm("ChainID", func(t *types.Transaction) { t.ChainID++ })
		fm("SigPubkey", func(t *types.Transaction) {
			if len(t.Signature.Pubkey) > 1 {
				t.Signature.Pubkey[1+r.Intn(len(t.Signature.Pubkey)-1)] ^= 1 << uint(r.Intn(8))
			}
		})
		fm("SigBytes", func(t *types.Transaction) {
			// flip inside the part every parser reads (never only trailing bytes: that is C16's finding)
			s := t.Signature.Signature
			if len(s) > 8 {
				s[4+r.Intn(len(s)-8)] ^= 1 << uint(r.Intn(8))
			}
		})
		fm("SigNil", func(t *types.Transaction) { t.Signature = nil })
	}
	// plausible-but-wrong links: FullHash instead of Hash, own hash, hash of the signed encoding
	if n >= 2 {
		k := r.Intn(n - 1)
		c := cp()
		c[k].Next = c[k+1].FullHash()
		add("link-next-fullhash", c)
		c = cp()
		c[k].Next = c[k].Hash()
		add("link-next-own-hash", c)
		// the whole chain consistently re-linked with FullHash (header still the head's Hash)
		c = cp()
		for i := n - 1; i >= 1; i-- {
			c[i-1].Next = c[i].FullHash()
		}
		hh := c[0].Hash()
		for _, t := range c {
			t.Header = hh
		}
		add("link-chain-fullhash", c)
		c = cp()
		fh := c[0].FullHash()
		for _, t := range c {
			t.Header = fh
		}
		add("link-header-fullhash", c)
		if n >= 3 {
			c = cp()
			c[0].Next = c[2].Hash()
			add("link-next-skips-one", c)
		}
	}
	// a member re-signed, unchanged, by a different key (who the member is from)
	{
		k := r.Intn(n)
		c := cp()
		s := signers[r.Intn(len(signers))]
		c[k].Sign(types.EncodeSignID(s.TypeID, 0), s.Key(r))
		add("resign-member-other-key", c)
	}
	// header replaced everywhere by another value (consistent among members)
	{
		c := cp()
		h := r.Bytes(32)
		for _, t := range c {
			t.Header = h
		}
		add("header-replaced-everywhere", c)
	}
	return ms
}

func pos(k, n int) string {
	switch k {
	case 0:
		return "head"
	case n - 1:
		return "last"
	}
	return "middle"
}

func flip(r *gen.Rand, b []byte) []byte {
	if len(b) == 0 {
		return []byte{byte(1 + r.Intn(255))}
	}
	n := append([]byte(nil), b...)
	n[r.Intn(len(n))] ^= 1 << uint(r.Intn(8))
	return n
}

// one full scenario
func scenario(r *gen.Rand, signers []txw.Signer, deep bool) {
	n := groupSize(r)
	e := randEnv(r)
	if r.Chance(1, 2) {
		e.minfee = []int64{100000, 1000000, 1}[r.Intn(3)]
	}
	feeRate := e.minfee
	chain := cfg.GetChainID()
	ex := groupExecers(r, n)
	in := make([]*types.Transaction, n)
	badChain := -1
	if r.Chance(1, 8) {
		badChain = r.Intn(n) // one member of a foreign chain
	}
	for i := range in {
		cid := chain
		if i == badChain {
			cid = chain + 1
		}
		in[i] = txw.PlainTx(r, ex[i], cid)
		if r.Chance(1, 10) {
			in[i].Payload = r.Bytes(r.Range(600, 1100)) // around the 1000-byte fee step
		}
		if r.Chance(1, 30) {
			in[i].Next = r.Bytes(32) // stale link in the input
		}
		if r.Chance(1, 30) {
			s := signers[r.Intn(len(signers))]
			in[i].Sign(types.EncodeSignID(s.TypeID, 0), s.Key(r)) // already signed input (no +300 in the estimate)
		}
	}
	if r.Chance(1, 40) {
		in[r.Intn(n)].Payload = r.Bytes(types.MaxTxSize - r.Intn(400)) // size limit
	}
	g, res := opCreate(in, feeRate)
	if g == nil {
		out.Stat("scenario_create_failed_"+res, 1)
		return
	}
	ms := signAll(r, signers, g)
	_ = ms
	h := int64(r.Intn(1000))

	// preconditions under which the property promises success
	lastNextNil := len(in[n-1].Next) == 0
	chainOK := true
	for _, t := range g {
		if e.strict && t.ChainID != chain {
			chainOK = false
		}
	}
	feeOK := !(g[0].Fee > e.maxFee && e.maxFee > 0 && e.checkFork)
	pOK := !e.paraFork || paraOK(g)
	pre := lastNextNil && chainOK && feeOK && pOK

	c0 := opCheck(e, g, "created")
	s0 := opCheckSign(h, g, "created")
	out.Stat(fmt.Sprintf("group_size_%02d", n), 1)
	if pre {
		out.Stat("scenario_preconditions_hold", 1)
		if c0 != "ok" {
			out.Pred("C17|Transactions.Check|created-group-rejected-"+c0, fmt.Sprintf("env=%s feeRate=%d in=%s", e, feeRate, txw.Toks(in)))
		}
		if s0 != "1" {
			out.Pred("C17|Transactions.CheckSign|created-signed-group-rejected", fmt.Sprintf("h=%d %s", h, txw.Toks(g)))
		}
	} else {
		out.Stat("scenario_preconditions_fail", 1)
	}
	if c0 != "ok" || s0 != "1" {
		return
	}
	// Tx() / GetTxGroup round trip and the single-transaction entry points
	if t := opGroupTx(g); t != nil {
		gg, err := t.GetTxGroup()
		if err != nil || gg == nil || !sameGroup(gg.Txs, g) {
			out.Pred("C17|Transaction.GetTxGroup|roundtrip-differs", txw.Toks(g))
		}
		e.apply()
		if r := errName(t.Check(cfg, e.height, e.minfee, e.maxFee)); r != "ok" {
			out.Pred("C17|Transaction.Check|group-tx-rejected-"+r, txw.Toks(g))
		}
		if !t.CheckSign(h) {
			// Tx() keeps the head's signature but replaces its header: only TransactionCache.CheckSign
			// (which unpacks the group) is meaningful for it — recorded, not a predicate.
			out.Stat("grouptx_plain_checksign_false", 1)
		}
		tc := types.NewTransactionCache(t)
		if !tc.CheckSign(h) {
			out.Pred("C17|TransactionCache.CheckSign|group-tx-rejected", txw.Toks(g))
		}
		if r := errName(tc.Check(cfg, e.height, e.minfee, e.maxFee)); r != "ok" {
			out.Pred("C17|TransactionCache.Check|group-tx-rejected-"+r, txw.Toks(g))
		}
	}

	// fee rules
	if e.minfee > 0 {
		var total int64
		for _, t := range g {
			f, _ := t.GetRealFee(e.minfee)
			total += f
			// the required fee by its definition: one fee unit per started 1000 bytes of the encoding
			// (+300 bytes for a missing signature), computed without the code under test
			sz := len(types.Encode(t))
			if t.Signature == nil {
				sz += 300
			}
			if want := int64(sz/1000+1) * e.minfee; f != want && sz <= int(types.MaxTxSize) {
				out.Pred("C17|GetRealFee|differs-from-size-formula", fmt.Sprintf("minfee=%d size=%d got=%d want=%d", e.minfee, sz, f, want))
			}
		}
		c := txw.CopyAll(g)
		c[0].Fee = total - 1
		rb := opRebuilt(c) // fee is hashed: re-chain so that only the fee rule can object
		if rb != nil {
			if res := opCheck(e, rb, "fee-head-below-sum"); res != "ErrTxFeeTooLow" {
				out.Pred("C17|Transactions.Check|head-fee-below-sum-not-ErrTxFeeTooLow", fmt.Sprintf("env=%s got=%s %s", e, res, txw.Toks(rb)))
			}
			rb2 := txw.CopyAll(rb)
			rb2[0].Fee = total
			rb2 = opRebuilt(rb2)
			if rb2 != nil && pre {
				if res := opCheck(e, rb2, "fee-head-equals-sum"); res != "ok" {
					out.Pred("C17|Transactions.Check|head-fee-equal-sum-rejected-"+res, fmt.Sprintf("env=%s %s", e, txw.Toks(rb2)))
				}
			}
		}
		c = txw.CopyAll(g)
		k := 1 + r.Intn(n-1)
		c[k].Fee = int64(1 + r.Intn(1000000))
		c[0].Fee += c[k].Fee * 2
		rb = opRebuilt(c)
		if rb != nil {
			if res := opCheck(e, rb, "fee-nonhead-nonzero"); res != "ErrTxGroupFeeNotZero" {
				out.Pred("C17|Transactions.Check|nonhead-fee-not-ErrTxGroupFeeNotZero", fmt.Sprintf("env=%s got=%s %s", e, res, txw.Toks(rb)))
			}
		}
	}

	// tamper
	for _, m := range mutants(r, g, signers) {
		if sameGroup(m.txs, g) {
			continue
		}
		out.Stat("mutant_"+strings.SplitN(m.kind, "@", 2)[0], 1)
		cr := opCheck(e, m.txs, "mut:"+m.kind)
		sr := opCheckSign(h, m.txs, "mut:"+m.kind)
		if cr == "ok" && sr == "1" {
			out.Pred("C17|Check+CheckSign|"+m.kind+"-accepted", fmt.Sprintf("env=%s h=%d orig=%s mutant=%s", e, h, txw.Toks(g), txw.Toks(m.txs)))
		}
		if cr == "ok" {
			out.Stat("mutant_passes_check_fails_sign", 1)
		}
		// the attacker re-chains the mutant: Check may pass, the signatures must not
		if (deep || r.Chance(1, 3)) && m.kind != "resign-member-other-key" {
			if len(m.txs) >= 2 {
				rb := opRebuilt(m.txs)
				if rb != nil && !sameGroup(rb, g) {
					cr := opCheck(e, rb, "mut-rebuilt:"+m.kind)
					sr := opCheckSign(h, rb, "mut-rebuilt:"+m.kind)
					if cr == "ok" {
						out.Stat("rebuilt_mutant_passes_check", 1)
					}
					if cr == "ok" && sr == "1" {
						out.Pred("C17|Check+CheckSign|rebuilt-"+m.kind+"-accepted", fmt.Sprintf("env=%s h=%d orig=%s mutant=%s", e, h, txw.Toks(g), txw.Toks(rb)))
					}
				}
			}
		}
	}
}

func replay(lines []string) {
	for _, l := range lines {
		w := strings.Fields(l)
		bad := func() { out.Op(l, "bad-op") }
		parse := func(ws []string) []*types.Transaction {
			var txs []*types.Transaction
			for _, s := range ws {
				t, err := txw.FromTok(s)
				if err != nil {
					return nil
				}
				txs = append(txs, t)
			}
			return txs
		}
		var n [8]int64
		num := func(i int, s string) bool { _, err := fmt.Sscan(s, &n[i]); return err == nil }
		switch {
		case len(w) >= 3 && w[0] == "create" && num(0, w[1]):
			if txs := parse(w[2:]); txs != nil {
				opCreate(txs, n[0])
				continue
			}
			bad()
		case len(w) >= 2 && w[0] == "rebuilt":
			if txs := parse(w[1:]); txs != nil {
				opRebuilt(txs)
				continue
			}
			bad()
		case len(w) >= 9 && w[0] == "gcheck" && num(1, w[2]) && num(4, w[5]) && num(5, w[6]):
			if int32(n[1]) != cfg.GetChainID() {
				bad()
				continue
			}
			e := env{strict: w[1] == "1", checkFork: w[3] == "1", paraFork: w[4] == "1", minfee: n[4], maxFee: n[5], height: 10}
			if txs := parse(w[8:]); txs != nil {
				opCheck(e, txs, w[7])
				continue
			}
			bad()
		case len(w) >= 5 && w[0] == "gchecksign" && num(0, w[1]):
			if txs := parse(w[4:]); txs != nil {
				opCheckSign(n[0], txs, w[3])
				continue
			}
			bad()
		case len(w) >= 2 && w[0] == "grouptx":
			if txs := parse(w[1:]); txs != nil {
				opGroupTx(txs)
				continue
			}
			bad()
		case len(w) == 2 && w[0] == "gettxgroup":
			if txs := parse(w[1:]); txs != nil {
				opGetTxGroup(txs[0])
				continue
			}
			bad()
		case len(w) == 5 && w[0] == "reg":
			res := "mismatch"
			for _, d := range txw.ObserveRegistry() {
				if d.Name == w[1] && fmt.Sprint(d.ID) == w[2] && txw.B01(d.Enable) == w[3] && fmt.Sprint(d.Height) == w[4] {
					res = "ok"
				}
			}
			out.Op(l, res)
		default:
			bad()
		}
	}
}

func main() {
	out = txw.NewIsolatedOut()
	defer out.Flush()
	txw.RegisterSpy()
	cfg = types.NewChain33Config(types.GetDefaultCfgstring())
	if lines := gen.ReplayLines(); lines != nil {
		replay(lines)
		return
	}
	r := gen.New(gen.Seed())
	txw.EmitRegistry(out)
	signers := txw.Signers()
	var sn []string
	for _, s := range signers {
		sn = append(sn, s.Name)
	}
	out.Sample("signers: " + strings.Join(sn, ",") + fmt.Sprintf("; chainID=%d", cfg.GetChainID()))

	// degenerate inputs of CreateTxGroup / Check
	opCreate(nil, 100000)
	one := []*types.Transaction{txw.PlainTx(r, "coins", cfg.GetChainID())}
	opCreate(one, 100000)
	opCheck(randEnv(r), one, "single")
	opCheck(randEnv(r), nil, "empty")
	{
		// 21 members: CreateTxGroup does not refuse, Check must
		var in []*types.Transaction
		for i := 0; i < 21; i++ {
			in = append(in, txw.PlainTx(r, "coins", cfg.GetChainID()))
		}
		if g, _ := opCreate(in, 100000); g != nil {
			e := env{strict: true, checkFork: true, paraFork: true, minfee: 100000, maxFee: 0, height: 5}
			if res := opCheck(e, g, "size21"); res == "ok" {
				out.Pred("C17|Transactions.Check|group-of-21-accepted", txw.Toks(g))
			}
		}
	}
	// GetTxGroup gate and single-transaction Check
	for i := 0; i < gen.Scale(100, 2000); i++ {
		t := txw.RandTx(r)
		opGetTxGroup(t)
		p := txw.PlainTx(r, txw.Execers[r.Intn(len(txw.Execers))], cfg.GetChainID()+int32(r.Intn(2)))
		if r.Bool() {
			s := signers[r.Intn(len(signers))]
			p.Sign(types.EncodeSignID(s.TypeID, 0), s.Key(r))
		}
		if r.Chance(1, 20) {
			p.Payload = r.Bytes(types.MaxTxSize - r.Intn(600))
		}
		opGetTxGroup(p)
		opCheck1(randEnv(r), p)
	}
	for i := 0; i < gen.Scale(16, 300); i++ {
		scenario(r, signers, i%8 == 0)
	}
	_ = bytes.Equal
}
