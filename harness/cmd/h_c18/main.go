// h_c18 drives common/merkle (GetMerkleRoot, Computation, GetMerkleBranch,
// GetMerkleRootFromBranch, CalcMultiLayerMerkleInfo, CalcMerkleRoot) on generated leaf lists.
// The number of workers of GetMerkleRoot is runtime.NumCPU(), i.e. the CPU affinity of the
// process: the orchestrator runs this binary under `taskset -c 0-(k-1)` for several k.
//
// Lines (see lean/Driver/C18.lean):
//
//	root <ncpu> <spec>                       -> hex root | -
//	comp <flage> <pos> <spec>                -> <root> <0|1> <b1,b2,…|->
//	frombranch <index> <leaf> <b1,b2,…|->    -> hex root
//	multi <ncpu> <execerhex|->:<fullhash>,…  -> <root> <titlehex>:<start>:<count>:<hash>;…
//
// spec tokens: g<seed>.<start>.<count> | x<64hex> | z | t<k> | e
// arg 1: "all" (every section), "multi" (roots + multi-layer), "roots" (only the root sweep) or
// "node" (node.go: blocks delivered to a testnode, proofs asked through ProcQueryTxMsg).
package main

import (
	"bytes"
	"crypto/sha256"
	"encoding/binary"
	"encoding/hex"
	"fmt"
	"os"
	"runtime"
	"sort"
	"strconv"
	"strings"

	"github.com/33cn/chain33/common/merkle"
	"github.com/33cn/chain33/types"
	"github.com/33cn/chain33/util"

	"verifharness/internal/gen"
)

var out = gen.NewOut()
var ncpu = runtime.NumCPU()

// ---------------------------------------------------------------- leaf lists

type leafList struct {
	toks   []string
	leaves [][]byte
}

func genLeaf(seed uint64, i uint32) []byte {
	var b [12]byte
	binary.BigEndian.PutUint64(b[:8], seed)
	binary.BigEndian.PutUint32(b[8:], i)
	h := sha256.Sum256(b[:])
	return h[:]
}

func (l *leafList) gen(seed uint64, start, count int) *leafList {
	l.toks = append(l.toks, fmt.Sprintf("g%d.%d.%d", seed, start, count))
	for j := 0; j < count; j++ {
		l.leaves = append(l.leaves, genLeaf(seed, uint32(start+j)))
	}
	return l
}

func (l *leafList) explicit(h []byte) *leafList {
	l.toks = append(l.toks, "x"+hex.EncodeToString(h))
	l.leaves = append(l.leaves, h)
	return l
}

func (l *leafList) nilLeaf() *leafList {
	l.toks = append(l.toks, "z")
	l.leaves = append(l.leaves, nil)
	return l
}

func (l *leafList) dupTail(k int) *leafList {
	l.toks = append(l.toks, fmt.Sprintf("t%d", k))
	n := len(l.leaves)
	l.leaves = append(l.leaves, l.leaves[n-k:n]...)
	return l
}

func (l *leafList) clone() *leafList {
	return &leafList{toks: append([]string(nil), l.toks...), leaves: append([][]byte(nil), l.leaves...)}
}

func (l *leafList) spec() string {
	if len(l.toks) == 0 {
		return "e"
	}
	return strings.Join(l.toks, ",")
}

// copyLeaves: getMerkleRoot overwrites the slice it is given, so every call gets a fresh outer slice.
func copyLeaves(h [][]byte) [][]byte {
	if h == nil {
		return nil
	}
	return append(make([][]byte, 0, len(h)), h...)
}

func parseSpec(s string) (*leafList, bool) {
	l := &leafList{}
	for _, tok := range strings.Split(s, ",") {
		if tok == "" {
			return nil, false
		}
		switch tok[0] {
		case 'e':
			if tok != "e" {
				return nil, false
			}
		case 'z':
			if tok != "z" {
				return nil, false
			}
			l.nilLeaf()
		case 'x':
			b, err := hex.DecodeString(tok[1:])
			if err != nil || len(b) != 32 {
				return nil, false
			}
			l.explicit(b)
		case 't':
			k, err := strconv.Atoi(tok[1:])
			if err != nil || k < 0 || k > len(l.leaves) {
				return nil, false
			}
			l.dupTail(k)
		case 'g':
			f := strings.Split(tok[1:], ".")
			if len(f) != 3 {
				return nil, false
			}
			seed, e1 := strconv.ParseUint(f[0], 10, 64)
			start, e2 := strconv.Atoi(f[1])
			count, e3 := strconv.Atoi(f[2])
			if e1 != nil || e2 != nil || e3 != nil || start < 0 || count < 0 || count > 1<<20 {
				return nil, false
			}
			l.gen(seed, start, count)
		default:
			return nil, false
		}
	}
	return l, true
}

func hx(b []byte) string {
	if len(b) == 0 {
		return "-"
	}
	return hex.EncodeToString(b)
}

func hxList(bs [][]byte) string {
	if len(bs) == 0 {
		return "-"
	}
	s := make([]string, len(bs))
	for i, b := range bs {
		s[i] = hx(b)
	}
	return strings.Join(s, ",")
}

// ---------------------------------------------------------------- independent reference

func h2(l, r []byte) []byte {
	if l == nil || r == nil {
		return nil
	}
	var buf [64]byte
	copy(buf[:32], l)
	copy(buf[32:], r)
	a := sha256.Sum256(buf[:])
	a = sha256.Sum256(a[:])
	return a[:]
}

// refRoot: the textbook sequential algorithm (pair up, duplicate the last of an odd level).
func refRoot(leaves [][]byte) []byte {
	if len(leaves) == 0 {
		return nil
	}
	lvl := copyLeaves(leaves)
	for len(lvl) > 1 {
		var nx [][]byte
		for i := 0; i < len(lvl); i += 2 {
			j := i + 1
			if j == len(lvl) {
				j = i
			}
			nx = append(nx, h2(lvl[i], lvl[j]))
		}
		lvl = nx
	}
	return lvl[0]
}

func depth(n int) int {
	d := 0
	for n > 1 {
		n = (n + 1) / 2
		d++
	}
	return d
}

// ---------------------------------------------------------------- ops

func opRoot(l *leafList) []byte {
	var r []byte
	arg := copyLeaves(l.leaves)
	res := gen.Guard(func() string { r = merkle.GetMerkleRoot(arg); return hx(r) })
	// getMerkleRoot works in place: the caller's slice no longer holds the leaves afterwards
	for i := range arg {
		if !bytes.Equal(arg[i], l.leaves[i]) {
			out.Stat("argument_slice_overwritten_by_GetMerkleRoot", 1)
			break
		}
	}
	out.Op(fmt.Sprintf("root %d %s", ncpu, l.spec()), res)
	if res == "panic" {
		out.Pred("C18|GetMerkleRoot|panic", l.spec())
	}
	return r
}

type compRes struct {
	root    []byte
	mutated bool
	branch  [][]byte
	ok      bool
}

func computation(l *leafList, flage int, pos uint32) (c compRes, s string) {
	s = gen.Guard(func() string {
		c.root, c.mutated, c.branch = merkle.Computation(copyLeaves(l.leaves), flage, pos)
		m := 0
		if c.mutated {
			m = 1
		}
		c.ok = true
		return fmt.Sprintf("%s %d %s", hx(c.root), m, hxList(c.branch))
	})
	return
}

func opComp(l *leafList, flage int, pos uint32) compRes {
	c, s := computation(l, flage, pos)
	out.Op(fmt.Sprintf("comp %d %d %s", flage, pos, l.spec()), s)
	if !c.ok {
		out.Pred("C18|Computation|panic", fmt.Sprintf("flage=%d pos=%d %s", flage, pos, l.spec()))
	}
	return c
}

func opFromBranch(branch [][]byte, leaf []byte, index uint32) []byte {
	var r []byte
	res := gen.Guard(func() string { r = merkle.GetMerkleRootFromBranch(branch, leaf, index); return hx(r) })
	out.Op(fmt.Sprintf("frombranch %d %s %s", index, hx(leaf), hxList(branch)), res)
	return r
}

// checkRoots: parallel root (this process' worker count) = sequential reference = streaming root.
func checkRoots(l *leafList) []byte {
	r := opRoot(l)
	ref := refRoot(l.leaves)
	if !bytes.Equal(r, ref) {
		out.Pred("C18|GetMerkleRoot|parallel-ne-sequential", fmt.Sprintf("ncpu=%d n=%d %s got=%s want=%s", ncpu, len(l.leaves), l.spec(), hx(r), hx(ref)))
	}
	c, _ := computation(l, 1, 0)
	if !c.ok || !bytes.Equal(c.root, r) {
		out.Pred("C18|Computation|root-ne-GetMerkleRoot", fmt.Sprintf("ncpu=%d n=%d %s", ncpu, len(l.leaves), l.spec()))
	}
	out.Stat("roots_checked", 1)
	out.Stat("leaves_hashed", int64(len(l.leaves)))
	n := len(l.leaves)
	switch {
	case n <= 80:
		out.Stat("n_le80_sequential_shortcut", 1)
	case ncpu <= 1:
		out.Stat("n_gt80_single_worker", 1)
	default:
		st := stepOf(n)
		out.Stat(fmt.Sprintf("parallel_step_%d", st), 1)
		if n%st != 0 {
			out.Stat("parallel_partial_last_chunk", 1)
			if n%st == 1 {
				out.Stat("parallel_last_chunk_single_leaf", 1)
			}
		}
	}
	return r
}

// stepOf re-derives the chunk size only to describe the input distribution.
func stepOf(n int) int {
	x := n / ncpu
	lg := 0
	for x > 1 {
		x /= 2
		lg++
	}
	if lg < 1 {
		lg = 1
	}
	st := 1 << uint(lg)
	if st > 256 {
		st = 256
	}
	return st
}

// checkBranch: the branch of every requested position verifies against the root; flage 2 and 3 agree.
func checkBranch(l *leafList, pos uint32, root []byte) {
	n := len(l.leaves)
	c2 := opComp(l, 2, pos)
	if !c2.ok {
		return
	}
	out.Stat("branches_checked", 1)
	if int(pos) >= n {
		out.Stat("branch_pos_out_of_range", 1)
		if len(c2.branch) != 0 {
			out.Pred("C18|GetMerkleBranch|branch-for-absent-position", fmt.Sprintf("pos=%d n=%d %s", pos, n, l.spec()))
		}
		return
	}
	leaf := l.leaves[pos]
	got := opFromBranch(c2.branch, leaf, pos)
	if !bytes.Equal(got, root) {
		out.Pred("C18|GetMerkleBranch|branch-does-not-verify", fmt.Sprintf("pos=%d n=%d %s", pos, n, l.spec()))
	}
	if len(c2.branch) != depth(n) {
		out.Pred("C18|GetMerkleBranch|branch-length", fmt.Sprintf("pos=%d n=%d len=%d %s", pos, n, len(c2.branch), l.spec()))
	}
	if !bytes.Equal(c2.root, root) {
		out.Pred("C18|Computation|root-ne-GetMerkleRoot", fmt.Sprintf("flage=2 pos=%d n=%d %s", pos, n, l.spec()))
	}
	// API wrappers
	b := merkle.GetMerkleBranch(copyLeaves(l.leaves), pos)
	r3, b3 := merkle.GetMerkleRootAndBranch(copyLeaves(l.leaves), pos)
	if hxList(b) != hxList(c2.branch) || hxList(b3) != hxList(c2.branch) || !bytes.Equal(r3, root) {
		out.Pred("C18|GetMerkleRootAndBranch|differs-from-Computation", fmt.Sprintf("pos=%d n=%d %s", pos, n, l.spec()))
	}
}

func positions(r *gen.Rand, n int, extra int) []uint32 {
	set := map[uint32]bool{}
	add := func(p int) {
		if p >= 0 {
			set[uint32(p)] = true
		}
	}
	add(0)
	add(1)
	add(n - 1)
	add(n - 2)
	add(n / 2)
	add(n) // one past the end: empty branch
	for i := 0; i < extra && n > 0; i++ {
		add(r.Intn(n))
	}
	var ps []uint32
	for p := range set {
		ps = append(ps, p)
	}
	sort.Slice(ps, func(i, j int) bool { return ps[i] < ps[j] })
	return ps
}

// checkDupTail: for a list xs of distinct leaves and ys = xs ++ (copy of the last k leaves):
// equal roots with different lists must be flagged `mutated` by Computation on the longer list.
func checkDupTail(xs *leafList, ks []int) {
	cx := opComp(xs, 1, 0)
	if !cx.ok {
		return
	}
	if cx.mutated {
		out.Stat("mutated_flag_on_distinct_leaves", 1)
		out.Pred("C18|Computation|mutated-on-distinct-leaves", xs.spec())
	}
	for _, k := range ks {
		if k < 1 || k > len(xs.leaves) {
			continue
		}
		ys := xs.clone().dupTail(k)
		cy := opComp(ys, 1, 0)
		if !cy.ok {
			continue
		}
		out.Stat("dup_tail_pairs", 1)
		if bytes.Equal(cx.root, cy.root) {
			out.Stat("dup_tail_pairs_equal_root", 1)
			if !cy.mutated && !cx.mutated {
				out.Pred("C18|Computation|equal-root-not-flagged-mutated", fmt.Sprintf("k=%d xs=%s", k, xs.spec()))
			}
		} else {
			out.Stat("dup_tail_pairs_distinct_root", 1)
		}
		// second generation: duplicate again (e.g. 5 -> 6 -> 8 leaves)
		if len(ys.leaves) < 5000 {
			for _, k2 := range []int{1, 2 * k} {
				if k2 > len(ys.leaves) {
					continue
				}
				zs := ys.clone().dupTail(k2)
				cz := opComp(zs, 1, 0)
				if cz.ok && bytes.Equal(cz.root, cx.root) {
					out.Stat("dup_tail_second_generation_equal_root", 1)
					if !cz.mutated {
						out.Pred("C18|Computation|equal-root-not-flagged-mutated", fmt.Sprintf("k=%d,%d xs=%s", k, k2, xs.spec()))
					}
				}
			}
		}
	}
}

// ---------------------------------------------------------------- multi layer

var cfg *types.Chain33Config

type txList struct {
	txs    []*types.Transaction
	sorted bool // main-chain txs first, then each para title in one contiguous run (what block producers build)
}

func titleOf(tx *types.Transaction) string {
	if t, ok := types.GetParaExecTitleName(string(tx.Execer)); ok {
		return t
	}
	return types.MainChainName
}

func (t *txList) line() string {
	if len(t.txs) == 0 {
		return "-"
	}
	s := make([]string, len(t.txs))
	for i, tx := range t.txs {
		s[i] = hx(tx.Execer) + ":" + hx(tx.FullHash())
	}
	return strings.Join(s, ",")
}

func checkMulti(t *txList) {
	n := len(t.txs)
	var root []byte
	var childs []*types.ChildChain
	res := gen.Guard(func() string {
		root, childs = merkle.CalcMultiLayerMerkleInfo(cfg, 1, t.txs)
		cs := make([]string, len(childs))
		for i, c := range childs {
			cs[i] = fmt.Sprintf("%s:%d:%d:%s", hx([]byte(c.Title)), c.StartIndex, c.TxCount, hx(c.ChildHash))
		}
		s := "-"
		if len(cs) > 0 {
			s = strings.Join(cs, ";")
		}
		return hx(root) + " " + s
	})
	out.Op(fmt.Sprintf("multi %d %s", ncpu, t.line()), res)
	out.Stat("multi_checked", 1)
	if res == "panic" {
		out.Pred("C18|CalcMultiLayerMerkleInfo|panic", fmt.Sprintf("n=%d", n))
		return
	}
	out.Stat(fmt.Sprintf("multi_chains_%s", chainClass(len(childs))), 1)
	if n == 0 {
		return
	}
	// CalcMerkleRoot after the fork is the same root
	if r := merkle.CalcMerkleRoot(cfg, 1, t.txs); !bytes.Equal(r, root) {
		out.Pred("C18|CalcMerkleRoot|differs-from-multilayer-root", fmt.Sprintf("n=%d", n))
	}
	// the child chains partition the list
	next := int32(0)
	var childHashes [][]byte
	for _, c := range childs {
		if c.StartIndex != next || c.TxCount <= 0 {
			out.Pred("C18|CalcMultiLayerMerkleInfo|children-do-not-partition", fmt.Sprintf("n=%d start=%d want=%d", n, c.StartIndex, next))
			return
		}
		next = c.StartIndex + c.TxCount
		childHashes = append(childHashes, c.ChildHash)
	}
	if int(next) != n {
		out.Pred("C18|CalcMultiLayerMerkleInfo|children-do-not-partition", fmt.Sprintf("n=%d covered=%d", n, next))
		return
	}
	full := make([][]byte, n)
	for i, tx := range t.txs {
		full[i] = tx.FullHash()
	}
	// on a sorted list the child chains are exactly the maximal runs of one title
	if t.sorted {
		out.Stat("multi_sorted_lists", 1)
		for ci, c := range childs {
			for i := c.StartIndex; i < c.StartIndex+c.TxCount; i++ {
				if titleOf(t.txs[i]) != c.Title {
					out.Pred("C18|CalcMultiLayerMerkleInfo|child-is-not-a-title-run", fmt.Sprintf("n=%d child=%d tx=%d", n, ci, i))
					break
				}
			}
			if ci > 0 && childs[ci-1].Title == c.Title {
				out.Pred("C18|CalcMultiLayerMerkleInfo|child-is-not-a-title-run", fmt.Sprintf("n=%d child=%d same title as previous", n, ci))
			}
		}
	}
	// every child root and its proof verify; every tx proof verifies (the two-level proof of getMultiLayerProofs)
	for ci, c := range childs {
		sub := full[c.StartIndex : c.StartIndex+c.TxCount]
		if !bytes.Equal(refRoot(sub), c.ChildHash) {
			out.Pred("C18|CalcMultiLayerMerkleInfo|child-root-wrong", fmt.Sprintf("n=%d child=%d", n, ci))
		}
		if len(childs) == 1 {
			if !bytes.Equal(c.ChildHash, root) {
				out.Pred("C18|CalcMultiLayerMerkleInfo|single-chain-root-ne-child", fmt.Sprintf("n=%d", n))
			}
		} else {
			cb := merkle.GetMerkleBranch(copyLeaves(childHashes), uint32(ci))
			if !bytes.Equal(merkle.GetMerkleRootFromBranch(cb, c.ChildHash, uint32(ci)), root) {
				out.Pred("C18|CalcMultiLayerMerkleInfo|child-proof-does-not-verify", fmt.Sprintf("n=%d child=%d", n, ci))
			}
		}
		idxs := []int{0, len(sub) - 1, len(sub) / 2}
		for _, i := range idxs {
			tb := merkle.GetMerkleBranch(copyLeaves(sub), uint32(i))
			if !bytes.Equal(merkle.GetMerkleRootFromBranch(tb, sub[i], uint32(i)), c.ChildHash) {
				out.Pred("C18|CalcMultiLayerMerkleInfo|tx-proof-does-not-verify", fmt.Sprintf("n=%d child=%d i=%d", n, ci, i))
			}
			out.Stat("multi_tx_proofs", 1)
		}
	}
	if !bytes.Equal(refRoot(childHashes), root) {
		out.Pred("C18|CalcMultiLayerMerkleInfo|root-ne-root-of-children", fmt.Sprintf("n=%d", n))
	}
}

func chainClass(n int) string {
	switch {
	case n <= 1:
		return "1"
	case n <= 8:
		return "2to8"
	case n <= 80:
		return "9to80"
	default:
		return "gt80"
	}
}

var mainExecs = []string{"coins", "ticket", "none", "user.write", "token", "user.p", "user.px.y.coins"}
var oddExecs = []string{"user.p.", "user.p.x", "user.p..coins", "", "user.p.aaa", "user.P.a.coins"}

func mkTx(r *gen.Rand, exec string) *types.Transaction {
	tx := &types.Transaction{Execer: []byte(exec), Payload: r.Bytes(r.Intn(40)), Fee: int64(r.Intn(1000000)), Nonce: int64(r.U64() >> 1), To: "1JmFaA6unrCFYEWPGRi7uuXY1KthTJxJEP"}
	if r.Bool() {
		tx.Signature = &types.Signature{Ty: 1, Pubkey: r.Bytes(33), Signature: r.Bytes(64)}
	}
	if r.Chance(1, 4) {
		tx.Expire = int64(r.Intn(100000))
	}
	return tx
}

func paraExec(title int, r *gen.Rand) string {
	return fmt.Sprintf("user.p.t%d.%s", title, []string{"coins", "token", "none", "user.x"}[r.Intn(4)])
}

// genTxList: shape 0 = sorted (main first, then each para title contiguous), 1 = only main,
// 2 = only one para title, 3 = interleaved at random, 4 = many titles (one tx each), 5 = odd execers mixed in.
func genTxList(r *gen.Rand, shape, n int) *txList {
	t := &txList{sorted: shape == 0 || shape == 1 || shape == 2 || shape == 4}
	switch shape {
	case 1:
		for i := 0; i < n; i++ {
			t.txs = append(t.txs, mkTx(r, mainExecs[r.Intn(len(mainExecs))]))
		}
	case 2:
		for i := 0; i < n; i++ {
			t.txs = append(t.txs, mkTx(r, paraExec(7, r)))
		}
	case 3:
		titles := 1 + r.Intn(5)
		for i := 0; i < n; i++ {
			if r.Chance(1, 3) {
				t.txs = append(t.txs, mkTx(r, mainExecs[r.Intn(len(mainExecs))]))
			} else {
				t.txs = append(t.txs, mkTx(r, paraExec(r.Intn(titles), r)))
			}
		}
	case 4:
		for i := 0; i < n; i++ {
			t.txs = append(t.txs, mkTx(r, paraExec(i, r)))
		}
	case 5:
		for i := 0; i < n; i++ {
			switch r.Intn(3) {
			case 0:
				t.txs = append(t.txs, mkTx(r, oddExecs[r.Intn(len(oddExecs))]))
			case 1:
				t.txs = append(t.txs, mkTx(r, mainExecs[r.Intn(len(mainExecs))]))
			default:
				t.txs = append(t.txs, mkTx(r, paraExec(r.Intn(3), r)))
			}
		}
	default:
		nm := r.Intn(n + 1)
		for i := 0; i < nm; i++ {
			t.txs = append(t.txs, mkTx(r, mainExecs[r.Intn(len(mainExecs))]))
		}
		title := 0
		for len(t.txs) < n {
			k := 1 + r.Intn(1+(n-len(t.txs)))
			if r.Chance(1, 3) {
				k = 1 + r.Intn(3)
			}
			for j := 0; j < k && len(t.txs) < n; j++ {
				t.txs = append(t.txs, mkTx(r, paraExec(title, r)))
			}
			title++
		}
	}
	return t
}

// ---------------------------------------------------------------- generation

func nSet(r *gen.Rand) []int {
	set := map[int]bool{}
	{
		// every n up to the tier's limit (thorough: 4096, scaled down by VERIF_SCALE), then the stratified set
		for n := 0; n <= gen.Scale(100, 4096) && n <= 4096; n++ {
			set[n] = true
		}
		add := func(n int) {
			if n >= 0 && n <= 4096 {
				set[n] = true
			}
		}
		for _, k := range []int{2, 3, 5, 8, 13, 16} {
			for j := uint(1); j <= 9; j++ {
				m := k << j
				if m > 2100 {
					continue
				}
				add(m - 1)
				add(m)
				add(m + 1)
			}
		}
		for j := uint(0); j <= 12; j++ {
			add(1<<j - 1)
			add(1 << j)
			add(1<<j + 1)
		}
		for _, m := range []int{768, 1280, 2304, 3840} {
			add(m - 1)
			add(m + 1)
			add(m + 255)
		}
		for i := 0; i < 5; i++ {
			add(81 + r.Intn(4016))
		}
		for i := 0; i < 20; i++ {
			add(81 + r.Intn(600))
		}
	}
	var ns []int
	for n := range set {
		ns = append(ns, n)
	}
	sort.Ints(ns)
	return ns
}

func sectionRoots(r *gen.Rand, seed uint64) {
	for _, n := range nSet(r) {
		checkRoots((&leafList{}).gen(seed, 0, n))
	}
	// lists with repeated leaves / duplicated tails also go through the chunked path
	for i := 0; i < gen.Scale(40, 400); i++ {
		n := 81 + r.Intn(gen.Scale(1500, 4000))
		l := (&leafList{}).gen(seed+1, r.Intn(1000), n)
		k := 1 << uint(r.Intn(9))
		if k > n {
			k = 1
		}
		l.dupTail(k)
		if r.Bool() {
			l.gen(seed+2, 0, r.Intn(300))
		}
		checkRoots(l)
	}
}

func sectionBranches(r *gen.Rand, seed uint64) {
	var ns []int
	if gen.Thorough() {
		for n := 0; n <= 600; n++ {
			ns = append(ns, n)
		}
		for i := 0; i < 150; i++ {
			ns = append(ns, 600+r.Intn(3497))
		}
	} else {
		for n := 0; n <= 70; n++ {
			ns = append(ns, n)
		}
		for i := 0; i < 12; i++ {
			ns = append(ns, 70+r.Intn(900))
		}
	}
	ns = append(ns, 127, 128, 129, 255, 256, 257, 1023, 1024, 1025, 4095, 4096)
	for _, n := range ns {
		l := (&leafList{}).gen(seed+3, 0, n)
		root := refRoot(l.leaves)
		var ps []uint32
		if n <= gen.Scale(24, 130) {
			for p := 0; p <= n; p++ {
				ps = append(ps, uint32(p))
			}
		} else {
			extra := gen.Scale(3, 12)
			if n >= 1000 && !gen.Thorough() {
				extra = 0
			}
			ps = positions(r, n, extra)
		}
		for _, p := range ps {
			checkBranch(l, p, root)
		}
		if n > 0 && n < 40 {
			// flage 3 and an out-of-range flage
			p := uint32(r.Intn(n))
			opComp(l, 3, p)
			opComp(l, 0, p)
			opComp(l, 4, p)
			opComp(l, 1, p)
		}
	}
	// branch positions that only match modulo 2^32 are never produced by callers (uint32 argument)
}

func sectionDupTail(r *gen.Rand, seed uint64) {
	var ns []int
	lim := gen.Scale(70, 520)
	for n := 1; n <= lim; n++ {
		ns = append(ns, n)
	}
	for i := 0; i < gen.Scale(6, 200); i++ {
		ns = append(ns, lim+r.Intn(gen.Scale(2500, 3500)))
	}
	for _, n := range ns {
		xs := (&leafList{}).gen(seed+4, 0, n)
		var ks []int
		for k := 1; k <= n; k *= 2 {
			ks = append(ks, k)
		}
		if n <= gen.Scale(24, 40) {
			ks = ks[:0]
			for k := 1; k <= n; k++ {
				ks = append(ks, k)
			}
		} else if n <= lim {
			ks = append(ks, 3, n, 1+r.Intn(n))
		} else {
			// large lists: the one root-preserving tail length (lowest set bit of n), 1, and a random one
			ks = []int{n & -n, 1, 1 + r.Intn(n)}
		}
		checkDupTail(xs, ks)
	}
	// interior duplicates (not a tail pattern): flagged as well, roots differ
	for i := 0; i < gen.Scale(20, 200); i++ {
		n := 2 + r.Intn(200)
		l := (&leafList{}).gen(seed+5, 0, n)
		l.dupTail(1 + r.Intn(n))
		l.gen(seed+6, 0, 1+r.Intn(50))
		opComp(l, 1, 0)
	}
	// nil leaves: GetHashFromTwoHash returns nil
	for _, n := range []int{1, 2, 3, 5, 8} {
		l := (&leafList{}).gen(seed+7, 0, n).nilLeaf().gen(seed+8, 0, n/2)
		opComp(l, 3, uint32(n/2))
		opRoot(l)
	}
}

func sectionMulti(r *gen.Rand) {
	checkMulti(&txList{})
	for shape := 0; shape <= 5; shape++ {
		for n := 1; n <= gen.Scale(12, 40); n++ {
			checkMulti(genTxList(r, shape, n))
		}
		for i := 0; i < gen.Scale(8, 80); i++ {
			checkMulti(genTxList(r, shape, 13+r.Intn(gen.Scale(300, 700))))
		}
	}
	// more than 80 child chains: the top level goes through the chunked path; big single chains too
	for _, n := range []int{81, 97, 130, 200, 333} {
		checkMulti(genTxList(r, 4, n))
	}
	for i := 0; i < gen.Scale(3, 20); i++ {
		checkMulti(genTxList(r, 0, 500+r.Intn(1500)))
		checkMulti(genTxList(r, 2, 81+r.Intn(1500)))
	}
}

// sectionDupCheck: util.DelDupTx (the in-block part of the duplicate-transaction check of PreExecBlock)
// on lists of real transactions with repeats; a list is rejected (ErrTxDup for a peer block) iff it shrinks.
// Predicate: every duplicated-tail list — the lists that share their root with a shorter list — is rejected.
func sectionDupCheck(r *gen.Rand) {
	for i := 0; i < gen.Scale(60, 600); i++ {
		m := 1 + r.Intn(12)
		pool := make([]*types.Transaction, m)
		for j := range pool {
			pool[j] = mkTx(r, mainExecs[r.Intn(len(mainExecs))])
		}
		n := 1 + r.Intn(30)
		var txs []*types.Transaction
		switch i % 3 {
		case 0: // no repeats
			if n > m {
				n = m
			}
			for _, j := range r.Perm(m)[:n] {
				txs = append(txs, pool[j])
			}
		case 1: // random repeats
			for j := 0; j < n; j++ {
				txs = append(txs, pool[r.Intn(m)])
			}
		default: // duplicated tail of a duplicate-free list
			txs = append(txs, pool...)
			k := m & -m
			if r.Bool() {
				k = 1 + r.Intn(m)
			}
			txs = append(txs, pool[m-k:]...)
		}
		var hs [][]byte
		var caches []*types.TransactionCache
		seen := map[string]bool{}
		hasDup := false
		for _, tx := range txs {
			h := tx.Hash()
			hs = append(hs, h)
			if seen[string(h)] {
				hasDup = true
			}
			seen[string(h)] = true
			caches = append(caches, types.NewTransactionCache(tx))
		}
		var kept [][]byte
		res := gen.Guard(func() string {
			for _, c := range util.DelDupTx(caches) {
				kept = append(kept, c.Hash())
			}
			rej := 0
			if len(kept) != len(txs) {
				rej = 1
			}
			return fmt.Sprintf("%s %d", hxList(kept), rej)
		})
		out.Op("deldup "+hxList(hs), res)
		out.Stat("dupcheck_lists", 1)
		rejected := len(kept) != len(txs)
		if rejected {
			out.Stat("dupcheck_rejected", 1)
		}
		if hasDup != rejected {
			out.Pred("C18|DelDupTx|list-with-repeated-tx-not-shortened", fmt.Sprintf("n=%d kept=%d", len(txs), len(kept)))
		}
		// a list with the same (single-layer) root as a strictly shorter prefix must be rejected
		if i%3 == 2 {
			full := func(ts []*types.Transaction) [][]byte {
				var o [][]byte
				for _, t := range ts {
					o = append(o, t.FullHash())
				}
				return o
			}
			if bytes.Equal(refRoot(full(txs)), refRoot(full(pool))) {
				out.Stat("dupcheck_same_root_as_prefix", 1)
				if !rejected {
					out.Pred("C18|PreExecBlock|duplicated-tail-list-passes-dup-check", fmt.Sprintf("m=%d n=%d", m, len(txs)))
				}
			}
		}
	}
}

func replay(lines []string) {
	for _, line := range lines {
		f := strings.Fields(line)
		bad := func() { out.Op(line, "bad-op") }
		if len(f) == 0 {
			bad()
			continue
		}
		switch f[0] {
		case "root":
			if len(f) != 3 {
				bad()
				continue
			}
			l, ok := parseSpec(f[2])
			if !ok {
				bad()
				continue
			}
			// the worker count of a replayed line is the one of this process
			checkRoots(l)
		case "comp":
			if len(f) != 4 {
				bad()
				continue
			}
			fl, e1 := strconv.Atoi(f[1])
			pos, e2 := strconv.ParseUint(f[2], 10, 32)
			l, ok := parseSpec(f[3])
			if e1 != nil || e2 != nil || !ok {
				bad()
				continue
			}
			if fl == 2 {
				checkBranch(l, uint32(pos), refRoot(l.leaves))
			} else {
				opComp(l, fl, uint32(pos))
			}
		case "dup":
			// "dup <k> <spec>": replay form of the duplicated-tail predicate
			if len(f) != 3 {
				bad()
				continue
			}
			k, e1 := strconv.Atoi(f[1])
			l, ok := parseSpec(f[2])
			if e1 != nil || !ok {
				bad()
				continue
			}
			checkDupTail(l, []int{k})
		default:
			bad()
		}
	}
}

func main() {
	defer out.Flush()
	cfg = types.NewChain33Config(types.GetDefaultCfgstring())
	if !cfg.IsFork(1, "ForkRootHash") {
		fmt.Fprintln(os.Stderr, "ForkRootHash not active at height 1 in the default config")
		os.Exit(2)
	}
	out.Stat(fmt.Sprintf("runs_with_ncpu_%d", ncpu), 1)
	if lines := gen.ReplayLines(); lines != nil {
		replay(lines)
		return
	}
	part := "all"
	if len(os.Args) > 1 {
		part = os.Args[1]
	}
	if part == "node" {
		runNode()
		return
	}
	seed := gen.Seed()
	// the leaf lists of sectionRoots must be identical in every run of one check (the orchestrator
	// compares the roots across worker counts), so this section draws from its own generator.
	sectionRoots(gen.New(seed*7919+1), seed)
	if part == "all" || part == "multi" {
		sectionMulti(gen.New(seed*7919 + 2))
	}
	if part == "all" {
		r := gen.New(seed*7919 + 3)
		sectionBranches(r, seed)
		sectionDupTail(r, seed)
		sectionDupCheck(gen.New(seed*7919 + 4))
	}
	l := (&leafList{}).gen(seed, 0, 6)
	c, _ := computation(l.clone().dupTail(2), 1, 0)
	out.Sample(fmt.Sprintf("ncpu=%d root(6 leaves)=%s root(6 leaves + last 2 repeated)=%s mutated=%v", ncpu, hx(refRoot(l.leaves)), hx(c.root), c.mutated))
}
