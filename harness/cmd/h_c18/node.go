// node part of h_c18 (arg "node"): drives the real proof path of a node: blocks with mixed main/para-chain transactions are
// minted, delivered to a non-mining testnode through BlockChain.ProcessBlock (as a peer would), and for
// every transaction BlockChain.ProcQueryTxMsg (-> getMultiLayerProofs, LoadParaTxByHeight, the stored
// para-tx table) is asked for the inclusion proof, which is verified against the TxHash of the stored
// block header exactly as a light client does.
//
// Lines: "multi <ncpu> <execerhex>:<fullhash>,…" -> "<TxHash of the header> <title>:<start>:<count>:<child hash>;…"
// (children read back from the node's para-tx table) — compared with the Lean model of calcMultiLayerMerkleInfo.
package main

import (
	"bytes"
	"fmt"
	"os"
	"runtime"
	"sort"
	"strings"

	"github.com/33cn/chain33/common/crypto"
	"github.com/33cn/chain33/common/log/log15"
	"github.com/33cn/chain33/common/merkle"
	_ "github.com/33cn/chain33/system"
	"github.com/33cn/chain33/types"
	"github.com/33cn/chain33/util"
	"github.com/33cn/chain33/util/testnode"

	"verifharness/internal/gen"
)

type node struct {
	mock *testnode.Chain33Mock
	cfg  *types.Chain33Config
	priv crypto.PrivKey
}

func newNode() *node {
	cfg := testnode.GetDefaultConfig()
	cfg.GetModuleConfig().Consensus.Minerstart = false
	if d := os.Getenv("VERIF_TMP"); d != "" {
		os.Setenv("TMPDIR", d)
	}
	mock := testnode.NewWithConfig(cfg, nil)
	if mock == nil {
		panic("testnode")
	}
	return &node{mock: mock, cfg: cfg, priv: mock.GetGenesisKey()}
}

// mint builds a block on parent with txs in exactly the given order. TxHash and StateHash are the ones
// the real execution path computes (PreExecBlock with errReturn=false sets TxHash to the root of the
// *sorted* list after ForkRootHash), nothing is committed.
func (n *node) mint(parent *types.Block, txs []*types.Transaction) (*types.Block, error) {
	b := &types.Block{}
	b.Height = parent.Height + 1
	b.BlockTime = parent.BlockTime + 1
	b.ParentHash = parent.Hash(n.cfg)
	b.Difficulty = parent.Difficulty
	for _, tx := range txs {
		b.Txs = append(b.Txs, tx.Clone())
	}
	detail, _, err := util.PreExecBlock(n.mock.GetClient(), parent.StateHash, b, false, true, false)
	if err != nil {
		return nil, err
	}
	_ = util.ExecKVSetRollback(n.mock.GetClient(), detail.Block.StateHash)
	if len(detail.Block.Txs) != len(txs) {
		return nil, fmt.Errorf("%d of %d txs dropped", len(txs)-len(detail.Block.Txs), len(txs))
	}
	return detail.Block, nil
}

func (n *node) deliver(b *types.Block) (bool, error) {
	_, main, _, err := n.mock.GetBlockChain().ProcessBlock(false, &types.BlockDetail{Block: types.Clone(b).(*types.Block)}, "peer1", true, 0)
	return main, err
}

func isSorted(txs []*types.Transaction) bool {
	s := types.TransactionSort(txs)
	for i := range txs {
		if !bytes.Equal(s[i].Hash(), txs[i].Hash()) {
			return false
		}
	}
	return true
}

// verifyProof is what a light client does with TransactionDetail.TxProofs and the block header.
func verifyProof(d *types.TransactionDetail, txHash []byte) string {
	ps := d.GetTxProofs()
	switch len(ps) {
	case 0:
		return "no-proof"
	case 1:
		r := merkle.GetMerkleRootFromBranch(ps[0].Proofs, d.FullHash, ps[0].Index)
		if !bytes.Equal(r, txHash) {
			return "root-mismatch"
		}
		return "ok"
	case 2:
		r1 := merkle.GetMerkleRootFromBranch(ps[0].Proofs, d.FullHash, ps[0].Index)
		if !bytes.Equal(r1, ps[0].RootHash) {
			return "child-root-mismatch"
		}
		r2 := merkle.GetMerkleRootFromBranch(ps[1].Proofs, r1, ps[1].Index)
		if !bytes.Equal(r2, txHash) {
			return "root-mismatch"
		}
		return "ok"
	}
	return "too-many-proofs"
}

func (n *node) checkBlock(height int64, kind string) {
	chain := n.mock.GetBlockChain()
	bd, err := chain.GetBlock(height)
	if err != nil {
		out.Pred("C18|node|stored-block-unreadable", fmt.Sprintf("height=%d %v", height, err))
		return
	}
	b := bd.Block
	sorted := isSorted(b.Txs)
	out.Stat("node_blocks_"+kind, 1)
	if sorted {
		out.Stat("node_blocks_stored_sorted", 1)
	} else {
		out.Stat("node_blocks_stored_unsorted", 1)
	}
	// header root = multi-layer root of the sorted list (what PreExecBlock enforces)
	if r := merkle.CalcMerkleRoot(n.cfg, height, types.TransactionSort(b.Txs)); !bytes.Equal(r, b.TxHash) {
		out.Pred("C18|node|header-txhash-ne-root-of-sorted-txs", fmt.Sprintf("height=%d", height))
	}
	// op line for the model: children as recorded in the node's para-tx table
	if sorted {
		items, err := chain.LoadParaTxByHeight(height, "", 0, 1)
		if err == nil {
			its := items.Items
			sort.Slice(its, func(i, j int) bool { return its[i].ChildHashIndex < its[j].ChildHashIndex })
			var cs []string
			for _, it := range its {
				cs = append(cs, fmt.Sprintf("%s:%d:%d:%s", hx([]byte(it.Title)), it.StartIndex, it.TxCount, hx(it.ChildHash)))
			}
			var ts []string
			for _, tx := range b.Txs {
				ts = append(ts, hx(tx.Execer)+":"+hx(tx.FullHash()))
			}
			out.Op(fmt.Sprintf("multi %d %s", runtime.NumCPU(), strings.Join(ts, ",")), hx(b.TxHash)+" "+strings.Join(cs, ";"))
		}
	}
	for i, tx := range b.Txs {
		d, err := chain.ProcQueryTxMsg(tx.Hash())
		out.Stat("node_proofs_queried", 1)
		if err != nil {
			out.Pred("C18|ProcQueryTxMsg|error", fmt.Sprintf("height=%d index=%d %v", height, i, err))
			continue
		}
		if !bytes.Equal(d.FullHash, tx.FullHash()) || d.Index != int64(i) {
			out.Pred("C18|ProcQueryTxMsg|wrong-tx", fmt.Sprintf("height=%d index=%d got=%d", height, i, d.Index))
			continue
		}
		res := verifyProof(d, b.TxHash)
		out.Stat("node_proof_"+res, 1)
		if res != "ok" {
			if sorted {
				out.Pred("C18|ProcQueryTxMsg|proof-"+res, fmt.Sprintf("height=%d index=%d title=%s txs=%d", height, i, titleOf(tx), len(b.Txs)))
			} else {
				out.Pred("C18|ProcQueryTxMsg|unsorted-block-proof-does-not-verify", fmt.Sprintf("%s height=%d index=%d title=%s txs=%d order=%s", res, height, i, titleOf(tx), len(b.Txs), order(b.Txs)))
			}
		}
	}
}

// tryDuplicatedTail: CVE-2012-2459 on a node. For a minted (not yet delivered) block b whose tx count n is
// not a power of two, the block b' = b with the last lowbit(n) transactions repeated has the same TxHash.
// Computation's mutated flag is not consulted anywhere on the validation path; what must reject b' is the
// duplicate-transaction check of PreExecBlock (ErrTxDup). If the node accepts b', that is a violation.
func (n *node) tryDuplicatedTail(b *types.Block) {
	cnt := len(b.Txs)
	if cnt < 3 || cnt&(cnt-1) == 0 || !isSorted(b.Txs) || titleOf(b.Txs[0]) != titleOf(b.Txs[cnt-1]) {
		return
	}
	k := cnt & -cnt
	d := types.Clone(b).(*types.Block)
	for _, tx := range b.Txs[cnt-k:] {
		d.Txs = append(d.Txs, tx.Clone())
	}
	if !bytes.Equal(merkle.CalcMerkleRoot(n.cfg, d.Height, d.Txs), b.TxHash) {
		out.Stat("node_duptail_root_differs", 1)
		return
	}
	out.Stat("node_duptail_blocks_same_txhash", 1)
	before := n.mock.GetBlockChain().GetBlockHeight()
	var main bool
	var err error
	if gen.Guard(func() string { main, err = n.deliver(d); return "" }) == "panic" {
		out.Pred("C18|ProcessBlock|panic-on-duplicated-tail-block", fmt.Sprintf("height=%d txs=%d repeated=%d", b.Height, cnt, k))
		return
	}
	after := n.mock.GetBlockChain().GetBlockHeight()
	if err == nil || main || after != before {
		out.Pred("C18|ProcessBlock|duplicated-tail-block-accepted", fmt.Sprintf("height=%d txs=%d repeated=%d main=%v err=%v", b.Height, cnt, k, main, err))
		return
	}
	out.Stat("node_duptail_rejected_"+strings.ReplaceAll(err.Error(), " ", "_"), 1)
}

func order(txs []*types.Transaction) string {
	var s []string
	for _, tx := range txs {
		t := titleOf(tx)
		if len(s) == 0 || s[len(s)-1] != t {
			s = append(s, t)
		}
	}
	if len(s) > 8 {
		s = append(s[:8], "…")
	}
	return strings.Join(s, ">")
}

func (n *node) tx(execer string) *types.Transaction {
	tx := util.CreateTxWithExecer(n.cfg, n.priv, execer)
	if tx == nil {
		panic("tx " + execer)
	}
	return tx
}

// runNode is the "node" part of h_c18.
func runNode() {
	log15.Root().SetHandler(log15.DiscardHandler())
	r := gen.New(gen.Seed()*7919 + 11)
	n := newNode()
	defer n.mock.Close()
	if !n.cfg.IsFork(1, "ForkRootHash") {
		fmt.Fprintln(os.Stderr, "ForkRootHash not active")
		os.Exit(2)
	}
	paraExec := func(t int) string {
		return fmt.Sprintf("user.p.t%d.%s", t, []string{"none", "coins", "user.x"}[r.Intn(3)])
	}
	nblocks := gen.Scale(14, 80)
	for bi := 0; bi < nblocks; bi++ {
		kind := []string{"main-only", "sorted-mixed", "one-para", "unsorted"}[bi%4]
		var txs []*types.Transaction
		nt := 1 + r.Intn(gen.Scale(12, 40))
		switch kind {
		case "main-only":
			for i := 0; i < nt; i++ {
				txs = append(txs, n.tx("none"))
			}
		case "one-para":
			for i := 0; i < nt; i++ {
				txs = append(txs, n.tx("user.p.t7.none"))
			}
		default:
			titles := 1 + r.Intn(4)
			for i := 0; i < nt+1; i++ {
				if r.Chance(1, 3) {
					txs = append(txs, n.tx("none"))
				} else {
					txs = append(txs, n.tx(paraExec(r.Intn(titles))))
				}
			}
			// make sure both a main and a para tx are present
			txs = append(txs, n.tx("none"), n.tx(paraExec(0)))
			if kind == "sorted-mixed" {
				txs = types.TransactionSort(txs)
			} else {
				// a producer that does not sort: para-chain txs first, or interleaved
				p := r.Perm(len(txs))
				sh := make([]*types.Transaction, len(txs))
				for i, j := range p {
					sh[i] = txs[j]
				}
				txs = sh
				if isSorted(txs) {
					txs[0], txs[len(txs)-1] = txs[len(txs)-1], txs[0]
				}
			}
		}
		parent := n.mock.GetLastBlock()
		b, err := n.mint(parent, txs)
		if err != nil {
			out.Note(fmt.Sprintf("mint %s: %v", kind, err))
			out.Stat("node_mint_failed", 1)
			continue
		}
		n.tryDuplicatedTail(b)
		main, err := n.deliver(b)
		if err != nil || !main {
			out.Stat("node_blocks_rejected_"+kind, 1)
			out.Note(fmt.Sprintf("deliver %s: main=%v err=%v", kind, main, err))
			continue
		}
		n.checkBlock(b.Height, kind)
	}
}
