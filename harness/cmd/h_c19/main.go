// h_c19 drives the validity checks of common/address (+ eth/btc drivers) and common/crypto with
// generated *histories* of queries inside one process and compares every answer with
//   (1) the answer of the Lean model (which is told each driver's own verdict for the address), and
//   (2) the answer the same query gets in other histories / after the caches were dropped / on
//       repeated evaluation (Go map order) — the C19 predicate: answers depend only on the input,
//       the height and the configuration.
// VERIF_C19_MODE=cfgA|cfgB selects a configuration of driver enable heights (one per process, as
// address.Init is process-global).
package main

import (
	"encoding/hex"
	"fmt"
	"os"
	"sort"
	"strings"

	"github.com/33cn/chain33/common/address"
	"github.com/33cn/chain33/common/crypto"
	cryptocli "github.com/33cn/chain33/common/crypto/client"
	_ "github.com/33cn/chain33/system/address"
	_ "github.com/33cn/chain33/system/crypto/init"
	"github.com/decred/base58"

	"verifharness/internal/gen"
	_ "verifharness/internal/quiet"
)

var out = gen.NewOut()

func errName(e error) string {
	if e == nil {
		return "ok"
	}
	return strings.ReplaceAll(e.Error(), " ", "_")
}

var driverIDs []int32

// verdict of each registered driver for addr, in id order ("-" for an unregistered id is not emitted)
func verdicts(addr string) []string {
	var v []string
	for _, id := range driverIDs {
		v = append(v, errName(address.MustLoadDriver(id).ValidateAddr(addr)))
	}
	return v
}

type query struct {
	addr   int
	height int64
}

func b58(ver byte, payload []byte, goodChecksum bool, long bool) string {
	b := append([]byte{ver}, payload...)
	if long {
		b = append(b, 1, 2, 3)
	}
	ck := doubleSha(b)
	if !goodChecksum {
		ck[0] ^= 0x55
	}
	b = append(b, ck[:4]...)
	return base58.Encode(b)
}

func genAddrs(r *gen.Rand, n int) []string {
	var l []string
	for len(l) < n {
		p := r.Bytes(20)
		switch r.Pick(4, 3, 3, 2, 2, 2, 2, 1, 1, 1) {
		case 0:
			l = append(l, b58(0, p, true, false)) // valid normal
		case 1:
			l = append(l, b58(5, p, true, false)) // valid multisig
		case 2: // valid eth (mixed case / prefix variants)
			h := hex.EncodeToString(p)
			switch r.Intn(4) {
			case 0:
				l = append(l, "0x"+h)
			case 1:
				l = append(l, "0x"+strings.ToUpper(h))
			case 2:
				l = append(l, h)
			default:
				l = append(l, "0X"+h)
			}
		case 3:
			l = append(l, b58(0, p, false, false)) // bad checksum
		case 4:
			l = append(l, b58(byte(1+r.Intn(4)), p, true, false)) // wrong version
		case 5:
			l = append(l, b58(0, p[:10+r.Intn(9)], true, false)) // short
		case 6:
			l = append(l, "0x"+hex.EncodeToString(p)[:39-r.Intn(3)]) // short hex
		case 7:
			l = append(l, b58(0, p, true, true)) // long payload
		case 8:
			l = append(l, "0OIl"+b58(0, p, true, false)) // non-base58 characters
		default:
			l = append(l, []string{"", "0x", "1", "zzzzzz"}[r.Intn(4)])
		}
		// a string that is another candidate with one small control byte in front (such strings are
		// what any composite cache key "<tag byte> + address" can be confused with)
		if len(l) > 0 && len(l) < n && r.Chance(1, 3) {
			base := l[r.Intn(len(l))]
			l = append(l, string([]byte{byte(1 + r.Intn(15))})+base)
		}
	}
	return l
}

func main() {
	defer out.Flush()
	mode := os.Getenv("VERIF_C19_MODE")
	cfg := &address.Config{EnableHeight: map[string]int64{}}
	switch mode {
	case "cfgB":
		cfg.EnableHeight["eth"] = 100
		cfg.EnableHeight["btcMultiSign"] = 40
	case "cfgC":
		cfg.EnableHeight["eth"] = -1
	}
	address.Init(cfg)
	for id := range address.GetDriverList() {
		driverIDs = append(driverIDs, id)
	}
	sort.Slice(driverIDs, func(i, j int) bool { return driverIDs[i] < driverIDs[j] })
	// tell the model the configuration: ids and enable heights (read back through LoadDriver)
	var cl []string
	for _, id := range driverIDs {
		eh := enableHeightOf(id)
		cl = append(cl, fmt.Sprintf("%d:%d", id, eh))
	}
	out.Op("cfg "+strings.Join(cl, ","), "ok")

	r := gen.New(gen.Seed())
	heights := []int64{-1, 0, 1, 39, 40, 41, 99, 100, 101, 1000000}
	nHist := gen.Scale(60, 1500)
	for hi := 0; hi < nHist; hi++ {
		addrs := genAddrs(r, 6+r.Intn(6))
		answers := map[query]string{}
		resetCaches()
		out.Op("reset", "ok")
		nq := 10 + r.Intn(30)
		for k := 0; k < nq; k++ {
			q := query{r.Intn(len(addrs)), heights[r.Intn(len(heights))]}
			if r.Chance(1, 12) {
				resetCaches()
				out.Op("reset", "ok")
			}
			a := addrs[q.addr]
			res := gen.Guard(func() string { return errName(address.CheckAddress(a, q.height)) })
			out.Op(fmt.Sprintf("check %d %d %s", q.addr, q.height, strings.Join(verdicts(a), ",")), res)
			out.Stat("check_queries", 1)
			out.Stat("check_result_"+res, 1)
			if prev, ok := answers[q]; ok && prev != res {
				out.Pred("C19|address.CheckAddress|answer-depends-on-history", fmt.Sprintf("mode=%s addr=%q height=%d: %s earlier, %s now", mode, a, q.height, prev, res))
			}
			answers[q] = res
		}
		// every answer must equal the answer of a history-free evaluation, repeated (map order)
		for q, res := range answers {
			a := addrs[q.addr]
			seen := map[string]bool{}
			for rep := 0; rep < 12; rep++ {
				resetCaches()
				seen[errName(address.CheckAddress(a, q.height))] = true
			}
			out.Stat("fresh_evaluations", 12)
			if len(seen) > 1 {
				out.Pred("C19|address.CheckAddress|answer-depends-on-map-order", fmt.Sprintf("mode=%s addr=%q height=%d: %v", mode, a, q.height, keys(seen)))
			} else if !seen[res] {
				out.Pred("C19|address.CheckAddress|answer-depends-on-history", fmt.Sprintf("mode=%s addr=%q height=%d: %s in the history, %v fresh", mode, a, q.height, res, keys(seen)))
			}
		}
		resetCaches()
		out.Op("reset", "ok")
	}
	pubkeyHistory(r)
	cryptoEnable(r)
	out.Sample(fmt.Sprintf("mode=%s drivers=%v", mode, cl))
}

func keys(m map[string]bool) []string {
	var l []string
	for k := range m {
		l = append(l, k)
	}
	sort.Strings(l)
	return l
}

// enable height of a driver, recovered from LoadDriver's answers (no accessor needed)
func enableHeightOf(id int32) int64 {
	if _, err := address.LoadDriver(id, 1<<40); err != nil {
		return -1
	}
	lo, hi := int64(0), int64(1<<40)
	for lo < hi {
		mid := (lo + hi) / 2
		if _, err := address.LoadDriver(id, mid); err == nil {
			hi = mid
		} else {
			lo = mid + 1
		}
	}
	return lo
}

// which address a public key maps to must not depend on what was asked before (eth driver caches
// the formatted text; the format depends on the current height through ForkFormatAddressKey)
func pubkeyHistory(r *gen.Rand) {
	api := newForkAPI(100) // ForkFormatAddressKey at height 100
	cryptocli.SetQueueAPI(api)
	eth := address.MustLoadDriver(2)
	for k := 0; k < gen.Scale(40, 600); k++ {
		pub := append([]byte{2 + byte(r.Intn(2))}, r.Bytes(32)...)
		h1, h2 := int64(50), int64(150)
		if r.Bool() {
			h1, h2 = h2, h1
		}
		cryptocli.SetCurrentBlock(h1, 0)
		a1 := eth.PubKeyToAddr(pub)
		cryptocli.SetCurrentBlock(h2, 0)
		a2 := eth.PubKeyToAddr(pub) // answered from the cache
		resetCaches()
		a2fresh := eth.PubKeyToAddr(pub) // history-free answer at h2
		out.Op(fmt.Sprintf("pub2addr %d %d %d", k, b01(h1 >= 100), b01(h2 >= 100)), fmt.Sprintf("%d %d", b01(a1 == strings.ToLower(a1)), b01(a2 == strings.ToLower(a2))))
		out.Stat("pubkey_queries", 1)
		if a2 != a2fresh {
			out.Pred("C19|eth.PubKeyToAddr|answer-depends-on-history", fmt.Sprintf("pub=%x first asked at height %d: %s; at height %d cached: %s, fresh: %s", pub, h1, a1, h2, a2, a2fresh))
		}
	}
	cryptocli.SetCurrentBlock(0, 0)
}

func b01(b bool) int {
	if b {
		return 1
	}
	return 0
}

// crypto.Load / signature-type enablement is a pure function of (name, height, config)
func cryptoEnable(r *gen.Rand) {
	names := []string{"secp256k1", "ed25519", "sm2", "secp256r1", "secp256k1eth", "none", "bls"}
	type k struct {
		n string
		h int64
	}
	ans := map[k]string{}
	for i := 0; i < gen.Scale(400, 20000); i++ {
		q := k{names[r.Intn(len(names))], []int64{-1, 0, 1, 1000, 1 << 40}[r.Intn(5)]}
		_, err := crypto.Load(q.n, q.h)
		res := errName(err)
		if p, ok := ans[q]; ok && p != res {
			out.Pred("C19|crypto.Load|answer-depends-on-history", fmt.Sprintf("%v: %s then %s", q, p, res))
		}
		ans[q] = res
		out.Stat("crypto_load_queries", 1)
	}
}
