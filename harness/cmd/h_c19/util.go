package main

import (
	"crypto/sha256"

	"github.com/33cn/chain33/client"
	"github.com/33cn/chain33/client/mocks"
	"github.com/33cn/chain33/common/address"
	ethaddr "github.com/33cn/chain33/system/address/eth"
	"github.com/33cn/chain33/types"
)

func doubleSha(b []byte) []byte {
	h := sha256.Sum256(b)
	h2 := sha256.Sum256(h[:])
	return h2[:]
}

// resetCaches drops the process-wide validity caches (hooks, build tag verif).
func resetCaches() {
	address.VerifResetCaches()
	ethaddr.VerifResetCaches()
}

// newForkAPI returns a QueueProtocolAPI whose config has ForkFormatAddressKey at the given height.
func newForkAPI(forkHeight int64) client.QueueProtocolAPI {
	cfg := types.NewChain33Config(types.GetDefaultCfgstring())
	cfg.SetFork(address.ForkFormatAddressKey, forkHeight)
	api := new(mocks.QueueProtocolAPI)
	api.On("GetConfig").Return(cfg)
	return api
}
