// h_c20 drives common/difficulty on generated and edge compact values / integers.
// Lines: "tobig <c>", "tocompact <n>", "work <c>" (decimal) -> decimal result.
// Property predicates (C20) are evaluated on the implementation itself.
package main

import (
	"fmt"
	"math/big"
	"strings"

	"github.com/33cn/chain33/common/difficulty"

	"verifharness/internal/gen"
)

var out = gen.NewOut()

func toBig(c uint32) *big.Int {
	return difficulty.CompactToBig(c)
}

func opToBig(c uint32) *big.Int {
	var v *big.Int
	res := gen.Guard(func() string { v = toBig(c); return v.String() })
	out.Op(fmt.Sprintf("tobig %d", c), res)
	return v
}

func opToCompact(n *big.Int) (uint32, bool) {
	var c uint32
	res := gen.Guard(func() string { c = difficulty.BigToCompact(n); return fmt.Sprint(c) })
	out.Op("tocompact "+n.String(), res)
	return c, res != "panic"
}

func opWork(c uint32) *big.Int {
	var v *big.Int
	res := gen.Guard(func() string { v = difficulty.CalcWork(c); return v.String() })
	out.Op(fmt.Sprintf("work %d", c), res)
	return v
}

// predicate 1: re-encoding a decoded compact is canonical: value-preserving and idempotent.
func checkCompact(c uint32) {
	v := opToBig(c)
	if v == nil {
		out.Pred("C20|CompactToBig|panic", fmt.Sprintf("c=%d", c))
		return
	}
	f, ok := opToCompact(new(big.Int).Set(v))
	if !ok {
		out.Pred("C20|BigToCompact|panic", fmt.Sprintf("c=%d", c))
		return
	}
	v2 := opToBig(f)
	if v2.Cmp(v) != 0 {
		out.Pred("C20|recompact|value-changed", fmt.Sprintf("c=%d f=%d v=%s v2=%s", c, f, v, v2))
	}
	f2, _ := opToCompact(new(big.Int).Set(v2))
	if f2 != f {
		out.Pred("C20|recompact|not-idempotent", fmt.Sprintf("c=%d f=%d f2=%d", c, f, f2))
	}
	out.Stat("compact_checked", 1)
	out.Stat(fmt.Sprintf("exp_class_%s", expClass(c>>24)), 1)
}

func expClass(e uint32) string {
	switch {
	case e <= 3:
		return "le3"
	case e <= 34:
		return "4to34"
	default:
		return "gt34"
	}
}

func byteLen(n *big.Int) int { return len(n.Bytes()) }

// predicate 2: for n >= 0, decode(encode n) keeps exactly the precision of the mantissa:
// result <= n, and n - result < 256^(L-3+1) where the kept mantissa has >= 15 significant bits
// (23 bits, or 15 after the sign-bit shift); for byteLen <= 3 (no shift) it is exact.
// The bound is only required while the exponent fits its 8-bit field: byte length <= 254
// (recorded known limit, DESIGN.md 5.1 S-C20; targets are <= 2^256).
func checkBig(n *big.Int) {
	c, ok := opToCompact(new(big.Int).Set(n))
	if !ok {
		out.Pred("C20|BigToCompact|panic", "n="+n.String())
		return
	}
	r := opToBig(c)
	L := byteLen(n)
	out.Stat("big_checked", 1)
	out.Stat(fmt.Sprintf("bytelen_class_%s", lenClass(L)), 1)
	if n.Sign() < 0 {
		// the property quantifies over non-negative integers only; negative inputs are still
		// compared with the model (differential), no predicate.
		return
	}
	if L > 254 {
		out.Stat("big_over_254_bytes", 1)
		return
	}
	if r.Cmp(n) > 0 {
		out.Pred("C20|roundtrip|increased", fmt.Sprintf("n=%s r=%s", n, r))
		return
	}
	diff := new(big.Int).Sub(n, r)
	if L <= 3 {
		// up to three bytes: at most the low byte is lost (only when the sign bit forces a shift)
		lim := big.NewInt(256)
		if diff.Cmp(lim) >= 0 {
			out.Pred("C20|roundtrip|precision-small", fmt.Sprintf("n=%s r=%s", n, r))
		}
		if (L == 0 || n.Bytes()[0] < 0x80) && diff.Sign() != 0 {
			out.Pred("C20|roundtrip|inexact-small", fmt.Sprintf("n=%s r=%s", n, r))
		}
		return
	}
	// L > 3: mantissa = top 3 bytes (or top 2 bytes after shift); lost < 256^(L-3) resp. 256^(L-2)
	lim := new(big.Int).Lsh(big.NewInt(1), uint(8*(L-2)))
	if n.Bytes()[0] < 0x80 {
		lim = new(big.Int).Lsh(big.NewInt(1), uint(8*(L-3)))
	}
	if diff.Cmp(lim) >= 0 {
		out.Pred("C20|roundtrip|precision", fmt.Sprintf("n=%s r=%s", n, r))
	}
}

func lenClass(l int) string {
	switch {
	case l == 0:
		return "0"
	case l <= 3:
		return "1to3"
	case l <= 32:
		return "4to32"
	case l <= 254:
		return "33to254"
	default:
		return "ge255"
	}
}

// predicate 3: work is antitone in the target.
func checkWork(c1, c2 uint32) {
	t1, t2 := toBig(c1), toBig(c2)
	w1, w2 := opWork(c1), opWork(c2)
	out.Stat("work_pairs", 1)
	if t1.Sign() <= 0 || t2.Sign() <= 0 {
		return
	}
	if t1.Cmp(t2) <= 0 && w1.Cmp(w2) < 0 {
		out.Pred("C20|CalcWork|not-antitone", fmt.Sprintf("c1=%d c2=%d", c1, c2))
	}
	if t2.Cmp(t1) <= 0 && w2.Cmp(w1) < 0 {
		out.Pred("C20|CalcWork|not-antitone", fmt.Sprintf("c1=%d c2=%d", c2, c1))
	}
}

func replay(lines []string) {
	for _, l := range lines {
		f := strings.Fields(l)
		if len(f) != 2 {
			out.Op(l, "bad-op")
			continue
		}
		switch f[0] {
		case "tobig", "work":
			var c uint32
			if _, err := fmt.Sscan(f[1], &c); err != nil {
				out.Op(l, "bad-op")
				continue
			}
			if f[0] == "tobig" {
				checkCompact(c)
			} else {
				checkWork(c, c)
			}
		case "tocompact":
			n, ok := new(big.Int).SetString(f[1], 10)
			if !ok {
				out.Op(l, "bad-op")
				continue
			}
			checkBig(n)
		default:
			out.Op(l, "bad-op")
		}
	}
}

func main() {
	defer out.Flush()
	if lines := gen.ReplayLines(); lines != nil {
		replay(lines)
		return
	}
	r := gen.New(gen.Seed())
	mantEdges := []uint32{0, 1, 0x7f, 0x80, 0xff, 0x100, 0x7fff, 0x8000, 0xffff, 0x10000, 0x7fffff, 0x7ffffe, 0x400000, 0x008000, 0x000080}
	// every exponent x sign x mantissa edges
	for e := uint32(0); e < 256; e++ {
		for _, s := range []uint32{0, 0x00800000} {
			for _, m := range mantEdges {
				checkCompact(e<<24 | s | m)
			}
			for i := 0; i < gen.Scale(4, 64); i++ {
				checkCompact(e<<24 | s | uint32(r.U64())&0x7fffff)
			}
		}
	}
	for i := 0; i < gen.Scale(20000, 2000000); i++ {
		checkCompact(uint32(r.U64()))
	}
	// integers by byte length 0..300, edges and random
	for l := 0; l <= 300; l++ {
		reps := gen.Scale(6, 200)
		for i := 0; i < reps; i++ {
			b := r.Bytes(l)
			if l > 0 {
				switch i % 6 {
				case 0:
					b[0] = 0x80
				case 1:
					b[0] = 0x7f
				case 2:
					b[0] = 0xff
				case 3:
					b[0] = 0x01
				default:
					if b[0] == 0 {
						b[0] = 1
					}
				}
			}
			n := new(big.Int).SetBytes(b)
			checkBig(n)
			if i%3 == 0 {
				checkBig(new(big.Int).Neg(n))
			}
		}
	}
	for i := 0; i < gen.Scale(2000, 100000); i++ {
		checkBig(new(big.Int).SetUint64(r.U64() >> uint(r.Intn(64))))
	}
	// work pairs: same exponent neighbours, random pairs, realistic targets
	for i := 0; i < gen.Scale(5000, 500000); i++ {
		c1 := uint32(r.U64()) &^ 0x00800000
		var c2 uint32
		switch r.Intn(3) {
		case 0:
			c2 = c1 + 1
		case 1:
			c2 = uint32(r.U64()) &^ 0x00800000
		default:
			c2 = (c1 & 0xff000000) | (uint32(r.U64()) & 0x7fffff)
		}
		checkWork(c1, c2)
	}
	out.Sample("tobig 486604799 -> " + toBig(486604799).String())
}
