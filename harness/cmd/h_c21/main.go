// h_c21 drives the real system/mempool.Mempool (fake blockchain/execs/rpc/p2p modules on a
// queue) with generated event histories: direct pushes, submissions, removals, add-block,
// del-block (rollback re-push), expiry sweeps, clock steps and queries; tiny capacities and
// per-sender limits, groups, all expiry kinds, and a pair of transactions whose 5-byte short
// hashes collide.  After every event the full bookkeeping state is printed (compared with the
// Lean model) and the C21 predicates are evaluated on the implementation itself.
package main

import (
	"fmt"
	"os"
	"strings"

	"verifharness/cmd/h_c21/mp"
	"verifharness/internal/gen"
)

var out = gen.NewOut()

func main() {
	defer out.Flush()
	if os.Getenv("VERIF_FIND_COLLISION") != "" {
		mp.FindCollision()
		return
	}
	h := mp.NewH(out, "C21")
	if lines := gen.ReplayLines(); lines != nil {
		h.Redo = true
		for _, l := range lines {
			h.Do(l)
		}
		h.EndHistory()
		return
	}
	r := gen.New(gen.Seed())
	if os.Getenv("VERIF_MODE") == "burst" {
		// concurrent histories: bursts of overlapping calls separated by quiescent points
		n := gen.Scale(40, 1200)
		for i := 0; i < n; i++ {
			burstHistory(h, r, i)
		}
		h.EndHistory()
		return
	}
	n := gen.Scale(200, 4000)
	for i := 0; i < n; i++ {
		history(h, r, i)
	}
	h.EndHistory()
}

func burstHistory(h *mp.H, r *gen.Rand, idx int) {
	g := mp.NewGen(h, r)
	g.Env(mp.GenEnv{CapMax: 8, PerMax: 3, LastMax: 4})
	g.DefineSome(r.Range(5, 12), idx%5 == 0)
	nev := r.Range(4, 14)
	for i := 0; i < nev; i++ {
		switch r.Pick(10, 2, 1, 1, 1, 1) {
		case 0:
			g.Burst()
		case 1:
			g.Push()
		case 2:
			g.AddBlock()
		case 3:
			g.Clock()
		case 4:
			g.Remove()
		case 5:
			g.DefineSome(r.Range(1, 3), false)
		}
	}
	if idx < 2 {
		out.Sample(strings.Join(g.Lines(), " ; "))
	}
}

func history(h *mp.H, r *gen.Rand, idx int) {
	g := mp.NewGen(h, r)
	g.Env(mp.GenEnv{CapMax: 8, PerMax: 3, LastMax: 4})
	g.DefineSome(r.Range(4, 12), idx%4 == 0)
	nev := r.Range(5, 60)
	for i := 0; i < nev; i++ {
		switch r.Pick(40, 12, 10, 6, 5, 8, 4, 6, 3) {
		case 0:
			g.Push()
		case 1:
			g.Remove()
		case 2:
			g.AddBlock()
		case 3:
			g.DelBlock()
		case 4:
			g.Sweep()
		case 5:
			g.Clock()
		case 6:
			h.Do("q")
		case 7:
			g.Submit()
		case 8:
			g.DefineSome(r.Range(1, 3), false)
		}
	}
	if idx < 2 {
		out.Sample(strings.Join(g.Lines(), " ; "))
	}
	_ = fmt.Sprint
}
