package mp

import (
	"fmt"
	"strings"
	"sync"
	"sync/atomic"

	"github.com/33cn/chain33/types"
)

// Trace validation for concurrent histories (DESIGN.md 1.6a): `burst a | b | c ...` runs up to six
// operations from separate goroutines released together; every invocation and response gets a
// global monotonic stamp.  The Lean driver must find a linearisation compatible with the
// real-time order (a before b iff a returned before b was invoked) in which the model's atomic
// steps give exactly the observed responses and end in exactly the observed pool state.
//
// burst sub-ops (each one lock-protected method of the Mempool):
//
//	push t<id> | rm t.. | rmblock t.. | sweep | size | txnum <snd>
type bev struct {
	op         string
	start, end int64
	resp       string
}

func (h *H) burstOp(f []string) string {
	m := h.E.Mem
	switch f[0] {
	case "push":
		rec := h.Reg.ByID[int(atoi(strings.TrimPrefix(f[1], "t")))]
		if rec == nil {
			return "bad-op"
		}
		return errStr(m.PushTx(rec.Tx))
	case "rm":
		var hashes [][]byte
		for _, id := range ids(f[1:]) {
			if mm := h.Reg.MemByID[id]; mm != nil {
				hashes = append(hashes, mm.Hash)
			}
		}
		return errStr(m.RemoveTxs(&types.TxHashList{Hashes: hashes}))
	case "rmblock":
		m.RemoveTxsOfBlock(h.blockOf(0, 0, ids(f[1:])))
		return "ok"
	case "sweep":
		m.VerifRemoveExpired()
		return "ok"
	case "size":
		return fmt.Sprint(m.Size())
	case "txnum":
		snd := int(atoi(f[1]))
		if snd >= len(h.Reg.Snds) {
			return "0"
		}
		return fmt.Sprint(m.TxNumOfAccount(h.Reg.Snds[snd]))
	}
	return "bad-op"
}

func (h *H) opBurst(line string) {
	body := strings.TrimSpace(strings.TrimPrefix(line, "burst"))
	var evs []*bev
	for _, part := range strings.Split(body, "|") {
		part = strings.Join(strings.Fields(part), " ")
		if part != "" {
			evs = append(evs, &bev{op: part})
		}
	}
	if len(evs) == 0 || len(evs) > 6 {
		h.emit(line, "bad-op")
		return
	}
	// make sure sender aliases used by txnum exist before goroutines read the registry
	var clk int64
	var ready int32
	n := int32(len(evs))
	gate := make(chan struct{})
	var wg sync.WaitGroup
	h.E.Tick()
	for _, e := range evs {
		wg.Add(1)
		go func(e *bev) {
			defer wg.Done()
			f := strings.Fields(e.op)
			<-gate
			// spin barrier: all goroutines reach their call within nanoseconds of each other
			atomic.AddInt32(&ready, 1)
			for spin := 0; atomic.LoadInt32(&ready) < n && spin < 2000000; spin++ {
			}
			e.start = atomic.AddInt64(&clk, 1)
			e.resp = h.burstOp(f)
			e.end = atomic.AddInt64(&clk, 1)
		}(e)
	}
	close(gate)
	wg.Wait()
	h.E.Tock()
	s := h.Dump()
	var parts []string
	overlap := 0
	for i, e := range evs {
		parts = append(parts, fmt.Sprintf("%d %d %s => %s", e.start, e.end, e.op, e.resp))
		for _, o := range evs[:i] {
			if !(o.end < e.start || e.end < o.start) {
				overlap++
			}
		}
	}
	full := fmt.Sprintf("burst %s ; %s ;; final %s", body, strings.Join(parts, " ;; "), s.Text)
	h.emit(full, "accepted | "+s.Text)
	h.checkInv(s, "burst")
	h.Out.Stat("burst_ops", int64(len(evs)))
	h.Out.Stat("burst_overlapping_pairs", int64(overlap))
}
