// Package mp is the shared harness library for C21/C22/C23: it stands up the real
// system/mempool.Mempool on a queue with fake blockchain / execs / rpc / p2p modules
// (as the repository's own tests do), drives it with a small op language, and prints
// canonical observations.
package mp

import (
	"fmt"
	"strings"
	"sync"
	"time"

	"github.com/33cn/chain33/common/log"
	"github.com/33cn/chain33/queue"
	"github.com/33cn/chain33/system/mempool"
	"github.com/33cn/chain33/types"

	_ "github.com/33cn/chain33/system/address"
	_ "github.com/33cn/chain33/system/crypto/init"
	_ "github.com/33cn/chain33/system/dapp/init"
)

// EnvCfg are the per-history configuration knobs (all appear on the `env` op line).
type EnvCfg struct {
	Cap     int64 // SimpleQueue capacity
	ShMax   int64 // types.Mempool.PoolCacheSize (short-hash cache capacity)
	Per     int64 // MaxTxNumPerAccount
	Last    int64 // MaxTxLast
	MinFee  int64 // MinTxFeeRate
	MaxRate int64 // MaxTxFeeRate
	Level   bool  // IsLevelFee
	NoExec  bool  // DisableExecCheck
	Para    bool  // para-chain node (Title user.p.verif.): IsForward2MainChainTx applies
	Height  int64
	BlkTime int64
	Now     int64
}

// Env is one mempool instance with its fake neighbours.
type Env struct {
	Cfg   EnvCfg
	CCfg  *types.Chain33Config
	Q     queue.Queue
	Mem   *mempool.Mempool
	Cli   queue.Client
	mu    sync.Mutex
	hdr   *types.Header
	chain map[string]bool
	nonce map[string]int64
	exbad map[string]bool
	now   int64
	// Tainted is set when an op took so long in real time that the logical clock may have ticked,
	// or when the env lived long enough for the mempool's one-minute sweep ticker to fire.
	Tainted bool
	born    time.Time
}

var (
	cfgOnce sync.Once
	baseCfg string
)

func init() {
	queue.DisableLog()
	log.SetLogLevel("crit")
}

// NewChainCfg builds a fresh chain config (default "local" config of the repository).
func NewChainCfg() *types.Chain33Config {
	return types.NewChain33Config(types.GetDefaultCfgstring())
}

// NewParaCfg is the same configuration on a para-chain node with title user.p.verif.
func NewParaCfg() *types.Chain33Config {
	return types.NewChain33Config(strings.Replace(types.GetDefaultCfgstring(), `Title="local"`, `Title="user.p.verif."`, 1))
}

// NewEnv starts a mempool.
func NewEnv(c EnvCfg) *Env {
	e := &Env{Cfg: c, chain: map[string]bool{}, nonce: map[string]int64{}, exbad: map[string]bool{}}
	e.born = time.Now()
	e.CCfg = NewChainCfg()
	if c.Para {
		e.CCfg = NewParaCfg()
	}
	e.hdr = &types.Header{Height: c.Height, BlockTime: c.BlkTime}
	e.Q = queue.New("channel")
	e.Q.SetConfig(e.CCfg)
	e.now = c.Now
	e.fakeBlockchain()
	e.fakeExecs()
	e.fakeRPC()
	e.fakeP2P()
	mcfg := *e.CCfg.GetModuleConfig().Mempool
	mcfg.PoolCacheSize = c.ShMax
	mcfg.MaxTxNumPerAccount = c.Per
	mcfg.MaxTxLast = c.Last
	mcfg.MinTxFeeRate = c.MinFee
	mcfg.MaxTxFeeRate = c.MaxRate
	mcfg.IsLevelFee = c.Level
	mcfg.DisableExecCheck = c.NoExec
	e.Mem = mempool.NewMempool(&mcfg)
	e.Mem.SetQueueCache(mempool.NewSimpleQueue(mempool.SubConfig{PoolCacheSize: c.Cap, ProperFee: c.MinFee}))
	e.SetClock(c.Now)
	e.Mem.SetQueueClient(e.Q.Client())
	e.Mem.Wait()
	e.Cli = e.Q.Client()
	return e
}

// Close stops everything.
func (e *Env) Close() {
	e.Mem.Close()
	e.Q.Close()
}

var clockT0 time.Time

// SetClock pins types.Now().Unix() to now for the next ~0.7s of real time.
func (e *Env) SetClock(now int64) {
	e.now = now
	clockT0 = time.Now()
	types.VerifSetTimeDelta(now*1e9 + 2e8 - clockT0.UnixNano())
}

// Tick re-pins the clock at the current logical time (call before every op).
func (e *Env) Tick() { e.SetClock(e.now) }

// Tock marks the env tainted when the real time since Tick allowed the logical second to roll over.
func (e *Env) Tock() {
	if time.Since(clockT0) > 700*time.Millisecond || time.Since(e.born) > 45*time.Second {
		e.Tainted = true
	}
}

// Now is the logical clock.
func (e *Env) Now() int64 { return e.now }

func (e *Env) fakeBlockchain() {
	cli := e.Q.Client()
	cli.Sub("blockchain")
	go func() {
		for msg := range cli.Recv() {
			switch msg.Ty {
			case types.EventGetLastHeader:
				e.mu.Lock()
				h := *e.hdr
				e.mu.Unlock()
				msg.Reply(cli.NewMessage("", types.EventHeader, &h))
			case types.EventIsSync:
				msg.Reply(cli.NewMessage("", types.EventReplyIsSync, &types.IsCaughtUp{Iscaughtup: true}))
			case types.EventTxHashList:
				txs := msg.Data.(*types.TxHashList)
				var dup [][]byte
				e.mu.Lock()
				for _, h := range txs.Hashes {
					if e.chain[string(h)] {
						dup = append(dup, h)
					}
				}
				e.mu.Unlock()
				msg.Reply(cli.NewMessage("", types.EventTxHashListReply, &types.TxHashList{Hashes: dup}))
			}
		}
	}()
}

func (e *Env) fakeExecs() {
	cli := e.Q.Client()
	cli.Sub("execs")
	go func() {
		for msg := range cli.Recv() {
			if msg.Ty == types.EventCheckTx {
				datas := msg.GetData().(*types.ExecTxList)
				result := &types.ReceiptCheckTxList{}
				e.mu.Lock()
				for _, tx := range datas.Txs {
					if e.exbad[string(tx.Hash())] {
						result.Errs = append(result.Errs, "ErrExecCheck")
					} else {
						result.Errs = append(result.Errs, "")
					}
				}
				e.mu.Unlock()
				msg.Reply(cli.NewMessage("", types.EventReceiptCheckTx, result))
			}
		}
	}()
}

func (e *Env) fakeRPC() {
	cli := e.Q.Client()
	cli.Sub("rpc")
	go func() {
		for msg := range cli.Recv() {
			if msg.Ty == types.EventGetEvmNonce {
				req := msg.GetData().(*types.ReqEvmAccountNonce)
				e.mu.Lock()
				n := e.nonce[req.Addr]
				e.mu.Unlock()
				msg.Reply(cli.NewMessage("", types.EventGetEvmNonce, &types.EvmAccountNonce{Addr: req.Addr, Nonce: n}))
			}
		}
	}()
}

func (e *Env) fakeP2P() {
	cli := e.Q.Client()
	cli.Sub("p2p")
	go func() {
		for range cli.Recv() {
		}
	}()
}

// SetLastHeader sets what the fake blockchain answers to EventGetLastHeader.
func (e *Env) SetLastHeader(h, bt int64) {
	e.mu.Lock()
	e.hdr = &types.Header{Height: h, BlockTime: bt}
	e.mu.Unlock()
}

// SetChain marks a hash as (not) on chain.
func (e *Env) SetChain(hash []byte, on bool) {
	e.mu.Lock()
	if on {
		e.chain[string(hash)] = true
	} else {
		delete(e.chain, string(hash))
	}
	e.mu.Unlock()
}

// SetNonce sets the current evm nonce of addr.
func (e *Env) SetNonce(addr string, n int64) {
	e.mu.Lock()
	e.nonce[addr] = n
	e.mu.Unlock()
}

// SetExecBad makes the fake executor reject hash.
func (e *Env) SetExecBad(hash []byte, bad bool) {
	e.mu.Lock()
	if bad {
		e.exbad[string(hash)] = true
	} else {
		delete(e.exbad, string(hash))
	}
	e.mu.Unlock()
}

// call sends an event to the mempool and waits for the reply.
func (e *Env) call(ty int64, data interface{}) (*queue.Message, error) {
	msg := e.Cli.NewMessage("mempool", ty, data)
	if err := e.Cli.Send(msg, true); err != nil {
		return nil, err
	}
	return e.Cli.WaitTimeout(msg, 20*time.Second)
}

// fire sends an event that has no reply, then synchronises on a cheap query (events are
// handled by one goroutine in order).
func (e *Env) fire(ty int64, data interface{}) error {
	msg := e.Cli.NewMessage("mempool", ty, data)
	// high-priority channel (FIFO with the query below); nobody replies to these events
	if err := e.Cli.Send(msg, true); err != nil {
		return err
	}
	_, err := e.call(types.EventGetMempoolSize, nil)
	return err
}

// ErrName canonicalises an error / reply message to a small enum-like token.
func ErrName(s string) string {
	if s == "" {
		return "ok"
	}
	for i := 0; i < len(s); i++ {
		if s[i] == ':' {
			s = s[:i]
			break
		}
	}
	b := []byte(s)
	for i := range b {
		if b[i] == ' ' {
			b[i] = '_'
		}
	}
	return string(b)
}

func errStr(err error) string {
	if err == nil {
		return "ok"
	}
	return ErrName(err.Error())
}

var _ = fmt.Sprint
