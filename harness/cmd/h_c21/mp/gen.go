package mp

import (
	"encoding/hex"
	"fmt"
	"strings"

	"github.com/33cn/chain33/types"

	"verifharness/internal/gen"
)

// Gen composes op lines for one history and feeds them to H.Do (the same path a replay takes).
type Gen struct {
	H      *H
	R      *gen.Rand
	ids    []int // defined pooled-entry ids of this history
	mids   []int // all member ids
	h, bt  int64 // harness' view of the pool header
	now    int64
	cfg    EnvCfg
	lines  []string
	blocks [][]int // blocks added (member ids), for rollbacks
}

// GenEnv bounds the env knobs.
type GenEnv struct {
	CapMax, PerMax, LastMax int
	Level                   bool
	MinFee0                 bool // allow minfee=0
}

// NewGen starts a history generator.
func NewGen(h *H, r *gen.Rand) *Gen { return &Gen{H: h, R: r} }

// Lines are the op lines issued so far.
func (g *Gen) Lines() []string { return g.lines }

func (g *Gen) do(l string) {
	g.lines = append(g.lines, l)
	g.H.Do(l)
}

// BaseTime is the logical epoch of generated histories.
const BaseTime = 1700000000

// Env issues the env line.
func (g *Gen) Env(b GenEnv) {
	r := g.R
	c := EnvCfg{Cap: int64(r.Range(1, b.CapMax)), Per: int64(r.Range(1, b.PerMax)), Last: int64(r.Range(1, b.LastMax)),
		MinFee: 100000, MaxRate: 10000000, Level: b.Level, Height: int64(r.Range(1, 40)), BlkTime: BaseTime + int64(r.Intn(1000))}
	if b.MinFee0 && r.Chance(1, 6) {
		c.MinFee = 0
	}
	c.ShMax = c.Cap
	c.Now = c.BlkTime + int64(r.Intn(30))
	g.cfg = c
	g.h, g.bt, g.now = c.Height, c.BlkTime, c.Now
	g.do(fmt.Sprintf("env cap=%d shmax=%d per=%d last=%d minfee=%d maxrate=%d level=%s noexec=0 h=%d bt=%d now=%d",
		c.Cap, c.ShMax, c.Per, c.Last, c.MinFee, c.MaxRate, b01(c.Level), c.Height, c.BlkTime, c.Now))
}

// Cfg returns the env knobs.
func (g *Gen) Cfg() EnvCfg { return g.cfg }

// expire picks an Expire field: none / by height / by block time / by TxHeight, around the current header.
func (g *Gen) expire() int64 {
	r := g.R
	switch r.Pick(5, 3, 3, 1) {
	case 0:
		return 0
	case 1:
		return g.h + int64(r.Range(0, 6))
	case 2:
		return g.bt + int64(r.Range(-5, 400))
	default:
		return types.TxHeightFlag + g.h + int64(r.Range(-3, 3))*150
	}
}

// TxParams draws generation parameters for one valid-looking transaction.
func (g *Gen) TxParams() TxP {
	r := g.R
	p := TxP{Key: r.Intn(4), Sig: "k1", Nonce: int64(r.Intn(1000000)), Exp: g.expire(), Pay: []int{0, 10, 100, 700, 1000, 2500}[r.Pick(3, 5, 3, 2, 1, 1)],
		To: fmt.Sprintf("k%d", r.Intn(4)), Exec: "none"}
	if r.Chance(1, 4) {
		p.Sig = "eth"
		p.Key = r.Intn(3)
		p.Nonce = int64(r.Intn(6))
	}
	if r.Chance(1, 12) {
		p.Exec = "para"
	}
	p.Fee = int64((p.Pay+400)/1000+1)*g.cfg.MinFee + int64(r.Intn(3))*50000
	if g.cfg.MinFee == 0 {
		p.Fee = int64(r.Intn(4)) * 100000
	}
	return p
}

func (g *Gen) newID() int { return g.H.Reg.NextID }

// Define issues a def line for p and returns the id.
func (g *Gen) Define(p TxP) int {
	id := g.newID()
	g.do(fmt.Sprintf("def t%d %s", id, p.String()))
	if g.H.Reg.ByID[id] == nil {
		// identical to an earlier definition: make it distinct through the fee
		p.Fee += int64(id)
		g.do(fmt.Sprintf("def t%d %s", id, p.String()))
		if g.H.Reg.ByID[id] == nil {
			return 0
		}
	}
	g.ids = append(g.ids, id)
	g.mids = append(g.mids, id)
	return id
}

// DefineGroup issues a defg line.
func (g *Gen) DefineGroup(ps []TxP, rate, gfee int64) int {
	id := g.newID()
	var parts []string
	for _, p := range ps {
		parts = append(parts, fmt.Sprintf("%d/%s/%d/%d/%d/%s/%s", p.Key, p.Sig, p.Nonce, p.Exp, p.Pay, p.To, p.Exec))
	}
	g.do(fmt.Sprintf("defg t%d rate=%d gfee=%d ms=%s", id, rate, gfee, strings.Join(parts, ",")))
	if g.H.Reg.ByID[id] == nil {
		return 0
	}
	g.ids = append(g.ids, id)
	for i := range ps {
		g.mids = append(g.mids, id+i)
	}
	return id
}

// Colliding pair: two transactions (same parameters except the nonce) whose hashes share the
// first 5 bytes; found once with VERIF_FIND_COLLISION=1 (see FindCollision).
var collisionBase = TxP{Key: 0, Sig: "k1", Fee: 100000, Exp: 0, Pay: 10, To: "k1", Exec: "none"}

// CollisionNonces are the two nonces.
var CollisionNonces = [2]int64{145098, 523892}

// DefineSome defines n transactions (some groups); withCollision adds the colliding pair.
func (g *Gen) DefineSome(n int, withCollision bool) {
	r := g.R
	for i := 0; i < n; i++ {
		if r.Chance(1, 6) {
			k := r.Range(2, 3)
			var ps []TxP
			for j := 0; j < k; j++ {
				p := g.TxParams()
				if j > 0 {
					p.Exec = ps[0].Exec // a group mixing para-chain and main-chain members is refused by types.Check
				}
				ps = append(ps, p)
			}
			rate := g.cfg.MinFee
			if rate == 0 {
				rate = 100000
			}
			g.DefineGroup(ps, rate, 0)
			continue
		}
		g.Define(g.TxParams())
	}
	if withCollision && CollisionNonces[0] != CollisionNonces[1] {
		for _, nn := range CollisionNonces {
			p := collisionBase
			p.Nonce = nn
			p.Key = r.Intn(2)
			g.Define(p)
		}
	}
}

func (g *Gen) pickID() int {
	if len(g.ids) == 0 {
		g.DefineSome(2, false)
	}
	// bias towards recent definitions
	if g.R.Chance(1, 3) {
		return g.ids[len(g.ids)-1-g.R.Intn(min(3, len(g.ids)))]
	}
	return g.ids[g.R.Intn(len(g.ids))]
}

func (g *Gen) pickMembers(n int) []int {
	var l []int
	for i := 0; i < n && len(g.mids) > 0; i++ {
		l = append(l, g.mids[g.R.Intn(len(g.mids))])
	}
	return l
}

// Push issues a direct PushTx.
func (g *Gen) Push() { g.do(fmt.Sprintf("push t%d", g.pickID())) }

// Submit issues an EventTx.
func (g *Gen) Submit() { g.do(fmt.Sprintf("submit t%d", g.pickID())) }

// SubmitID issues an EventTx for id.
func (g *Gen) SubmitID(id int) { g.do(fmt.Sprintf("submit t%d", id)) }

// PushID issues a PushTx for id.
func (g *Gen) PushID(id int) { g.do(fmt.Sprintf("push t%d", id)) }

// Remove issues rm / rmev of 1..3 (possibly absent) hashes.
func (g *Gen) Remove() {
	op := "rm"
	if g.R.Chance(1, 3) {
		op = "rmev"
	}
	g.do(op + tnames(g.pickMembers(g.R.Range(1, 3))))
}

// pooledFirst returns up to n member ids, preferring transactions defined recently.
func (g *Gen) blockTxs() []int {
	r := g.R
	var l []int
	n := r.Range(0, 4)
	for i := 0; i < n && len(g.ids) > 0; i++ {
		id := g.pickID()
		rec := g.H.Reg.ByID[id]
		if rec == nil {
			continue
		}
		if rec.Group && r.Chance(1, 8) {
			// truncated group (head only)
			l = append(l, id)
			continue
		}
		for _, m := range rec.Members {
			l = append(l, m.ID)
		}
	}
	return l
}

// AddBlock issues an EventAddBlock; usually the next height, sometimes the same or a lower one.
func (g *Gen) AddBlock() {
	r := g.R
	nh := g.h + 1
	switch r.Pick(8, 1, 1) {
	case 1:
		nh = g.h
	case 2:
		nh = g.h + int64(r.Range(2, 5))
	}
	nbt := g.bt + int64(r.Range(0, 40))
	txs := g.blockTxs()
	g.do(fmt.Sprintf("addblock %d %d%s", nh, nbt, tnames(txs)))
	if nh > g.h {
		g.h, g.bt = nh, nbt
	}
	g.blocks = append(g.blocks, txs)
}

// DelBlock rolls back the current height: the block holds a previously added tx list (or a fresh one).
func (g *Gen) DelBlock() {
	r := g.R
	var txs []int
	if len(g.blocks) > 0 && r.Chance(2, 3) {
		txs = g.blocks[len(g.blocks)-1]
		g.blocks = g.blocks[:len(g.blocks)-1]
	} else {
		txs = g.blockTxs()
	}
	nh := g.h - 1
	if nh < 0 {
		nh = 0
	}
	nbt := g.bt - int64(r.Range(0, 40))
	g.do(fmt.Sprintf("delblock %d %d%s", nh, nbt, tnames(txs)))
	g.h, g.bt = nh, nbt
}

// Sweep issues an expiry sweep.
func (g *Gen) Sweep() { g.do("sweep") }

// Clock advances the logical clock (sometimes across the 600 s pool-age limit).
func (g *Gen) Clock() {
	r := g.R
	d := int64(0)
	switch r.Pick(4, 3, 2, 2) {
	case 0:
		d = int64(r.Range(1, 30))
	case 1:
		d = int64(r.Range(100, 400))
	case 2:
		d = 599 + int64(r.Intn(3))
	case 3:
		d = int64(r.Range(550, 700))
	}
	g.now += d
	g.do(fmt.Sprintf("clock %d", g.now))
}

// Nonce sets the current evm nonce of an eth sender.
func (g *Gen) Nonce() {
	snd := g.H.Reg.SndAlias(EthAddr(g.R.Intn(3)))
	g.do(fmt.Sprintf("nonce %d %d", snd, g.R.Intn(5)))
}

// TxList issues an EventTxList with a generated count and exclusion list.
func (g *Gen) TxList() {
	r := g.R
	count := int64(r.Range(1, 10))
	if r.Chance(1, 15) {
		count = int64(r.Range(-1, 0))
	}
	var excl []int
	if r.Chance(1, 3) {
		excl = g.pickMembers(r.Range(1, 3))
	}
	g.do(fmt.Sprintf("txlist %d%s", count, tnames(excl)))
}

// Do issues a raw op line.
func (g *Gen) Do(l string) { g.do(l) }

// Height returns the generator's view of the pool header.
func (g *Gen) Height() (int64, int64, int64) { return g.h, g.bt, g.now }

// IDs are the pooled-entry ids defined in this history.
func (g *Gen) IDs() []int { return g.ids }

// FindCollision searches two nonces for collisionBase whose tx hashes share a 5-byte prefix.
func FindCollision() {
	chain := NewChainCfg().GetChainID()
	seen := map[string]int64{}
	for n := int64(1); n < 40000000; n++ {
		p := collisionBase
		p.Nonce = n
		tx := p.build(chain)
		k := string(tx.Hash()[:5])
		if o, ok := seen[k]; ok {
			p2 := collisionBase
			p2.Nonce = o
			fmt.Printf("collision nonces %d %d hashes %s %s\n", o, n, hex.EncodeToString(p2.build(chain).Hash()), hex.EncodeToString(tx.Hash()))
			return
		}
		seen[k] = n
	}
	fmt.Println("none")
}

// TxHeightFlag is types.TxHeightFlag.
func TxHeightFlag() int64 { return types.TxHeightFlag }

// EnvRaw issues an env line with explicit knobs.
func (g *Gen) EnvRaw(c EnvCfg) {
	g.cfg = c
	g.h, g.bt, g.now = c.Height, c.BlkTime, c.Now
	g.do(fmt.Sprintf("env cap=%d shmax=%d per=%d last=%d minfee=%d maxrate=%d level=%s noexec=%s para=%s h=%d bt=%d now=%d",
		c.Cap, c.ShMax, c.Per, c.Last, c.MinFee, c.MaxRate, b01(c.Level), b01(c.NoExec), b01(c.Para), c.Height, c.BlkTime, c.Now))
}

// ClockBy advances the logical clock by d seconds.
func (g *Gen) ClockBy(d int64) {
	g.now += d
	g.do(fmt.Sprintf("clock %d", g.now))
}

// Burst issues 2..6 concurrent sub-ops: pushes, removals, block removals, sweeps and observers.
func (g *Gen) Burst() {
	r := g.R
	n := r.Range(2, 6)
	var parts []string
	for i := 0; i < n; i++ {
		switch r.Pick(8, 3, 2, 1, 2, 2) {
		case 0:
			parts = append(parts, fmt.Sprintf("push t%d", g.pickID()))
		case 1:
			parts = append(parts, "rm"+tnames(g.pickMembers(r.Range(1, 2))))
		case 2:
			parts = append(parts, "rmblock"+tnames(g.blockTxs()))
		case 3:
			parts = append(parts, "sweep")
		case 4:
			parts = append(parts, "size")
		case 5:
			parts = append(parts, fmt.Sprintf("txnum %d", r.Intn(len(g.H.Reg.Snds)+1)))
		}
	}
	g.do("burst " + strings.Join(parts, " | "))
}
