package mp

import (
	"bytes"
	"fmt"
	"sort"
	"strconv"
	"strings"

	"github.com/33cn/chain33/system/mempool"
	"github.com/33cn/chain33/types"

	"verifharness/internal/gen"
)

// H executes op lines against a real mempool and prints observations.
//
// Op language (the part before ';' is what a replay file needs; the rest is derived and
// re-computed by the harness):
//
//	env cap= shmax= per= last= minfee= maxrate= level= noexec= h= bt= now=     new mempool
//	def t<id> k= sg= n= fee= exp= pl= to= ex= ; <derived>                       define a tx
//	defg t<id> rate= gfee= ms=k/sg/n/exp/pl/to/ex,... ; <derived>                define a group
//	clock <unix>                                                                 logical clock
//	push t<id>            Mempool.PushTx                 submit t<id>   EventTx
//	rm t.. | rmev t..     Mempool.RemoveTxs | EventDelTxList
//	addblock <h> <bt> t.. EventAddBlock                  delblock <h> <bt> t..  EventDelBlock
//	sweep                 expiry sweep                   chain+ t.. / chain- t..  on-chain set
//	nonce <snd> <n>       current evm nonce              execbad t<id> <0|1>
//	txlist <count> t..    EventTxList (C23)              getall <0|1>   EventGetMempool
//	q                     all read-only observers
//	burst a | b | ...     up to six lock-protected calls from concurrent goroutines (burst.go)
type H struct {
	Out   *gen.Out
	Prop  string
	Reg   *Reg
	E     *Env
	buf   []string // lines of the current history (flushed when it ends untainted)
	hist  []string // op lines (pre-';') of the current history, for redo on taint
	Redo  bool     // replay mode: re-run a tainted history instead of dropping it
	pend  []pendPred
	// per-history knowledge for predicates
	collide map[string]bool // short hashes shared by two defined txs
	Dropped int
}

type pendPred struct{ sig, detail string }

// NewH makes an executor for property prop.
func NewH(out *gen.Out, prop string) *H {
	h := &H{Out: out, Prop: prop, collide: map[string]bool{}}
	h.Reg = NewReg(NewChainCfg().GetChainID())
	// fixed blacklist (harness knowledge): k1 keys 6,7 and eth key 7
	bl := []string{K1Addr(6), K1Addr(7)}
	for _, a := range bl {
		h.Reg.Black[a] = true
	}
	types.SetBlockedAccountsForTest(bl)
	return h
}

func (h *H) emit(op, res string) { h.buf = append(h.buf, op+"\t"+res) }

func (h *H) pred(site, kind, detail string) {
	h.pend = append(h.pend, pendPred{h.Prop + "|" + site + "|" + kind, detail})
}

// EndHistory flushes (or drops, when tainted) the buffered history and closes the env.
func (h *H) EndHistory() {
	if h.E == nil {
		return
	}
	tainted := h.E.Tainted
	h.E.Close()
	h.E = nil
	if tainted {
		h.Dropped++
		h.Out.Stat("histories_dropped_clock_taint", 1)
	} else {
		for _, l := range h.buf {
			i := strings.IndexByte(l, '\t')
			h.Out.Op(l[:i], l[i+1:])
		}
		for _, p := range h.pend {
			h.Out.Pred(p.sig, p.detail+" history="+strings.Join(h.hist, "; "))
		}
		h.Out.Stat("histories", 1)
	}
	h.buf, h.pend = nil, nil
	if tainted && h.Redo && h.Dropped < 5 {
		lines := h.hist
		h.hist = nil
		for _, l := range lines {
			h.Do(l)
		}
		h.EndHistory()
		return
	}
	h.hist = nil
}

func ids(fs []string) []int {
	var r []int
	for _, f := range fs {
		if strings.HasPrefix(f, "t") {
			r = append(r, int(atoi(f[1:])))
		}
	}
	return r
}

func tnames(is []int) string {
	if len(is) == 0 {
		return ""
	}
	var s []string
	for _, i := range is {
		s = append(s, "t"+strconv.Itoa(i))
	}
	return " " + strings.Join(s, " ")
}

// Do executes one op line.
func (h *H) Do(line string) {
	if i := strings.IndexByte(line, ';'); i >= 0 {
		line = line[:i]
	}
	line = strings.TrimSpace(line)
	f := strings.Fields(line)
	if len(f) == 0 {
		return
	}
	if f[0] == "env" {
		h.EndHistory()
		m := kv(f[1:])
		c := EnvCfg{Cap: atoi(m["cap"]), ShMax: atoi(m["shmax"]), Per: atoi(m["per"]), Last: atoi(m["last"]), MinFee: atoi(m["minfee"]),
			MaxRate: atoi(m["maxrate"]), Level: m["level"] == "1", NoExec: m["noexec"] == "1", Para: m["para"] == "1", Height: atoi(m["h"]), BlkTime: atoi(m["bt"]), Now: atoi(m["now"])}
		h.E = NewEnv(c)
		h.Reg.ResetDefs()
		h.Reg.Para = c.Para
		h.hist = append(h.hist, line)
		h.collide = map[string]bool{}
		maxfee := h.E.CCfg.GetMaxTxFee(c.Height + 1)
		maxnum := h.E.CCfg.GetP(c.Height).MaxTxNumber
		cc := h.E.CCfg
		txh := !cc.IsPara() && cc.IsEnableFork(c.Height, "ForkTxHeight", cc.IsEnable("TxHeight"))
		h.emit(fmt.Sprintf("env cap=%d shmax=%d per=%d last=%d minfee=%d maxrate=%d level=%s noexec=%s para=%s h=%d bt=%d now=%d ; maxfee=%d maxtxnum=%d txh=%s fbc=%s fsort=%s",
			c.Cap, c.ShMax, c.Per, c.Last, c.MinFee, c.MaxRate, b01(c.Level), b01(c.NoExec), b01(c.Para), c.Height, c.BlkTime, c.Now, maxfee, maxnum,
			b01(txh), b01(cc.IsFork(c.Height+1, "ForkBlockCheck")), b01(cc.IsFork(c.Height, "ForkCheckEthTxSort"))), "ok")
		h.Out.Stat("op_env", 1)
		return
	}
	if h.E == nil {
		h.Out.Op(line, "bad-op")
		return
	}
	h.hist = append(h.hist, line)
	h.Out.Stat("op_"+f[0], 1)
	switch f[0] {
	case "def":
		id := int(atoi(strings.TrimPrefix(f[1], "t")))
		rec := h.Reg.Define(id, ParseTxP(kv(f[2:])))
		if rec == nil {
			h.emit(line, "bad-op")
			return
		}
		h.noteShash(rec)
		h.emit(rec.DefLine(), "ok")
	case "defg":
		id := int(atoi(strings.TrimPrefix(f[1], "t")))
		m := kv(f[2:])
		rec, err := h.Reg.DefineGroup(id, ParseGroupMembers(m["ms"]), atoi(m["rate"]), atoi(m["gfee"]))
		if err != nil {
			h.emit(line, "bad-op")
			return
		}
		h.noteShash(rec)
		h.emit(rec.DefLine(), "ok")
	case "clock":
		h.E.SetClock(atoi(f[1]))
		h.emit(line, "ok")
	case "nonce":
		snd := int(atoi(f[1]))
		if snd < len(h.Reg.Snds) {
			h.E.SetNonce(h.Reg.Snds[snd], atoi(f[2]))
		}
		h.emit(line, "ok")
	case "chain+", "chain-":
		for _, id := range ids(f[1:]) {
			if m := h.Reg.MemByID[id]; m != nil {
				h.E.SetChain(m.Hash, f[0] == "chain+")
			}
		}
		h.emit(line, "ok")
	case "execbad":
		if r := h.Reg.ByID[int(atoi(strings.TrimPrefix(f[1], "t")))]; r != nil && len(f) > 2 {
			h.E.SetExecBad(r.Hash, f[2] == "1")
		}
		h.emit(line, "ok")
	case "push":
		h.opPush(line, f)
	case "submit":
		h.opSubmit(line, f)
	case "rm", "rmev":
		h.opRemove(line, f)
	case "addblock":
		h.opAddBlock(line, f)
	case "delblock":
		h.opDelBlock(line, f)
	case "sweep":
		h.E.Tick()
		h.E.Mem.VerifRemoveExpired()
		h.E.Tock()
		h.after(line, "ok")
	case "txlist":
		h.opTxList(line, f)
	case "getall":
		h.opGetAll(line, f)
	case "q":
		h.opQuery(line)
	case "burst":
		h.opBurst(line)
	default:
		h.emit(line, "bad-op")
	}
}

func (h *H) noteShash(rec *Rec) {
	for id, o := range h.Reg.ByID {
		if id != rec.ID && o.SHash == rec.SHash && !bytes.Equal(o.Hash, rec.Hash) {
			h.collide[rec.SHash] = true
		}
	}
}

// ------------------------------------------------------------------ canonical dump

// Snap is a canonicalised snapshot of the pool.
type Snap struct {
	St   *mempool.VerifState
	Text string
}

func (h *H) al(tx *types.Transaction) string { return h.Reg.AliasOfHash(tx.Hash()) }

func dash(s []string) string {
	if len(s) == 0 {
		return "-"
	}
	return strings.Join(s, ",")
}

// Dump takes and renders a snapshot: q=<alias@enter..> b=<bytes> f=<fee> acc=<snd:alias.. ;..> last= sh= hdr=
func (h *H) Dump() *Snap {
	st := h.E.Mem.VerifDump()
	var q, last, sh, acc []string
	for _, it := range st.Queue {
		q = append(q, fmt.Sprintf("%s@%d", h.al(it.Tx), it.Enter))
	}
	type ae struct {
		snd int
		txt string
	}
	var aes []ae
	for addr, txs := range st.Acc {
		var l []string
		for _, tx := range txs {
			l = append(l, h.al(tx))
		}
		snd := h.Reg.SndAlias(addr)
		aes = append(aes, ae{snd, fmt.Sprintf("%d:%s", snd, dash(l))})
	}
	sort.Slice(aes, func(i, j int) bool { return aes[i].snd < aes[j].snd })
	for _, a := range aes {
		acc = append(acc, a.txt)
	}
	for _, tx := range st.Last {
		last = append(last, h.al(tx))
	}
	for _, e := range st.SHash {
		sh = append(sh, types.CalcTxShortHash(e.Tx.Hash())+":"+h.al(e.Tx))
	}
	accs := "-"
	if len(acc) > 0 {
		accs = strings.Join(acc, ";")
	}
	txt := fmt.Sprintf("q=%s b=%d f=%d acc=%s last=%s sh=%s hdr=%d/%d", dash(q), st.Bytes, st.Fee, accs, dash(last), dash(sh), st.Height, st.BlkTime)
	return &Snap{St: st, Text: txt}
}

// after emits "<res> | <dump>" and evaluates the C21 invariants on the implementation.
func (h *H) after(op, res string) *Snap {
	s := h.Dump()
	h.emit(op, res+" | "+s.Text)
	h.checkInv(s, op)
	return s
}

// ------------------------------------------------------------------ mutating ops

func (h *H) opPush(line string, f []string) {
	rec := h.Reg.ByID[int(atoi(strings.TrimPrefix(f[1], "t")))]
	if rec == nil {
		h.emit(line, "bad-op")
		return
	}
	before := h.Dump()
	h.E.Tick()
	err := h.E.Mem.PushTx(rec.Tx)
	h.E.Tock()
	s := h.after(line, errStr(err))
	if err != nil && s.Text != before.Text {
		h.pred("PushTx", "failed-push-changed-state", fmt.Sprintf("err=%s before=[%s] after=[%s]", errStr(err), before.Text, s.Text))
	}
	if err == nil {
		h.checkPushed(s, rec, "PushTx")
	}
	h.Out.Stat("push_"+errStr(err), 1)
}

func (h *H) checkPushed(s *Snap, rec *Rec, site string) {
	n := len(s.St.Queue)
	if n == 0 || !bytes.Equal(s.St.Queue[n-1].Tx.Hash(), rec.Hash) {
		h.pred(site, "pushed-tx-not-newest-in-queue", s.Text)
	}
	if h.E.Cfg.Last > 0 {
		m := len(s.St.Last)
		if m == 0 || !bytes.Equal(s.St.Last[m-1].Hash(), rec.Hash) {
			h.pred(site, "pushed-tx-not-in-latest-list", s.Text)
		}
	}
}

func (h *H) opRemove(line string, f []string) {
	var hashes [][]byte
	present := false
	before := h.Dump()
	for _, id := range ids(f[1:]) {
		if m := h.Reg.MemByID[id]; m != nil {
			hashes = append(hashes, m.Hash)
			for _, it := range before.St.Queue {
				if bytes.Equal(it.Tx.Hash(), m.Hash) {
					present = true
				}
			}
		}
	}
	h.E.Tick()
	res := "ok"
	if f[0] == "rm" {
		res = errStr(h.E.Mem.RemoveTxs(&types.TxHashList{Hashes: hashes}))
	} else {
		msg, err := h.E.call(types.EventDelTxList, &types.TxHashList{Hashes: hashes})
		if err != nil {
			res = errStr(err)
		} else if r, ok := msg.GetData().(*types.Reply); ok {
			if !r.IsOk {
				res = ErrName(string(r.Msg))
			}
		}
	}
	h.E.Tock()
	s := h.after(line, res)
	if !present && s.Text != before.Text {
		h.pred("RemoveTxs", "absent-removal-changed-state", fmt.Sprintf("before=[%s] after=[%s]", before.Text, s.Text))
	}
	for _, hs := range hashes {
		for _, it := range s.St.Queue {
			if bytes.Equal(it.Tx.Hash(), hs) {
				h.pred("RemoveTxs", "removed-tx-still-pooled", s.Text)
			}
		}
	}
}

func (h *H) blockOf(height, bt int64, is []int) *types.Block {
	b := &types.Block{Height: height, BlockTime: bt}
	for _, id := range is {
		if m := h.Reg.MemByID[id]; m != nil {
			b.Txs = append(b.Txs, m.Tx)
		}
	}
	return b
}

func (h *H) opAddBlock(line string, f []string) {
	if len(f) < 3 {
		h.emit(line, "bad-op")
		return
	}
	is := ids(f[3:])
	b := h.blockOf(atoi(f[1]), atoi(f[2]), is)
	h.E.Tick()
	err := h.E.fire(types.EventAddBlock, &types.BlockDetail{Block: b})
	h.E.Tock()
	s := h.after(line, errStr(err))
	for _, tx := range b.Txs {
		for _, it := range s.St.Queue {
			if bytes.Equal(it.Tx.Hash(), tx.Hash()) {
				h.pred("eventAddBlock", "block-tx-still-pooled", fmt.Sprintf("tx=%s %s", h.al(tx), s.Text))
			}
		}
	}
	h.Out.Stat("addblock_txs", int64(len(b.Txs)))
}

// delblock <h> <bt> t..: the block being rolled back has the pool's current height; the fake
// blockchain then reports (h, bt) as the new last header.
func (h *H) opDelBlock(line string, f []string) {
	if len(f) < 3 {
		h.emit(line, "bad-op")
		return
	}
	is := ids(f[3:])
	cur := h.E.Mem.GetHeader()
	b := h.blockOf(cur.GetHeight(), cur.GetBlockTime(), is)
	h.E.SetLastHeader(atoi(f[1]), atoi(f[2]))
	h.E.Tick()
	err := h.E.fire(types.EventDelBlock, &types.BlockDetail{Block: b})
	h.E.Tock()
	// oracle inputs for the model: per block position, types-level Check result of the candidate
	// (single tx, or the regrouped group starting here) at the new header.
	var chk []string
	for i := 0; i < len(b.Txs); i++ {
		tx := b.Txs[i]
		gc := int(tx.GetGroupCount())
		cand := tx
		if gc > 1 && i+gc <= len(b.Txs) {
			g := types.Transactions{Txs: b.Txs[i : i+gc]}
			cand = g.Tx()
		}
		ok := cand.Check(h.E.CCfg, atoi(f[1]), h.E.Cfg.MinFee, h.E.CCfg.GetMaxTxFee(atoi(f[1]))) == nil
		chk = append(chk, b01(ok))
	}
	h.after(fmt.Sprintf("%s ; chk=%s", line, dash(chk)), errStr(err))
	h.Out.Stat("delblock_txs", int64(len(b.Txs)))
}

func replyName(msg interface{}) string {
	switch r := msg.(type) {
	case *types.Reply:
		if r.IsOk {
			return "ok"
		}
		return ErrName(string(r.Msg))
	case error:
		return ErrName(r.Error())
	}
	return fmt.Sprintf("unexpected-%T", msg)
}

func (h *H) opSubmit(line string, f []string) {
	rec := h.Reg.ByID[int(atoi(strings.TrimPrefix(f[1], "t")))]
	if rec == nil {
		h.emit(line, "bad-op")
		return
	}
	before := h.Dump()
	h.E.Tick()
	// the mempool keeps and mutates nothing of the message, but hand it a private copy anyway
	msg, err := h.E.call(types.EventTx, rec.Tx.Clone())
	h.E.Tock()
	res := errStr(err)
	if err == nil {
		res = replyName(msg.GetData())
	}
	s := h.after(line, res)
	h.Out.Stat("submit_"+res, 1)
	h.checkAdmission(rec, res, before, s)
}

// ------------------------------------------------------------------ queries

func (h *H) listNames(txs []*types.Transaction) string {
	var l []string
	for _, tx := range txs {
		if tx == nil {
			l = append(l, "nil")
		} else {
			l = append(l, h.al(tx))
		}
	}
	return dash(l)
}

func (h *H) opQuery(line string) {
	s := h.Dump()
	h.emit(line, s.Text)
	h.checkInv(s, line)
}

func (h *H) opGetAll(line string, f []string) {
	isAll := len(f) > 1 && f[1] == "1"
	h.E.Tick()
	msg, err := h.E.call(types.EventGetMempool, &types.ReqGetMempool{IsAll: isAll})
	h.E.Tock()
	if err != nil {
		h.emit(line, errStr(err))
		return
	}
	txs := msg.GetData().(*types.ReplyTxList).Txs
	h.emit(line, h.canonList(txs))
	if !isAll {
		h.checkTxList(txs, 0, nil, "eventGetMempool")
	}
}
