package mp

import (
	"bytes"
	"fmt"
	"sort"
	"strings"

	"github.com/33cn/chain33/types"
)

// checkInv evaluates the C21 bookkeeping predicates on the implementation's own state and
// cross-checks the hook snapshot against the exported observers.
func (h *H) checkInv(s *Snap, op string) {
	st := s.St
	site := "after-" + strings.Fields(op)[0]
	c := h.E.Cfg
	// contents
	seen := map[string]bool{}
	bySnd := map[string][]string{}
	var bytesSum, feeSum int64
	for _, it := range st.Queue {
		k := string(it.Tx.Hash())
		if seen[k] {
			h.pred(site, "duplicate-hash-in-pool", s.Text)
		}
		seen[k] = true
		bySnd[it.Tx.From()] = append(bySnd[it.Tx.From()], k)
		bytesSum += int64(types.Size(it.Tx))
		feeSum += it.Tx.Fee
	}
	if int64(len(st.Queue)) > c.Cap || st.QueueLen != len(st.Queue) {
		h.pred(site, "pool-over-capacity", fmt.Sprintf("cap=%d %s", c.Cap, s.Text))
	}
	for _, l := range bySnd {
		if int64(len(l)) > c.Per {
			h.pred(site, "sender-over-limit", fmt.Sprintf("per=%d %s", c.Per, s.Text))
		}
	}
	// per-sender index = group-by-sender of the contents, in arrival order
	accBad := len(st.Acc) != len(bySnd)
	for addr, txs := range st.Acc {
		want := bySnd[addr]
		if len(want) != len(txs) || st.AccLen[addr] != len(txs) {
			accBad = true
			continue
		}
		for i, tx := range txs {
			if string(tx.Hash()) != want[i] {
				accBad = true
			}
		}
	}
	if accBad {
		h.pred(site, "sender-index-disagrees-with-contents", s.Text)
	}
	// latest list: pooled txs only, arrival order, bounded
	if int64(len(st.Last)) > c.Last || st.LastLen != len(st.Last) {
		h.pred(site, "latest-list-over-max", fmt.Sprintf("max=%d %s", c.Last, s.Text))
	}
	pos := -1
	for _, tx := range st.Last {
		k := string(tx.Hash())
		if !seen[k] {
			h.pred(site, "latest-list-holds-unpooled-tx", s.Text)
			continue
		}
		p := -1
		for i, it := range st.Queue {
			if string(it.Tx.Hash()) == k {
				p = i
			}
		}
		if p <= pos {
			h.pred(site, "latest-list-out-of-arrival-order", s.Text)
		}
		pos = p
	}
	if st.Bytes != bytesSum {
		h.pred(site, "byte-size-disagrees-with-contents", fmt.Sprintf("sum=%d %s", bytesSum, s.Text))
	}
	if st.Fee != feeSum {
		h.pred(site, "fee-total-disagrees-with-contents", fmt.Sprintf("sum=%d %s", feeSum, s.Text))
	}
	// short-hash index: no stale entries, entries keyed by their own short hash
	for _, e := range st.SHash {
		if !seen[string(e.Tx.Hash())] {
			h.pred(site, "short-hash-index-holds-unpooled-tx", s.Text)
		}
		if !e.KeyOK {
			h.pred(site, "short-hash-index-wrong-key", s.Text)
		}
	}
	if st.SHashLen != len(st.SHash) {
		h.pred(site, "short-hash-index-size-mismatch", s.Text)
	}
	// short-hash lookup through the event interface: every pooled tx is found by its short hash
	// (the answer must be a pooled tx with that short hash)
	var shs, hs []string
	for _, it := range st.Queue {
		shs = append(shs, types.CalcTxShortHash(it.Tx.Hash()))
		hs = append(hs, string(it.Tx.Hash()))
	}
	if len(shs) > 0 {
		if msg, err := h.E.call(types.EventTxListByHash, &types.ReqTxHashList{Hashes: shs, IsShortHash: true}); err == nil {
			got := msg.GetData().(*types.ReplyTxList).Txs
			for i, tx := range got {
				kind := ""
				if tx == nil {
					kind = "short-hash-lookup-misses-pooled-tx"
				} else if !seen[string(tx.Hash())] || types.CalcTxShortHash(tx.Hash()) != shs[i] {
					kind = "short-hash-lookup-returns-wrong-tx"
				}
				if kind != "" {
					st := site
					if h.collide[shs[i]] {
						// two transactions of this history share the short hash: one finding, whatever the event
						kind += "-with-colliding-short-hash"
						st = "SHashTxCache"
					}
					h.pred(st, kind, fmt.Sprintf("short=%s %s", shs[i], s.Text))
				}
			}
		}
		if msg, err := h.E.call(types.EventTxListByHash, &types.ReqTxHashList{Hashes: hs}); err == nil {
			got := msg.GetData().(*types.ReplyTxList).Txs
			for i, tx := range got {
				if tx == nil || string(tx.Hash()) != hs[i] {
					h.pred(site, "hash-lookup-disagrees-with-contents", s.Text)
				}
			}
		}
	}
	// exported observers agree with the snapshot
	if h.E.Mem.Size() != len(st.Queue) {
		h.pred(site, "Size-observer-disagrees", s.Text)
	}
	if h.E.Mem.GetTotalCacheBytes() != st.Bytes {
		h.pred(site, "GetTotalCacheBytes-observer-disagrees", s.Text)
	}
	lt := h.E.Mem.GetLatestTx()
	if len(lt) != len(st.Last) {
		h.pred(site, "GetLatestTx-observer-disagrees", s.Text)
	}
	for addr := range h.Reg.sndIdx {
		if int(h.E.Mem.TxNumOfAccount(addr)) != len(bySnd[addr]) {
			h.pred(site, "TxNumOfAccount-disagrees-with-contents", fmt.Sprintf("addr=%d %s", h.Reg.sndIdx[addr], s.Text))
		}
		d := h.E.Mem.GetAccTxs(&types.ReqAddrs{Addrs: []string{addr}})
		if len(d.Txs) != len(bySnd[addr]) {
			h.pred(site, "GetAccTxs-disagrees-with-contents", fmt.Sprintf("addr=%d %s", h.Reg.sndIdx[addr], s.Text))
		}
	}
	h.Out.Stat("invariant_checks", 1)
	h.Out.Stat(fmt.Sprintf("pool_size_%d", min(len(st.Queue), 9)), 1)
}

func min(a, b int) int {
	if a < b {
		return a
	}
	return b
}

// ------------------------------------------------------------------ C22

// checkAdmission: the property predicate for one submission, from the harness' own knowledge
// of the generated transaction (signature validity, recipient, blacklist, chain set, nonce)
// and the implementation's state before/after.
func (h *H) checkAdmission(rec *Rec, res string, before, after *Snap) {
	if h.Prop != "C22" {
		return
	}
	e := h.E
	inPool := func(s *Snap, hash []byte) bool {
		for _, it := range s.St.Queue {
			if bytes.Equal(it.Tx.Hash(), hash) {
				return true
			}
		}
		return false
	}
	cnt := func(s *Snap, snd int) int64 {
		n := int64(0)
		for _, it := range s.St.Queue {
			if h.Reg.SndAlias(it.Tx.From()) == snd {
				n++
			}
		}
		return n
	}
	admitted := inPool(after, rec.Hash) && !inPool(before, rec.Hash)
	if res == "ok" && !inPool(after, rec.Hash) {
		h.pred("eventTx", "ok-reply-but-not-pooled", after.Text)
	}
	if res != "ok" && before.Text != after.Text {
		h.pred("eventTx", "rejected-but-pool-changed", fmt.Sprintf("res=%s before=[%s] after=[%s]", res, before.Text, after.Text))
	}
	// which clauses does this submission violate (harness knowledge)?
	var viol []string
	height := before.St.Height + 1
	bt := before.St.BlkTime
	expired := func(exp int64) bool {
		if exp == 0 {
			return false
		}
		if exp <= types.ExpireBound {
			return exp <= height
		}
		if exp > types.TxHeightFlag && !e.Cfg.Para { // TxHeight expiry exists on the main chain only
			th := exp - types.TxHeightFlag
			return !(th-types.LowAllowPackHeight <= height && height <= th+types.HighAllowPackHeight)
		}
		return exp <= bt
	}
	e.mu.Lock()
	for _, m := range rec.Members {
		if !m.SigOK {
			viol = append(viol, "bad-signature")
		}
		if e.chain[string(m.Hash)] {
			viol = append(viol, "already-on-chain")
		}
		if expired(m.Tx.Expire) {
			viol = append(viol, "expired")
		} else if x := m.Tx.Expire; x > types.ExpireBound && x <= types.TxHeightFlag && x < e.Now()+60 {
			// a time-based Expire that the next block's time may already have passed: the mempool treats a
			// transaction expiring within the next 60 s of wall-clock time as expired for the next block
			viol = append(viol, "expiring-within-60s")
		}
		if !m.ToOK {
			viol = append(viol, "invalid-recipient")
		}
		if m.Bl {
			viol = append(viol, "blacklisted")
		}
		if cnt(before, m.Snd) >= e.Cfg.Per {
			viol = append(viol, "sender-at-limit")
		}
	}
	curNonce := e.nonce[rec.Tx.From()]
	// eth-signed members behind the head: the property speaks of every eth-signed sender
	for _, m := range rec.Members[1:] {
		if !m.P.isEthSig() {
			continue
		}
		if m.Tx.Nonce < e.nonce[m.Tx.From()] {
			viol = append(viol, "member-eth-nonce-too-low")
		}
		for _, it := range before.St.Queue {
			if it.Tx.From() == m.Tx.From() && it.Tx.Nonce == m.Tx.Nonce && !bytes.Equal(it.Tx.Hash(), m.Hash) {
				viol = append(viol, "member-eth-nonce-already-pending")
			}
		}
	}
	e.mu.Unlock()
	if inPool(before, rec.Hash) {
		viol = append(viol, "already-in-pool")
	}
	// fee minimum: (size/1000+1)*rate per member, rate = tiered rate when enabled
	rate := e.Cfg.MinFee
	if e.Cfg.Level {
		rate = h.levelRate(before)
	}
	var need int64
	for _, m := range rec.Members {
		sz := m.Size
		if m.Tx.Signature == nil {
			sz += 300
		}
		need += int64(sz/1000+1) * rate
	}
	if rec.Fee < need {
		viol = append(viol, "fee-too-low")
	}
	if rec.EthSig {
		if rec.Nonce < curNonce {
			viol = append(viol, "eth-nonce-too-low")
		}
		for _, it := range before.St.Queue {
			if it.Tx.From() == rec.Tx.From() && it.Tx.Nonce == rec.Nonce && !bytes.Equal(it.Tx.Hash(), rec.Hash) {
				viol = append(viol, "eth-nonce-already-pending")
			}
		}
	}
	sort.Strings(viol)
	if admitted && len(viol) > 0 {
		site, kind := "eventTx", "admitted-despite-"+viol[0]
		// two shapes with their own signature (see findings.d/C22.json): every violated clause is one the
		// code never evaluates for this submission
		skipped := map[string]bool{"expired": true, "expiring-within-60s": true, "fee-too-low": true, "invalid-recipient": true,
			"blacklisted": true, "sender-at-limit": true}
		member := map[string]bool{"member-eth-nonce-too-low": true, "member-eth-nonce-already-pending": true}
		onlyMember, onlySkipped := true, true
		for _, v := range viol {
			if !member[v] {
				onlyMember = false
			}
			if !member[v] && !skipped[v] {
				onlySkipped = false
			}
		}
		if onlyMember {
			site, kind = "evmTxNonceCheck", "admitted-group-with-unchecked-non-head-eth-member-nonce"
		} else if rec.Fwd && onlySkipped {
			site, kind = "checkTxs-forward2main", "admitted-without-basic-checks"
		}
		h.pred(site, kind, fmt.Sprintf("tx=t%d viol=%v res=%s before=[%s]", rec.ID, viol, res, before.Text))
	}
	if rec.Fwd {
		h.Out.Stat("submit_forwarded_to_main", 1)
	}
	if len(viol) == 0 {
		h.Out.Stat("submit_acceptable", 1)
	}
	for _, v := range viol {
		h.Out.Stat("submit_violates_"+v, 1)
	}
	if admitted {
		h.Out.Stat("submit_admitted", 1)
	}
	if rec.Group {
		h.Out.Stat("submit_group", 1)
	}
}

// levelRate re-computes the tiered fee rate from the pool's bytes and size (getLevelFeeRate).
func (h *H) levelRate(s *Snap) int64 {
	base := h.E.Cfg.MinFee
	maxNum := h.E.CCfg.GetP(s.St.Height).MaxTxNumber
	sumByte := s.St.Bytes
	n := int64(len(s.St.Queue))
	var r int64
	switch {
	case sumByte >= int64(types.MaxBlockSize/20) || n >= maxNum/2:
		r = 100 * base
	case sumByte >= int64(types.MaxBlockSize/100) || n >= maxNum/10:
		r = 10 * base
	default:
		r = base
	}
	if r > h.E.Cfg.MaxRate {
		r = h.E.Cfg.MaxRate
	}
	return r
}

// ------------------------------------------------------------------ C23

// canonList renders a returned tx list canonically: entries that are not nonce-sorted keep
// their order; the nonce-sorted eth entries (which the implementation emits per sender in Go
// map order) are grouped by sender alias, ascending, keeping each sender's own order.
func (h *H) canonList(txs []*types.Transaction) string {
	var plain []string
	eth := map[int][]string{}
	hasEth := false
	for _, tx := range txs {
		id, ok := h.Reg.byHash[string(tx.Hash())]
		if ok && h.Reg.ByID[id] != nil && h.Reg.ByID[id].EthSort {
			hasEth = true
		}
	}
	for _, tx := range txs {
		id, ok := h.Reg.byHash[string(tx.Hash())]
		if hasEth && ok && h.Reg.ByID[id] != nil && h.Reg.ByID[id].EthSort {
			s := h.Reg.ByID[id].Snd
			eth[s] = append(eth[s], h.al(tx))
			continue
		}
		plain = append(plain, h.al(tx))
	}
	var keys []int
	for k := range eth {
		keys = append(keys, k)
	}
	sort.Ints(keys)
	out := dash(plain)
	for _, k := range keys {
		out += fmt.Sprintf(" | %d:%s", k, strings.Join(eth[k], ","))
	}
	return out
}

func (h *H) opTxList(line string, f []string) {
	if len(f) < 2 {
		h.emit(line, "bad-op")
		return
	}
	count := atoi(f[1])
	excl := ids(f[2:])
	var hashes [][]byte
	for _, id := range excl {
		if m := h.Reg.MemByID[id]; m != nil {
			hashes = append(hashes, m.Hash)
		}
	}
	h.E.Tick()
	msg, err := h.E.call(types.EventTxList, &types.TxHashList{Count: count, Hashes: hashes})
	h.E.Tock()
	if err != nil {
		h.emit(line, errStr(err))
		return
	}
	rl, ok := msg.GetData().(*types.ReplyTxList)
	if !ok {
		h.emit(line, replyName(msg.GetData()))
		return
	}
	h.emit(line, h.canonList(rl.Txs))
	h.checkTxList(rl.Txs, count, hashes, "eventTxList")
	h.Out.Stat("txlist_calls", 1)
	h.Out.Stat("txlist_returned", int64(len(rl.Txs)))
}

// checkTxList is the C23 predicate on one returned list.
func (h *H) checkTxList(txs []*types.Transaction, count int64, excl [][]byte, site string) {
	if h.Prop != "C23" {
		return
	}
	s := h.Dump()
	detail := func() string { return fmt.Sprintf("count=%d returned=%s %s now=%d", count, h.listNames(txs), s.Text, h.E.Now()) }
	if count > 0 && int64(len(txs)) > count {
		h.pred(site, "more-than-requested", detail())
	}
	seen := map[string]bool{}
	for _, tx := range txs {
		k := string(tx.Hash())
		if seen[k] {
			h.pred(site, "duplicate-in-list", detail())
		}
		seen[k] = true
	}
	for _, x := range excl {
		if seen[string(x)] {
			h.pred(site, "excluded-hash-returned", detail())
		}
	}
	// expiry for the next block, by height / block time / pool age — from the harness' knowledge
	height := s.St.Height + 1
	bt := s.St.BlkTime
	enter := map[string]int64{}
	qpos := map[string]int{}
	for i, it := range s.St.Queue {
		enter[string(it.Tx.Hash())] = it.Enter
		qpos[string(it.Tx.Hash())] = i
	}
	for _, tx := range txs {
		k := string(tx.Hash())
		if _, ok := qpos[k]; !ok {
			h.pred(site, "returned-tx-not-pooled", detail())
			continue
		}
		id := h.Reg.byHash[k]
		rec := h.Reg.ByID[id]
		if rec == nil {
			continue
		}
		for _, m := range rec.Members {
			exp := m.Tx.Expire
			switch {
			case exp == 0:
			case exp <= types.ExpireBound:
				if exp <= height {
					h.pred(site, "expired-by-height-returned", detail())
				}
			case exp > types.TxHeightFlag && !h.E.Cfg.Para:
				th := exp - types.TxHeightFlag
				if !(th-types.LowAllowPackHeight <= height && height <= th+types.HighAllowPackHeight) {
					h.pred(site, "expired-by-txheight-returned", detail())
				}
			default:
				if exp <= bt {
					h.pred(site, "expired-by-time-returned", detail())
				}
			}
		}
		if h.E.Now()-enter[k] >= 600 {
			h.pred(site, "expired-by-age-returned", detail())
		}
	}
	// non-eth keep arrival order; eth per sender consecutive nonces from the current nonce
	last := -1
	ethBy := map[string][]*types.Transaction{}
	paraBy := map[string][]*types.Transaction{}
	for _, tx := range txs {
		k := string(tx.Hash())
		rec := h.Reg.ByID[h.Reg.byHash[k]]
		if rec != nil && rec.EthSig && !rec.EthSort {
			// eth-signed with a para-chain executor: the property text makes no exception for them
			paraBy[tx.From()] = append(paraBy[tx.From()], tx)
		}
		if rec != nil && rec.EthSort {
			ethBy[tx.From()] = append(ethBy[tx.From()], tx)
			continue
		}
		if p, ok := qpos[k]; ok {
			if p <= last {
				h.pred(site, "non-eth-out-of-arrival-order", detail())
			}
			last = p
		}
	}
	for addr, l := range ethBy {
		h.E.mu.Lock()
		cur := h.E.nonce[addr]
		h.E.mu.Unlock()
		for i, tx := range l {
			if tx.Nonce != cur+int64(i) {
				h.pred(site, "eth-nonces-not-consecutive-from-current", detail())
				break
			}
		}
		h.Out.Stat("txlist_eth_senders", 1)
	}
	for addr, l := range paraBy {
		h.E.mu.Lock()
		cur := h.E.nonce[addr]
		h.E.mu.Unlock()
		for i, tx := range l {
			if tx.Nonce != cur+int64(i) {
				h.pred("sortEthSignTyTx", "eth-signed-para-exec-not-nonce-ordered", detail())
				break
			}
		}
		h.Out.Stat("txlist_eth_para_senders", 1)
	}
}
