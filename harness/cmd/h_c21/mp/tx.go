package mp

import (
	"crypto/sha256"
	"encoding/hex"
	"fmt"
	"sort"
	"strconv"
	"strings"

	"github.com/33cn/chain33/common/address"
	"github.com/33cn/chain33/common/crypto"
	ethaddr "github.com/33cn/chain33/system/address/eth"
	"github.com/33cn/chain33/system/crypto/secp256k1eth"
	"github.com/33cn/chain33/types"
)

// NKeys is the number of deterministic keys of each kind.
const NKeys = 8

var (
	k1Keys  []crypto.PrivKey // secp256k1, btc-format addresses
	ethKeys []crypto.PrivKey // secp256k1eth, eth-format addresses
	// EthSignTy is the signature type id the mempool treats as "eth-signed".
	EthSignTy = types.EncodeSignID(secp256k1eth.ID, ethaddr.ID)
)

func init() {
	c1, err := crypto.Load(types.GetSignName("", types.SECP256K1), -1)
	if err != nil {
		panic(err)
	}
	c2, err := crypto.Load(secp256k1eth.Name, -1)
	if err != nil {
		panic(err)
	}
	for i := 0; i < NKeys; i++ {
		s := sha256.Sum256([]byte(fmt.Sprintf("verif-mempool-key-%d", i)))
		p, err := c1.PrivKeyFromBytes(s[:])
		if err != nil {
			panic(err)
		}
		k1Keys = append(k1Keys, p)
		s2 := sha256.Sum256([]byte(fmt.Sprintf("verif-mempool-ethkey-%d", i)))
		p2, err := c2.PrivKeyFromBytes(s2[:])
		if err != nil {
			panic(err)
		}
		ethKeys = append(ethKeys, p2)
	}
}

// K1Addr is the btc-format address of secp256k1 key i.
func K1Addr(i int) string {
	return address.PubKeyToAddr(address.DefaultID, k1Keys[i%NKeys].PubKey().Bytes())
}

// EthAddr is the From() address of an eth-signed tx of eth key i.
func EthAddr(i int) string {
	return address.PubKeyToAddr(types.ExtractAddressID(EthSignTy), ethKeys[i%NKeys].PubKey().Bytes())
}

// TxP are the generation parameters of one (member) transaction; they are the part of a
// `def` line before ';' and fully determine the real transaction.
type TxP struct {
	Key   int    // key index
	Sig   string // k1 | eth | bad (k1 signature with a flipped byte) | ebad | nil (unsigned)
	Nonce int64
	Fee   int64
	Exp   int64
	Pay   int    // payload length
	To    string // k<i> (valid address of key i) | bad (not an address)
	Exec  string // none | para (user.p.verif.none)
}

func (p TxP) String() string {
	return fmt.Sprintf("k=%d sg=%s n=%d fee=%d exp=%d pl=%d to=%s ex=%s", p.Key, p.Sig, p.Nonce, p.Fee, p.Exp, p.Pay, p.To, p.Exec)
}

func kv(fields []string) map[string]string {
	m := map[string]string{}
	for _, f := range fields {
		if i := strings.IndexByte(f, '='); i > 0 {
			m[f[:i]] = f[i+1:]
		}
	}
	return m
}

func atoi(s string) int64 {
	n, _ := strconv.ParseInt(s, 10, 64)
	return n
}

// ParseTxP reads the k=v fields written by TxP.String.
func ParseTxP(m map[string]string) TxP {
	return TxP{Key: int(atoi(m["k"])), Sig: m["sg"], Nonce: atoi(m["n"]), Fee: atoi(m["fee"]), Exp: atoi(m["exp"]),
		Pay: int(atoi(m["pl"])), To: m["to"], Exec: m["ex"]}
}

func execName(e string) string {
	if e == "para" {
		return "user.p.verif.none"
	}
	return "none"
}

func toAddr(t string) string {
	if strings.HasPrefix(t, "k") {
		return K1Addr(int(atoi(t[1:])))
	}
	return "notaddress"
}

// build constructs the unsigned transaction.
func (p TxP) build(chainID int32) *types.Transaction {
	pay := make([]byte, p.Pay)
	for i := range pay {
		pay[i] = byte(0x40 + i%50)
	}
	return &types.Transaction{Execer: []byte(execName(p.Exec)), Payload: pay, Fee: p.Fee, Expire: p.Exp,
		Nonce: p.Nonce, To: toAddr(p.To), ChainID: chainID}
}

// sign applies the signature spec.
func (p TxP) sign(tx *types.Transaction) {
	switch p.Sig {
	case "k1", "bad":
		tx.Sign(types.SECP256K1, k1Keys[p.Key%NKeys])
	case "eth", "ebad":
		tx.Sign(EthSignTy, ethKeys[p.Key%NKeys])
	default:
		tx.Signature = nil
		return
	}
	if p.Sig == "bad" || p.Sig == "ebad" {
		s := append([]byte{}, tx.Signature.Signature...)
		s[len(s)/2] ^= 0x55
		tx.Signature.Signature = s
	}
}

// sigValid: the harness' own knowledge of whether the signature verifies.
func (p TxP) sigValid() bool { return p.Sig == "k1" || p.Sig == "eth" }

// isEth: eth-signed and not a para-chain tx (the class sortEthSignTyTx / evmTxNonceCheck act on
// is decided by the signature type; the para exclusion applies to sorting only).
func (p TxP) isEthSig() bool { return p.Sig == "eth" || p.Sig == "ebad" }

// Member is one member-level transaction with its abstract attributes.
type Member struct {
	P     TxP
	Tx    *types.Transaction
	ID    int // alias number: t<ID>
	Hash  []byte
	Snd   int // sender alias number
	Size  int // types.Size(tx)
	SigOK bool
	ToOK  bool
	Bl    bool // some involved account blacklisted (per harness knowledge)
}

// Rec is a defined transaction or group as it is submitted / pooled.
type Rec struct {
	ID      int                // alias of the pooled entry (= head member)
	Tx      *types.Transaction // object handed to the mempool (group: Transactions.Tx())
	Members []*Member          // 1 for a plain tx
	Group   bool
	Hash    []byte
	Snd     int
	Size    int // types.Size(Tx) — what the pool's byte counter adds
	Fee     int64
	Exp     int64 // Tx.Expire (head)
	EthSig  bool  // signature type is the eth type
	EthSort bool  // EthSig and not para exec: subject to nonce ordering
	Nonce   int64
	SHash   string
	GFee    int64 // defg: head fee override (0 = keep)
	Fwd     bool  // para-chain node and not this para chain's executor: types.IsForward2MainChainTx (harness knowledge)
	Rate    int64 // defg: fee rate handed to CreateTxGroup
}

// Reg is the alias registry of one harness run.
type Reg struct {
	ChainID int32
	ByID    map[int]*Rec    // pooled-entry records by head id
	MemByID map[int]*Member // member-level by id
	byHash  map[string]int
	sndIdx  map[string]int
	Snds    []string
	NextID  int
	Black   map[string]bool // blacklisted addresses (harness knowledge)
	Para    bool            // the current env is a para-chain node
}

// NewReg makes an empty registry.
func NewReg(chainID int32) *Reg {
	return &Reg{ChainID: chainID, ByID: map[int]*Rec{}, MemByID: map[int]*Member{}, byHash: map[string]int{},
		sndIdx: map[string]int{}, Black: map[string]bool{}, NextID: 1}
}

// ResetDefs forgets all definitions (a new history starts); alias numbers keep growing and
// sender aliases persist.
func (r *Reg) ResetDefs() {
	r.ByID = map[int]*Rec{}
	r.MemByID = map[int]*Member{}
	r.byHash = map[string]int{}
}

// SndAlias returns the alias number of an address (allocated on first use).
func (r *Reg) SndAlias(addr string) int {
	if i, ok := r.sndIdx[addr]; ok {
		return i
	}
	i := len(r.Snds)
	r.sndIdx[addr] = i
	r.Snds = append(r.Snds, addr)
	return i
}

// AliasOfHash returns t<id> for a known hash, else x<hex8>.
func (r *Reg) AliasOfHash(h []byte) string {
	if id, ok := r.byHash[string(h)]; ok {
		return "t" + strconv.Itoa(id)
	}
	n := len(h)
	if n > 4 {
		n = 4
	}
	return "x" + hex.EncodeToString(h[:n])
}

func (r *Reg) member(p TxP, tx *types.Transaction, id int) *Member {
	m := &Member{P: p, Tx: tx, ID: id, Hash: tx.Hash(), Size: types.Size(tx), SigOK: p.sigValid(), ToOK: strings.HasPrefix(p.To, "k")}
	m.Snd = r.SndAlias(tx.From())
	m.Bl = r.Black[tx.From()] || r.Black[tx.To]
	return m
}

// Define creates a plain transaction with alias id.
func (r *Reg) Define(id int, p TxP) *Rec {
	tx := p.build(r.ChainID)
	p.sign(tx)
	if o, ok := r.byHash[string(tx.Hash())]; ok && o != id {
		return nil // same hash as an already defined tx: one alias per hash
	}
	m := r.member(p, tx, id)
	rec := &Rec{ID: id, Tx: tx, Members: []*Member{m}}
	r.finish(rec)
	return rec
}

// DefineGroup creates a group; members get ids id, id+1, ...; gfee != 0 overrides the head fee
// after CreateTxGroup (then the group is re-linked with RebuiltGroup).
func (r *Reg) DefineGroup(id int, ps []TxP, rate, gfee int64) (*Rec, error) {
	var txs []*types.Transaction
	for _, p := range ps {
		txs = append(txs, p.build(r.ChainID))
	}
	g, err := types.CreateTxGroup(txs, rate)
	if err != nil {
		return nil, err
	}
	if gfee != 0 {
		g.Txs[0].Fee = gfee
		g.RebuiltGroup()
	}
	for i := range ps {
		if o, ok := r.byHash[string(g.Txs[i].Hash())]; ok && o != id+i {
			return nil, types.ErrTxExist
		}
	}
	rec := &Rec{ID: id, Group: true, GFee: gfee, Rate: rate}
	for i, p := range ps {
		p.Fee = g.Txs[i].Fee
		p.sign(g.Txs[i])
		rec.Members = append(rec.Members, r.member(p, g.Txs[i], id+i))
	}
	rec.Tx = g.Tx()
	r.finish(rec)
	return rec, nil
}

func (r *Reg) finish(rec *Rec) {
	h := rec.Members[0]
	rec.Hash = rec.Tx.Hash()
	rec.Snd = r.SndAlias(rec.Tx.From())
	rec.Size = types.Size(rec.Tx)
	rec.Fee = rec.Tx.Fee
	rec.Exp = rec.Tx.Expire
	rec.EthSig = h.P.isEthSig()
	rec.EthSort = rec.EthSig && h.P.Exec != "para"
	rec.Nonce = rec.Tx.Nonce
	rec.SHash = types.CalcTxShortHash(rec.Hash)
	rec.Fwd = r.Para && h.P.Exec != "para"
	r.ByID[rec.ID] = rec
	for _, m := range rec.Members {
		r.MemByID[m.ID] = m
		r.byHash[string(m.Hash)] = m.ID
		if m.ID >= r.NextID {
			r.NextID = m.ID + 1
		}
	}
}

func b01(b bool) string {
	if b {
		return "1"
	}
	return "0"
}

// Derived renders the abstract attributes of rec for the model (the part of a def line after ';').
// m=<id>:<snd>:<size>:<fee>:<exp>:<sigok>:<took>:<bl>:<signed>:<eth>:<nonce> per member.
func (rec *Rec) Derived() string {
	var ms []string
	for _, m := range rec.Members {
		ms = append(ms, fmt.Sprintf("%d:%d:%d:%d:%d:%s:%s:%s:%s:%s:%d", m.ID, m.Snd, m.Size, m.Tx.Fee, m.Tx.Expire,
			b01(m.SigOK), b01(m.ToOK), b01(m.Bl), b01(m.Tx.Signature != nil), b01(m.P.isEthSig()), m.Tx.Nonce))
	}
	return fmt.Sprintf("id=%d snd=%d size=%d fee=%d exp=%d eth=%s es=%s nonce=%d sh=%s fwd=%s m=%s", rec.ID, rec.Snd, rec.Size, rec.Fee,
		rec.Exp, b01(rec.EthSig), b01(rec.EthSort), rec.Nonce, rec.SHash, b01(rec.Fwd), strings.Join(ms, ","))
}

// DefLine renders the full def/defg op line.
func (rec *Rec) DefLine() string {
	if !rec.Group {
		return fmt.Sprintf("def t%d %s ; %s", rec.ID, rec.Members[0].P.String(), rec.Derived())
	}
	var parts []string
	for _, m := range rec.Members {
		p := m.P
		parts = append(parts, fmt.Sprintf("%d/%s/%d/%d/%d/%s/%s", p.Key, p.Sig, p.Nonce, p.Exp, p.Pay, p.To, p.Exec))
	}
	return fmt.Sprintf("defg t%d rate=%d gfee=%d ms=%s ; %s", rec.ID, rec.Rate, rec.GFee, strings.Join(parts, ","), rec.Derived())
}

// ParseGroupMembers reads the ms= field of a defg line.
func ParseGroupMembers(s string) []TxP {
	var ps []TxP
	for _, part := range strings.Split(s, ",") {
		f := strings.Split(part, "/")
		if len(f) != 7 {
			continue
		}
		ps = append(ps, TxP{Key: int(atoi(f[0])), Sig: f[1], Nonce: atoi(f[2]), Exp: atoi(f[3]), Pay: int(atoi(f[4])), To: f[5], Exec: f[6]})
	}
	return ps
}

// SortedSnds returns the sender aliases present in m, sorted.
func SortedSnds(m map[int]bool) []int {
	var s []int
	for k := range m {
		s = append(s, k)
	}
	sort.Ints(s)
	return s
}
