// h_c22 drives mempool admission (EventTx → checkTxs → checkSign → checkTxRemote → PushTx) on the
// real Mempool: against generated pool / chain states it submits plain transactions and groups
// with each admission clause violated in turn (bad signature, already pooled, already on chain,
// expired for the next block, fee below the minimum incl. the tiered fee, invalid recipient,
// sender at its limit, blacklisted account, eth nonce too low / already pending), plus acceptable
// ones.  Reply and full pool state are compared with the Lean model (C22.admitTx); the C22
// predicate (admitted ⇒ no clause violated; rejected ⇒ pool unchanged) is evaluated from the
// harness' own knowledge of what it generated.
package main

import (
	"fmt"
	"strings"

	"verifharness/cmd/h_c21/mp"
	"verifharness/internal/gen"
)

var out = gen.NewOut()

func main() {
	defer out.Flush()
	h := mp.NewH(out, "C22")
	if lines := gen.ReplayLines(); lines != nil {
		h.Redo = true
		for _, l := range lines {
			h.Do(l)
		}
		h.EndHistory()
		return
	}
	r := gen.New(gen.Seed())
	n := gen.Scale(70, 900)
	for i := 0; i < n; i++ {
		history(h, r, i)
	}
	h.EndHistory()
}

const minFee = 100000

// need is the minimum fee of a plain signed tx with this payload at the given rate
// (payload sizes are chosen away from the 1000-byte steps).
func need(pay int, rate int64) int64 { return int64((pay+175)/1000+1) * rate }

type hist struct {
	g     *mp.Gen
	r     *gen.Rand
	h     *mp.H
	level bool
	n     int64 // nonce counter for fresh transactions
}

func (s *hist) fresh() mp.TxP {
	r := s.r
	s.n++
	pay := []int{0, 10, 100, 700, 1500, 2500}[r.Pick(3, 5, 3, 2, 1, 1)]
	p := mp.TxP{Key: r.Intn(4), Sig: "k1", Nonce: 5000000 + s.n, Pay: pay, To: fmt.Sprintf("k%d", r.Intn(4)), Exec: "none"}
	p.Fee = need(pay, minFee) + int64(r.Intn(2))*30000
	if r.Chance(1, 10) || (s.g.Cfg().Para && r.Bool()) {
		p.Exec = "para"
	}
	return p
}

func (s *hist) pooled() []int {
	var l []int
	for _, it := range s.h.Dump().St.Queue {
		a := s.h.Reg.AliasOfHash(it.Tx.Hash())
		var id int
		fmt.Sscanf(a, "t%d", &id)
		if id > 0 {
			l = append(l, id)
		}
	}
	return l
}

// okExpire: an Expire value that is not expired for the next block.
func (s *hist) okExpire() int64 {
	hh, bt, now := s.g.Height()
	switch s.r.Pick(4, 2, 2) {
	case 0:
		return 0
	case 1:
		return hh + 2 + int64(s.r.Intn(3))
	default:
		t := bt
		if now > t {
			t = now
		}
		return t + 60 + int64(s.r.Intn(100))
	}
}

// badExpire: expired for the next block; kind 0 height, 1 block time, 2 only the now+60 s wall-clock
// window (later than the header's block time), 3 TxHeight window not reached; -1 picks one.
func (s *hist) badExpire(kind int) int64 {
	hh, bt, now := s.g.Height()
	if kind < 0 {
		kind = s.r.Pick(3, 2, 3, 1)
	}
	switch kind {
	case 0:
		return hh + 1 - int64(s.r.Intn(2)) // == next height, or below
	case 1:
		return bt - int64(s.r.Intn(3))
	case 2:
		t := now + 59 - int64(s.r.Intn(30))
		if t <= bt {
			t = bt + 1 + int64(s.r.Intn(5))
		}
		if t >= now+60 {
			t = now + 59
		}
		return t // later than the block time, but inside the 60 s guard
	default:
		return mp.TxHeightFlag() + hh + 1 + 250 // TxHeight window not reached yet
	}
}

var kinds = []string{"ok", "mnonce", "badsig", "inpool", "onchain", "expired", "exp_h", "exp_t", "exp_w", "exp_x", "feelow", "badto", "limit", "black", "noncelow", "noncepend", "ethok", "execbad", "feeexact", "expedge"}

func (s *hist) submitOne(kind string, group bool) {
	r, g := s.r, s.g
	p := s.fresh()
	p.Exp = s.okExpire()
	var extra []mp.TxP // further group members
	if group {
		k := r.Range(1, 2)
		if strings.HasPrefix(kind, "exp") {
			k = r.Range(1, 3) // expiry on head / middle / last member of groups of 2..4
		}
		for j := 0; j < k; j++ {
			q := s.fresh()
			q.Exec = p.Exec
			q.Exp = s.okExpire()
			extra = append(extra, q)
		}
	}
	// the member that carries the violation
	all := append([]mp.TxP{p}, extra...)
	v := r.Intn(len(all))
	gfeeDelta := int64(0)
	pre := func() {}
	switch kind {
	case "badsig":
		all[v].Sig = []string{"bad", "nil"}[r.Intn(2)]
	case "expired":
		all[v].Exp = s.badExpire(-1)
		if group && r.Chance(1, 4) {
			all[r.Intn(len(all))].Exp = s.badExpire(-1) // a second expiring member
		}
	case "exp_h", "exp_t", "exp_w", "exp_x":
		all[v].Exp = s.badExpire(strings.Index("htwx", kind[4:]))
		if group {
			// the other members are plainly acceptable: no expiry or far in the future
			for j := range all {
				if j != v {
					all[j].Exp = []int64{0, mp.BaseTime + 100000}[r.Intn(2)]
				}
			}
			pos := "middle"
			if v == 0 {
				pos = "head"
			} else if v == len(all)-1 {
				pos = "last"
			}
			out.Stat("scenario_group_expiry_on_"+pos, 1)
		}
	case "expedge":
		hh, _, _ := g.Height()
		all[v].Exp = hh + 1 + int64(r.Intn(2)) // next height (expired) or the one after (fine)
	case "badto":
		all[v].To = "bad"
	case "black":
		if r.Bool() {
			all[v].Key = 6 + r.Intn(2)
		} else {
			all[v].To = fmt.Sprintf("k%d", 6+r.Intn(2))
		}
	case "feelow":
		if group {
			gfeeDelta = -1 - int64(r.Intn(2))*50000
		} else {
			all[0].Fee = need(all[0].Pay, minFee) - 1 - int64(r.Intn(2))*50000
			if all[0].Fee < 0 {
				all[0].Fee = 0
			}
		}
	case "feeexact":
		if !group {
			all[0].Fee = need(all[0].Pay, minFee)
		}
	case "noncelow", "noncepend", "ethok":
		all[0].Sig = "eth"
		all[0].Key = r.Intn(3)
		all[0].Nonce = int64(r.Range(0, 6))
	case "mnonce":
		// an eth-signed member behind the head whose nonce is below the sender's current nonce or pending
		if group {
			j := 1 + r.Intn(len(all)-1)
			all[j].Sig, all[j].Key, all[j].Nonce = "eth", r.Intn(3), int64(r.Range(0, 4))
			v = j
		}
	case "limit":
		// fill the sender of member v up to the limit first
		key := all[v].Key
		pre = func() {
			for i := int64(0); i < g.Cfg().Per; i++ {
				q := s.fresh()
				q.Key = key
				q.Exp = 0
				id := g.Define(q)
				g.PushID(id)
			}
		}
	}
	pre()
	var id int
	if group {
		id = g.DefineGroup(all, minFee, 0)
		if id == 0 {
			return
		}
		if gfeeDelta != 0 {
			fee := s.h.Reg.ByID[id].Fee
			id = g.DefineGroup(all, minFee, fee+gfeeDelta)
			if id == 0 {
				return
			}
		}
	} else {
		id = g.Define(all[0])
	}
	rec := s.h.Reg.ByID[id]
	switch kind {
	case "inpool":
		if r.Bool() {
			g.SubmitID(id)
		} else {
			g.PushID(id)
		}
	case "onchain":
		g.Do(fmt.Sprintf("chain+ t%d", rec.Members[v].ID))
	case "execbad":
		g.Do(fmt.Sprintf("execbad t%d 1", id))
	case "noncelow":
		g.Do(fmt.Sprintf("nonce %d %d", rec.Snd, rec.Nonce+1+int64(r.Intn(2))))
	case "noncepend":
		// another pooled tx of the same sender with the same nonce
		q := s.fresh()
		q.Sig, q.Key, q.Nonce, q.Exp = "eth", all[0].Key, all[0].Nonce, 0
		q.Pay = 10
		q.Fee = need(10, minFee) + 7
		oid := g.Define(q)
		g.Do(fmt.Sprintf("nonce %d %d", rec.Snd, r.Intn(int(rec.Nonce)+1)))
		g.PushID(oid)
	case "ethok":
		g.Do(fmt.Sprintf("nonce %d %d", rec.Snd, r.Intn(int(rec.Nonce)+1)))
	case "mnonce":
		if group {
			m := rec.Members[v]
			if r.Bool() {
				g.Do(fmt.Sprintf("nonce %d %d", m.Snd, m.Tx.Nonce+1))
			} else {
				q := s.fresh()
				q.Sig, q.Key, q.Nonce, q.Exp, q.Pay = "eth", m.P.Key, m.Tx.Nonce, 0, 10
				q.Fee = need(10, minFee) + 9
				g.PushID(g.Define(q))
			}
		}
	}
	g.SubmitID(id)
	out.Stat("scenario_"+kind, 1)
	if group {
		out.Stat("scenario_group", 1)
	}
}

func history(h *mp.H, r *gen.Rand, idx int) {
	g := mp.NewGen(h, r)
	s := &hist{g: g, r: r, h: h}
	level := idx%6 == 5
	if level {
		levelHistory(s)
		return
	}
	hh0 := int64(r.Range(1, 40))
	bt0 := int64(mp.BaseTime + r.Intn(1000))
	capn := int64(r.Range(3, 12))
	if r.Chance(1, 10) {
		capn = int64(r.Range(1, 2))
	}
	// every fourth history runs on a para-chain node: main-chain executors ("none") are then
	// "forwarded to the main chain" and skip the basic checks (types.IsForward2MainChainTx)
	para := idx%4 == 2
	if para {
		out.Stat("scenario_para_history", 1)
	}
	g.EnvRaw(mp.EnvCfg{Cap: capn, ShMax: capn, Per: int64(r.Range(1, 3)), Last: int64(r.Range(1, 4)), MinFee: minFee, MaxRate: 10000000, Para: para,
		Height: hh0, BlkTime: bt0, Now: bt0 + int64(r.Intn(30))})
	// some initial pool / chain state
	for i := r.Intn(4); i > 0; i-- {
		p := s.fresh()
		p.Exp = s.okExpire()
		id := g.Define(p)
		if r.Bool() {
			g.SubmitID(id)
		} else {
			g.PushID(id)
		}
	}
	nsub := r.Range(6, 16)
	for i := 0; i < nsub; i++ {
		kind := kinds[(idx+i*7+r.Intn(3))%len(kinds)]
		grp := r.Chance(1, 3)
		if kind == "mnonce" {
			grp = true
		}
		if strings.HasPrefix(kind, "exp") {
			grp = r.Chance(3, 5) // expiry clauses matter most on members of groups
		}
		s.submitOne(kind, grp)
		switch r.Pick(6, 1, 1, 1) {
		case 1:
			g.AddBlock()
		case 2:
			g.Clock()
		case 3:
			if l := s.pooled(); len(l) > 0 {
				g.Do(fmt.Sprintf("rm t%d", l[r.Intn(len(l))]))
			}
		}
	}
	if idx < 2 {
		out.Sample(strings.Join(g.Lines(), " ; "))
	}
}

// levelHistory: tiered fee enabled; big transactions pushed directly raise the pool's byte size
// over the 1% / 5% of MaxBlockSize thresholds, submissions carry fees around each tier's minimum.
func levelHistory(s *hist) {
	g, r := s.g, s.r
	hh := int64(r.Range(1, 30))
	bt := int64(mp.BaseTime + r.Intn(1000))
	g.EnvRaw(mp.EnvCfg{Cap: 16, ShMax: 16, Per: 16, Last: 3, MinFee: minFee, MaxRate: []int64{10000000, 5 * minFee}[r.Intn(2)], Level: true, Height: hh, BlkTime: bt, Now: bt + 5})
	bigs := []int{0, 3, 11, 12}[r.Intn(4)] // 0 / >=200000 bytes / >=1000000 bytes
	for i := 0; i < bigs; i++ {
		p := s.fresh()
		p.Pay = 95000
		p.Fee = 100 * minFee * 100
		p.Key = r.Intn(4)
		p.Exp = 0
		p.Exec = "none"
		g.PushID(g.Define(p))
	}
	for i := 0; i < 6; i++ {
		p := s.fresh()
		p.Exp = 0
		p.Exec = "none"
		mult := []int64{1, 10, 100}[r.Intn(3)]
		p.Fee = need(p.Pay, minFee*mult) - int64(r.Intn(2))
		if r.Chance(1, 3) {
			q := s.fresh()
			q.Exp, q.Exec = 0, "none"
			id := g.DefineGroup([]mp.TxP{p, q}, minFee*mult, 0)
			if id != 0 {
				if r.Bool() {
					id = g.DefineGroup([]mp.TxP{p, q}, minFee*mult, s.h.Reg.ByID[id].Fee-1)
				}
				g.SubmitID(id)
			}
			continue
		}
		g.SubmitID(g.Define(p))
	}
	out.Stat("scenario_level_history", 1)
}
