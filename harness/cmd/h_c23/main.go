// h_c23 drives what the mempool hands to block producers (EventTxList → getTxList /
// filterTxList / sortEthSignTyTx, and EventGetMempool) on the real Mempool: generated pool
// contents with mixed signature types, per-sender nonce gaps and duplicates, transactions
// expiring by height / block time / TxHeight / pool age, queried with generated counts and
// exclusion lists at generated heights and times.  The canonicalised list is compared with the
// Lean model (C23.getTxList) and the C23 predicate is evaluated on every returned list.
package main

import (
	"fmt"
	"strings"

	"verifharness/cmd/h_c21/mp"
	"verifharness/internal/gen"
)

var out = gen.NewOut()

func main() {
	defer out.Flush()
	h := mp.NewH(out, "C23")
	if lines := gen.ReplayLines(); lines != nil {
		h.Redo = true
		for _, l := range lines {
			h.Do(l)
		}
		h.EndHistory()
		return
	}
	r := gen.New(gen.Seed())
	n := gen.Scale(150, 3000)
	for i := 0; i < n; i++ {
		history(h, r, i)
	}
	h.EndHistory()
}

func history(h *mp.H, r *gen.Rand, idx int) {
	g := mp.NewGen(h, r)
	hh := int64(r.Range(1, 40))
	bt := int64(mp.BaseTime + r.Intn(1000))
	capn := int64(r.Range(3, 14))
	g.EnvRaw(mp.EnvCfg{Cap: capn, ShMax: capn, Per: int64(r.Range(2, 8)), Last: 3, MinFee: 100000, MaxRate: 10000000,
		Height: hh, BlkTime: bt, Now: bt + int64(r.Intn(20))})
	// pool contents: plain, eth-signed with small nonces (gaps and duplicates), para-chain eth, groups
	n := r.Range(3, 14)
	next := []int64{int64(r.Intn(3)), int64(r.Intn(3)), int64(r.Intn(3))}
	for i := 0; i < n; i++ {
		p := g.TxParams()
		switch r.Pick(5, 6, 1) {
		case 1:
			p.Sig, p.Key, p.Nonce = "eth", r.Intn(3), int64(r.Intn(7))
			if r.Chance(3, 5) {
				// mostly consecutive nonces per sender (in shuffled arrival order), sometimes a gap or a repeat
				p.Nonce = next[p.Key]
				next[p.Key]++
			}
		case 2:
			p.Sig, p.Key, p.Nonce, p.Exec = "eth", r.Intn(3), int64(r.Intn(4)), "para"
		}
		var id int
		if r.Chance(1, 8) {
			q := g.TxParams()
			q.Exec = p.Exec
			id = g.DefineGroup([]mp.TxP{p, q}, 100000, 0)
		} else {
			id = g.Define(p)
		}
		if id == 0 {
			continue
		}
		if r.Chance(1, 5) {
			g.SubmitID(id)
		} else {
			g.PushID(id)
		}
		if r.Chance(1, 5) {
			clock(g, r)
		}
	}
	// current nonces: mostly the smallest pooled nonce of each eth sender (so chains start), else anything
	for k := 0; k < 3; k++ {
		snd := h.Reg.SndAlias(mp.EthAddr(k))
		lo := int64(-1)
		for _, it := range h.Dump().St.Queue {
			if it.Tx.From() == mp.EthAddr(k) && (lo < 0 || it.Tx.Nonce < lo) {
				lo = it.Tx.Nonce
			}
		}
		if lo >= 0 && r.Chance(3, 4) {
			g.Do(fmt.Sprintf("nonce %d %d", snd, lo))
		} else if r.Bool() {
			g.Do(fmt.Sprintf("nonce %d %d", snd, r.Intn(5)))
		}
	}
	q := r.Range(3, 8)
	for i := 0; i < q; i++ {
		switch r.Pick(10, 2, 2, 2, 2, 1) {
		case 0:
			g.TxList()
		case 1:
			g.Do(fmt.Sprintf("getall %d", r.Intn(2)))
		case 2:
			clock(g, r)
		case 3:
			g.AddBlock()
		case 4:
			g.Nonce()
		case 5:
			g.Remove()
		}
	}
	g.TxList()
	if idx < 2 {
		out.Sample(strings.Join(g.Lines(), " ; "))
	}
}

// clock: mostly small steps; sometimes exactly to / just before the 600 s pool-age limit of the
// oldest entry; rarely far beyond it.
func clock(g *mp.Gen, r *gen.Rand) {
	switch r.Pick(7, 2, 1) {
	case 0:
		g.ClockBy(int64(r.Range(1, 120)))
	case 1:
		st := g.H.Dump().St
		_, _, now := g.Height()
		if len(st.Queue) > 0 {
			d := st.Queue[r.Intn(len(st.Queue))].Enter + 599 + int64(r.Intn(2)) - now
			if d > 0 {
				g.ClockBy(d)
				return
			}
		}
		g.ClockBy(int64(r.Range(1, 30)))
	default:
		g.Clock()
	}
}
