// h_c24 drives common/skiplist (SkipList and Queue) on generated insert/delete and push/remove
// sequences with many equal, zero, negative and extreme scores and tiny capacities.
//
// Op lines (decimal):
//   s.new | s.ins <score> <val> <lvl> | s.del <score> | s.find <score> | s.fge <score>
//   q.new <cap> | q.push <id> <score> <pri> <size> <lvl> | q.remove <id>
//   q.exist <id> | q.get <id> | q.walk <count>
// <lvl> is the level the implementation gave the new node (observed through VerifLanes after the
// call; 0 when no node with that score exists afterwards), so the model needs no RNG.
// Output of mutating ops: result + full dump (size, bytes, first, last, walk, node levels, every
// lane as indices into the bottom lane, the prev chain from the tail).
//
// The C24 predicate is evaluated on the implementation against an independent stable-sorted
// reference list kept here (not against the Lean model).
package main

import (
	"fmt"
	"math"
	"math/rand"
	"strconv"
	"strings"

	"container/list"

	"github.com/33cn/chain33/common/skiplist"
	"github.com/33cn/chain33/types"

	"verifharness/internal/gen"
)

var out = gen.NewOut()

// ---------------------------------------------------------------- items

type item struct {
	id    int
	score int64
	pri   int64
	size  int64
}

func (it *item) GetScore() int64 { return it.score }
func (it *item) Hash() []byte    { return []byte("h" + strconv.Itoa(it.id)) }
func (it *item) ByteSize() int64 { return it.size }
func (it *item) Compare(o skiplist.Scorer) int {
	oo := o.(*item)
	switch {
	case it.pri > oo.pri:
		return skiplist.Big
	case it.pri < oo.pri:
		return skiplist.Small
	}
	return skiplist.Equal
}

func key(id int) string { return "h" + strconv.Itoa(id) }

// ---------------------------------------------------------------- dumps

func joinOr(sep string, xs []string) string {
	if len(xs) == 0 {
		return "-"
	}
	return strings.Join(xs, sep)
}

func ints(xs []int) []string {
	r := make([]string, len(xs))
	for i, x := range xs {
		r[i] = strconv.Itoa(x)
	}
	return r
}

func dumpSl(sl *skiplist.SkipList, showVal func(interface{}) string) string {
	d := sl.VerifLanes()
	nodes := make([]string, len(d.Nodes))
	for i, n := range d.Nodes {
		nodes[i] = fmt.Sprintf("%d:%d:%s", n.Score, n.Level, showVal(n.Value))
	}
	lanes := make([]string, len(d.Lanes))
	for i, l := range d.Lanes {
		lanes[i] = joinOr(".", ints(l))
	}
	s := fmt.Sprintf("lvl=%d cnt=%d nodes=%s lanes=%s back=%s", d.Level, d.Count, joinOr(",", nodes), joinOr("|", lanes), joinOr(".", ints(d.Back)))
	if d.Truncated {
		s += " TRUNCATED"
	}
	return s
}

func showNat(v interface{}) string { return strconv.Itoa(v.(int)) }

func showBucket(v interface{}) string {
	l, ok := v.(*list.List)
	if !ok || l == nil {
		return "?"
	}
	var ids []string
	for e := l.Front(); e != nil; e = e.Next() {
		ids = append(ids, strconv.Itoa(e.Value.(*item).id))
	}
	return joinOr("+", ids)
}

func showItem(s skiplist.Scorer) string {
	if s == nil {
		return "nil"
	}
	return strconv.Itoa(s.(*item).id)
}

func walkIDs(q *skiplist.Queue, count int) []int {
	var ids []int
	q.Walk(count, func(v skiplist.Scorer) bool {
		ids = append(ids, v.(*item).id)
		return true
	})
	return ids
}

func dumpQ(q *skiplist.Queue) string {
	first := gen.Guard(func() string { return showItem(q.First()) })
	last := gen.Guard(func() string { return showItem(q.Last()) })
	walk := gen.Guard(func() string { return joinOr(",", ints(walkIDs(q, 0))) })
	return fmt.Sprintf("sz=%d by=%d first=%s last=%s walk=%s %s", q.Size(), q.GetCacheBytes(), first, last, walk, dumpSl(q.VerifList(), showBucket))
}

func levelOf(sl *skiplist.SkipList, score int64, lastOfEqual bool) int {
	d := sl.VerifLanes()
	lvl := 0
	for _, n := range d.Nodes {
		if n.Score == score {
			lvl = n.Level
			if !lastOfEqual {
				return lvl
			}
		}
	}
	return lvl
}

func errName(err error) string {
	switch err {
	case nil:
		return "ok"
	case types.ErrTxExist:
		return "exist"
	case types.ErrMemFull:
		return "full"
	case types.ErrNotFound:
		return "notfound"
	}
	return "err:" + err.Error()
}

// ---------------------------------------------------------------- raw skip list

type rawEnt struct {
	score int64
	val   int
}

type rawState struct {
	sl  *skiplist.SkipList
	ref []rawEnt // reference: descending score, equal scores in insertion order
}

func (s *rawState) reset() {
	s.sl = skiplist.NewSkipList(&skiplist.SkipValue{Score: -1})
	s.ref = nil
	out.Op("s.new", dumpSl(s.sl, showNat))
}

func (s *rawState) checkBottom(site string) {
	d := s.sl.VerifLanes()
	ok := len(d.Nodes) == len(s.ref) && s.sl.Len() == len(s.ref)
	if ok {
		for i, n := range d.Nodes {
			if n.Score != s.ref[i].score || n.Value.(int) != s.ref[i].val {
				ok = false
				break
			}
		}
	}
	if !ok {
		out.Pred("C24|SkipList."+site+"|bottom-lane-differs-from-sorted-reference", fmt.Sprintf("ref=%v got=%s", s.ref, dumpSl(s.sl, showNat)))
	}
}

func (s *rawState) ins(score int64, val int) {
	res := gen.Guard(func() string { s.sl.Insert(&skiplist.SkipValue{Score: score, Value: val}); return "" })
	lvl := levelOf(s.sl, score, true)
	if res == "panic" {
		out.Op(fmt.Sprintf("s.ins %d %d %d", score, val, lvl), "panic")
		out.Pred("C24|SkipList.Insert|panic", fmt.Sprintf("score=%d", score))
		return
	}
	out.Op(fmt.Sprintf("s.ins %d %d %d", score, val, lvl), dumpSl(s.sl, showNat))
	// reference: after every entry with score >= new
	p := 0
	for p < len(s.ref) && s.ref[p].score >= score {
		p++
	}
	s.ref = append(s.ref, rawEnt{})
	copy(s.ref[p+1:], s.ref[p:])
	s.ref[p] = rawEnt{score, val}
	s.checkBottom("Insert")
	out.Stat("s_ins", 1)
	out.Stat(fmt.Sprintf("s_ins_level_%s", lvlClass(lvl)), 1)
}

func lvlClass(l int) string {
	switch {
	case l <= 1:
		return "1"
	case l == 2:
		return "2"
	case l <= 4:
		return "3to4"
	}
	return "ge5"
}

func (s *rawState) del(score int64) {
	var n int
	res := gen.Guard(func() string { n = s.sl.Delete(&skiplist.SkipValue{Score: score}); return strconv.Itoa(n) })
	if res == "panic" {
		out.Op(fmt.Sprintf("s.del %d", score), "panic")
		out.Pred("C24|SkipList.Delete|panic", fmt.Sprintf("score=%d", score))
		return
	}
	out.Op(fmt.Sprintf("s.del %d", score), res+" "+dumpSl(s.sl, showNat))
	want := 0
	for i, e := range s.ref {
		if e.score == score {
			s.ref = append(s.ref[:i:i], s.ref[i+1:]...)
			want = 1
			break
		}
	}
	if n != want {
		out.Pred("C24|SkipList.Delete|result-differs-from-sorted-reference", fmt.Sprintf("score=%d got=%d want=%d", score, n, want))
	}
	s.checkBottom("Delete")
	out.Stat("s_del", 1)
	if want == 0 {
		out.Stat("s_del_absent", 1)
	}
}

func (s *rawState) find(score int64) {
	res := gen.Guard(func() string {
		v := s.sl.Find(&skiplist.SkipValue{Score: score})
		if v == nil {
			return "nil"
		}
		return strconv.Itoa(v.Value.(int))
	})
	out.Op(fmt.Sprintf("s.find %d", score), res)
	want := "nil"
	for _, e := range s.ref {
		if e.score == score {
			want = strconv.Itoa(e.val)
			break
		}
	}
	if res != want {
		out.Pred("C24|SkipList.Find|result-differs-from-sorted-reference", fmt.Sprintf("score=%d got=%s want=%s", score, res, want))
	}
	out.Stat("s_find", 1)
}

func (s *rawState) fge(score int64) {
	res := gen.Guard(func() string {
		v := s.sl.FindGreaterOrEqual(&skiplist.SkipValue{Score: score})
		if v == nil {
			return "nil"
		}
		return fmt.Sprintf("%d:%d", v.Score, v.Value.(int))
	})
	out.Op(fmt.Sprintf("s.fge %d", score), res)
	want := "nil"
	for _, e := range s.ref {
		if e.score <= score {
			want = fmt.Sprintf("%d:%d", e.score, e.val)
			break
		}
	}
	if res != want {
		out.Pred("C24|SkipList.FindGreaterOrEqual|result-differs-from-sorted-reference", fmt.Sprintf("score=%d got=%s want=%s", score, res, want))
	}
	out.Stat("s_fge", 1)
}

// ---------------------------------------------------------------- queue

type qState struct {
	q      *skiplist.Queue
	cap    int64
	ref    []*item       // reference: descending score, ties in arrival order
	known  map[int]*item // every item ever offered (for membership probes)
	nextID int
}

func (s *qState) reset(cap int64) {
	s.q = skiplist.NewQueue(cap)
	s.cap = cap
	s.ref = nil
	s.known = map[int]*item{}
	out.Op(fmt.Sprintf("q.new %d", cap), dumpQ(s.q))
	out.Stat(fmt.Sprintf("q_cap_%s", capClass(cap)), 1)
}

func capClass(c int64) string {
	switch {
	case c <= 0:
		return "le0"
	case c <= 5:
		return strconv.FormatInt(c, 10)
	case c <= 16:
		return "6to16"
	}
	return "gt16"
}

func (s *qState) refIndex(id int) int {
	for i, it := range s.ref {
		if it.id == id {
			return i
		}
	}
	return -1
}

// refPush is the property's reference semantics: (result, evicted id or -1).
func (s *qState) refPush(it *item) (string, int) {
	if s.refIndex(it.id) >= 0 {
		return "exist", -1
	}
	ev := -1
	if int64(len(s.ref)) >= s.cap {
		if len(s.ref) == 0 {
			return "undefined", -1 // capacity <= 0: the property does not say; the model says panic
		}
		last := s.ref[len(s.ref)-1]
		if it.score > last.score || (it.score == last.score && it.pri > last.pri) {
			ev = last.id
			s.ref = s.ref[:len(s.ref)-1]
		} else {
			return "full", -1
		}
	}
	p := 0
	for p < len(s.ref) && s.ref[p].score >= it.score {
		p++
	}
	s.ref = append(s.ref, nil)
	copy(s.ref[p+1:], s.ref[p:])
	s.ref[p] = it
	return "ok", ev
}

// checkAll evaluates the property predicate on the implementation's observable state.
func (s *qState) checkAll(site string, detail string) {
	q := s.q
	bad := func(kind, extra string) {
		out.Pred("C24|Queue."+site+"|"+kind, detail+" "+extra)
	}
	got := walkIDs(q, 0)
	same := len(got) == len(s.ref)
	if same {
		for i := range got {
			if got[i] != s.ref[i].id {
				same = false
				break
			}
		}
	}
	if !same {
		ids := make([]int, len(s.ref))
		for i, it := range s.ref {
			ids[i] = it.id
		}
		bad("walk-differs-from-stable-sorted-reference", fmt.Sprintf("walk=%v want=%v", got, ids))
	}
	if s.cap >= 1 && int64(q.Size()) > s.cap {
		bad("size-exceeds-capacity", fmt.Sprintf("size=%d cap=%d", q.Size(), s.cap))
	}
	if q.Size() != len(s.ref) {
		bad("size-differs-from-contents", fmt.Sprintf("size=%d want=%d", q.Size(), len(s.ref)))
	}
	var bytes int64
	for _, it := range s.ref {
		bytes += it.size
	}
	if q.GetCacheBytes() != bytes {
		bad("bytes-differ-from-contents", fmt.Sprintf("bytes=%d want=%d", q.GetCacheBytes(), bytes))
	}
	wantFirst, wantLast := "nil", "nil"
	if len(s.ref) > 0 {
		wantFirst = strconv.Itoa(s.ref[0].id)
		wantLast = strconv.Itoa(s.ref[len(s.ref)-1].id)
	}
	if f := gen.Guard(func() string { return showItem(q.First()) }); f != wantFirst {
		bad("first-is-not-highest-ranked", fmt.Sprintf("first=%s want=%s", f, wantFirst))
	}
	if l := gen.Guard(func() string { return showItem(q.Last()) }); l != wantLast {
		bad("last-is-not-lowest-ranked", fmt.Sprintf("last=%s want=%s", l, wantLast))
	}
	for id, it := range s.known {
		in := s.refIndex(id) >= 0
		if q.Exist(key(id)) != in {
			bad("exist-differs-from-contents", fmt.Sprintf("id=%d exist=%v", id, !in))
		}
		g, err := q.GetItem(key(id))
		if in && (err != nil || g != skiplist.Scorer(it)) {
			bad("getitem-misses-member", fmt.Sprintf("id=%d err=%v", id, err))
		}
		if !in && (err != types.ErrNotFound || g != nil) {
			bad("getitem-returns-non-member", fmt.Sprintf("id=%d err=%v", id, err))
		}
	}
}

func (s *qState) push(it *item) {
	s.known[it.id] = it
	res := gen.Guard(func() string { return errName(s.q.Push(it)) })
	lvl := levelOf(s.q.VerifList(), it.score, false)
	op := fmt.Sprintf("q.push %d %d %d %d %d", it.id, it.score, it.pri, it.size, lvl)
	out.Op(op, res+" "+dumpQ(s.q))
	full := int64(len(s.ref)) >= s.cap
	want, ev := s.refPush(it)
	out.Stat("q_push", 1)
	out.Stat("q_push_"+res, 1)
	if full {
		out.Stat("q_push_when_full", 1)
	}
	if ev >= 0 {
		out.Stat("q_push_evicting", 1)
	}
	if want == "undefined" {
		out.Stat("q_push_cap_le0", 1)
		return
	}
	if res != want {
		kind := "result-differs-from-reference"
		switch {
		case res == "panic":
			kind = "panic"
		case full && res == "ok" && want == "full":
			kind = "admitted-when-full-without-ranking-strictly-higher"
		case full && res == "full" && want == "ok":
			kind = "rejected-when-full-although-ranking-strictly-higher"
		case res == "ok" && want == "exist":
			kind = "duplicate-admitted"
		}
		out.Pred("C24|Queue.Push|"+kind, fmt.Sprintf("%s got=%s want=%s", op, res, want))
		if res != "ok" && want == "ok" { // keep the reference in step with what the implementation holds
			s.syncRef()
		}
		if res == "ok" && want != "ok" {
			s.syncRef()
		}
		return
	}
	s.checkAll("Push", op)
}

// syncRef re-reads the implementation's contents after a reported result mismatch so that one
// defect is not reported again on every later op.
func (s *qState) syncRef() {
	ids := walkIDs(s.q, 0)
	s.ref = s.ref[:0]
	for _, id := range ids {
		if it, ok := s.known[id]; ok {
			s.ref = append(s.ref, it)
		}
	}
}

func (s *qState) remove(id int) {
	res := gen.Guard(func() string { return errName(s.q.Remove(key(id))) })
	op := fmt.Sprintf("q.remove %d", id)
	out.Op(op, res+" "+dumpQ(s.q))
	want := "notfound"
	if i := s.refIndex(id); i >= 0 {
		want = "ok"
		s.ref = append(s.ref[:i:i], s.ref[i+1:]...)
	}
	out.Stat("q_remove", 1)
	out.Stat("q_remove_"+res, 1)
	if res != want {
		kind := "result-differs-from-reference"
		if res == "panic" {
			kind = "panic"
		}
		out.Pred("C24|Queue.Remove|"+kind, fmt.Sprintf("%s got=%s want=%s", op, res, want))
		s.syncRef()
		return
	}
	s.checkAll("Remove", op)
}

func (s *qState) exist(id int) {
	out.Op(fmt.Sprintf("q.exist %d", id), strconv.FormatBool(s.q.Exist(key(id))))
	out.Stat("q_exist", 1)
}

func (s *qState) get(id int) {
	g, err := s.q.GetItem(key(id))
	res := "notfound"
	if err == nil && g != nil {
		it := g.(*item)
		res = fmt.Sprintf("%d:%d:%d:%d", it.id, it.score, it.pri, it.size)
	} else if err != types.ErrNotFound {
		res = errName(err)
	}
	out.Op(fmt.Sprintf("q.get %d", id), res)
	out.Stat("q_get", 1)
}

func (s *qState) walk(count int) {
	ids := walkIDs(s.q, count)
	out.Op(fmt.Sprintf("q.walk %d", count), joinOr(",", ints(ids)))
	want := len(s.ref)
	if count >= 1 && count < want {
		want = count
	}
	ok := len(ids) == want
	for i := 0; ok && i < want; i++ {
		ok = ids[i] == s.ref[i].id
	}
	if !ok {
		out.Pred("C24|Queue.Walk|bounded-walk-differs-from-reference-prefix", fmt.Sprintf("count=%d got=%v", count, ids))
	}
	out.Stat("q_walk", 1)
}

// ---------------------------------------------------------------- generators

var extreme = []int64{math.MinInt64, math.MinInt64 + 1, math.MaxInt64, math.MaxInt64 - 1}

func genScore(r *gen.Rand, spread int) int64 {
	switch r.Pick(6, 2, 1, 1) {
	case 0:
		return int64(r.Range(-spread, spread))
	case 1:
		return 0
	case 2:
		return extreme[r.Intn(len(extreme))]
	}
	return int64(r.Range(-3, 3)) * 1000000007
}

func runRaw(r *gen.Rand, s *rawState, nops int, spread int) {
	s.reset()
	val := 0
	for i := 0; i < nops; i++ {
		switch r.Pick(5, 3, 1, 1) {
		case 0:
			val++
			s.ins(genScore(r, spread), val)
		case 1:
			if len(s.ref) > 0 && r.Chance(4, 5) {
				s.del(s.ref[r.Intn(len(s.ref))].score)
			} else {
				s.del(genScore(r, spread))
			}
		case 2:
			s.find(genScore(r, spread))
		case 3:
			s.fge(genScore(r, spread))
		}
	}
	// drain completely: exercises tail/level shrinking down to the empty list
	if r.Bool() {
		for n := len(s.ref) + 2; n > 0 && len(s.ref) > 0; n-- {
			s.del(s.ref[r.Intn(len(s.ref))].score)
		}
		s.del(0)
		s.ins(0, val+1)
	}
}

func runQueue(r *gen.Rand, s *qState, cap int64, nops int, spread int, priMode int) {
	s.reset(cap)
	s.nextID = 0
	for i := 0; i < nops; i++ {
		switch r.Pick(12, 6, 1, 1, 1) {
		case 0:
			var it *item
			if len(s.known) > 0 && r.Chance(1, 6) { // re-offer a known item (duplicate or re-admission)
				id := r.Intn(s.nextID) + 1
				it = s.known[id]
			}
			if it == nil {
				s.nextID++
				pri := int64(0)
				if priMode == 1 {
					pri = int64(r.Range(-1, 1))
				} else if priMode == 2 {
					pri = int64(r.Range(0, 3))
				}
				it = &item{id: s.nextID, score: genScore(r, spread), pri: pri, size: int64(r.Pick(1, 6, 1) * r.Range(0, 300))}
			}
			s.push(it)
		case 1:
			if len(s.ref) > 0 && r.Chance(5, 6) {
				s.remove(s.ref[r.Intn(len(s.ref))].id)
			} else {
				s.remove(r.Intn(s.nextID + 2))
			}
		case 2:
			s.exist(r.Intn(s.nextID + 2))
		case 3:
			s.get(r.Intn(s.nextID + 2))
		case 4:
			s.walk(r.Range(-1, len(s.ref)+1))
		}
	}
	if r.Bool() {
		// drain (bounded: a defective implementation may never get empty)
		for n := len(s.ref) + 2; n > 0 && len(s.ref) > 0; n-- {
			s.remove(s.ref[r.Intn(len(s.ref))].id)
		}
	}
}

// ---------------------------------------------------------------- replay

func atoi64(s string) (int64, bool) {
	v, err := strconv.ParseInt(s, 10, 64)
	return v, err == nil
}

func replay(lines []string) {
	raw := &rawState{}
	raw.sl = skiplist.NewSkipList(&skiplist.SkipValue{Score: -1})
	qs := &qState{}
	qs.q = skiplist.NewQueue(0)
	qs.known = map[int]*item{}
	for _, l := range lines {
		f := strings.Fields(l)
		bad := func() { out.Op(l, "bad-op") }
		if len(f) == 0 {
			bad()
			continue
		}
		var a []int64
		okAll := true
		for _, x := range f[1:] {
			v, ok := atoi64(x)
			okAll = okAll && ok
			a = append(a, v)
		}
		if !okAll {
			bad()
			continue
		}
		switch {
		case f[0] == "s.new" && len(a) == 0:
			raw.reset()
		case f[0] == "s.ins" && len(a) == 3:
			raw.ins(a[0], int(a[1]))
		case f[0] == "s.del" && len(a) == 1:
			raw.del(a[0])
		case f[0] == "s.find" && len(a) == 1:
			raw.find(a[0])
		case f[0] == "s.fge" && len(a) == 1:
			raw.fge(a[0])
		case f[0] == "q.new" && len(a) == 1:
			qs.reset(a[0])
		case f[0] == "q.push" && len(a) == 5:
			it := qs.known[int(a[0])]
			if it == nil || it.score != a[1] || it.pri != a[2] || it.size != a[3] {
				it = &item{id: int(a[0]), score: a[1], pri: a[2], size: a[3]}
			}
			if int(a[0]) > qs.nextID {
				qs.nextID = int(a[0])
			}
			qs.push(it)
		case f[0] == "q.remove" && len(a) == 1:
			qs.remove(int(a[0]))
		case f[0] == "q.exist" && len(a) == 1:
			qs.exist(int(a[0]))
		case f[0] == "q.get" && len(a) == 1:
			qs.get(int(a[0]))
		case f[0] == "q.walk" && len(a) == 1:
			qs.walk(int(a[0]))
		default:
			bad()
		}
	}
}

func main() {
	defer out.Flush()
	rand.Seed(int64(gen.Seed())) // node levels come from math/rand's global source: make a run repeatable
	if lines := gen.ReplayLines(); lines != nil {
		replay(lines)
		return
	}
	r := gen.New(gen.Seed())
	raw := &rawState{}
	for i := 0; i < gen.Scale(500, 8000); i++ {
		runRaw(r, raw, r.Range(5, 120), []int{1, 2, 4, 30}[r.Intn(4)])
	}
	qs := &qState{}
	// every tiny capacity x tie-break mode, then mixed
	for rep := 0; rep < gen.Scale(40, 600); rep++ {
		for cap := int64(1); cap <= 5; cap++ {
			for pm := 0; pm < 3; pm++ {
				runQueue(r, qs, cap, r.Range(10, 60), []int{1, 2, 5}[r.Intn(3)], pm)
			}
		}
	}
	for i := 0; i < gen.Scale(300, 5000); i++ {
		cap := int64([]int{0, -1, 6, 8, 13, 16, 40, 64}[r.Intn(8)])
		runQueue(r, qs, cap, r.Range(20, 200), []int{2, 5, 40}[r.Intn(3)], r.Intn(3))
	}
	out.Sample("q.new 2; push a(score 5) b(5) c(5): third push is 'full' (equal score does not rank strictly higher); walk = a,b")
}
