// h_c25 — C25: best chain converges to the heaviest branch for any delivery order.
// The harness proper lives in internal/chainkit/orderrun (shared with h_c26).
package main

import "verifharness/internal/chainkit/orderrun"

func main() { orderrun.Main("C25") }
