// h_c26 — C26: block sequence log replays to the best chain (same block trees and delivery
// orders as C25, sequence recording always on).  Harness: internal/chainkit/orderrun.
package main

import "verifharness/internal/chainkit/orderrun"

func main() { orderrun.Main("C26") }
