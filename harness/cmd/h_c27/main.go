// h_c27 — C27: invalid blocks are rejected without side effects or poisoning.
// The harness proper lives in internal/chainkit/c27_run (shared with h_c28).
package main

import c27run "verifharness/internal/chainkit/c27_run"

func main() { c27run.Main("C27", c27run.GenC27) }
