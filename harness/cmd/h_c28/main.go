// h_c28 — C28: the chain holds no replayed, expired or mis-signed transactions.
// The harness proper lives in internal/chainkit/c27_run (shared with h_c27).
package main

import c27run "verifharness/internal/chainkit/c27_run"

func main() { c27run.Main("C28", c27run.GenC28) }
