// h_c29 — C29: block connection is crash-consistent.
//
// A *case* is a block tree (minted on a producer node) and a delivery history (growth and
// reorganisation, some blocks early as orphans, duplicates).  The harness
//
//  1. runs the history once, uninterrupted, on a node whose blockchain and store databases use the
//     fault-injection backend `verifcrashdb` (counts and logs every durable write: W writes);
//  2. for a sample of crash points k in 0..W (thorough: every k) re-runs the history in a CHILD
//     process with VERIF_CRASH_AT=k — the child dies with os.Exit(77) right after its k-th durable
//     write — restarts a node on the surviving directories, evaluates the C29 predicate on the
//     implementation and prints the recovered state; then re-delivers the whole history to the
//     restarted node and prints the results.
//
// Op lines (implementation output after the TAB is compared with the Lean driver drv_c29):
//
//	case <name> <fin> <margin> <rec> <gbits>     node for the uninterrupted run   -> tip=0 h=0 td=<n>
//	blk <id> <parent> <height> <bits> <salt> <tx,tx|->                            -> ok
//	deliver <id>                                  ProcessBlock (uninterrupted run) -> <res> tip=<id> h=<h> td=<n>
//	writes                                        the run's durable writes         -> n=<W> B1 S1 C1 ... (B store-block, S state, C connect, D disconnect)
//	crash <k>                                     child crash + restart            -> tip=.. h=.. td=.. chain=.. tds=.. txs=.. seqs=.. state=ok|missing  | panic
//	resume <k>                                    re-deliver the history           -> <res,res,..> tip=.. h=.. td=.. chain=..
//	end                                                                            -> ok
//
// Predicates evaluated on the implementation itself (#PRED, independent of the model):
// restart does not panic; the recovered chain is exactly the chain described by the first k
// logged writes (a chain the run had reached / the prefix of the branch being attached); the
// recovered node equals a fresh node fed the recovered chain in order (last header, height index,
// headers, bodies, receipts, tx lookups, total difficulties, account state); every key of the
// tip's state is readable and equal to the fresh node's; the sequence log replays to the chain;
// the resumed node ends in the same persisted chain as the uninterrupted run.
package main

import (
	"bufio"
	"bytes"
	"fmt"
	"math/big"
	"os"
	"os/exec"
	"path/filepath"
	"sort"
	"strconv"
	"strings"
	"time"

	dbm "github.com/33cn/chain33/common/db"
	"github.com/33cn/chain33/types"

	"verifharness/internal/chainkit"
	"verifharness/internal/gen"
)

const (
	finalized = 0
	margin    = 12
	gbits     = 0x1f2fffff
	prop      = "C29"
)

var out *gen.Out

// ---------------------------------------------------------------------------- child

// childMain: replay the history on a fresh directory; the backend kills the process at the
// VERIF_CRASH_AT-th durable write.  Exit 0 means the history ended before that.
func childMain() {
	chainkit.Init()
	dir := os.Getenv("VERIF_C29_DIR")
	blocks, err := chainkit.LoadBlocks(os.Getenv("VERIF_C29_BLOCKS"))
	if err != nil {
		fmt.Fprintln(os.Stderr, "child: load blocks:", err)
		os.Exit(3)
	}
	var order []int
	for _, s := range strings.Split(os.Getenv("VERIF_C29_ORDER"), ",") {
		if s == "" {
			continue
		}
		i, err := strconv.Atoi(s)
		if err != nil || i <= 0 || i >= len(blocks) {
			fmt.Fprintln(os.Stderr, "child: bad order")
			os.Exit(3)
		}
		order = append(order, i)
	}
	n := chainkit.NewNodeAt(dir, "", chainkit.Options{RecordSequence: os.Getenv("VERIF_C29_REC") == "1"})
	if os.Getenv("VERIF_CRASH_AT") == "0" {
		os.Exit(77) // crash before the first write of the history
	}
	dbm.VerifCrashArm()
	for _, i := range order {
		n.Deliver(blocks[i], fmt.Sprintf("peer%d", i%3))
	}
	dbm.VerifCrashDisarm()
	n.Close()
	os.Exit(0)
}

// ---------------------------------------------------------------------------- interpreter

type env struct {
	producer *chainkit.Node
	base     string // scratch directory of the current case
	caseNo   int
	name     string
	rec      bool
	specs    []chainkit.BlockSpec
	declH    []int64
	tree     *chainkit.Tree
	order    []int
	run      *chainkit.Node // node of the uninterrupted run
	armed    bool
	quiet    bool // a worker other than the first: do not repeat the statistics of the uninterrupted run
	// after `writes`
	entries   []chainkit.WriteEntry
	cls       []chainkit.WriteClass
	best      [][]int
	finalSnap *chainkit.Snapshot
	finalTip  int
	// crash point under examination
	rn   *chainkit.Node
	rk   int
	refs map[int]*refInfo
	broken bool
}

type refInfo struct {
	snap   *chainkit.Snapshot
	count  int
	digest string
}

func tmpBase() string {
	t := os.Getenv("VERIF_TMP")
	if t == "" {
		t = os.TempDir()
	}
	return t
}

func (e *env) closeCase() {
	if e.rn != nil {
		e.rn.Close()
		e.rn = nil
	}
	if e.run != nil {
		if e.armed {
			dbm.VerifCrashDisarm()
			e.armed = false
		}
		e.run.Close()
		e.run = nil
	}
	if e.base != "" {
		os.RemoveAll(e.base)
		e.base = ""
	}
}

func bigS(b *big.Int) string {
	if b == nil {
		return "none"
	}
	return b.String()
}

func atoi(s string) (int, bool) {
	n, err := strconv.Atoi(s)
	return n, err == nil
}

func (e *env) ensureTree() bool {
	if e.tree != nil {
		return true
	}
	t, err := chainkit.Mint(e.producer, e.specs)
	if err != nil {
		out.Note("mint failed: " + err.Error())
		e.broken = true
		return false
	}
	for i := 1; i < len(e.specs); i++ {
		if t.Height[i] != e.declH[i] {
			out.Note(fmt.Sprintf("declared height %d of block %d differs from minted %d", e.declH[i], i, t.Height[i]))
			e.broken = true
			return false
		}
	}
	e.tree = t
	if err := chainkit.SaveBlocks(filepath.Join(e.base, "blocks.bin"), t); err != nil {
		out.Note("save blocks: " + err.Error())
		e.broken = true
		return false
	}
	return true
}

func tipStr(n *chainkit.Node, t *chainkit.Tree) string {
	hash, h := n.Tip()
	return fmt.Sprintf("tip=%s h=%d td=%s", t.ID(hash), h, bigS(n.TD(hash)))
}

func chainStr(n *chainkit.Node, t *chainkit.Tree) (string, []int) {
	hs, clean := n.MainChain()
	ids := make([]string, len(hs))
	idx := make([]int, len(hs))
	for i, h := range hs {
		ids[i] = t.ID(h)
		idx[i] = t.Index(h)
	}
	c := "clean"
	if !clean {
		c = "dirty"
	}
	return strings.Join(ids, ",") + " " + c, idx
}

func seqStr(n *chainkit.Node, t *chainkit.Tree) (string, []*types.BlockSequence, int64) {
	recs, last := n.SeqLog()
	var sb strings.Builder
	for _, r := range recs {
		switch {
		case r == nil:
			sb.WriteString("nil ")
		case r.Type == types.AddBlock:
			sb.WriteString("A" + t.ID(r.Hash) + " ")
		case r.Type == types.DelBlock:
			sb.WriteString("D" + t.ID(r.Hash) + " ")
		default:
			sb.WriteString(fmt.Sprintf("T%d:%s ", r.Type, t.ID(r.Hash)))
		}
	}
	return sb.String() + fmt.Sprintf("last=%d", last), recs, last
}

// seqReplayOK: the add/delete records replay to exactly the height index (C26's predicate).
func seqReplayOK(n *chainkit.Node, recs []*types.BlockSequence, last int64) bool {
	if int64(len(recs)) != last+1 {
		return false
	}
	var stack [][]byte
	for _, r := range recs {
		if r == nil {
			return false
		}
		switch r.Type {
		case types.AddBlock:
			stack = append(stack, r.Hash)
		case types.DelBlock:
			if len(stack) == 0 || !bytes.Equal(stack[len(stack)-1], r.Hash) {
				return false
			}
			stack = stack[:len(stack)-1]
		default:
			return false
		}
	}
	hs, clean := n.MainChain()
	if !clean || len(hs) != len(stack) {
		return false
	}
	for i := range hs {
		if !bytes.Equal(hs[i], stack[i]) {
			return false
		}
	}
	return true
}

func (e *env) detail(k int) string {
	var sb strings.Builder
	sb.WriteString(fmt.Sprintf("case=%s crash_at=%d/%d", e.name, k, len(e.cls)))
	if k >= 1 && k <= len(e.cls) {
		sb.WriteString(" last_write=" + e.cls[k-1].String())
	}
	sb.WriteString(" tree=")
	for i := 1; i < len(e.specs); i++ {
		s := e.specs[i]
		sb.WriteString(fmt.Sprintf("%d<-%d@%d/w%s ", i, s.Parent, e.tree.Height[i], e.tree.Work[i]))
	}
	sb.WriteString("order=" + strings.Trim(fmt.Sprint(e.order), "[]"))
	return trunc(sb.String(), 900)
}

func trunc(s string, n int) string {
	if len(s) > n {
		return s[:n] + "…"
	}
	return s
}

// crashSite: the write class after which the process died, with its context — part of a
// finding's signature (no input-specific data).
func (e *env) crashSite(k int) string {
	if k == 0 {
		return "before-first-write"
	}
	if k > len(e.cls) {
		return "after-last-write"
	}
	names := map[string]string{"B": "store-block-batch", "S": "state-batch", "C": "connect-batch", "D": "disconnect-batch"}
	c := e.cls[k-1]
	nm, ok := names[c.Letter]
	if !ok {
		nm = "other-write"
	}
	// inside a reorganisation: a disconnect happened in the same delivery (writes between two B/none)
	ctx := "extend"
	for j := k - 1; j >= 0 && e.cls[j].Letter != "B"; j-- {
		if e.cls[j].Letter == "D" {
			ctx = "reorg"
		}
	}
	for j := k; j < len(e.cls) && e.cls[j].Letter != "B"; j++ {
		if e.cls[j].Letter == "D" {
			ctx = "reorg"
		}
	}
	return "after-" + nm + "-" + ctx
}

func (e *env) reference(tip int) *refInfo {
	if r, ok := e.refs[tip]; ok {
		out.Stat("reference_nodes_reused", 1)
		return r
	}
	r := chainkit.NewNode(chainkit.Options{RecordSequence: e.rec})
	defer r.Close()
	path := e.tree.Path(tip)
	for _, i := range path[1:] {
		res := r.Deliver(e.tree.Blocks[i], "peerR")
		if res.String() != "main" {
			out.Note(fmt.Sprintf("reference node: block %d -> %s", i, res))
		}
	}
	info := &refInfo{snap: r.Snap(e.tree)}
	info.count, info.digest, _ = r.StateDigest(e.tree.Blocks[tip].StateHash)
	e.refs[tip] = info
	out.Stat("reference_nodes", 1)
	return info
}

func (e *env) runChild(k int, dir string) (int, error) {
	cmd := exec.Command(os.Args[0])
	var ord []string
	for _, i := range e.order {
		ord = append(ord, fmt.Sprint(i))
	}
	rec := "0"
	if e.rec {
		rec = "1"
	}
	cmd.Env = append(os.Environ(),
		"VERIF_C29_CHILD=1",
		"VERIF_C29_DIR="+dir,
		"VERIF_C29_BLOCKS="+filepath.Join(e.base, "blocks.bin"),
		"VERIF_C29_ORDER="+strings.Join(ord, ","),
		"VERIF_C29_REC="+rec,
		fmt.Sprintf("VERIF_CRASH_AT=%d", k),
		"VERIF_CRASH_LOG="+dir+".log",
		"VERIF_TMP="+dir+".tmp", // the dead child's testnode directory (wallet, logs) is removed by the parent
		"VERIF_C29_SLICE=", "VERIF_REPLAY=",
	)
	defer os.RemoveAll(dir + ".tmp")
	cmd.Stdout = nil
	var stderr bytes.Buffer
	cmd.Stderr = &stderr
	done := make(chan error, 1)
	if err := cmd.Start(); err != nil {
		return -1, err
	}
	go func() { done <- cmd.Wait() }()
	select {
	case err := <-done:
		if err == nil {
			return 0, nil
		}
		if ee, ok := err.(*exec.ExitError); ok {
			if ee.ExitCode() != 77 {
				return ee.ExitCode(), fmt.Errorf("child: %v: %s", err, trunc(stderr.String(), 600))
			}
			return ee.ExitCode(), nil
		}
		return -1, err
	case <-time.After(20 * time.Minute):
		_ = cmd.Process.Kill()
		return -1, fmt.Errorf("child timed out")
	}
}

func (e *env) run1(line string) string {
	w := strings.Fields(line)
	if len(w) == 0 {
		return "bad-op"
	}
	switch w[0] {
	case "case":
		if len(w) != 6 {
			return "bad-op"
		}
		e.closeCase()
		e.caseNo++
		e.name = w[1]
		e.rec = w[4] == "1"
		e.specs = []chainkit.BlockSpec{{}}
		e.declH = []int64{0}
		e.tree = nil
		e.order = nil
		e.entries, e.cls, e.best, e.finalSnap = nil, nil, nil, nil
		e.refs = map[int]*refInfo{}
		e.broken = false
		if w[2] != fmt.Sprint(finalized) || w[3] != fmt.Sprint(margin) {
			return "bad-op"
		}
		e.base = filepath.Join(tmpBase(), fmt.Sprintf("c29.%d.%d", os.Getpid(), e.caseNo))
		os.RemoveAll(e.base)
		if err := os.MkdirAll(e.base, 0o755); err != nil {
			return "bad-op"
		}
		e.run = chainkit.NewNodeAt(filepath.Join(e.base, "run"), "", chainkit.Options{RecordSequence: e.rec})
		g := e.run.Genesis()
		if fmt.Sprint(g.Difficulty) != w[5] {
			return "bad-op"
		}
		hash, h := e.run.Tip()
		id := "?"
		if bytes.Equal(hash, g.Hash(e.run.Cfg)) {
			id = "0"
		}
		return fmt.Sprintf("tip=%s h=%d td=%s", id, h, bigS(e.run.TD(hash)))
	case "blk":
		if len(w) != 7 || e.run == nil || e.tree != nil {
			return "bad-op"
		}
		id, ok1 := atoi(w[1])
		par, ok2 := atoi(w[2])
		h, ok3 := atoi(w[3])
		bits, err4 := strconv.ParseUint(w[4], 10, 32)
		salt, ok5 := atoi(w[5])
		if !ok1 || !ok2 || !ok3 || err4 != nil || !ok5 || id != len(e.specs) || par < 0 || par >= id {
			return "bad-op"
		}
		var txs []int
		if w[6] != "-" {
			for _, s := range strings.Split(w[6], ",") {
				t, ok := atoi(s)
				if !ok {
					return "bad-op"
				}
				txs = append(txs, t)
			}
		}
		e.specs = append(e.specs, chainkit.BlockSpec{Parent: par, Bits: uint32(bits), Salt: int64(salt), Txs: txs})
		e.declH = append(e.declH, int64(h))
		return "ok"
	}
	if e.base == "" || e.broken {
		return "bad-op"
	}
	switch w[0] {
	case "deliver":
		if e.run == nil || len(w) != 2 {
			return "bad-op"
		}
		if !e.ensureTree() {
			return "bad-op"
		}
		id, ok := atoi(w[1])
		if !ok || id <= 0 || id >= len(e.specs) {
			return "bad-op"
		}
		if !e.armed {
			os.Setenv("VERIF_CRASH_AT", "")
			os.Setenv("VERIF_CRASH_LOG", filepath.Join(e.base, "run.log"))
			dbm.VerifCrashArm()
			e.armed = true
		}
		r := e.run.Deliver(e.tree.Blocks[id], fmt.Sprintf("peer%d", id%3))
		e.order = append(e.order, id)
		if !e.quiet {
			out.Stat("deliver_"+r.String(), 1)
		}
		return r.String() + " " + tipStr(e.run, e.tree)
	case "writes":
		if e.run == nil || len(w) != 1 || !e.ensureTree() {
			return "bad-op"
		}
		if e.armed {
			dbm.VerifCrashDisarm()
			e.armed = false
		}
		es, err := chainkit.ReadWriteLog(filepath.Join(e.base, "run.log"))
		if err != nil {
			out.Note("write log: " + err.Error())
			return "bad-op"
		}
		e.entries = es
		e.cls, e.best = chainkit.ClassifyWrites(e.tree, es)
		e.finalSnap = e.run.Snap(e.tree)
		tip, _ := e.run.Tip()
		e.finalTip = e.tree.Index(tip)
		if e.rec {
			_, recs, last := seqStr(e.run, e.tree)
			if !seqReplayOK(e.run, recs, last) {
				out.Pred(prop+"|uninterrupted-run|sequence-log-replay-differs", e.detail(len(e.cls)))
			}
		}
		e.run.Close()
		e.run = nil
		var sb strings.Builder
		sb.WriteString(fmt.Sprintf("n=%d", len(e.cls)))
		for _, c := range e.cls {
			sb.WriteString(" " + c.String())
			if !e.quiet {
				out.Stat("write_"+strings.TrimRight(c.Letter, "?"), 1)
			}
		}
		if !e.quiet {
			out.Stat("writes", int64(len(e.cls)))
		}
		return sb.String()
	case "crash":
		if e.cls == nil || len(w) != 2 || e.rn != nil {
			return "bad-op"
		}
		k, ok := atoi(w[1])
		if !ok || k < 0 {
			return "bad-op"
		}
		return e.crash(k)
	case "resume":
		if e.cls == nil || len(w) != 2 {
			return "bad-op"
		}
		k, ok := atoi(w[1])
		if !ok || e.rn == nil || k != e.rk {
			if ok && e.rn == nil && e.rk == k {
				return "panic" // the restart of `crash k` panicked
			}
			return "bad-op"
		}
		return e.resume(k)
	case "end":
		if len(w) != 1 {
			return "bad-op"
		}
		e.closeCase()
		return "ok"
	}
	return "bad-op"
}

func (e *env) crash(k int) string {
	t := e.tree
	dir := filepath.Join(e.base, fmt.Sprintf("k%d", k))
	os.RemoveAll(dir)
	rc, err := e.runChild(k, dir)
	if err != nil {
		out.Note(fmt.Sprintf("crash %d: %v", k, err))
		return "child-error"
	}
	eff := k
	if rc == 0 { // the history ended before the k-th write
		eff = len(e.cls)
		if k <= len(e.cls) && k > 0 {
			out.Note(fmt.Sprintf("crash %d: child finished without reaching write %d", k, k))
			return "child-nocrash"
		}
	}
	site := e.crashSite(eff)
	out.Stat("crash_points", 1)
	out.Stat("crash_"+site, 1)
	// the child's own log must be a prefix of the uninterrupted run's (deterministic write order)
	if ces, err := chainkit.ReadWriteLog(dir + ".log"); err == nil && k > 0 {
		ccls, _ := chainkit.ClassifyWrites(t, ces)
		same := len(ccls) == eff
		for i := 0; same && i < len(ccls); i++ {
			// (a state batch at the very end has no chain batch after it yet)
			same = ccls[i].Letter == e.cls[i].Letter && (ccls[i].Block == e.cls[i].Block || ccls[i].Letter == "S")
		}
		if !same {
			out.Note(fmt.Sprintf("crash %d: child wrote %d writes, not a prefix of the run's log", k, len(ccls)))
			out.Stat("child_log_mismatch", 1)
		}
	}
	os.Remove(dir + ".log")
	e.rk = k
	panicked := false
	func() {
		defer func() {
			if r := recover(); r != nil {
				panicked = true
			}
		}()
		e.rn = chainkit.NewNodeAt(dir, "", chainkit.Options{RecordSequence: e.rec})
	}()
	if panicked || e.rn == nil {
		e.rn = nil
		out.Pred(prop+"|restart|startup-panics-on-surviving-databases|"+site, e.detail(eff))
		return "panic"
	}
	n := e.rn
	// --- observation line (compared with the model's `recover (crash k)`)
	chain, idx := chainStr(n, t)
	var tds []string
	for i := range e.specs {
		tds = append(tds, bigS(n.TD(t.Hash[i])))
	}
	var txs []string
	for _, tag := range t.TxTags() {
		h := n.TxHeight(t.Tx(tag).Hash())
		if h >= 0 {
			txs = append(txs, fmt.Sprintf("%d=%d", tag, h))
		} else {
			txs = append(txs, fmt.Sprintf("%d=none", tag))
		}
	}
	seqs, recs, lastSeq := seqStr(n, t)
	// --- predicate on the implementation
	want := e.best[eff]
	okChain := len(idx) == len(want)
	for i := 0; okChain && i < len(idx); i++ {
		okChain = idx[i] == want[i]
	}
	tipHash, _ := n.Tip()
	tip := t.Index(tipHash)
	if !okChain || tip != want[len(want)-1] {
		out.Pred(prop+"|recover|chain-differs-from-the-written-prefix|"+site,
			fmt.Sprintf("recovered=%s want=%v %s", chain, want, e.detail(eff)))
	}
	state := "missing"
	if tip >= 0 && okChain {
		ref := e.reference(tip)
		got := n.Snap(t)
		if ok, d := got.Equal(ref.snap); !ok {
			out.Pred(prop+"|recover|differs-from-fresh-node-fed-the-recovered-chain|"+site,
				fmt.Sprintf("first-diff=%s %s", trunc(d, 300), e.detail(eff)))
		}
		out.Stat("snapshot_lines_compared", int64(len(ref.snap.Lines)))
		cnt, dig, err := n.StateDigest(t.Blocks[tip].StateHash)
		if err == nil && cnt > 0 && cnt == ref.count && dig == ref.digest {
			state = "ok"
			out.Stat("state_keys_read", int64(cnt))
		} else {
			out.Pred(prop+"|recover|tip-state-not-fully-readable|"+site,
				fmt.Sprintf("keys=%d want=%d err=%v %s", cnt, ref.count, err, e.detail(eff)))
		}
	} else if tip >= 0 {
		if cnt, _, err := n.StateDigest(t.Blocks[tip].StateHash); err == nil && cnt > 0 {
			state = "ok"
		}
	}
	if e.rec && !seqReplayOK(n, recs, lastSeq) {
		out.Pred(prop+"|recover|sequence-log-replay-differs-from-height-index|"+site, e.detail(eff))
	}
	return fmt.Sprintf("%s chain=%s tds=%s txs=%s seqs=%s state=%s", tipStr(n, t), chain,
		strings.Join(tds, ","), strings.Join(txs, ","), seqs, state)
}

func (e *env) resume(k int) string {
	t := e.tree
	n := e.rn
	eff := k
	if eff > len(e.cls) {
		eff = len(e.cls)
	}
	site := e.crashSite(eff)
	var rs []string
	for _, id := range e.order {
		r := n.Deliver(t.Blocks[id], fmt.Sprintf("peer%d", id%3))
		rs = append(rs, r.String())
		out.Stat("resume_"+r.String(), 1)
	}
	chain, _ := chainStr(n, t)
	res := strings.Join(rs, ",") + " " + tipStr(n, t) + " chain=" + chain
	got := n.Snap(t)
	if ok, d := got.Equal(e.finalSnap); !ok {
		// a different final chain of the SAME total difficulty (fork choice among equally heavy
		// branches is first-seen, and the restart changed what is seen first) has its own signature
		tipHash, _ := n.Tip()
		tip := t.Index(tipHash)
		tie := false
		if tip >= 0 && e.finalTip >= 0 && tip != e.finalTip && t.TD[tip].Cmp(t.TD[e.finalTip]) == 0 {
			if ok2, _ := got.Equal(e.reference(tip).snap); ok2 {
				tie = true
			}
		}
		if tie {
			out.Stat("resume_tie_divergence", 1)
			out.Pred(prop+"|resume|different-final-chain-of-equal-total-difficulty",
				fmt.Sprintf("site=%s resumed_tip=%d uninterrupted_tip=%d td=%s %s", site, tip, e.finalTip, t.TD[tip], e.detail(eff)))
		} else {
			out.Pred(prop+"|resume|final-chain-differs-from-the-uninterrupted-run|"+site,
				fmt.Sprintf("first-diff=%s %s", trunc(d, 300), e.detail(eff)))
		}
	}
	if e.rec {
		_, recs, last := seqStr(n, t)
		if !seqReplayOK(n, recs, last) {
			out.Pred(prop+"|resume|sequence-log-replay-differs-from-height-index|"+site, e.detail(eff))
		}
	}
	out.Stat("resumed", 1)
	n.Close()
	e.rn = nil
	os.RemoveAll(filepath.Join(e.base, fmt.Sprintf("k%d", k)))
	return res
}

// ---------------------------------------------------------------------------- generation

type blk struct {
	parent, height int
	work           int64
	salt           int
	txs            []int
}

type tcase struct {
	name   string
	rec    bool
	blocks []blk
	order  []int
}

func (c *tcase) preamble() []string {
	var ls []string
	rec := 0
	if c.rec {
		rec = 1
	}
	ls = append(ls, fmt.Sprintf("case %s %d %d %d %d", c.name, finalized, margin, rec, gbits))
	for i := 1; i < len(c.blocks); i++ {
		b := c.blocks[i]
		tx := "-"
		if len(b.txs) > 0 {
			var s []string
			for _, t := range b.txs {
				s = append(s, fmt.Sprint(t))
			}
			tx = strings.Join(s, ",")
		}
		ls = append(ls, fmt.Sprintf("blk %d %d %d %d %d %s", i, b.parent, b.height, chainkit.BitsForWork(b.work), b.salt, tx))
	}
	for _, id := range c.order {
		ls = append(ls, fmt.Sprintf("deliver %d", id))
	}
	ls = append(ls, "writes")
	return ls
}

// genCase: a trunk (linear growth up to the reorganisation margin), then branches that overtake
// each other (reorganisations with several blocks detached and attached), delivered mostly in
// order with some blocks early (orphans) and duplicates.
func genCase(r *gen.Rand, name string, flavour int) tcase {
	trunk := margin + r.Intn(2) // 12..13
	bs := []blk{{}}
	for h := 1; h <= trunk; h++ {
		bs = append(bs, blk{parent: h - 1, height: h, work: 2})
	}
	add := func(parent int, work int64) int {
		bs = append(bs, blk{parent: parent, height: bs[parent].height + 1, work: work})
		return len(bs) - 1
	}
	var order []int
	for i := 1; i <= trunk; i++ {
		order = append(order, i)
	}
	switch flavour {
	case 0:
		// branch A (light) grows first; branch B forks 1..3 below the trunk top, draws level block by
		// block (side chain) and wins with its last block: several blocks detached and attached.
		// Then A fights back with a heavy block: second reorganisation, back to blocks connected before.
		na := 1 + r.Intn(3)
		lastA := trunk
		var as []int
		for i := 0; i < na; i++ {
			lastA = add(lastA, 2)
			as = append(as, lastA)
		}
		fork := trunk - 1 - r.Intn(3)
		nb := (trunk - fork) + na
		lastB := fork
		var bsIdx []int
		for i := 0; i < nb; i++ {
			lastB = add(lastB, 2)
			bsIdx = append(bsIdx, lastB)
		}
		lastB = add(lastB, int64(4+r.Intn(4)))
		bsIdx = append(bsIdx, lastB)
		order = append(order, as...)
		order = append(order, bsIdx...)
		a3 := add(lastA, 30)
		order = append(order, a3)
		if r.Chance(1, 2) { // a late duplicate of a block that is now on a side chain
			order = append(order, bsIdx[r.Intn(len(bsIdx))])
		}
	case 1:
		// orphans: the winning branch arrives children first, so the whole branch is attached inside
		// one ProcessBlock (ProcessOrphans) call; plus duplicates
		a1 := add(trunk, 2)
		fork := trunk - 1 - r.Intn(2)
		nb := 2 + (trunk - fork) + r.Intn(2)
		lastB := fork
		var bsIdx []int
		for i := 0; i < nb; i++ {
			lastB = add(lastB, 3)
			bsIdx = append(bsIdx, lastB)
		}
		order = append(order, a1)
		for i := len(bsIdx) - 1; i >= 1; i-- { // children first: orphans
			order = append(order, bsIdx[i])
		}
		order = append(order, a1, bsIdx[0])
		c1 := add(lastB, 2)
		order = append(order, c1, bsIdx[len(bsIdx)/2])
	default:
		// random growth above the trunk; redrawn until the heaviest block is unique and at least the
		// margin high (the hypotheses of resume_converges_partial: with a total-difficulty tie at the
		// top the final chain depends on which block is seen first — corpus/C29/tie-resume.ops)
		base := append([]blk{}, bs...)
		for try := 0; try < 50; try++ {
			bs = append([]blk{}, base...)
			extra := 5 + r.Intn(4)
			for k := 0; k < extra; k++ {
				var p int
				switch r.Pick(4, 3, 2) {
				case 0:
					p = len(bs) - 1 - r.Intn(min(len(bs)-1, 3))
				case 1:
					p = max(0, trunk-r.Intn(3))
				default:
					p = trunk - 2 + r.Intn(len(bs)-trunk+2)
				}
				add(p, int64(1+r.Intn(6)))
			}
			if uniqueHeaviestEligible(bs) {
				break
			}
		}
		rest := r.Perm(len(bs) - 1 - trunk)
		for _, i := range rest {
			order = append(order, trunk+1+i)
		}
		if r.Chance(1, 2) {
			order = append(order, trunk+1+r.Intn(len(bs)-1-trunk))
		}
	}
	kids := map[int]int{}
	for i := 1; i < len(bs); i++ {
		bs[i].salt = kids[bs[i].parent]
		kids[bs[i].parent]++
		switch r.Pick(7, 3) {
		case 0:
			bs[i].txs = []int{bs[i].height*4 + r.Intn(3)}
		default:
			a := r.Intn(3)
			bs[i].txs = []int{bs[i].height*4 + a, bs[i].height*4 + (a+1+r.Intn(2))%3}
		}
	}
	return tcase{name: name, rec: r.Chance(3, 4), blocks: bs, order: order}
}

// uniqueHeaviestEligible: exactly one block has the maximal total difficulty and it is at least
// `margin` high.
func uniqueHeaviestEligible(bs []blk) bool {
	td := make([]int64, len(bs))
	best, uniq := 0, true
	for i := 1; i < len(bs); i++ {
		td[i] = td[bs[i].parent] + bs[i].work
		if td[i] > td[best] {
			best, uniq = i, true
		} else if td[i] == td[best] {
			uniq = false
		}
	}
	return uniq && bs[best].height >= finalized+margin
}

func genCases(seed uint64) []tcase {
	r := gen.New(seed*0x9e37 + 29)
	n := gen.Scale(2, 8)
	var cs []tcase
	for i := 0; i < n; i++ {
		cs = append(cs, genCase(r, fmt.Sprintf("c%d", i), (i+int(seed%3))%3))
	}
	return cs
}

// samplePoints: crash points 0..W chosen by stratum (write class x context); thorough: all.
func (e *env) samplePoints(r *gen.Rand, budget int) []int {
	W := len(e.cls)
	if gen.Thorough() || budget >= W+1 {
		ks := make([]int, 0, W+2)
		for k := 0; k <= W; k++ {
			ks = append(ks, k)
		}
		return ks
	}
	strata := map[string][]int{}
	var names []string
	for k := 0; k <= W; k++ {
		s := e.crashSite(k)
		if _, ok := strata[s]; !ok {
			names = append(names, s)
		}
		strata[s] = append(strata[s], k)
	}
	sort.Strings(names)
	chosen := map[int]bool{0: true, W: true}
	// every point inside a reorganisation is interesting; spread the budget round-robin, reorg strata first
	sort.SliceStable(names, func(i, j int) bool {
		return strings.HasSuffix(names[i], "reorg") && !strings.HasSuffix(names[j], "reorg")
	})
	for _, s := range names {
		p := r.Perm(len(strata[s]))
		q := make([]int, len(p))
		for i, j := range p {
			q[i] = strata[s][j]
		}
		strata[s] = q
	}
	for round := 0; len(chosen) < budget; round++ {
		progress := false
		for _, s := range names {
			if round < len(strata[s]) && len(chosen) < budget {
				if !chosen[strata[s][round]] {
					chosen[strata[s][round]] = true
				}
				progress = true
			}
		}
		if !progress {
			break
		}
	}
	var ks []int
	for k := range chosen {
		ks = append(ks, k)
	}
	sort.Ints(ks)
	return ks
}

// ---------------------------------------------------------------------------- main

func interpretLines(lines []string) {
	chainkit.Init()
	out = gen.NewOut()
	e := &env{}
	e.producer = chainkit.NewNode(chainkit.Options{})
	defer e.producer.Close()
	for _, l := range lines {
		res := gen.Guard(func() string { return e.run1(l) })
		out.Op(l, res)
	}
	e.closeCase()
	out.Flush()
}

// interpretCases: preamble of each case, then the crash points of this worker's slice.
func interpretCases(cases []tcase, slice, nslices int, seed uint64) {
	chainkit.Init()
	out = gen.NewOut()
	e := &env{quiet: slice != 0}
	e.producer = chainkit.NewNode(chainkit.Options{})
	defer e.producer.Close()
	op := func(l string) string {
		res := gen.Guard(func() string { return e.run1(l) })
		out.Op(l, res)
		return res
	}
	for ci := range cases {
		c := &cases[ci]
		for _, l := range c.preamble() {
			op(l)
		}
		if e.cls != nil {
			r := gen.New(seed*0x51ed + uint64(ci)*977 + 3)
			ks := e.samplePoints(r, gen.Scale(15, 1<<20))
			if slice == 0 {
				out.Stat("cases", 1)
				out.Stat("crash_points_planned", int64(len(ks)))
				if ci < 2 {
					out.Sample(fmt.Sprintf("%s: W=%d writes, %d crash points %v; %s", c.name, len(e.cls), len(ks), ks, e.detail(len(e.cls))))
				}
			}
			for j, k := range ks {
				if j%nslices != slice {
					continue
				}
				op(fmt.Sprintf("crash %d", k))
				op(fmt.Sprintf("resume %d", k))
			}
		}
		op("end")
	}
	e.closeCase()
	out.Flush()
}

func workers() int {
	if v := os.Getenv("VERIF_WORKERS"); v != "" {
		if n, err := strconv.Atoi(v); err == nil && n >= 1 {
			return n
		}
	}
	return 4
}

func main() {
	if os.Getenv("VERIF_C29_CHILD") == "1" {
		childMain()
		return
	}
	if ls := gen.ReplayLines(); ls != nil {
		interpretLines(ls)
		return
	}
	cases := genCases(gen.Seed())
	if s := os.Getenv("VERIF_C29_SLICE"); s != "" {
		var i, n int
		fmt.Sscanf(s, "%d/%d", &i, &n)
		if n < 1 {
			n = 1
		}
		interpretCases(cases, i, n, gen.Seed())
		return
	}
	n := workers()
	outs := make([][]byte, n)
	errs := make([]error, n)
	done := make(chan int, n)
	for i := 0; i < n; i++ {
		go func(i int) {
			cmd := exec.Command(os.Args[0])
			cmd.Env = append(os.Environ(), fmt.Sprintf("VERIF_C29_SLICE=%d/%d", i, n))
			cmd.Stderr = os.Stderr
			outs[i], errs[i] = cmd.Output()
			done <- i
		}(i)
	}
	for i := 0; i < n; i++ {
		<-done
	}
	w := bufio.NewWriter(os.Stdout)
	defer w.Flush()
	rc := 0
	for i := 0; i < n; i++ {
		w.Write(outs[i])
		if errs[i] != nil {
			fmt.Fprintf(os.Stderr, "worker %d: %v\n", i, errs[i])
			rc = 4
		}
	}
	fmt.Fprintf(w, "#STAT workers %d\n", n)
	w.Flush()
	if rc != 0 {
		os.Exit(rc)
	}
}
