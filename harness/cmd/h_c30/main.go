// h_c30 drives system/consensus BaseClient.AddTxsToBlock / CheckTxExpire (and cfg.GetP) on real
// types.Transaction values and groups built through the repo's APIs, at sizes/counts around the
// limits and heights around the MaxTxNumber changes and the account-blacklist fork.
//
// Op lines (see lean/Driver/C30.lean):
//   lim <base> <forks> <height>
//   add <height> <base> <forks> <blFork> <count0> <size0> <entry>*
//   exp <height> <blocktime> <txHeightOn> <tx>*   (hdr of a tx: n | g | g<GroupCount>~<Expire>.<...>)
// The harness *describes* each input transaction (id = Nonce, Size(), GetTxGroup() outcome,
// blacklisted by construction, GroupCount/Expire/whether Header decodes) and prints what the
// implementation did with it.  The C30 predicates are evaluated on the implementation's result
// with oracles known by construction (not with the Lean model).
package main

import (
	"fmt"
	"strconv"
	"strings"

	"github.com/33cn/chain33/common/address"
	"github.com/33cn/chain33/common/crypto"
	"github.com/33cn/chain33/common/log/log15"
	"github.com/33cn/chain33/queue"
	_ "github.com/33cn/chain33/system/crypto/secp256k1"
	drivers "github.com/33cn/chain33/system/consensus"
	"github.com/33cn/chain33/types"

	"verifharness/internal/gen"
)

var out = gen.NewOut()

var samples = map[string]int{}

const bound = types.MaxBlockSize - 100000

// ---------------------------------------------------------------- configuration

type fork struct{ h, v int64 }

type conf struct {
	name   string
	cfg    *types.Chain33Config
	bc     *drivers.BaseClient
	base   int64
	forks  []fork // forks that define maxTxNumber: (height, value)
	blFork int64  // ForkAccountBlacklist height (MaxHeight = never)
}

func (c *conf) forksStr() string {
	if len(c.forks) == 0 {
		return "-"
	}
	var s []string
	for _, f := range c.forks {
		s = append(s, fmt.Sprintf("%d:%d", f.h, f.v))
	}
	return strings.Join(s, ",")
}

// limit is the oracle for the per-height transaction-count limit: the configured value of the
// latest fork (among those that set maxTxNumber) at or below the height, else the base value.
func (c *conf) limit(height int64) int64 {
	v, best := c.base, int64(-1<<63)
	found := false
	for _, f := range c.forks {
		if f.h <= height && (!found || f.h > best) {
			v, best, found = f.v, f.h, true
		}
	}
	return v
}

func (c *conf) active(height int64) bool { return height == -1 || height >= c.blFork }

func mkBase(cfg *types.Chain33Config) *drivers.BaseClient {
	q := queue.New("c30")
	q.SetConfig(cfg)
	bc := drivers.NewBaseClient(&types.Consensus{Name: "solo"})
	bc.InitClient(q.Client(), func() {})
	return bc
}

// localConf: the stock default configuration (Title "local": every fork at height 0,
// maxTxNumber 10000 everywhere).
func localConf() *conf {
	cfg := types.NewChain33Config(types.GetDefaultCfgstring())
	return &conf{name: "local", cfg: cfg, bc: mkBase(cfg), base: 10000, forks: []fork{{0, 10000}}, blFork: 0}
}

// forkConf: the default configuration string with a non-local title, small per-fork maxTxNumber
// values and explicit fork heights.
func forkConf(name string, base, v1h, v1, v2h, v2, blFork, txHeightFork int64) *conf {
	s := types.GetDefaultCfgstring()
	rep := func(old, new string) {
		if !strings.Contains(s, old) {
			panic("default config string changed: missing " + old)
		}
		s = strings.Replace(s, old, new, 1)
	}
	rep("Title=\"local\"", "Title=\""+name+"\"\nDisableForkCheck=true")
	rep("[mver.consensus]\nfundKeyAddr = \"1BQXS6TxaYYG5mADaWij4AxhZZUTpw95a5\"\npowLimitBits = \"0x1f00ffff\"\nmaxTxNumber = 10000",
		fmt.Sprintf("[mver.consensus]\nfundKeyAddr = \"1BQXS6TxaYYG5mADaWij4AxhZZUTpw95a5\"\npowLimitBits = \"0x1f00ffff\"\nmaxTxNumber = %d", base))
	rep("[mver.consensus.ForkChainParamV1]\nmaxTxNumber = 10000", fmt.Sprintf("[mver.consensus.ForkChainParamV1]\nmaxTxNumber = %d", v1))
	rep("[mver.consensus.ForkChainParamV2]\n", fmt.Sprintf("[mver.consensus.ForkChainParamV2]\nmaxTxNumber = %d\n", v2))
	bl := blFork
	if bl == types.MaxHeight {
		bl = -1
	}
	s += fmt.Sprintf("\n[fork.system]\nForkChainParamV1=%d\nForkChainParamV2=%d\nForkAccountBlacklist=%d\nForkTxHeight=%d\n", v1h, v2h, bl, txHeightFork)
	cfg := types.NewChain33Config(s)
	return &conf{name: name, cfg: cfg, bc: mkBase(cfg), base: base, forks: []fork{{v1h, v1}, {v2h, v2}}, blFork: blFork}
}

// ---------------------------------------------------------------- transactions

type txInfo struct {
	blocked bool // touches a blacklisted account (sender or receiver), by construction
	expired bool // expired at the (height, blocktime) of the current expiry case, by construction
}

type world struct {
	r       *gen.Rand
	big     []byte
	nextID  int64
	info    map[int64]*txInfo
	okKeys  []crypto.PrivKey
	blKeys  []crypto.PrivKey
	okAddr  []string
	blAddr  []string // blacklisted addresses (senders' and pure receivers')
	blOnlyT []string // blacklisted receive-only addresses
}

func newWorld(r *gen.Rand) *world {
	w := &world{r: r, big: make([]byte, 21000000), info: map[int64]*txInfo{}}
	c, err := crypto.Load("secp256k1", -1)
	if err != nil {
		panic(err)
	}
	mk := func() (crypto.PrivKey, string) {
		seed := r.Bytes(32)
		seed[0] |= 1
		seed[0] &= 0x7f
		k, err := c.PrivKeyFromBytes(seed)
		if err != nil {
			panic(err)
		}
		return k, address.PubKeyToAddr(address.DefaultID, k.PubKey().Bytes())
	}
	for i := 0; i < 3; i++ {
		k, a := mk()
		w.okKeys, w.okAddr = append(w.okKeys, k), append(w.okAddr, a)
	}
	for i := 0; i < 2; i++ {
		k, a := mk()
		w.blKeys, w.blAddr = append(w.blKeys, k), append(w.blAddr, a)
	}
	_, a := mk()
	w.blOnlyT = []string{a}
	w.blAddr = append(w.blAddr, a)
	return w
}

type txOpt struct {
	payload  int
	fromBL   bool
	toBL     bool
	unsigned bool
	expire   int64
	expired  bool
}

func (w *world) newTx(o txOpt) *types.Transaction {
	w.nextID++
	to := w.okAddr[w.r.Intn(len(w.okAddr))]
	if o.toBL {
		to = w.blAddr[w.r.Intn(len(w.blAddr))]
	}
	tx := &types.Transaction{Execer: []byte("none"), Payload: w.big[:o.payload], Fee: 100000, Expire: o.expire, Nonce: w.nextID, To: to}
	w.info[w.nextID] = &txInfo{blocked: (o.fromBL && !o.unsigned) || o.toBL, expired: o.expired}
	if !o.unsigned {
		w.sign(tx, o.fromBL)
	}
	return tx
}

func (w *world) sign(tx *types.Transaction, fromBL bool) {
	k := w.okKeys[w.r.Intn(len(w.okKeys))]
	if fromBL {
		k = w.blKeys[w.r.Intn(len(w.blKeys))]
	}
	tx.Sign(types.SECP256K1, k)
}

// newGroup builds a group with the repo's CreateTxGroup, signs every member and returns the
// pool form (head transaction carrying the encoded group in Header) and the members.
func (w *world) newGroup(opts []txOpt) (*types.Transaction, []*types.Transaction) {
	var txs []*types.Transaction
	for _, o := range opts {
		oo := o
		oo.unsigned = true
		tx := w.newTx(oo)
		w.info[tx.Nonce].blocked = o.fromBL || o.toBL
		txs = append(txs, tx)
	}
	g, err := types.CreateTxGroup(txs, 100000)
	if err != nil {
		panic(err)
	}
	for i, o := range opts {
		w.sign(g.Txs[i], o.fromBL)
	}
	return g.Tx(), g.Txs
}

// withSize builds a single transaction whose Size() is exactly target (target >= 200).
func (w *world) withSize(target int, o txOpt) *types.Transaction {
	o.payload = target - 200
	if o.payload < 0 {
		o.payload = 0
	}
	tx := w.newTx(o)
	for i := 0; i < 6 && tx.Size() != target; i++ {
		p := len(tx.Payload) + target - tx.Size()
		if p < 0 {
			p = 0
		}
		tx.Payload = w.big[:p]
	}
	return tx
}

// ---------------------------------------------------------------- describing inputs

func b01(b bool) string {
	if b {
		return "1"
	}
	return "0"
}

func (w *world) descTx(tx *types.Transaction) string {
	blk := false
	if in, ok := w.info[tx.Nonce]; ok {
		blk = in.blocked
	}
	id := tx.Nonce
	if id < 0 {
		id = 0
	}
	return fmt.Sprintf("%d:%d:%s", id, tx.Size(), b01(blk))
}

type entry struct {
	tx      *types.Transaction
	members []int64 // ids this entry stands for (nil for bad)
	wellFormed bool
}

func (w *world) descEntry(tx *types.Transaction) (string, entry) {
	g, err := tx.GetTxGroup()
	if err != nil {
		return "b", entry{tx: tx, wellFormed: true}
	}
	if g == nil {
		return "s" + w.descTx(tx), entry{tx: tx, members: []int64{tx.Nonce}, wellFormed: true}
	}
	var parts []string
	e := entry{tx: tx, wellFormed: int(tx.GroupCount) == len(g.Txs)}
	for _, m := range g.Txs {
		parts = append(parts, w.descTx(m))
		e.members = append(e.members, m.Nonce)
		if _, ok := w.info[m.Nonce]; !ok {
			e.wellFormed = false
		}
	}
	return "g" + strings.Join(parts, "+"), e
}

func idsOf(txs []*types.Transaction) string {
	if len(txs) == 0 {
		return "-"
	}
	s := make([]string, len(txs))
	for i, t := range txs {
		if t == nil {
			s[i] = "nil"
			continue
		}
		id := t.Nonce
		if id < 0 {
			id = 0
		}
		s[i] = strconv.FormatInt(id, 10)
	}
	return strings.Join(s, ",")
}

// ---------------------------------------------------------------- AddTxsToBlock case

func (w *world) runAdd(c *conf, height int64, pre []*types.Transaction, pool []*types.Transaction, tag string) {
	block := &types.Block{Height: height, Txs: append([]*types.Transaction{}, pre...)}
	size0 := block.Size()
	count0 := len(block.Txs)
	var descs []string
	var ents []entry
	clean := true
	for _, p := range pool {
		d, e := w.descEntry(p)
		descs = append(descs, d)
		ents = append(ents, e)
		clean = clean && e.wellFormed
	}
	op := fmt.Sprintf("add %d %d %s %d %d %d", height, c.base, c.forksStr(), c.blFork, count0, size0)
	if len(descs) > 0 {
		op += " " + strings.Join(descs, " ")
	}
	var added []*types.Transaction
	res := gen.Guard(func() string { added = c.bc.AddTxsToBlock(block, pool); return idsOf(added) })
	out.Op(op, res)
	out.Stat("add_cases", 1)
	out.Stat("add_"+tag, 1)
	if samples[tag] < 1 && len(op) < 400 {
		samples[tag]++
		out.Sample(fmt.Sprintf("[%s cfg=%s limit(%d)=%d] %s -> %s", tag, c.name, height, c.limit(height), op, res))
	}
	sig := func(kind string) string { return "C30|AddTxsToBlock|" + kind }
	det := fmt.Sprintf("cfg=%s height=%d count0=%d size0=%d pool=%d tag=%s", c.name, height, count0, size0, len(pool), tag)
	if res == "panic" {
		out.Pred(sig("panic"), det)
		return
	}
	// returned list == what was appended to the block
	if idsOf(block.Txs[count0:]) != res || len(block.Txs) != count0+len(added) {
		out.Pred(sig("returned-list-differs-from-appended"), det)
	}
	limit := c.limit(height)
	if got := c.cfg.GetP(height).MaxTxNumber; got != limit {
		out.Pred("C30|GetP|limit-differs-from-configured-value", fmt.Sprintf("cfg=%s height=%d got=%d want=%d", c.name, height, got, limit))
	}
	// count
	if len(added) > 0 && int64(len(block.Txs)) > limit {
		out.Pred(sig("count-exceeds-limit"), fmt.Sprintf("%s n=%d limit=%d", det, len(block.Txs), limit))
	}
	if int64(len(block.Txs)) == limit && len(added) > 0 {
		out.Stat("add_hit_count_exactly", 1)
	}
	// size
	sum := size0
	for _, t := range added {
		sum += t.Size()
	}
	if len(added) > 0 && sum > bound {
		out.Pred(sig("accumulated-size-exceeds-bound"), fmt.Sprintf("%s sum=%d bound=%d", det, sum, bound))
	}
	if len(added) > 0 && sum == bound {
		out.Stat("add_hit_size_exactly", 1)
	}
	if sum > bound-200000 {
		out.Stat("add_near_size_bound", 1)
	}
	if enc := types.Size(block); len(added) > 0 && enc > types.MaxBlockSize {
		if limit > 20000 {
			// declared configuration assumption (Props: encoded_le_maxBlockSize needs limit <= 20000,
			// encoded_bound_needs_limit shows why): not a predicate failure, recorded
			out.Stat("encoded_exceeds_MaxBlockSize_with_limit_over_20000", 1)
			out.Sample(fmt.Sprintf("[%s] maxTxNumber=%d: %d txs, accumulated Size %d <= %d but encoded block %d > MaxBlockSize (CheckBlock would answer ErrBlockSize)", tag, limit, len(block.Txs), sum, bound, enc))
		} else {
			out.Pred(sig("encoded-block-exceeds-MaxBlockSize"), fmt.Sprintf("%s enc=%d", det, enc))
		}
	}
	// order: result ids appear in the order of the flattened input
	var flat []int64
	for _, e := range ents {
		flat = append(flat, e.members...)
	}
	if clean {
		j := 0
		okOrder := true
		for _, t := range added {
			for j < len(flat) && flat[j] != t.Nonce {
				j++
			}
			if j == len(flat) {
				okOrder = false
				break
			}
			j++
		}
		if !okOrder {
			out.Pred(sig("taken-txs-not-a-sublist-of-input-order"), det+" got="+res)
		}
		// groups: result = concatenation of whole entries
		ptr := 0
		for _, e := range ents {
			n := len(e.members)
			if n == 0 || ptr+n > len(added) {
				continue
			}
			match := true
			for k := 0; k < n; k++ {
				if added[ptr+k].Nonce != e.members[k] {
					match = false
					break
				}
			}
			if match {
				ptr += n
			}
		}
		if okOrder && ptr != len(added) {
			out.Pred(sig("group-split-or-partially-included"), det+" got="+res)
		}
		// blacklist
		if c.active(height) {
			for _, t := range added {
				if w.info[t.Nonce].blocked {
					out.Pred(sig("blacklisted-tx-taken-after-fork"), fmt.Sprintf("%s id=%d", det, t.Nonce))
					break
				}
			}
		}
		// nothing is dropped without a reason (simplest shape): no limit in reach and fork inactive
		// => every well-formed transaction is taken.
		if !c.active(height) && int64(count0+len(flat)) <= limit {
			total := size0
			for _, p := range pool {
				if g, _ := p.GetTxGroup(); g != nil {
					for _, m := range g.Txs {
						total += m.Size()
					}
				} else {
					total += p.Size()
				}
			}
			if total <= bound && len(added) != len(flat) {
				out.Pred(sig("tx-dropped-without-limit-or-blacklist"), det+" got="+res)
			}
		}
	} else {
		out.Stat("add_malformed_cases", 1)
	}
	if c.active(height) {
		out.Stat("add_fork_active", 1)
	} else {
		out.Stat("add_fork_inactive", 1)
	}
}

// ---------------------------------------------------------------- pools

func (w *world) smallOpt(blProb int) txOpt {
	o := txOpt{payload: w.r.Intn(60)}
	if w.r.Chance(blProb, 100) {
		if w.r.Bool() {
			o.fromBL = true
		} else {
			o.toBL = true
		}
	}
	return o
}

// randomPool: singles and groups, some blacklisted, optionally malformed entries.
func (w *world) randomPool(n int, blProb int, malformed bool) []*types.Transaction {
	var pool []*types.Transaction
	for len(pool) < n {
		mw := 1
		if malformed {
			mw = 3
		}
		switch w.r.Pick(5, 4, mw) {
		case 0:
			pool = append(pool, w.newTx(w.smallOpt(blProb)))
		case 1:
			k := w.r.Pick(4, 3, 2, 1) + 2
			if w.r.Chance(1, 12) {
				k = 20
			}
			opts := make([]txOpt, k)
			for i := range opts {
				opts[i] = w.smallOpt(blProb / 2)
			}
			h, _ := w.newGroup(opts)
			pool = append(pool, h)
		case 2:
			if !malformed {
				continue
			}
			pool = append(pool, w.malformed())
		}
	}
	return pool
}

func (w *world) malformed() *types.Transaction {
	switch w.r.Intn(8) {
	case 0: // GroupCount 1
		tx := w.newTx(txOpt{})
		tx.GroupCount = 1
		return tx
	case 1: // GroupCount > 20
		tx := w.newTx(txOpt{})
		tx.GroupCount = 21
		return tx
	case 2: // negative
		tx := w.newTx(txOpt{})
		tx.GroupCount = -2
		return tx
	case 3: // normal tx with a Header
		tx := w.newTx(txOpt{})
		tx.Header = []byte{1, 2, 3}
		return tx
	case 4: // normal tx with Next
		tx := w.newTx(txOpt{})
		tx.Next = []byte{9}
		return tx
	case 5: // group count with undecodable header
		tx := w.newTx(txOpt{})
		tx.GroupCount = 2
		tx.Header = []byte{0x0a, 0x7f, 1}
		return tx
	case 6: // group count with empty header: decodes to an empty group
		tx := w.newTx(txOpt{})
		tx.GroupCount = 2
		tx.Header = nil
		return tx
	default: // GroupCount disagrees with the encoded group
		h, _ := w.newGroup([]txOpt{w.smallOpt(0), w.smallOpt(0), w.smallOpt(0)})
		h.GroupCount = 2
		return h
	}
}

func (w *world) heightsAround(c *conf) []int64 {
	hs := []int64{-1, 0, 1}
	for _, f := range c.forks {
		hs = append(hs, f.h-1, f.h, f.h+1)
	}
	if c.blFork != types.MaxHeight {
		hs = append(hs, c.blFork-1, c.blFork, c.blFork+1)
	}
	hs = append(hs, 1000000)
	return hs
}

func (w *world) countEdges(c *conf) {
	for _, h := range w.heightsAround(c) {
		lim := c.limit(h)
		out.Op(fmt.Sprintf("lim %d %s %d", c.base, c.forksStr(), h), strconv.FormatInt(c.cfg.GetP(h).MaxTxNumber, 10))
		if lim > 200 {
			continue
		}
		for rep := 0; rep < gen.Scale(3, 120); rep++ {
			// pools whose flattened length is around the limit; pre-filled blocks sometimes
			pre := []*types.Transaction{}
			if w.r.Chance(1, 3) {
				for i := 0; i < w.r.Intn(int(lim)+2); i++ {
					pre = append(pre, w.newTx(txOpt{}))
				}
			}
			want := int(lim) - len(pre) + w.r.Range(-2, 3)
			if want < 0 {
				want = 0
			}
			pool := w.poolWithTotal(want, 15)
			// something after the cut that would still fit: must not be taken (stop, not skip)
			pool = append(pool, w.newTx(txOpt{}))
			w.runAdd(c, h, pre, pool, "count_edge")
		}
		w.runAdd(c, h, nil, w.randomPool(w.r.Range(0, 12), 25, true), "random_malformed")
		w.runAdd(c, h, nil, w.randomPool(w.r.Range(0, 12), 40, false), "random_blacklist")
	}
}

// poolWithTotal: entries whose flattened length is exactly total (when total >= 2 mixes groups).
func (w *world) poolWithTotal(total int, blProb int) []*types.Transaction {
	var pool []*types.Transaction
	for total > 0 {
		k := 1
		if total >= 2 && w.r.Bool() {
			k = w.r.Range(2, min(total, 6))
		}
		if k == 1 {
			pool = append(pool, w.newTx(w.smallOpt(blProb)))
		} else {
			opts := make([]txOpt, k)
			for i := range opts {
				opts[i] = w.smallOpt(blProb / 3)
			}
			h, _ := w.newGroup(opts)
			pool = append(pool, h)
		}
		total -= k
	}
	return pool
}

// sizeEdges: fill the block to bound-d for d around 0 with realistic transactions (<= ~99 KB each,
// singles and groups), and with a few huge singles.
func (w *world) sizeEdges(c *conf, height int64) {
	for rep := 0; rep < gen.Scale(6, 150); rep++ {
		block := &types.Block{Height: height}
		size0 := block.Size()
		var pool []*types.Transaction
		sum := size0
		huge := rep%3 == 2
		// body
		for sum < bound-400000 {
			if huge {
				s := w.r.Range(1000000, 6000000)
				if sum+s > bound-400000 {
					break
				}
				pool = append(pool, w.withSize(s, txOpt{unsigned: true}))
				sum += s
				continue
			}
			if w.r.Chance(1, 4) && sum+700000 < bound-400000 {
				k := w.r.Range(2, 6)
				opts := make([]txOpt, k)
				for i := range opts {
					opts[i] = txOpt{payload: w.r.Range(60000, 99000)}
				}
				h, ms := w.newGroup(opts)
				for _, m := range ms {
					sum += m.Size()
				}
				pool = append(pool, h)
			} else {
				tx := w.newTx(txOpt{payload: w.r.Range(50000, 99000), unsigned: true})
				sum += tx.Size()
				pool = append(pool, tx)
			}
		}
		// closing entry lands the total at bound + d
		d := []int{-1, 0, 1, 2, -2, 100, -100}[w.r.Intn(7)]
		rest := bound + d - sum
		if rep%2 == 0 && !huge {
			for rest > 279000 {
				tx := w.withSize(90000, txOpt{unsigned: true})
				pool = append(pool, tx)
				rest -= 90000
			}
			// closing group of 3: two fixed members, the last sized to land exactly
			opts := []txOpt{{payload: 90000}, {payload: 90000}, {payload: 1000}}
			h, ms := w.newGroup(opts)
			fixed := ms[0].Size() + ms[1].Size()
			for i := 0; i < 6; i++ {
				cur := ms[2].Size()
				wantLast := rest - fixed
				if cur == wantLast || wantLast < 300 {
					break
				}
				opts[2].payload += wantLast - cur
				if opts[2].payload < 0 {
					opts[2].payload = 0
				}
				h, ms = w.newGroup(opts)
				fixed = ms[0].Size() + ms[1].Size()
			}
			pool = append(pool, h)
		} else {
			for rest > 99000 && !huge {
				tx := w.withSize(90000, txOpt{unsigned: true})
				pool = append(pool, tx)
				rest -= 90000
			}
			pool = append(pool, w.withSize(rest, txOpt{unsigned: true}))
		}
		// a small one after the cut: must not be taken once the bound stopped the loop
		pool = append(pool, w.newTx(txOpt{unsigned: true}))
		w.runAdd(c, height, nil, pool, "size_edge")
	}
}

// bigCount: the stock limit of 10000 with tiny transactions.
func (w *world) bigCount(c *conf, height int64) {
	lim := int(c.limit(height))
	for _, d := range []int{-1, 0, 1} {
		var pool []*types.Transaction
		n := 0
		for n < lim+d-25 {
			pool = append(pool, w.newTx(txOpt{unsigned: true}))
			n++
		}
		for n < lim+d {
			k := min(lim+d-n, 5)
			if k < 2 {
				pool = append(pool, w.newTx(txOpt{unsigned: true}))
				n++
				continue
			}
			opts := make([]txOpt, k)
			h, _ := w.newGroup(opts)
			pool = append(pool, h)
			n += k
		}
		pool = append(pool, w.newTx(txOpt{unsigned: true}), w.newTx(txOpt{unsigned: true}))
		w.runAdd(c, height, nil, pool, "big_count")
	}
}

// ---------------------------------------------------------------- CheckTxExpire

type seg struct {
	txs     []*types.Transaction
	expired bool // some member expired, by construction
}

// expireFor returns an Expire value that is / is not expired at (height, blocktime), by kind.
func (w *world) expireFor(expired bool, height, blocktime int64, txHeightOn bool) int64 {
	k := w.r.Intn(3)
	if !txHeightOn && k == 2 {
		k = 1
	}
	if height <= 0 || blocktime <= 0 {
		// gate closed: nothing counts as expired
		return []int64{0, 1, 5, types.ExpireBound + 1}[w.r.Intn(4)]
	}
	switch k {
	case 0: // height form: expired iff expire <= height
		if expired {
			e := height - int64(w.r.Intn(3))
			if e <= 0 {
				e = height
			}
			return e
		}
		if height+1 > types.ExpireBound {
			return 0
		}
		return height + 1 + int64(w.r.Intn(3))
	case 1: // time form (> ExpireBound): expired iff expire <= blocktime
		if blocktime <= types.ExpireBound+5 {
			if expired {
				return height // fall back to the height form
			}
			return types.ExpireBound + 10 + blocktime
		}
		if expired {
			return blocktime - int64(w.r.Intn(3))
		}
		return blocktime + 1 + int64(w.r.Intn(3))
	default: // TxHeight form: valid iff txHeight-200 <= height <= txHeight+600
		if expired {
			if w.r.Bool() {
				return types.TxHeightFlag + height + 201 + int64(w.r.Intn(3))
			}
			th := height - 601 - int64(w.r.Intn(3))
			if th <= 0 {
				return types.TxHeightFlag + height + 201
			}
			return types.TxHeightFlag + th
		}
		th := height + int64(w.r.Range(-600, 200))
		if th <= 0 {
			th = height
		}
		return types.TxHeightFlag + th
	}
}

func hdrDesc(tx *types.Transaction) string {
	g, _ := tx.GetTxGroup()
	if g == nil {
		return "n"
	}
	var es []string
	for _, m := range g.Txs {
		es = append(es, fmt.Sprintf("%d~%d", m.GroupCount, m.Expire))
	}
	return "g" + strings.Join(es, ".")
}

func descETx(tx *types.Transaction) string {
	id := tx.Nonce
	if id < 0 {
		id = 0
	}
	return fmt.Sprintf("%d:%d:%d:%s", id, tx.GroupCount, tx.Expire, hdrDesc(tx))
}

func (w *world) runExpire(c *conf, segs []seg, raw []*types.Transaction, height, blocktime int64, tag string) {
	var txs []*types.Transaction
	if segs != nil {
		for _, s := range segs {
			txs = append(txs, s.txs...)
		}
	} else {
		txs = raw
	}
	txHeightOn := !c.cfg.IsPara() && c.cfg.IsEnableFork(height, "ForkTxHeight", c.cfg.IsEnable("TxHeight"))
	descs := make([]string, len(txs))
	for i, t := range txs {
		descs[i] = descETx(t)
	}
	op := fmt.Sprintf("exp %d %d %s", height, blocktime, b01(txHeightOn))
	if len(descs) > 0 {
		op += " " + strings.Join(descs, " ")
	}
	in := append([]*types.Transaction{}, txs...)
	var got []*types.Transaction
	res := gen.Guard(func() string { got = c.bc.CheckTxExpire(in, height, blocktime); return idsOf(got) })
	out.Op(op, res)
	out.Stat("exp_cases", 1)
	out.Stat("exp_"+tag, 1)
	if segs == nil {
		return // malformed lists: differential only
	}
	det := fmt.Sprintf("cfg=%s height=%d blocktime=%d n=%d tag=%s", c.name, height, blocktime, len(txs), tag)
	sig := func(kind string) string { return "C30|CheckTxExpire|" + kind }
	if res == "panic" {
		out.Pred(sig("panic-on-well-formed-list"), det)
		return
	}
	kept := map[int64]bool{}
	for _, t := range got {
		if t == nil {
			out.Pred(sig("nil-entry-returned"), det)
			return
		}
		kept[t.Nonce] = true
	}
	// order: got is a sublist of txs
	j := 0
	for _, t := range got {
		for j < len(txs) && txs[j].Nonce != t.Nonce {
			j++
		}
		if j == len(txs) {
			out.Pred(sig("result-not-a-sublist-of-input-order"), det+" got="+res)
			return
		}
		j++
	}
	for _, s := range segs {
		n := 0
		for _, t := range s.txs {
			if kept[t.Nonce] {
				n++
			}
		}
		isGroup := len(s.txs) > 1
		switch {
		case n != 0 && n != len(s.txs):
			out.Pred(sig("group-partially-removed"), det+" got="+res)
		case s.expired && n != 0:
			kind := "expired-tx-kept"
			if isGroup {
				kind = "expired-group-kept"
				if g, _ := s.txs[0].GetTxGroup(); g != nil && len(g.Txs) > 0 {
					// the members' Header (the 32-byte group hash) happens to parse as a
					// Transactions message holding (garbage) transactions; repaired in /repo
					// 879d416 unless it passes isPackedGroupOf
					kind = "expired-group-kept-when-group-hash-parses-as-nonempty-group"
				} else if g != nil {
					// empty decoded message: repaired in /repo c2f0f61, must not come back
					kind = "expired-group-kept-when-group-hash-parses-as-protobuf"
				}
			}
			out.Pred(sig(kind), det+" ids="+idsOf(s.txs))
		case !s.expired && n == 0:
			out.Pred(sig("unexpired-tx-removed"), det+" ids="+idsOf(s.txs))
		}
		if s.expired {
			out.Stat("exp_segments_expired", 1)
		} else {
			out.Stat("exp_segments_live", 1)
		}
		if isGroup {
			out.Stat("exp_segments_group", 1)
		}
	}
}

// buildSegs: a well-formed expanded list: singles and whole groups; in an expired group a random
// non-empty subset of members is expired.
func (w *world) buildSegs(c *conf, n int, height, blocktime int64, avoidDecodable bool) []seg {
	txHeightOn := !c.cfg.IsPara() && c.cfg.IsEnableFork(height, "ForkTxHeight", c.cfg.IsEnable("TxHeight"))
	gate := height > 0 && blocktime > 0
	var segs []seg
	for i := 0; i < n; i++ {
		exp := w.r.Chance(2, 5)
		if w.r.Bool() {
			tx := w.newTx(txOpt{unsigned: true, expire: w.expireFor(exp, height, blocktime, txHeightOn), expired: exp && gate})
			segs = append(segs, seg{[]*types.Transaction{tx}, exp && gate})
			continue
		}
		k := w.r.Range(2, 5)
		for {
			opts := make([]txOpt, k)
			any := false
			for j := range opts {
				e := exp && w.r.Bool()
				if exp && j == k-1 && !any {
					e = true
				}
				any = any || e
				opts[j] = txOpt{expire: w.expireFor(e, height, blocktime, txHeightOn), expired: e && gate}
			}
			_, ms := w.newGroup(opts)
			if g, _ := ms[0].GetTxGroup(); g != nil {
				out.Stat("exp_group_with_decodable_hash", 1)
			}
			segs = append(segs, seg{ms, exp && gate})
			break
		}
	}
	return segs
}

// decodableGroup grinds a group whose 32-byte head hash parses as a Transactions message
// (about 1 in 500 hashes): the witness of the CheckTxExpire defect.
func (w *world) decodableGroup(expire int64) []*types.Transaction {
	for try := 0; try < 200000; try++ {
		opts := []txOpt{{expire: expire, expired: true}, {expire: expire, expired: true}}
		var txs []*types.Transaction
		for _, o := range opts {
			o.unsigned = true
			txs = append(txs, w.newTx(o))
		}
		g, err := types.CreateTxGroup(txs, 100000)
		if err != nil {
			panic(err)
		}
		if gg, _ := g.Txs[0].GetTxGroup(); gg != nil {
			out.Stat("witness_grind_tries", int64(try+1))
			return g.Txs
		}
	}
	return nil
}

func (w *world) expireCases(c *conf) {
	type hb struct{ h, b int64 }
	pts := []hb{{10, 1600000000}, {1, 1}, {0, 1600000000}, {10, 0}, {-1, 5}, {1000, 2000000000}, {5000000, 1700000000}}
	for _, p := range pts {
		for rep := 0; rep < gen.Scale(8, 500); rep++ {
			segs := w.buildSegs(c, w.r.Range(0, 9), p.h, p.b, true)
			w.runExpire(c, segs, nil, p.h, p.b, "well_formed")
		}
	}
	// malformed lists (differential only): truncated groups, GroupCount 1, negative, oversized
	for rep := 0; rep < gen.Scale(40, 3000); rep++ {
		segs := w.buildSegs(c, w.r.Range(1, 6), 10, 1600000000, true)
		var txs []*types.Transaction
		for _, s := range segs {
			txs = append(txs, s.txs...)
		}
		switch w.r.Intn(5) {
		case 0:
			txs = txs[:w.r.Intn(len(txs)+1)]
		case 1:
			txs = txs[w.r.Intn(len(txs)):]
		case 2:
			t := types.CloneTx(txs[w.r.Intn(len(txs))])
			t.GroupCount = int32(w.r.Range(-3, 1))
			if t.GroupCount == 0 {
				t.GroupCount = 1
			}
			txs[w.r.Intn(len(txs))] = t
		case 3:
			t := types.CloneTx(txs[w.r.Intn(len(txs))])
			t.GroupCount = int32(w.r.Range(2, 25))
			txs[w.r.Intn(len(txs))] = t
		case 4:
			p := w.r.Perm(len(txs))
			sh := make([]*types.Transaction, len(txs))
			for i, j := range p {
				sh[i] = txs[j]
			}
			txs = sh
		}
		w.runExpire(c, nil, txs, 10, 1600000000, "malformed")
	}
}

// nonEmptyDecodableGroup rebuilds a group whose head hash parses as a Transactions message holding
// one garbage transaction (about 1 in 6.5 million hashes; the first member's nonce below was found
// by grinding for a few seconds). nil when the encoding changed and the hash no longer decodes so.
func (w *world) nonEmptyDecodableGroup(expire int64) []*types.Transaction {
	txs := []*types.Transaction{
		{Execer: []byte("none"), Nonce: 2080378465, Expire: expire},
		{Execer: []byte("none"), Nonce: 1999999999, Expire: expire},
	}
	g, err := types.CreateTxGroup(txs, 100000)
	if err != nil {
		return nil
	}
	if gg, _ := g.Txs[0].GetTxGroup(); gg == nil || len(gg.Txs) == 0 {
		return nil
	}
	for _, t := range g.Txs {
		w.info[t.Nonce] = &txInfo{expired: true}
	}
	return g.Txs
}

// witness: regressions of the two repaired defects — an expired group whose head hash parses (a) as
// an *empty* protobuf message, (b) as a message with one garbage transaction must be removed as a
// whole — and (c), differential only, members carrying a *forged* 32-byte Header that decodes as a
// group of exactly GroupCount members all carrying GroupCount (what isPackedGroupOf accepts; not a
// valid group since Header is not the group hash, so no predicate).
func (w *world) witness(c *conf) {
	single := w.newTx(txOpt{unsigned: true, expire: 5, expired: true})
	live := w.newTx(txOpt{unsigned: true, expire: 0})
	if ms := w.decodableGroup(5); ms != nil {
		segs := []seg{{[]*types.Transaction{single}, true}, {ms, true}, {[]*types.Transaction{live}, false}}
		w.runExpire(c, segs, nil, 10, 1600000000, "witness_empty_decodable_group_hash")
	} else {
		out.Note("no decodable group hash found")
	}
	if ms := w.nonEmptyDecodableGroup(5); ms != nil {
		segs := []seg{{[]*types.Transaction{single}, true}, {ms, true}, {[]*types.Transaction{live}, false}}
		w.runExpire(c, segs, nil, 10, 1600000000, "witness_nonempty_decodable_group_hash")
		out.Sample(fmt.Sprintf("CheckTxExpire(height 10): expired group (Expire=5) whose head hash %x parses as a Transactions message with one garbage transaction is removed as a whole", ms[0].Header))
	} else {
		out.Note("ground nonce no longer yields a group hash that decodes as a non-empty group")
		out.Stat("witness_nonempty_not_reproducible", 1)
	}
	// truncated trailing group: i+GroupCount > len(txs) is `continue`d over, the expired members
	// are kept (no caller passes such a list; differential only, see Props expire_truncated_group_kept)
	{
		_, ms := w.newGroup([]txOpt{{expire: 5, expired: true}, {expire: 5, expired: true}, {expire: 5, expired: true}})
		w.runExpire(c, nil, []*types.Transaction{single, ms[0], ms[1]}, 10, 1600000000, "truncated_trailing_group")
	}
	// (c) forged header: 0a0e 4002 120a<10 bytes> twice = two members with GroupCount 2, Expire 0
	member := append([]byte{0x0a, 0x0e, 0x40, 0x02, 0x12, 0x0a}, make([]byte, 10)...)
	forged := append(append([]byte{}, member...), member...)
	var dec types.Transactions
	if err := types.Decode(forged, &dec); err != nil || len(dec.Txs) != 2 || dec.Txs[0].GroupCount != 2 || dec.Txs[1].GroupCount != 2 || len(forged) != 32 {
		out.Note("forged 32-byte header no longer decodes as a packed group of two")
		return
	}
	a := w.newTx(txOpt{unsigned: true, expire: 5, expired: true})
	b := w.newTx(txOpt{unsigned: true, expire: 5, expired: true})
	for _, t := range []*types.Transaction{a, b} {
		t.GroupCount = 2
		t.Header = forged
	}
	w.runExpire(c, nil, []*types.Transaction{single, a, b, live}, 10, 1600000000, "forged_header_packed_group")
	out.Stat("forged_header_is_32_bytes_and_decodes_as_packed_group", 1)
}

func main() {
	defer out.Flush()
	log15.Root().SetHandler(log15.DiscardHandler()) // the repo's logger writes to stdout
	if lines := gen.ReplayLines(); lines != nil {
		// corpus/replay lines are abstract descriptions; they are re-run through the generators by
		// seed (runner replays by seed+tier). Nothing to do for literal lines.
		for range lines {
		}
		return
	}
	r := gen.New(gen.Seed())
	w := newWorld(r)
	restore := types.SetBlockedAccountsForTest(w.blAddr)
	defer restore()

	small := forkConf("verifc30a", 12, 50, 7, 80, 20, 100, 30)
	tiny := forkConf("verifc30b", 3, 10, 0, 20, 1, types.MaxHeight, 1000000)
	same := forkConf("verifc30c", 5, 40, 9, 41, 2, 40, 0)
	wide := forkConf("verifc30d", 10000, 50, 9000, 80, 10000, 100, 30)
	local := localConf()
	// NewChain33Config may reset the global blacklist from the config file: set it again
	types.SetBlockedAccountsForTest(w.blAddr)

	for _, c := range []*conf{small, tiny, same} {
		w.countEdges(c)
	}
	for _, h := range []int64{0, 1, 5} {
		out.Op(fmt.Sprintf("lim %d %s %d", local.base, local.forksStr(), h), strconv.FormatInt(local.cfg.GetP(h).MaxTxNumber, 10))
	}
	w.runAdd(local, 5, nil, w.randomPool(10, 30, true), "random_malformed")
	w.bigCount(local, 3)
	w.sizeEdges(local, 7)
	w.sizeEdges(wide, 99) // blacklist fork inactive
	w.sizeEdges(wide, 100)
	// configuration assumption demo: maxTxNumber = 100000 (types.MaxTxsPerBlock), 100000 txs of Size 199
	{
		huge := forkConf("verifc30e", 100000, 50, 100000, 80, 100000, types.MaxHeight, 1000000)
		types.SetBlockedAccountsForTest(w.blAddr)
		block := &types.Block{Height: 5}
		n := (bound - block.Size()) / 199
		pool := make([]*types.Transaction, 0, n)
		pay := -1
		for i := 0; i < n; i++ {
			if pay >= 0 {
				if tx := w.newTx(txOpt{unsigned: true, payload: pay}); tx.Size() == 199 {
					pool = append(pool, tx)
					continue
				}
			}
			tx := w.withSize(199, txOpt{unsigned: true})
			pay = len(tx.Payload)
			pool = append(pool, tx)
		}
		w.runAdd(huge, 5, nil, pool, "limit_over_20000_demo")
	}
	w.expireCases(small)
	w.expireCases(local)
	w.witness(small)

	// empty blacklist: nothing is blocked whatever the fork says
	types.SetBlockedAccountsForTest(nil)
	for k := range w.info {
		w.info[k].blocked = false
	}
	noBL := *small
	w.runAdd(&noBL, 150, nil, w.randomPool(8, 0, false), "empty_blacklist")
}
