// h_c31 — blacklisted accounts cannot transact.
//
// Modes (VERIF_C31_MODE):
//   core  types.CheckTxBlockedAccount / ...Immediate on generated transactions: every position (sender, recipient,
//         EVM contract address, EVM 20-byte target) x every spelling of the account (base58 with version byte 0 / 5 /
//         other, hex with 0x / 0X / no prefix in lower / upper / mixed / checksum case) x blacklist entries spelled in
//         the same variety x heights before / at / after the activation height.
//   para  the same on a para-chain configuration, where the real recipient lives in the payload.
//   node  a real testnode: EventExecTxList receipts (single, group member, proxied inner transaction) with an empty
//         and with the configured blacklist; consensus AddTxsToBlock; mempool EventTx replies; delayed transactions
//         (EventAddDelayTx and block-embedded CommitDelayTx).
// Every observation is also compared with the Lean model, which parses the spellings itself (base58, SHA-256d
// checksum, hex); the property predicate uses the generator's ground truth (which 20 bytes a spelling was made of).
package main

import (
	"crypto/sha256"
	"encoding/hex"
	"fmt"
	"math/big"
	"os"
	"strings"
	"time"

	"github.com/33cn/chain33/common/address"
	"github.com/33cn/chain33/common/crypto"
	"github.com/33cn/chain33/pluginmgr"
	erpctypes "github.com/33cn/chain33/rpc/ethrpc/types"
	_ "github.com/33cn/chain33/system"
	"github.com/33cn/chain33/system/consensus"
	cty "github.com/33cn/chain33/system/dapp/coins/types"
	nty "github.com/33cn/chain33/system/dapp/none/types"
	"github.com/33cn/chain33/types"
	"github.com/33cn/chain33/util"
	"github.com/33cn/chain33/util/testnode"
	"github.com/decred/base58"
	ecommon "github.com/ethereum/go-ethereum/common"
	ethtypes "github.com/ethereum/go-ethereum/core/types"
	ethcrypto "github.com/ethereum/go-ethereum/crypto"

	"verifharness/internal/gen"
	_ "verifharness/internal/quiet"
)

var out = gen.NewOut()

const forkHeight = 10

func hx(s string) string {
	if s == "" {
		return "-"
	}
	return hex.EncodeToString([]byte(s))
}

func hxb(b []byte) string {
	if len(b) == 0 {
		return "-"
	}
	return hex.EncodeToString(b)
}

func sha2(b []byte) []byte {
	a := sha256.Sum256(b)
	c := sha256.Sum256(a[:])
	return c[:]
}

func b58check(ver byte, raw []byte) string {
	b := append([]byte{ver}, raw...)
	b = append(b, sha2(b)[:4]...)
	return base58.Encode(b)
}

const nForms = 9

var formNames = []string{"b58v0", "b58v5", "b58vX", "0xlower", "0xUPPER", "0Xmixed", "lower", "UPPER", "0xChecksum"}

// spell renders the 20 bytes in one of the spellings.
func spell(r *gen.Rand, raw []byte, form int) string {
	h := hex.EncodeToString(raw)
	switch form {
	case 0:
		return b58check(0, raw)
	case 1:
		return b58check(5, raw)
	case 2:
		return b58check(byte(6+r.Intn(200)), raw)
	case 3:
		return "0x" + h
	case 4:
		return "0x" + strings.ToUpper(h)
	case 5:
		b := []byte(h)
		for i := range b {
			if r.Bool() {
				b[i] = strings.ToUpper(string(b[i]))[0]
			}
		}
		return "0X" + string(b)
	case 6:
		return h
	case 7:
		return strings.ToUpper(h)
	default:
		return ecommon.BytesToAddress(raw).Hex()
	}
}

// malformed spellings: must parse to nothing.
func badSpelling(r *gen.Rand, raw []byte) string {
	h := hex.EncodeToString(raw)
	switch r.Intn(7) {
	case 0:
		return "0x" + h[:39]
	case 1:
		return "0x" + h + "0"
	case 2:
		s := b58check(0, raw)
		return s[:len(s)-1] + map[bool]string{true: "2", false: "3"}[s[len(s)-1] != '2']
	case 3:
		return "0x" + h[:20] + "zz" + h[22:]
	case 4:
		return b58check(0, raw[:19])
	case 5:
		return " " + b58check(0, raw)
	default:
		return []string{"", "0x", "not-an-address", "0OIl"}[r.Intn(4)]
	}
}

type txSpec struct {
	tx    *types.Transaction
	truth bool   // one of the checked positions carries a blacklisted account (by construction)
	where string // which
}

type world struct {
	r       *gen.Rand
	cfg     *types.Chain33Config
	kb      crypto.PrivKey // secp256k1 key whose account is a victim
	kn      crypto.PrivKey // secp256k1 key of a normal account
	ethSK   string         // eth key (victim as a sender)
	ethSKn  string         // eth key, normal
	victims [][]byte
	others  [][]byte
	setTxt  []string
}

func (w *world) isVictim(raw []byte) bool {
	for _, v := range w.victims {
		if string(v) == string(raw) {
			return true
		}
	}
	return false
}

func hash160OfBtcAddr(a string) []byte {
	d := base58.Decode(a)
	return d[1:21]
}

func newWorld(r *gen.Rand, cfg *types.Chain33Config) *world {
	w := &world{r: r, cfg: cfg, kb: util.TestPrivkeyList[2], kn: util.TestPrivkeyList[3]}
	w.ethSK = "7939624566468cfa3cb2c9f39d5ad83bdc7cf4356bfd1a7b8094abda6b0699d1"
	w.ethSKn = "4257d8692ef7fe13c68b65d6a52f03933db2fa5ce8faf210b5b8b80c721ced01"
	w.victims = append(w.victims, hash160OfBtcAddr(address.PubKeyToAddr(address.DefaultID, w.kb.PubKey().Bytes())))
	sk, _ := ethcrypto.ToECDSA(ecommon.FromHex(w.ethSK))
	w.victims = append(w.victims, ethcrypto.PubkeyToAddress(sk.PublicKey).Bytes())
	w.victims = append(w.victims, r.Bytes(20), r.Bytes(20))
	for i := 0; i < 4; i++ {
		w.others = append(w.others, r.Bytes(20))
	}
	return w
}

// configure sets the blacklist from freshly chosen spellings of the victims; returns the outcome (ok|panic).
func (w *world) configure(withBad bool) string {
	var l []string
	for _, v := range w.victims {
		l = append(l, spell(w.r, v, w.r.Intn(nForms)))
	}
	if w.r.Chance(1, 3) { // an account listed twice in two spellings
		l = append(l, spell(w.r, w.victims[w.r.Intn(len(w.victims))], w.r.Intn(nForms)))
	}
	if withBad {
		res := w.setList(append(append([]string{}, l...), badSpelling(w.r, w.r.Bytes(20))))
		if res == "ok" {
			return res
		}
		// a malformed entry was refused (panic at load, nothing installed): the victims must still be
		// listed for the by-construction truth of the generated transactions, so install the list without it
	}
	return w.setList(l)
}

func (w *world) setList(l []string) string {
	var hs []string
	for _, s := range l {
		hs = append(hs, hx(s))
	}
	arg := "none"
	if len(hs) > 0 {
		arg = strings.Join(hs, ",")
	}
	res := gen.Guard(func() string { types.SetBlockedAccountsForTest(l); return "ok" })
	out.Op("set "+arg, res)
	if res == "ok" {
		w.setTxt = l
	}
	return res
}

func evmOf(tx *types.Transaction) string {
	var a types.EVMContractAction4Chain33
	if types.Decode(tx.GetPayload(), &a) != nil {
		return "n"
	}
	return hx(a.GetContractAddr()) + ":" + hxb(a.GetPara())
}

func txv(tx *types.Transaction) string {
	return hx(tx.From()) + "/" + hx(tx.GetTo()) + "/" + hx(tx.GetRealToAddr()) + "/" + hx(string(tx.GetExecer())) + "/" + evmOf(tx)
}

func posOf(err error) string {
	if err == nil {
		return "pass"
	}
	s := err.Error()
	switch {
	case !strings.Contains(s, "ErrBlockedAccount"):
		return "other:" + s
	case strings.Contains(s, ": from "):
		return "hit:from"
	case strings.Contains(s, ": to "):
		return "hit:to"
	case strings.Contains(s, ": real to "):
		return "hit:realTo"
	case strings.Contains(s, ": evm contract addr "):
		return "hit:evmContract"
	case strings.Contains(s, ": evm transfer to "):
		return "hit:evmPara"
	}
	return "hit:?"
}

func (w *world) sign(tx *types.Transaction, kind int) {
	switch kind {
	case 0:
		tx.Sign(types.SECP256K1, w.kn)
	case 1:
		tx.Sign(types.SECP256K1, w.kb)
	case 2: // the victim key signing with the multi-sig address type: another accepted spelling of the sender
		tx.Sign(types.EncodeSignID(types.SECP256K1, 1), w.kb)
	}
}

func coinsPayload(amount int64, to string) []byte {
	return types.Encode(&cty.CoinsAction{Ty: cty.CoinsActionTransfer, Value: &cty.CoinsAction_Transfer{Transfer: &types.AssetsTransfer{Amount: amount, To: to}}})
}

// executor names GetRealExecName maps to "evm" ...
var evmShapes = []string{"evm", "user.evm.abc", "user.evm", "user.evm.x.y", "user.p.tt.evm", "user.p.tt.user.evm.x", "user.p.test.evm", "user.p.test.user.evm.q"}

// ... and decoys that merely contain or end in "evm": their payload is NOT an EVM position
var evmDecoys = []string{"xevm", "user.evmx", "user.p.tt.notevm", "user.write.evm", "user..evm", "user.p.evm", "user.p.tt.", "user.p.tt.user.evmx.evm", "evm.user", "EVM"}

// evmExecer picks an executor name for an EVM-looking payload; isEvm is the ground truth.
func (w *world) evmExecer() (string, bool) {
	if w.r.Chance(1, 3) {
		return evmDecoys[w.r.Intn(len(evmDecoys))], false
	}
	return evmShapes[w.r.Intn(len(evmShapes))], true
}

// genTx builds a transaction touching (or not) a victim at a generated position / spelling.
func (w *world) genTx(para bool) *txSpec {
	r := w.r
	pick := func() ([]byte, bool) {
		if r.Chance(3, 5) {
			return w.victims[r.Intn(len(w.victims))], true
		}
		return w.others[r.Intn(len(w.others))], false
	}
	fee := int64(1000000)
	nonce := int64(r.U64() >> 1)
	title := ""
	if para {
		title = "user.p.test."
	}
	sp := &txSpec{}
	switch r.Pick(4, 3, 3, 3, 2, 2) {
	case 0: // recipient
		raw, v := pick()
		form := r.Intn(nForms)
		to := spell(r, raw, form)
		tx := &types.Transaction{Execer: []byte(title + "coins"), Payload: coinsPayload(1000, to), To: to, Fee: fee, Nonce: nonce, ChainID: w.cfg.GetChainID()}
		if para { // on a para chain tx.To is the executor address; the recipient is in the payload
			tx.To = address.ExecAddress(title + "coins")
		}
		w.sign(tx, 0)
		sp.tx, sp.truth, sp.where = tx, v, "to/"+formNames[form]
		out.Stat("pos_to_"+formNames[form], 1)
	case 1: // sender
		kind := r.Intn(3)
		raw := w.others[0]
		to := spell(r, raw, 0)
		tx := &types.Transaction{Execer: []byte(title + "coins"), Payload: coinsPayload(1000, to), To: to, Fee: fee, Nonce: nonce, ChainID: w.cfg.GetChainID()}
		w.sign(tx, kind)
		sp.tx, sp.truth, sp.where = tx, kind != 0, fmt.Sprint("from/signkind", kind)
		out.Stat(fmt.Sprint("pos_from_kind", kind), 1)
	case 2: // EVM contract address
		raw, v := pick()
		form := r.Intn(nForms)
		a := &types.EVMContractAction4Chain33{GasLimit: 10000, GasPrice: 1, ContractAddr: spell(r, raw, form)}
		ex, isEvm := w.evmExecer()
		tx := &types.Transaction{Execer: []byte(ex), Payload: types.Encode(a), To: address.ExecAddress(ex), Fee: fee, Nonce: nonce, ChainID: w.cfg.GetChainID()}
		w.sign(tx, 0)
		sp.tx, sp.truth, sp.where = tx, v && isEvm, "evmContract/"+formNames[form]+"/"+ex
		out.Stat("pos_evmContract_"+formNames[form], 1)
		out.Stat("evm_execer_"+ex, 1)
	case 3: // EVM plain transfer target (raw 20 bytes in Para)
		raw, v := pick()
		p := raw
		switch r.Intn(5) {
		case 0:
			p, v = raw[:19], false
		case 1:
			p, v = append(append([]byte{}, raw...), 0), false
		}
		a := &types.EVMContractAction4Chain33{Amount: 1, GasLimit: 10000, GasPrice: 1, Para: p, ContractAddr: address.ExecAddress("evm")}
		ex, isEvm := w.evmExecer()
		tx := &types.Transaction{Execer: []byte(ex), Payload: types.Encode(a), To: address.ExecAddress(ex), Fee: fee, Nonce: nonce, ChainID: w.cfg.GetChainID()}
		w.sign(tx, 0)
		sp.tx, sp.truth, sp.where = tx, v && isEvm, fmt.Sprint("evmPara/len", len(p), "/", ex)
		out.Stat(fmt.Sprint("pos_evmPara_len", len(p)), 1)
		out.Stat("evm_execer_"+ex, 1)
	case 4: // not an EVM transaction although the payload looks like one; recipient malformed
		raw, _ := pick()
		a := &types.EVMContractAction4Chain33{GasLimit: 1, GasPrice: 1, ContractAddr: spell(r, raw, r.Intn(nForms)), Para: raw}
		tx := &types.Transaction{Execer: []byte(title + "none"), Payload: types.Encode(a), To: badSpelling(r, raw), Fee: fee, Nonce: nonce, ChainID: w.cfg.GetChainID()}
		w.sign(tx, 0)
		sp.tx, sp.truth, sp.where = tx, false, "decoy"
		out.Stat("pos_decoy", 1)
	default: // recipient and payload recipient differ (payload recipient is only "real" on a para chain)
		raw, v := pick()
		form := r.Intn(nForms)
		inner := spell(r, raw, form)
		outer := spell(r, w.others[1], 0)
		tx := &types.Transaction{Execer: []byte(title + "coins"), Payload: coinsPayload(5, inner), To: outer, Fee: fee, Nonce: nonce, ChainID: w.cfg.GetChainID()}
		w.sign(tx, 0)
		sp.tx, sp.truth, sp.where = tx, v && para, "payloadTo/"+formNames[form]
		out.Stat("pos_payloadTo_"+formNames[form], 1)
	}
	return sp
}

func (w *world) coreSweep(n int, para bool) {
	for i := 0; i < n; i++ {
		if i%25 == 0 {
			// a list with an unparsable entry panics and leaves the previous list in force: the very first list is a
			// good one, so that the ground truth (victims are listed) always holds
			w.configure(i > 0 && w.r.Chance(1, 4))
			if w.r.Chance(1, 10) {
				w.setList(nil)
				w.configure(false)
			}
		}
		sp := w.genTx(para)
		v := txv(sp.tx)
		for _, h := range []int64{forkHeight - 1, forkHeight, forkHeight + 7} {
			active := 0
			if h >= forkHeight {
				active = 1
			}
			res := posOf(types.CheckTxBlockedAccount(w.cfg, h, sp.tx))
			out.Op(fmt.Sprintf("core %d:%d %s", h, forkHeight, v), res)
			if active == 1 && sp.truth && res == "pass" {
				out.Pred("C31|CheckTxBlockedAccount|blacklisted-position-not-detected", fmt.Sprintf("%s height=%d set=%q tx=%s", sp.where, h, w.setTxt, v))
			}
			if active == 0 && res != "pass" {
				out.Stat("blocked_before_activation", 1)
			}
		}
		res := posOf(types.CheckTxBlockedAccountImmediate(sp.tx))
		out.Op("core 1 "+v, res)
		if sp.truth && res == "pass" {
			out.Pred("C31|CheckTxBlockedAccountImmediate|blacklisted-position-not-detected", fmt.Sprintf("%s set=%q tx=%s", sp.where, w.setTxt, v))
		}
		if sp.truth {
			out.Stat("tx_touching_blacklist", 1)
		} else {
			out.Stat("tx_not_touching_blacklist", 1)
		}
	}
	// GetRealExecName on its own
	for _, e := range append(append([]string{"", "user.", "user.p.", "user.p", "user.p..evm", "user.p.a.b.c.evm", "user.a", "user.a.", "coins", "user.p.tt.user.p.uu.evm"}, evmShapes...), evmDecoys...) {
		out.Op("realexec "+hx(e), hxb(types.GetRealExecName([]byte(e))))
	}
	// spelling parse on its own: every form and malformed texts as single-entry blacklists
	for i := 0; i < n/4; i++ {
		raw := w.r.Bytes(20)
		var s string
		good := w.r.Chance(2, 3)
		if good {
			s = spell(w.r, raw, w.r.Intn(nForms))
		} else {
			s = badSpelling(w.r, raw)
		}
		res := w.setList([]string{s})
		if good && (res != "ok" || !types.IsBlockedAccountRaw(raw)) {
			out.Pred("C31|parseBlockedAccount|spelling-not-understood", fmt.Sprintf("%q", s))
		}
		out.Op("parse "+hx(s), map[bool]string{true: hxb(raw), false: "none"}[res == "ok" && types.IsBlockedAccountRaw(raw)])
	}
}

// ---------------------------------------------------------------- node mode

type nodeEnv struct {
	w     *world
	mock  *testnode.Chain33Mock
	mockB *testnode.Chain33Mock // baseline pool (the blacklist is emptied around every call to it)
	wedged bool                 // a pool stopped answering: its Close would block for ever
	mockC *testnode.Chain33Mock // pool with mempool.disableExecCheck=true: the only configuration of this repository (no evm
	// plugin) in which a proxy-exec transaction passes the remaining pool checks
	state []byte
	bc    *consensus.BaseClient
	ethN  uint64
}

func tyName(t int32) string {
	switch t {
	case types.ExecErr:
		return "err"
	case types.ExecPack:
		return "pack"
	case types.ExecOk:
		return "ok"
	}
	return "?"
}

func (e *nodeEnv) execTypes(h int64, txs []*types.Transaction) []string {
	b := &types.Block{Height: h, BlockTime: e.mock.GetLastBlock().BlockTime + h, Txs: txs, ParentHash: e.mock.GetLastBlock().Hash(e.w.cfg)}
	rs, err := util.ExecTx(e.mock.GetClient(), e.state, b)
	if err != nil {
		return []string{"error:" + err.Error()}
	}
	var l []string
	for _, r := range rs.Receipts {
		l = append(l, tyName(r.Ty))
	}
	return l
}

// withEmpty runs f with an empty blacklist and restores the configured one.
func (e *nodeEnv) withEmpty(f func()) {
	restore := types.SetBlockedAccountsForTest(nil)
	f()
	restore()
}

// proxyTx wraps inner (unsigned chain33 transaction) into an Ethereum-signed transaction to the proxy-exec address.
func (e *nodeEnv) proxyTx(skHex string, nonce uint64, inner *types.Transaction) *types.Transaction {
	cfg := e.w.cfg
	proxyAddr := ecommon.HexToAddress(cfg.GetModuleConfig().Exec.ProxyExecAddress)
	sk, _ := ethcrypto.ToECDSA(ecommon.FromHex(skHex))
	signer := ethtypes.NewEIP155Signer(big.NewInt(3999))
	etx := ethtypes.NewTransaction(nonce, proxyAddr, big.NewInt(0), 3000000, big.NewInt(10e9), types.Encode(inner))
	signtx, err := ethtypes.SignTx(etx, signer, sk)
	if err != nil {
		panic(err)
	}
	v, r, s := signtx.RawSignatureValues()
	cv, _ := erpctypes.CaculateRealV(v, signtx.ChainId().Uint64(), signtx.Type())
	sig := make([]byte, 65)
	copy(sig[32-len(r.Bytes()):32], r.Bytes())
	copy(sig[64-len(s.Bytes()):64], s.Bytes())
	sig[64] = cv
	pubkey, err := ethcrypto.Ecrecover(signer.Hash(signtx).Bytes(), sig)
	if err != nil {
		panic(err)
	}
	return erpctypes.AssembleChain33Tx(signtx, sig, pubkey, cfg)
}

func (e *nodeEnv) execSweep(n int) {
	w := e.w
	for i := 0; i < n; i++ {
		if i%20 == 0 {
			w.configure(false)
		}
		h := []int64{forkHeight - 1, forkHeight, forkHeight + 3}[w.r.Intn(3)]
		active := 0
		if h >= forkHeight {
			active = 1
		}
		switch w.r.Pick(3, 2, 2) {
		case 0: // single
			sp := w.genTx(false)
			var base, got []string
			e.withEmpty(func() { base = e.execTypes(h, []*types.Transaction{sp.tx}) })
			got = e.execTypes(h, []*types.Transaction{sp.tx})
			out.Op(fmt.Sprintf("exec %d:%d s %s %s", h, forkHeight, txv(sp.tx), base[0]), strings.Join(got, ","))
			if active == 1 && sp.truth && got[0] != "err" {
				out.Pred("C31|procExecTxList|single|blacklisted-tx-executed", fmt.Sprintf("%s height=%d set=%q receipt=%s", sp.where, h, w.setTxt, got[0]))
			}
			// the block producer's filter
			blk := &types.Block{Height: h}
			added := e.bc.AddTxsToBlock(blk, []*types.Transaction{sp.tx})
			res := "take"
			if len(added) == 0 {
				res = "skip"
			}
			out.Op(fmt.Sprintf("prod %d:%d %s", h, forkHeight, txv(sp.tx)), res)
			if active == 1 && sp.truth && res == "take" {
				out.Pred("C31|AddTxsToBlock|single|blacklisted-tx-packed", fmt.Sprintf("%s height=%d", sp.where, h))
			}
			out.Stat("exec_single", 1)
		case 1: // group: one member may touch the blacklist
			k := 2 + w.r.Intn(2)
			var specs []*txSpec
			var raw []*types.Transaction
			for j := 0; j < k; j++ {
				sp := w.genTx(false)
				specs = append(specs, sp)
				t := sp.tx.Clone()
				t.Signature = nil
				raw = append(raw, t)
			}
			grp, err := types.CreateTxGroup(raw, w.cfg.GetMinTxFeeRate())
			if err != nil {
				continue
			}
			truth := false
			for j, t := range grp.Txs {
				// re-sign with the key that produced the original sender
				kind := 0
				if strings.HasPrefix(specs[j].where, "from/signkind") {
					fmt.Sscanf(specs[j].where, "from/signkind%d", &kind)
				}
				w.sign(t, kind)
				truth = truth || specs[j].truth
			}
			var base, got []string
			e.withEmpty(func() { base = e.execTypes(h, grp.Txs) })
			got = e.execTypes(h, grp.Txs)
			if len(base) != len(grp.Txs) || len(got) != len(grp.Txs) {
				out.Stat("exec_group_odd_reply", 1)
				continue
			}
			var parts, vs []string
			for j, t := range grp.Txs {
				parts = append(parts, txv(t)+";"+base[j])
				vs = append(vs, txv(t))
			}
			out.Op(fmt.Sprintf("exec %d:%d g %s", h, forkHeight, strings.Join(parts, "|")), strings.Join(got, ","))
			if active == 1 && truth {
				for j := range got {
					if got[j] != "err" {
						out.Pred("C31|procExecTxList|group|blacklisted-tx-executed", fmt.Sprintf("member=%d height=%d receipts=%v", j, h, got))
						break
					}
				}
			}
			blk := &types.Block{Height: h}
			added := e.bc.AddTxsToBlock(blk, []*types.Transaction{grp.Tx()})
			res := "take"
			if len(added) == 0 {
				res = "skip"
			}
			out.Op(fmt.Sprintf("prod %d:%d %s", h, forkHeight, strings.Join(vs, "|")), res)
			if active == 1 && truth && res == "take" {
				out.Pred("C31|AddTxsToBlock|group|blacklisted-tx-packed", fmt.Sprintf("height=%d", h))
			}
			out.Stat("exec_group", 1)
		case 2: // proxied: the inner transaction carries the recipient
			sp := w.genTx(false)
			inner := sp.tx.Clone()
			inner.Signature = nil
			sk := w.ethSKn
			truth := sp.truth && !strings.HasPrefix(sp.where, "from/")
			if w.r.Chance(1, 4) {
				sk = w.ethSK // the sender (of outer and inner) is a victim
				truth = true
			}
			outer := e.proxyTx(sk, 0, inner)
			outerDirty := false
			if w.r.Chance(1, 4) { // the outer transaction's own EVM contract-address field names a victim (never executed as such)
				var a types.EVMContractAction4Chain33
				if types.Decode(outer.Payload, &a) == nil {
					a.ContractAddr = spell(w.r, w.victims[2], w.r.Intn(nForms))
					outer.Payload = types.Encode(&a)
					outerDirty = true
					out.Stat("exec_proxied_outer_contract_blacklisted", 1)
				}
			}
			// what the executor executes: the inner transaction with the outer signature
			eff := inner.Clone()
			eff.Signature = outer.Signature
			var base, got []string
			e.withEmpty(func() { base = e.execTypes(h, []*types.Transaction{outer}) })
			got = e.execTypes(h, []*types.Transaction{outer})
			out.Op(fmt.Sprintf("exec %d:%d p %s %s %s", h, forkHeight, txv(outer), txv(eff), base[0]), strings.Join(got, ","))
			if outerDirty { // declared: the executor does not look at the outer transaction; the producer does
				blk := &types.Block{Height: h}
				res := "take"
				if len(e.bc.AddTxsToBlock(blk, []*types.Transaction{outer})) == 0 {
					res = "skip"
				}
				out.Op(fmt.Sprintf("prod %d:%d %s", h, forkHeight, txv(outer)), res)
				if active == 1 && res == "take" {
					out.Pred("C31|AddTxsToBlock|proxied-outer|blacklisted-tx-packed", fmt.Sprintf("height=%d", h))
				}
			}
			if active == 1 && truth && got[0] != "err" {
				out.Pred("C31|procExecTxList|proxied|blacklisted-tx-executed", fmt.Sprintf("%s height=%d receipt=%s", sp.where, h, got[0]))
			}
			out.Stat("exec_proxied", 1)
			out.Stat("exec_proxied_base_"+base[0], 1)
		}
	}
}

// sendTx submits through the real client API but does not wait for ever: the mempool pipeline was seen to leave a
// submission unanswered (queue WaitTimeout(-1) never returns); such a submission is recorded and skipped.
func sendTx(nd *testnode.Chain33Mock, tx *types.Transaction) (*types.Reply, error) {
	type res struct {
		rep *types.Reply
		err error
	}
	ch := make(chan res, 1)
	go func() { rep, err := nd.GetAPI().SendTx(tx); ch <- res{rep, err} }()
	select {
	case r := <-ch:
		return r.rep, r.err
	case <-time.After(60 * time.Second):
		return nil, fmt.Errorf("verif-no-reply")
	}
}

// proxyInner mirrors the pool's unwrapping predicate (mempool.proxyExecInnerTx): the inner transaction of a proxy-exec
// transaction with the outer signature, or nil.
func proxyInner(cfg *types.Chain33Config, tx *types.Transaction) *types.Transaction {
	if tx.GetSignature() == nil || !types.IsEthSignID(tx.GetSignature().GetTy()) ||
		tx.GetTo() != cfg.GetModuleConfig().Exec.ProxyExecAddress || string(types.GetRealExecName(tx.GetExecer())) != "evm" {
		return nil
	}
	var a types.EVMContractAction4Chain33
	if types.Decode(tx.GetPayload(), &a) != nil || len(a.GetPara()) == 0 {
		return nil
	}
	var inner types.Transaction
	if types.Decode(a.GetPara(), &inner) != nil {
		return nil
	}
	inner.Signature = tx.GetSignature()
	return &inner
}

func poolRes(rep *types.Reply, err error) (string, string) {
	if err == nil && rep != nil && rep.IsOk {
		return "accepted", ""
	}
	msg := ""
	if err != nil {
		msg = err.Error()
	} else if rep != nil {
		msg = string(rep.Msg)
	}
	if strings.Contains(msg, "ErrBlockedAccount") {
		return "blocked", msg
	}
	return "other", msg
}

// errors the pool raises before it reaches the blacklist check
func early(msg string) bool {
	for _, s := range []string{"ErrSign", "ErrInvalidAddress", "ErrTxFee", "ErrTxMsgSize", "ErrEmptyTx", "ErrNilTransaction", "ErrTxGroup", "ErrAddress", "ErrCheck", "ErrDecodeBase58"} {
		if strings.Contains(msg, s) {
			return true
		}
	}
	return false
}

func (e *nodeEnv) poolSweep(n int) {
	w := e.w
	nProxied, maxProxied := 0, gen.Scale(4, 20)
	noReply := 0
	for i := 0; i < n; i++ {
		if i%20 == 0 {
			w.configure(false)
		}
		var send *types.Transaction
		var vs []string
		truth := false
		kind := w.r.Pick(4, 2, 2)
		// every accepted proxy-exec submission costs two seconds (the client waits for the Ethereum nonce bookkeeping):
		// a fixed small number per run, spread over the sweep
		if kind == 2 && (nProxied >= maxProxied || i < (n/maxProxied)*nProxied) {
			kind = 0
		}
		if kind != 2 && nProxied < maxProxied && i >= (n/maxProxied)*(nProxied+1) {
			kind = 2
		}
		where := ""
		switch kind {
		case 0:
			sp := w.genTx(false)
			send, truth, where = sp.tx, sp.truth, sp.where
			vs = []string{txv(sp.tx)}
		case 1:
			k := 2 + w.r.Intn(2)
			var raw []*types.Transaction
			var specs []*txSpec
			for j := 0; j < k; j++ {
				sp := w.genTx(false)
				for sp.where == "decoy" { // keep every member deliverable to the blacklist check
					sp = w.genTx(false)
				}
				specs = append(specs, sp)
				t := sp.tx.Clone()
				t.Signature = nil
				raw = append(raw, t)
			}
			grp, err := types.CreateTxGroup(raw, w.cfg.GetMinTxFeeRate())
			if err != nil {
				continue
			}
			for j, t := range grp.Txs {
				kind := 0
				if strings.HasPrefix(specs[j].where, "from/signkind") {
					fmt.Sscanf(specs[j].where, "from/signkind%d", &kind)
				}
				w.sign(t, kind)
				truth = truth || specs[j].truth
				vs = append(vs, txv(t))
			}
			send, where = grp.Tx(), "group"
		case 2:
			nProxied++
			sp := w.genTx(false)
			for nProxied%2 == 1 && !(sp.truth && strings.HasPrefix(sp.where, "to/")) { // every other one: a blacklisted inner recipient
				sp = w.genTx(false)
			}
			inner := sp.tx.Clone()
			inner.Signature = nil
			e.ethN++
			send = e.proxyTx(w.ethSKn, e.ethN, inner)
			vs = []string{txv(send)}
			truth, where = false, "proxied-outer"
			if sp.truth && !strings.HasPrefix(sp.where, "from/") {
				// the pool looks at the outer transaction only: the inner recipient is checked by the executor at
				// block execution, not at pool entry
				where = "proxied-inner:" + sp.where
			}
		}
		var base, bmsg string
		tSend := time.Now()
		poolA, poolB := e.mock, e.mockB
		if kind == 2 {
			poolA, poolB = e.mockC, e.mockC
		}
		e.withEmpty(func() {
			base, bmsg = poolRes(sendTx(poolB, send))
			if kind == 2 && base == "accepted" {
				_ = poolB.GetAPI().RemoveTxsByHashList(&types.TxHashList{Hashes: [][]byte{send.Hash()}})
			}
		})
		tMid := time.Now()
		got, gmsg := poolRes(sendTx(poolA, send))
		if os.Getenv("VERIF_DEBUG") != "" {
			fmt.Fprintf(os.Stderr, "kind %d base %s %v got %s %v\n", kind, base, tMid.Sub(tSend), got, time.Since(tMid))
		}
		if strings.Contains(bmsg, "verif-no-reply") || strings.Contains(gmsg, "verif-no-reply") {
			out.Stat("pool_submission_never_answered", 1)
			out.Note(fmt.Sprintf("mempool did not answer EventTx within 60s: kind=%d where=%s base=%q got=%q", kind, where, bmsg, gmsg))
			noReply++
			e.wedged = true
			return
		}
		reach := 1
		if base == "other" && early(bmsg) && !strings.Contains(bmsg, "ErrInvalidAddress") {
			reach = 0
		}
		// the pool checks the members one after the other: recipient address, then blacklist
		members := []*types.Transaction{send}
		if g, _ := send.GetTxGroup(); g != nil {
			members = g.GetTxs()
		}
		for j := range vs {
			ok := "1"
			if j < len(members) && address.CheckAddress(members[j].To, 1) != nil {
				ok = "0"
			}
			in := "none"
			if j < len(members) {
				if t := proxyInner(w.cfg, members[j]); t != nil {
					in = txv(t)
				}
			}
			vs[j] += ";" + ok + ";" + in
		}
		out.Op(fmt.Sprintf("pool %d %s %s", reach, base, strings.Join(vs, "|")), got)
		if truth && got == "accepted" {
			out.Pred("C31|mempool.checkTx|"+strings.SplitN(where, "/", 2)[0]+"|blacklisted-tx-accepted", fmt.Sprintf("%s set=%q", where, w.setTxt))
		}
		if strings.HasPrefix(where, "proxied-inner:") && got == "accepted" {
			out.Pred("C31|mempool.checkTx|proxied|inner-recipient-not-checked-at-pool-entry", fmt.Sprintf("%s set=%q", where, w.setTxt))
		}
		out.Stat("pool_"+[]string{"single", "group", "proxied"}[kind]+"_"+got, 1)
		if got == "other" {
			out.Stat("pool_other:"+strings.SplitN(gmsg, ":", 2)[0], 1)
		}
		// keep the pools small
		if got == "accepted" {
			_ = poolA.GetAPI().RemoveTxsByHashList(&types.TxHashList{Hashes: [][]byte{send.Hash()}})
		}
		if base == "accepted" && kind != 2 {
			_ = poolB.GetAPI().RemoveTxsByHashList(&types.TxHashList{Hashes: [][]byte{send.Hash()}})
		}
		if kind == 2 { // delayed proxy-exec transaction: eventAddDelayTx looks at the submitted transaction only (declared)
			rep, err := e.mockC.GetAPI().SendDelayTx(&types.DelayTx{Tx: send, EndDelayTime: time.Now().Unix() + 1000000}, true)
			res := "cached"
			if err != nil || rep == nil || !rep.IsOk {
				res = "blocked"
				if err == nil || !strings.Contains(err.Error(), "ErrBlockedAccount") {
					res = "other"
				}
			}
			if res != "other" {
				out.Op("delay "+strings.SplitN(vs[0], ";", 2)[0], res)
			}
			out.Stat("delay_proxied_"+res, 1)
		}
		// delayed submission of the same (single) transaction
		if kind == 0 {
			rep, err := e.mock.GetAPI().SendDelayTx(&types.DelayTx{Tx: send, EndDelayTime: time.Now().Unix() + 1000000}, true)
			res := "cached"
			if err != nil || rep == nil || !rep.IsOk {
				res = "other"
				m := ""
				if err != nil {
					m = err.Error()
				} else if rep != nil {
					m = string(rep.Msg)
				}
				if strings.Contains(m, "ErrBlockedAccount") {
					res = "blocked"
				} else {
					out.Stat("delay_other:"+m, 1)
				}
			}
			if res != "other" {
				out.Op("delay "+strings.SplitN(vs[0], ";", 2)[0], res)
			}
			if truth && res == "cached" {
				out.Pred("C31|eventAddDelayTx|blacklisted-tx-cached", where)
			}
			out.Stat("delay_"+res, 1)
		}
	}
}

func (e *nodeEnv) embeddedDelay() {
	// block-embedded delayed transactions (none/CommitDelayTx): after the delay the pool must hold the control
	// transaction and none of the blacklisted ones
	w := e.w
	w.configure(false)
	mk := func(to string) *types.Transaction {
		tx := &types.Transaction{Execer: []byte("coins"), Payload: coinsPayload(1000, to), To: to, Fee: 1000000, Nonce: int64(w.r.U64() >> 1), ChainID: w.cfg.GetChainID()}
		tx.Sign(types.SECP256K1, util.TestPrivkeyList[1])
		return tx
	}
	control := mk(spell(w.r, w.others[2], 0))
	var blocked []*types.Transaction
	for _, f := range []int{0, 1, 3, 6} {
		blocked = append(blocked, mk(spell(w.r, w.victims[2], f)))
	}
	var carriers []*types.Transaction
	for _, d := range append([]*types.Transaction{control}, blocked...) {
		act := &nty.NoneAction{Ty: nty.TyCommitDelayTxAction, Value: &nty.NoneAction_CommitDelayTx{CommitDelayTx: &nty.CommitDelayTx{
			DelayTx: hex.EncodeToString(types.Encode(d)), RelativeDelayTime: 1}}}
		c := &types.Transaction{Execer: []byte("none"), Payload: types.Encode(act), To: address.ExecAddress("none"), Fee: 1000000, Nonce: int64(w.r.U64() >> 1), ChainID: w.cfg.GetChainID()}
		c.Sign(types.SECP256K1, util.TestPrivkeyList[1])
		carriers = append(carriers, c)
	}
	deliver := func(txs []*types.Transaction) bool {
		parent := e.mock.GetLastBlock()
		b := util.CreateNewBlock(w.cfg, parent, txs)
		b.BlockTime = parent.BlockTime + 5
		d, _, err := util.PreExecBlock(e.mock.GetClient(), parent.StateHash, b, false, true, false)
		if err != nil {
			out.Stat("embedded_delay_mint_failed", 1)
			return false
		}
		_ = util.ExecKVSetRollback(e.mock.GetClient(), d.Block.StateHash)
		_, _, _, err = e.mock.GetBlockChain().ProcessBlock(false, &types.BlockDetail{Block: d.Block}, "peer1", true, 0)
		return err == nil
	}
	var ok bool
	e.withEmpty(func() { ok = deliver(carriers) }) // the carrier block itself is produced while the list is empty
	if !ok {
		out.Stat("embedded_delay_skipped", 1)
		return
	}
	filler := func() []*types.Transaction {
		t := &types.Transaction{Execer: []byte("none"), Payload: []byte("x"), To: address.ExecAddress("none"), Fee: 1000000, Nonce: int64(w.r.U64() >> 1), ChainID: w.cfg.GetChainID()}
		t.Sign(types.SECP256K1, util.TestPrivkeyList[1])
		return []*types.Transaction{t}
	}
	inPool := func(h []byte) bool {
		l, err := e.mock.GetAPI().GetMempool(&types.ReqGetMempool{})
		if err != nil {
			return false
		}
		for _, t := range l.Txs {
			if string(t.Hash()) == string(h) {
				return true
			}
		}
		return false
	}
	seen := false
	for i := 0; i < 6 && !seen; i++ {
		deliver(filler())
		for j := 0; j < 100 && !seen; j++ {
			seen = inPool(control.Hash())
			if !seen {
				time.Sleep(50 * time.Millisecond)
			}
		}
	}
	if !seen {
		out.Stat("embedded_delay_control_never_arrived", 1)
		return
	}
	time.Sleep(300 * time.Millisecond)
	for i, b := range blocked {
		res := "absent"
		if inPool(b.Hash()) {
			res = "in-pool"
			out.Pred("C31|addDelayTx|blacklisted-delayed-tx-reached-pool", fmt.Sprintf("spelling %d set=%q", i, w.setTxt))
		}
		out.Stat("embedded_delay_blocked_"+res, 1)
	}
	out.Stat("embedded_delay_control_arrived", 1)
}

func nodeMode(r *gen.Rand) {
	cfg := testnode.GetDefaultConfig()
	m := cfg.GetModuleConfig()
	m.Consensus.Minerstart = false
	if m.Address.EnableHeight == nil {
		m.Address.EnableHeight = map[string]int64{}
	}
	m.Address.EnableHeight["eth"] = 0
	cfg.SetFork(types.ForkAccountBlacklist, forkHeight)
	if d := os.Getenv("VERIF_TMP"); d != "" {
		os.Setenv("TMPDIR", d)
	}
	types.AllowUserExec = append(types.AllowUserExec, []byte("evm"))
	mock := testnode.NewWithConfig(cfg, nil)
	defer mock.Close()
	mockB := testnode.NewWithConfig(cfg, nil)
	defer mockB.Close()
	cfgC := testnode.GetDefaultConfig()
	cfgC.GetModuleConfig().Consensus.Minerstart = false
	cfgC.GetModuleConfig().Address.EnableHeight = map[string]int64{"eth": 0}
	cfgC.GetModuleConfig().Mempool.DisableExecCheck = true
	cfgC.SetFork(types.ForkAccountBlacklist, forkHeight)
	mockC := testnode.NewWithConfig(cfgC, nil)
	defer mockC.Close()
	w := newWorld(r, cfg)
	e := &nodeEnv{w: w, mock: mock, mockB: mockB, mockC: mockC}
	e.bc = consensus.NewBaseClient(m.Consensus)
	e.bc.InitClient(mock.GetClient(), func() {})
	// block 1 funds the senders (normal, victim, the two eth senders)
	gen1 := util.TestPrivkeyList[1]
	var txs []*types.Transaction
	fund := func(to string) {
		tx := &types.Transaction{Execer: []byte("coins"), Payload: coinsPayload(100000000000, to), To: to, Fee: 1000000, Nonce: int64(r.U64() >> 1), ChainID: cfg.GetChainID()}
		tx.Sign(types.SECP256K1, gen1)
		txs = append(txs, tx)
	}
	fund(address.PubKeyToAddr(address.DefaultID, w.kn.PubKey().Bytes()))
	fund(address.PubKeyToAddr(address.DefaultID, w.kb.PubKey().Bytes()))
	fund(address.PubKeyToAddr(1, w.kb.PubKey().Bytes()))
	for _, skh := range []string{w.ethSK, w.ethSKn} {
		sk, _ := ethcrypto.ToECDSA(ecommon.FromHex(skh))
		fund(strings.ToLower(ethcrypto.PubkeyToAddress(sk.PublicKey).Hex()))
	}
	for _, nd := range []*testnode.Chain33Mock{mock, mockB} {
		parent := nd.GetLastBlock()
		b := util.CreateNewBlock(cfg, parent, txs)
		if os.Getenv("VERIF_DEBUG") != "" {
			rs, _ := util.ExecTx(nd.GetClient(), parent.StateHash, b)
			for _, r := range rs.Receipts {
				fmt.Fprintf(os.Stderr, "funding receipt %d %s\n", r.Ty, string(r.Logs[0].Log))
			}
		}
		d, _, err := util.PreExecBlock(nd.GetClient(), parent.StateHash, b, false, true, false)
		if err != nil {
			panic(err)
		}
		_ = util.ExecKVSetRollback(nd.GetClient(), d.Block.StateHash)
		if _, _, _, err := nd.GetBlockChain().ProcessBlock(false, &types.BlockDetail{Block: d.Block}, "peer1", true, 0); err != nil {
			panic(err)
		}
		for _, rc := range d.Receipts {
			out.Stat("funding_receipt_"+tyName(rc.Ty), 1)
		}
	}
	e.state = mock.GetLastBlock().StateHash
	t0 := time.Now()
	e.execSweep(gen.Scale(140, 3000))
	out.Note(fmt.Sprint("exec sweep ", time.Since(t0)))
	e.embeddedDelay()
	out.Note(fmt.Sprint("embedded delay ", time.Since(t0)))
	e.poolSweep(gen.Scale(100, 2000))
	out.Note(fmt.Sprint("pool sweep ", time.Since(t0)))
	if e.wedged {
		types.SetBlockedAccountsForTest(nil)
		out.Flush()
		os.Exit(0)
	}
	types.SetBlockedAccountsForTest(nil)
}

// paraNode: a para-chain testnode (title user.p.test.): executor receipts and the pool for transactions of this para
// chain and of other chains under different rpc.parachain.forwardExecs settings.
func paraNode(r *gen.Rand) {
	s := strings.Replace(types.GetDefaultCfgstring(), "Title=\"local\"", "Title=\"user.p.test.\"", 1)
	cfg := types.NewChain33Config(s)
	cfg.GetModuleConfig().Consensus.Minerstart = false
	cfg.GetModuleConfig().Address.EnableHeight = map[string]int64{"eth": 0}
	cfg.SetFork(types.ForkAccountBlacklist, forkHeight)
	if d := os.Getenv("VERIF_TMP"); d != "" {
		os.Setenv("TMPDIR", d)
	}
	mock := testnode.NewWithConfig(cfg, nil)
	w := newWorld(r, cfg)
	g := mock.GetLastBlock()
	gk := mock.GetGenesisKey()
	fwdSets := [][]string{nil, {"coins"}, {"all"}, {"none"}, {"paracross"}}
	n := gen.Scale(120, 3000)
	for i := 0; i < n; i++ {
		if i%20 == 0 {
			w.configure(false)
		}
		cfg.GetModuleConfig().RPC.ParaChain.ForwardExecs = fwdSets[r.Intn(len(fwdSets))]
		raw, v := w.victims[2], true
		if r.Chance(2, 5) {
			raw, v = w.others[r.Intn(len(w.others))], false
		}
		form := r.Intn(nForms)
		to := spell(r, raw, form)
		ex := []string{"user.p.test.coins", "user.p.test.coins", "user.p.test.none", "coins", "user.p.other.coins"}[r.Intn(5)]
		tx := &types.Transaction{Execer: []byte(ex), Payload: coinsPayload(int64(1+r.Intn(1000)), to), To: address.ExecAddress(ex), Fee: 1000000, Nonce: int64(r.U64() >> 1), ChainID: cfg.GetChainID()}
		tx.Sign(types.SECP256K1, gk)
		truth := v && strings.HasSuffix(ex, "coins") // the payload recipient is the real recipient (para configuration) of a coins action
		fwd := types.IsForward2MainChainTx(cfg, tx)
		h := []int64{forkHeight - 1, forkHeight, forkHeight + 3}[r.Intn(3)]
		exec := func() string {
			b := &types.Block{Height: h, BlockTime: g.BlockTime + h, Txs: []*types.Transaction{tx}, ParentHash: g.Hash(cfg), MainHeight: h}
			return gen.Guard(func() string {
				rs, err := util.ExecTx(mock.GetClient(), g.StateHash, b)
				if err != nil || len(rs.Receipts) != 1 {
					return "error"
				}
				return tyName(rs.Receipts[0].Ty)
			})
		}
		restore := types.SetBlockedAccountsForTest(nil)
		base := exec()
		restore()
		got := exec()
		if base == "error" || base == "panic" || got == "error" || got == "panic" {
			out.Stat("para_exec_"+base+"_"+got, 1)
			continue
		}
		kind := "s"
		if fwd {
			kind = "f"
		}
		out.Op(fmt.Sprintf("exec %d:%d %s %s %s", h, forkHeight, kind, txv(tx), base), got)
		out.Stat(fmt.Sprintf("para_exec_forwarded_%v_%s", fwd, got), 1)
		if h >= forkHeight && truth && got != "err" {
			sig := "C31|procExecTxList|para-single|blacklisted-tx-executed"
			if fwd {
				sig = "C31|executor.checkTx|para-forwarded-tx|blacklisted-tx-executed"
			}
			if fwd && !strings.HasPrefix(ex, "user.p.test.") {
				// a transaction of another chain: never a single transaction of a para block (blocks are filtered by title; as
				// a group member it goes through checkTxGroup, which has no bypass) - declared, not reported
				out.Stat("para_exec_other_chain_tx_touching_not_err", 1)
			} else {
				out.Pred(sig, fmt.Sprintf("execer=%s forwardExecs=%v recipient=%s height=%d receipt=%s", ex, cfg.GetModuleConfig().RPC.ParaChain.ForwardExecs, to, h, got))
			}
		}
		// the para node's pool (EventTx straight to the mempool; the client API would forward the transaction to the main chain)
		send := func() (string, string) {
			cli := mock.GetClient()
			msg := cli.NewMessage("mempool", types.EventTx, tx)
			if err := cli.Send(msg, true); err != nil {
				return "other", err.Error()
			}
			resp, err := cli.WaitTimeout(msg, 30*time.Second)
			if err != nil {
				return "other", err.Error()
			}
			if rep, ok := resp.GetData().(*types.Reply); ok {
				return poolRes(rep, nil)
			}
			if e, ok := resp.GetData().(error); ok {
				return poolRes(nil, e)
			}
			return "other", "?"
		}
		restore = types.SetBlockedAccountsForTest(nil)
		pbase, pmsg := send()
		if pbase == "accepted" {
			_ = mock.GetAPI().RemoveTxsByHashList(&types.TxHashList{Hashes: [][]byte{tx.Hash()}})
		}
		restore()
		pgot, _ := send()
		if pgot == "accepted" {
			_ = mock.GetAPI().RemoveTxsByHashList(&types.TxHashList{Hashes: [][]byte{tx.Hash()}})
		}
		reach := 1
		if pbase == "other" && early(pmsg) && !strings.Contains(pmsg, "ErrInvalidAddress") {
			reach = 0
		}
		ok := "1"
		if address.CheckAddress(tx.To, 1) != nil {
			ok = "0"
		}
		f := 0
		if fwd {
			f = 1
		}
		out.Op(fmt.Sprintf("poolp %d %d %s %s;%s;none", reach, f, pbase, txv(tx), ok), pgot)
		out.Stat(fmt.Sprintf("para_pool_forwarded_%v_%s", fwd, pgot), 1)
		if truth && pgot == "accepted" {
			if fwd { // declared: meant for the main chain, whose pool applies the rule; para blocks are not built from this pool
				out.Stat("para_pool_forwarded_touching_accepted", 1)
			} else {
				out.Pred("C31|mempool.checkTx|para-single|blacklisted-tx-accepted", fmt.Sprintf("execer=%s recipient=%s", ex, to))
			}
		}
	}
	types.SetBlockedAccountsForTest(nil)
	out.Flush()
	os.Exit(0) // the para executor holds a main-chain grpc client; do not wait for its shutdown
}

func main() {
	defer out.Flush()
	mode := os.Getenv("VERIF_C31_MODE")
	r := gen.New(gen.Seed()*7919 + uint64(len(mode)))
	switch mode {
	case "node":
		nodeMode(r)
	case "paranode":
		paraNode(r)
	case "para":
		s := strings.Replace(types.GetDefaultCfgstring(), "Title=\"local\"", "Title=\"user.p.test.\"", 1)
		cfg := types.NewChain33Config(s)
		cfg.GetModuleConfig().Address.EnableHeight = map[string]int64{"eth": 0}
		address.Init(cfg.GetModuleConfig().Address)
		pluginmgr.InitExec(cfg)
		cfg.SetFork(types.ForkAccountBlacklist, forkHeight)
		out.Stat("is_para", map[bool]int64{true: 1, false: 0}[cfg.IsPara()])
		newWorld(r, cfg).coreSweep(gen.Scale(600, 20000), true)
	default:
		cfg := types.NewChain33Config(types.GetDefaultCfgstring())
		cfg.GetModuleConfig().Address.EnableHeight = map[string]int64{"eth": 0}
		address.Init(cfg.GetModuleConfig().Address)
		pluginmgr.InitExec(cfg)
		cfg.SetFork(types.ForkAccountBlacklist, forkHeight)
		newWorld(r, cfg).coreSweep(gen.Scale(1200, 40000), false)
	}
}
