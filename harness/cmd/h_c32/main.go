// h_c32 drives the real blockchain.Push (task loop, re-registration, restart) with generated fault
// histories: a scripted HTTP subscriber (httptest) that acknowledges, refuses or answers garbage, new
// blocks arriving in bursts, deactivation after three failures, re-registration and node restarts over
// in-memory stores, for the subscription types PushBlock, PushBlockHeader, PushTxReceipt (contract filter:
// ranges without matching data) and PushTxResult.  Store faults between acknowledgement and record are
// injected through the supplied stores: a failing Set of the last-pushed key, and a crash (the task is
// frozen inside that Set for good and a new Push is built over the same stores).
// Every externally visible event (post a..b acknowledged or not, the persisted last-pushed sequence,
// deactivation, task start; for filter subscriptions also ranges scanned without data and stalls, both
// derived from the reads of the sequence store) is logged in the order it happened and validated against
// the Lean specification acceptor (trace validation, timing independent).  The C32 predicate is also
// evaluated directly on the log and on the payloads (model independent).
package main

import (
	"bytes"
	"compress/gzip"
	"fmt"
	"io"
	"net/http"
	"net/http/httptest"
	"sort"
	"strings"
	"sync"
	"time"

	"github.com/33cn/chain33/blockchain"
	dbm "github.com/33cn/chain33/common/db"
	"github.com/33cn/chain33/queue"
	"github.com/33cn/chain33/types"

	"verifharness/internal/gen"
	_ "verifharness/internal/quiet"
)

var out = gen.NewOut()

const (
	tyBlock   = 0
	tyHeader  = 1
	tyReceipt = 2
	tyResult  = 3
	maxSize   = 1 * 1024 * 1024 // pushMaxSize
)

// ------------------------------------------------------------------ event log

type event struct {
	kind string // post | persisted | deactivated | started | skip | stalled
	a, b int64
	ok   bool
}

func (e event) line() string {
	switch e.kind {
	case "post":
		k := 0
		if e.ok {
			k = 1
		}
		return fmt.Sprintf("post %d %d %d", e.a, e.b, k)
	case "persisted":
		return fmt.Sprintf("persisted %d", e.a)
	case "skip":
		return fmt.Sprintf("skip %d %d", e.a, e.b)
	}
	return e.kind
}

// one pass of the task loop over the sequence store (filter subscriptions)
type call struct {
	start   int64
	posted  bool
	acked   bool
	postIdx int
	nums    []int64
}

type scenario struct {
	mu     sync.Mutex
	gate   sync.Mutex // held by the driver while it (re)starts tasks; posts and block reads wait for it
	events []event
	name   string
	rec    []byte
	last   []byte
	store  *memStore
	seqs   *seqStore
	r      *gen.Rand
	okNum  int // probability numerator /10 that a post is acknowledged
	mode   int // how a refusal looks
	notes  []string
	typ    int
	filter bool // contract filter: a range may hold no matching data
	lossy  bool // store failures / crashes between acknowledgement and record are injected
	seed   uint64
	dens   int // matching data in seq iff h(seed,seq)%16 < dens
	// explicit block contents of scripted scenarios: payload bytes of the matching tx (0: no matching tx)
	script map[int64]int

	closeBlocked      bool
	innerGap          bool
	preds             [][2]string
	cur               *call
	marker            bool
	stalls            int
	recorded          int64 // last record written
	oversizeDelivered bool
	redelivered       int
	lostRecords       int
	crashes           int
}

func (s *scenario) log(e event) {
	s.mu.Lock()
	s.logLocked(e)
	s.mu.Unlock()
}

func (s *scenario) logLocked(e event) {
	s.events = append(s.events, e)
	if e.kind == "started" {
		s.cur = nil
		s.marker = true // the first block read of the new task starts its first pass
	}
}

func (s *scenario) pred(sig, detail string) {
	for _, p := range s.preds {
		if p[0] == sig {
			return
		}
	}
	s.preds = append(s.preds, [2]string{sig, detail})
}

func mix(seed uint64, seq int64) uint64 {
	x := seed ^ (uint64(seq) * 0x9E3779B97F4A7C15)
	x ^= x >> 31
	x *= 0xBF58476D1CE4E5B9
	x ^= x >> 29
	return x
}

// payload length of the matching transaction in the block at seq (0: the block holds no matching tx)
func (s *scenario) dataLen(seq int64) int {
	if s.script != nil {
		return s.script[seq]
	}
	if int(mix(s.seed, seq)%16) >= s.dens {
		return 0
	}
	if s.seqs.bigMod > 0 && seq%s.seqs.bigMod < 4 {
		return 300 * 1024 // a run of large receipts: the 1 MB payload cap cuts the batch
	}
	if s.seqs.bigMod > 0 && seq%s.seqs.bigMod == 5 && s.seed%2 == 0 {
		return maxSize + 5000 // a single block above the cap: must be posted alone
	}
	return 10 + int(mix(s.seed, seq)>>8)%50
}

// ------------------------------------------------------------------ stores

type memStore struct {
	mu sync.Mutex
	m  map[string][]byte
	sc *scenario
	// faults on writes of the last-pushed key (armed after the first registration)
	failNum    int  // probability numerator /10 that such a write fails
	failOnce   bool // the next such write fails
	crashArmed bool // the next such write never returns (node crash between ack and record)
	crashed    chan struct{}
}

var errStore = fmt.Errorf("store: write failed")

func (m *memStore) SetSync(key, value []byte) error { return m.Set(key, value) }
func (m *memStore) Set(key, value []byte) error {
	if bytes.Equal(key, m.sc.last) {
		m.mu.Lock()
		if m.crashArmed {
			m.crashArmed = false
			m.mu.Unlock()
			m.sc.mu.Lock()
			m.sc.crashes++
			m.sc.mu.Unlock()
			m.crashed <- struct{}{}
			select {} // this "process" is dead
		}
		fail := m.failOnce
		m.failOnce = false
		if !fail && m.failNum > 0 {
			m.sc.mu.Lock()
			fail = m.sc.r.Intn(10) < m.failNum
			m.sc.mu.Unlock()
		}
		m.mu.Unlock()
		if fail {
			m.sc.mu.Lock()
			m.sc.lostRecords++
			m.sc.mu.Unlock()
			return errStore
		}
	}
	m.mu.Lock()
	m.m[string(key)] = append([]byte{}, value...)
	m.mu.Unlock()
	if bytes.Equal(key, m.sc.last) {
		var v types.Int64
		if err := types.Decode(value, &v); err == nil {
			m.sc.persisted(v.Data)
		}
	}
	if bytes.Equal(key, m.sc.rec) {
		var ps types.PushWithStatus
		if err := types.Decode(value, &ps); err == nil && ps.Status == 2 {
			m.sc.log(event{kind: "deactivated"})
		}
	}
	return nil
}

// the record v was written
func (s *scenario) persisted(v int64) {
	s.mu.Lock()
	defer s.mu.Unlock()
	if s.filter && s.cur != nil && s.cur.posted && s.cur.acked {
		// the end of the range a filter post covers is visible only here: it must lie between the last
		// matching sequence of the payload and the last sequence read, and hold every matching sequence
		c := s.cur
		e := &s.events[c.postIdx]
		if v >= e.b && c.postIdx == len(s.events)-1 {
			s.checkCovered(c, v)
			e.b = v
		}
	}
	s.logLocked(event{kind: "persisted", a: v})
	s.recorded = v
}

// every sequence with matching data in start..upto is in the acknowledged payload
func (s *scenario) checkCovered(c *call, upto int64) {
	have := map[int64]bool{}
	for _, n := range c.nums {
		have[n] = true
	}
	for d := c.start; d <= upto; d++ {
		if s.dataLen(d) > 0 && !have[d] {
			sig := "C32|getPushData|matching-block-dropped"
			total := perBlkSize(s, d)
			for _, n := range c.nums {
				if n < d {
					total += perBlkSize(s, n)
				}
			}
			if s.typ == tyReceipt && total == maxSize {
				// the batch with this block is exactly pushMaxSize: neither "< maxSize" nor "> maxSize"
				sig = "C32|getTxReceipts|block-dropped-when-batch-size-equals-limit"
			}
			s.pred(sig,
				fmt.Sprintf("%s: sequence %d holds matching data (%d payload bytes) but the acknowledged payload for %d..%d lists %v; log=%s",
					s.name, d, s.dataLen(d), c.start, upto, c.nums, s.dumpLocked()))
		}
	}
}

func (m *memStore) GetKey(key []byte) ([]byte, error) {
	m.mu.Lock()
	defer m.mu.Unlock()
	v, ok := m.m[string(key)]
	if !ok {
		return nil, dbm.ErrNotFoundInDb
	}
	return v, nil
}
func (m *memStore) PrefixCount(prefix []byte) int64 {
	l, _ := m.List(prefix)
	return int64(len(l))
}
func (m *memStore) List(prefix []byte) ([][]byte, error) {
	m.mu.Lock()
	defer m.mu.Unlock()
	var ks []string
	for k := range m.m {
		if strings.HasPrefix(k, string(prefix)) {
			ks = append(ks, k)
		}
	}
	sort.Strings(ks)
	var l [][]byte
	for _, k := range ks {
		l = append(l, m.m[k])
	}
	if len(l) == 0 {
		return nil, dbm.ErrNotFoundInDb
	}
	return l, nil
}

type seqStore struct {
	mu     sync.Mutex
	latest int64
	bigMod int64 // a run of large blocks / receipts every bigMod sequences (0: none)
	sc     *scenario
	cache  map[int64]*types.BlockDetail
}

func hashOf(seq int64) []byte { return []byte(fmt.Sprintf("hash-%020d-padpadpadpad", seq))[:32] }

func (s *seqStore) LoadBlockLastSequence() (int64, error) {
	s.mu.Lock()
	l := s.latest
	s.mu.Unlock()
	if s.sc.filter {
		s.sc.mu.Lock()
		s.sc.marker = true // the next block read starts a new pass of the task loop
		s.sc.mu.Unlock()
	}
	return l, nil
}
func (s *seqStore) GetBlockSequence(seq int64) (*types.BlockSequence, error) {
	s.mu.Lock()
	defer s.mu.Unlock()
	if seq < 0 || seq > s.latest {
		return nil, types.ErrHeightNotExist
	}
	return &types.BlockSequence{Hash: hashOf(seq), Type: 1}, nil
}
func (s *seqStore) GetBlockHeaderByHash(hash []byte) (*types.Header, error) {
	var seq int64
	fmt.Sscanf(string(hash), "hash-%d", &seq)
	return &types.Header{Height: seq, Hash: hash, BlockTime: 1600000000 + seq}, nil
}

var bigPayload = bytes.Repeat([]byte{0x5a}, 2*1024*1024)

func (s *seqStore) detail(seq int64) *types.BlockDetail {
	s.mu.Lock()
	defer s.mu.Unlock()
	if d, ok := s.cache[seq]; ok {
		return d
	}
	b := &types.BlockDetail{Block: &types.Block{Height: seq, BlockTime: 1600000000 + seq, ParentHash: hashOf(seq - 1)}}
	if s.sc.typ == tyReceipt || s.sc.typ == tyResult {
		add := func(execer string, payload []byte) {
			b.Block.Txs = append(b.Block.Txs, &types.Transaction{Execer: []byte(execer), Payload: payload, Nonce: seq, To: "1KSBd17H7ZK8iT37aJztFB22XGwsPTdwE4"})
			b.Receipts = append(b.Receipts, &types.ReceiptData{Ty: types.ExecOk})
		}
		if mix(s.sc.seed^7, seq)%3 == 0 {
			add("token", []byte("other"))
		}
		if n := s.sc.dataLen(seq); n > 0 {
			add("coins", bigPayload[:n])
			if mix(s.sc.seed^9, seq)%4 == 0 {
				add("coins", []byte("second"))
			}
		}
		if mix(s.sc.seed^8, seq)%3 == 0 {
			add("ticket", []byte("more"))
		}
	}
	if s.cache == nil {
		s.cache = map[int64]*types.BlockDetail{}
	}
	s.cache[seq] = b
	return b
}

func (s *seqStore) LoadBlockBySequence(seq int64) (*types.BlockDetail, int, error) {
	if _, err := s.GetBlockSequence(seq); err != nil {
		return nil, 0, err
	}
	if s.sc.filter {
		s.sc.gate.Lock() // a new task reads only after its start was logged
		s.sc.gate.Unlock()
		s.sc.read(seq)
	}
	b := s.detail(seq)
	size := b.Size()
	if s.sc.typ == tyBlock && s.bigMod > 0 && seq%s.bigMod < 5 {
		size = 400 * 1024 // a run of large blocks: the 1 MB payload cap cuts the batch
	}
	return b, size, nil
}

// the task loop reads block seq (filter subscriptions): the first read after LoadBlockLastSequence starts a
// new pass; what the previous pass did without posting becomes visible here.
func (s *scenario) read(seq int64) {
	s.mu.Lock()
	defer s.mu.Unlock()
	if !s.marker {
		return
	}
	s.marker = false
	prev := s.cur
	if prev != nil {
		switch {
		case !prev.posted && seq > prev.start:
			for d := prev.start; d < seq; d++ {
				if s.dataLen(d) > 0 {
					s.pred("C32|getPushData|matching-block-skipped-without-post",
						fmt.Sprintf("%s: the task went over %d..%d without posting but sequence %d holds matching data (%d payload bytes); log=%s",
							s.name, prev.start, seq-1, d, s.dataLen(d), s.dumpLocked()))
				}
			}
			s.logLocked(event{kind: "skip", a: prev.start, b: seq - 1})
		case !prev.posted && seq == prev.start:
			s.stalls++
			if s.stalls <= 3 {
				s.logLocked(event{kind: "stalled"})
			}
		case prev.posted && prev.acked && seq > prev.start:
			// the record was not written (store failure): the in-memory cursor shows the end of the range
			e := &s.events[prev.postIdx]
			if seq-1 > e.b {
				s.checkCovered(prev, seq-1)
				e.b = seq - 1
			} else if seq-1 < e.b {
				s.pred("C32|runTask|cursor-behind-record", fmt.Sprintf("%s: next pass starts at %d after %s", s.name, seq, e.line()))
			}
		}
	}
	s.cur = &call{start: seq}
}

func (s *seqStore) LastHeader() *types.Header {
	s.mu.Lock()
	defer s.mu.Unlock()
	return &types.Header{Height: s.latest}
}
func (s *seqStore) GetSequenceByHash(hash []byte) (int64, error) {
	var seq int64
	fmt.Sscanf(string(hash), "hash-%d", &seq)
	return seq, nil
}

// ------------------------------------------------------------------ subscriber endpoint

func (s *scenario) handler(w http.ResponseWriter, req *http.Request) {
	s.gate.Lock() // wait until the driver finished logging a (re)start
	s.gate.Unlock()
	body, _ := io.ReadAll(req.Body)
	zr, err := gzip.NewReader(bytes.NewReader(body))
	var a, b int64 = -1, -1
	var nums []int64
	if err == nil {
		raw, _ := io.ReadAll(zr)
		switch s.typ {
		case tyBlock:
			var bs types.BlockSeqs
			if types.Decode(raw, &bs) == nil {
				for _, x := range bs.Seqs {
					nums = append(nums, x.Num)
				}
			}
		case tyHeader:
			var hs types.HeaderSeqs
			if types.Decode(raw, &hs) == nil {
				for _, x := range hs.Seqs {
					nums = append(nums, x.Num)
				}
			}
		case tyResult:
			var rs types.TxResultSeqs
			if types.Decode(raw, &rs) == nil {
				for _, x := range rs.Items {
					nums = append(nums, x.SeqNum)
					if d := s.seqs.detail(x.SeqNum); len(x.Items) != len(d.Block.Txs) {
						s.mu.Lock()
						s.pred("C32|getTxResults|wrong-content", fmt.Sprintf("%s: seq %d lists %d results for %d txs", s.name, x.SeqNum, len(x.Items), len(d.Block.Txs)))
						s.mu.Unlock()
					}
				}
			}
		case tyReceipt:
			var rs types.TxReceipts4Subscribe
			if types.Decode(raw, &rs) == nil {
				for _, x := range rs.TxReceipts {
					nums = append(nums, x.SeqNum)
					want := 0
					for _, tx := range s.seqs.detail(x.SeqNum).Block.Txs {
						if string(tx.Execer) == "coins" {
							want++
						}
					}
					bad := len(x.Tx) != want || len(x.ReceiptData) != want || want == 0
					for _, tx := range x.Tx {
						bad = bad || string(tx.Execer) != "coins"
					}
					if bad {
						s.mu.Lock()
						s.pred("C32|getTxReceipts|wrong-content", fmt.Sprintf("%s: seq %d carries %d txs / %d receipts, %d matching in the block", s.name, x.SeqNum, len(x.Tx), len(x.ReceiptData), want))
						s.mu.Unlock()
					}
				}
			}
		}
		if len(nums) > 0 {
			a, b = nums[0], nums[len(nums)-1]
		}
	}
	s.mu.Lock()
	if !s.filter {
		for i, x := range nums {
			if x != a+int64(i) {
				// the payload itself skips a sequence: report the range actually covered as broken
				s.innerGap = true
			}
		}
	} else {
		for i := 1; i < len(nums); i++ {
			if nums[i] <= nums[i-1] {
				s.pred("C32|getPushData|payload-not-increasing", fmt.Sprintf("%s: payload lists %v", s.name, nums))
			}
		}
		if s.cur != nil {
			// a filter post covers the range from the start of this pass; matching sequences between the
			// start and the last one listed must all be listed
			if a >= 1 && a < s.cur.start {
				s.pred("C32|getPushData|payload-before-range", fmt.Sprintf("%s: payload lists %v, pass started at %d", s.name, nums, s.cur.start))
			}
			if a >= 1 {
				a = s.cur.start
			}
		}
	}
	ok := s.r.Intn(10) < s.okNum
	mode := s.mode
	if !ok && mode == 3 {
		mode = s.r.Intn(3)
	}
	s.events = append(s.events, event{kind: "post", a: a, b: b, ok: ok})
	if s.filter && s.cur != nil {
		s.cur.posted, s.cur.acked, s.cur.postIdx, s.cur.nums = true, ok, len(s.events)-1, nums
		if !ok {
			// (a refused payload is checked like an acknowledged one, up to its last listed sequence)
			s.checkCovered(s.cur, b)
		}
	}
	s.mu.Unlock()
	if ok {
		if s.r.Bool() {
			w.Write([]byte("ok"))
		} else {
			w.Write([]byte("OK"))
		}
		return
	}
	switch mode {
	case 0:
		w.Write([]byte("not ok"))
	case 1:
		w.WriteHeader(500)
		w.Write([]byte("error"))
	default:
		// drop the connection without an answer
		if hj, ok := w.(http.Hijacker); ok {
			if c, _, err := hj.Hijack(); err == nil {
				c.Close()
				return
			}
		}
		w.Write([]byte("x"))
	}
}

// closePush calls Push.Close with a deadline; a Close that never returns is a predicate failure
// (a task goroutine that nobody can stop any more).
func (s *scenario) closePush(p *blockchain.Push) bool {
	done := make(chan struct{})
	go func() { p.Close(); close(done) }()
	select {
	case <-done:
		return true
	case <-time.After(20 * time.Second):
		s.mu.Lock()
		s.closeBlocked = true
		s.mu.Unlock()
		return false
	}
}

// ------------------------------------------------------------------ one fault history

var cfg *types.Chain33Config

type world struct {
	s         *scenario
	srv       *httptest.Server
	q         queue.Queue
	push      *blockchain.Push
	sub       *types.PushSubscribeReq
	failSleep int32
}

func newWorld(s *scenario, latest int64, resume int64, failSleep int32) *world {
	s.rec, s.last = blockchain.VerifPushKeys(s.name)
	s.store = &memStore{m: map[string][]byte{}, sc: s, crashed: make(chan struct{}, 1)}
	if s.seqs == nil {
		s.seqs = &seqStore{}
	}
	s.seqs.sc, s.seqs.latest = s, latest
	s.filter = s.typ == tyReceipt
	w := &world{s: s, failSleep: failSleep}
	w.srv = httptest.NewServer(http.HandlerFunc(s.handler))
	w.q = queue.New("verif-push")
	w.q.SetConfig(cfg)
	w.push = blockchain.VerifNewPush(s.store, s.seqs, w.q.Client(), failSleep)
	w.sub = &types.PushSubscribeReq{Name: s.name, URL: w.srv.URL, Encode: "proto", Type: int32(s.typ)}
	if s.typ == tyReceipt {
		w.sub.Contract = map[string]bool{"coins": true}
	}
	if resume > 0 {
		w.sub.LastSequence = resume
		w.sub.LastHeight = resume
		w.sub.LastBlockHash = fmt.Sprintf("%x", hashOf(resume))
	}
	return w
}

func (w *world) close() {
	w.srv.Close()
	w.q.Close()
}

func (w *world) start() {
	s := w.s
	s.gate.Lock()
	exists, _ := w.push.VerifTaskRunning(s.name)
	err := w.push.VerifAddSubscriber(w.sub)
	if err != nil {
		s.notes = append(s.notes, "addSubscriber: "+err.Error())
	} else if !exists {
		s.log(event{kind: "started"})
	}
	s.gate.Unlock()
}

func (w *world) blocks(n int64) {
	s := w.s
	s.seqs.mu.Lock()
	s.seqs.latest += n
	l := s.seqs.latest
	s.seqs.mu.Unlock()
	w.push.UpdateSeq(l)
}

// a new Push over the same stores (Push.init starts a task for a subscription persisted as active)
func (w *world) reboot() {
	s := w.s
	s.gate.Lock()
	active := false
	if v, err := s.store.GetKey(s.rec); err == nil {
		var ps types.PushWithStatus
		if types.Decode(v, &ps) == nil && ps.Status == 1 {
			active = true
		}
	}
	w.push = blockchain.VerifNewPush(s.store, s.seqs, w.q.Client(), w.failSleep)
	if active {
		s.log(event{kind: "started"})
	}
	s.gate.Unlock()
}

func (w *world) restart() bool {
	if !w.s.closePush(w.push) {
		return false
	}
	w.reboot()
	return true
}

// crash: the next write of the last-pushed key never returns; when that happened within the wait the old
// Push is abandoned (its task is frozen between acknowledgement and record) and the node is started again.
func (w *world) crash(wait time.Duration, trigger func()) bool {
	st := w.s.store
	st.mu.Lock()
	st.crashArmed = true
	st.mu.Unlock()
	if trigger != nil {
		trigger()
	}
	fired := false
	select {
	case <-st.crashed:
		fired = true
	case <-time.After(wait):
		st.mu.Lock()
		if st.crashArmed {
			st.crashArmed = false
			st.mu.Unlock()
		} else {
			st.mu.Unlock()
			<-st.crashed
			fired = true
		}
	}
	if fired {
		w.reboot()
	}
	return fired
}

func runScenario(seed uint64, idx int) *scenario {
	r := gen.New(seed)
	s := &scenario{name: fmt.Sprintf("sub-%d", idx), r: gen.New(seed ^ 0x5555), okNum: []int{10, 8, 5, 3, 0}[r.Intn(5)], mode: r.Intn(4), seed: seed}
	s.seqs = &seqStore{}
	s.typ = []int{tyBlock, tyHeader, tyReceipt, tyReceipt, tyResult}[r.Intn(5)]
	s.dens = []int{0, 1, 3, 8, 16}[r.Intn(5)]
	if (s.typ == tyBlock || s.typ == tyReceipt) && r.Chance(2, 3) {
		s.seqs.bigMod = int64(7 + r.Intn(10))
	}
	s.lossy = r.Chance(1, 3)
	latest := int64(5 + r.Intn(40))
	resume := int64(0)
	if r.Chance(2, 3) {
		resume = 1 + int64(r.Intn(int(latest)))
	}
	w := newWorld(s, latest, resume, int32(1+r.Intn(2)))
	defer w.close()
	w.start()
	if r.Chance(1, 3) {
		// the subscriber repeats its registration request at once (client retry)
		w.start()
	}
	if s.lossy {
		s.store.mu.Lock()
		s.store.failNum = []int{0, 2, 5}[r.Intn(3)]
		s.store.mu.Unlock()
	}
	steps := 6 + r.Intn(6)
	for k := 0; k < steps; k++ {
		crashW := 0
		if s.lossy {
			crashW = 2
		}
		switch r.Pick(6, 2, 2, 1, crashW) {
		case 0: // new blocks
			n := int64(1 + r.Intn(25))
			if s.typ == tyReceipt && r.Chance(1, 4) {
				n = int64(60 + r.Intn(200))
			}
			w.blocks(n)
		case 1: // the subscriber registers again (possibly after a deactivation)
			w.start()
		case 2: // node restart over the same stores
			if !w.restart() {
				return s
			}
		case 3: // the subscriber changes its mind about answering
			s.mu.Lock()
			s.okNum = []int{10, 8, 5, 3, 0}[r.Intn(5)]
			s.mu.Unlock()
		case 4: // node crash between an acknowledgement and its record (if one happens soon)
			n := int64(1 + r.Intn(12))
			w.crash(1200*time.Millisecond, func() { w.blocks(n) })
		}
		time.Sleep(time.Duration(100+r.Intn(1200)) * time.Millisecond)
	}
	time.Sleep(1500 * time.Millisecond)
	s.closePush(w.push)
	return s
}

// ------------------------------------------------------------------ scripted histories (witnesses)

func waitFor(d time.Duration, cond func() bool) bool {
	end := time.Now().Add(d)
	for time.Now().Before(end) {
		if cond() {
			return true
		}
		time.Sleep(10 * time.Millisecond)
	}
	return cond()
}

func (s *scenario) count(kind string) int {
	s.mu.Lock()
	defer s.mu.Unlock()
	n := 0
	for _, e := range s.events {
		if e.kind == kind {
			n++
		}
	}
	return n
}

// size of the per-block receipt message getTxReceipts builds for seq (same fields, same values)
func perBlkSize(s *scenario, seq int64) int {
	d := s.seqs.detail(seq)
	m := &types.TxReceipts4SubscribePerBlk{}
	for i, tx := range d.Block.Txs {
		if string(tx.Execer) == "coins" {
			m.Tx = append(m.Tx, tx)
			m.ReceiptData = append(m.ReceiptData, d.Receipts[i])
		}
	}
	if len(m.Tx) > 0 {
		m.Height = d.Block.Height
		m.BlockHash = d.Block.Hash(cfg)
		m.ParentHash = d.Block.ParentHash
		m.PreviousHash = []byte{}
		m.AddDelType = 1
		m.SeqNum = seq
	}
	return types.Size(m)
}

func scripted(kind string) *scenario {
	s := &scenario{name: "w-" + kind, r: gen.New(1), okNum: 10, seed: 12345, typ: tyReceipt, script: map[int64]int{}}
	s.seqs = &seqStore{}
	switch kind {
	case "empty-restart-data":
		// task 1: ranges without matching data move the cursor in memory only; after a restart the task
		// goes over them again from the record; the next matching block is delivered once
		w := newWorld(s, 5, 5, 1)
		defer w.close()
		w.start()
		w.blocks(12)
		time.Sleep(300 * time.Millisecond)
		w.blocks(2) // (a pass without a post shows when the next pass starts)
		waitFor(3*time.Second, func() bool { return s.count("skip") >= 1 })
		time.Sleep(300 * time.Millisecond)
		w.restart()
		s.script[20] = 40
		w.blocks(1)
		waitFor(3*time.Second, func() bool { return s.count("persisted") >= 2 })
		w.blocks(3)
		time.Sleep(300 * time.Millisecond)
		w.blocks(1)
		waitFor(3*time.Second, func() bool { return s.count("skip") >= 2 })
		s.closePush(w.push)
	case "exact-fit":
		// regression witness (fixed in /repo 87f57a6): a matching block whose message makes the batch exactly
		// pushMaxSize was neither appended nor did it end the batch ("< maxSize" / "> maxSize") and was
		// counted as delivered; now it ends the batch and opens the next one
		w := newWorld(s, 5, 5, 1)
		defer w.close()
		s.script[6] = 40
		s.script[8] = 40
		s.seqs.sc, s.filter = s, true
		found := false
		for pad := 0; pad < 8 && !found; pad++ {
			s.script[6] = 40 + pad
			s.seqs.cache = nil
			target := maxSize - perBlkSize(s, 6)
			lo, hi := 1, len(bigPayload)
			for lo <= hi {
				mid := (lo + hi) / 2
				s.script[7] = mid
				s.seqs.mu.Lock()
				delete(s.seqs.cache, 7)
				s.seqs.mu.Unlock()
				sz := perBlkSize(s, 7)
				if sz == target {
					found = true
					break
				} else if sz < target {
					lo = mid + 1
				} else {
					hi = mid - 1
				}
			}
		}
		if !found {
			s.notes = append(s.notes, "exact-fit: no payload length gives the exact size")
			return s
		}
		w.start()
		w.blocks(3)
		waitFor(10*time.Second, func() bool { s.mu.Lock(); defer s.mu.Unlock(); return s.recorded >= 8 })
		s.closePush(w.push)
	case "oversize":
		// regression witness (fixed in /repo 87f57a6): a matching block larger than pushMaxSize at the start
		// of a range made getTxReceipts answer (nil, startSeq-1) and the loop spin without posting; now the
		// block is posted alone and the next one follows
		w := newWorld(s, 5, 5, 1)
		defer w.close()
		s.script[6] = maxSize + 1000
		s.script[7] = 40
		w.start()
		w.blocks(2)
		done := waitFor(10*time.Second, func() bool { s.mu.Lock(); defer s.mu.Unlock(); return s.recorded >= 7 || s.stalls >= 200 })
		s.closePush(w.push)
		s.mu.Lock()
		if s.recorded >= 7 {
			s.oversizeDelivered = true
		} else if !done {
			s.notes = append(s.notes, "oversize: blocks 6,7 not recorded within 10 s (no stall seen); log="+s.dumpLocked())
		}
		s.mu.Unlock()
	case "store-fail", "crash":
		// task 2: the acknowledgement of 6..9 is not recorded (write error ignored / crash before the
		// write); after the restart 6..9 is delivered again.  Same history as the Lean witness.
		s.typ, s.lossy = tyHeader, true
		w := newWorld(s, 5, 5, 1)
		defer w.close()
		w.start()
		if kind == "store-fail" {
			s.store.mu.Lock()
			s.store.failOnce = true
			s.store.mu.Unlock()
			w.blocks(4)
			waitFor(3*time.Second, func() bool { return s.count("post") >= 1 })
			time.Sleep(200 * time.Millisecond)
			w.restart()
		} else {
			w.crash(3*time.Second, func() { w.blocks(4) })
		}
		waitFor(3*time.Second, func() bool { return s.count("persisted") >= 2 })
		s.closePush(w.push)
	}
	return s
}

// ------------------------------------------------------------------ the property evaluated directly on the log

func predicate(s *scenario) {
	if s.innerGap {
		out.Pred("C32|getPushData|payload-skips-a-sequence", fmt.Sprintf("%s: a posted payload does not hold consecutive sequences; log=%s", s.name, s.dump()))
	}
	if s.closeBlocked {
		out.Pred("C32|Push.Close|blocked", fmt.Sprintf("%s: Push.Close did not return within 20s; log=%s", s.name, s.dump()))
	}
	for _, p := range s.preds {
		out.Pred(p[0], p[1])
	}
	if s.stalls >= 3 {
		// liveness: the task went over the same start again and again without posting or moving on
		out.Pred("C32|getTxReceipts|oversize-block-stalls-subscriber",
			fmt.Sprintf("%s: the task read the same first block %d times in a row without posting or moving on; log=%s", s.name, s.stalls, s.dump()))
	}
	var lastAck int64 = -1 // end of the last acknowledged range
	var maxAck int64 = -1  // largest sequence ever acknowledged
	var resume int64 = -1  // value of the last persisted record
	var cursor int64 = -1  // where the running task stands: end of the last acknowledged / skipped range
	pendingAck := int64(-1)
	fails := 0
	for i, e := range s.events {
		switch e.kind {
		case "post", "skip":
			if e.a < 1 || e.b < e.a {
				out.Pred("C32|PostData|malformed-range", fmt.Sprintf("%s event %d: %s", s.name, i, e.line()))
			}
			if cursor >= 1 && e.a != cursor+1 {
				kind := "gap"
				if e.a <= cursor {
					kind = "repeat"
				}
				out.Pred("C32|runTask|post-not-contiguous-"+kind, fmt.Sprintf("%s event %d: %s but the task stood at %d (last recorded %d); log=%s", s.name, i, e.line(), cursor, resume, s.dump()))
			}
			if e.kind == "post" && e.a <= maxAck {
				// an acknowledged sequence is delivered again
				if s.lossy {
					s.redelivered++ // its record was lost (injected store failure / crash): at-least-once
				} else {
					out.Pred("C32|runTask|post-not-contiguous-repeat-of-acknowledged", fmt.Sprintf("%s event %d: %s but %d was acknowledged before; log=%s", s.name, i, e.line(), maxAck, s.dump()))
				}
			}
			pendingAck = -1
			if e.kind == "skip" {
				cursor = e.b
				fails = 0
			} else if e.ok {
				lastAck = e.b
				if e.b > maxAck {
					maxAck = e.b
				}
				pendingAck = e.b
				cursor = e.b
				fails = 0
			} else {
				fails++
			}
		case "persisted":
			if pendingAck == e.a {
				pendingAck = -1
			} else if lastAck != -1 || resume >= 1 {
				out.Pred("C32|setLastPushSeq|recorded-without-ack", fmt.Sprintf("%s event %d: %s; log=%s", s.name, i, e.line(), s.dump()))
			}
			resume = e.a
		case "deactivated":
			if fails < 3 {
				out.Pred("C32|runTask|deactivated-early", fmt.Sprintf("%s after %d failures", s.name, fails))
			}
			fails = 0
			pendingAck = -1
		case "started":
			fails = 0
			cursor = resume
			if pendingAck != -1 && !s.lossy {
				out.Pred("C32|setLastPushSeq|ack-not-recorded", fmt.Sprintf("%s event %d: task started while the acknowledgement of %d was not recorded; log=%s", s.name, i, pendingAck, s.dump()))
			}
			pendingAck = -1
		case "stalled":
			fails = 0
			pendingAck = -1
		}
		if e.kind == "post" && fails > 3 {
			out.Pred("C32|runTask|no-deactivation-after-3-failures", fmt.Sprintf("%s: %d consecutive failures; log=%s", s.name, fails, s.dump()))
		}
	}
}

func (s *scenario) dumpLocked() string {
	var l []string
	for _, e := range s.events {
		l = append(l, e.line())
	}
	return strings.Join(l, "; ")
}

func (s *scenario) dump() string {
	s.mu.Lock()
	defer s.mu.Unlock()
	return s.dumpLocked()
}

func report(s *scenario, sample bool) {
	maxSeq := 10
	if s.typ == tyReceipt {
		maxSeq = 100
	}
	strict := 1
	if s.lossy {
		strict = 0
	}
	out.Op(fmt.Sprintf("cfg %d %d", maxSeq, strict), "ok")
	acks, fails := 0, 0
	for _, e := range s.events {
		out.Op(e.line(), "ok")
		switch e.kind {
		case "post":
			if e.ok {
				acks++
			} else {
				fails++
			}
		case "deactivated":
			out.Stat("deactivations", 1)
		case "started":
			out.Stat("task_starts", 1)
		case "skip":
			out.Stat("ranges_without_matching_data", 1)
		case "stalled":
			out.Stat("stalled_passes_logged", 1)
		}
	}
	predicate(s)
	out.Stat("scenarios", 1)
	out.Stat("scenarios_type_"+[]string{"block", "header", "txreceipt", "txresult"}[s.typ], 1)
	if s.seqs.bigMod > 0 {
		out.Stat("scenarios_with_size_cut", 1)
	}
	if s.lossy {
		out.Stat("scenarios_with_store_faults", 1)
	}
	out.Stat("acknowledged_posts", int64(acks))
	out.Stat("failed_posts", int64(fails))
	out.Stat("records_lost_store_error", int64(s.lostRecords))
	out.Stat("crashes_between_ack_and_record", int64(s.crashes))
	out.Stat("redeliveries_after_lost_record", int64(s.redelivered))
	if s.oversizeDelivered {
		out.Stat("oversize_first_block_posted_and_recorded", 1)
	}
	for _, nt := range s.notes {
		out.Note(s.name + ": " + nt)
	}
	if sample {
		out.Sample(s.name + ": " + s.dump())
	}
}

func main() {
	defer out.Flush()
	cfg = types.NewChain33Config(types.GetDefaultCfgstring())
	r := gen.New(gen.Seed())

	// scripted witnesses first (deterministic histories)
	kinds := []string{"empty-restart-data", "exact-fit", "oversize", "store-fail", "crash"}
	wres := make([]*scenario, len(kinds))
	var wg sync.WaitGroup
	for i, k := range kinds {
		wg.Add(1)
		go func(i int, k string) {
			defer wg.Done()
			wres[i] = scripted(k)
		}(i, k)
	}
	wg.Wait()
	for _, s := range wres {
		report(s, true)
	}

	n := gen.Scale(48, 600)
	par := 48
	for base := 0; base < n; base += par {
		var wg sync.WaitGroup
		res := make([]*scenario, par)
		for i := 0; i < par && base+i < n; i++ {
			wg.Add(1)
			seed := r.U64()
			go func(i int) {
				defer wg.Done()
				res[i] = runScenario(seed, base+i)
			}(i)
		}
		wg.Wait()
		for _, s := range res {
			if s == nil {
				continue
			}
			report(s, base == 0 && s.name == "sub-0")
		}
	}
}
