// h_c32 drives the real blockchain.Push (task loop, re-registration, restart) with generated fault
// histories: a scripted HTTP subscriber (httptest) that acknowledges, refuses or answers garbage, new
// blocks arriving in bursts, deactivation after three failures, re-registration and node restarts over
// in-memory stores.  Every externally visible event (post a..b acknowledged or not, the persisted
// last-pushed sequence, deactivation, task start) is logged in the order it happened and validated
// against the Lean specification acceptor (trace validation, timing independent).  The C32 predicate
// is also evaluated directly on the log.
package main

import (
	"bytes"
	"compress/gzip"
	"fmt"
	"io"
	"net/http"
	"net/http/httptest"
	"sort"
	"strings"
	"sync"
	"time"

	"github.com/33cn/chain33/blockchain"
	dbm "github.com/33cn/chain33/common/db"
	"github.com/33cn/chain33/queue"
	"github.com/33cn/chain33/types"

	"verifharness/internal/gen"
	_ "verifharness/internal/quiet"
)

var out = gen.NewOut()

// ------------------------------------------------------------------ event log

type event struct {
	kind string // post | persisted | deactivated | started
	a, b int64
	ok   bool
}

func (e event) line() string {
	switch e.kind {
	case "post":
		k := 0
		if e.ok {
			k = 1
		}
		return fmt.Sprintf("post %d %d %d", e.a, e.b, k)
	case "persisted":
		return fmt.Sprintf("persisted %d", e.a)
	}
	return e.kind
}

type scenario struct {
	mu     sync.Mutex
	gate   sync.Mutex // held by the driver while it (re)starts tasks; posts wait for it
	events []event
	name   string
	rec    []byte
	last   []byte
	store  *memStore
	seqs   *seqStore
	r      *gen.Rand
	okNum  int // probability numerator /10 that a post is acknowledged
	mode   int // how a refusal looks
	notes  []string
	closeBlocked bool
	blocks       bool // PushBlock subscription (else PushBlockHeader)
	innerGap     bool
}

func (s *scenario) log(e event) {
	s.mu.Lock()
	s.events = append(s.events, e)
	s.mu.Unlock()
}

// ------------------------------------------------------------------ stores

type memStore struct {
	mu sync.Mutex
	m  map[string][]byte
	sc *scenario
}

func (m *memStore) SetSync(key, value []byte) error { return m.Set(key, value) }
func (m *memStore) Set(key, value []byte) error {
	m.mu.Lock()
	m.m[string(key)] = append([]byte{}, value...)
	m.mu.Unlock()
	if bytes.Equal(key, m.sc.last) {
		var v types.Int64
		if err := types.Decode(value, &v); err == nil {
			m.sc.log(event{kind: "persisted", a: v.Data})
		}
	}
	if bytes.Equal(key, m.sc.rec) {
		var ps types.PushWithStatus
		if err := types.Decode(value, &ps); err == nil && ps.Status == 2 {
			m.sc.log(event{kind: "deactivated"})
		}
	}
	return nil
}
func (m *memStore) GetKey(key []byte) ([]byte, error) {
	m.mu.Lock()
	defer m.mu.Unlock()
	v, ok := m.m[string(key)]
	if !ok {
		return nil, dbm.ErrNotFoundInDb
	}
	return v, nil
}
func (m *memStore) PrefixCount(prefix []byte) int64 {
	l, _ := m.List(prefix)
	return int64(len(l))
}
func (m *memStore) List(prefix []byte) ([][]byte, error) {
	m.mu.Lock()
	defer m.mu.Unlock()
	var ks []string
	for k := range m.m {
		if strings.HasPrefix(k, string(prefix)) {
			ks = append(ks, k)
		}
	}
	sort.Strings(ks)
	var l [][]byte
	for _, k := range ks {
		l = append(l, m.m[k])
	}
	if len(l) == 0 {
		return nil, dbm.ErrNotFoundInDb
	}
	return l, nil
}

type seqStore struct {
	mu     sync.Mutex
	latest int64
	bigMod int64 // every sequence with seq%bigMod < 5 is reported as a 400 KB block (0: none)
}

func hashOf(seq int64) []byte { return []byte(fmt.Sprintf("hash-%020d-padpadpadpad", seq))[:32] }

func (s *seqStore) LoadBlockLastSequence() (int64, error) {
	s.mu.Lock()
	defer s.mu.Unlock()
	return s.latest, nil
}
func (s *seqStore) GetBlockSequence(seq int64) (*types.BlockSequence, error) {
	s.mu.Lock()
	defer s.mu.Unlock()
	if seq < 0 || seq > s.latest {
		return nil, types.ErrHeightNotExist
	}
	return &types.BlockSequence{Hash: hashOf(seq), Type: 1}, nil
}
func (s *seqStore) GetBlockHeaderByHash(hash []byte) (*types.Header, error) {
	var seq int64
	fmt.Sscanf(string(hash), "hash-%d", &seq)
	return &types.Header{Height: seq, Hash: hash, BlockTime: 1600000000 + seq}, nil
}
func (s *seqStore) LoadBlockBySequence(seq int64) (*types.BlockDetail, int, error) {
	if _, err := s.GetBlockSequence(seq); err != nil {
		return nil, 0, err
	}
	b := &types.BlockDetail{Block: &types.Block{Height: seq, BlockTime: 1600000000 + seq}}
	size := b.Size()
	if s.bigMod > 0 && seq%s.bigMod < 5 {
		size = 400 * 1024 // a run of large blocks: the 1 MB payload cap cuts the batch
	}
	return b, size, nil
}
func (s *seqStore) LastHeader() *types.Header {
	s.mu.Lock()
	defer s.mu.Unlock()
	return &types.Header{Height: s.latest}
}
func (s *seqStore) GetSequenceByHash(hash []byte) (int64, error) {
	var seq int64
	fmt.Sscanf(string(hash), "hash-%d", &seq)
	return seq, nil
}

// ------------------------------------------------------------------ subscriber endpoint

func (s *scenario) handler(w http.ResponseWriter, req *http.Request) {
	s.gate.Lock() // wait until the driver finished logging a (re)start
	s.gate.Unlock()
	body, _ := io.ReadAll(req.Body)
	zr, err := gzip.NewReader(bytes.NewReader(body))
	var a, b int64 = -1, -1
	if err == nil {
		raw, _ := io.ReadAll(zr)
		var nums []int64
		if s.blocks {
			var bs types.BlockSeqs
			if types.Decode(raw, &bs) == nil {
				for _, x := range bs.Seqs {
					nums = append(nums, x.Num)
				}
			}
		} else {
			var hs types.HeaderSeqs
			if types.Decode(raw, &hs) == nil {
				for _, x := range hs.Seqs {
					nums = append(nums, x.Num)
				}
			}
		}
		if len(nums) > 0 {
			a, b = nums[0], nums[len(nums)-1]
			for i, x := range nums {
				if x != a+int64(i) {
					// the payload itself skips a sequence: report the range actually covered as broken
					s.mu.Lock()
					s.innerGap = true
					s.mu.Unlock()
				}
			}
		}
	}
	s.mu.Lock()
	ok := s.r.Intn(10) < s.okNum
	mode := s.mode
	if !ok && mode == 3 {
		mode = s.r.Intn(3)
	}
	s.events = append(s.events, event{kind: "post", a: a, b: b, ok: ok})
	s.mu.Unlock()
	if ok {
		if s.r.Bool() {
			w.Write([]byte("ok"))
		} else {
			w.Write([]byte("OK"))
		}
		return
	}
	switch mode {
	case 0:
		w.Write([]byte("not ok"))
	case 1:
		w.WriteHeader(500)
		w.Write([]byte("error"))
	default:
		// drop the connection without an answer
		if hj, ok := w.(http.Hijacker); ok {
			if c, _, err := hj.Hijack(); err == nil {
				c.Close()
				return
			}
		}
		w.Write([]byte("x"))
	}
}

// closePush calls Push.Close with a deadline; a Close that never returns is a predicate failure
// (a task goroutine that nobody can stop any more).
func (s *scenario) closePush(p *blockchain.Push) bool {
	done := make(chan struct{})
	go func() { p.Close(); close(done) }()
	select {
	case <-done:
		return true
	case <-time.After(20 * time.Second):
		s.mu.Lock()
		s.closeBlocked = true
		s.mu.Unlock()
		return false
	}
}

// ------------------------------------------------------------------ one fault history

var cfg *types.Chain33Config

func runScenario(seed uint64, idx int) *scenario {
	r := gen.New(seed)
	s := &scenario{name: fmt.Sprintf("sub-%d", idx), r: gen.New(seed ^ 0x5555), okNum: []int{10, 8, 5, 3, 0}[r.Intn(5)], mode: r.Intn(4)}
	s.rec, s.last = blockchain.VerifPushKeys(s.name)
	s.store = &memStore{m: map[string][]byte{}, sc: s}
	s.seqs = &seqStore{latest: int64(5 + r.Intn(40))}
	s.blocks = r.Bool()
	if s.blocks && r.Chance(2, 3) {
		s.seqs.bigMod = int64(7 + r.Intn(10))
	}
	srv := httptest.NewServer(http.HandlerFunc(s.handler))
	defer srv.Close()
	q := queue.New("verif-push")
	q.SetConfig(cfg)
	defer q.Close()

	failSleep := int32(1 + r.Intn(2))
	push := blockchain.VerifNewPush(s.store, s.seqs, q.Client(), failSleep)
	sub := &types.PushSubscribeReq{Name: s.name, URL: srv.URL, Encode: "proto", Type: 1} // PushBlockHeader
	if s.blocks {
		sub.Type = 0 // PushBlock
	}
	resume := int64(0)
	if r.Bool() {
		resume = 1 + int64(r.Intn(int(s.seqs.latest)))
		sub.LastSequence = resume
		sub.LastHeight = resume
		sub.LastBlockHash = fmt.Sprintf("%x", hashOf(resume))
	}
	start := func(p *blockchain.Push, first bool) {
		s.gate.Lock()
		exists, _ := p.VerifTaskRunning(s.name)
		err := p.VerifAddSubscriber(sub)
		if err != nil {
			s.notes = append(s.notes, "addSubscriber: "+err.Error())
		} else if !exists {
			s.log(event{kind: "started"})
		}
		s.gate.Unlock()
	}
	start(push, true)
	if r.Chance(1, 3) {
		// the subscriber repeats its registration request at once (client retry)
		start(push, false)
	}
	steps := 6 + r.Intn(6)
	for k := 0; k < steps; k++ {
		switch r.Pick(6, 2, 2, 1) {
		case 0: // new blocks
			n := int64(1 + r.Intn(25))
			s.seqs.mu.Lock()
			s.seqs.latest += n
			l := s.seqs.latest
			s.seqs.mu.Unlock()
			push.UpdateSeq(l)
		case 1: // the subscriber registers again (possibly after a deactivation)
			start(push, false)
		case 2: // node restart over the same stores
			if !s.closePush(push) {
				return s
			}
			s.gate.Lock()
			active := false
			if v, err := s.store.GetKey(s.rec); err == nil {
				var ps types.PushWithStatus
				if types.Decode(v, &ps) == nil && ps.Status == 1 {
					active = true
				}
			}
			push = blockchain.VerifNewPush(s.store, s.seqs, q.Client(), failSleep)
			if active {
				s.log(event{kind: "started"})
			}
			s.gate.Unlock()
		case 3: // the subscriber changes its mind about answering
			s.mu.Lock()
			s.okNum = []int{10, 8, 5, 3, 0}[r.Intn(5)]
			s.mu.Unlock()
		}
		time.Sleep(time.Duration(100+r.Intn(1200)) * time.Millisecond)
	}
	time.Sleep(1500 * time.Millisecond)
	s.closePush(push)
	return s
}

// the property evaluated directly on the log
func predicate(s *scenario) {
	if s.innerGap {
		out.Pred("C32|getPushData|payload-skips-a-sequence", fmt.Sprintf("%s: a posted payload does not hold consecutive sequences; log=%s", s.name, s.dump()))
	}
	if s.closeBlocked {
		out.Pred("C32|Push.Close|blocked", fmt.Sprintf("%s: Push.Close did not return within 20s; log=%s", s.name, s.dump()))
	}
	var lastAck int64 = -1   // end of the last acknowledged range
	var resume int64 = -1    // value of the last persisted record
	pendingAck := int64(-1)
	fails := 0
	for i, e := range s.events {
		switch e.kind {
		case "post":
			if e.a < 1 || e.b < e.a {
				out.Pred("C32|PostData|malformed-range", fmt.Sprintf("%s event %d: %s", s.name, i, e.line()))
			}
			if resume >= 1 && e.a != resume+1 {
				kind := "gap"
				if e.a <= resume {
					kind = "repeat-of-acknowledged"
				}
				out.Pred("C32|runTask|post-not-contiguous-"+kind, fmt.Sprintf("%s event %d: %s but last recorded %d; log=%s", s.name, i, e.line(), resume, s.dump()))
			}
			if e.ok {
				lastAck = e.b
				pendingAck = e.b
				fails = 0
			} else {
				fails++
			}
		case "persisted":
			if pendingAck == e.a {
				pendingAck = -1
			} else if lastAck != -1 || resume >= 1 {
				out.Pred("C32|setLastPushSeq|recorded-without-ack", fmt.Sprintf("%s event %d: %s; log=%s", s.name, i, e.line(), s.dump()))
			}
			resume = e.a
		case "deactivated":
			if fails < 3 {
				out.Pred("C32|runTask|deactivated-early", fmt.Sprintf("%s after %d failures", s.name, fails))
			}
			fails = 0
		case "started":
			fails = 0
		}
		if e.kind == "post" && fails > 3 {
			out.Pred("C32|runTask|no-deactivation-after-3-failures", fmt.Sprintf("%s: %d consecutive failures; log=%s", s.name, fails, s.dump()))
		}
	}
}

func (s *scenario) dump() string {
	var l []string
	for _, e := range s.events {
		l = append(l, e.line())
	}
	return strings.Join(l, "; ")
}

func main() {
	defer out.Flush()
	cfg = types.NewChain33Config(types.GetDefaultCfgstring())
	r := gen.New(gen.Seed())
	n := gen.Scale(48, 600)
	par := 48
	for base := 0; base < n; base += par {
		var wg sync.WaitGroup
		res := make([]*scenario, par)
		for i := 0; i < par && base+i < n; i++ {
			wg.Add(1)
			seed := r.U64()
			go func(i int) {
				defer wg.Done()
				res[i] = runScenario(seed, base+i)
			}(i)
		}
		wg.Wait()
		for _, s := range res {
			if s == nil {
				continue
			}
			out.Op("cfg 10", "ok")
			acks, fails := 0, 0
			for _, e := range s.events {
				out.Op(e.line(), "ok")
				if e.kind == "post" {
					if e.ok {
						acks++
					} else {
						fails++
					}
				}
				if e.kind == "deactivated" {
					out.Stat("deactivations", 1)
				}
				if e.kind == "started" {
					out.Stat("task_starts", 1)
				}
			}
			predicate(s)
			out.Stat("scenarios", 1)
			if s.blocks {
				out.Stat("scenarios_pushblock", 1)
			}
			if s.seqs.bigMod > 0 {
				out.Stat("scenarios_with_size_cut", 1)
			}
			out.Stat("acknowledged_posts", int64(acks))
			out.Stat("failed_posts", int64(fails))
			for _, nt := range s.notes {
				out.Note(s.name + ": " + nt)
			}
			if base == 0 && s.name == "sub-0" {
				out.Sample(s.dump())
			}
		}
	}
}
