// h_c33 — property C33 "peer input can never crash the node".
//
// Every op line is an *abstract* peer input (the line the Lean driver drv_c33 reads). The Executor
// (exec.go) concretises it into real protobuf messages / stream bytes, pushes them through the real
// receive paths of /repo (handleBroadcastReceive with its recover, the bodies of the background loops
// pendBlockLoop / blockRequestLoop / manageDeniedPeer stepped one tick at a time, the pubsub topic
// validators, the download and peer stream handlers behind protocol.RegisterStreamHandler, the client
// side reply decoding) and prints the canonical outcome. A panic that escapes a path without a recover
// is a property-predicate failure (#PRED C33|<path>><function>|<kind>-unrecovered). Which paths carry a
// recover is re-read from the source with go/ast on every run (`fact …` lines, compared with the model).
// Two scripted crash witnesses are additionally run in a child process with the *production* loops.
package main

import (
	"fmt"
	"os"
	"os/exec"
	"strings"
	"time"

	"github.com/33cn/chain33/system/p2p/dht/protocol/broadcast"
	"github.com/33cn/chain33/types"

	"verifharness/internal/gen"
	"verifharness/internal/p2pexec"
	"verifharness/internal/p2pv"
)

var out = gen.NewOut() // captures the real stdout before it is redirected

var nPred = map[string]int{}

func pred(sig, detail string) {
	nPred[sig]++
	if nPred[sig] <= 3 {
		out.Pred(sig, detail)
	}
	out.Stat("pred:"+sig, 1)
}

// a scenario is buffered and only emitted when it ran within the clock margin (see clock())
type scenario struct {
	e     *p2pexec.Executor
	lines [][2]string
	start time.Time
}

func (s *scenario) op(line string) string {
	res := s.e.Exec(line, nil)
	if res != "skipped-after-stuck" {
		s.lines = append(s.lines, [2]string{line, res})
	}
	return res
}

func (s *scenario) opLt(line string, lb *types.LightBlock) string {
	res := s.e.Exec(line, lb)
	if res != "skipped-after-stuck" {
		s.lines = append(s.lines, [2]string{line, res})
	}
	return res
}

var probeSeq int

// liveness probe: step every background loop once and deliver one well-formed light block whose transactions are
// all pooled — it must be rebuilt and posted. A lock leaked by an earlier (recovered) panic, a wedged channel or a
// dead loop shows up here as a stuck call (watchdog) or as a probe that is not processed.
func (s *scenario) probe() {
	if s.e.Stuck {
		return
	}
	probeSeq++
	id := 9000 + probeSeq%900
	s.op("pool up 1")
	for _, l := range []string{"tick", "reqtick", "dtick"} {
		r := s.op(l)
		if r == "panic" || r == "stuck" || r == "skipped-after-stuck" {
			return
		}
	}
	s.op(fmt.Sprintf("pool push %s %d -", s.e.Reg.Sh(id), id))
	res := s.op(fmt.Sprintf("lt kprobe%d 1 1 2 0 1 %s,%s", probeSeq, s.e.Reg.Sh(0), s.e.Reg.Sh(id)))
	if res != fmt.Sprintf("posted 0,%d", id) && res != "stuck" && res != "skipped-after-stuck" {
		pred("C33|liveness-probe>addLtBlock|well-formed-light-block-not-processed",
			"got "+res+" after: "+strings.Join(s.e.History, " ; "))
	}
}

const maxStuck = 3 // after that many stuck calls the violation is established: stop generating

// the model clock is symbolic: light blocks wait `ltTimeout` ms; the harness only ever moves the clock to
// 0, 100 000 or 290 000 ms (types.SetTimeDelta clamps at ±300 s), so a decision flips only if a scenario
// takes more than 60 s of real time — such a scenario is discarded instead of emitted.
const ltTimeout = 250000
const clockMargin = 50 * time.Second

func (s *scenario) flush(kind string) {
	if time.Since(s.start) > clockMargin {
		out.Stat("scenario_discarded_slow", 1)
		return
	}
	for _, l := range s.lines {
		out.Op(l[0], l[1])
	}
	out.Stat("scenario_"+kind, 1)
	out.Stat("ops", int64(len(s.lines)))
	if s.e.NStuck >= maxStuck {
		// abandoned goroutines may hold locks of the old instances; nothing more to learn from this run
		out.Stat("aborted_after_stuck_calls", int64(s.e.NStuck))
		out.Flush()
		os.Exit(0)
	}
}

func begin(e *p2pexec.Executor, multi bool) *scenario {
	s := &scenario{e: e, start: time.Now()}
	m := 0
	if multi {
		m = 1
	}
	s.op(fmt.Sprintf("reset %d %d", m, ltTimeout))
	return s
}

func main() {
	os.Stdout, _ = os.OpenFile(os.DevNull, os.O_WRONLY, 0) // HandlerWithClose prints stack traces to stdout
	p2pexec.Logs.Install()
	if c := os.Getenv("VERIF_CHILD"); c != "" {
		child(c)
		return
	}
	defer out.Flush()
	e := p2pexec.New(pred)
	defer e.Close()
	if lines := gen.ReplayLines(); lines != nil {
		s := &scenario{e: e, start: time.Now()}
		if len(lines) > 0 && !strings.HasPrefix(lines[0], "reset") {
			s.op(fmt.Sprintf("reset 0 %d", ltTimeout))
		}
		for _, l := range lines {
			if strings.HasPrefix(l, "child ") {
				out.Op(l, runChild(strings.TrimPrefix(l, "child ")))
				continue
			}
			if strings.HasPrefix(l, "fact ") {
				continue
			}
			s.op(l)
		}
		s.flush("replay")
		return
	}
	r := gen.New(gen.Seed())
	p2pexec.EmitFacts(out.Op)
	witnesses(e)
	for i := 0; i < gen.Scale(220, 6000); i++ {
		ltScenario(e, r, i%5 == 4)
	}
	for i := 0; i < gen.Scale(60, 1500); i++ {
		peerMsgScenario(e, r, i%2 == 1)
	}
	for i := 0; i < gen.Scale(40, 800); i++ {
		validatorScenario(e, r)
	}
	for i := 0; i < gen.Scale(30, 600); i++ {
		streamScenario(e, r)
	}
	for i := 0; i < gen.Scale(12, 300); i++ {
		byteFuzzScenario(e, r)
	}
	if gen.Thorough() { // the quick tier runs the two child-process witnesses from corpus/C33 only
		out.Op("child pendloop", runChild("pendloop"))
		out.Op("child deniedloop", runChild("deniedloop"))
	}
	out.Stat("recovered_panics", int64(e.RecPan))
	out.Sample("lt <key> <hasHeader> <height> <txCount> <miner> <sender> <sTxHashes> / tick / breq / bresp / vblock / dlold … : " +
		"abstract peer inputs concretised into real messages; outcome (panic|posted|queued|…) compared with the Lean model")
}

// ---------------------------------------------------------------- scripted witnesses (also in corpus/)

func witnesses(e *p2pexec.Executor) {
	// S-C33: light block of 3 slots whose last short hash is that of a 2-transaction group that reaches the pool later
	s := begin(e, false)
	s.op("pool push " + e.Reg.Sh(1) + " 1 -")
	s.op(fmt.Sprintf("lt k1 1 10 3 0 2 %s,%s,%s", e.Reg.Sh(0), e.Reg.Sh(1), e.Reg.Sh(20)))
	s.op("tick")
	s.op("pool push " + e.Reg.Sh(20) + " 20 20,21")
	res := s.op("tick")
	out.Sample("witness S-C33: queued light block + late pooled group at the tail slot → tick: " + res)
	s.flush("witness")
	// txCount = 0 and txCount > len(hashes): panics under the recover of handleBroadcastReceive
	s = begin(e, false)
	s.op("lt k2 1 10 0 0 2 " + e.Reg.Sh(0))
	s.op("lt k3 1 10 4 0 2 " + e.Reg.Sh(0) + "," + e.Reg.Sh(1))
	s.op("lt k4 0 0 0 - 2 -")
	s.op("lt k5 1 10 -1 0 2 " + e.Reg.Sh(0))
	s.op("lt k6 1 10 4611686018427387904 0 2 " + e.Reg.Sh(0))
	s.flush("witness")
	// two p2p types configured: the same block answer delivered twice queues a nil message; the next tick of
	// manageDeniedPeer dereferences it
	s = begin(e, true)
	s.op("bresp 1 b1h5")
	s.op("bresp 1 b1h5")
	res = s.op("dtick")
	out.Sample("witness nil-msg: p2p.types=[dht,gossip], duplicate block response → dtick: " + res)
	s.flush("witness")
	s = begin(e, true)
	s.op("gossip b2h6")
	s.op("blk b2h6 1")
	s.op("dtick")
	s.flush("witness")
}

// ---------------------------------------------------------------- light blocks

func shOf(e *p2pexec.Executor, id int) string { return e.Reg.Sh(id) }

func ltScenario(e *p2pexec.Executor, r *gen.Rand, multi bool) {
	s := begin(e, multi)
	defer s.flush("lt")
	nBlocks := 1 + r.Intn(3)
	nextID := 100 * (1 + r.Intn(40))
	type seg struct{ ids []int }
	keyN := r.Intn(1000)
	cur := int64(r.Intn(12))
	s.op(fmt.Sprintf("cur %d", cur))
	var late [][]string // pool pushes that happen later
	for b := 0; b < nBlocks; b++ {
		// an honest block: miner + segments (single transactions and groups)
		var segs []seg
		segs = append(segs, seg{[]int{0}})
		nseg := r.Intn(6)
		for i := 0; i < nseg; i++ {
			k := 1
			if r.Chance(2, 5) {
				k = 2 + r.Intn(3)
			}
			var ids []int
			for j := 0; j < k; j++ {
				ids = append(ids, nextID)
				nextID++
			}
			segs = append(segs, seg{ids})
		}
		var ids []int
		for _, g := range segs {
			ids = append(ids, g.ids...)
		}
		var hashes []string
		for _, id := range ids {
			hashes = append(hashes, shOf(e, id))
		}
		txCount := int64(len(ids))
		miner := "0"
		hasHeader := 1
		// pool: every segment present / absent / late
		for _, g := range segs[1:] {
			grp := "-"
			if len(g.ids) > 1 {
				grp = joinInts(g.ids)
			}
			push := fmt.Sprintf("pool push %s %d %s", shOf(e, g.ids[0]), g.ids[0], grp)
			switch r.Pick(5, 2, 3) {
			case 0:
				s.op(push)
			case 2:
				late = append(late, []string{push})
			}
		}
		// mutations of the light block
		switch r.Pick(6, 2, 2, 2, 2, 2, 2, 1, 1, 1, 2, 1) {
		case 1: // count above the hashes
			txCount += int64(1 + r.Intn(3))
		case 2: // count below the hashes
			txCount -= int64(1 + r.Intn(2))
		case 3: // a hash dropped
			if len(hashes) > 1 {
				k := r.Intn(len(hashes))
				hashes = append(hashes[:k:k], hashes[k+1:]...)
			}
		case 4: // tail slot points at a group that does not fit
			g := []int{nextID, nextID + 1, nextID + 2}
			nextID += 3
			hashes[len(hashes)-1] = shOf(e, g[0])
			push := fmt.Sprintf("pool push %s %d %s", shOf(e, g[0]), g[0], joinInts(g[:2+r.Intn(2)]))
			if r.Bool() {
				s.op(push)
			} else {
				late = append(late, []string{push})
			}
		case 5: // a middle slot points at an over-long group
			if len(hashes) > 2 {
				k := 1 + r.Intn(len(hashes)-1)
				var g []int
				for j := 0; j < 2+r.Intn(24); j++ {
					g = append(g, nextID)
					nextID++
				}
				hashes[k] = shOf(e, g[0])
				push := fmt.Sprintf("pool push %s %d %s", shOf(e, g[0]), g[0], joinInts(g))
				if r.Bool() {
					s.op(push)
				} else {
					late = append(late, []string{push})
				}
			}
		case 6:
			miner = "-"
		case 7:
			hasHeader = 0
		case 8:
			hashes = nil
		case 9:
			txCount = []int64{0, -1, -5, 1 << 62, 1 << 46}[r.Intn(5)]
		case 10: // duplicate / swapped hashes
			if len(hashes) > 1 {
				i, j := r.Intn(len(hashes)), r.Intn(len(hashes))
				if r.Bool() {
					hashes[i] = hashes[j]
				} else {
					hashes[i], hashes[j] = hashes[j], hashes[i]
				}
			}
		case 11: // the pool entry of a member is a group head itself (one-element group, empty group list)
			push := fmt.Sprintf("pool push %s %d %d", shOf(e, nextID), nextID, nextID)
			hashes = append(hashes, shOf(e, nextID))
			txCount++
			nextID++
			s.op(push)
		}
		key := fmt.Sprintf("k%d", keyN)
		if hasHeader == 0 {
			key = "-"
			txCount = 0
		}
		if r.Chance(1, 6) {
			keyN++ // next block gets another key; otherwise a duplicate is sent now and then
		} else if b > 0 && r.Chance(1, 2) {
			keyN++
		}
		height := cur + int64(r.Intn(4)) - 1
		if hasHeader == 0 {
			height = 0
		}
		if r.Chance(1, 8) {
			s.op("pool up 0")
		}
		shortNow := r.Chance(1, 25)
		if shortNow {
			s.op("pool short 1") // environment assumption violated on purpose: model and code must still agree
		}
		res := s.op(fmt.Sprintf("lt %s %d %d %d %s %d %s", key, hasHeader, height, txCount, miner, r.Intn(p2pexec.NPeers), p2pexec.JoinOr(hashes, ",")))
		out.Stat("lt_"+strings.Fields(res)[0], 1)
		s.op("pool up 1")
		if shortNow {
			s.op("pool short 0")
		}
		if res == "panic" && r.Chance(1, 2) {
			s.probe() // malformed input just went through the recover: is everything still alive?
		}
		keyN++
	}
	// background processing: ticks, late arrivals, clock
	clock := []int64{0, 0, 100000, 100000, 290000}
	ci := 0
	steps := 2 + r.Intn(5)
	for i := 0; i < steps; i++ {
		switch r.Pick(4, 3, 2, 1) {
		case 0:
			res := s.op("tick")
			if res == "panic" {
				out.Stat("tick_panic", 1)
				return
			}
			out.Stat("tick_ok", 1)
		case 1:
			if len(late) > 0 {
				k := r.Intn(len(late))
				for _, l := range late[k] {
					s.op(l)
				}
				late = append(late[:k], late[k+1:]...)
			}
		case 2:
			if ci < len(clock)-1 {
				ci += 1 + r.Intn(len(clock)-1-ci)
				s.op(fmt.Sprintf("now %d", clock[ci]))
			}
		case 3:
			s.op(fmt.Sprintf("cur %d", cur+int64(r.Intn(5))))
		}
	}
	if s.op("tick") == "panic" {
		return
	}
	s.op("now 290000")
	s.op("tick")
	if multi {
		s.op("dtick")
	}
	s.probe()
}

func joinInts(l []int) string {
	w := make([]string, len(l))
	for i, x := range l {
		w[i] = fmt.Sprint(x)
	}
	return strings.Join(w, ",")
}

// ---------------------------------------------------------------- block request / response messages

func peerMsgScenario(e *p2pexec.Executor, r *gen.Rand, multi bool) {
	s := begin(e, multi)
	defer s.flush("peermsg")
	cur := int64(3 + r.Intn(6))
	s.op(fmt.Sprintf("cur %d", cur))
	for i := 0; i < 6+r.Intn(10); i++ {
		switch r.Pick(3, 4, 2, 3, 1, 2, 2, 1) {
		case 0:
			switch r.Intn(5) {
			case 0:
				s.op("chain err")
			case 1:
				s.op("chain items 0")
			case 2:
				s.op("chain other")
			default:
				s.op(fmt.Sprintf("chain items %d", 1+r.Intn(2)))
			}
		case 1:
			h := []int64{0, -1, cur, cur - 1, cur + 1, cur + 3, 1, -(1 << 62), 1 << 62}[r.Intn(9)]
			if s.op(fmt.Sprintf("breq %d %d", r.Intn(p2pexec.NPeers), h)) == "panic" {
				out.Stat("breq_panic_recovered", 1)
			}
		case 2:
			cur += int64(r.Intn(3))
			s.op(fmt.Sprintf("cur %d", cur))
		case 3:
			if s.op("reqtick") == "panic" {
				return
			}
		case 4:
			s.op("pmsg other")
		case 5:
			k := fmt.Sprintf("b%dh%d", r.Intn(4), 1+r.Intn(3))
			if r.Chance(1, 4) {
				s.op("bresp 0 " + []string{"nil", "bad"}[r.Intn(2)])
			} else {
				s.op("bresp 1 " + k)
			}
		case 6:
			k := fmt.Sprintf("b%dh%d", r.Intn(4), 1+r.Intn(3))
			if r.Bool() {
				s.op("gossip " + k)
			} else {
				s.op(fmt.Sprintf("blk %s %d", k, r.Intn(p2pexec.NPeers)))
			}
		case 7:
			if s.op("dtick") == "panic" {
				return
			}
		}
	}
	if s.op("reqtick") == "panic" {
		return
	}
	if s.op("dtick") == "panic" {
		return
	}
	// liveness probes for the request / response machinery
	s.op("chain items 1")
	s.op(fmt.Sprintf("breq 2 %d", cur))
	probeSeq++
	s.op(fmt.Sprintf("bresp 1 b%dh7", 1000+probeSeq))
	s.probe()
}

// ---------------------------------------------------------------- topic validators

func validatorScenario(e *p2pexec.Executor, r *gen.Rand) {
	s := begin(e, false)
	defer s.flush("validator")
	base := int64(r.Intn(400))
	dn := 0
	for i := 0; i < 10+r.Intn(20); i++ {
		switch r.Pick(5, 3, 3, 2, 1) {
		case 0:
			h := base + int64(r.Intn(600)) - 200
			if h < 0 {
				h = 0
			}
			b := r.Intn(3)
			dec := 1
			if r.Chance(1, 6) {
				dec = 0
			}
			self := 0
			if r.Chance(1, 10) {
				self = 1
			}
			s.op(fmt.Sprintf("vblock %d %d %d b%dh%d %d", self, r.Intn(p2pexec.NPeers), dec, b, h, h))
		case 1:
			id := 1 + r.Intn(12)
			ok := 1 - id%2
			s.op(fmt.Sprintf("vtx %d %d %d %d", b2i(r.Chance(1, 10)), b2i(!r.Chance(1, 6)), id, ok))
		case 2:
			var w []string
			for j := 0; j < r.Intn(7); j++ {
				id := 1 + r.Intn(14)
				w = append(w, fmt.Sprintf("%d:%d", id, 1-id%2))
			}
			s.op(fmt.Sprintf("vbatch %d %d %s", b2i(r.Chance(1, 10)), b2i(!r.Chance(1, 6)), p2pexec.JoinOr(w, ",")))
		case 3:
			s.op(fmt.Sprintf("vpeer %d", r.Intn(p2pexec.NPeers)))
		case 4:
			dn++
			s.op(fmt.Sprintf("deny %d d%d", r.Intn(p2pexec.NPeers), dn+1000*r.Intn(1000)))
		}
	}
}

func b2i(b bool) int {
	if b {
		return 1
	}
	return 0
}

// ---------------------------------------------------------------- stream protocols

func streamScenario(e *p2pexec.Executor, r *gen.Rand) {
	s := begin(e, false)
	defer s.flush("stream")
	rds := []string{"msg", "msg", "msg", "zero", "err"}
	big := []int64{0, 1, 5, 256, 257, 300, -1, -300, 1 << 62, -(1 << 62), 9223372036854775807, -9223372036854775808}
	addr := []string{"1", "0", "p", "g"}
	if r.Chance(2, 3) {
		s.op(fmt.Sprintf("chain items %d", 1+r.Intn(3)))
	}
	// the range check at its edge
	a := int64(r.Intn(1000))
	d := []int64{255, 256, 257, 258}[r.Intn(4)]
	s.op(fmt.Sprintf("dlold msg 1 %d %d", a, a+d))
	s.op(fmt.Sprintf("dlnew msg %d %d", a, a+d))
	for i := 0; i < 10+r.Intn(15); i++ {
		switch r.Pick(2, 4, 3, 4, 3, 2, 2, 2) {
		case 0:
			switch r.Intn(4) {
			case 0:
				s.op("chain err")
			case 1:
				s.op("chain items 0")
			case 2:
				s.op("chain other")
			default:
				s.op(fmt.Sprintf("chain items %d", 1+r.Intn(3)))
			}
		case 1:
			s.op(fmt.Sprintf("dlold %s %d %d %d", rds[r.Intn(5)], b2i(!r.Chance(1, 4)), big[r.Intn(len(big))], big[r.Intn(len(big))]))
		case 2:
			s.op(fmt.Sprintf("dlnew %s %d %d", rds[r.Intn(5)], big[r.Intn(len(big))], big[r.Intn(len(big))]))
		case 3:
			s.op(fmt.Sprintf("dlreply %s %d %d %d 0 %d %d", rds[r.Intn(5)], b2i(!r.Chance(1, 4)), r.Intn(3), b2i(!r.Chance(1, 3)),
				[]int64{5, 6, 0, 7, 1 << 40}[r.Intn(5)], []int64{5, 5, 6, 7, 0, 0}[r.Intn(6)]))
		case 4:
			rd := rds[r.Intn(5)]
			same := b2i(!r.Chance(1, 3))
			if rd == "zero" {
				same = 0
			}
			s.op(fmt.Sprintf("ver %d %s %d %s %s", r.Intn(2), rd, same, addr[r.Intn(4)], addr[r.Intn(4)]))
		case 5:
			s.op(fmt.Sprintf("pinfo %d %s", r.Intn(2), rds[r.Intn(5)]))
		case 6:
			s.op(fmt.Sprintf("qinfo %s %s", rds[r.Intn(5)], []string{"a", "b", "c", "d", "e"}[r.Intn(5)]))
		case 7:
			s.op(fmt.Sprintf("qver %s %s", rds[r.Intn(5)], addr[r.Intn(4)]))
		}
	}
}

// ---------------------------------------------------------------- byte-level mutation of encoded messages

func mutate(r *gen.Rand, b []byte) []byte {
	c := append([]byte(nil), b...)
	for k := 0; k < 1+r.Intn(3); k++ {
		if len(c) == 0 {
			return c
		}
		switch r.Intn(4) {
		case 0:
			c[r.Intn(len(c))] ^= byte(1 << r.Intn(8))
		case 1:
			c = c[:r.Intn(len(c))]
		case 2:
			i := r.Intn(len(c))
			c = append(c[:i:i], append(r.Bytes(1+r.Intn(4)), c[i:]...)...)
		case 3:
			c[r.Intn(len(c))] = byte(r.Intn(256))
		}
	}
	return c
}

// abstractLt is the abstraction function: decoded light block → the op line the model reads
func abstractLt(e *p2pexec.Executor, lb *types.LightBlock, sender int) (string, bool) {
	key := "-"
	if h := lb.GetHeader().GetHash(); len(h) > 0 {
		key = "f" + e.Reg.Token(string(h))
		if strings.HasPrefix(string(h), "key-") && safeWord(string(h)[4:]) {
			key = string(h)[4:]
		}
	}
	cnt := lb.GetHeader().GetTxCount()
	if cnt > 1<<16 && cnt <= 1<<45 {
		return "", false // would really allocate; outside the model
	}
	miner := "-"
	if lb.MinerTx != nil {
		miner = fmt.Sprint(e.Reg.IDOf(lb.MinerTx))
	}
	var hs []string
	for _, h := range lb.STxHashes {
		hs = append(hs, e.Reg.Token(h))
	}
	for _, w := range append([]string{key}, hs...) {
		if !safeWord(w) {
			return "", false
		}
	}
	return fmt.Sprintf("lt %s %d %d %d %s %d %s", key, b2i(lb.Header != nil), lb.GetHeader().GetHeight(), cnt, miner, sender, p2pexec.JoinOr(hs, ",")), true
}

func safeWord(s string) bool {
	if s == "" {
		return false
	}
	for _, c := range s {
		if !(c >= '0' && c <= '9' || c >= 'a' && c <= 'z' || c >= 'A' && c <= 'Z' || c == '-' || c == '_') {
			return false
		}
	}
	return true
}

func byteFuzzScenario(e *p2pexec.Executor, r *gen.Rand) {
	s := begin(e, false)
	defer s.flush("bytefuzz")
	s.op("pool push " + shOf(e, 1) + " 1 -")
	s.op("pool push " + shOf(e, 30) + " 30 30,31")
	base := &types.LightBlock{Size: 100, Header: &types.Header{Hash: []byte("key-z"), Height: 4, TxCount: 3}, MinerTx: e.Reg.Tx(0),
		STxHashes: []string{shOf(e, 0), shOf(e, 1), shOf(e, 30)}}
	raw := e.LT.EncodeMsg(base)
	for i := 0; i < 40; i++ {
		m := mutate(r, raw)
		msg := e.LT.NewMsg(broadcast.VerifLtBlockTopic)
		var err error
		if pi := p2pexec.Guard(func() { err = e.LT.DecodeMsg(m, msg) }); pi != nil {
			e.Unrecovered("handleSubMsg", pi, fmt.Sprintf("decodeMsg %x", m))
			continue
		}
		if err != nil {
			out.Stat("bytefuzz_undecodable", 1)
			continue
		}
		lb := msg.(*types.LightBlock)
		if lb.Header != nil && len(lb.Header.Hash) > 0 {
			lb.Header.Hash = append([]byte(fmt.Sprintf("key-m%d-", i)), lb.Header.Hash...) // keep filter keys distinct per mutant
		}
		line, ok := abstractLt(e, lb, 2)
		if !ok {
			out.Stat("bytefuzz_outside_model", 1)
			continue
		}
		out.Stat("bytefuzz_decodable", 1)
		s.opLt(line, lb)
	}
	if s.op("tick") != "panic" {
		s.op("now 290000")
		s.op("tick")
		s.probe()
	}
	// the other topics: decode + receive must not escape the recover; validators must not panic
	blk := &types.Block{Height: 5, TxHash: []byte("t"), Txs: []*types.Transaction{e.Reg.Tx(1), e.Reg.Tx(2)}}
	txs := &types.Transactions{Txs: []*types.Transaction{e.Reg.Tx(3), e.Reg.Tx(4)}}
	pm := &types.PeerPubSubMsg{MsgID: broadcast.VerifBlockRespID, ProtoMsg: types.Encode(blk)}
	for _, c := range []struct {
		topic string
		m     types.Message
	}{{broadcast.VerifBlockTopic, blk}, {broadcast.VerifBatchTxTopic, txs}, {broadcast.VerifTxTopic, e.Reg.Tx(5)}, {"peermsg/x", pm}} {
		raw := e.LT.EncodeMsg(c.m)
		for i := 0; i < 25; i++ {
			m := mutate(r, raw)
			if pi := p2pexec.Guard(func() {
				e.LT.Validate(c.topic, e.IDs[1], e.PsMsg(c.topic, e.IDs[1], m))
			}); pi != nil {
				e.Unrecovered("pubsub-validator", pi, fmt.Sprintf("%s %x", c.topic, m))
			}
			msg := e.LT.NewMsg(c.topic)
			var err error
			if pi := p2pexec.Guard(func() { err = e.LT.DecodeMsg(m, msg) }); pi != nil {
				e.Unrecovered("handleSubMsg", pi, fmt.Sprintf("decodeMsg %s %x", c.topic, m))
				continue
			}
			if err != nil || c.topic == broadcast.VerifTxTopic || c.topic == broadcast.VerifBatchTxTopic {
				continue
			}
			topic := c.topic
			if topic == "peermsg/x" {
				topic = e.LT.PeerTopic(e.Cur.Env.Host.ID())
			}
			if pi := p2pexec.Guard(func() { e.LT.Receive(topic, msg, e.IDs[1], e.IDs[1]) }); pi != nil {
				e.Unrecovered("handleBroadcastReceive", pi, fmt.Sprintf("%s %x", c.topic, m))
			}
			out.Stat("bytefuzz_received", 1)
		}
	}
	e.TakePosts()
	if pi := p2pexec.Guard(e.LT.DeniedTick); pi != nil {
		e.Unrecovered("manageDeniedPeer", pi, "after byte fuzz")
	}
}

// ---------------------------------------------------------------- child process: the production loops

// runChild re-executes this binary with the unmodified background goroutines running and reports whether
// the process survived the scripted input.
func runChild(kind string) string {
	cmd := exec.Command(os.Args[0])
	cmd.Env = append(os.Environ(), "VERIF_CHILD="+kind)
	var stderr strings.Builder
	cmd.Stderr = &stderr
	done := make(chan error, 1)
	if err := cmd.Start(); err != nil {
		return "child-start-failed"
	}
	go func() { done <- cmd.Wait() }()
	select {
	case err := <-done:
		if err == nil {
			return "survived"
		}
		se := stderr.String()
		if strings.Contains(se, "panic:") || strings.Contains(se, "goroutine ") {
			site := "unknown"
			for _, fn := range []string{"buildPendBlock", "manageDeniedPeer", "WaitTimeout"} {
				if strings.Contains(se, fn) {
					site = fn
					break
				}
			}
			sig := map[string]string{"pendloop": "C33|pendBlockLoop>broadcast.(*ltBroadcast).buildPendBlock|index-out-of-range-unrecovered",
				"deniedloop": "C33|manageDeniedPeer>queue.(*client).WaitTimeout|nil-dereference-unrecovered"}[kind]
			pred(sig, "child process with the production loops exited: "+firstLine(se)+" (in "+site+")")
			return "crashed"
		}
		return "child-error"
	case <-time.After(4 * time.Minute):
		_ = cmd.Process.Kill()
		return "child-timeout"
	}
}

func firstLine(s string) string {
	for _, l := range strings.Split(s, "\n") {
		if strings.HasPrefix(l, "panic:") {
			return l
		}
	}
	if i := strings.Index(s, "\n"); i > 0 {
		return s[:i]
	}
	return s
}

func child(kind string) {
	reg := p2pexec.NewRegistry()
	ids := p2pv.PeerIDs(77, 4)
	switch kind {
	case "pendloop":
		w := p2pv.NewWorld(p2pv.Options{HostSeed: 9})
		lt := broadcast.VerifNewLt(w.Env) // default timeout 1000 ms
		lt.StartLoops()
		w.PoolPush(reg.Tx(1), reg.Tx(1).Hash())
		lb := &types.LightBlock{Header: &types.Header{Hash: []byte("child"), Height: 10, TxCount: 3}, MinerTx: reg.Tx(0),
			STxHashes: []string{reg.Sh(0), reg.Sh(1), reg.Sh(20)}}
		lt.Receive(broadcast.VerifLtBlockTopic, lb, ids[0], ids[0])
		if lt.PendLen() != 1 {
			os.Exit(0) // not queued: nothing for the loop to do
		}
		head := reg.PoolEntry(20, []int{20, 21})
		w.PoolPush(head, reg.Tx(20).Hash())
		// the loop ticks every 200 ms; it either dies or removes the block (rebuilt or timed out after 1 s)
		for lt.PendLen() > 0 {
			time.Sleep(50 * time.Millisecond)
		}
		os.Exit(0)
	case "deniedloop":
		w := p2pv.NewWorld(p2pv.Options{HostSeed: 9, P2PTypes: []string{"dht", "gossip"}})
		w.Env.ConnBlackList = &p2pexec.Lru{}
		lt := broadcast.VerifNewLt(w.Env)
		lt.StartLoops()
		blk := &types.Block{Height: 5, TxHash: []byte("child")}
		msg := &types.PeerPubSubMsg{MsgID: broadcast.VerifBlockRespID, ProtoMsg: types.Encode(blk)}
		me := lt.PeerTopic(w.Env.Host.ID())
		lt.Receive(me, msg, ids[0], ids[0])
		lt.Receive(me, msg, ids[0], ids[0]) // the duplicate
		// manageDeniedPeer ticks every 2 s: wait until it emptied the list, then until it came round once more
		for round := 0; round < 2; round++ {
			for lt.MsgListLen() > 0 {
				time.Sleep(50 * time.Millisecond)
			}
			other := &types.PeerPubSubMsg{MsgID: broadcast.VerifBlockRespID, ProtoMsg: types.Encode(&types.Block{Height: int64(6 + round), TxHash: []byte("c2")})}
			lt.Receive(me, other, ids[1], ids[1])
		}
		for lt.MsgListLen() > 0 {
			time.Sleep(50 * time.Millisecond)
		}
		os.Exit(0)
	}
	os.Exit(3)
}
