// h_c34 — property C34 "light blocks are rebuilt exactly or fall back".
//
// Real blocks (miner transaction + single transactions and real transaction groups made by
// types.CreateTxGroup at every position) are turned into light blocks by the real buildLtBlock, sent over
// the wire format (encodeMsg/decodeMsg) into the real receive path; the pool (the real SHashTxCache behind a
// scripted mempool module) holds every subset of the block's transactions, the rest arrives before or after
// the pending timeout (clock moved through types.SetTimeDelta with wide margins), and the tick body of
// pendBlockLoop is stepped. Each step is abstracted (transactions → ids by hash) into the op line the Lean
// model reads; outputs are compared line by line, and the property predicate is evaluated on the
// implementation itself: rebuilt transactions byte-identical and in place, same block hash and merkle root;
// nothing posted while something is missing; on timeout a full-block request to the sender iff the height is
// above the current one.
package main

import (
	"bytes"
	"fmt"
	"os"
	"strings"
	"time"

	"github.com/33cn/chain33/common/merkle"
	"github.com/33cn/chain33/types"

	"verifharness/internal/gen"
	"verifharness/internal/p2pexec"
)

var out = gen.NewOut()

var nPred = map[string]int{}

func pred(sig, detail string) {
	nPred[sig]++
	if nPred[sig] <= 3 {
		out.Pred(sig, detail)
	}
	out.Stat("pred:"+sig, 1)
}

const ltTimeout = 250000
const clockMargin = 50 * time.Second

type scenario struct {
	e     *p2pexec.Executor
	lines [][2]string
	start time.Time
	preds [][2]string
}

func (s *scenario) op(line string) string {
	res := s.e.Exec(line, nil)
	s.lines = append(s.lines, [2]string{line, res})
	return res
}

func (s *scenario) pred(sig, detail string) { s.preds = append(s.preds, [2]string{sig, detail}) }

func (s *scenario) flush() {
	if time.Since(s.start) > clockMargin {
		out.Stat("scenario_discarded_slow", 1)
		return
	}
	for _, l := range s.lines {
		out.Op(l[0], l[1])
	}
	for _, p := range s.preds {
		pred(p[0], p[1])
	}
	out.Stat("scenarios", 1)
	out.Stat("ops", int64(len(s.lines)))
}

// segment of a block: one transaction, or a transaction group
type segment struct {
	txs  []*types.Transaction // as they stand in the block
	head *types.Transaction   // what the mempool holds (the tx itself, or group.Tx())
}

var txSeq int

func newTx() *types.Transaction {
	txSeq++
	return &types.Transaction{Execer: []byte("coins"), Payload: []byte(fmt.Sprintf("c34-tx-%d", txSeq)), Fee: 1000000,
		Expire: int64(txSeq), Nonce: int64(txSeq) * 104729, To: "1Q4NhureJxKNBf71d26B9J3fBQoQcfmez2"}
}

func newSegment(cfg *types.Chain33Config, size int) segment {
	if size <= 1 {
		t := newTx()
		return segment{txs: []*types.Transaction{t}, head: t}
	}
	var l []*types.Transaction
	for i := 0; i < size; i++ {
		l = append(l, newTx())
	}
	g, err := types.CreateTxGroup(l, cfg.GetMinTxFeeRate())
	if err != nil {
		fmt.Fprintln(os.Stderr, "CreateTxGroup:", err)
		os.Exit(3)
	}
	return segment{txs: g.Txs, head: g.Tx()}
}

type arrival int

const (
	present    arrival = iota // in the pool when the light block arrives
	early                     // arrives before the timeout, a loop pass follows before the timeout
	late                      // arrives after the pass that found the timeout expired
	never
	lastMinute // arrives before the timeout, but the next loop pass only runs at / after the timeout
)

const nArrivals = 5

func pushLine(e *p2pexec.Executor, sg segment) string {
	grp := "-"
	if len(sg.txs) > 1 {
		var w []string
		for _, t := range sg.txs {
			w = append(w, fmt.Sprint(e.Reg.IDOf(t)))
		}
		grp = strings.Join(w, ",")
	}
	return fmt.Sprintf("pool push %s %d %s", types.CalcTxShortHash(sg.head.Hash()), e.Reg.IDOf(sg.head), grp)
}

func (s *scenario) push(sg segment) {
	line := pushLine(s.e, sg)
	s.lines = append(s.lines, [2]string{line, s.e.ExecPoolPushTx(line, sg.head, sg.head.Hash())})
}

// same transactions in the same positions, same block hash, same merkle root
func sameBlock(cfg *types.Chain33Config, orig, got *types.Block) string {
	if len(orig.Txs) != len(got.Txs) {
		return fmt.Sprintf("tx count %d != %d", len(got.Txs), len(orig.Txs))
	}
	for i := range orig.Txs {
		if got.Txs[i] == nil || !bytes.Equal(types.Encode(orig.Txs[i]), types.Encode(got.Txs[i])) {
			return fmt.Sprintf("transaction at position %d differs", i)
		}
	}
	if !bytes.Equal(orig.Hash(cfg), got.Hash(cfg)) {
		return "block hash differs"
	}
	if !bytes.Equal(merkle.CalcMerkleRoot(cfg, got.Height, got.Txs), orig.TxHash) {
		return "merkle root of the rebuilt transactions differs from the header"
	}
	return ""
}

func runBlock(e *p2pexec.Executor, r *gen.Rand, sizes []int, arr []arrival, height, cur int64, collide int, sender int) {
	cfg := e.Cfg()
	s := &scenario{e: e, start: time.Now()}
	defer s.flush()
	s.op(fmt.Sprintf("reset 0 %d", ltTimeout))
	s.op(fmt.Sprintf("cur %d", cur))
	miner := newTx()
	segs := []segment{{txs: []*types.Transaction{miner}, head: miner}}
	for _, k := range sizes {
		segs = append(segs, newSegment(cfg, k))
	}
	block := &types.Block{Version: 1, ParentHash: []byte("c34-parent"), BlockTime: 1700000000 + int64(txSeq), Height: height,
		Difficulty: 0x1f00ffff, StateHash: []byte("c34-state")}
	for _, sg := range segs {
		block.Txs = append(block.Txs, sg.txs...)
	}
	block.TxHash = merkle.CalcMerkleRoot(cfg, height, block.Txs)
	for _, t := range block.Txs {
		e.Reg.IDOf(t)
	}
	// an unrelated pool transaction indexed under the short hash of a block transaction (a 40-bit collision),
	// pushed first so that it wins: outside the hypothesis of rebuild_exact, model and code must still agree
	if collide > 0 && collide < len(segs) {
		other := newTx()
		line := fmt.Sprintf("pool push %s %d -", types.CalcTxShortHash(segs[collide].head.Hash()), e.Reg.IDOf(other))
		s.lines = append(s.lines, [2]string{line, e.ExecPoolPushTx(line, other, segs[collide].head.Hash())})
	}
	allPresent, anyNeverOrLate, anyLastMinute := true, false, false
	for i, sg := range segs[1:] {
		switch arr[i] {
		case present:
			s.push(sg)
		case late, never:
			anyNeverOrLate = true
			allPresent = false
		case lastMinute:
			anyLastMinute = true
			allPresent = false
		default:
			allPresent = false
		}
	}
	lb := e.LT.BuildLtBlock(block) // the real buildLtBlock
	raw := e.LT.EncodeMsg(lb)
	dec := e.LT.NewMsg("ltblk/v1.0")
	if err := e.LT.DecodeMsg(raw, dec); err != nil {
		s.pred("C34|pubsub.decodeMsg|honest-light-block-undecodable", err.Error())
		return
	}
	lbd := dec.(*types.LightBlock)
	key := "f" + e.Reg.Token(string(lbd.Header.Hash))
	var hs []string
	for _, h := range lbd.STxHashes {
		hs = append(hs, e.Reg.Token(h))
	}
	line := fmt.Sprintf("lt %s 1 %d %d %d %d %s", key, lbd.Header.Height, lbd.Header.TxCount, e.Reg.IDOf(lbd.MinerTx), sender, strings.Join(hs, ","))
	res := e.Exec(line, lbd)
	s.lines = append(s.lines, [2]string{line, res})
	what := fmt.Sprintf("block sizes=%v arrivals=%v height=%d cur=%d", sizes, arr, height, cur)
	posted := false
	requested := false
	check := func(when string) {
		for _, p := range e.LastPosts {
			posted = true
			if collide == 0 {
				if d := sameBlock(cfg, block, p.Block); d != "" {
					s.pred("C34|buildPendBlock|rebuilt-block-differs", when+": "+d+"; "+what)
				}
			}
		}
		for _, q := range e.LastReqs {
			if q == fmt.Sprintf("%d:%d", sender, height) {
				requested = true
			}
		}
	}
	check("receive")
	if collide == 0 {
		if allPresent && !posted {
			s.pred("C34|addLtBlock|not-rebuilt-although-all-available", res+"; "+what)
		}
		if !allPresent && posted {
			s.pred("C34|addLtBlock|posted-while-transactions-missing", res+"; "+what)
		}
	}
	if r.Bool() {
		s.op("tick")
		check("tick before any arrival")
	}
	// arrivals before the timeout, followed by a pass of the loop
	s.op("now 100000")
	for i, sg := range segs[1:] {
		if arr[i] == early {
			s.push(sg)
		}
	}
	res = s.op("tick")
	check("tick after early arrivals")
	if collide == 0 && !anyNeverOrLate && !anyLastMinute && !posted {
		s.pred("C34|pendBlockLoop|not-rebuilt-after-arrival", res+"; "+what)
	}
	if collide == 0 && (anyNeverOrLate || anyLastMinute) && posted {
		s.pred("C34|pendBlockLoop|posted-while-transactions-missing", res+"; "+what)
	}
	// arrivals still before the timeout (pending time 100 s of 250 s) — but the loop is late: its next pass
	// only runs when the timeout has passed. The pool is complete at that pass: the block must be rebuilt, not given up.
	for i, sg := range segs[1:] {
		if arr[i] == lastMinute {
			s.push(sg)
		}
	}
	s.op("now 290000")
	res = s.op("tick")
	check("pass after the timeout")
	if collide == 0 && !anyNeverOrLate {
		if !posted {
			s.pred("C34|buildPendList|complete-pool-not-rebuilt-at-late-pass", res+"; "+what)
		}
		if requested {
			s.pred("C34|buildPendList|full-block-requested-although-pool-complete", res+"; "+what)
		}
	}
	if collide == 0 && anyNeverOrLate {
		wantReq := height > cur
		switch {
		case wantReq && !requested:
			s.pred("C34|pendBlockLoop|no-full-block-request-after-timeout", res+"; "+what)
		case !wantReq && requested:
			s.pred("C34|pendBlockLoop|full-block-request-for-old-height", res+"; "+what)
		}
		if posted {
			s.pred("C34|pendBlockLoop|posted-while-transactions-missing", res+"; "+what)
		}
	}
	if collide == 0 && !strings.HasSuffix(res, "pend=0") {
		s.pred("C34|buildPendList|block-kept-after-timeout-pass", res+"; "+what)
	}
	// late arrivals: the block is gone, nothing may be posted any more
	for i, sg := range segs[1:] {
		if arr[i] == late {
			s.push(sg)
		}
	}
	res = s.op("tick")
	if len(e.LastPosts) > 0 && anyNeverOrLate && collide == 0 {
		s.pred("C34|pendBlockLoop|posted-after-timeout", res+"; "+what)
	}
	out.Stat(fmt.Sprintf("blocks_%dseg", len(sizes)), 1)
	if allPresent {
		out.Stat("all_present", 1)
	}
	if posted {
		out.Stat("rebuilt", 1)
	}
}

func main() {
	os.Stdout, _ = os.OpenFile(os.DevNull, os.O_WRONLY, 0)
	p2pexec.Logs.Install()
	defer out.Flush()
	e := p2pexec.New(pred)
	defer e.Close()
	r := gen.New(gen.Seed())
	if lines := gen.ReplayLines(); lines != nil {
		s := &scenario{e: e, start: time.Now()}
		for _, l := range lines {
			s.op(l)
		}
		s.flush()
		return
	}
	p2pexec.EmitSameBodyFacts(out.Op)
	// exhaustive small scope: every shape with up to maxSeg segments of size 1..3 × every arrival pattern
	maxSeg := gen.Scale(2, 3)
	shapes := [][]int{{}}
	for k := 1; k <= maxSeg; k++ {
		var gen2 func(prefix []int)
		gen2 = func(prefix []int) {
			if len(prefix) == k {
				shapes = append(shapes, append([]int(nil), prefix...))
				return
			}
			for sz := 1; sz <= 3; sz++ {
				gen2(append(prefix, sz))
			}
		}
		gen2(nil)
	}
	for _, sh := range shapes {
		n := 1
		for range sh {
			n *= nArrivals
		}
		for code := 0; code < n; code++ {
			arr := make([]arrival, len(sh))
			c := code
			for i := range arr {
				arr[i] = arrival(c % nArrivals)
				c /= nArrivals
			}
			cur := int64(10)
			height := []int64{11, 10, 9}[r.Intn(3)]
			runBlock(e, r, sh, arr, height, cur, 0, r.Intn(p2pexec.NPeers))
		}
	}
	// sampled larger blocks, groups up to 6, occasional short-hash collision
	for i := 0; i < gen.Scale(120, 4000); i++ {
		k := 1 + r.Intn(7)
		sizes := make([]int, k)
		arr := make([]arrival, k)
		for j := range sizes {
			sizes[j] = 1
			if r.Chance(2, 5) {
				sizes[j] = 2 + r.Intn(5)
			}
			arr[j] = arrival(r.Pick(6, 2, 1, 1, 2))
		}
		collide := 0
		if r.Chance(1, 10) {
			collide = 1 + r.Intn(k)
		}
		cur := int64(r.Intn(20))
		runBlock(e, r, sizes, arr, cur+int64(r.Intn(4))-1, cur, collide, r.Intn(p2pexec.NPeers))
	}
	out.Sample("real block (miner + singles + CreateTxGroup groups) → real buildLtBlock → wire → addLtBlock with a pool subset; late arrivals before/after the timeout; posted block compared byte for byte with the original")
}
