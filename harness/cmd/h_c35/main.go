// h_c35 — property C35 "block download delivers every servable height".
//
// Part A (scripted, deterministic, compared line by line with the Lean LTS drv_c35): the per-height workers
// of one download event are real goroutines running the real downloadBlock on ONE shared task slice; the
// fake host's NewStream blocks until the script decides what that fetch returns, so exactly one worker
// moves at a time and the interleaving is the script's. After the concurrent pass the failed heights go
// through the real checkTask (fresh task list, alone), as handleEventDownloadBlock does.
// Part B (real concurrency, predicate only): handleEventDownloadBlock itself against peers with generated
// behaviour (refuse, malformed, wrong header, empty, wrong height, partial availability, stall).
//
// Property predicates evaluated on the implementation (#PRED):
//   C35|downloadBlock|failed-peer-asked-again        a worker asks a peer again that already failed its height
//   C35|downloadBlockFromPeerOld|wrong-height-accepted   a block of another height is delivered as success
//   C35|downloadBlockFromPeerOld|read-without-deadline   a silent peer blocks the worker with no deadline armed
//   C35|handleEventDownloadBlock|servable-height-not-delivered
package main

import (
	"context"
	"errors"
	"fmt"
	"go/ast"
	"go/parser"
	"go/token"
	"os"
	"path/filepath"
	"sort"
	"strings"
	"sync"
	"time"

	"github.com/33cn/chain33/system/p2p/dht/protocol/download"
	"github.com/33cn/chain33/types"
	"github.com/libp2p/go-libp2p/core/network"
	"github.com/libp2p/go-libp2p/core/peer"
	libproto "github.com/libp2p/go-libp2p/core/protocol"

	"verifharness/internal/gen"
	"verifharness/internal/p2pv"
	_ "verifharness/internal/quiet"
)

var out = gen.NewOut()

var nPred = map[string]int{}

var realTimeStalls int // thorough tier: the first two silent-peer cases are also watched for 11 s of real time

func pred(sig, detail string) {
	nPred[sig]++
	if nPred[sig] <= 3 {
		out.Pred(sig, detail)
	}
	out.Stat("pred:"+sig, 1)
}

const longWait = 120 * time.Second // deadlock guard only; nothing is decided by it on a healthy run

// ---------------------------------------------------------------- environment

type decision struct {
	refuse bool
	stall  bool
	bytes  []byte
}

type event struct {
	kind   string // dial | done
	peer   int
	err    error
	decide chan decision
	stream *p2pv.FakeStream
}

type env struct {
	w      *p2pv.World
	fh     *p2pv.FakeHost
	pinfo  *p2pv.PeerInfo
	p      *download.Protocol
	peers  []peer.ID
	pids   []string
	events chan *event
	auto   func(p int, height int64) decision // Part B: behaviour table; nil in Part A
	mu     sync.Mutex
	asks   map[[2]int64]int // (peer, height) -> number of requests seen (Part B)
	stalls []*p2pv.FakeStream
}

func newEnv(npeers int) *env {
	e := &env{events: make(chan *event, 1024), asks: map[[2]int64]int{}}
	e.fh = p2pv.NewFakeHost(41)
	e.w = p2pv.NewWorld(p2pv.Options{Host: e.fh, NoPubsub: true})
	e.pinfo = p2pv.NewPeerInfo()
	e.w.Env.PeerInfoManager = e.pinfo
	e.p = download.VerifNew(e.w.Env)
	e.peers = p2pv.PeerIDs(4242, npeers)
	for _, id := range e.peers {
		e.pids = append(e.pids, id.Pretty())
		e.pinfo.Set(id, 1000000)
	}
	e.fh.SetDial(e.dial)
	return e
}

func (e *env) peerNo(id peer.ID) int {
	for i, p := range e.peers {
		if p == id {
			return i
		}
	}
	return -1
}

func reqHeight(written []byte) int64 {
	var req types.MessageGetBlocksReq
	if err := p2pv.Unframe(written, &req); err != nil || req.Message == nil {
		return -1
	}
	return req.Message.StartHeight
}

func (e *env) dial(ctx context.Context, id peer.ID, proto libproto.ID) (network.Stream, error) {
	pn := e.peerNo(id)
	s := p2pv.NewFakeStream(id, proto)
	if e.auto != nil { // Part B: the reply depends on the requested height, known when the request is written
		if d := e.auto(pn, -1); d.refuse {
			return nil, errors.New("verif: connection refused")
		}
		s.Respond = func(written []byte) []byte {
			h := reqHeight(written)
			e.mu.Lock()
			e.asks[[2]int64{int64(pn), h}]++
			e.mu.Unlock()
			d := e.auto(pn, h)
			if d.stall {
				s.Stall = true
				e.mu.Lock()
				e.stalls = append(e.stalls, s)
				e.mu.Unlock()
				return nil
			}
			return d.bytes
		}
		return s, nil
	}
	ev := &event{kind: "dial", peer: pn, decide: make(chan decision, 1), stream: s}
	e.events <- ev
	d := <-ev.decide
	if d.refuse {
		return nil, errors.New("verif: connection refused")
	}
	if d.stall {
		s.Stall = true
		return s, nil
	}
	s.Respond = func([]byte) []byte { return d.bytes }
	return s, nil
}

func (e *env) next() *event {
	select {
	case ev := <-e.events:
		return ev
	case <-time.After(longWait):
		fmt.Fprintln(os.Stderr, "h_c35: no event from the worker within the deadlock guard")
		out.Flush()
		os.Exit(4)
	}
	return nil
}

func okReply(h int64, extra int) []byte {
	r := &types.MessageGetBlocksResp{Message: &types.InvDatas{}}
	for i := 0; i <= extra; i++ {
		r.Message.Items = append(r.Message.Items, &types.InvData{Ty: 2, Value: &types.InvData_Block{
			Block: &types.Block{Height: h + int64(i), TxHash: []byte("verif")}}})
	}
	return p2pv.Frame(r)
}

const nFailKinds = 8

// failReply returns one of the malformed / empty reply shapes (kind 0 is "refuse")
func failDecision(kind int) decision {
	if forcedFailKind >= 0 {
		kind = forcedFailKind
	}
	switch kind % nFailKinds {
	case 6:
		// a well-formed response whose first item carries nothing (nil oneof)
		return decision{bytes: p2pv.Frame(&types.MessageGetBlocksResp{Message: &types.InvDatas{Items: []*types.InvData{{Ty: 2}}}})}
	case 7:
		// no Message at all
		return decision{bytes: p2pv.Frame(&types.MessageGetBlocksResp{})}
	case 0:
		return decision{refuse: true}
	case 1:
		return decision{bytes: []byte{0x10, '/', 'p', 'r'}} // truncated header
	case 2:
		b := okReply(1, 0)
		b[4] ^= 0x33 // header mismatch: ReadStream returns nil with the zero message
		return decision{bytes: b}
	case 3:
		return decision{bytes: p2pv.Frame(&types.MessageGetBlocksResp{Message: &types.InvDatas{}})} // no items
	case 4:
		return decision{bytes: p2pv.Frame(&types.MessageGetBlocksResp{Message: &types.InvDatas{Items: []*types.InvData{{Ty: 1,
			Value: &types.InvData_Tx{Tx: &types.Transaction{Payload: []byte("x")}}}}}})} // not a block
	default:
		b := okReply(1, 0)
		return decision{bytes: append(b[:17:17], 0xff, 0xff, 0xff, 0xff, 0x01)} // absurd length prefix
	}
}

// ---------------------------------------------------------------- Part A: scripted workers

type worker struct {
	height  int64
	pending *event // the dial waiting for a decision
	done    bool
	result  string
	asked   []int
	failed  map[int]bool
}

type scripted struct {
	e       *env
	npeers  int
	ws      []*worker
	tasks   download.VerifTasks
	mu      sync.Mutex
	r       *gen.Rand
	lines   [][2]string
	current int
}

func (s *scripted) op(line, res string) { s.lines = append(s.lines, [2]string{line, res}) }

func (s *scripted) flush() {
	for _, l := range s.lines {
		out.Op(l[0], l[1])
	}
	out.Stat("ops", int64(len(s.lines)))
	s.lines = nil
}

func errKind(err error) string {
	switch {
	case err == nil:
		return "nil"
	case strings.Contains(err.Error(), "no peer"):
		return "nopeer"
	case strings.Contains(err.Error(), "max try"):
		return "toomany"
	}
	return "err:" + err.Error()
}

// observe waits for what worker w does next: asks a peer, or returns
func (s *scripted) observe(w int, wk *worker) string {
	ev := s.e.next()
	switch ev.kind {
	case "dial":
		wk.pending = ev
		if wk.failed[ev.peer] {
			pred("C35|downloadBlock|failed-peer-asked-again",
				fmt.Sprintf("worker for height %d asks peer %d again after it failed that height (asked so far %v)", wk.height, ev.peer, wk.asked))
		}
		wk.asked = append(wk.asked, ev.peer)
		return fmt.Sprintf("ask %d", ev.peer)
	case "done":
		wk.done = true
		wk.pending = nil
		k := errKind(ev.err)
		if k == "nil" {
			posts := s.takeSync()
			if len(posts) != 1 {
				return fmt.Sprintf("delivered-%d-blocks", len(posts))
			}
			if posts[0].Block == nil {
				pred("C35|downloadBlock|nil-block-handed-to-blockchain",
					fmt.Sprintf("requested height %d: the reply carried no block, downloadBlock returned success and posted a nil block (asked %v)", wk.height, wk.asked))
				wk.result = "delivered-nil-block"
				return wk.result
			}
			h := posts[0].Block.Height
			if h != wk.height {
				pred("C35|downloadBlockFromPeerOld|wrong-height-accepted",
					fmt.Sprintf("requested height %d, peer answered with a block of height %d, downloadBlock returned success and posted it", wk.height, h))
			}
			wk.result = fmt.Sprintf("delivered %d", h)
			return wk.result
		}
		wk.result = k
		return k
	}
	return "unknown-event"
}

func (s *scripted) takeSync() []p2pv.BlockPost {
	s.e.w.SyncLow("blockchain")
	return s.e.w.TakePosts()
}

func (s *scripted) start(w int, alone bool) string {
	wk := s.ws[w]
	go func() {
		var err error
		if alone {
			// what checkTask does for a failed height: fresh initJob, downloadBlock without the mutex
			s.tasks = s.e.p.VerifInitJob(s.e.pids[:s.npeers], "verif-task")
			err = s.e.p.VerifDownloadBlock(wk.height, s.tasks, nil)
		} else {
			err = s.e.p.VerifDownloadBlock(wk.height, s.tasks, &s.mu)
		}
		s.e.events <- &event{kind: "done", err: err}
	}()
	return s.observe(w, wk)
}

func (s *scripted) reply(w int, d decision) string {
	wk := s.ws[w]
	ev := wk.pending
	wk.pending = nil
	ev.decide <- d
	return s.observe(w, wk)
}

// arr shows the shared backing array (through the full-length slice header the script kept) and the TaskNum
// counter of every peer still in it
func (s *scripted) arr() string {
	var l, tn []string
	seen := map[int]bool{}
	var present []int
	for _, t := range s.tasks {
		pn := s.e.peerNo(t.Pid)
		l = append(l, fmt.Sprint(pn))
		if !seen[pn] {
			seen[pn] = true
			present = append(present, pn)
		}
	}
	if len(l) == 0 {
		return "-"
	}
	sort.Ints(present)
	for _, pn := range present {
		for _, t := range s.tasks {
			if s.e.peerNo(t.Pid) == pn {
				tn = append(tn, fmt.Sprintf("%d:%d", pn, t.TaskNum))
				break
			}
		}
	}
	return strings.Join(l, ",") + " tn=" + strings.Join(tn, ",")
}

// cloneFact re-reads download.go: does downloadBlock work on its own copy of the task list (tasks = tasks.clone())
// and remove failed peers with tasks.drop (not the index-based Remove)?
func cloneFact() string {
	dir := os.Getenv("VERIF_REPO")
	if dir == "" {
		dir = "/repo"
	}
	fset := token.NewFileSet()
	f, err := parser.ParseFile(fset, filepath.Join(dir, "system/p2p/dht/protocol/download/download.go"), nil, 0)
	if err != nil {
		return "unreadable"
	}
	clone, drop, remove := false, false, false
	ast.Inspect(f, func(n ast.Node) bool {
		fd, ok := n.(*ast.FuncDecl)
		if !ok || fd.Name.Name != "downloadBlock" {
			return true
		}
		ast.Inspect(fd, func(m ast.Node) bool {
			switch x := m.(type) {
			case *ast.AssignStmt:
				if len(x.Lhs) == 1 && len(x.Rhs) == 1 {
					if id, ok := x.Lhs[0].(*ast.Ident); ok && id.Name == "tasks" {
						if c, ok := x.Rhs[0].(*ast.CallExpr); ok {
							if sel, ok := c.Fun.(*ast.SelectorExpr); ok {
								if r, ok := sel.X.(*ast.Ident); ok && r.Name == "tasks" {
									switch sel.Sel.Name {
									case "clone":
										clone = true
									case "drop":
										drop = true
									case "Remove":
										remove = true
									}
								}
							}
						}
					}
				}
			}
			return true
		})
		return false
	})
	if clone && drop && !remove {
		return "1"
	}
	return "0"
}

// forcedFailKind >= 0 makes every failing reply of a scripted scenario use that malformed shape
var forcedFailKind = -1

func runScriptedKinds(e *env, r *gen.Rand, npeers int, heights []int64, beh behaviour, kind int) {
	forcedFailKind = kind
	defer func() { forcedFailKind = -1 }()
	runScripted(e, r, npeers, heights, beh, func(f []int) int { return 0 }, 0, nil)
}

// beh: what peer p does with a request for height h: -1 fail, otherwise the height of the block it returns
type behaviour func(p int, h int64) int64

func runScripted(e *env, r *gen.Rand, npeers int, heights []int64, beh behaviour, order func(fetching []int) int, stallAt int, announced map[int]int64) {
	s := &scripted{e: e, r: r, npeers: npeers}
	e.auto = nil
	for i, id := range e.peers {
		h := int64(1000000)
		if i >= npeers {
			h = -5 // not part of this scenario
		}
		if a, ok := announced[i]; ok && i < npeers {
			h = a
		}
		e.pinfo.Set(id, h)
	}
	phOps := func(sc *scripted) {
		for i := 0; i < npeers; i++ {
			if a, ok := announced[i]; ok {
				sc.op(fmt.Sprintf("ph %d %d", i, a), "ok")
			}
		}
	}
	pids := e.pids[:npeers]
	s.tasks = e.p.VerifInitJob(pids, "verif-task")
	var hs []string
	for _, h := range heights {
		s.ws = append(s.ws, &worker{height: h, failed: map[int]bool{}})
		hs = append(hs, fmt.Sprint(h))
	}
	s.op(fmt.Sprintf("init %d %s", npeers, strings.Join(hs, ",")), "ok")
	phOps(s)
	e.w.TakePosts()
	for w := range s.ws {
		s.op(fmt.Sprintf("start %d", w), s.start(w, false))
	}
	steps := 0
	for {
		var fetching []int
		for w, wk := range s.ws {
			if wk.pending != nil {
				fetching = append(fetching, w)
			}
		}
		if len(fetching) == 0 {
			break
		}
		w := fetching[order(fetching)]
		wk := s.ws[w]
		p := wk.pending.peer
		steps++
		if steps == stallAt {
			// the peer accepts the stream and stays silent: does the worker arm any deadline?
			st := wk.pending.stream
			wk.pending.decide <- decision{stall: true}
			res := "bounded"
			select {
			case <-st.Blocked:
				if d := st.Deadline(); !st.HadDeadline() || time.Until(d) > 10*time.Minute {
					res = "unbounded"
					pred("C35|downloadBlockFromPeerOld|read-without-deadline",
						fmt.Sprintf("height %d: the worker reads the reply of a silent peer with no stream deadline set (the 10 s context only covers NewStream)", wk.height))
				}
			case <-time.After(longWait):
				res = "never-read"
			}
			if gen.Thorough() && res == "unbounded" && realTimeStalls < 2 {
				realTimeStalls++
				// real time: still blocked after the 10 s dial context has expired
				time.Sleep(11 * time.Second)
				select {
				case ev := <-e.events:
					e.events <- ev
					res = "returned-within-11s"
				default:
					out.Stat("stall_still_blocked_after_11s", 1)
				}
			}
			s.op("stall", res)
			st.Release()
			wk.failed[p] = true
			s.op(fmt.Sprintf("reply %d fail", w), s.observe(w, wk))
			continue
		}
		got := beh(p, wk.height)
		if got < 0 {
			wk.failed[p] = true
			s.op(fmt.Sprintf("reply %d fail", w), s.reply(w, failDecision(r.Intn(nFailKinds))))
		} else {
			if got != wk.height {
				wk.failed[p] = true // if the code rejects the block, p has failed this height
			}
			s.op(fmt.Sprintf("reply %d ok %d", w, got), s.reply(w, decision{bytes: okReply(got, r.Intn(2))}))
		}
		if r.Chance(1, 3) {
			s.op("arr", s.arr())
		}
	}
	s.op("arr", s.arr())
	// the re-download pass of handleEventDownloadBlock: checkTask for every failed height, alone, fresh list
	delivered := map[int64]bool{}
	wrongAccepted := map[int64]bool{} // requested heights whose worker accepted a block of another height
	var failedH []int
	for w, wk := range s.ws {
		if strings.HasPrefix(wk.result, "delivered ") {
			var h int64
			fmt.Sscanf(wk.result, "delivered %d", &h)
			delivered[h] = true
			if h != wk.height {
				wrongAccepted[wk.height] = true
			}
		} else {
			failedH = append(failedH, w)
		}
	}
	for _, w := range failedH {
		old := s.ws[w]
		s2 := &scripted{e: e, r: r, npeers: npeers, lines: s.lines}
		s2.ws = []*worker{{height: old.height, failed: map[int]bool{}}}
		s2.op(fmt.Sprintf("init %d %d", npeers, old.height), "ok")
		phOps(s2)
		s2.op("start 0", s2.start(0, true))
		for s2.ws[0].pending != nil {
			wk := s2.ws[0]
			p := wk.pending.peer
			got := beh(p, wk.height)
			if got < 0 {
				wk.failed[p] = true
				s2.op("reply 0 fail", s2.reply(0, failDecision(r.Intn(nFailKinds))))
			} else {
				if got != wk.height {
					wk.failed[p] = true
				}
				s2.op(fmt.Sprintf("reply 0 ok %d", got), s2.reply(0, decision{bytes: okReply(got, 0)}))
			}
		}
		if strings.HasPrefix(s2.ws[0].result, "delivered ") {
			var h int64
			fmt.Sscanf(s2.ws[0].result, "delivered %d", &h)
			delivered[h] = true
			if h != old.height {
				wrongAccepted[old.height] = true
			}
		}
		s.lines = s2.lines
		out.Stat("redownload_pass", 1)
	}
	// the property on the implementation: every height some peer serves correctly is delivered
	for _, wk := range s.ws {
		servable := false
		for p := 0; p < npeers; p++ {
			a, low := announced[p]
			if beh(p, wk.height) == wk.height && !(low && a < wk.height) {
				servable = true
			}
		}
		if servable && !delivered[wk.height] && npeers > 50 {
			// more than 50 peers: the 50-try bound of downloadBlock may legitimately bind (Lean: event_needs_at_most_50_failing_peers)
			out.Stat("undelivered_beyond_50_peer_bound", 1)
			continue
		}
		if servable && !delivered[wk.height] && !wrongAccepted[wk.height] {
			pred("C35|handleEventDownloadBlock|servable-height-not-delivered",
				fmt.Sprintf("height %d is served by a peer but was not delivered (workers %d, peers %d)", wk.height, len(s.ws), npeers))
		}
		if servable {
			out.Stat("servable_heights", 1)
		}
	}
	s.flush()
	out.Stat("scenario_scripted", 1)
}

// ---------------------------------------------------------------- Part B: real concurrency

func runStress(e *env, r *gen.Rand, npeers int, start, end int64, beh behaviour, stallPeer int) {
	e.mu.Lock()
	e.asks = map[[2]int64]int{}
	e.stalls = nil
	e.mu.Unlock()
	for i, id := range e.peers {
		h := int64(1000000)
		if i >= npeers {
			h = -5
		}
		e.pinfo.Set(id, h)
	}
	seed := r.U64()
	e.auto = func(p int, h int64) decision {
		if h < 0 {
			return decision{}
		}
		if p == stallPeer && h%3 == 0 {
			return decision{stall: true}
		}
		got := beh(p, h)
		if got < 0 {
			k := int((seed+uint64(p)*31+uint64(h)*7)%(nFailKinds-1)) + 1 // every failure shape except refuse
			return failDecision(k)
		}
		return decision{bytes: okReply(got, int(uint64(h)%2))}
	}
	e.w.TakePosts()
	msg := e.w.Env.QueueClient.NewMessage("p2p", types.EventFetchBlocks, &types.ReqBlocks{Start: start, End: end, Pid: e.pids[:npeers]})
	done := make(chan struct{})
	go func() { e.p.VerifHandleEvent(msg); close(done) }()
	// release stalled reads once they are observed (a silent peer eventually drops the connection)
	stop := make(chan struct{})
	go func() {
		for {
			select {
			case <-stop:
				return
			case <-time.After(20 * time.Millisecond):
			}
			e.mu.Lock()
			st := e.stalls
			e.stalls = nil
			e.mu.Unlock()
			for _, s := range st {
				select {
				case <-s.Blocked:
				case <-time.After(longWait):
				}
				if d := s.Deadline(); !s.HadDeadline() || time.Until(d) > 10*time.Minute {
					pred("C35|downloadBlockFromPeerOld|read-without-deadline", "concurrent run: reply of a silent peer read with no deadline")
				}
				s.Release()
			}
		}
	}()
	select {
	case <-done:
	case <-time.After(longWait * 2):
		pred("C35|handleEventDownloadBlock|task-did-not-terminate", fmt.Sprintf("range %d..%d peers %d", start, end, npeers))
		close(stop)
		return
	}
	close(stop)
	e.w.SyncLow("blockchain")
	got := map[int64]bool{}
	for _, p := range e.w.TakePosts() {
		if p.Block == nil {
			pred("C35|downloadBlock|nil-block-handed-to-blockchain", fmt.Sprintf("concurrent run %d..%d: a nil block was posted", start, end))
			continue
		}
		got[p.Block.Height] = true
	}
	var missing []int64
	for h := start; h <= end; h++ {
		servable := false
		for p := 0; p < npeers; p++ {
			if beh(p, h) == h && !(p == stallPeer && h%3 == 0) {
				servable = true
			}
		}
		if servable {
			out.Stat("stress_servable", 1)
			if !got[h] {
				missing = append(missing, h)
			}
		}
	}
	if len(missing) > 0 {
		pred("C35|handleEventDownloadBlock|servable-height-not-delivered", fmt.Sprintf("concurrent run: heights %v served by a peer but not delivered (range %d..%d, %d peers)", missing, start, end, npeers))
	}
	e.mu.Lock()
	var over []string
	for k, n := range e.asks {
		if n > 1 {
			out.Stat("stress_pair_asked_more_than_once", 1)
		}
		if n > 2 { // one request in the concurrent pass and one in the re-download pass are by design
			over = append(over, fmt.Sprintf("peer%d/h%d×%d", k[0], k[1], n))
		}
	}
	e.mu.Unlock()
	sort.Strings(over)
	if len(over) > 0 {
		pred("C35|downloadBlock|failed-peer-asked-again", "concurrent run: "+strings.Join(over, " "))
	}
	out.Stat("scenario_stress", 1)
	out.Stat("stress_heights", end-start+1)
}

// ---------------------------------------------------------------- main

func main() {
	defer out.Flush()
	const maxPeers = 8
	e := newEnv(maxPeers)
	defer e.w.Close()
	r := gen.New(gen.Seed())
	if lines := gen.ReplayLines(); lines != nil {
		replay(e, r, lines)
		return
	}
	out.Op("fact worker-clones-list", cloneFact())
	// regression schedule (Lean: old_reask_witness / reask_schedule_now): peers [A,B]; A fails height 1; the worker for
	// height 2 starts after the first worker removed A — before repair eac7298 it then found B twice in its view
	replay(e, r, witnessReask)
	// witness 2: wrong height accepted
	runScripted(e, r, 1, []int64{7}, func(p int, h int64) int64 { return h + 100 }, func(f []int) int { return 0 }, 0, nil)
	// witness 3: silent peer
	runScripted(e, r, 2, []int64{4}, func(p int, h int64) int64 { return h }, func(f []int) int { return 0 }, 1, nil)
	// height 0 with every malformed reply shape in turn from the first peers, the last peer serves
	for k := 0; k < nFailKinds; k++ {
		kk := k
		runScriptedKinds(e, r, 2, []int64{0}, func(p int, h int64) int64 {
			if p == 0 {
				return -1
			}
			return h
		}, kk)
	}
	// 52 peers (latencies recorded in list order, so Sort keeps it), the first 51 fail, the last serves: both passes
	// use up their 50 tries (Lean witness event_needs_at_most_50_failing_peers)
	{
		e52 := newEnv(52)
		for i, id := range e52.peers {
			e52.fh.Peerstore().RecordLatency(id, time.Duration(i+1)*time.Millisecond)
		}
		runScripted(e52, r, 52, []int64{7}, func(p int, h int64) int64 {
			if p < 51 {
				return -1
			}
			return h
		}, func(f []int) int { return 0 }, 0, nil)
		e52.w.Close()
	}
	// eight peers that all fail: eight tries, then "no peer" (well below the limit of 50 tries)
	runScripted(e, r, 8, []int64{3}, func(p int, h int64) int64 { return -1 }, func(f []int) int { return 0 }, 0, nil)
	n := gen.Scale(150, 4000)
	for i := 0; i < n; i++ {
		npeers := 1 + r.Intn(5)
		nh := 1 + r.Intn(5)
		var hs []int64
		base := int64(r.Intn(50))
		if r.Chance(1, 3) {
			base = 0 // height 0 is a height like any other
		}
		for j := 0; j < nh; j++ {
			hs = append(hs, base+int64(j))
		}
		tab := map[[2]int64]int64{}
		mode := r.Intn(4)
		for p := 0; p < npeers; p++ {
			for _, h := range hs {
				v := h
				switch {
				case r.Chance(2+mode, 8):
					v = -1
				case mode == 3 && r.Chance(1, 10):
					v = h + int64(1+r.Intn(3)) // wrong height
				}
				tab[[2]int64{int64(p), h}] = v
			}
		}
		stallAt := 0
		if r.Chance(1, 12) {
			stallAt = 1 + r.Intn(4)
		}
		// now and then one peer announces a height at / below / between the requested ones; the last peer then
		// serves everything, so that no worker ends up sleeping on a list of peers that are all too low
		var announced map[int]int64
		if npeers >= 2 && r.Chance(1, 5) {
			announced = map[int]int64{r.Intn(npeers - 1): base + int64(r.Intn(nh+1)) - 1}
			for _, h := range hs {
				tab[[2]int64{int64(npeers - 1), h}] = h
			}
		}
		runScripted(e, r, npeers, hs, func(p int, h int64) int64 { return tab[[2]int64{int64(p), h}] },
			func(f []int) int { return r.Intn(len(f)) }, stallAt, announced)
	}
	for i := 0; i < gen.Scale(25, 400); i++ {
		npeers := 1 + r.Intn(6)
		start := int64(r.Intn(100))
		if r.Chance(1, 3) {
			start = 0
		}
		end := start + int64(r.Intn(30))
		seed := r.U64()
		bad := r.Intn(5)
		beh := func(p int, h int64) int64 {
			x := (seed ^ uint64(p)*0x9e3779b97f4a7c15 ^ uint64(h)*0xbf58476d1ce4e5b9) * 0x94d049bb133111eb
			if int(x>>60)%8 < bad {
				return -1
			}
			return h
		}
		stallPeer := -1
		if r.Chance(1, 5) {
			stallPeer = r.Intn(npeers)
		}
		runStress(e, r, npeers, start, end, beh, stallPeer)
	}
	out.Sample("scripted: init <peers> <heights>; start <w>; reply <w> ok <h>|fail; arr — real goroutines on one shared task slice, the script decides which fetch returns next; then checkTask alone for failed heights")
}

var witnessReask = []string{
	"init 2 1,2", "start 0", "reply 0 fail", "start 1", "arr", "reply 1 fail", "reply 1 fail", "reply 0 ok 1",
	"init 2 2 alone", "start 0", "reply 0 ok 2",
}

// replay executes op lines literally (corpus): behaviour comes from the reply lines
func replay(e *env, r *gen.Rand, lines []string) {
	var s *scripted
	e.auto = nil
	alone := false
	for _, l := range lines {
		f := strings.Fields(l)
		if len(f) == 0 {
			continue
		}
		switch f[0] {
		case "init":
			var n int
			fmt.Sscan(f[1], &n)
			for i, id := range e.peers {
				h := int64(1000000)
				if i >= n {
					h = -5
				}
				e.pinfo.Set(id, h)
			}
			if s != nil {
				s.flush()
			}
			s = &scripted{e: e, r: r, npeers: n}
			s.tasks = e.p.VerifInitJob(e.pids[:n], "verif-task")
			for _, w := range strings.Split(f[2], ",") {
				var h int64
				fmt.Sscan(w, &h)
				s.ws = append(s.ws, &worker{height: h, failed: map[int]bool{}})
			}
			alone = len(f) > 3 && f[3] == "alone"
			e.w.TakePosts()
			s.op(strings.Join(f[:3], " "), "ok")
		case "start":
			var w int
			fmt.Sscan(f[1], &w)
			s.op(l, s.start(w, alone))
		case "reply":
			var w int
			fmt.Sscan(f[1], &w)
			if w >= len(s.ws) || s.ws[w].pending == nil {
				s.op(l, "not-enabled")
				continue
			}
			wk := s.ws[w]
			if f[2] == "fail" {
				wk.failed[wk.pending.peer] = true
				s.op(l, s.reply(w, failDecision(1+r.Intn(nFailKinds-1))))
			} else {
				var h int64
				fmt.Sscan(f[3], &h)
				if h != wk.height {
					wk.failed[wk.pending.peer] = true
				}
				s.op(l, s.reply(w, decision{bytes: okReply(h, 0)}))
			}
		case "arr":
			s.op(l, s.arr())
		default:
			s.op(l, "bad-op")
		}
	}
	if s != nil {
		s.flush()
	}
}
