// h_c36 drives the real message bus (queue.New / Client) of /repo.
//
// Part A (scripted, deterministic, compared line by line with the Lean LTS): one driver goroutine
// performs NewMessage / Send / Recv / Reply / Wait / FreeMessage / Close steps on real queue
// objects; message objects are identified by pointer (so pool recycling is observed, not predicted),
// blocked calls are detected with a deadline and reported as `blocked`.
// Part B (concurrent, predicate only): many requesters and responders with timeouts and recycling,
// then a close; every reply must carry the tag of the request that waited for it, and every call
// must return after the close.
//
// Property predicates (C36) are evaluated on the implementation itself (#PRED lines).
package main

import (
	"fmt"
	"strings"
	"sync"
	"sync/atomic"
	"time"

	"github.com/33cn/chain33/queue"
	"github.com/33cn/chain33/types"

	"verifharness/internal/gen"
	_ "verifharness/internal/quiet"
)

var out = gen.NewOut()

const topic = "verif-topic"

type tag struct{ obj, gen int }

func (t tag) String() string { return fmt.Sprintf("%d:%d", t.obj, t.gen) }

type payload struct{ t tag } // what a responder puts into its answer: the request it answers

type world struct {
	q       queue.Queue
	req     queue.Client
	sub     queue.Client
	ids     map[*queue.Message]int
	objs    []*queue.Message
	gen     []int // generation per object id (requester's view)
	held    map[tag]*queue.Message
	blocked map[tag]chan error
	closed  bool
	// the requester's own client: subscribed a private topic (only then does its Close do anything) / closed
	reqSubbed bool
	reqClosed bool
}

const reqTopic = "verif-req-private"

var cfg *types.Chain33Config

func newWorld(withSub bool) *world {
	if cfg == nil {
		cfg = types.NewChain33Config(types.GetDefaultCfgstring())
	}
	w := &world{ids: map[*queue.Message]int{}, held: map[tag]*queue.Message{}, blocked: map[tag]chan error{}}
	w.q = queue.New("verif")
	w.q.SetConfig(cfg)
	w.req = w.q.Client()
	if withSub {
		w.sub = w.q.Client()
		w.sub.Sub(topic)
	}
	out.Op("reset", "ok")
	return w
}

func (w *world) id(m *queue.Message) int {
	if i, ok := w.ids[m]; ok {
		return i
	}
	i := len(w.objs)
	w.ids[m] = i
	w.objs = append(w.objs, m)
	w.gen = append(w.gen, 0)
	return i
}

// deadlines for "does this call return?": a call that is expected to return gets the long deadline
// (robust under machine load); only a call that the scenario expects to block uses the short one
const blockWait = 300 * time.Millisecond
const longWait = 10 * time.Second
const closeWait = 3 * time.Second

func errName(err error) string {
	switch err {
	case nil:
		return "ok"
	case types.ErrChannelClosed, queue.ErrIsQueueClosed:
		return "closed"
	case queue.ErrQueueChannelFull:
		return "full"
	case queue.ErrQueueTimeout:
		return "timeout"
	}
	return "err:" + err.Error()
}

func (w *world) opNew() int {
	m := w.req.NewMessage(topic, 1, nil)
	i := w.id(m)
	w.gen[i]++
	m.Data = &payload{tag{i, w.gen[i]}}
	out.Op(fmt.Sprintf("new %d", i), "ok")
	return i
}

func b01(b bool) int {
	if b {
		return 1
	}
	return 0
}

// send with the blocking API (timeout -1), in a goroutine so that a blocked call is observable
func (w *world) opSend(i int, sync bool) string { return w.opSendX(i, sync, false) }

func (w *world) opSendX(i int, sync bool, expectBlock bool) string {
	m := w.objs[i]
	t := tag{i, w.gen[i]}
	ch := make(chan error, 1)
	go func() {
		defer func() {
			if r := recover(); r != nil {
				ch <- fmt.Errorf("panic: %v", r)
			}
		}()
		ch <- w.req.Send(m, sync)
	}()
	res := ""
	wait := longWait
	if expectBlock {
		wait = blockWait
	}
	select {
	case err := <-ch:
		res = errName(err)
	case <-time.After(wait):
		res = "blocked"
		w.blocked[t] = ch
	}
	out.Op(fmt.Sprintf("send %d %d", i, b01(sync)), res)
	if strings.HasPrefix(res, "err:panic") {
		out.Pred("C36|Send|panic", res)
	}
	// a send begun after a close has returned must fail (property: "returns an error")
	if res == "ok" && w.reqClosed {
		out.Pred("C36|Send|ok-after-client-close", fmt.Sprintf("Send(%d, sync=%v) returned nil after the sender's own client was closed", i, sync))
	}
	if res == "ok" && w.closed {
		out.Pred("C36|Send|ok-after-close", fmt.Sprintf("Send(%d, sync=%v) returned nil after the topic/queue was closed", i, sync))
	}
	return res
}

func (w *world) opUnblock(t tag, sync bool, afterClose bool) string {
	ch := w.blocked[t]
	res := ""
	wait := blockWait
	if afterClose {
		wait = closeWait
	}
	select {
	case err := <-ch:
		res = errName(err)
		delete(w.blocked, t)
	case <-time.After(wait):
		res = "still-blocked"
	}
	out.Op(fmt.Sprintf("unblock %s %d", t, b01(sync)), res)
	if afterClose && res == "still-blocked" {
		site := "queue.send"
		if !sync {
			site = "queue.sendLowTimeout"
		}
		out.Pred("C36|"+site+"|blocked-after-close", fmt.Sprintf("sender of %s (sync=%v) still blocked %v after the queue was closed", t, sync, closeWait))
	}
	return res
}

func (w *world) opRecv(high bool) (tag, bool) {
	select {
	case m := <-w.sub.Recv():
		p, ok := m.Data.(*payload)
		if !ok {
			out.Op(fmt.Sprintf("recv %d", b01(high)), "unexpected-message")
			return tag{}, false
		}
		w.held[p.t] = m
		out.Op(fmt.Sprintf("recv %d", b01(high)), p.t.String())
		return p.t, true
	case <-time.After(longWait):
		out.Op(fmt.Sprintf("recv %d", b01(high)), "not-enabled")
		return tag{}, false
	}
}

func (w *world) opReply(t tag) {
	m := w.held[t]
	delete(w.held, t)
	// the answer is an ordinary (non-pooled) message carrying the tag of the request it answers
	r := queue.NewMessage(0, "", 2, &payload{t})
	done := make(chan struct{})
	go func() { m.Reply(r); close(done) }()
	res := "ok"
	select {
	case <-done:
	case <-time.After(longWait):
		res = "not-enabled" // buffer full: the responder blocks
	}
	out.Op("reply "+t.String(), res)
}

// wait: returns the op actually performed ("wait" with the obtained tag, or "timeout")
func (w *world) opWait(i int, expectOwn bool) string {
	m := w.objs[i]
	var r *queue.Message
	var err error
	// after a close the wait must come back with an error by itself: give it a long deadline, so that a
	// wait that would block (Wait = WaitTimeout(-1)) is told apart from one that returns `closed`
	d := 30 * time.Millisecond
	if w.closed || w.reqClosed {
		d = closeWait
	}
	res := gen.Guard(func() string {
		r, err = w.req.WaitTimeout(m, d)
		return ""
	})
	if res == "panic" {
		out.Op(fmt.Sprintf("wait %d", i), "panic")
		out.Pred("C36|WaitTimeout|panic", fmt.Sprintf("obj %d", i))
		return "panic"
	}
	if err == queue.ErrQueueTimeout {
		if w.closed || w.reqClosed {
			out.Op(fmt.Sprintf("wait %d", i), "blocked")
			out.Pred("C36|WaitTimeout|blocked-after-close", fmt.Sprintf("wait on request %d:%d did not return within %v after the close (Wait would block forever)", i, w.gen[i], closeWait))
			return "timeout"
		}
		out.Op(fmt.Sprintf("timeout %d", i), "timeout")
		return "timeout"
	}
	if err != nil {
		out.Op(fmt.Sprintf("wait %d", i), errName(err))
		return errName(err)
	}
	p, ok := r.Data.(*payload)
	if !ok {
		out.Op(fmt.Sprintf("wait %d", i), "unexpected-reply")
		return "unexpected"
	}
	out.Op(fmt.Sprintf("wait %d", i), p.t.String())
	if expectOwn && p.t != (tag{i, w.gen[i]}) {
		out.Pred("C36|WaitTimeout|foreign-reply", fmt.Sprintf("request %d:%d received the reply produced for %s", i, w.gen[i], p.t))
	}
	return p.t.String()
}

func (w *world) opFree(i int, disciplined bool) {
	w.req.FreeMessage(w.objs[i])
	out.Op(fmt.Sprintf("free %d %d", i, b01(disciplined)), "ok")
}

func (w *world) opCloseTopic() {
	done := make(chan struct{})
	// like a real module, the subscriber keeps draining its Recv channel while it closes: client.Close waits for
	// the forwarding goroutine, which blocks on `client.Recv() <- data` once the 5-slot buffer is full (a module
	// that stops reading before it calls Close would hang there — outside C36's send/wait clauses, noted in level_note)
	go func() {
		for range w.sub.Recv() {
		}
	}()
	go func() { w.sub.Close(); close(done) }()
	res := "ok"
	select {
	case <-done:
	case <-time.After(closeWait):
		res = "blocked"
		out.Pred("C36|client.Close|blocked", "subscriber Close did not return")
	}
	w.closed = true
	out.Op("closetopic", res)
}

// the requester's client subscribes a private topic of its own
func (w *world) opSubReq() {
	w.req.Sub(reqTopic)
	if !w.reqClosed {
		w.reqSubbed = true
	}
	out.Op("subreq", "ok")
}

// client.Close() of the requester's client, run to completion by one caller
func (w *world) opCloseClient() {
	done := make(chan string, 1)
	go func() { done <- gen.Guard(func() string { w.req.Close(); return "ok" }) }()
	res := "ok"
	select {
	case res = <-done:
	case <-time.After(closeWait):
		res = "blocked"
		out.Pred("C36|client.Close|blocked", "requester Close did not return")
	}
	if res == "panic" {
		out.Pred("C36|client.Close|panic", "a single Close call of the requester's client panicked")
	}
	if w.reqSubbed {
		w.reqClosed = true
	}
	out.Op("closeclient", res)
}

// waitBranch: a wait in a state where two cases of WaitTimeout's select are ready (a reply is buffered AND a
// `done` is closed): Go may take either; the op line carries the branch that was observed
// (`wait <o> 0` = reply, `wait <o> 1` = done) and the model must allow it and agree on the output.
func (w *world) opWaitBranch(i int) string {
	m := w.objs[i]
	var r *queue.Message
	var err error
	res := gen.Guard(func() string {
		r, err = w.req.WaitTimeout(m, closeWait)
		return ""
	})
	if res == "panic" {
		out.Op(fmt.Sprintf("wait %d", i), "panic")
		out.Pred("C36|WaitTimeout|panic", fmt.Sprintf("obj %d", i))
		return "panic"
	}
	if err == queue.ErrQueueTimeout {
		out.Op(fmt.Sprintf("wait %d", i), "blocked")
		out.Pred("C36|WaitTimeout|blocked-after-close", fmt.Sprintf("wait on answered request %d:%d did not return within %v after the close", i, w.gen[i], closeWait))
		return "timeout"
	}
	if err != nil {
		out.Op(fmt.Sprintf("wait %d 1", i), errName(err))
		return errName(err)
	}
	p, ok := r.Data.(*payload)
	if !ok {
		out.Op(fmt.Sprintf("wait %d 0", i), "unexpected-reply")
		return "unexpected"
	}
	out.Op(fmt.Sprintf("wait %d 0", i), p.t.String())
	if p.t != (tag{i, w.gen[i]}) {
		out.Pred("C36|WaitTimeout|foreign-reply", fmt.Sprintf("request %d:%d received the reply produced for %s", i, w.gen[i], p.t))
	}
	return p.t.String()
}

func (w *world) opCloseQueue() {
	done := make(chan struct{})
	go func() { w.q.Close(); close(done) }()
	res := "ok"
	select {
	case <-done:
	case <-time.After(closeWait):
		res = "blocked"
		out.Pred("C36|queue.Close|blocked", "queue Close did not return")
	}
	w.closed = true
	out.Op("closequeue", res)
}

// ---------------------------------------------------------------- scenarios (Part A)

type phase int

const (
	pFresh phase = iota
	pQueued
	pHeld
	pReplied
	pDone
	pAbandoned // timed out; a disciplined requester never frees it
	pFailed
)

// disciplined request/reply traffic with recycling; optionally closes the topic or queue midway
func scenarioRR(r *gen.Rand, steps int, closeKind int) {
	w := newWorld(true)
	if closeKind == 3 {
		w.opSubReq()
	}
	ph := map[int]phase{}
	var fifo []int // ids in the high channel, oldest first
	live := func(p phase) []int {
		var l []int
		for i, q := range ph {
			if q == p {
				l = append(l, i)
			}
		}
		// deterministic order
		for a := 0; a < len(l); a++ {
			for b := a + 1; b < len(l); b++ {
				if l[b] < l[a] {
					l[a], l[b] = l[b], l[a]
				}
			}
		}
		return l
	}
	closeAt := -1
	if closeKind != 0 {
		closeAt = steps/2 + r.Intn(steps/2)
	}
	for s := 0; s < steps; s++ {
		if s == closeAt {
			switch closeKind {
			case 1:
				w.opCloseTopic()
				fifo = nil
			case 2:
				w.opCloseQueue()
				fifo = nil
			case 3: // the requester's own client: the topic stays open, the subscriber goes on receiving/answering
				w.opCloseClient()
			}
		}
		switch r.Pick(5, 5, 4, 4, 5, 3, 1) {
		case 0: // new
			if len(ph) < 12 || len(live(pDone)) > 0 {
				i := w.opNew()
				ph[i] = pFresh
			}
		case 1: // send
			if l := live(pFresh); len(l) > 0 {
				i := l[r.Intn(len(l))]
				res := w.opSend(i, true)
				if res == "ok" {
					ph[i] = pQueued
					fifo = append(fifo, i)
				} else if res == "closed" {
					ph[i] = pFresh // model: unchanged; the requester may free it (fresh)
				}
			}
		case 2: // recv
			if len(fifo) > 0 && !w.closed {
				if t, ok := w.opRecv(true); ok {
					ph[t.obj] = pHeld
					fifo = fifo[1:]
				}
			}
		case 3: // reply
			if l := live(pHeld); len(l) > 0 {
				i := l[r.Intn(len(l))]
				w.opReply(tag{i, w.gen[i]})
				ph[i] = pReplied
			}
		case 4: // wait
			cands := append(live(pReplied), live(pQueued)...)
			cands = append(cands, live(pHeld)...)
			if w.closed || w.reqClosed {
				// with the topic (or the requester's client) closed, a Wait on a message whose reply is buffered
				// may return either (Go select picks at random): here only wait on messages without a buffered
				// reply; scenarioRacyWait exercises the race
				cands = append(live(pQueued), live(pHeld)...)
			}
			if len(cands) > 0 {
				i := cands[r.Intn(len(cands))]
				res := w.opWait(i, true)
				if res == "closed" || res == "timeout" {
					// stays as it is; a timed-out request is abandoned by a disciplined requester
				} else if ph[i] == pReplied {
					ph[i] = pDone
				}
			}
		case 5: // free (disciplined: only fresh or done)
			l := append(live(pDone), live(pFresh)...)
			if len(l) > 0 {
				i := l[r.Intn(len(l))]
				w.opFree(i, true)
				delete(ph, i)
			}
		case 6: // timeout on something not answered yet
			if l := append(live(pQueued), live(pHeld)...); len(l) > 0 && !w.closed && !w.reqClosed {
				w.opWait(l[r.Intn(len(l))], true)
			}
		}
	}
	if !w.closed {
		w.opCloseQueue()
	}
	out.Stat("scenario_rr", 1)
}

// the requester's client is closed: Close without a subscribed topic is a no-op; with one, every later send
// fails and every wait on an unanswered request returns `closed` (reachability of `clientClosed` in the model)
func scenarioClientClose(r *gen.Rand) {
	w := newWorld(true)
	w.opCloseClient() // client.topic == nil: returns at once, nothing is closed
	i0 := w.opNew()
	w.opSend(i0, true) // ... so this still goes through
	w.opSubReq()
	i1 := w.opNew()
	w.opSend(i1, true)
	nrecv := r.Intn(3) // 0, 1 or 2 of the two requests are in a responder's hands at the close; none is answered
	for k := 0; k < nrecv; k++ {
		w.opRecv(true)
	}
	if r.Bool() {
		w.opWait(i0, true) // times out before the close
	}
	w.opCloseClient()
	w.opWait(i0, true) // closed (ErrIsQueueClosed via client.done)
	w.opWait(i1, true)
	i2 := w.opNew()
	w.opSend(i2, true) // closed (ErrIsQueueClosed)
	i3 := w.opNew()
	w.opSend(i3, false)
	w.opCloseClient() // second Close: isClosed == 1, returns at once
	w.opSubReq()      // Sub on a closed client: returns at once
	w.opWait(i1, true)
	w.opCloseQueue()
	out.Stat("scenario_clientclose", 1)
}

// a reply is buffered when the topic / queue / requester's client is closed: WaitTimeout's select has two ready
// cases. Whatever Go picks must be a branch of the model, and a reply must be the request's own. A wait that
// took the `done` branch leaves the reply buffered: wait again (bounded) until the reply comes out.
func scenarioRacyWait(kind int) {
	w := newWorld(true)
	if kind == 2 {
		w.opSubReq()
	}
	i := w.opNew()
	w.opSend(i, true)
	t, ok := w.opRecv(true)
	if !ok {
		return
	}
	w.opReply(t)
	switch kind {
	case 0:
		w.opCloseTopic()
	case 1:
		w.opCloseQueue()
	case 2:
		w.opCloseClient()
	}
	for k := 0; k < 8; k++ {
		res := w.opWaitBranch(i)
		if k == 0 {
			if res == "closed" {
				out.Stat("racy_wait_done_branch_first", 1)
			} else {
				out.Stat("racy_wait_reply_branch_first", 1)
			}
		}
		if res != "closed" {
			break
		}
	}
	if kind != 1 {
		w.opCloseQueue()
	}
	out.Stat("scenario_racywait", 1)
}

// "... or crashing": two overlapping Close calls of one subscribed client. Before /repo commit c931423 both
// could pass the `isClosed == 1 || topic == nil` check (isClosed is set only at the end of Close) and the second
// close(client.done) panicked (Lean: `old_close_panics_on_overlap`). Now the entry of Close takes `isCloseing` by
// compare-and-swap and the loser returns at once (Lean: `never_panics`). The probe stays strict: a panic is a
// predicate failure, and the old witness schedule is written out as op lines, which the model no longer follows.
func probeDoubleClose(tries int, prefix bool) {
	q := queue.New("verif-dclose")
	q.SetConfig(cfg)
	defer q.Close()
	observed := ""
	at := -1
	for k := 0; k < tries && observed == ""; k++ {
		c := q.Client()
		c.Sub(fmt.Sprintf("verif-dclose-%d", k))
		start := make(chan struct{})
		res := make(chan string, 2)
		for g := 0; g < 2; g++ {
			go func() {
				defer func() {
					if e := recover(); e != nil {
						res <- fmt.Sprint(e)
						return
					}
					res <- ""
				}()
				<-start
				c.Close()
			}()
		}
		close(start)
		for g := 0; g < 2; g++ {
			select {
			case m := <-res:
				if m != "" {
					observed = m
					at = k
				}
			case <-time.After(longWait):
				out.Pred("C36|client.Close|blocked", "one of two concurrent Close calls did not return")
			}
		}
	}
	out.Stat("doubleclose_tries", int64(tries))
	if observed == "" {
		out.Stat("doubleclose_no_panic_observed", 1)
		return
	}
	out.Stat("doubleclose_panic_observed", 1)
	if prefix {
		out.Op("reset", "ok")
		out.Op("subreq", "ok")
	}
	out.Op("closeenter", "blocked")
	out.Op("closeenter", "blocked")
	out.Op("closedone", "blocked")
	out.Op("closedone", "panic")
	out.Pred("C36|client.Close|panic-on-concurrent-close", fmt.Sprintf("two goroutines calling Close() on the same subscribed client: panic %q (attempt %d)", observed, at))
}

// the undisciplined witness of the Lean theorem `discipline_necessary`, on the real code
func scenarioStale() {
	for try := 0; try < 20; try++ {
		w := newWorld(true)
		i := w.opNew()
		w.opSend(i, true)
		t, ok := w.opRecv(true)
		if !ok {
			continue
		}
		w.opWait(i, false) // times out
		w.opFree(i, false) // freed while the responder still holds it
		j := w.opNew()
		if j != i {
			// the pool handed out another object: no recycling observed this time
			w.opReply(t)
			w.opCloseQueue()
			out.Stat("stale_no_recycle", 1)
			continue
		}
		w.opReply(t) // the late answer for generation 1
		w.opSend(j, true)
		got := w.opWait(j, false)
		if got == (tag{i, 1}).String() {
			out.Stat("stale_reply_reproduced", 1)
		}
		w.opCloseQueue()
		out.Stat("scenario_stale", 1)
		return
	}
}

// senders blocked on a full channel must return `closed` when the queue is closed
func scenarioFull(sync bool) {
	w := newWorld(false) // no subscriber: exact channel capacities
	capn := 64
	if !sync {
		capn = 40960
	}
	for k := 0; k < capn; k++ {
		i := w.opNew()
		if res := w.opSend(i, sync); res != "ok" {
			out.Note(fmt.Sprintf("channel filled early at %d: %s", k, res))
			break
		}
	}
	var bl []tag
	for k := 0; k < 2; k++ {
		i := w.opNew()
		if w.opSendX(i, sync, true) == "blocked" {
			bl = append(bl, tag{i, w.gen[i]})
		}
	}
	w.opCloseQueue()
	for _, t := range bl {
		w.opUnblock(t, sync, true)
	}
	// after the close every new send fails at once
	i := w.opNew()
	w.opSend(i, sync)
	// ... and a wait on a request that was queued before the close and never answered returns `closed`
	if sync {
		w.opWait(0, true)
		w.opWait(capn/2, true)
	}
	out.Stat("scenario_full", 1)
	out.Stat("blocked_senders", int64(len(bl)))
}

// ---------------------------------------------------------------- Part B: concurrent stress

func stress(r *gen.Rand, requesters, responders, perRequester int, closeWithPending bool) {
	q := queue.New("verif-stress")
	q.SetConfig(cfg)
	var nextReq int64
	var foreign, answered, timedout, closedErr, panics int64
	subs := make([]queue.Client, responders)
	var rwg sync.WaitGroup
	for s := range subs {
		subs[s] = q.Client()
		subs[s].Sub(topic)
		rwg.Add(1)
		seed := r.U64()
		go func(c queue.Client) {
			defer rwg.Done()
			rr := gen.New(seed)
			for m := range c.Recv() {
				p, ok := m.Data.(*payload)
				if !ok {
					continue
				}
				if rr.Chance(1, 8) {
					time.Sleep(time.Duration(rr.Intn(3)) * time.Millisecond) // some answers come late
				}
				m.Reply(c.NewMessage("", 2, &payload{p.t}))
			}
		}(subs[s])
	}
	var wg sync.WaitGroup
	stop := make(chan struct{})
	for g := 0; g < requesters; g++ {
		wg.Add(1)
		seed := r.U64()
		go func() {
			defer wg.Done()
			defer func() {
				if e := recover(); e != nil {
					atomic.AddInt64(&panics, 1)
				}
			}()
			rr := gen.New(seed)
			c := q.Client()
			for k := 0; k < perRequester; k++ {
				select {
				case <-stop:
				default:
				}
				id := int(atomic.AddInt64(&nextReq, 1))
				m := c.NewMessage(topic, 1, nil)
				me := tag{id, 0}
				m.Data = &payload{me}
				if err := c.Send(m, true); err != nil {
					atomic.AddInt64(&closedErr, 1)
					continue
				}
				to := time.Duration(-1)
				if rr.Chance(1, 6) {
					to = time.Duration(1+rr.Intn(2)) * time.Millisecond
				}
				rep, err := c.WaitTimeout(m, to)
				if err == queue.ErrQueueTimeout {
					atomic.AddInt64(&timedout, 1)
					continue // disciplined: an unanswered message is not recycled
				}
				if err != nil {
					atomic.AddInt64(&closedErr, 1)
					continue
				}
				if p, ok := rep.Data.(*payload); !ok || p.t != me {
					atomic.AddInt64(&foreign, 1)
					out.Pred("C36|WaitTimeout|foreign-reply", fmt.Sprintf("concurrent: request %v received %v", me, rep.Data))
				}
				atomic.AddInt64(&answered, 1)
				c.FreeMessage(m, rep)
			}
		}()
	}
	if closeWithPending {
		time.Sleep(time.Duration(2+r.Intn(6)) * time.Millisecond)
		close(stop)
		q.Close()
	}
	done := make(chan struct{})
	go func() { wg.Wait(); close(done) }()
	select {
	case <-done:
	case <-time.After(20 * time.Second):
		out.Pred("C36|stress|requester-blocked-after-close", "a requester did not return 20s after the queue was closed")
	}
	if !closeWithPending {
		q.Close()
	}
	for _, c := range subs {
		cd := make(chan struct{})
		go func(c queue.Client) { c.Close(); close(cd) }(c)
		select {
		case <-cd:
		case <-time.After(5 * time.Second):
			out.Pred("C36|client.Close|blocked", "subscriber Close did not return in the stress run")
		}
	}
	if panics > 0 {
		out.Pred("C36|stress|panic", fmt.Sprintf("%d requester panics", panics))
	}
	out.Stat("stress_runs", 1)
	out.Stat("stress_answered", answered)
	out.Stat("stress_timedout", timedout)
	out.Stat("stress_closed_errors", closedErr)
	out.Stat("stress_foreign", foreign)
}

func main() {
	defer out.Flush()
	cfg = types.NewChain33Config(types.GetDefaultCfgstring())
	if lines := gen.ReplayLines(); lines != nil {
		replay(lines)
		return
	}
	r := gen.New(gen.Seed())
	scenarioStale()
	scenarioFull(true)
	scenarioFull(false)
	n := gen.Scale(12, 150)
	for k := 0; k < n; k++ {
		scenarioRR(r, 40+r.Intn(60), k%4)
	}
	for k := 0; k < gen.Scale(3, 12); k++ {
		scenarioClientClose(r)
	}
	for k := 0; k < gen.Scale(9, 60); k++ {
		scenarioRacyWait(k % 3)
	}
	probeDoubleClose(gen.Scale(400, 4000), true)
	for k := 0; k < gen.Scale(6, 60); k++ {
		stress(r, 2+r.Intn(6), 1+r.Intn(3), 200+r.Intn(400), k%2 == 1)
	}
	out.Sample("scripted: new/send/recv/reply/wait/free on pooled queue messages, close of topic / queue / requester's client; racy wait after close (observed branch checked against the model); two concurrent Close calls; stress: requesters x responders with timeouts then close")
}

// replay executes op lines of the wire grammar literally (ids must be consistent with what the pool
// hands out; `new` lines are matched against the observed object).
func replay(lines []string) {
	var w *world
	dclose := false
	for _, l := range lines {
		f := strings.Fields(l)
		if len(f) == 0 {
			continue
		}
		if f[0] == "reset" {
			w = newWorld(true)
			continue
		}
		if w == nil {
			w = newWorld(true)
		}
		var a, b int
		var t tag
		switch f[0] {
		case "new":
			w.opNew()
		case "send":
			fmt.Sscan(f[1], &a)
			fmt.Sscan(f[2], &b)
			if a < len(w.objs) {
				w.opSend(a, b == 1)
			}
		case "recv":
			w.opRecv(true)
		case "reply":
			fmt.Sscanf(f[1], "%d:%d", &t.obj, &t.gen)
			if _, ok := w.held[t]; ok {
				w.opReply(t)
			}
		case "wait", "timeout":
			fmt.Sscan(f[1], &a)
			if a < len(w.objs) {
				if len(f) > 2 {
					w.opWaitBranch(a)
				} else {
					w.opWait(a, false)
				}
			}
		case "subreq":
			w.opSubReq()
		case "closeclient":
			w.opCloseClient()
		case "closeenter":
			if !dclose {
				dclose = true
				probeDoubleClose(4000, false)
			}
		case "closedone", "closefinish":
		case "free":
			fmt.Sscan(f[1], &a)
			fmt.Sscan(f[2], &b)
			if a < len(w.objs) {
				w.opFree(a, b == 1)
			}
		case "unblock":
			fmt.Sscanf(f[1], "%d:%d", &t.obj, &t.gen)
			fmt.Sscan(f[2], &b)
			if _, ok := w.blocked[t]; ok {
				w.opUnblock(t, b == 1, w.closed)
			}
		case "closetopic":
			w.opCloseTopic()
		case "closequeue":
			w.opCloseQueue()
		default:
			out.Op(l, "bad-op")
		}
	}
}
