// h_c37 drives the real wallet secret encryption of /repo.
//
// Part 1 (pure functions): wallet/common CBCEncrypterPrivkey / CBCDecrypterPrivkey and wallet AesgcmEncrypter /
// AesgcmDecrypter on generated passwords (0..80 bytes, emphasis on 31/32/33 and > 32), every plaintext length
// 0..96, legacy records written by a reference legacy encrypter (fixed IV = key[:16]; fixed nonce = key[:12]),
// wrong passwords, garbage and truncated records.  The reference side is the STRUCTURE of the Lean model
// (kdf, CBC chaining written by hand, IV / nonce placement) instantiated with Go's aes / GCM primitives; it is
// used to observe which key and which format branch the implementation used.  The Lean driver runs the same
// model with toy primitives; compared are key bytes, panics, lengths, format branch, "equals the original".
// Part 2 (wallet histories): a real wallet (leveldb store) per signature type (secp256k1, ed25519, sm2) with
// derived and imported keys, records rewritten into the legacy formats, successful and failed password changes
// (wrong old password, invalid new password, injected batch-write failure), restarts; after every step every
// stored key and the seed must come back unchanged under the wallet's current password.
//
// The property predicate (C37) is evaluated on the implementation itself (#PRED lines).
package main

import (
	"bytes"
	"crypto/aes"
	"crypto/cipher"
	"encoding/hex"
	"fmt"
	"os"
	"path/filepath"
	"sort"
	"strings"
	"sync/atomic"

	"github.com/33cn/chain33/common"
	"github.com/33cn/chain33/common/crypto"
	_ "github.com/33cn/chain33/system"
	"github.com/33cn/chain33/types"
	"github.com/33cn/chain33/wallet"
	"github.com/33cn/chain33/wallet/bipwallet"
	wcom "github.com/33cn/chain33/wallet/common"

	"verifharness/internal/gen"
	_ "verifharness/internal/quiet"
)

var out = gen.NewOut()
var tmpRoot string

func hx(b []byte) string {
	if len(b) == 0 {
		return "-"
	}
	return hex.EncodeToString(b)
}

func b01(b bool) string {
	if b {
		return "1"
	}
	return "0"
}

// ---------------------------------------------------------------- reference side (structure of Model/C37.lean over Go's AES)

func refKdf(pw []byte) []byte {
	key := make([]byte, 32)
	if len(pw) > 32 {
		copy(key, pw[:32])
	} else {
		copy(key, pw)
	}
	return key
}

func xor16(a, b []byte) []byte {
	o := make([]byte, 16)
	for i := range o {
		o[i] = a[i] ^ b[i]
	}
	return o
}

// c_i = enc(p_i xor c_{i-1}), c_0 = iv   (cbcEncN)
func refCbcEnc(key, iv, pt []byte) []byte {
	blk, _ := aes.NewCipher(key)
	prev := iv
	var ct []byte
	for i := 0; i+16 <= len(pt); i += 16 {
		c := make([]byte, 16)
		blk.Encrypt(c, xor16(pt[i:i+16], prev))
		ct = append(ct, c...)
		prev = c
	}
	return ct
}

// p_i = dec(c_i) xor c_{i-1}   (cbcDecN)
func refCbcDec(key, iv, ct []byte) []byte {
	blk, _ := aes.NewCipher(key)
	prev := iv
	pt := []byte{}
	for i := 0; i+16 <= len(ct); i += 16 {
		d := make([]byte, 16)
		blk.Decrypt(d, ct[i:i+16])
		pt = append(pt, xor16(d, prev)...)
		prev = ct[i : i+16]
	}
	return pt
}

func refLegacyCbc(pw, pt []byte) []byte {
	key := refKdf(pw)
	return refCbcEnc(key, key[:16], pt)
}

func refGcm(key []byte) cipher.AEAD {
	blk, _ := aes.NewCipher(key)
	g, _ := cipher.NewGCM(blk)
	return g
}

func refLegacySeal(pw, pt []byte) []byte {
	key := refKdf(pw)
	return refGcm(key).Seal(nil, key[:12], pt, nil)
}

// same rule as Driver/C37.lean: another password with another derived key
func otherPw(pw []byte) []byte {
	o := append(append([]byte{}, pw...), 'x')
	if bytes.Equal(refKdf(o), refKdf(pw)) {
		o = append([]byte{'w'}, pw...)
	}
	return o
}

// ---------------------------------------------------------------- Part 1

func guardBytes(f func() []byte) (res []byte, panicked bool) {
	defer func() {
		if e := recover(); e != nil {
			panicked = true
		}
	}()
	return f(), false
}

func opKdf(pw []byte) {
	key := refKdf(pw)
	res := hex.EncodeToString(key)
	pt := bytes.Repeat([]byte{0x5a}, 32)
	blob := wcom.CBCEncrypterPrivkey(pw, pt)
	if len(blob) != 48 || !bytes.Equal(refCbcDec(key, blob[:16], blob[16:]), pt) {
		res = "key-mismatch-cbc"
	}
	sealed, err := wallet.AesgcmEncrypter(pw, pt)
	if err != nil || len(sealed) < 12 {
		res = "key-mismatch-gcm"
	} else if p, err := refGcm(key).Open(nil, sealed[:12], sealed[12:], nil); err != nil || !bytes.Equal(p, pt) {
		res = "key-mismatch-gcm"
	}
	out.Op("kdf "+hx(pw), res)
}

var supported = map[int]bool{32: true, 64: true}

func opCbc(r *gen.Rand, pw []byte, kind string, n int) {
	op := fmt.Sprintf("cbc %s %s %d", hx(pw), kind, n)
	key := refKdf(pw)
	var blob, pt []byte
	switch kind {
	case "new":
		pt = r.Bytes(n)
		b, p := guardBytes(func() []byte { return wcom.CBCEncrypterPrivkey(pw, pt) })
		if p {
			out.Op(op, "enc=panic")
			if n%16 == 0 {
				out.Pred("C37|CBCEncrypterPrivkey|panic-on-block-aligned-input", op)
			}
			return
		}
		if b == nil {
			out.Op(op, "enc=nil")
			return
		}
		blob = b
	case "legacy":
		if n%16 != 0 {
			out.Op(op, "enc=panic") // the legacy encrypter cannot have written such a record
			return
		}
		pt = r.Bytes(n)
		blob = refLegacyCbc(pw, pt)
	case "raw":
		blob = r.Bytes(n)
	}
	dec, p := guardBytes(func() []byte { return wcom.CBCDecrypterPrivkey(pw, blob) })
	res := fmt.Sprintf("enc=ok:%d dec=", len(blob))
	if p {
		out.Op(op, res+"panic")
		return
	}
	f := "?"
	if len(blob) > 16 && len(blob)%16 == 0 && bytes.Equal(dec, refCbcDec(key, blob[:16], blob[16:])) {
		f = "new"
	} else if len(blob)%16 == 0 && bytes.Equal(dec, refCbcDec(key, key[:16], blob)) {
		f = "legacy"
	}
	eq := "-"
	if pt != nil {
		eq = b01(bytes.Equal(dec, pt))
	}
	out.Op(op, fmt.Sprintf("%s%s:%d:%s", res, f, len(dec), eq))
	if supported[n] && eq == "0" {
		if kind == "new" {
			out.Pred("C37|CBCDecrypterPrivkey|supported-key-length-does-not-roundtrip", op)
		} else if kind == "legacy" {
			out.Pred("C37|CBCDecrypterPrivkey|legacy-record-not-decrypted", op)
		}
	}
	out.Stat("cbc_"+kind, 1)
}

func opGcm(r *gen.Rand, pw []byte, kind string, n int) {
	op := fmt.Sprintf("gcm %s %s %d", hx(pw), kind, n)
	key := refKdf(pw)
	pt := r.Bytes(n)
	var blob []byte
	decPw := pw
	switch kind {
	case "new", "wrongpw", "trunc":
		b, err := wallet.AesgcmEncrypter(pw, pt)
		if err != nil {
			out.Op(op, "enc-err")
			return
		}
		blob = b
		if kind == "wrongpw" {
			decPw = otherPw(pw)
		}
		if kind == "trunc" {
			blob = blob[:len(blob)-1]
		}
	case "legacy", "wrongpwlegacy":
		blob = refLegacySeal(pw, pt)
		if kind == "wrongpwlegacy" {
			decPw = otherPw(pw)
		}
	case "garbage":
		blob = r.Bytes(n)
	}
	var dec []byte
	var err error
	res := gen.Guard(func() string {
		dec, err = wallet.AesgcmDecrypter(decPw, blob)
		return ""
	})
	if res == "panic" {
		out.Op(op, "panic")
		return
	}
	if err != nil {
		out.Op(op, "err")
		if kind == "new" {
			out.Pred("C37|AesgcmDecrypter|seed-does-not-roundtrip", op)
		} else if kind == "legacy" {
			out.Pred("C37|AesgcmDecrypter|legacy-seed-not-decrypted", op)
		}
		return
	}
	branch := "legacy"
	k2 := key
	if kind == "wrongpw" || kind == "wrongpwlegacy" {
		k2 = refKdf(decPw)
	}
	if len(blob) > 12 {
		if _, e := refGcm(k2).Open(nil, blob[:12], blob[12:], nil); e == nil {
			branch = "new"
		}
	}
	eq := bytes.Equal(dec, pt)
	out.Op(op, fmt.Sprintf("ok:%s:%d:%s", branch, len(dec), b01(eq)))
	if !eq && (kind == "new" || kind == "legacy") {
		out.Pred("C37|AesgcmDecrypter|seed-decrypts-to-other-bytes", op)
	}
	out.Stat("gcm_"+kind, 1)
}

func genPw(r *gen.Rand) []byte {
	var n int
	switch r.Pick(3, 3, 3, 1) {
	case 0:
		n = r.Range(1, 30)
	case 1:
		n = []int{31, 32, 33, 34, 64}[r.Intn(5)]
	case 2:
		n = r.Range(33, 80)
	default:
		n = 0
	}
	if r.Chance(1, 2) {
		return r.BytesFrom([]byte("abcdefghijklmnopqrstuvwxyzABCDEFGHIJKLMNOPQRSTUVWXYZ0123456789"), n)
	}
	return r.Bytes(n)
}

// private-key lengths of the registered crypto drivers, and whether the wallet would take such a key
func driverKeyLens() {
	names, ids := crypto.GetCryptoList()
	type d struct {
		name string
		id   int32
	}
	var ds []d
	for i := range names {
		ds = append(ds, d{names[i], ids[i]})
	}
	sort.Slice(ds, func(i, j int) bool { return ds[i].name < ds[j].name })
	seen := map[int]bool{}
	var summary []string
	for _, x := range ds {
		c, err := crypto.Load(x.name, -1)
		if err != nil {
			summary = append(summary, x.name+":load-err")
			continue
		}
		var k crypto.PrivKey
		if gen.Guard(func() string { k, err = c.GenKey(); return "" }) == "panic" || err != nil || k == nil {
			summary = append(summary, x.name+":no-genkey")
			continue
		}
		kb := k.Bytes()
		n := len(kb)
		pw := []byte("driverpass1")
		rt := "ok"
		blob, p := guardBytes(func() []byte { return wcom.CBCEncrypterPrivkey(pw, kb) })
		if p {
			rt = "panic"
		} else {
			dec, p2 := guardBytes(func() []byte { return wcom.CBCDecrypterPrivkey(pw, blob) })
			if p2 {
				rt = "panic"
			} else if !bytes.Equal(dec, kb) {
				rt = "fail"
			}
		}
		_, werr := bipwallet.PrivkeyToPub(bipwallet.TypeBty, uint32(x.id), kb)
		accepts := werr == nil
		summary = append(summary, fmt.Sprintf("%s:%d:%s:wallet-accepts=%v", x.name, n, rt, accepts))
		out.Stat("driver_keylen_"+fmt.Sprint(n), 1)
		if !seen[n] {
			seen[n] = true
			out.Op(fmt.Sprintf("keylen %d", n), rt)
		}
		if rt != "ok" && accepts {
			out.Pred("C37|CBCDecrypterPrivkey|registered-driver-key-length-does-not-roundtrip",
				fmt.Sprintf("driver %s: %d-byte private key, accepted by the wallet, encrypt+decrypt = %s", x.name, n, rt))
		}
	}
	out.Sample("registered crypto drivers (name:private-key bytes:CBC round trip:wallet import): " + strings.Join(summary, " "))
}

func part1(r *gen.Rand) {
	driverKeyLens()
	for _, n := range []int{0, 1, 15, 16, 17, 31, 32, 33, 47, 48, 49, 63, 64, 65, 80, 96} {
		out.Op(fmt.Sprintf("keylen %d", n), func() string {
			pw := []byte("pw")
			pt := r.Bytes(n)
			blob, p := guardBytes(func() []byte { return wcom.CBCEncrypterPrivkey(pw, pt) })
			if p {
				return "panic"
			}
			dec, p2 := guardBytes(func() []byte { return wcom.CBCDecrypterPrivkey(pw, blob) })
			if p2 {
				return "panic"
			}
			if bytes.Equal(dec, pt) {
				return "ok"
			}
			return "fail"
		}())
	}
	n := gen.Scale(400, 12000)
	for i := 0; i < n; i++ {
		pw := genPw(r)
		if i%4 == 0 {
			opKdf(pw)
		}
		// supported lengths, each format
		for _, l := range []int{32, 64} {
			opCbc(r, pw, "new", l)
			opCbc(r, pw, "legacy", l)
		}
		// any length
		l := r.Intn(100)
		if r.Chance(1, 2) {
			l = 16 * r.Intn(8)
		}
		opCbc(r, pw, []string{"new", "legacy", "raw"}[r.Intn(3)], l)
		// seeds: any length
		sl := r.Intn(200)
		opGcm(r, pw, "new", sl)
		opGcm(r, pw, "legacy", sl)
		opGcm(r, pw, []string{"wrongpw", "wrongpwlegacy", "garbage", "trunc"}[r.Intn(4)], r.Intn(60))
		out.Stat(fmt.Sprintf("pwlen_%s", pwBucket(len(pw))), 1)
	}
}

func pwBucket(n int) string {
	switch {
	case n == 0:
		return "0"
	case n < 32:
		return "1-31"
	case n == 32:
		return "32"
	default:
		return "33-80"
	}
}

// ---------------------------------------------------------------- Part 2: wallet histories

type hist struct {
	e       *env
	sign    string
	signID  int
	keylen  int
	pw      string // what the harness believes the wallet's password is
	seed    string
	addrs   []string
	keys    map[string][]byte
	nlabel  int
	badKeys map[string][]byte // label -> key of records injected with an empty Addr
	lastSp  string            // "", "ok", "failed"
	nchecks int
}

func errName(err error) string {
	switch {
	case err == nil:
		return "ok"
	case err == errInjectedWrite || err.Error() == errInjectedWrite.Error():
		return "ErrWrite"
	case err == types.ErrInputPassword:
		return "ErrSeed"
	}
	return err.Error()
}

const alnum = "abcdefghijklmnopqrstuvwxyzABCDEFGHIJKLMNOPQRSTUVWXYZ0123456789"

func validPw(r *gen.Rand) string {
	n := []int{8, 9, 12, 20, 29, 30}[r.Intn(6)]
	for {
		p := string(r.BytesFrom([]byte(alnum), n))
		hasL, hasD := false, false
		for _, c := range p {
			if c >= '0' && c <= '9' {
				hasD = true
			} else {
				hasL = true
			}
		}
		if hasL && hasD {
			return p
		}
	}
}

func invalidPw(r *gen.Rand) string {
	switch r.Intn(6) {
	case 0:
		return "short1a"
	case 1:
		return string(r.BytesFrom([]byte(alnum), 31)) + "a1"
	case 2:
		return "onlylettersabc"
	case 3:
		return "12345678901"
	case 4:
		return "with-dash-123"
	}
	return ""
}

func (h *hist) unlock() bool {
	return h.e.w.ProcWalletUnLock(&types.WalletUnLock{Passwd: h.pw}) == nil
}

func (h *hist) opInit(r *gen.Rand, legacySeed bool) {
	h.pw = validPw(r)
	sd, err := h.e.w.GenSeed(int32(r.Intn(2)))
	if err != nil {
		out.Note("GenSeed: " + err.Error())
		return
	}
	h.seed = sd.Seed
	ok, err := h.e.w.SaveSeed(h.pw, h.seed)
	if !ok {
		out.Note("SaveSeed: " + errName(err))
		return
	}
	f := "new"
	if legacySeed {
		f = "legacy"
		h.e.w.GetDBStore().SetSync(wallet.WalletSeed, refLegacySeal([]byte(h.pw), []byte(h.seed)))
	}
	res := "ok"
	if !h.unlock() {
		res = "unlock-failed"
	}
	out.Op(fmt.Sprintf("w.init %s %d %s", hx([]byte(h.pw)), len(h.seed), f), res)
}

// add a key: imported (driver-generated, or random bytes of an unsupported length) or derived from the seed
func (h *hist) opAdd(r *gen.Rand, keylen int, legacy bool, derived bool) {
	f := "new"
	if legacy {
		f = "legacy"
	}
	op := fmt.Sprintf("w.add %d %s", keylen, f)
	h.unlock()
	h.nlabel++
	label := fmt.Sprintf("k%d", h.nlabel)
	var addr string
	if derived && keylen == h.keylen {
		acc, err := h.e.w.ProcCreateNewAccount(&types.ReqNewAccount{Label: label})
		if err != nil {
			out.Op(op, "err:"+errName(err))
			return
		}
		addr = acc.Acc.Addr
	} else {
		var kb []byte
		if keylen == h.keylen {
			c, _ := crypto.Load(h.sign, -1)
			k, _ := c.GenKey()
			kb = k.Bytes()
		} else {
			kb = r.Bytes(keylen)
		}
		acc, err := h.e.w.ProcImportPrivKey(&types.ReqWalletImportPrivkey{Privkey: "0x" + hex.EncodeToString(kb), Label: label})
		if err != nil {
			if err == types.ErrPrivkeyToPub {
				out.Op(op, "rejected")
			} else {
				out.Op(op, "err:"+errName(err))
			}
			return
		}
		addr = acc.Acc.Addr
	}
	ks, err := h.e.w.ProcDumpPrivkey(addr)
	kb, err2 := common.FromHex(ks)
	if err != nil || err2 != nil {
		out.Op(op, "err:dump")
		return
	}
	h.addrs = append(h.addrs, addr)
	h.keys[addr] = kb
	if legacy {
		acc, err := h.e.w.GetAccountByAddr(addr)
		if err != nil {
			out.Op(op, "err:getaccount")
			return
		}
		acc.Privkey = common.ToHex(refLegacyCbc([]byte(h.pw), kb))
		if err := h.e.w.SetWalletAccount(true, addr, acc); err != nil {
			out.Op(op, "err:setaccount")
			return
		}
	}
	out.Op(op, "ok")
	out.Stat("hist_add_"+f, 1)
}

// opAddBad writes, behind the wallet's back, an Account record whose Addr is EMPTY (the wallet itself never does:
// GetAccountByte refuses it). ProcWalletSetPasswd only logs the error of SetWalletAccountInBatch for such a record and
// goes on — the record stays under the old password (Lean: malformed_record_is_left_behind).
func (h *hist) opAddBad(r *gen.Rand) {
	h.nlabel++
	label := fmt.Sprintf("bad%d", h.nlabel)
	key := r.Bytes(h.keylen)
	rec := &types.WalletAccountStore{
		Privkey:   common.ToHex(wcom.CBCEncrypterPrivkey([]byte(h.pw), key)),
		Label:     label,
		TimeStamp: fmt.Sprintf("%018d", 1000000+h.nlabel),
	}
	err := h.e.w.GetDBStore().SetSync(wcom.CalcAccountKey(rec.TimeStamp, ""), types.Encode(rec))
	if err != nil {
		out.Op(fmt.Sprintf("w.addbad %d", h.keylen), "err:"+err.Error())
		return
	}
	h.badKeys[label] = key
	out.Op(fmt.Sprintf("w.addbad %d", h.keylen), "ok")
	out.Stat("hist_addbad", 1)
}

func (h *hist) opSetPasswd(r *gen.Rand) {
	old := h.pw
	oldOk := r.Chance(3, 4)
	if !oldOk {
		old = validPw(r)
		if r.Bool() {
			old = h.pw + "x"
		}
	}
	newp := validPw(r)
	if r.Chance(1, 6) {
		newp = invalidPw(r)
	} else if r.Chance(1, 10) {
		newp = h.pw
	}
	writeOk := r.Chance(5, 6)
	if r.Chance(1, 3) {
		h.e.w.ProcWalletLock()
	} else {
		h.unlock()
	}
	if r.Chance(1, 5) {
		h.e.restart() // the password is then verified against the stored hash
	}
	if !writeOk {
		atomic.StoreInt32(&h.e.failNextWrite, 1)
	}
	var err error
	res := gen.Guard(func() string {
		err = h.e.w.ProcWalletSetPasswd(&types.ReqWalletSetPasswd{OldPass: old, NewPass: newp})
		return ""
	})
	atomic.StoreInt32(&h.e.failNextWrite, 0)
	if res != "panic" {
		res = errName(err)
	}
	if res == "ok" {
		h.pw = newp
		h.lastSp = "ok"
	} else {
		h.lastSp = "failed"
	}
	out.Op(fmt.Sprintf("w.setpasswd %s %s %s", hx([]byte(old)), hx([]byte(newp)), b01(writeOk)), res)
	out.Stat("hist_setpasswd_"+res, 1)
}

func (h *hist) opCheck(r *gen.Rand) {
	h.nchecks++
	if h.nchecks%3 == 0 {
		h.e.restart()
	}
	unlocked := h.unlock()
	curpw := h.e.w.GetPassword()
	if !unlocked {
		curpw = "unlock-failed"
	}
	db := h.e.w.GetDBStore()
	seedBlob, _ := db.Get(wallet.WalletSeed)
	accs, _ := h.e.w.GetWalletAccounts()
	var lens []int
	good := true
	bad := func(kind, detail string) {
		good = false
		sig := "C37|ProcWalletSetPasswd|" + kind + "-not-recoverable-under-current-password"
		switch h.lastSp {
		case "ok":
			sig += "-after-successful-change"
		case "failed":
			sig += "-after-failed-change"
		default:
			sig = "C37|wallet-store|" + kind + "-not-recoverable-under-current-password"
		}
		out.Pred(sig, fmt.Sprintf("sign=%s %s", h.sign, detail))
	}
	if len(accs) != len(h.addrs)+len(h.badKeys) {
		bad("account-list", fmt.Sprintf("%d accounts stored, %d created", len(accs), len(h.addrs)))
	}
	for _, a := range accs {
		blob, _ := common.FromHex(a.Privkey)
		lens = append(lens, len(blob))
		if a.Addr == "" {
			// an injected malformed record: no request can name it; it only enters the compared `dec` bit
			if dec, p := guardBytes(func() []byte { return wcom.CBCDecrypterPrivkey([]byte(curpw), blob) }); p || !bytes.Equal(dec, h.badKeys[a.Label]) {
				good = false
				out.Stat("hist_malformed_record_left_behind", 1)
			}
			continue
		}
		want, ok := h.keys[a.Addr]
		if !ok {
			bad("key", "unknown account "+a.Addr)
			continue
		}
		if dec, p := guardBytes(func() []byte { return wcom.CBCDecrypterPrivkey([]byte(curpw), blob) }); p || !bytes.Equal(dec, want) {
			bad("key", fmt.Sprintf("record of %d bytes for %s does not decrypt to the %d-byte key", len(blob), a.Addr, len(want)))
		}
		ks, err := h.e.w.ProcDumpPrivkey(a.Addr)
		if kb, _ := common.FromHex(ks); err != nil || !bytes.Equal(kb, want) {
			bad("key", fmt.Sprintf("ProcDumpPrivkey(%s) = %s", a.Addr, errName(err)))
		}
	}
	if s, err := h.e.w.GetSeed(curpw); err != nil || s != h.seed {
		bad("seed", "GetSeed: "+errName(err))
	}
	if dec, err := wallet.AesgcmDecrypter([]byte(curpw), seedBlob); err != nil || string(dec) != h.seed {
		bad("seed", "AesgcmDecrypter on the stored record fails")
	}
	sort.Ints(lens)
	ls := "-"
	if len(lens) > 0 {
		var p []string
		for _, l := range lens {
			p = append(p, fmt.Sprint(l))
		}
		ls = strings.Join(p, ",")
	}
	out.Op("w.check", fmt.Sprintf("pw=%s seed=%d keys=%s dec=%s", hx([]byte(curpw)), len(seedBlob), ls, b01(good)))
	out.Stat("hist_checks", 1)
}

func history(r *gen.Rand, sign string, steps int) {
	dir := filepath.Join(tmpRoot, fmt.Sprintf("h%d", r.U64()%1000000))
	h := &hist{e: newEnv(dir, sign), sign: sign, keys: map[string][]byte{}, badKeys: map[string][]byte{}}
	defer h.e.close()
	h.signID = crypto.GetType(sign)
	c, err := crypto.Load(sign, -1)
	if err != nil {
		out.Note("no driver " + sign)
		return
	}
	k, _ := c.GenKey()
	h.keylen = len(k.Bytes())
	h.opInit(r, r.Chance(1, 2))
	h.opCheck(r)
	withBad := r.Chance(1, 3)
	for i := 0; i < steps; i++ {
		if withBad && r.Chance(1, 10) {
			h.opAddBad(r)
			continue
		}
		switch r.Pick(5, 2, 6, 4) {
		case 0:
			h.opAdd(r, h.keylen, r.Chance(1, 2), r.Chance(1, 2))
		case 1:
			h.opAdd(r, []int{16, 48, 80, 31, 33}[r.Intn(5)], false, false)
		case 2:
			h.opSetPasswd(r)
			h.opCheck(r)
		case 3:
			h.opCheck(r)
		}
	}
	h.opCheck(r)
	out.Stat("histories_"+sign, 1)
}

func main() {
	defer out.Flush()
	tmpRoot = os.Getenv("VERIF_TMP")
	if tmpRoot == "" {
		tmpRoot = filepath.Join(os.TempDir(), fmt.Sprintf("h_c37.%d", os.Getpid()))
	}
	os.MkdirAll(tmpRoot, 0o755)
	r := gen.New(gen.Seed())
	if lines := gen.ReplayLines(); lines != nil {
		replay(r, lines)
		return
	}
	part1(r)
	for _, sign := range []string{"secp256k1", "ed25519", "sm2"} {
		for k := 0; k < gen.Scale(3, 50); k++ {
			history(r, sign, 12+r.Intn(14))
		}
	}
	out.Sample("pure: cbc/gcm <password> <new|legacy|raw|wrongpw|garbage|trunc> <length>; histories: w.init / w.add / w.setpasswd / w.check on a real wallet store per signature type")
}

// replay executes the pure-function op lines of a corpus file (histories depend on fresh random keys and are
// replayed by seed).
func replay(r *gen.Rand, lines []string) {
	for _, l := range lines {
		f := strings.Fields(l)
		if len(f) == 0 {
			continue
		}
		pw := func(s string) []byte {
			if s == "-" {
				return nil
			}
			b, _ := hex.DecodeString(s)
			return b
		}
		var n int
		switch {
		case f[0] == "kdf" && len(f) == 2:
			opKdf(pw(f[1]))
		case f[0] == "cbc" && len(f) == 4:
			fmt.Sscan(f[3], &n)
			opCbc(r, pw(f[1]), f[2], n)
		case f[0] == "gcm" && len(f) == 4:
			fmt.Sscan(f[3], &n)
			opGcm(r, pw(f[1]), f[2], n)
		default:
			out.Op(l, "bad-op")
		}
	}
}
