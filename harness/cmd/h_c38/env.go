// env.go: stands up a real chain33 wallet (wallet.New + SetQueueClient) on a real key-value store under
// $VERIF_TMP, with stub blockchain/mempool/store/exec/consensus modules on a real queue.  Shared verbatim by
// h_c37 and h_c38 (one copy per binary; harness/internal is not ours to extend).
package main

import (
	"fmt"
	"os"
	"path/filepath"
	"sync"
	"sync/atomic"
	"time"

	dbm "github.com/33cn/chain33/common/db"
	"github.com/33cn/chain33/queue"
	"github.com/33cn/chain33/types"
	"github.com/33cn/chain33/wallet"
)

// hookDB wraps the wallet's store database: every Get / prefix scan / batch write is announced to `hook`
// (rendez-vous points inside wallet calls), and a batch write can be made to fail.
type hookDB struct {
	dbm.DB
	e *env
}

type hookBatch struct {
	dbm.Batch
	e      *env
	pwHash bool // the batch stages a PasswordHash record: it is a password-change (or save-seed) batch
}

func (b *hookBatch) Set(k, v []byte) {
	if string(k) == "PasswordHash" {
		b.pwHash = true
	}
	b.Batch.Set(k, v)
}

func (d *hookDB) Get(k []byte) ([]byte, error) {
	d.e.at("get:" + string(k))
	return d.DB.Get(k)
}

func (d *hookDB) Iterator(start, end []byte, reverse bool) dbm.Iterator {
	d.e.at("scan:" + string(start))
	return d.DB.Iterator(start, end, reverse)
}

func (d *hookDB) NewBatch(sync bool) dbm.Batch {
	return &hookBatch{Batch: d.DB.NewBatch(sync), e: d.e}
}

var errInjectedWrite = fmt.Errorf("verif: injected batch write failure")

func (b *hookBatch) Write() error {
	b.e.at("write")
	// only the batch of a password change is made to fail (background rescans write batches of their own)
	if b.pwHash && atomic.CompareAndSwapInt32(&b.e.failNextWrite, 1, 0) {
		b.Batch.Reset()
		return errInjectedWrite
	}
	return b.Batch.Write()
}

type env struct {
	cfg   *types.Chain33Config
	q     queue.Queue
	w     *wallet.Wallet
	dir   string
	wdir  string
	stubs sync.WaitGroup
	stubc []queue.Client

	failNextWrite int32
	afterOpen     func(*wallet.Wallet) // optional: called on every wallet object right after SetQueueClient

	// pause control (scripted interleavings): while `armed`, the goroutine that reaches a store access whose
	// name is in `stops` announces it on `paused` and waits for `resume`.
	pmu     sync.Mutex
	armed   bool
	stops   map[string]bool
	paused  chan string
	resume  chan struct{}
	onPoint atomic.Value // func(string): optional observer callback (setup / stress runs); called without pausing
}

func (e *env) setOnPoint(f func(string)) { e.onPoint.Store(f) }

func (e *env) at(point string) {
	if f, _ := e.onPoint.Load().(func(string)); f != nil {
		f(point)
	}
	e.pmu.Lock()
	hit := e.armed && e.stops[point]
	if hit {
		e.armed = false
	}
	e.pmu.Unlock()
	if hit {
		e.paused <- point
		<-e.resume
	}
}

// arm makes the next store access named in pts a pause point.
func (e *env) arm(pts ...string) {
	e.pmu.Lock()
	e.stops = map[string]bool{}
	for _, p := range pts {
		e.stops[p] = true
	}
	e.armed = len(pts) > 0
	e.pmu.Unlock()
}

func newEnv(dir string, signType string) *env {
	e := &env{dir: dir, wdir: filepath.Join(dir, "wallet"), paused: make(chan string), resume: make(chan struct{})}
	e.cfg = types.NewChain33Config(types.GetDefaultCfgstring())
	m := e.cfg.GetModuleConfig()
	m.Wallet.DbPath = e.wdir
	m.Wallet.Driver = "leveldb"
	m.Wallet.SignType = signType
	e.openWallet()
	return e
}

// openWallet: a fresh queue with stub peers (a closed topic cannot be re-subscribed on the same queue) and a
// wallet object on the store directory.
func (e *env) openWallet() {
	e.q = queue.New("verif-wallet")
	e.q.SetConfig(e.cfg)
	e.stubc = nil
	e.startStubs()
	e.w = wallet.New(e.cfg)
	e.w.VerifWrapStoreDB(func(d dbm.DB) dbm.DB { return &hookDB{DB: d, e: e} })
	e.w.SetQueueClient(e.q.Client())
	if e.afterOpen != nil {
		e.afterOpen(e.w)
	}
}

// restart closes the wallet object and opens a new one on the same store: the flag is locked again and the
// password is no longer cached in memory.
func (e *env) restart() {
	e.shutdown()
	e.openWallet()
}

func (e *env) shutdown() {
	e.w.Close()
	for _, c := range e.stubc {
		c.Close()
	}
	e.q.Close()
	done := make(chan struct{})
	go func() { e.stubs.Wait(); close(done) }()
	select {
	case <-done:
	case <-time.After(60 * time.Second):
	}
}

func (e *env) close() {
	e.shutdown()
	os.RemoveAll(e.dir)
}

func (e *env) stub(topic string, f func(c queue.Client, msg *queue.Message)) {
	c := e.q.Client()
	c.Sub(topic)
	e.stubc = append(e.stubc, c)
	e.stubs.Add(1)
	go func() {
		defer e.stubs.Done()
		for msg := range c.Recv() {
			f(c, msg)
		}
	}()
}

var richAccount = types.Encode(&types.Account{Balance: 1000000 * types.DefaultCoinPrecision})

func (e *env) startStubs() {
	e.stub("blockchain", func(c queue.Client, msg *queue.Message) {
		switch msg.Ty {
		case types.EventGetLastHeader:
			msg.Reply(c.NewMessage("", types.EventHeader, &types.Header{Height: 1, StateHash: []byte("verif-state")}))
		case types.EventGetTransactionByAddr:
			msg.Reply(c.NewMessage("", types.EventReplyTxInfo, &types.ReplyTxInfos{}))
		case types.EventGetTransactionByHash:
			msg.Reply(c.NewMessage("", types.EventTransactionDetails, &types.TransactionDetails{}))
		case types.EventGetBlockHeight:
			msg.Reply(c.NewMessage("", types.EventReplyBlockHeight, &types.ReplyBlockHeight{Height: 1}))
		case types.EventIsSync:
			msg.Reply(c.NewMessage("", types.EventReplyIsSync, &types.IsCaughtUp{Iscaughtup: true}))
		case types.EventQueryTx:
			msg.Reply(c.NewMessage("", types.EventTransactionDetail, &types.TransactionDetail{Receipt: &types.ReceiptData{Ty: types.ExecOk}}))
		default:
			msg.Reply(c.NewMessage("", 0, types.ErrActionNotSupport))
		}
	})
	e.stub("mempool", func(c queue.Client, msg *queue.Message) {
		switch msg.Ty {
		case types.EventTx:
			msg.Reply(c.NewMessage("", types.EventReply, &types.Reply{IsOk: true}))
		case types.EventGetProperFee:
			msg.Reply(c.NewMessage("", types.EventReply, &types.ReplyProperFee{ProperFee: 100000}))
		default:
			msg.Reply(c.NewMessage("", 0, types.ErrActionNotSupport))
		}
	})
	e.stub("store", func(c queue.Client, msg *queue.Message) {
		switch msg.Ty {
		case types.EventStoreGet:
			g := msg.Data.(*types.StoreGet)
			vals := make([][]byte, len(g.Keys))
			for i := range vals {
				vals[i] = richAccount // every address holds coins, so a transfer is only stopped by the lock
			}
			msg.Reply(c.NewMessage("", types.EventStoreGetReply, &types.StoreReplyValue{Values: vals}))
		default:
			msg.Reply(c.NewMessage("", 0, types.ErrActionNotSupport))
		}
	})
	for _, t := range []string{"exec", "consensus"} {
		e.stub(t, func(c queue.Client, msg *queue.Message) {
			msg.Reply(c.NewMessage("", types.EventReplyQuery, types.ErrActionNotSupport))
		})
	}
}
