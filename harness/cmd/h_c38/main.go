// h_c38 drives a real chain33 wallet (wallet.New on a leveldb store, real queue, stub peer modules).
//
// Part A (scripted, deterministic, compared line by line with the Lean LTS of Model/C38.lean): unlock with a
// right / wrong password (wallet or ticket-only, with / without timeout), lock, the real unlock timer, status
// readers (IsWalletLocked + GetWalletStatus), a battery of guarded handlers (DumpPrivkey, GetSeed, SignRawTx,
// SendToAddress, DumpPrivkeysFile, GetAllPrivKeys), wallet restarts and ProcWalletSetPasswd calls that are
// HELD at store accesses inside the call (VerifyPasswordHash = p1, batch write = p4; hook
// wallet.VerifWrapStoreDB) so that readers / Lock / blocked callers run at known points of the call.
// Part B (concurrent, predicate only): polling observers while password changes with a wrong old password run
// (transient unlock), and a Lock racing with the load/CAS pair of ProcWalletSetPasswd (lost lock).
//
// The property predicate (C38) is evaluated on the implementation itself with a ghost "a successful unlock
// happened since the last lock / timeout / restart" (#PRED lines).
package main

import (
	"fmt"
	"os"
	"path/filepath"
	"runtime"
	"sort"
	"strings"
	"sync"
	"sync/atomic"
	"time"

	"github.com/33cn/chain33/common"
	"github.com/33cn/chain33/common/address"
	"github.com/33cn/chain33/common/crypto"
	_ "github.com/33cn/chain33/system"
	"github.com/33cn/chain33/types"
	"github.com/33cn/chain33/wallet"

	"verifharness/internal/gen"
	_ "verifharness/internal/quiet"
)

var out = gen.NewOut()

// the variant of ProcWalletSetPasswd the Lean driver is told to model: `code` = /repo as it is (since fd9f097 the
// password change never touches the lock flag).  VERIF_C38_VARIANT=old|oldverifyfirst selects the model of the
// older code, to replay the regression witnesses on an old tree.
var modelVariant = "code"

const (
	blockWait = 300 * time.Millisecond // only for calls the scenario EXPECTS to block
	longWait  = 60 * time.Second       // for calls expected to return / events expected to happen
	timerSecs = 1
)

const txHex = "0a05636f696e73120c18010a081080c2d72f1a01312080897a30c0e2a4a789d684ad443a0131"

var tmpRoot string
var worldSeq int

type spCall struct {
	oldOk, newValid, writeOk bool
	newPass                  string
	done                     chan error
	at                       string // "", "p1", "p4"
}

type pending struct {
	line string
	pass string
	res  chan string
}

type world struct {
	e      *env
	pw     string
	seed   string
	addrs  []string
	keys   map[string]string
	npw    int
	nextra int
	extKey string // a private key the caller supplies in SignRawTx requests (not in the wallet)
	extPub []byte
	nsign  int
	rep    *fakeReporter

	// ghost
	auth    bool
	sp      *spCall
	pend    *pending
	unlockT time.Time
	armedT  bool
}

func errName(err error) string {
	if err == nil {
		return "ok"
	}
	if err == errInjectedWrite || err.Error() == errInjectedWrite.Error() {
		return "ErrWrite"
	}
	return err.Error()
}

func must(err error, what string) {
	if err != nil {
		fmt.Fprintf(os.Stderr, "h_c38 setup: %s: %v\n", what, err)
		out.Flush()
		os.Exit(2)
	}
}

// fakeReporter is a mineStatusReporter as a consensus (mining) plugin registers one; none exists in this repository.
type fakeReporter struct {
	unlocked int32
	name     string
}

func (f *fakeReporter) IsAutoMining() bool   { return false }
func (f *fakeReporter) IsTicketLocked() bool { return atomic.LoadInt32(&f.unlocked) == 0 }
func (f *fakeReporter) PolicyName() string   { return f.name }

// newWorld: fresh wallet directory, seed saved under pw0, two derived accounts and one imported key, locked.
func newWorld(r *gen.Rand) *world {
	worldSeq++
	dir := filepath.Join(tmpRoot, fmt.Sprintf("w%d", worldSeq))
	w := &world{e: newEnv(dir, "secp256k1"), keys: map[string]string{}}
	w.rep = &fakeReporter{name: w.e.cfg.GetModuleConfig().Consensus.Name}
	w.e.afterOpen = func(wl *wallet.Wallet) {
		atomic.StoreInt32(&w.rep.unlocked, 0) // a restarted node: the plugin starts with the ticket locked
		wl.RegisterMineStatusReporter(w.rep)
	}
	w.e.afterOpen(w.e.w)
	var writes int64
	w.e.setOnPoint(func(p string) {
		if p == "write" {
			atomic.AddInt64(&writes, 1)
		}
	})
	seed, err := w.e.w.GenSeed(0)
	must(err, "GenSeed")
	w.seed = seed.Seed
	w.pw = "verifpass0"
	ok, err := w.e.w.SaveSeed(w.pw, w.seed)
	if !ok {
		must(err, "SaveSeed")
	}
	must(w.e.w.ProcWalletUnLock(&types.WalletUnLock{Passwd: w.pw}), "unlock")
	base := atomic.LoadInt64(&writes)
	for i := 0; i < 2; i++ {
		acc, err := w.e.w.ProcCreateNewAccount(&types.ReqNewAccount{Label: fmt.Sprintf("acc%d", i)})
		must(err, "NewAccount")
		w.addrs = append(w.addrs, acc.Acc.Addr)
	}
	imp := fmt.Sprintf("0x%x", r.Bytes(32))
	acc, err := w.e.w.ProcImportPrivKey(&types.ReqWalletImportPrivkey{Privkey: imp, Label: "imported"})
	must(err, "ImportPrivKey")
	w.addrs = append(w.addrs, acc.Acc.Addr)
	for _, a := range w.addrs {
		k, err := w.e.w.ProcDumpPrivkey(a)
		must(err, "DumpPrivkey")
		w.keys[a] = k
	}
	if c, err := crypto.Load("secp256k1", -1); err == nil {
		if k, err := c.GenKey(); err == nil {
			w.extKey = common.ToHex(k.Bytes())
			w.extPub = k.PubKey().Bytes()
		}
	}
	if w.keys[acc.Acc.Addr] != imp {
		must(fmt.Errorf("imported key %s dumped as %s", imp, w.keys[acc.Acc.Addr]), "import/dump")
	}
	// every created / imported account starts one background rescan that ends with one batch write: wait for
	// them, so that no foreign goroutine can run into an armed pause point later
	dl := time.Now().Add(longWait)
	for atomic.LoadInt64(&writes) < base+3+3 && time.Now().Before(dl) {
		time.Sleep(2 * time.Millisecond)
	}
	time.Sleep(5 * time.Millisecond)
	w.e.setOnPoint(func(string) {})
	must(w.e.w.ProcWalletLock(), "lock")
	return w
}

func (w *world) close() { w.e.close() }

func b01(b bool) int {
	if b {
		return 1
	}
	return 0
}

func flagName(locked bool) string {
	if locked {
		return "locked"
	}
	return "unlocked"
}

// readFlag: both raw readers must agree.
func (w *world) readFlag() string {
	a := w.e.w.IsWalletLocked()
	b := w.e.w.GetWalletStatus().IsWalletLock
	if a != b {
		// two separate atomic loads; a concurrent writer may sit in between only in Part B
		return "inconsistent"
	}
	return flagName(a)
}

func (w *world) predUnlocked(where string) {
	switch {
	case w.sp != nil && !w.sp.oldOk:
		out.Pred("C38|ProcWalletSetPasswd|observer-sees-unlocked-during-password-change-with-wrong-old-password",
			where+": locked wallet, no unlock since the last lock/restart; IsWalletLocked()/GetWalletStatus() report unlocked while ProcWalletSetPasswd(wrong old password) is inside VerifyPasswordHash")
	case w.sp != nil:
		out.Pred("C38|ProcWalletSetPasswd|observer-sees-unlocked-during-password-change-of-locked-wallet",
			where+": locked wallet, no unlock since the last lock/restart; readers report unlocked while ProcWalletSetPasswd(right old password) runs at "+w.sp.at)
	default:
		out.Pred("C38|quiescent|wallet-unlocked-without-successful-unlock", where+": no call running, no successful unlock since the last lock/timeout/restart, readers report unlocked")
	}
}

// ---------------------------------------------------------------- guarded handlers

type gres struct{ name, res string }

// one guarded request through the wallet's message loop (the production path) or directly.
func (w *world) guardedBattery() []gres {
	addr := w.addrs[0]
	var rs []gres
	add := func(name string, secret bool, err error) {
		switch {
		case err != nil:
			rs = append(rs, gres{name, errName(err)})
		case secret:
			rs = append(rs, gres{name, "secret"})
		default:
			rs = append(rs, gres{name, "wrong-answer"})
		}
	}
	api := w.e.w.GetAPI()
	rep, err := api.ExecWalletFunc("wallet", "DumpPrivkey", &types.ReqString{Data: addr})
	add("DumpPrivkey", err == nil && rep.(*types.ReplyString).Data == w.keys[addr], err)
	rep, err = api.ExecWalletFunc("wallet", "GetSeed", &types.GetSeedByPw{Passwd: w.pw})
	add("GetSeed", err == nil && rep.(*types.ReplySeed).Seed == w.seed, err)
	rep, err = api.ExecWalletFunc("wallet", "SignRawTx", &types.ReqSignRawTx{Addr: addr, TxHex: txHex, Expire: "0"})
	add("SignRawTx", err == nil && len(rep.(*types.ReplySignRawTx).TxHex) > len(txHex), err)
	rep, err = api.ExecWalletFunc("wallet", "WalletSendToAddress", &types.ReqWalletSendToAddress{From: addr, To: w.addrs[1], Amount: 100000000, Note: "verif"})
	add("WalletSendToAddress", err == nil && len(rep.(*types.ReplyHash).Hash) > 0, err)
	fn := filepath.Join(w.e.dir, fmt.Sprintf("dump%d.keys", time.Now().UnixNano()))
	_, err = api.ExecWalletFunc("wallet", "DumpPrivkeysFile", &types.ReqPrivkeysFile{FileName: fn, Passwd: "filepass1"})
	st, serr := os.Stat(fn)
	add("DumpPrivkeysFile", err == nil && serr == nil && st.Size() > 0, err)
	if err != nil && serr == nil {
		rs = append(rs, gres{"DumpPrivkeysFile.file", "file-written-although-error"})
	}
	os.Remove(fn)
	if !w.auth {
		// handlers that would store a new key / spend from every account: only tried while the wallet must be locked
		w.nextra++
		_, err = api.ExecWalletFunc("wallet", "NewAccount", &types.ReqNewAccount{Label: fmt.Sprintf("extra%d", w.nextra)})
		add("NewAccount", err == nil, err)
		_, err = api.ExecWalletFunc("wallet", "WalletImportPrivkey", &types.ReqWalletImportPrivkey{Privkey: fmt.Sprintf("0x%064x", 1000+w.nextra), Label: fmt.Sprintf("extraimp%d", w.nextra)})
		add("WalletImportPrivkey", err == nil, err)
		_, err = api.ExecWalletFunc("wallet", "WalletMergeBalance", &types.ReqWalletMergeBalance{To: w.addrs[1]})
		add("WalletMergeBalance", err == nil, err)
		_, err = api.ExecWalletFunc("wallet", "NewAccountByIndex", &types.Int32{Data: 100000001})
		add("NewAccountByIndex", err == nil, err)
	}
	return rs
}

func (w *world) classify(rs []gres) string {
	allSecret, allLocked := true, true
	lockErr := "ErrWalletIsLocked"
	if len(rs) > 0 && rs[0].res == "ErrOnlyTicketUnLocked" {
		lockErr = "ErrOnlyTicketUnLocked" // checkWalletStatus when a mining plugin reports the ticket unlocked
	}
	for _, g := range rs {
		if g.res != "secret" {
			allSecret = false
		}
		if g.res != lockErr {
			allLocked = false
		}
		if g.res == "secret" && !w.auth {
			out.Pred("C38|"+g.name+"|secret-returned-without-successful-unlock",
				g.name+" returned a stored secret / signed with a stored key although no successful unlock happened since the last lock/timeout/restart")
		}
	}
	if allSecret {
		return "secret"
	}
	if allLocked {
		return lockErr
	}
	var parts []string
	for _, g := range rs {
		parts = append(parts, g.name+"="+g.res)
	}
	sort.Strings(parts)
	return "mixed:" + strings.Join(parts, ",")
}

// ---------------------------------------------------------------- scripted executor

func (w *world) startPending(line string, f func() string) string {
	p := &pending{line: line, res: make(chan string, 1)}
	go func() { p.res <- f() }()
	select {
	case r := <-p.res:
		// it was expected to wait for wallet.mtx, but returned: report what it returned
		return "ran:" + r
	case <-time.After(blockWait):
		w.pend = p
		return "not-enabled"
	}
}

// doUnlock performs the call; ghostUnlock applies its effect to the harness's ghost state.
func (w *world) doUnlock(pass string, ticket, timeout bool) string {
	req := &types.WalletUnLock{Passwd: pass, WalletOrTicket: ticket}
	if timeout {
		req.Timeout = timerSecs
	}
	return errName(w.e.w.ProcWalletUnLock(req))
}

func (w *world) ghostUnlock(res string, ticket, timeout bool) {
	if res == "ok" && !ticket {
		w.auth = true
		if timeout {
			w.unlockT = time.Now()
			w.armedT = true
		}
	}
}

func (w *world) unlockPass(pwOk bool) string {
	if pwOk {
		return w.pw
	}
	return "wrong" + w.pw
}

func (w *world) nextPass(valid bool, r *gen.Rand) string {
	w.npw++
	if valid {
		return fmt.Sprintf("verifpass%d", w.npw)
	}
	switch r.Intn(5) {
	case 0:
		return "short1"
	case 1:
		return "waytoolongpassword12345678901234567890"
	case 2:
		return "onlyletters"
	case 3:
		return "1234567890"
	}
	return "with space 12"
}

// waitSp waits until the held call reaches a pause point or returns.
func (w *world) waitSp() (at string, ret string) {
	select {
	case p := <-w.e.paused:
		switch p {
		case "get:PasswordHash":
			w.sp.at = "p1"
		case "write":
			w.sp.at = "p4"
		}
		return w.sp.at, ""
	case err := <-w.sp.done:
		w.e.arm()
		atomic.StoreInt32(&w.e.failNextWrite, 0)
		if err == nil {
			w.pw = w.sp.newPass
		}
		w.sp = nil
		return "", errName(err)
	case <-time.After(longWait):
		return "", "timeout"
	}
}

func armFor(e *env, target string) {
	switch target {
	case "p1":
		e.arm("get:PasswordHash")
	case "p4":
		e.arm("write")
	default:
		e.arm()
	}
}

func (w *world) drainPending() {
	if w.pend == nil {
		return
	}
	p := w.pend
	w.pend = nil
	select {
	case r := <-p.res:
		f := strings.Fields(p.line)
		if f[0] == "unlock" {
			w.ghostUnlock(r, f[2] == "1", f[3] == "1")
			// the call ran after the password change returned: whether its password was right is decided now
			p.line = fmt.Sprintf("unlock %d %s %s", b01(p.pass == w.pw), f[2], f[3])
		}
		if r == "secret" && !w.auth {
			out.Pred("C38|ProcDumpPrivkey|secret-returned-without-successful-unlock", "a key dump that waited for a running password change returned a stored key on a wallet that was never unlocked")
		}
		out.Op(p.line, r)
	case <-time.After(longWait):
		out.Op(p.line, "blocked-forever")
		out.Pred("C38|wallet.mtx|call-still-blocked-after-password-change-returned", p.line)
	}
}

// exec runs a script of op lines (the wire grammar of Driver/C38.lean) on the real wallet.
func (w *world) exec(script []string, r *gen.Rand) {
	for i := 0; i < len(script); i++ {
		line := script[i]
		f := strings.Fields(line)
		if len(f) == 0 {
			continue
		}
		out.Stat("op_"+f[0], 1)
		bit := func(k int) bool { return k < len(f) && f[k] == "1" }
		switch f[0] {
		case "unlock":
			pass, b, c := w.unlockPass(bit(1)), bit(2), bit(3)
			if w.sp != nil && w.pend != nil {
				continue // one waiting caller per held call: the order of two would not be determined
			}
			if w.sp != nil {
				out.Op(line, w.startPending(line, func() string { return w.doUnlock(pass, b, c) }))
				if w.pend != nil {
					w.pend.pass = pass
				}
				continue
			}
			res := w.doUnlock(pass, b, c)
			w.ghostUnlock(res, b, c)
			out.Op(line, res)
		case "lock":
			err := w.e.w.ProcWalletLock()
			if err == nil {
				w.auth = false
			}
			out.Op(line, errName(err))
		case "timer":
			// the real unlock timer: wait until it has fired
			dl := time.Now().Add(longWait)
			for time.Now().Before(w.unlockT.Add(timerSecs * time.Second)) {
				time.Sleep(20 * time.Millisecond)
			}
			time.Sleep(50 * time.Millisecond)
			fired := false
			for time.Now().Before(dl) {
				if w.e.w.IsWalletLocked() {
					fired = true
					break
				}
				time.Sleep(20 * time.Millisecond)
			}
			w.armedT = false
			if fired {
				w.auth = false
				out.Op(line, "ok")
			} else {
				out.Op(line, "not-fired")
				out.Pred("C38|resetTimeout|wallet-still-unlocked-after-unlock-timeout", fmt.Sprintf("unlock with Timeout=%ds, flag still unlocked %v later", timerSecs, longWait))
			}
		case "read":
			if w.armedT && time.Since(w.unlockT) > time.Duration(timerSecs)*time.Second*6/10 {
				// too close to the pending unlock timeout (machine load): this read is not comparable
				out.Stat("read_skipped_near_timeout", 1)
				continue
			}
			res := w.readFlag()
			out.Op(line, res)
			if res == "unlocked" && !w.auth {
				w.predUnlocked("scripted")
			}
		case "guarded":
			if w.sp != nil && w.pend != nil {
				continue
			}
			if w.sp != nil {
				addr := w.addrs[0]
				key := w.keys[addr]
				out.Op(line, w.startPending(line, func() string {
					k, err := w.e.w.ProcDumpPrivkey(addr)
					if err != nil {
						return errName(err)
					}
					if k == key {
						return "secret"
					}
					return "wrong-answer"
				}))
				continue
			}
			if w.armedT && time.Since(w.unlockT) > time.Duration(timerSecs)*time.Second*4/10 {
				out.Stat("guarded_skipped_near_timeout", 1)
				continue
			}
			out.Op(line, w.classify(w.guardedBattery()))
		case "reporter":
			atomic.StoreInt32(&w.rep.unlocked, int32(b01(bit(1))))
			out.Op(line, "ok")
		case "gticket":
			if w.sp != nil {
				continue
			}
			if w.armedT && time.Since(w.unlockT) > time.Duration(timerSecs)*time.Second*4/10 {
				continue
			}
			out.Op(line, w.ticketPaths())
		case "sign":
			if w.sp != nil || len(f) < 3 {
				continue // needs wallet.mtx: would wait for the held call
			}
			if w.armedT && time.Since(w.unlockT) > time.Duration(timerSecs)*time.Second*4/10 {
				out.Stat("sign_skipped_near_timeout", 1)
				continue
			}
			out.Op(line, w.signReq(f[1], f[2]))
		case "restart":
			if w.sp != nil {
				continue
			}
			w.e.restart()
			w.auth = false
			w.armedT = false
			out.Op(line, "ok")
		case "spbegin":
			if i+1 >= len(script) || !strings.HasPrefix(script[i+1], "spto ") {
				out.Op(line, "bad-script")
				continue
			}
			if w.sp != nil {
				out.Op(line, "not-enabled") // a second password change waits for wallet.mtx; the next line drives the held one
				continue
			}
			target := strings.Fields(script[i+1])[1]
			c := &spCall{oldOk: bit(1), newValid: bit(2), writeOk: bit(3), done: make(chan error, 1)}
			c.newPass = w.nextPass(c.newValid, r)
			old := w.pw
			if !c.oldOk {
				old = "wrong" + w.pw
			}
			if !c.writeOk {
				atomic.StoreInt32(&w.e.failNextWrite, 1)
			}
			w.sp = c
			armFor(w.e, target)
			req := &types.ReqWalletSetPasswd{OldPass: old, NewPass: c.newPass}
			go func() {
				defer func() {
					if p := recover(); p != nil {
						c.done <- fmt.Errorf("panic")
					}
				}()
				c.done <- w.e.w.ProcWalletSetPasswd(req)
			}()
			at, ret := w.waitSp()
			flag := w.readFlag()
			if ret == "ErrInvalidPassWord" {
				out.Op(line, "ret:ErrInvalidPassWord")
				if i+1 < len(script) {
					i++ // the spto line has nothing left to run
					out.Op(script[i], "not-enabled")
				}
				continue
			}
			out.Op(line, "mid")
			i++
			if at != "" {
				out.Op(script[i], "at:"+at+" "+flag)
				if flag == "unlocked" && !w.auth {
					w.predUnlocked("held at " + at)
				}
			} else {
				out.Op(script[i], "ret:"+ret+" "+flag)
				if flag == "unlocked" && !w.auth {
					w.predUnlocked("after return")
				}
				w.drainPending()
			}
		case "spsweep":
			// a whole password change with an observer reading at EVERY store access the call makes
			if w.sp != nil {
				continue
			}
			w.sweep(bit(1), bit(2), bit(3), r)
		case "spto":
			if w.sp == nil {
				out.Op(line, "not-enabled")
				continue
			}
			target := f[1]
			if target == w.sp.at {
				// already held there
				out.Op(line, "at:"+target+" "+w.readFlag())
				continue
			}
			if target == "ret" && w.pend != nil {
				// a caller is waiting for wallet.mtx and runs as soon as the call returns: the flag at the return
				// itself cannot be observed
				armFor(w.e, "ret")
				w.e.resume <- struct{}{}
				_, ret := w.waitSp()
				out.Op("spto retp", "ret:"+ret+" -")
				w.drainPending()
				continue
			}
			hadPend := w.pend != nil
			armFor(w.e, target)
			w.e.resume <- struct{}{}
			at, ret := w.waitSp()
			if at == "" && hadPend {
				out.Op("spto retp", "ret:"+ret+" -")
				w.drainPending()
				continue
			}
			flag := w.readFlag()
			if at != "" {
				out.Op(line, "at:"+at+" "+flag)
				if flag == "unlocked" && !w.auth {
					w.predUnlocked("held at " + at)
				}
			} else {
				out.Op(line, "ret:"+ret+" "+flag)
				if flag == "unlocked" && !w.auth {
					w.predUnlocked("after return")
				}
				w.drainPending()
			}
		default:
			out.Op(line, "bad-op")
		}
	}
	// never leave a call held
	for w.sp != nil {
		hadPend := w.pend != nil
		armFor(w.e, "ret")
		w.e.resume <- struct{}{}
		_, ret := w.waitSp()
		if hadPend {
			out.Op("spto retp", "ret:"+ret+" -")
		} else {
			out.Op("spto ret", "ret:"+ret+" "+w.readFlag())
		}
		w.drainPending()
	}
}

// ---------------------------------------------------------------- observer at every store access of a password change

func goid() string {
	var buf [64]byte
	n := runtime.Stack(buf[:], false)
	f := strings.Fields(string(buf[:n]))
	if len(f) > 1 {
		return f[1]
	}
	return "?"
}

// key class of a store access (deterministic text for the op line)
func accessClass(p string) string {
	for _, k := range []string{"get:PasswordHash", "get:walletseed", "get:Encryption", "scan:Account", "write"} {
		if strings.HasPrefix(p, k) {
			return k
		}
	}
	if i := strings.IndexAny(p, ":"); i > 0 {
		if j := strings.IndexAny(p[i+1:], ":"); j > 0 {
			return p[:i+1+j]
		}
	}
	return p
}

type obs struct {
	class, flag string
}

// sweep runs ProcWalletSetPasswd to completion; at every store access made by the call itself (Get / Iterator / batch
// write through VerifWrapStoreDB) the call waits while an observer on this goroutine reads IsWalletLocked() and
// GetWalletStatus() and fires one guarded handler (ProcDumpPrivkey, which has to wait for wallet.mtx).
func (w *world) sweep(oldOk, newValid, writeOk bool, r *gen.Rand) {
	c := &spCall{oldOk: oldOk, newValid: newValid, writeOk: writeOk, done: make(chan error, 1), at: "sweep"}
	c.newPass = w.nextPass(newValid, r)
	old := w.pw
	if !oldOk {
		old = "wrong" + w.pw
	}
	if !writeOk {
		atomic.StoreInt32(&w.e.failNextWrite, 1)
	}
	w.sp = c
	req := &types.ReqWalletSetPasswd{OldPass: old, NewPass: c.newPass}
	obsReq := make(chan string)
	obsAck := make(chan struct{})
	var callGo atomic.Value
	w.e.setOnPoint(func(p string) {
		if g, _ := callGo.Load().(string); g != "" && g == goid() {
			obsReq <- p
			<-obsAck
		}
	})
	go func() {
		defer func() {
			if p := recover(); p != nil {
				c.done <- fmt.Errorf("panic")
			}
		}()
		callGo.Store(goid())
		err := w.e.w.ProcWalletSetPasswd(req)
		callGo.Store("")
		c.done <- err
	}()
	addr, key := w.addrs[0], w.keys[w.addrs[0]]
	var seen []obs
	var dumps []chan string
	var ret string
	running := true
	for running {
		select {
		case p := <-obsReq:
			flag := w.readFlag()
			seen = append(seen, obs{accessClass(p), flag})
			if flag == "unlocked" && !w.auth {
				c.at = "store access " + accessClass(p)
				w.predUnlocked("observer at a store access of the call")
			}
			d := make(chan string, 1)
			dumps = append(dumps, d)
			go func() {
				k, err := w.e.w.ProcDumpPrivkey(addr)
				switch {
				case err != nil:
					d <- errName(err)
				case k == key:
					d <- "secret"
				default:
					d <- "wrong-answer"
				}
			}()
			obsAck <- struct{}{}
		case err := <-c.done:
			ret = errName(err)
			if err == nil {
				w.pw = c.newPass
			}
			running = false
		case <-time.After(longWait):
			ret = "timeout"
			running = false
		}
	}
	w.e.setOnPoint(func(string) {})
	atomic.StoreInt32(&w.e.failNextWrite, 0)
	w.sp = nil
	flag := w.readFlag()
	line := fmt.Sprintf("spbegin %d %d %d", b01(oldOk), b01(newValid), b01(writeOk))
	if ret == "ErrInvalidPassWord" {
		// the call returned before it became a running change in the model: its accesses were plain reads
		for _, o := range seen {
			out.Op("read", o.flag)
		}
		out.Op(line, "ret:ErrInvalidPassWord")
	} else {
		out.Op(line, "mid")
		for _, o := range seen {
			out.Op("spobs "+o.class, o.flag)
		}
		out.Op("spto ret", "ret:"+ret+" "+flag)
	}
	if flag == "unlocked" && !w.auth {
		w.predUnlocked("after return")
	}
	// the key dumps fired during the call ran after it returned
	for _, d := range dumps {
		select {
		case res := <-d:
			if res == "secret" && !w.auth {
				out.Pred("C38|ProcDumpPrivkey|secret-returned-without-successful-unlock", "a key dump fired at a store access of a running password change returned a stored key on a wallet that was never unlocked")
			}
			out.Op("guarded", res)
		case <-time.After(longWait):
			out.Op("guarded", "blocked-forever")
			out.Pred("C38|wallet.mtx|call-still-blocked-after-password-change-returned", "key dump fired during a sweep")
		}
	}
	out.Stat("sweep_calls", 1)
	out.Stat("sweep_observations", int64(len(seen)))
}

// ---------------------------------------------------------------- SignRawTx with both key-selecting fields

const foreignAddr = "1L1zEgVcjqdM2KkQixENd7SZTaudKkcyDu"

func pubOfHexKey(hexkey string) []byte {
	kb, err := common.FromHex(hexkey)
	if err != nil {
		return nil
	}
	c, err := crypto.Load("secp256k1", -1)
	if err != nil {
		return nil
	}
	k, err := c.PrivKeyFromBytes(kb)
	if err != nil {
		return nil
	}
	return k.PubKey().Bytes()
}

// signReq sends one SignRawTx request through the wallet's message loop and reports WHOSE key signed: the public key
// inside the returned transaction is compared with the stored key of Addr and with the key supplied in Privkey.
func (w *world) signReq(addrKind, privKind string) string {
	w.nsign++
	req := &types.ReqSignRawTx{TxHex: txHex, Expire: "0"}
	switch addrKind {
	case "wallet":
		req.Addr = w.addrs[w.nsign%len(w.addrs)]
	case "foreign":
		req.Addr = foreignAddr
	}
	switch privKind {
	case "valid":
		req.Privkey = w.extKey
	case "garbage":
		req.Privkey = []string{"0x00", "0x5Z", "zz", "0x0102"}[w.nsign%4]
	}
	rep, err := w.e.w.GetAPI().ExecWalletFunc("wallet", "SignRawTx", req)
	detail := fmt.Sprintf("SignRawTx{Addr:%q(%s) Privkey:%s}", req.Addr, addrKind, privKind)
	if err != nil {
		if addrKind == "none" && privKind == "garbage" {
			return "ErrPrivkey"
		}
		return errName(err)
	}
	res := "signed:other"
	var tx types.Transaction
	if b, e := common.FromHex(rep.(*types.ReplySignRawTx).TxHex); e == nil && types.Decode(b, &tx) == nil && tx.Signature != nil {
		pub := tx.Signature.Pubkey
		switch {
		case req.Addr != "" && w.keys[req.Addr] != "" && string(pub) == string(pubOfHexKey(w.keys[req.Addr])):
			res = "signed:stored"
		case privKind == "valid" && string(pub) == string(w.extPub):
			res = "signed:supplied"
		case address.PubKeyToAddr(address.DefaultID, pub) == req.Addr:
			res = "signed:stored"
		}
	} else {
		res = "signed:undecodable"
	}
	if !w.auth && res != "signed:supplied" {
		out.Pred("C38|SignRawTx|signed-with-stored-key-without-successful-unlock",
			detail+" on a wallet without a successful unlock since the last lock/timeout/restart -> "+res)
	}
	if !w.auth && res == "signed:supplied" && addrKind != "none" {
		out.Pred("C38|SignRawTx|signed-request-naming-a-wallet-address-without-successful-unlock", detail+" -> "+res)
	}
	return res
}

var addrKinds = []string{"none", "wallet", "foreign"}
var privKinds = []string{"none", "valid", "garbage"}

func signMatrix() []string {
	var s []string
	for _, a := range addrKinds {
		for _, p := range privKinds {
			s = append(s, "sign "+a+" "+p)
		}
	}
	return s
}

// every field combination in every lock state: never unlocked, unlocked, unlocked-then-locked, ticket-only unlock
// (the flag stays locked, the password is cached), locked by the unlock timeout
func signScripts() [][]string {
	cat := func(parts ...[]string) []string {
		var s []string
		for _, p := range parts {
			s = append(s, p...)
		}
		return s
	}
	m := signMatrix()
	return [][]string{
		cat([]string{"restart", "read"}, m),
		cat([]string{"unlock 1 0 0", "read"}, m, []string{"lock", "read"}, m),
		cat([]string{"unlock 1 1 0", "read"}, m),
		cat([]string{"unlock 0 0 0", "unlock 1 1 0", "lock"}, m),
		cat([]string{"unlock 1 0 1", "timer", "read"}, m),
	}
}

// ticketPaths: the two paths that accept "wallet locked, ticket unlocked" by design (mining mode): GetAllPrivKeys (plugin
// interface) and a transfer to the consensus contract.
func (w *world) ticketPaths() string {
	var rs []gres
	ks, err := w.e.w.GetAllPrivKeys()
	switch {
	case err != nil:
		rs = append(rs, gres{"GetAllPrivKeys", errName(err)})
	case len(ks) >= len(w.addrs):
		rs = append(rs, gres{"GetAllPrivKeys", "secret"})
	default:
		rs = append(rs, gres{"GetAllPrivKeys", "wrong-answer"})
	}
	rep, err := w.e.w.GetAPI().ExecWalletFunc("wallet", "WalletSendToAddress",
		&types.ReqWalletSendToAddress{From: w.addrs[0], To: address.ExecAddress(w.rep.name), Amount: 100000000, Note: "verif-ticket"})
	switch {
	case err != nil:
		rs = append(rs, gres{"WalletSendToAddress(consensus)", errName(err)})
	case len(rep.(*types.ReplyHash).Hash) > 0:
		rs = append(rs, gres{"WalletSendToAddress(consensus)", "secret"})
	default:
		rs = append(rs, gres{"WalletSendToAddress(consensus)", "wrong-answer"})
	}
	ticket := atomic.LoadInt32(&w.rep.unlocked) == 1
	same := rs[0].res == rs[1].res
	for _, g := range rs {
		if g.res == "secret" && !w.auth {
			if ticket {
				out.Stat("ticket_mode_key_use_while_locked_"+g.name, 1) // declared scope (by design)
			} else {
				out.Pred("C38|"+g.name+"|secret-returned-without-successful-unlock", g.name+" handed out / used stored keys on a locked wallet although no mining plugin reports the ticket unlocked")
			}
		}
	}
	if same {
		return rs[0].res
	}
	return "mixed:" + rs[0].name + "=" + rs[0].res + "," + rs[1].name + "=" + rs[1].res
}

func ticketScripts() [][]string {
	s := []string{"gticket", "reporter 1", "read", "gticket", "guarded"}
	s = append(s, signMatrix()...)
	s = append(s, "unlock 0 1 0", "unlock 1 1 0", "read", "gticket", "guarded", "lock", "gticket",
		"reporter 0", "gticket", "guarded", "unlock 1 0 0", "gticket", "reporter 1", "gticket", "guarded", "lock", "read", "gticket", "guarded", "reporter 0")
	return [][]string{s}
}

// ---------------------------------------------------------------- script generators

func witnessScript() []string {
	return []string{
		"restart",       // password no longer cached: the old-password check reads the store
		"read",          // locked
		"spbegin 0 1 1", // ProcWalletSetPasswd with a WRONG old password …
		"spto p1",       // … held inside VerifyPasswordHash
		"read",          // a concurrent status reader
		"guarded",       // a key dump at this moment waits for wallet.mtx
		"spto ret",      // the call fails with ErrVerifyOldpasswdFail and restores the flag
		"read", "guarded",
		"spsweep 0 1 1", // observer at every store access: wrong old password …
		"spsweep 1 1 1", // … and a successful change on the locked wallet (password not cached, then cached)
		"spsweep 1 1 0",
		"read", "guarded",
		"unlock 1 0 0", "spsweep 1 1 1", "spsweep 0 1 1", "lock", "read",
	}
}

func randomScript(r *gen.Rand, n int) []string {
	var s []string
	held := "" // "", "p1", "p4"
	memPw := true
	pendUsed := false
	for len(s) < n {
		if held == "" {
			switch r.Pick(18, 10, 14, 8, 30, 6, 24, 16, 5, 8) {
			case 8:
				s = append(s, fmt.Sprintf("reporter %d", b01(r.Bool())))
			case 9:
				s = append(s, "gticket")
			case 7:
				s = append(s, "sign "+addrKinds[r.Intn(3)]+" "+privKinds[r.Intn(3)])
			case 6:
				oldOk := r.Chance(3, 5)
				s = append(s, fmt.Sprintf("spsweep %d %d %d", b01(oldOk), b01(r.Chance(9, 10)), b01(r.Chance(5, 6))))
				if oldOk {
					memPw = true // approximately: a successful change caches the password
				}
			case 0:
				ok := r.Chance(2, 3)
				s = append(s, fmt.Sprintf("unlock %d %d 0", b01(ok), b01(r.Chance(1, 5))))
				if ok {
					memPw = true
				}
			case 1:
				s = append(s, "lock")
			case 2:
				s = append(s, "read")
			case 3:
				s = append(s, "guarded")
			case 4:
				oldOk, newValid, writeOk := r.Chance(1, 2), r.Chance(9, 10), r.Chance(5, 6)
				s = append(s, fmt.Sprintf("spbegin %d %d %d", b01(oldOk), b01(newValid), b01(writeOk)))
				target := []string{"p1", "p4", "ret"}[r.Pick(5, 3, 2)]
				s = append(s, "spto "+target)
				pendUsed = false
				// what the script generator assumes about where the call is now only steers the following choices;
				// the executor follows what really happened
				if !newValid {
					held = ""
				} else if target == "p1" && !memPw {
					held = "p1"
				} else if target != "ret" && oldOk && (target == "p4" || memPw) {
					held = "maybe"
				}
			case 5:
				s = append(s, "restart")
				memPw = false
			}
		} else {
			switch r.Pick(30, 20, 3, 2, 45) {
			case 0:
				s = append(s, "read")
			case 1:
				s = append(s, "lock")
			case 2:
				if !pendUsed {
					s = append(s, "guarded")
					pendUsed = true
				}
			case 3:
				if !pendUsed {
					s = append(s, fmt.Sprintf("unlock %d 0 0", b01(r.Bool())))
					pendUsed = true
				}
			case 4:
				if held == "p1" && r.Bool() {
					s = append(s, "spto p4")
					held = "maybe"
				} else {
					s = append(s, "spto ret")
					held = ""
				}
			}
		}
	}
	if held != "" {
		s = append(s, "spto ret")
	}
	return s
}

func timerScripts() [][]string {
	return [][]string{
		{"unlock 1 0 1", "read", "guarded", "timer", "read", "guarded"},
		{"unlock 1 0 1", "unlock 1 0 0", "read", "timer", "read", "guarded"}, // the second unlock does not cancel the pending timeout
		{"unlock 1 0 1", "lock", "read", "timer", "read"},
	}
}

// ---------------------------------------------------------------- Part B: races

// transient unlock seen by polling observers; the wallet is locked and nobody presents the right password.
func raceTransient(w *world, attempts int, tag string) {
	var stop int32
	var seenRaw, seenStatus, reads, secrets, dumps int64
	var wg sync.WaitGroup
	wg.Add(3)
	go func() {
		defer wg.Done()
		for atomic.LoadInt32(&stop) == 0 {
			if !w.e.w.IsWalletLocked() {
				atomic.AddInt64(&seenRaw, 1)
			}
			atomic.AddInt64(&reads, 1)
		}
	}()
	go func() {
		defer wg.Done()
		for atomic.LoadInt32(&stop) == 0 {
			if !w.e.w.GetWalletStatus().IsWalletLock {
				atomic.AddInt64(&seenStatus, 1)
			}
		}
	}()
	go func() {
		defer wg.Done()
		for atomic.LoadInt32(&stop) == 0 {
			k, err := w.e.w.ProcDumpPrivkey(w.addrs[0])
			atomic.AddInt64(&dumps, 1)
			if err == nil && k == w.keys[w.addrs[0]] {
				atomic.AddInt64(&secrets, 1)
			}
		}
	}()
	req := &types.ReqWalletSetPasswd{OldPass: "wrong" + w.pw, NewPass: "verifpassX1"}
	var want error = types.ErrVerifyOldpasswdFail
	rightOld := strings.HasPrefix(tag, "right-old")
	if rightOld {
		// successful changes (right old password, same new password) on the locked wallet
		req = &types.ReqWalletSetPasswd{OldPass: w.pw, NewPass: w.pw}
		want = nil
	}
	for k := 0; k < attempts; k++ {
		if err := w.e.w.ProcWalletSetPasswd(req); err != want {
			if rightOld {
				out.Note("raceTransient: password change with the right old password failed: " + errName(err))
			} else {
				out.Pred("C38|ProcWalletSetPasswd|wrong-old-password-not-rejected", "concurrent run: "+errName(err))
			}
			break
		}
	}
	atomic.StoreInt32(&stop, 1)
	wg.Wait()
	out.Stat("race_transient_attempts_"+tag, int64(attempts))
	out.Stat("race_transient_reader_polls_"+tag, reads)
	out.Stat("race_transient_seen_IsWalletLocked_"+tag, seenRaw)
	out.Stat("race_transient_seen_GetWalletStatus_"+tag, seenStatus)
	out.Stat("race_transient_dump_calls_"+tag, dumps)
	if seenRaw+seenStatus > 0 {
		sig := "C38|ProcWalletSetPasswd|observer-sees-unlocked-during-password-change-with-wrong-old-password"
		if rightOld {
			sig = "C38|ProcWalletSetPasswd|observer-sees-unlocked-during-password-change-of-locked-wallet"
		}
		out.Pred(sig, fmt.Sprintf("polling observers (%s): %d x IsWalletLocked()==false, %d x GetWalletStatus().IsWalletLock==false during %d ProcWalletSetPasswd calls on a locked wallet that was never unlocked", tag, seenRaw, seenStatus, attempts))
	}
	if secrets > 0 {
		out.Pred("C38|ProcDumpPrivkey|secret-returned-without-successful-unlock", fmt.Sprintf("concurrent run (%s): %d key dumps succeeded on a locked wallet", tag, secrets))
	}
	if w.readFlag() != "locked" {
		out.Pred("C38|quiescent|wallet-unlocked-without-successful-unlock", "after the concurrent run of password changes on a locked wallet ("+tag+") the wallet is unlocked")
	}
}

// lost lock: unlock; ProcWalletSetPasswd(wrong old password) ‖ ProcWalletLock; afterwards the wallet must be locked
// in every linearisation (the Lock call completed, no unlock follows it).
func raceLostLock(w *world, r *gen.Rand, attempts int) {
	var sig, phase int32
	var lockDone = make(chan error, 1)
	var jitter int32
	var quit int32
	go func() {
		for atomic.LoadInt32(&quit) == 0 {
			if atomic.LoadInt32(&phase) == 1 && atomic.LoadInt32(&sig) == 1 {
				for k := int32(0); k < atomic.LoadInt32(&jitter); k++ {
					_ = atomic.LoadInt32(&quit)
				}
				atomic.StoreInt32(&phase, 2)
				lockDone <- w.e.w.ProcWalletLock()
			}
		}
	}()
	var mainSpin int32
	w.e.setOnPoint(func(p string) {
		// first store read of the password change (HasSeed in checkWalletStatus): release the locker
		if p == "get:walletseed" && atomic.LoadInt32(&phase) == 1 && atomic.CompareAndSwapInt32(&sig, 0, 1) {
			for s := int32(0); s < atomic.LoadInt32(&mainSpin); s++ {
				_ = atomic.LoadInt32(&quit)
			}
		}
	})
	defer w.e.setOnPoint(func(string) {})
	hits := 0
	sample := ""
	req := &types.ReqWalletSetPasswd{OldPass: "wrong" + w.pw, NewPass: "verifpassX1"}
	for k := 0; k < attempts; k++ {
		if err := w.e.w.ProcWalletUnLock(&types.WalletUnLock{Passwd: w.pw}); err != nil {
			out.Note("raceLostLock: unlock failed: " + errName(err))
			break
		}
		atomic.StoreInt32(&mainSpin, int32(r.Intn(400)))
		atomic.StoreInt32(&jitter, int32(r.Intn(400)))
		atomic.StoreInt32(&sig, 0)
		atomic.StoreInt32(&phase, 1)
		want := types.ErrVerifyOldpasswdFail
		if k%2 == 1 {
			// every other attempt: a successful change (right old password, same new password)
			req = &types.ReqWalletSetPasswd{OldPass: w.pw, NewPass: w.pw}
			want = nil
		} else {
			req = &types.ReqWalletSetPasswd{OldPass: "wrong" + w.pw, NewPass: "verifpassX1"}
		}
		err := w.e.w.ProcWalletSetPasswd(req)
		var lerr error
		select {
		case lerr = <-lockDone:
		case <-time.After(longWait):
			out.Pred("C38|ProcWalletLock|did-not-return", "lock racing with a password change did not return")
			atomic.StoreInt32(&quit, 1)
			return
		}
		atomic.StoreInt32(&phase, 0)
		if err != want || lerr != nil {
			out.Note(fmt.Sprintf("raceLostLock: setpasswd=%s lock=%s", errName(err), errName(lerr)))
		}
		if !w.e.w.IsWalletLocked() {
			hits++
			k0, derr := w.e.w.ProcDumpPrivkey(w.addrs[0])
			if sample == "" {
				sample = fmt.Sprintf("attempt %d: ProcWalletUnLock ok; ProcWalletSetPasswd = %s ‖ ProcWalletLock = %s; afterwards IsWalletLocked()=false, ProcDumpPrivkey returns key=%v err=%s",
					k, errName(err), errName(lerr), derr == nil && k0 == w.keys[w.addrs[0]], errName(derr))
			}
			w.e.w.ProcWalletLock()
		}
	}
	atomic.StoreInt32(&quit, 1)
	out.Stat("race_lostlock_attempts", int64(attempts))
	out.Stat("race_lostlock_hits", int64(hits))
	if hits > 0 {
		out.Pred("C38|ProcWalletSetPasswd|lock-lost-wallet-stays-unlocked-after-lock",
			fmt.Sprintf("%d of %d attempts: a completed ProcWalletLock concurrent with a ProcWalletSetPasswd (failing or successful) left the wallet unlocked; %s", hits, attempts, sample))
	}
}

// ---------------------------------------------------------------- Part C: concurrent request mixes

type ev struct {
	kind      string // unlock | lock | sp | read | dump
	inv, resp int64
	ok        bool // unlock/lock/sp: returned nil; read: reported unlocked; dump: returned the key
	wrongOld  bool
}

// soup runs `workers` goroutines issuing random requests for `dur`; afterwards every "unlocked" observation and every
// returned key must be explained by a successful unlock that is not followed (in real time) by a completed lock.
func soup(w *world, r *gen.Rand, workers int, dur time.Duration, withSp bool, tag string) {
	start := time.Now()
	now := func() int64 { return int64(time.Since(start)) }
	evs := make([][]ev, workers)
	var wg sync.WaitGroup
	pw := w.pw
	for g := 0; g < workers; g++ {
		wg.Add(1)
		seed := r.U64()
		go func(g int) {
			defer wg.Done()
			rr := gen.New(seed)
			for time.Since(start) < dur {
				e := ev{}
				k := rr.Pick(10, 8, 12, 30, 25, 15)
				if k == 5 && !withSp {
					k = 3
				}
				switch k {
				case 0: // right password
					e.kind = "unlock"
					req := &types.WalletUnLock{Passwd: pw}
					e.inv = now()
					e.ok = w.e.w.ProcWalletUnLock(req) == nil
				case 1: // wrong password
					e.kind = "unlock-wrong"
					e.inv = now()
					if w.e.w.ProcWalletUnLock(&types.WalletUnLock{Passwd: "wrong" + pw}) == nil {
						e.ok = true
					}
				case 2:
					e.kind = "lock"
					e.inv = now()
					e.ok = w.e.w.ProcWalletLock() == nil
				case 3:
					e.kind = "read"
					e.inv = now()
					if rr.Bool() {
						e.ok = !w.e.w.IsWalletLocked()
					} else {
						e.ok = !w.e.w.GetWalletStatus().IsWalletLock
					}
				case 4:
					e.kind = "dump"
					e.inv = now()
					kk, err := w.e.w.ProcDumpPrivkey(w.addrs[0])
					e.ok = err == nil && kk == w.keys[w.addrs[0]]
				case 5: // password change to the same password (right old) or with a wrong old password
					e.kind = "sp"
					e.wrongOld = rr.Chance(2, 3)
					old := pw
					if e.wrongOld {
						old = "wrong" + pw
					}
					e.inv = now()
					e.ok = w.e.w.ProcWalletSetPasswd(&types.ReqWalletSetPasswd{OldPass: old, NewPass: pw}) == nil
				}
				e.resp = now()
				evs[g] = append(evs[g], e)
			}
		}(g)
	}
	wg.Wait()
	var all, unlocks, locks, sps []ev
	for _, l := range evs {
		all = append(all, l...)
	}
	for _, e := range all {
		switch {
		case e.kind == "unlock" && e.ok:
			unlocks = append(unlocks, e)
		case e.kind == "lock" && e.ok:
			locks = append(locks, e)
		case e.kind == "sp":
			sps = append(sps, e)
		case e.kind == "unlock-wrong" && e.ok:
			out.Pred("C38|ProcWalletUnLock|wrong-password-accepted", "concurrent mix "+tag)
		}
	}
	// o is explained iff some successful unlock u has u.inv < o.resp and no completed lock l with u.resp < l.inv and
	// l.resp < o.inv, i.e. u.resp >= M(o) := max{ l.inv : l.resp < o.inv }.
	sort.Slice(locks, func(i, j int) bool { return locks[i].resp < locks[j].resp })
	lockMaxInv := make([]int64, len(locks))
	for i, l := range locks {
		lockMaxInv[i] = l.inv
		if i > 0 && lockMaxInv[i-1] > l.inv {
			lockMaxInv[i] = lockMaxInv[i-1]
		}
	}
	sort.Slice(unlocks, func(i, j int) bool { return unlocks[i].inv < unlocks[j].inv })
	unlockMaxResp := make([]int64, len(unlocks))
	for i, u := range unlocks {
		unlockMaxResp[i] = u.resp
		if i > 0 && unlockMaxResp[i-1] > u.resp {
			unlockMaxResp[i] = unlockMaxResp[i-1]
		}
	}
	explained := func(o ev) bool {
		nl := sort.Search(len(locks), func(i int) bool { return locks[i].resp >= o.inv }) // locks[:nl] completed before o.inv
		mInv := int64(-1)
		if nl > 0 {
			mInv = lockMaxInv[nl-1]
		}
		nu := sort.Search(len(unlocks), func(i int) bool { return unlocks[i].inv >= o.resp }) // unlocks[:nu] invoked before o.resp
		return nu > 0 && unlockMaxResp[nu-1] >= mInv
	}
	var nObs, nBad, nTransient, nLost int
	for _, o := range all {
		if !(o.kind == "read" || o.kind == "dump") || !o.ok {
			continue
		}
		nObs++
		if explained(o) {
			continue
		}
		nBad++
		// password changes overlapping the observation; it is blamed on a change with a wrong old password only if
		// no overlapping change presented the right one (calls also overlap while they wait for wallet.mtx)
		overl := false
		wrongOld := true
		for _, s := range sps {
			if s.inv < o.resp && o.inv < s.resp {
				overl = true
				wrongOld = wrongOld && s.wrongOld
			}
		}
		switch {
		case o.kind == "read" && overl && wrongOld:
			nTransient++
			out.Pred("C38|ProcWalletSetPasswd|observer-sees-unlocked-during-password-change-with-wrong-old-password", "concurrent mix "+tag+": a reader saw unlocked while a password change ran; every preceding unlock was followed by a completed lock")
		case o.kind == "read" && overl:
			nTransient++
			out.Pred("C38|ProcWalletSetPasswd|observer-sees-unlocked-during-password-change-of-locked-wallet", "concurrent mix "+tag)
		case len(sps) > 0:
			// no password change overlaps the observation itself: a lock that completed earlier was lost
			nLost++
			out.Pred("C38|ProcWalletSetPasswd|lock-lost-wallet-stays-unlocked-after-lock", fmt.Sprintf("concurrent mix %s: %s observed unlocked/returned a key at %dns although every successful unlock before it was followed by a completed lock", tag, o.kind, o.inv))
		case o.kind == "dump":
			out.Pred("C38|ProcDumpPrivkey|secret-returned-without-successful-unlock", "concurrent mix "+tag+" (no password change in the mix)")
		default:
			out.Pred("C38|concurrent|wallet-unlocked-without-successful-unlock", "concurrent mix "+tag+" (no password change in the mix)")
		}
	}
	out.Stat("soup_runs_"+tag, 1)
	out.Stat("soup_events_"+tag, int64(len(all)))
	out.Stat("soup_unlocked_observations_"+tag, int64(nObs))
	out.Stat("soup_unexplained_"+tag, int64(nBad))
	// leave the wallet locked
	w.e.w.ProcWalletLock()
}

// ---------------------------------------------------------------- main

func runScripts(r *gen.Rand, scripts [][]string, memPw bool) {
	w := newWorld(r)
	defer w.close()
	for _, s := range scripts {
		// bring the real wallet to the model's reset state: locked, no timer pending, password cached or not
		if w.armedT {
			w.exec([]string{"timer"}, r)
		}
		w.e.w.ProcWalletLock()
		w.auth = false
		atomic.StoreInt32(&w.rep.unlocked, 0)
		if !memPw {
			w.e.restart()
		} else if w.e.w.GetPassword() == "" {
			// cache the password again without unlocking the wallet (ticket-only unlock)
			w.e.w.ProcWalletUnLock(&types.WalletUnLock{Passwd: w.pw, WalletOrTicket: true})
		}
		out.Op(fmt.Sprintf("reset %d", b01(memPw)), "ok")
		w.exec(s, r)
	}
	if w.armedT {
		w.exec([]string{"timer"}, r)
	}
}

func main() {
	defer out.Flush()
	tmpRoot = os.Getenv("VERIF_TMP")
	if tmpRoot == "" {
		tmpRoot = filepath.Join(os.TempDir(), fmt.Sprintf("h_c38.%d", os.Getpid()))
	}
	os.MkdirAll(tmpRoot, 0o755)
	r := gen.New(gen.Seed())
	if v := os.Getenv("VERIF_C38_VARIANT"); v == "old" || v == "oldverifyfirst" || v == "code" {
		modelVariant = v
	}
	out.Op("variant "+modelVariant, "ok")
	if lines := gen.ReplayLines(); lines != nil {
		var s []string
		for _, l := range lines {
			if !strings.HasPrefix(l, "variant") && !strings.HasPrefix(l, "reset") {
				s = append(s, l)
			}
		}
		runScripts(r, [][]string{s}, true)
		return
	}
	t0 := time.Now()
	phase := func(name string) {
		out.Note(fmt.Sprintf("phase %s done at %.1fs", name, time.Since(t0).Seconds()))
	}
	// A: the witness first, then generated scripts, then the real timer
	runScripts(r, [][]string{witnessScript()}, true)
	nWorlds := gen.Scale(2, 12)
	for k := 0; k < nWorlds; k++ {
		var ss [][]string
		for j := 0; j < gen.Scale(10, 40); j++ {
			ss = append(ss, randomScript(r, 8+r.Intn(26)))
		}
		runScripts(r, ss, k%2 == 0)
	}
	runScripts(r, signScripts(), true)
	runScripts(r, signScripts(), false)
	runScripts(r, ticketScripts(), true)
	runScripts(r, ticketScripts(), false)
	phase("scripts")
	runScripts(r, timerScripts(), true)
	phase("timers")
	// B: races
	w := newWorld(r)
	raceTransient(w, gen.Scale(30000, 1500000), "password-cached")
	w.e.restart()
	phase("transient-cached")
	raceTransient(w, gen.Scale(8000, 400000), "password-not-cached")
	raceTransient(w, gen.Scale(4000, 200000), "right-old-password-not-cached")
	w.e.w.ProcWalletLock()
	raceTransient(w, gen.Scale(8000, 400000), "right-old-password-cached")
	phase("transient-not-cached")
	w.e.w.ProcWalletUnLock(&types.WalletUnLock{Passwd: w.pw, WalletOrTicket: true})
	raceLostLock(w, r, gen.Scale(20000, 400000))
	phase("lost-lock")
	for k := 0; k < gen.Scale(6, 60); k++ {
		soup(w, r, 3+r.Intn(4), time.Duration(gen.Scale(150, 400))*time.Millisecond, k%2 == 1, []string{"no-password-change", "with-password-change"}[k%2])
	}
	phase("soup")
	w.close()
	phase("close")
	out.Sample("scripted: restart; spbegin 0 1 1; spto p1 -> at:p1 unlocked (ProcWalletSetPasswd with a wrong old password held inside VerifyPasswordHash; IsWalletLocked()=false)")
	out.Sample("races: polling observers during failing password changes; Lock racing with the load/CAS pair of ProcWalletSetPasswd")
}
