// h_c39 drives the real RPC access-control code of /repo:
//   - JSON-RPC: the complete http.Handler built by JSONRPCServer.Listen (hook VerifHandler), served
//     in-process with arbitrary RemoteAddr, basic-auth headers and request-body shapes;
//   - gRPC: the real grpc.Server (interceptors as installed by NewGRpcServer) served on an in-memory
//     listener whose connections report an arbitrary TCP remote address; unary and streaming calls;
//   - ethrpc: the httpServer's ServeHTTP with arbitrary RemoteAddr.
//
// One op line per request; the implementation's answer is the first gate that stopped the request
// (ip | auth | func | ok). The property predicate (C39) is evaluated independently from the
// configuration: a probe method that RAN for a non-loopback client must be allowed by the spec.
package main

import (
	"bytes"
	"context"
	"encoding/base64"
	"encoding/hex"
	"fmt"
	"io"
	"net"
	"net/http"
	"net/http/httptest"
	"os"
	"strings"
	"sync"
	"sync/atomic"
	"time"

	"github.com/33cn/chain33/client"
	"github.com/33cn/chain33/queue"
	"github.com/33cn/chain33/rpc"
	"github.com/33cn/chain33/rpc/ethrpc"
	"github.com/33cn/chain33/types"
	"google.golang.org/grpc"
	"google.golang.org/grpc/credentials/insecure"
	"google.golang.org/grpc/metadata"
	"google.golang.org/grpc/test/bufconn"

	"verifharness/internal/gen"
	_ "verifharness/internal/quiet"
)

var out = gen.NewOut()

// ---------------------------------------------------------------- probe receiver (JSON-RPC)

type Probe struct{}

var ran atomic.Value // string: last probe method that ran

func mark(n string) { ran.Store(n) }

func (p *Probe) Ping(in *types.ReqNil, result *interface{}) error {
	mark("Ping")
	*result = "pong"
	return nil
}
func (p *Probe) Secret(in *types.ReqNil, result *interface{}) error {
	mark("Secret")
	*result = "s"
	return nil
}
func (p *Probe) CloseQueue(in *types.ReqNil, result *interface{}) error {
	mark("CloseQueue")
	*result = "c"
	return nil
}
func (p *Probe) Version(in *types.ReqNil, result *interface{}) error {
	mark("Version")
	*result = "v"
	return nil
}

// ---------------------------------------------------------------- addresses

type ipT struct {
	kind       string // v4 m4 lo6 v6
	a, b, c, d int
	text       string // v6
}

func (i ipT) wire() string {
	switch i.kind {
	case "v4", "m4":
		return fmt.Sprintf("%s:%d.%d.%d.%d", i.kind, i.a, i.b, i.c, i.d)
	case "lo6":
		return "lo6"
	}
	return "v6:" + hex.EncodeToString([]byte(i.text))
}

// host text as it appears in RemoteAddr
func (i ipT) host() string {
	switch i.kind {
	case "v4":
		return fmt.Sprintf("%d.%d.%d.%d", i.a, i.b, i.c, i.d)
	case "m4":
		return fmt.Sprintf("::ffff:%d.%d.%d.%d", i.a, i.b, i.c, i.d)
	case "lo6":
		return "::1"
	}
	return i.text
}

func (i ipT) remoteAddr(port int) string { return net.JoinHostPort(i.host(), fmt.Sprint(port)) }

func (i ipT) loopback() bool { return net.ParseIP(i.host()).IsLoopback() }

// canonical whitelist text of the address (what an operator would write)
func (i ipT) entry() string {
	switch i.kind {
	case "v4", "m4":
		return fmt.Sprintf("%d.%d.%d.%d", i.a, i.b, i.c, i.d)
	case "lo6":
		return "::1"
	}
	return i.text
}

// ---------------------------------------------------------------- configuration

type cfgT struct {
	whitelist, whitlist, jWL, jBL, gWL, gBL []string
	user, pass                              string
}

func hx(s string) string {
	if s == "" {
		return "-"
	}
	return hex.EncodeToString([]byte(s))
}

func hxList(l []string) string {
	if len(l) == 0 {
		return "-"
	}
	p := make([]string, len(l))
	for i, s := range l {
		p[i] = hex.EncodeToString([]byte(s))
	}
	return strings.Join(p, ",")
}

func (c cfgT) wire() string {
	return fmt.Sprintf("cfg %s %s %s %s %s %s %s %s", hxList(c.whitelist), hxList(c.whitlist), hxList(c.jWL), hxList(c.jBL), hxList(c.gWL), hxList(c.gBL), hx(c.user), hx(c.pass))
}

func has(l []string, s string) bool {
	for _, x := range l {
		if x == s {
			return true
		}
	}
	return false
}

// spec side (from the property text, independent of the code's derived maps)
// the documented wildcard: "*" as the only entry of a key
func (c cfgT) starWildcard() bool {
	return (len(c.whitelist) == 1 && c.whitelist[0] == "*") || (len(c.whitlist) == 1 && c.whitlist[0] == "*")
}

// named assumption zero-entry-is-wildcard: an entry "0.0.0.0" anywhere in a list admits every address
func (c cfgT) zeroEntry() bool { return has(c.whitelist, "0.0.0.0") || has(c.whitlist, "0.0.0.0") }

func (c cfgT) wildcard() bool { return c.starWildcard() || c.zeroEntry() }

func (c cfgT) authOK(cr cred) bool {
	return (c.user == "" && c.pass == "") || (cr.present && cr.raw == "" && cr.u == c.user && cr.p == c.pass)
}
func (c cfgT) onWhitelist(i ipT) bool {
	return has(c.whitelist, i.entry()) || has(c.whitlist, i.entry())
}
func methodOK(wl, bl []string, fn string) bool {
	w := len(wl) == 0 || has(wl, "*") || has(wl, fn)
	b := has(bl, fn) || (len(bl) == 0 && fn == "CloseQueue")
	return w && !b
}

// ---------------------------------------------------------------- servers

type world struct {
	rcfg   *types.RPC
	jh     http.Handler
	eh     http.Handler
	gl     *fakeListener
	cur    cfgT
	subRan int32

	zeroSampled, reinitSampled bool
}

type fakeListener struct {
	*bufconn.Listener
	mu   sync.Mutex
	next net.Addr
}

type fakeConn struct {
	net.Conn
	remote net.Addr
}

func (f *fakeConn) RemoteAddr() net.Addr { return f.remote }

func (l *fakeListener) Accept() (net.Conn, error) {
	c, err := l.Listener.Accept()
	if err != nil {
		return nil, err
	}
	l.mu.Lock()
	r := l.next
	l.mu.Unlock()
	return &fakeConn{Conn: c, remote: r}, nil
}

func newWorld() *world {
	w := &world{}
	cfg := types.NewChain33Config(types.GetDefaultCfgstring())
	q := queue.New("channel")
	q.SetConfig(cfg)
	api, err := client.New(q.Client(), nil)
	if err != nil {
		panic(err)
	}
	w.rcfg = cfg.GetModuleConfig().RPC
	w.rcfg.JrpcBindAddr = "127.0.0.1:0"
	w.rcfg.GrpcBindAddr = "127.0.0.1:0"
	rpc.VerifResetACL()
	rpc.InitCfg(w.rcfg)
	j := rpc.NewJSONRPCServer(q.Client(), api)
	if err := rpc.VerifRegisterName(j, "Probe", &Probe{}); err != nil {
		panic(err)
	}
	if _, err := j.Listen(); err != nil {
		panic(err)
	}
	w.jh = rpc.VerifHandler(j)
	if w.jh == nil {
		panic("no handler exposed (hook missing)")
	}
	g := rpc.NewGRpcServer(q.Client(), api)
	w.gl = &fakeListener{Listener: bufconn.Listen(1 << 20)}
	go rpc.VerifServeGrpc(g, w.gl)
	// fake blockchain module: answers the subscription request so that SubEvent terminates at once
	go func() {
		c := q.Client()
		c.Sub("blockchain")
		for msg := range c.Recv() {
			if msg.Ty == types.EventSubscribePush {
				atomic.AddInt32(&w.subRan, 1)
				msg.Reply(c.NewMessage("rpc", types.EventReplySubscribePush, &types.ReplySubscribePush{IsOk: false, Msg: "probe-ran"}))
			} else {
				msg.Reply(c.NewMessage("rpc", types.EventReply, &types.Reply{IsOk: false, Msg: []byte("probe-other")}))
			}
		}
	}()
	es := ethrpc.NewHTTPServer(q.Client(), api)
	es.EnableRPC()
	h, ok := es.(http.Handler)
	if !ok {
		panic("ethrpc server is not an http.Handler")
	}
	w.eh = h
	return w
}

func (w *world) setCfg(c cfgT) {
	w.cur = c
	w.rcfg.Whitelist = c.whitelist
	w.rcfg.Whitlist = c.whitlist
	w.rcfg.JrpcFuncWhitelist = c.jWL
	w.rcfg.JrpcFuncBlacklist = c.jBL
	w.rcfg.GrpcFuncWhitelist = c.gWL
	w.rcfg.GrpcFuncBlacklist = c.gBL
	w.rcfg.JrpcUserName = c.user
	w.rcfg.JrpcUserPasswd = c.pass
	rpc.VerifResetACL()
	rpc.InitCfg(w.rcfg)
	out.Op(c.wire(), "ok")
	out.Stat("configs", 1)
}

// ---------------------------------------------------------------- JSON-RPC

type cred struct {
	present bool
	u, p    string
	scheme  string // scheme word sent with the credentials ("Basic" by default; the code does not look at it)
	raw     string // if non-empty: literal undecodable header value; modelled as "no credentials"
}

func (c cred) wire() string {
	if !c.present || c.raw != "" {
		return "-"
	}
	return hex.EncodeToString([]byte(c.u)) + ":" + hex.EncodeToString([]byte(c.p))
}

func jsonStr(s string, escapeAll bool) string {
	var b strings.Builder
	b.WriteByte('"')
	for _, r := range s {
		if escapeAll || r == '"' || r == '\\' || r < 0x20 {
			fmt.Fprintf(&b, "\\u%04x", r)
		} else {
			b.WriteRune(r)
		}
	}
	b.WriteByte('"')
	return b.String()
}

// body shapes that decode (encoding/json) to the logical method `m`
// `decoy` is another method name (chosen by the caller as one the configuration allows, if there is one): it
// appears under keys that encoding/json overrides with a later case-insensitively matching key, so the logical
// method of every shape is `m` — the access control must judge `m`, not the decoy.
func bodyShape(r *gen.Rand, m, decoy string) (string, string) {
	mj := jsonStr(m, false)
	dj := jsonStr(decoy, false)
	switch r.Intn(13) {
	case 9:
		return fmt.Sprintf(`{"method":%s,"Method":%s,"params":[{}],"id":10}`, dj, mj), "exact-then-fold"
	case 10:
		return fmt.Sprintf(`{"method":%s,"params":[{}],"id":11,"mEthod":%s}`, dj, mj), "exact-then-fold-late"
	case 11:
		return fmt.Sprintf(`{"Method":"x","method":%s,"METHOD":%s,"params":[{}],"id":12}`, dj, mj), "fold-exact-fold"
	case 12:
		return fmt.Sprintf(`{"method":%s,"id":13,"params":[{}],"method":%s,"Method":%s}`, dj, dj, mj), "dup-exact-then-fold"
	case 0:
		return fmt.Sprintf(`{"method":%s,"params":[{}],"id":1}`, mj), "plain"
	case 1:
		return fmt.Sprintf(`{"Method":%s,"Params":[{}],"ID":7}`, mj), "key-case"
	case 2:
		return fmt.Sprintf(`{"method":%s,"method":%s,"params":[null],"id":2}`, dj, mj), "dup-key-last-wins"
	case 3:
		return fmt.Sprintf(`{"method":%s,"params":[{}],"id":3,"extra":{"method":%s,"Method":%s},"jsonrpc":"2.0"}`, mj, dj, dj), "extra-fields"
	case 4:
		return fmt.Sprintf(`{"method":%s,"params":[],"id":4}`, jsonStr(m, true)), "unicode-escaped"
	case 5:
		return fmt.Sprintf(" \n\t{ \"id\" : 5 , \"params\" : [ {} , 1, 2 ] , \"method\" : %s }\n", mj), "whitespace-extra-params"
	case 6:
		return fmt.Sprintf(`{"METHOD":%s,"method":%s,"params":[{}],"id":6}`, dj, mj), "fold-then-exact"
	case 7:
		return fmt.Sprintf(`{"method":%s,"id":8}`, mj), "no-params"
	default:
		return fmt.Sprintf(`{"params":[{}],"id":9,"method":%s}`, mj), "reordered"
	}
}

// send one JSON-RPC request through the real handler; returns the first gate that stopped it and the probe that ran
func (w *world) jrpcSend(i ipT, c cred, body string) (string, string) {
	ran.Store("")
	req := httptest.NewRequest("POST", "/", bytes.NewReader([]byte(body)))
	req.RemoteAddr = i.remoteAddr(40000 + 7)
	if c.present {
		if c.raw != "" {
			req.Header.Set("Authorization", c.raw)
		} else {
			sch := c.scheme
			if sch == "" {
				sch = "Basic"
			}
			req.Header.Set("Authorization", sch+" "+base64.StdEncoding.EncodeToString([]byte(c.u+":"+c.p)))
		}
	}
	rec := httptest.NewRecorder()
	res := gen.Guard(func() string {
		w.jh.ServeHTTP(rec, req)
		b := rec.Body.String()
		switch {
		case strings.Contains(b, "Address is not authorized"):
			return "ip"
		case strings.Contains(b, "Unauthozied"):
			return "auth"
		case strings.Contains(b, "invalid json request"):
			return "parse"
		case strings.Contains(b, "method is not authorized"):
			return "func"
		}
		return "ok"
	})
	m, _ := ran.Load().(string)
	return res, m
}

// predicate: whichever probe method ran, it must have been allowed
func (w *world) jrpcPred(site string, i ipT, c cred, m, body string) {
	if m == "" {
		return
	}
	out.Stat(site+"_probe_ran", 1)
	if !w.cur.authOK(c) {
		out.Pred("C39|"+site+"|ran-without-auth", fmt.Sprintf("%s ip=%s cred=%v method=%s body=%q", w.cur.wire(), i.wire(), c, m, body))
	}
	if !i.loopback() {
		if !(w.cur.onWhitelist(i) || w.cur.wildcard()) {
			out.Pred("C39|"+site+"|ran-from-unlisted-address", fmt.Sprintf("%s ip=%s method=%s body=%q", w.cur.wire(), i.wire(), m, body))
		}
		if !methodOK(w.cur.jWL, w.cur.jBL, m) {
			out.Pred("C39|"+site+"|ran-disallowed-method", fmt.Sprintf("%s ip=%s method=%s body=%q", w.cur.wire(), i.wire(), m, body))
		}
	}
}

func (w *world) jrpc(i ipT, c cred, method, body, shape string) {
	res, m := w.jrpcSend(i, c, body)
	out.Op(fmt.Sprintf("jrpc %s %s %s", i.wire(), c.wire(), hx(method)), res)
	out.Stat("jrpc_requests", 1)
	out.Stat("jrpc_shape_"+shape, 1)
	out.Stat("jrpc_result_"+res, 1)
	w.jrpcPred("jsonrpc", i, c, m, body)
}

// ---------------------------------------------------------------- JSON-RPC bodies as member lists
//
// The body is generated as the ordered member list of the top-level object (keys and string values unquoted,
// values classified the way the Lean model classifies them), rendered to JSON text with free choices the model
// does not see (whitespace, escapes, which concrete array / "other" literal), and sent through the real
// middleware. The model decodes the same member list into clientRequest (gate) and serverRequest (codec).

type jval struct {
	kind string // s n u a x
	s    string // string value / decimal digits of u
}

type member struct {
	key string
	v   jval
}

type bodyT struct {
	top string // obj | null | other
	ms  []member
}

func (v jval) wire() string {
	switch v.kind {
	case "s":
		return "s" + hex.EncodeToString([]byte(v.s))
	case "u":
		return "u" + v.s
	}
	return v.kind
}

func (b bodyT) wire() string {
	if b.top != "obj" {
		return b.top
	}
	p := []string{"o"}
	for _, m := range b.ms {
		p = append(p, hex.EncodeToString([]byte(m.key))+"="+m.v.wire())
	}
	return strings.Join(p, ";")
}

var arrTexts = []string{`[{}]`, `[]`, `[null]`, `[{},1,2]`, `[ { } ]`, `[{"method":"Probe.Secret"}]`}
var otherTexts = []string{`{"method":"Probe.Secret"}`, `true`, `false`, `-1`, `1.5`, `1e2`, `{}`}
var otherTops = []string{`[{"method":"Probe.Ping","params":[{}],"id":1}]`, `"Probe.Ping"`, `5`, `true`}

func jsonKey(r *gen.Rand, k string) string {
	if r != nil && r.Chance(1, 6) {
		// escape one rune of the key: the decoder unquotes keys before matching them
		rs := []rune(k)
		if len(rs) > 0 {
			j := r.Intn(len(rs))
			var b strings.Builder
			b.WriteByte('"')
			for x, c := range rs {
				if x == j || c == '"' || c == '\\' || c < 0x20 {
					fmt.Fprintf(&b, "\\u%04x", c)
				} else {
					b.WriteRune(c)
				}
			}
			b.WriteByte('"')
			return b.String()
		}
	}
	return jsonStr(k, false)
}

func pickStr(r *gen.Rand, l []string) string {
	if r == nil {
		return l[0]
	}
	return l[r.Intn(len(l))]
}

func (b bodyT) render(r *gen.Rand) string {
	switch b.top {
	case "null":
		return "null"
	case "other":
		return pickStr(r, otherTops)
	}
	sp := func() string {
		if r != nil && r.Chance(1, 8) {
			return pickStr(r, []string{" ", "\n", "\t ", "  "})
		}
		return ""
	}
	var sb strings.Builder
	sb.WriteString(sp() + "{")
	for k, m := range b.ms {
		if k > 0 {
			sb.WriteString("," + sp())
		}
		sb.WriteString(jsonKey(r, m.key) + sp() + ":" + sp())
		switch m.v.kind {
		case "s":
			sb.WriteString(jsonStr(m.v.s, r != nil && r.Chance(1, 10)))
		case "n":
			sb.WriteString("null")
		case "u":
			sb.WriteString(m.v.s)
		case "a":
			sb.WriteString(pickStr(r, arrTexts))
		default:
			sb.WriteString(pickStr(r, otherTexts))
		}
	}
	sb.WriteString("}" + sp())
	return sb.String()
}

func parseBody(s string) (bodyT, bool) {
	if s == "null" || s == "other" {
		return bodyT{top: s}, true
	}
	p := strings.Split(s, ";")
	if p[0] != "o" {
		return bodyT{}, false
	}
	b := bodyT{top: "obj"}
	for _, m := range p[1:] {
		kv := strings.SplitN(m, "=", 2)
		if len(kv) != 2 || kv[1] == "" {
			return b, false
		}
		k, err := hex.DecodeString(kv[0])
		if err != nil {
			return b, false
		}
		v := jval{kind: kv[1][:1]}
		switch v.kind {
		case "s":
			x, err := hex.DecodeString(kv[1][1:])
			if err != nil {
				return b, false
			}
			v.s = string(x)
		case "u":
			v.s = kv[1][1:]
		case "n", "a", "x":
		default:
			return b, false
		}
		b.ms = append(b.ms, member{string(k), v})
	}
	return b, true
}

// key spellings: exact, case variants, the two non-ASCII runes whose fold class contains an ASCII letter
// (U+017F long s folds to S: "param\u017f" IS the params field), and near misses that match no field
var methodKeys = []string{"method", "method", "Method", "METHOD", "mEthod", "methoD", "methods", "metho", "m\u0435thod" /* Cyrillic e: no match */}
var paramsKeys = []string{"params", "params", "Params", "PARAMS", "param\u017f", "PARAM\u017f", "parms"}
var idKeys = []string{"id", "id", "ID", "Id", "iD", "\u0131d" /* dotless i: no match */, "i d"}
var extraKeys = []string{"jsonrpc", "extra", "", "Method ", "\u212aey" /* Kelvin sign */}

func genValue(r *gen.Rand, field string, methods []string) jval {
	str := func() jval { return jval{"s", methods[r.Intn(len(methods))]} }
	small := func() jval { return jval{"u", fmt.Sprint(r.Intn(100))} }
	switch field {
	case "method":
		switch r.Pick(34, 3, 1, 1, 1) {
		case 0:
			return str()
		case 1:
			return jval{kind: "n"}
		case 2:
			return small()
		case 3:
			return jval{kind: "a"}
		}
		return jval{kind: "x"}
	case "params":
		switch r.Pick(30, 4, 1, 1, 1) {
		case 0:
			return jval{kind: "a"}
		case 1:
			return jval{kind: "n"}
		case 2:
			return jval{kind: "x"}
		case 3:
			return str()
		}
		return small()
	case "id":
		switch r.Pick(28, 3, 2, 1, 1, 1) {
		case 0:
			return small()
		case 1:
			return jval{kind: "n"}
		case 2:
			return jval{"u", pickStr(r, []string{"18446744073709551615", "18446744073709551616", "99999999999999999999999"})}
		case 3:
			return str()
		case 4:
			return jval{kind: "x"}
		}
		return jval{kind: "a"}
	}
	switch r.Intn(5) {
	case 0:
		return str()
	case 1:
		return jval{kind: "x"}
	case 2:
		return jval{kind: "a"}
	case 3:
		return jval{kind: "n"}
	}
	return small()
}

func genBody(r *gen.Rand, c cfgT) bodyT {
	switch r.Pick(40, 1, 1) {
	case 1:
		return bodyT{top: "null"}
	case 2:
		return bodyT{top: "other"}
	}
	// method strings: every probe (allowed or not), a spelling variant, an allowed decoy
	methods := []string{"Probe.Ping", "Probe.Secret", "Probe.CloseQueue", "Probe.Version", genMethod(r), allowedDecoy(r, c), ""}
	b := bodyT{top: "obj"}
	add := func(keys []string, field string, n int) {
		for k := 0; k < n; k++ {
			b.ms = append(b.ms, member{keys[r.Intn(len(keys))], genValue(r, field, methods)})
		}
	}
	add(methodKeys, "method", 1+r.Pick(3, 4, 2))
	add(paramsKeys, "params", r.Pick(1, 8, 2))
	add(idKeys, "id", r.Pick(2, 8, 1))
	add(extraKeys, "extra", r.Pick(4, 1))
	sh := make([]member, len(b.ms))
	for x, y := range r.Perm(len(b.ms)) {
		sh[x] = b.ms[y]
	}
	b.ms = sh
	return b
}

func (w *world) jbody(i ipT, c cred, b bodyT, text string) {
	res, m := w.jrpcSend(i, c, text)
	o := res
	if res == "ok" {
		if m == "" {
			o = "ok:-"
		} else {
			o = "ok:" + m
		}
	}
	out.Op(fmt.Sprintf("jbody %s %s %s", i.wire(), c.wire(), b.wire()), o)
	out.Stat("jbody_requests", 1)
	out.Stat("jbody_result_"+res, 1)
	if b.top == "obj" {
		keys := map[string]int{}
		for _, mm := range b.ms {
			if strings.EqualFold(mm.key, "method") {
				keys[mm.key]++
			}
		}
		if len(keys) > 1 {
			out.Stat("jbody_method_under_several_spellings", 1)
		}
		if keys["method"] > 1 {
			out.Stat("jbody_duplicate_exact_method_key", 1)
		}
	}
	w.jrpcPred("jsonrpc-body", i, c, m, text)
}

// ---------------------------------------------------------------- gRPC

func (w *world) dial(i ipT) (*grpc.ClientConn, error) {
	w.gl.mu.Lock()
	host, zone := i.host(), ""
	if k := strings.IndexByte(host, '%'); k >= 0 {
		host, zone = host[:k], host[k+1:] // a zone-scoped peer is a TCPAddr with a Zone, as the kernel reports it
	}
	w.gl.next = &net.TCPAddr{IP: net.ParseIP(host), Zone: zone, Port: 40123}
	w.gl.mu.Unlock()
	return grpc.Dial("bufnet", grpc.WithContextDialer(func(ctx context.Context, s string) (net.Conn, error) {
		return w.gl.Dial()
	}), grpc.WithTransportCredentials(insecure.NewCredentials()))
}

func classifyGrpcErr(err error) string {
	if err == nil {
		return "ok"
	}
	s := err.Error()
	switch {
	case strings.Contains(s, "Address is not authorized"):
		return "ip"
	case strings.Contains(s, "method is not authorized"):
		return "func"
	case strings.Contains(s, "can't get remote ip"):
		return "nopeer"
	}
	return "ok" // reached the handler (which may itself fail, e.g. unknown method / backend error)
}

// basic-auth credentials as gRPC request metadata (what a client wrapping the JSON-RPC convention would send)
func withCred(ctx context.Context, c cred) context.Context {
	if !c.present {
		return ctx
	}
	v := c.raw
	if v == "" {
		v = "Basic " + base64.StdEncoding.EncodeToString([]byte(c.u+":"+c.p))
	}
	return metadata.AppendToOutgoingContext(ctx, "authorization", v)
}

// property clause "basic authentication succeeds when configured", read for gRPC
func (w *world) grpcAuthPred(site string, i ipT, c cred, fn string) {
	if !w.cur.authOK(c) {
		out.Pred("C39|"+site+"|ran-without-basic-auth", fmt.Sprintf("%s ip=%s cred=%s method=%s", w.cur.wire(), i.wire(), c.wire(), fn))
	}
}

func (w *world) grpcUnary(i ipT, fn string, c cred) {
	full := "/types.chain33/" + fn
	opl := fmt.Sprintf("grpc %s %s", i.wire(), hx(full))
	if c.present {
		opl = fmt.Sprintf("grpca %s %s %s", i.wire(), c.wire(), hx(full))
	}
	conn, err := w.dial(i)
	if err != nil {
		out.Op(opl, "dial-error")
		return
	}
	defer conn.Close()
	ctx, cancel := context.WithTimeout(withCred(context.Background(), c), 5*time.Second)
	defer cancel()
	var reply types.VersionInfo
	err = conn.Invoke(ctx, full, &types.ReqNil{}, &reply)
	res := classifyGrpcErr(err)
	reached := res == "ok"
	if reached && err != nil && strings.Contains(err.Error(), "unknown method") {
		// grpc-go answers unknown methods before interceptors: not a registered method, nothing ran
		res = "unknown"
	}
	out.Op(opl, res)
	out.Stat("grpc_unary_requests", 1)
	out.Stat("grpc_unary_result_"+res, 1)
	if c.present {
		out.Stat("grpc_unary_with_credentials", 1)
	}
	if res == "ok" {
		w.grpcAuthPred("grpc-unary", i, c, fn)
	}
	if res == "ok" && !i.loopback() {
		if !(w.cur.onWhitelist(i) || w.cur.wildcard()) {
			out.Pred("C39|grpc-unary|ran-from-unlisted-address", fmt.Sprintf("%s ip=%s method=%s", w.cur.wire(), i.wire(), fn))
		}
		if !methodOK(w.cur.gWL, w.cur.gBL, fn) {
			out.Pred("C39|grpc-unary|ran-disallowed-method", fmt.Sprintf("%s ip=%s method=%s", w.cur.wire(), i.wire(), fn))
		}
	}
}

func (w *world) grpcStream(i ipT) {
	full := "/types.chain33/SubEvent"
	conn, err := w.dial(i)
	if err != nil {
		out.Op(fmt.Sprintf("grpcs %s %s", i.wire(), hx(full)), "dial-error")
		return
	}
	defer conn.Close()
	ctx, cancel := context.WithTimeout(context.Background(), 5*time.Second)
	defer cancel()
	before := atomic.LoadInt32(&w.subRan)
	cl := types.NewChain33Client(conn)
	res := "ok"
	st, err := cl.SubEvent(ctx, &types.ReqSubscribe{Name: fmt.Sprintf("probe-%d", before), Type: 0})
	if err == nil {
		_, err = st.Recv()
	}
	if err != nil && err != io.EOF {
		res = classifyGrpcErr(err)
	}
	ranIt := atomic.LoadInt32(&w.subRan) != before
	if res == "ok" && !ranIt {
		res = "ok-not-ran"
	}
	out.Op(fmt.Sprintf("grpcs %s %s", i.wire(), hx(full)), res)
	out.Stat("grpc_stream_requests", 1)
	out.Stat("grpc_stream_result_"+res, 1)
	if ranIt {
		w.grpcAuthPred("grpc-stream-SubEvent", i, cred{}, "SubEvent")
	}
	if ranIt && !i.loopback() {
		if !(w.cur.onWhitelist(i) || w.cur.wildcard()) {
			out.Pred("C39|grpc-stream-SubEvent|ran-from-unlisted-address", fmt.Sprintf("%s ip=%s", w.cur.wire(), i.wire()))
		}
		if !methodOK(w.cur.gWL, w.cur.gBL, "SubEvent") {
			out.Pred("C39|grpc-stream-SubEvent|ran-disallowed-method", fmt.Sprintf("%s ip=%s", w.cur.wire(), i.wire()))
		}
	}
}

// ---------------------------------------------------------------- ethrpc + direct

func (w *world) eth(i ipT) {
	req := httptest.NewRequest("POST", "/", strings.NewReader(`{"jsonrpc":"2.0","method":"web3_clientVersion","params":[],"id":1}`))
	req.Header.Set("Content-Type", "application/json")
	req.RemoteAddr = i.remoteAddr(40001)
	rec := httptest.NewRecorder()
	res := gen.Guard(func() string {
		w.eh.ServeHTTP(rec, req)
		if rec.Code == http.StatusForbidden {
			return "0"
		}
		return "1"
	})
	out.Op("eth "+i.wire(), res)
	main := "0"
	if rpc.CheckIPWhitelist(i.host()) {
		main = "1"
	}
	out.Op("ipmain "+i.wire(), main)
	out.Stat("eth_requests", 1)
	// predicate: with a non-empty whitelist under either key, eth admits exactly the same addresses
	if (len(w.cur.whitelist) > 0 || len(w.cur.whitlist) > 0) && res != main && res != "panic" {
		key := "whitelist"
		if len(w.cur.whitelist) == 0 {
			key = "whitlist-only"
		} else if len(w.cur.whitlist) > 0 {
			key = "both-keys"
		}
		kind := "eth-admits-main-denies"
		if res == "0" {
			kind = "eth-denies-main-admits"
		}
		out.Pred("C39|ethrpc.checkIPWhitelist|"+key+"|"+kind, fmt.Sprintf("%s ip=%s eth=%s main=%s", w.cur.wire(), i.wire(), res, main))
	}
	if main == "1" && !i.loopback() && !w.cur.onWhitelist(i) && !w.cur.starWildcard() && w.cur.zeroEntry() {
		// named assumption zero-entry-is-wildcard at work: neither listed nor "*"
		if out.Stat("admitted_only_via_0.0.0.0_entry", 1); !w.zeroSampled {
			w.zeroSampled = true
			out.Sample(fmt.Sprintf("assumption zero-entry-is-wildcard: %s admits %s (eth=%s)", w.cur.wire(), i.wire(), res))
		}
	}
	// the main endpoints themselves: admitted non-loopback address must be listed
	if main == "1" && !i.loopback() && !(w.cur.onWhitelist(i) || w.cur.wildcard()) {
		out.Pred("C39|checkIPWhitelist|admits-unlisted-address", fmt.Sprintf("%s ip=%s", w.cur.wire(), i.wire()))
	}
	if res == "1" && !i.loopback() && (len(w.cur.whitelist) > 0 || len(w.cur.whitlist) > 0) && !(w.cur.onWhitelist(i) || w.cur.wildcard()) && main == "1" {
		out.Pred("C39|ethrpc.checkIPWhitelist|admits-unlisted-address", fmt.Sprintf("%s ip=%s", w.cur.wire(), i.wire()))
	}
}

// a second InitIPWhitelist on the same process: the package map is only ever added to (never cleared), so the
// addresses admitted afterwards are those of either configuration. The map is reset to the current
// configuration afterwards.
func (w *world) reinit(wl, wl2 []string, probes []ipT) {
	rpc.InitIPWhitelist(&types.RPC{Whitelist: wl, Whitlist: wl2})
	out.Op(fmt.Sprintf("ipadd %s %s", hxList(wl), hxList(wl2)), "ok")
	out.Stat("reinit_sequences", 1)
	second := cfgT{whitelist: wl, whitlist: wl2}
	for _, i := range probes {
		res := "0"
		if rpc.CheckIPWhitelist(i.host()) {
			res = "1"
		}
		out.Op("ipmain2 "+i.wire(), res)
		if res == "1" && !i.loopback() {
			covered1 := w.cur.onWhitelist(i) || w.cur.wildcard()
			covered2 := second.onWhitelist(i) || second.wildcard()
			if !covered1 && !covered2 {
				out.Pred("C39|checkIPWhitelist|reinit-admits-address-of-neither-config", fmt.Sprintf("%s then %s %s ip=%s", w.cur.wire(), hxList(wl), hxList(wl2), i.wire()))
			}
			if !covered2 {
				// assumption "a node calls rpc.InitCfg once" at work: admitted by the earlier configuration only
				if out.Stat("reinit_admitted_by_earlier_config_only", 1); !w.reinitSampled {
					w.reinitSampled = true
					out.Sample(fmt.Sprintf("assumption InitCfg-once: after %s then ipadd %s %s address %s is still admitted", w.cur.wire(), hxList(wl), hxList(wl2), i.wire()))
				}
			}
		}
	}
	rpc.VerifResetACL()
	rpc.InitCfg(w.rcfg)
}

func (w *world) reinitProbe(i ipT) {
	res := "0"
	if rpc.CheckIPWhitelist(i.host()) {
		res = "1"
	}
	out.Op("ipmain2 "+i.wire(), res)
}

// ---------------------------------------------------------------- generators

// canonical texts only: RemoteAddr always comes from net.Addr.String()
var v6texts = []string{"fd00::2", "2001:db8::1", "fe80::1", "::2", "64:ff9b::808:808",
	// zone-scoped link-local addresses: net.ParseIP rejects them, the code then compares the raw text
	"fe80::1%eth0", "fe80::2%lo"}

// whitelist entries that are not IP literals (operators do write these); they can match no client
var oddEntries = []string{"10.0.0.0/8", "example.org", "192.168.1.*", " 10.1.1.1", "<nil>", ""}

func genIP(r *gen.Rand, pool []ipT) ipT {
	switch r.Pick(4, 2, 2, 1, 2, 3) {
	case 0:
		return pool[r.Intn(len(pool))]
	case 1:
		return ipT{kind: "v4", a: 127, b: r.Intn(256), c: r.Intn(256), d: 1 + r.Intn(254)}
	case 2:
		p := pool[r.Intn(len(pool))]
		if p.kind == "v4" {
			return ipT{kind: "m4", a: p.a, b: p.b, c: p.c, d: p.d}
		}
		return p
	case 3:
		return ipT{kind: "lo6"}
	case 4:
		return ipT{kind: "v6", text: v6texts[r.Intn(len(v6texts))]}
	}
	return ipT{kind: "v4", a: 1 + r.Intn(223), b: r.Intn(256), c: r.Intn(256), d: r.Intn(256)}
}

func genPool(r *gen.Rand) []ipT {
	n := 2 + r.Intn(3)
	p := make([]ipT, n)
	for i := range p {
		a := 1 + r.Intn(223)
		if a == 127 {
			a = 10
		}
		p[i] = ipT{kind: "v4", a: a, b: r.Intn(256), c: r.Intn(256), d: r.Intn(256)}
	}
	if r.Bool() {
		p = append(p, ipT{kind: "v6", text: v6texts[r.Intn(len(v6texts))]})
	}
	return p
}

func genIPList(r *gen.Rand, pool []ipT) []string {
	switch r.Pick(3, 2, 6, 1, 1) {
	case 0:
		return nil
	case 1:
		return []string{"*"}
	case 2:
		n := 1 + r.Intn(3)
		var l []string
		for k := 0; k < n; k++ {
			l = append(l, pool[r.Intn(len(pool))].entry())
		}
		if r.Chance(1, 6) {
			l = append(l, "*")
		}
		if r.Chance(1, 8) {
			l = append(l, "127.0.0.1")
		}
		if r.Chance(1, 4) {
			l = append(l, oddEntries[r.Intn(len(oddEntries))])
		}
		return l
	case 3:
		return []string{"0.0.0.0"}
	}
	return []string{pool[0].entry(), "0.0.0.0"}
}

var funcs = []string{"Ping", "Secret", "CloseQueue", "Version"}

// unary gRPC methods of the real Chain33 service that are harmless to run without a backend
// (CloseQueue is never invoked over gRPC: reaching it would close the harness's queue)
var gfuncs = []string{"Version", "GetServerTime", "GetCryptoList"}

func genFuncList(r *gen.Rand, allowStar bool) []string { return genFuncListFrom(r, allowStar, funcs) }

func genFuncListFrom(r *gen.Rand, allowStar bool, funcs []string) []string {
	switch r.Pick(3, 2, 5) {
	case 0:
		return nil
	case 1:
		if allowStar {
			return []string{"*"}
		}
		return nil
	}
	var l []string
	for _, f := range funcs {
		if r.Chance(2, 5) {
			l = append(l, f)
		}
	}
	if allowStar && r.Chance(1, 8) {
		l = append(l, "*")
	}
	if r.Chance(1, 6) {
		l = append(l, "SubEvent")
	}
	if len(l) == 0 {
		l = []string{funcs[r.Intn(len(funcs))]}
	}
	return l
}

func genCfg(r *gen.Rand, pool []ipT) cfgT {
	c := cfgT{}
	switch r.Pick(4, 3, 2, 1) {
	case 0:
		c.whitelist = genIPList(r, pool)
	case 1:
		c.whitlist = genIPList(r, pool)
	case 2:
		c.whitelist = genIPList(r, pool)
		c.whitlist = genIPList(r, pool)
	}
	c.jWL = genFuncList(r, true)
	c.jBL = genFuncList(r, false)
	c.gWL = genFuncListFrom(r, true, gfuncs)
	c.gBL = genFuncListFrom(r, false, gfuncs)
	if r.Chance(2, 5) {
		c.user, c.pass = "admin", "s3cret:with:colons"
		if r.Bool() {
			c.pass = "pw"
		}
		if r.Chance(1, 6) {
			c.user = ""
		}
	}
	return c
}

func genCred(r *gen.Rand, c cfgT) cred {
	switch r.Pick(4, 2, 2, 1, 1, 1) {
	case 0:
		return cred{present: true, u: c.user, p: c.pass}
	case 1:
		return cred{}
	case 2:
		return cred{present: true, u: c.user, p: c.pass + "x"}
	case 3:
		return cred{present: true, u: "other", p: c.pass}
	case 4:
		return cred{present: true, raw: "Basic !!!notbase64"}
	}
	// right credentials under another scheme word: accepted by checkBasicAuth (the scheme is not inspected);
	// the credentials themselves are correct, so this is modelled as presenting the pair
	return cred{present: true, u: c.user, p: c.pass, scheme: "Bearer"}
}

// a probe method the configuration's method lists allow (if any), else Probe.Ping
func allowedDecoy(r *gen.Rand, c cfgT) string {
	k := r.Intn(len(funcs))
	for d := 0; d < len(funcs); d++ {
		m := "Probe." + funcs[(k+d)%len(funcs)]
		if methodOK(c.jWL, c.jBL, m) {
			return m
		}
	}
	return "Probe.Ping"
}

func genMethod(r *gen.Rand) string {
	f := funcs[r.Intn(len(funcs))]
	switch r.Pick(10, 1, 1, 1, 1, 1, 1) {
	case 0:
		return "Probe." + f
	case 1:
		return "probe." + strings.ToLower(f)
	case 2:
		return "Probe." + strings.ToUpper(f)
	case 3:
		return "x.Probe." + f
	case 4:
		return "Probe." + f + "."
	case 5:
		return f
	}
	return "Probe..Secret." + f
}

func main() {
	defer out.Flush()
	if os.Getenv("VERIF_REPLAY") != "" {
		replay()
		return
	}
	r := gen.New(gen.Seed())
	w := newWorld()
	nCfg := gen.Scale(120, 2500)
	for k := 0; k < nCfg; k++ {
		pool := genPool(r)
		c := genCfg(r, pool)
		w.setCfg(c)
		for q := 0; q < 14; q++ {
			i := genIP(r, pool)
			m := genMethod(r)
			body, shape := bodyShape(r, m, allowedDecoy(r, c))
			w.jrpc(i, genCred(r, c), m, body, shape)
		}
		for q := 0; q < 8; q++ {
			i := genIP(r, pool)
			b := genBody(r, c)
			w.jbody(i, genCred(r, c), b, b.render(r))
		}
		for q := 0; q < 4; q++ {
			cr := cred{}
			if r.Chance(1, 3) {
				cr = genCred(r, c)
			}
			w.grpcUnary(genIP(r, pool), gfuncs[r.Intn(len(gfuncs))], cr)
		}
		w.grpcStream(genIP(r, pool))
		for q := 0; q < 6; q++ {
			w.eth(genIP(r, pool))
		}
		if r.Chance(1, 4) {
			probes := []ipT{pool[0], pool[len(pool)-1], genIP(r, pool), genIP(r, pool)}
			w.reinit(genIPList(r, pool), genIPList(r, pool), probes)
		}
		if k == 0 {
			out.Sample(c.wire() + " ; pool=" + fmt.Sprint(pool))
		}
	}
}

// the `ipmain2 <ip>` lines that directly follow an `ipadd` line
func pendingProbes(rest []string) []string {
	var p []string
	for _, l := range rest {
		f := strings.Fields(l)
		if len(f) != 2 || f[0] != "ipmain2" {
			break
		}
		p = append(p, f[1])
	}
	return p
}

// replay: op lines of the wire grammar (cfg / jrpc / grpc / grpcs / eth / ipmain); bodies use the plain shape.
func replay() {
	w := newWorld()
	unhex := func(s string) string {
		if s == "-" {
			return ""
		}
		b, _ := hex.DecodeString(s)
		return string(b)
	}
	unlist := func(s string) []string {
		if s == "-" {
			return nil
		}
		var l []string
		for _, p := range strings.Split(s, ",") {
			l = append(l, unhex(p))
		}
		return l
	}
	parseIP := func(s string) (ipT, bool) {
		var i ipT
		switch {
		case s == "lo6":
			return ipT{kind: "lo6"}, true
		case strings.HasPrefix(s, "v4:") || strings.HasPrefix(s, "m4:"):
			i.kind = s[:2]
			if _, err := fmt.Sscanf(s[3:], "%d.%d.%d.%d", &i.a, &i.b, &i.c, &i.d); err != nil {
				return i, false
			}
			return i, true
		case strings.HasPrefix(s, "v6:"):
			return ipT{kind: "v6", text: unhex(s[3:])}, true
		}
		return i, false
	}
	lines := gen.ReplayLines()
	skip := 0
	for li, l := range lines {
		if skip > 0 { // `ipmain2` lines already emitted by the `ipadd` they follow
			skip--
			continue
		}
		f := strings.Fields(l)
		switch {
		case len(f) == 9 && f[0] == "cfg":
			w.setCfg(cfgT{unlist(f[1]), unlist(f[2]), unlist(f[3]), unlist(f[4]), unlist(f[5]), unlist(f[6]), unhex(f[7]), unhex(f[8])})
		case len(f) == 4 && (f[0] == "jrpc" || f[0] == "jbody" || f[0] == "grpca"):
			i, ok := parseIP(f[1])
			if !ok {
				out.Op(l, "bad-op")
				continue
			}
			c := cred{}
			if f[2] != "-" {
				p := strings.SplitN(f[2], ":", 2)
				if len(p) == 2 {
					c = cred{present: true, u: unhex(p[0]), p: unhex(p[1])}
					if p[0] == "" {
						c.u = ""
					}
					if p[1] == "" {
						c.p = ""
					}
				}
			}
			if f[0] == "jbody" {
				b, ok := parseBody(f[3])
				if !ok {
					out.Op(l, "bad-op")
					continue
				}
				w.jbody(i, c, b, b.render(nil))
				continue
			}
			if f[0] == "grpca" {
				full := unhex(f[3])
				if !c.present {
					out.Op(l, "bad-op") // `grpca` carries credentials; without them the op is `grpc`
					continue
				}
				w.grpcUnary(i, full[strings.LastIndex(full, "/")+1:], c)
				continue
			}
			m := unhex(f[3])
			w.jrpc(i, c, m, fmt.Sprintf(`{"method":%s,"params":[{}],"id":1}`, jsonStr(m, false)), "plain")
		case len(f) == 3 && f[0] == "ipadd":
			var probes []ipT
			for _, l2 := range pendingProbes(lines[li+1:]) {
				if i, ok := parseIP(l2); ok {
					probes = append(probes, i)
				}
			}
			w.reinit(unlist(f[1]), unlist(f[2]), probes)
			skip = len(probes)
		case len(f) == 3 && (f[0] == "grpc" || f[0] == "grpcs"):
			i, ok := parseIP(f[1])
			if !ok {
				out.Op(l, "bad-op")
				continue
			}
			if f[0] == "grpcs" {
				w.grpcStream(i)
			} else {
				full := unhex(f[2])
				w.grpcUnary(i, full[strings.LastIndex(full, "/")+1:], cred{})
			}
		case len(f) == 2 && (f[0] == "eth" || f[0] == "ipmain"):
			i, ok := parseIP(f[1])
			if !ok {
				out.Op(l, "bad-op")
				continue
			}
			if f[0] == "eth" {
				w.eth(i)
			}
		case len(f) == 2 && f[0] == "ipmain2": // not preceded by `ipadd`: the map is the current configuration's
			i, ok := parseIP(f[1])
			if !ok {
				out.Op(l, "bad-op")
				continue
			}
			w.reinitProbe(i)
		default:
			out.Op(l, "bad-op")
		}
	}
}
