// c25_ext.go — C25/C26 extension: finaliser entry points, clock, restartable nodes, the orphan
// pool constants read from the source, junk orphans.
package chainkit

import (
	"crypto/sha256"
	"fmt"
	"os"
	"path/filepath"
	"regexp"
	"strconv"
	"time"

	dbm "github.com/33cn/chain33/common/db"
	"github.com/33cn/chain33/types"
)

// OrphanLimits reads maxOrphanBlocks and orphanExpirationTime (seconds) from
// $VERIF_REPO/blockchain/orphanpool.go (default /repo); ok=false when the source does not have the
// expected shape (the caller then falls back to the documented constants and says so).
func OrphanLimits() (max int, ttlSec int, ok bool) {
	repo := os.Getenv("VERIF_REPO")
	if repo == "" {
		repo = "/repo"
	}
	src, err := os.ReadFile(filepath.Join(repo, "blockchain", "orphanpool.go"))
	if err != nil {
		return 10240, 600, false
	}
	m1 := regexp.MustCompile(`maxOrphanBlocks\s*=\s*(\d+)`).FindSubmatch(src)
	m2 := regexp.MustCompile(`orphanExpirationTime\s*=\s*time\.Second\s*\*\s*(\d+)`).FindSubmatch(src)
	if m1 == nil || m2 == nil {
		return 10240, 600, false
	}
	max, _ = strconv.Atoi(string(m1[1]))
	ttlSec, _ = strconv.Atoi(string(m2[1]))
	return max, ttlSec, true
}

// SetClockAhead makes types.Now() run sec seconds ahead of the wall clock (process-wide; uses the
// tagged hook types.VerifSetTimeDelta, which has no +-300 s clamp).
func SetClockAhead(sec int64) { types.VerifSetTimeDelta(sec * int64(time.Second)) }

var snowChoiceKey = []byte("blockchain-snowchoice")

// PrimeFinalizer writes the finaliser's record (height 0, no hash — the value a node without a
// configured finaliser holds in memory anyway) into a not yet started node directory, so that
// finalizer.Init starts its healthCheck goroutine, the reader of the channel snowmanAcceptBlock
// signals on.  (Without it the SECOND accepted block blocks its handler goroutine forever and
// BlockChain.Close then never returns.)
func PrimeFinalizer(dir string) {
	chain := filepath.Join(dir, "chain")
	_ = os.MkdirAll(chain, 0o755)
	db := dbm.NewDB("blockchain", "leveldb", chain, 16)
	_ = db.Set(snowChoiceKey, types.Encode(&types.SnowChoice{}))
	db.Close()
}

// Finalized asks the blockchain module for the last finalised block (EventSnowmanLastChoice).
func (n *Node) Finalized() (int64, []byte) {
	c := n.Mock.GetClient()
	msg := c.NewMessage("blockchain", types.EventSnowmanLastChoice, nil)
	if err := c.Send(msg, true); err != nil {
		return -1, nil
	}
	resp, err := c.WaitTimeout(msg, 5*time.Second)
	if err != nil {
		return -1, nil
	}
	sc, ok := resp.GetData().(*types.SnowChoice)
	if !ok {
		return -1, nil
	}
	return sc.Height, sc.Hash
}

// Finalize delivers EventSnowmanAcceptBlk for (height, hash) — what the snowman consensus sends
// when it accepts a block — and returns the finalised height once the handler has run: when the
// request is expected to take effect (block on the best chain, above the current finalised height)
// it waits for the change, otherwise it waits a moment and reads the unchanged value.
func (n *Node) Finalize(height int64, hash []byte) int64 {
	cur, _ := n.Finalized()
	onBest := string(n.HashAt(height)) == string(hash) && len(hash) > 0
	c := n.Mock.GetClient()
	msg := c.NewMessage("blockchain", types.EventSnowmanAcceptBlk, &types.SnowChoice{Height: height, Hash: hash})
	if err := c.Send(msg, false); err != nil {
		return -2
	}
	if onBest && height > cur {
		for i := 0; i < 2000; i++ {
			if h, _ := n.Finalized(); h == height {
				return h
			}
			time.Sleep(time.Millisecond)
		}
		h, _ := n.Finalized()
		return h
	}
	time.Sleep(30 * time.Millisecond)
	h, _ := n.Finalized()
	return h
}

// JunkBlock is a block that belongs to no tree (unknown parent): it can only ever sit in the
// orphan pool.  Deterministic in k.
func JunkBlock(k int) *types.Block {
	p := sha256.Sum256([]byte(fmt.Sprintf("junk-parent-%d", k)))
	t := sha256.Sum256([]byte(fmt.Sprintf("junk-txhash-%d", k)))
	return &types.Block{Version: 0, ParentHash: p[:], TxHash: t[:], StateHash: t[:], Height: 5, BlockTime: int64(1600000000 + k)}
}

// WaitWalletScan waits until the wallet of a (re)started node has recorded at least n
// transactions.  util/testnode imports its test keys into the wallet on every start, which makes
// the wallet scan the chain for their transactions in background goroutines
// (walletBizPlicy.rescanReqTxDetailByAddr: GetTransactionByAddr, then GetTransactionByHashes).  A
// reorganisation between the two queries makes blockchain answer a nil detail, which
// Wallet.GetTxDetailByHashs dereferences (txdetal.GetTx().ActionName()) — the whole process dies.
// A harness that restarts a node on a non-empty chain therefore lets the scan finish first.
func (n *Node) WaitWalletScan(want int, timeout time.Duration) bool {
	if want > 1000 {
		want = 1000
	}
	deadline := time.Now().Add(timeout)
	for {
		r, err := n.Mock.GetAPI().ExecWalletFunc("wallet", "WalletTransactionList",
			&types.ReqWalletTransactionList{Count: int32(want), Direction: 0})
		if err == nil {
			if l, ok := r.(*types.WalletTxDetails); ok && len(l.TxDetails) >= want {
				return true
			}
		}
		if time.Now().After(deadline) {
			return false
		}
		time.Sleep(2 * time.Millisecond)
	}
}
