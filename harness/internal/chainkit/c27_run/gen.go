package c27run

import (
	"fmt"
	"strconv"
	"strings"

	"verifharness/internal/chainkit"
)

// builder assembles the op lines of one case.  It keeps just enough knowledge about the declared
// blocks to write consistent oracle flags (what the producer node will be able to execute).
type gInst struct {
	tag, key                 int
	sig, fee, chain, run     bool
	exp                      string
}

type gBlk struct {
	wid, hdr, parent int
	height, time     int
	work             int64
	txs              []int
	flags            string
	execOK           bool
}

type builder struct {
	name   string
	rec    bool
	hi, lo int
	insts  []gInst
	txl    []string
	blks   map[int]*gBlk
	bll    []string
	nW     int
	ops    []string
	tags   map[int]bool
	base   map[int]int  // tag -> first instance the mempool would admit (valid, never expiring, genesis key)
	pooled map[int]bool // tags submitted to the pool
}

func newCase(name string, rec bool, hi, lo int) *builder {
	return &builder{name: name, rec: rec, hi: hi, lo: lo, blks: map[int]*gBlk{0: {execOK: true}}, tags: map[int]bool{},
		base: map[int]int{}, pooled: map[int]bool{}}
}

func b2s(b bool) string {
	if b {
		return "1"
	}
	return "0"
}

// tx declares an instance; returns its id.
func (b *builder) tx(tag, key int, sig bool, exp string, fee, chain, run bool, to string, amt int64) int {
	id := len(b.insts)
	b.insts = append(b.insts, gInst{tag: tag, key: key, sig: sig, fee: fee, chain: chain, run: run, exp: exp})
	b.txl = append(b.txl, fmt.Sprintf("tx %d %d %d %s %s %s %s %s %s %d", id, tag, key, b2s(sig), exp, b2s(fee), b2s(chain), b2s(run), to, amt))
	b.tags[tag] = true
	if _, ok := b.base[tag]; !ok && key == 0 && sig && fee && chain && run && exp == "n" {
		b.base[tag] = id
	}
	return id
}

// pool modes: which of a block's transactions the receiving node's mempool holds (the pool is
// looked up by Hash(), so the admissible instance of each hash is submitted) before the delivery.
const (
	poolNone = iota
	poolSome
	poolAll
)

// poolFor emits `pool+` for the transactions of block wid according to mode; tags in skip (already
// on the chain: the mempool would refuse them) and tags without an admissible instance are left out.
func (b *builder) poolFor(pick func() bool, mode int, wid int, skip map[int]bool) {
	if mode == poolNone {
		return
	}
	for _, i := range b.blks[wid].txs {
		tag := b.insts[i].tag
		inst, ok := b.base[tag]
		if !ok || b.pooled[tag] || skip[tag] {
			continue
		}
		if mode == poolSome && !pick() {
			continue
		}
		b.pooled[tag] = true
		b.op("pool+ %d", inst)
	}
}

// group declares a well-formed transaction group of n small members (fresh tags from *tag on);
// spec says what the header transaction pays (see buildGroup); returns the member instances.
func (b *builder) group(n int, spec string, tag *int) []int {
	first := len(b.insts)
	ok := spec == "S" || spec == "S+"
	var ids []int
	for i := 0; i < n; i++ {
		b.insts = append(b.insts, gInst{tag: *tag + i, key: 0, sig: true, fee: ok, chain: true, run: true, exp: "n"})
		b.tags[*tag+i] = true
		ids = append(ids, first+i)
	}
	if ok {
		b.base[*tag] = first // the pool takes the packed group under the header member's hash
	}
	b.txl = append(b.txl, fmt.Sprintf("grp %d %d %s %d", first, n, spec, *tag))
	*tag += n
	return ids
}

// plain: a valid transfer of the genesis account, never expiring.
func (b *builder) plain(tag int) int {
	return b.tx(tag, 0, true, "n", true, true, true, "r", int64(1000+tag))
}

// again: another instance of an existing instance's hash class with a different signer / signature validity.
// run: whether the signer can pay the fee (an unfunded key gives ExecErr).
func (b *builder) again(of int, key int, sig bool, run bool, to string, amt int64) int {
	o := b.insts[of]
	return b.tx(o.tag, key, sig, o.exp, o.fee, o.chain, run, to, amt)
}

func expired(exp string, height, tm, hi, lo int) bool {
	if exp == "n" {
		return false
	}
	n, _ := strconv.Atoi(exp[1:])
	switch exp[0] {
	case 'h':
		return n <= height
	case 't':
		return n <= tm
	default:
		return !(n <= height+lo && height <= n+hi)
	}
}

type bopt struct {
	work          int64
	salt          int
	time          int // absolute (relative to genesis) when >= 0
	height        int // override when >= 0
	sig0, root0   bool
	state0        bool
	rootF, stateF byte // 0, or how the declared root is wrong: 'e' empty, 's' short, 'l' long, 'z' zero
	unknownParent int
}

func opt() bopt { return bopt{work: 0, time: -1, height: -1} }

// blk declares a block with a NEW header on parent (a wid with its own header, or 0).
func (b *builder) blk(parent int, txs []int, o bopt) int {
	b.nW++
	wid := b.nW
	p := b.blks[parent]
	g := &gBlk{wid: wid, hdr: wid, parent: parent, txs: txs}
	if o.unknownParent > 0 {
		g.parent = 100000 + o.unknownParent
		p = &gBlk{height: 0, time: 0}
		if o.height > 0 {
			p.height = o.height - 1
		}
	}
	g.height = p.height + 1
	if o.height >= 0 {
		g.height = o.height
	}
	g.time = p.time + 1 + o.salt
	if o.time >= 0 {
		g.time = o.time
	}
	g.work = o.work
	bits := uint32(Gbits)
	if o.work > 0 {
		bits = chainkit.BitsForWork(o.work)
	}
	clean := p.execOK && o.unknownParent == 0 && g.height == p.height+1 && len(txs) > 0
	seen := map[int]bool{}
	for _, i := range txs {
		t := b.insts[i]
		if !t.fee || !t.chain || !t.run || seen[t.tag] || expired(t.exp, g.height, g.time, b.hi, b.lo) {
			clean = false
		}
		seen[t.tag] = true
	}
	// the state flag says whether header.StateHash is what execution of the body gives; a block
	// that cannot be executed on the producer (parent not executable) carries a garbage state hash
	stateFlag := p.execOK && o.unknownParent == 0 && g.height == p.height+1 && len(txs) > 0 && !o.state0
	chk := "k"
	if len(txs) == 0 {
		chk = "e"
	}
	if o.unknownParent == 0 && p.time > g.time {
		chk = "t"
	}
	rf, sf := b2s(!o.root0), b2s(stateFlag)
	if o.rootF != 0 {
		rf = string(o.rootF)
	}
	if o.stateF != 0 {
		sf = string(o.stateF)
	}
	g.flags = b2s(!o.sig0) + rf + sf + chk
	g.execOK = clean && !o.root0 && !o.state0 && o.rootF == 0 && o.stateF == 0
	b.blks[wid] = g
	b.bll = append(b.bll, fmt.Sprintf("blk %d %d %d %d %d %d %s %s", wid, wid, g.parent, g.height, bits, g.time, txList(txs), g.flags))
	return wid
}

// tamper declares a block with the SAME header as base and another body / block signature.
func (b *builder) tamper(base int, txs []int, sig0 bool, sameRoot bool) int {
	b.nW++
	wid := b.nW
	p := b.blks[base]
	bits := uint32(Gbits)
	if p.work > 0 {
		bits = chainkit.BitsForWork(p.work)
	}
	g := &gBlk{wid: wid, hdr: base, parent: p.parent, height: p.height, time: p.time, work: p.work, txs: txs}
	g.flags = b2s(!sig0) + b2s(sameRoot) + string(p.flags[2]) + string(p.flags[3])
	b.blks[wid] = g
	b.bll = append(b.bll, fmt.Sprintf("blk %d %d %d %d %d %d %s %s", wid, base, g.parent, g.height, bits, g.time, txList(txs), g.flags))
	return wid
}

func txList(txs []int) string {
	if len(txs) == 0 {
		return "-"
	}
	var s []string
	for _, t := range txs {
		s = append(s, fmt.Sprint(t))
	}
	return strings.Join(s, ",")
}

func (b *builder) op(f string, a ...interface{}) { b.ops = append(b.ops, fmt.Sprintf(f, a...)) }

func (b *builder) deliver(wid int, src string, bc int) { b.op("deliver %d %s %d", wid, src, bc) }

// observe: the standard observations of the whole state.
func (b *builder) observe() {
	b.op("chain")
	maxH := 0
	for _, g := range b.blks {
		if g.height > maxH {
			maxH = g.height
		}
	}
	for h := 1; h <= maxH+1; h++ {
		b.op("body %d", h)
	}
	for w := 1; w <= b.nW; w++ {
		if g := b.blks[w]; g != nil && g.hdr == g.wid {
			b.op("stored %d", w)
			b.op("td %d", w)
			b.op("isorphan %d", w)
		}
	}
	for t := 0; t < 4096; t++ {
		if b.tags[t] {
			b.op("txidx %d", t)
		}
	}
}

func (b *builder) done() Case {
	rec := 0
	if b.rec {
		rec = 1
	}
	ls := []string{fmt.Sprintf("case %s %d %d %d %d %d %d", b.name, finalized, margin, rec, Gbits, b.hi, b.lo)}
	ls = append(ls, b.txl...)
	ls = append(ls, b.bll...)
	ls = append(ls, b.ops...)
	ls = append(ls, "end")
	return Case{Name: b.name, Lines: ls}
}
