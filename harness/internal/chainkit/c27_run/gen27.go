package c27run

import (
	"fmt"
	"os"

	"verifharness/internal/gen"
)

// C27 cases: every header-field and body mutation (dropped, added, reordered, duplicated or
// altered transactions, altered signatures) of valid blocks, delivered by broadcast or sync (and
// through the fast-download path), followed by delivery of the original block.

// mutation kinds
const (
	mReorder = iota // same header: two transactions swapped
	mAlter          // same header: a transaction replaced by another valid one
	mAlterSig       // same header: a transaction's signature replaced by garbage
	mResign         // same header: a transaction signed by another key (same tx hash, other full hash)
	mDuplicate      // same header: second transaction replaced by a copy of the first
	mBlockSig       // same header, same body: garbage block signature
	mDrop           // header differs by TxCount only: last transaction dropped, TxHash kept stale
	mAdd            // header differs by TxCount only: a transaction added, TxHash stale
	mTxHash         // header field: TxHash corrupted
	mStateHash      // header field: StateHash corrupted
	mHeight         // header field: height + 1
	mParent         // header field: unknown parent hash
	mTime           // header field: block time before the parent's
	mTimeLater      // header field: later block time (still a valid block — another block)
	mDifficulty     // header field: other difficulty (still a valid block under solo — another block)
	mDupTail        // last transaction repeated, tx root AND state root those the body (duplicate executed) really gives
	mStateEmpty     // header field: StateHash EMPTY (zero length)
	mTxHashEmpty    // header field: TxHash EMPTY
	mBothEmpty      // header fields: TxHash and StateHash both EMPTY
	mStateShort     // header field: StateHash one byte short
	mTxHashLong     // header field: TxHash one byte long
	mStateZero      // header field: StateHash 32 zero bytes
	mTxHashZero     // header field: TxHash 32 zero bytes
	nMut
)

var mutName = []string{"reorder", "alter", "altersig", "resign", "duplicate", "blocksig", "drop", "add",
	"txhash", "statehash", "height", "parent", "time", "timelater", "difficulty", "duptail",
	"stateempty", "txhashempty", "bothempty", "stateshort", "txhashlong", "statezero", "txhashzero"}

// mutate declares the mutant of kind k of block x (a new-header block with body txs on parent p).
// sameHdr tells whether the mutant has x's hash.
func (b *builder) mutate(r *gen.Rand, k int, x int, tag *int) (wid int, sameHdr bool) {
	g := b.blks[x]
	txs := append([]int{}, g.txs...)
	fresh := func() int { t := b.plain(*tag); *tag++; return t }
	base := func() bopt {
		o := opt()
		o.work = g.work
		o.time = g.time
		return o
	}
	switch k {
	case mReorder:
		txs[0], txs[1] = txs[1], txs[0]
		return b.tamper(x, txs, false, false), true
	case mAlter:
		txs[r.Intn(len(txs))] = fresh()
		return b.tamper(x, txs, false, false), true
	case mAlterSig:
		i := r.Intn(len(txs))
		txs[i] = b.again(txs[i], 0, false, true, "r", int64(1000+b.insts[txs[i]].tag))
		return b.tamper(x, txs, false, false), true
	case mResign:
		i := r.Intn(len(txs))
		txs[i] = b.again(txs[i], 1, true, false, "r", int64(1000+b.insts[txs[i]].tag))
		return b.tamper(x, txs, false, false), true
	case mDuplicate:
		txs[1] = txs[0]
		return b.tamper(x, txs, false, false), true
	case mBlockSig:
		return b.tamper(x, txs, true, true), true
	case mDrop:
		o := base()
		o.root0 = true
		return b.blk(g.parent, txs[:len(txs)-1], o), false
	case mAdd:
		o := base()
		o.root0 = true
		return b.blk(g.parent, append(txs, fresh()), o), false
	case mTxHash:
		o := base()
		o.root0 = true
		return b.blk(g.parent, txs, o), false
	case mStateHash:
		o := base()
		o.state0 = true
		return b.blk(g.parent, txs, o), false
	case mHeight:
		o := base()
		o.height = g.height + 1
		return b.blk(g.parent, txs, o), false
	case mParent:
		o := base()
		o.unknownParent = 1 + r.Intn(50)
		o.height = g.height
		return b.blk(g.parent, txs, o), false
	case mTime:
		o := base()
		o.time = b.blks[g.parent].time - 1
		if o.time < 0 {
			o.time = g.time + 7
		}
		return b.blk(g.parent, txs, o), false
	case mDupTail:
		return b.blk(g.parent, append(txs, txs[len(txs)-1]), base()), false
	case mStateEmpty, mTxHashEmpty, mBothEmpty, mStateShort, mTxHashLong, mStateZero, mTxHashZero:
		o := base()
		switch k {
		case mStateEmpty:
			o.stateF = 'e'
		case mTxHashEmpty:
			o.rootF = 'e'
		case mBothEmpty:
			o.stateF, o.rootF = 'e', 'e'
		case mStateShort:
			o.stateF = 's'
		case mTxHashLong:
			o.rootF = 'l'
		case mStateZero:
			o.stateF = 'z'
		default:
			o.rootF = 'z'
		}
		return b.blk(g.parent, txs, o), false
	case mTimeLater:
		o := base()
		o.time = g.time + 5 + r.Intn(5)
		return b.blk(g.parent, txs, o), false
	default:
		o := base()
		o.work = g.work + 3 + int64(r.Intn(5))
		if g.work == 0 {
			o.work = 1400 + int64(r.Intn(50))
		}
		return b.blk(g.parent, txs, o), false
	}
}

func src(r *gen.Rand, allowDownload bool) string {
	if allowDownload && r.Chance(1, 3) {
		return "d"
	}
	return "p"
}

// validBlk: a valid block with n fresh plain transactions on parent.
func (b *builder) validBlk(parent, n int, tag *int, o bopt) int {
	var txs []int
	for i := 0; i < n; i++ {
		txs = append(txs, b.plain(*tag))
		*tag++
	}
	return b.blk(parent, txs, o)
}

// scTip: mutants of a block extending the tip, then the genuine block, then a child.
func scTip(r *gen.Rand, name string, kinds []int, mode int, restart bool) Case {
	b := newCase(name, r.Bool(), 600, 200)
	tag := 1
	ws := b.trunk(r, 0, 1+r.Intn(3), &tag)
	tip := ws[len(ws)-1]
	x := b.validBlk(tip, 2+r.Intn(2), &tag, opt())
	y := b.validBlk(x, 1, &tag, opt())
	for _, k := range kinds {
		m, _ := b.mutate(r, k, x, &tag)
		b.poolFor(r.Bool, mode, m, nil)
		b.deliver(m, src(r, true), bc(r))
		if r.Chance(1, 3) {
			b.deliver(m, src(r, true), bc(r)) // the same mutant again
		}
		if r.Chance(1, 2) {
			b.op("stored %d", x)
		}
	}
	if restart {
		b.op("restart") // index, error log, orphan pool and mempool start afresh; the store keeps the bodies
	} else {
		b.poolFor(r.Bool, mode, x, nil)
	}
	b.deliver(x, src(r, true), bc(r))
	b.op("chain")
	b.deliver(y, "p", bc(r))
	b.deliver(x, "p", bc(r))
	b.observe()
	return b.done()
}

// scOrphan: the mutant (and later the genuine block) arrive before the parent.
func scOrphan(r *gen.Rand, name string, k int, mode int) Case {
	b := newCase(name, r.Bool(), 600, 200)
	tag := 1
	ws := b.trunk(r, 0, 1+r.Intn(2), &tag)
	p := b.validBlk(ws[len(ws)-1], 1, &tag, opt())
	x := b.validBlk(p, 2, &tag, opt())
	m, _ := b.mutate(r, k, x, &tag)
	first, second := m, x
	if r.Chance(1, 4) {
		first, second = x, m
	}
	b.poolFor(r.Bool, mode, m, nil)
	b.poolFor(r.Bool, mode, x, nil)
	b.deliver(first, src(r, true), bc(r))
	b.op("isorphan %d", x)
	b.deliver(second, src(r, true), bc(r))
	b.deliver(p, "p", bc(r))
	b.op("chain")
	b.deliver(x, "p", bc(r))
	y := b.validBlk(x, 1, &tag, opt())
	b.deliver(y, "p", bc(r))
	b.observe()
	return b.done()
}

// scSide: the block sits on a side branch when the mutant arrives (it is pre-stored, not
// executed); later the branch becomes the heavier one.
func scSide(r *gen.Rand, name string, k int, download bool, mode int) Case {
	b := newCase(name, r.Bool(), 600, 200)
	tag := 1
	ws := b.trunk(r, 0, margin-1+r.Intn(3), &tag)
	fork := ws[len(ws)-1]
	// main branch: two blocks
	m1 := b.validBlk(fork, 1, &tag, opt())
	m2 := b.validBlk(m1, 1, &tag, opt())
	b.deliver(m1, "p", bc(r))
	b.deliver(m2, "p", bc(r))
	// side branch: x (light), then y, z heavy
	o := opt()
	o.salt = 1
	x := b.validBlk(fork, 2+r.Intn(2), &tag, o)
	oh := opt()
	oh.work = 9000
	y := b.validBlk(x, 1, &tag, oh)
	z := b.validBlk(y, 1, &tag, oh)
	mut, same := b.mutate(r, k, x, &tag)
	s := "p"
	if download {
		s = "d"
	}
	b.poolFor(r.Bool, mode, mut, nil)
	b.poolFor(r.Bool, mode, x, nil)
	b.deliver(mut, s, bc(r))
	b.op("stored %d", x)
	b.deliver(x, "p", bc(r))
	b.op("chain")
	b.deliver(y, "p", bc(r))
	b.op("chain")
	if !(download && same) {
		// (after index.DelNode the Go node keeps a dangling parent pointer the model does not have:
		// no further descendants in that situation)
		b.deliver(z, "p", bc(r))
		b.deliver(x, "p", bc(r))
	}
	// the honest chain goes on
	m3 := b.validBlk(m2, 1, &tag, opt())
	b.deliver(m3, "p", bc(r))
	b.observe()
	return b.done()
}

// scLastInvalid: a heavier side branch whose LAST block is invalid (S-C27c): the reorganisation
// detaches the main branch, attaches the valid part of the side branch and stops.
func scLastInvalid(r *gen.Rand, name string, k int, mode int) Case {
	b := newCase(name, r.Bool(), 600, 200)
	tag := 1
	ws := b.trunk(r, 0, margin-1+r.Intn(3), &tag)
	fork := ws[len(ws)-1]
	oh := opt()
	oh.work = 3000
	m1 := b.validBlk(fork, 1, &tag, oh)
	m2 := b.validBlk(m1, 1, &tag, oh)
	m3 := b.validBlk(m2, 1, &tag, oh)
	for _, w := range []int{m1, m2, m3} {
		b.deliver(w, "p", bc(r))
	}
	o := opt()
	o.salt = 1
	s1 := b.validBlk(fork, 1, &tag, o)
	s2 := b.validBlk(s1, 1, &tag, opt())
	ox := opt()
	ox.work = 50000
	x := b.validBlk(s2, 2, &tag, ox)
	mut, _ := b.mutate(r, k, x, &tag)
	b.deliver(s1, "p", bc(r))
	b.deliver(s2, "p", bc(r))
	b.op("chain")
	b.poolFor(r.Bool, mode, mut, nil)
	b.deliver(mut, "p", bc(r))
	b.op("chain")
	if r.Bool() {
		b.deliver(x, "p", bc(r))
		b.op("chain")
	}
	m4 := b.validBlk(m3, 1, &tag, oh)
	b.deliver(m4, "p", bc(r))
	b.observe()
	return b.done()
}

// scDownloadStale: the tampered body comes through the download path as a tip extension (the
// index node is deleted after the failed execution, the body stays in the store); a competing
// block takes the height; the genuine block then arrives as a SIDE block: dbMaybeStoreBlock skips
// it ("header existed"), and when its branch becomes the heavier one the stale body is executed.
func scDownloadStale(r *gen.Rand, name string, k int) Case {
	b := newCase(name, r.Bool(), 600, 200)
	tag := 1
	ws := b.trunk(r, 0, margin-1+r.Intn(3), &tag)
	tip := ws[len(ws)-1]
	x := b.validBlk(tip, 2+r.Intn(2), &tag, opt())
	o := opt()
	o.salt = 1
	z := b.validBlk(tip, 1, &tag, o)
	oh := opt()
	oh.work = 9000
	y := b.validBlk(x, 1, &tag, oh)
	z2 := b.validBlk(z, 1, &tag, opt())
	mut, _ := b.mutate(r, k, x, &tag)
	b.deliver(mut, "d", bc(r))
	b.op("stored %d", x)
	b.deliver(z, "p", bc(r))
	b.deliver(x, "p", bc(r))
	b.op("stored %d", x)
	b.op("chain")
	b.deliver(y, "p", bc(r))
	b.op("chain")
	b.deliver(z2, "p", bc(r))
	b.deliver(x, "p", bc(r))
	b.observe()
	return b.done()
}

// scDelNodeDesc: an invalid block X arrives through the download path on a SIDE branch (pre-stored,
// not executed), a descendant Y makes the branch the heavier one: the reorganisation executes X, fails,
// and handleErrBlk deletes X's index node (`delnode.parent = nil`) while Y keeps pointing at it.  A
// further descendant Z then walks Z -> Y -> X -> nil: findFork finds no fork point.
//   heavy: Z claims more work than the tip -> getReorganizeNodes(Z, nil) detaches down to genesis;
//   light: the side-chain debug line dereferences the nil fork.
func scDelNodeDesc(r *gen.Rand, name string, heavy bool, restart bool) Case {
	b := newCase(name, r.Bool(), 600, 200)
	tag := 1
	ws := b.trunk(r, 0, margin+r.Intn(2), &tag)
	if restart {
		b.op("restart")
	}
	fork := ws[len(ws)-1]
	m1 := b.validBlk(fork, 1, &tag, opt())
	m2 := b.validBlk(m1, 1, &tag, opt())
	b.deliver(m1, "p", bc(r))
	b.deliver(m2, "p", bc(r))
	ox := opt()
	ox.salt = 1
	ox.state0 = true
	x := b.validBlk(fork, 1, &tag, ox) // wrong state root
	oh := opt()
	oh.work = 9000
	y := b.validBlk(x, 1, &tag, oh)
	oz := opt()
	if heavy {
		oz.work = 90000
	}
	z := b.validBlk(y, 1, &tag, oz)
	b.deliver(x, "d", bc(r))
	b.op("chain")
	b.deliver(y, "p", bc(r))
	b.op("chain")
	om := opt()
	if !heavy {
		om.work = 900000 // the honest branch outweighs Z: Z goes down the side-chain path
	}
	m3 := b.validBlk(m2, 1, &tag, om)
	if !heavy {
		b.deliver(m3, "p", bc(r))
		b.op("chain")
	}
	b.deliver(z, "p", bc(r))
	b.op("chain")
	if heavy {
		b.deliver(m3, "p", bc(r))
	}
	b.op("chain")
	b.observe()
	return b.done()
}

var sameHdrKinds = []int{mReorder, mAlter, mAlterSig, mResign, mDuplicate, mBlockSig}

// GenC27 is the case generator of h_c27.
func GenC27(seed uint64) []Case {
	r := gen.New(seed*0x9e37 + 27)
	var cs []Case
	if os.Getenv("VERIF_C27_PROBE") != "" {
		return []Case{scDelNodeDesc(r, "delnode-heavy", true, false), scDelNodeDesc(r, "delnode-light", false, false),
			scDelNodeDesc(r, "delnode-heavy-restart", true, true), scDelNodeDesc(r, "delnode-light-restart", false, true)}
	}
	modeName := []string{"", "-somepooled", "-allpooled"}
	// every mutation kind as a tip extension with none / ALL of the block's transactions in the
	// receiving node's mempool (and with some of them, for the kinds that touch the body)
	for k := 0; k < nMut; k++ {
		for _, mode := range []int{poolNone, poolAll, poolSome} {
			if mode == poolSome && !(k <= mAdd || k == mDupTail || k == mStateEmpty || k == mBothEmpty) {
				continue
			}
			cs = append(cs, scTip(r, "tip-"+mutName[k]+modeName[mode], []int{k}, mode, false))
		}
	}
	// the genuine block after a restart of the poisoned node
	for _, k := range []int{mReorder, mAlterSig, mBlockSig, mDupTail} {
		cs = append(cs, scTip(r, "tip-restart-"+mutName[k], []int{k}, poolNone, true))
	}
	for k := 0; k < nMut; k++ {
		if k == mParent || k == mHeight {
			continue
		}
		cs = append(cs, scOrphan(r, "orphan-"+mutName[k]+modeName[(k+1)%3], k, (k+1)%3))
	}
	// same-header mutants on a side branch (peer and download), invalid last block of a heavier branch
	for i, k := range sameHdrKinds {
		cs = append(cs, scSide(r, "side-"+mutName[k]+modeName[(i+2)%3], k, false, (i+2)%3))
	}
	for i := 0; i < gen.Scale(2, 40); i++ {
		cs = append(cs, scSide(r, fmt.Sprintf("side-dl%d", i), sameHdrKinds[r.Intn(len(sameHdrKinds))], true, r.Intn(3)))
	}
	// index.DelNode of a node that has descendants (download path, side branch)
	cs = append(cs, scDelNodeDesc(r, "delnode-heavy", true, false), scDelNodeDesc(r, "delnode-light", false, false),
		scDelNodeDesc(r, "delnode-heavy-restart", true, true), scDelNodeDesc(r, "delnode-light-restart", false, true))
	for _, k := range []int{mReorder, mAlterSig, mBlockSig} {
		cs = append(cs, scDownloadStale(r, "dlstale-"+mutName[k], k))
	}
	for i, k := range []int{mStateHash, mTxHash, mReorder, mAlterSig, mDrop, mTime, mDupTail, mDuplicate,
		mStateEmpty, mTxHashEmpty, mBothEmpty, mStateShort, mTxHashLong, mStateZero, mTxHashZero} {
		cs = append(cs, scLastInvalid(r, "lastinvalid-"+mutName[k]+modeName[i%3], k, i%3))
	}
	// several mutants in a row
	for i := 0; i < gen.Scale(6, 320); i++ {
		n := 2 + r.Intn(3)
		ks := r.Perm(nMut)[:n] // distinct kinds: two mutants of one kind could be the same block
		cs = append(cs, scTip(r, fmt.Sprintf("tipmix%d", i), ks, r.Intn(3), r.Chance(1, 6)))
	}
	for i := 0; i < gen.Scale(0, 200); i++ {
		k := r.Intn(nMut)
		switch r.Intn(3) {
		case 0:
			if k != mParent && k != mHeight {
				cs = append(cs, scOrphan(r, fmt.Sprintf("orphanx%d", i), k, r.Intn(3)))
			}
		case 1:
			cs = append(cs, scSide(r, fmt.Sprintf("sidex%d", i), sameHdrKinds[r.Intn(len(sameHdrKinds))], r.Chance(1, 3), r.Intn(3)))
		default:
			cs = append(cs, scLastInvalid(r, fmt.Sprintf("lastx%d", i), k, r.Intn(3)))
		}
	}
	return cs
}
